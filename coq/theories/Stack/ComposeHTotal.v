(* Totality of the heap-level compose: on well-typed inputs (store typing of
   the spine, Stack/ComposeHTyping.v) inside C01's type universe (cfg_ok) and
   the C03 guards, compose_h returns.  With it the C02 theorems hold
   unconditionally for well-formed inputs. *)
From Coq Require Import List NArith ZArith Bool Lia.
From Dials Require Import Base.Outcome Base.Runes Reflect.Ty Reflect.Ptrify Reflect.Heap Stack.Overlay
  Stack.StackSpec Stack.Spine Stack.StackProofs
  Copy.DeepCopy Copy.DeepCopySpec Copy.DeepCopyBasics Copy.DeepCopyInv Copy.DeepCopyTerm Copy.DeepCopyBisim
  Copy.DeepCopyTotal Copy.DeepCopyGuard
  Stack.ComposeH Stack.ComposeHProofs Stack.ComposeHTyping.
Import ListNotations.
Open Scope N_scope.
Local Arguments hset : simpl never.
Local Arguments hget : simpl never.

(* ---- basic facts about shapes ---- *)
Lemma shpb_ok S : (forall t v, shpb S t v = true -> shp S t v) /\
                  (forall fs vs, shpb_fields S fs vs = true -> shp_fields S fs vs).
Proof.
  apply ty_fields_ind; intros; simpl in *; auto.
  - (* TPtr *)
    assert (Hd : match v with HPtr (Some a) => match slook S a with Some _ => true | None => false end
                            | HPtr None => true | _ => false end = true ->
                 match v with HPtr (Some a) => slook S a <> None | HPtr None => True | _ => False end).
    { destruct v as [ | [a|] | | | | | | | ]; try discriminate; auto.
      destruct (slook S a); [intros _ E; discriminate|discriminate]. }
    destruct t; try (apply Hd; exact H0).
    destruct v as [ | [a|] | | | | | | | ]; try discriminate; auto.
    destruct (slook S a) as [[fs'|]|]; try discriminate. apply fields_eqb_eq in H0. subst. reflexivity.
  - destruct v; try discriminate. auto.
  - destruct vs; [reflexivity|discriminate].
  - destruct vs as [|v vs']; [discriminate|]. apply andb_true_iff in H1 as [H1 H2]. split; auto.
    apply orb_true_iff in H1 as [H1|H1]; [apply orb_true_iff in H1 as [H1|H1]|]; auto.
Qed.

Lemma shp_mono S S' : sext S S' ->
  (forall t v, shp S t v -> shp S' t v) /\ (forall fs vs, shp_fields S fs vs -> shp_fields S' fs vs).
Proof.
  intro X. apply ty_fields_ind; intros; simpl in *; auto.
  - assert (Hd : match v with HPtr (Some a) => slook S a <> None | HPtr None => True | _ => False end ->
                 match v with HPtr (Some a) => slook S' a <> None | HPtr None => True | _ => False end).
    { destruct v as [ | [a|] | | | | | | | ]; auto. intros Hn E.
      destruct (slook S a) eqn:G; [apply X in G; congruence|congruence]. }
    destruct t; try (apply Hd; exact H0).
    destruct v as [ | [a|] | | | | | | | ]; auto.
  - destruct v; auto.
  - destruct vs as [|v vs']; auto. destruct H1 as [H1 H2]. split; auto.
    destruct H1 as [H1|[H1|H1]]; auto.
Qed.

Lemma repeat_shp S t n : shp S t (hzero t) -> Forall (shp S t) (repeat_hv n (hzero t)).
Proof. intro H. induction n; simpl; constructor; auto. Qed.

Lemma hzero_shp S : (forall t, shp S t (hzero t)) /\ (forall fs, shp_fields S fs (hzero_fields fs)).
Proof.
  apply ty_fields_ind; intros; simpl; auto.
  - destruct t; simpl; auto.
  - split; auto. destruct (exported f_name) eqn:E.
    + right. right. apply H.
    + left. unfold omit_field. rewrite E. reflexivity.
Qed.

Lemma slook_cons S a c b : slook ((a, c) :: S) b = if b =? a then Some c else slook S b.
Proof. reflexivity. Qed.

Lemma sext_refl S : sext S S.
Proof. intros a c H; exact H. Qed.
Lemma sext_trans A B C : sext A B -> sext B C -> sext A C.
Proof. intros X Y a c H. apply Y, X, H. Qed.

Lemma sext_cons S a c n : sbound S n -> n <= a -> sext S ((a, c) :: S).
Proof.
  intros B Ha x cx H. rewrite slook_cons. destruct (N.eqb_spec x a); auto. subst. apply B in H. lia.
Qed.

(* ---- the state of an overlay: typed heap, bounded by the allocator ---- *)
Record tst (S : styping) (hs : hst) : Prop := {
  t_wt : wt S (fst hs);
  t_sb : sbound S (snd hs);
  t_hb : forall a o, hget (fst hs) a = Some o -> a < snd hs }.

Lemma wt_struct S h a fs : wt S h -> slook S a = Some (CStruct fs) ->
  exists vs, get_struct h a = Some vs /\ shp_fields S fs vs.
Proof. intros W H. apply (W a _ H). Qed.

Lemma wt_cell S h a : wt S h -> slook S a <> None -> exists x, hget h a = Some (OCell x).
Proof.
  intros W H. destruct (slook S a) as [[fs|]|] eqn:G; [| |congruence].
  - destruct (W a _ G) as (vs & Hg & _). apply get_struct_some in Hg. eauto.
  - apply (W a _ G).
Qed.

(* writing a typed struct cell with a value of its shape *)
Lemma tst_write S h n a fs r : tst S (h, n) -> slook S a = Some (CStruct fs) -> shp_fields S fs r ->
  tst S (hset h a (OCell (HStruct r)), n).
Proof.
  intros [W B Hb] Ha Hr. simpl in *. split; simpl; auto.
  - intros x c Hx. destruct (N.eq_dec x a) as [->|Hne].
    + rewrite Ha in Hx. inversion Hx; subst. exists r. split; auto. unfold get_struct. rewrite hget_hset_eq. reflexivity.
    + specialize (W x c Hx). destruct c.
      * destruct W as (vs & Hg & Hs). exists vs. split; auto. unfold get_struct in *. rewrite hget_hset_ne; auto.
      * destruct W as (y & Hy). exists y. rewrite hget_hset_ne; auto.
  - intros x o Hx. destruct (N.eq_dec x a) as [->|Hne]; [apply (B _ _ Ha)|].
    rewrite hget_hset_ne in Hx by auto. eauto.
Qed.

(* allocating a struct cell at the allocator position *)
Lemma tst_alloc S h n n' fs r : tst S (h, n') -> n < n' -> slook S n = None ->
  shp_fields S fs r ->
  tst ((n, CStruct fs) :: S) (hset h n (OCell (HStruct r)), n').
Proof.
  intros [W B Hb] Hn Hs Hr. simpl in *.
  assert (X : sext S ((n, CStruct fs) :: S)).
  { intros x c H. rewrite slook_cons. destruct (N.eqb_spec x n); auto. subst. congruence. }
  split; simpl.
  - intros x c Hx. rewrite slook_cons in Hx. destruct (N.eqb_spec x n) as [->|Hne].
    + inversion Hx; subst. exists r. split; [unfold get_struct; rewrite hget_hset_eq; reflexivity|].
      apply (proj2 (shp_mono _ _ X)); auto.
    + specialize (W x c Hx). destruct c.
      * destruct W as (vs & Hg & Hsv). exists vs. split; [unfold get_struct in *; rewrite hget_hset_ne; auto|].
        apply (proj2 (shp_mono _ _ X)); auto.
      * destruct W as (y & Hy). exists y. rewrite hget_hset_ne; auto.
  - intros x c Hx. rewrite slook_cons in Hx. destruct (N.eqb_spec x n) as [->|Hne]; [lia|eauto].
  - intros x o Hx. destruct (N.eq_dec x n) as [->|Hne]; [lia|]. rewrite hget_hset_ne in Hx by auto. eauto.
Qed.

(* postcondition of an overlay step *)
Definition tpost (S : styping) (hs : hst) (S' : styping) (hs' : hst) : Prop :=
  tst S' hs' /\ sext S S' /\ snd hs <= snd hs' /\
  (forall a c, slook S' a = Some c -> slook S a = Some c \/ snd hs <= a).

Lemma tpost_refl S hs : tst S hs -> tpost S hs S hs.
Proof. intro T. split; [auto|split; [apply sext_refl|split; [lia|auto]]]. Qed.

Definition Tf (t : ty) : Prop :=
  forall S hs bv lv pt, wf_ty t = true -> supported t = true -> ptrify_ty t = Some pt ->
    tst S hs -> shp S t bv -> shp S pt lv ->
    exists S' hs' v', overlay_field_h t hs bv pt lv = Done (hs', v') /\ tpost S hs S' hs' /\ shp S' t v'.

Definition Ts (fs : fields) : Prop :=
  forall S hs bvs lvs, wf_fields fs = true -> supported_fields fs = true ->
    tst S hs -> shp_fields S fs bvs -> shp_fields S (ptrify_fields fs) lvs ->
    exists S' hs' vs', overlay_struct_h fs hs bvs (ptrify_fields fs) lvs = Done (hs', vs') /\
      tpost S hs S' hs' /\ shp_fields S' fs vs'.

Definition Tt (t : ty) : Prop := Tf t /\ match t with TStruct fs _ => Ts fs | _ => True end.

Lemma default_total S hs t lv : tst S hs -> shp S (TPtr t) lv -> (forall fs n, t <> TStruct fs n) ->
  is_hnil lv = false ->
  exists x, ov_default t hs (TPtr t) lv = Done (hs, x).
Proof.
  intros T Hl Hns Hnil. unfold ov_default.
  assert (Hl' : match lv with HPtr None => True | HPtr (Some a) => slook S a <> None | _ => False end).
  { destruct t; simpl in Hl; auto. exfalso. eapply Hns; eauto. }
  destruct lv as [ | [oa|] | | | | | | | ]; try contradiction; try discriminate.
  rewrite ty_eqb_refl. destruct (wt_cell _ _ _ (t_wt _ _ T) Hl') as [x Hx]. rewrite Hx. eauto.
Qed.

Lemma textu_total S hs id pr lv : tst S hs -> shp S (TPtr (TTextU id pr)) lv -> is_hnil lv = false ->
  exists x, ov_textu (TTextU id pr) hs (TPtr (TTextU id pr)) lv = Done (hs, x).
Proof.
  intros T Hl Hnil. unfold ov_textu. simpl in Hl.
  destruct lv as [ | [oa|] | | | | | | | ]; try contradiction; try discriminate.
  rewrite ty_eqb_refl. destruct (wt_cell _ _ _ (t_wt _ _ T) Hl) as [x Hx]. rewrite Hx. eauto.
Qed.

Lemma tst_bump S h n : tst S (h, n) -> tst S (h, n + 1).
Proof.
  intros [W B Hb]; simpl in *. split; simpl; auto.
  - intros a c H. apply B in H. lia.
  - intros a o H. apply Hb in H. lia.
Qed.

Lemma ptr_leaf_some be hs ba lv : (forall fs n, be <> TStruct fs n) -> is_hnil lv = false ->
  overlay_field_h (TPtr be) hs (HPtr (Some ba)) (TPtr be) lv = Done (hs, lv).
Proof.
  intros Hns Hn. destruct be; try (exfalso; eapply Hns; reflexivity);
    cbn [overlay_field_h nilable_kind andb]; rewrite Hn; rewrite ?ty_eqb_refl; reflexivity.
Qed.

Lemma ptr_leaf_none be hs oa : (forall fs n, be <> TStruct fs n) ->
  overlay_field_h (TPtr be) hs (HPtr None) (TPtr be) (HPtr (Some oa)) = Done (hs, HPtr (Some oa)).
Proof.
  intros Hns. destruct be; try (exfalso; eapply Hns; reflexivity);
    cbn [overlay_field_h nilable_kind andb is_hnil]; rewrite ?ty_eqb_refl; reflexivity.
Qed.

Lemma ptrify_ptr_leaf be : (forall fs n, be <> TStruct fs n) -> ptrify_ty (TPtr be) = Some (TPtr be).
Proof. intro Hns. destruct be; try reflexivity. exfalso; eapply Hns; reflexivity. Qed.

Lemma shp_ptr_leaf S be v : (forall fs n, be <> TStruct fs n) ->
  shp S (TPtr be) v -> match v with HPtr None => True | HPtr (Some a) => slook S a <> None | _ => False end.
Proof. intro Hns. destruct be; auto. exfalso; eapply Hns; reflexivity. Qed.

Definition struct_dec (t : ty) : {fs & {n | t = TStruct fs n}} + {forall fs n, t <> TStruct fs n}.
Proof. destruct t; try (right; intros; discriminate). left. eauto. Defined.

Lemma ptrify_not_chan t pt : ptrify_ty t = Some pt -> is_chan_func pt = false.
Proof.
  destruct t; simpl; intro H; try discriminate; try (inversion H; reflexivity).
  destruct t; inversion H; reflexivity.
Qed.

Ltac keep S hs bv T Hb :=
  exists S, hs, bv; split; [reflexivity|split; [apply tpost_refl; exact T|exact Hb]].

Lemma overlay_total : (forall t, Tt t) /\ (forall fs, Ts fs).
Proof.
  apply ty_fields_ind.
  - (* TBasic *) intros k name. split; [|exact I]. intros S hs bv lv pt _ _ Hpt T Hb Hl.
    simpl in Hpt. inversion Hpt; subst pt. clear Hpt.
    destruct (is_hnil lv) eqn:Hn.
    + exists S, hs, bv. split; [simpl; rewrite Hn; reflexivity|split; [apply tpost_refl; auto|exact I]].
    + destruct (default_total S hs (TBasic k name) lv T Hl) as [x Hx]; [intros; discriminate|auto|].
      exists S, hs, x. split; [simpl; rewrite Hn; exact Hx|split; [apply tpost_refl; auto|exact I]].
  - (* TTextU *) intros id pr. split; [|exact I]. intros S hs bv lv pt _ _ Hpt T Hb Hl.
    simpl in Hpt. inversion Hpt; subst pt. clear Hpt.
    destruct (is_hnil lv) eqn:Hn.
    + exists S, hs, bv. split; [simpl; rewrite Hn; reflexivity|split; [apply tpost_refl; auto|exact I]].
    + destruct (textu_total S hs id pr lv T Hl Hn) as [x Hx].
      exists S, hs, x. split; [simpl; rewrite Hn; exact Hx|split; [apply tpost_refl; auto|exact I]].
  - (* TPtr *) intros be [IHf IHs]. split; [|exact I]. intros S hs bv lv pt Hwf Hsup Hpt T Hb Hl.
    destruct (is_hnil lv) eqn:Hn.
    { (* the layer leaves the field unset *)
      assert (Hnk : nilable_kind pt = true).
      { destruct be; simpl in Hpt; inversion Hpt; reflexivity. }
      exists S, hs, bv. split; [|split; [apply tpost_refl; auto|exact Hb]].
      destruct be; simpl; rewrite Hnk, Hn; reflexivity. }
    destruct (struct_dec be) as [(bfs & nm & ->)|Hns].
    2:{ (* pointer to a non-struct: replaced as a whole *)
      rewrite (ptrify_ptr_leaf be Hns) in Hpt. inversion Hpt; subst pt. clear Hpt.
      apply (shp_ptr_leaf S be bv Hns) in Hb as Hb'. apply (shp_ptr_leaf S be lv Hns) in Hl as Hl'.
      destruct bv as [ | [ba|] | | | | | | | ]; try contradiction.
      - exists S, hs, lv. split; [apply ptr_leaf_some; auto|split; [apply tpost_refl; auto|exact Hl]].
      - destruct lv as [ | [oa|] | | | | | | | ]; try contradiction; try discriminate.
        exists S, hs, (HPtr (Some oa)). split; [apply ptr_leaf_none; auto|split; [apply tpost_refl; auto|exact Hl]]. }
    simpl in Hpt. inversion Hpt; subst pt. clear Hpt.
    simpl in Hwf. apply andb_true_iff in Hwf as [Hnd Hwf].
    simpl in Hsup. simpl in Hb, Hl.
    destruct lv as [ | [oa|] | | | | | | | ]; try contradiction; try discriminate.
    destruct (wt_struct _ _ _ _ (t_wt _ _ T) Hl) as (ovs & Go & So).
    destruct bv as [ | [ba|] | | | | | | | ]; try contradiction.
    + (* base pointer not nil: merge into the pointee *)
      destruct (wt_struct _ _ _ _ (t_wt _ _ T) Hb) as (bvs & Gb & Sb).
      destruct (IHs S hs bvs ovs Hwf Hsup T Sb So) as (S1 & hs1 & r & E1 & (T1 & X1 & L1 & N1) & R1).
      destruct hs1 as [h1 n1].
      exists S1, (hset h1 ba (OCell (HStruct r)), n1), (HPtr (Some ba)). split; [|split].
      * cbn [overlay_field_h nilable_kind andb is_hnil]. rewrite Gb, Go, E1. reflexivity.
      * split; [apply (tst_write S1 h1 n1 ba bfs r T1 (X1 _ _ Hb) R1)|split; [auto|split; [auto|auto]]].
      * simpl. apply X1. exact Hb.
    + destruct (ty_eqb (TStruct bfs nm) (TStruct (ptrify_fields bfs) [])) eqn:Hne.
      { (* the struct type is its own pointerified form: the layer's pointer is assigned *)
        exists S, hs, (HPtr (Some oa)). split; [|split; [apply tpost_refl; auto|]].
        - cbn [overlay_field_h nilable_kind andb is_hnil]. rewrite Hne. reflexivity.
        - apply (proj1 ty_fields_eqb_eq) in Hne. inversion Hne as [[E1 E2]]. simpl. first [exact Hl | rewrite E1; exact Hl]. }
      (* base pointer nil: allocate, then merge into the zero struct *)
      destruct hs as [h n].
      destruct (IHs S (h, n + 1) (hzero_fields bfs) ovs Hwf Hsup (tst_bump _ _ _ T) (proj2 (hzero_shp S) bfs) So)
        as (S1 & hs1 & r & E1 & (T1 & X1 & L1 & N1) & R1).
      destruct hs1 as [h1 n1]. simpl in L1.
      assert (Hfree : slook S1 n = None).
      { destruct (slook S1 n) as [c|] eqn:G; auto. destruct (N1 _ _ G) as [Q|Q].
        - apply (t_sb _ _ T) in Q. simpl in Q. lia.
        - simpl in Q. lia. }
      exists ((n, CStruct bfs) :: S1), (hset h1 n (OCell (HStruct r)), n1), (HPtr (Some n)). split; [|split].
      * cbn [fst snd] in Go, E1. cbn [overlay_field_h nilable_kind andb is_hnil fst snd]. rewrite Hne, Go.
        rewrite E1. reflexivity.
      * split; [apply tst_alloc; auto; lia|split; [|split]].
        -- eapply sext_trans; [exact X1|]. intros x c Hx. rewrite slook_cons.
           destruct (N.eqb_spec x n); [subst; congruence|auto].
        -- simpl. lia.
        -- intros x c Hx. rewrite slook_cons in Hx. destruct (N.eqb_spec x n) as [->|Hne2].
           ++ right. simpl. lia.
           ++ destruct (N1 _ _ Hx) as [Q|Q]; [auto|right; simpl in *; lia].
      * change (slook ((n, CStruct bfs) :: S1) n = Some (CStruct bfs)). rewrite slook_cons, N.eqb_refl. reflexivity.
  - (* TSlice *) intros t IH name. split; [|exact I]. intros S hs bv lv pt _ _ Hpt T Hb Hl.
    simpl in Hpt. inversion Hpt; subst pt. clear Hpt.
    destruct (is_hnil lv) eqn:Hn.
    + exists S, hs, bv. split; [simpl; rewrite Hn; reflexivity|split; [apply tpost_refl; auto|exact I]].
    + exists S, hs, lv. split; [|split; [apply tpost_refl; auto|exact I]].
      cbn [overlay_field_h nilable_kind andb]. rewrite Hn. cbn [ov_default]. rewrite ty_eqb_refl. reflexivity.
  - (* TArray *) intros n t IH. split; [|exact I]. intros S hs bv lv pt _ _ Hpt T Hb Hl.
    simpl in Hpt. inversion Hpt; subst pt. clear Hpt.
    destruct (is_hnil lv) eqn:Hn.
    + exists S, hs, bv. split; [simpl; rewrite Hn; reflexivity|split; [apply tpost_refl; auto|exact I]].
    + destruct (default_total S hs (TArray n t) lv T Hl) as [x Hx]; [intros; discriminate|auto|].
      exists S, hs, x. split; [simpl; rewrite Hn; exact Hx|split; [apply tpost_refl; auto|exact I]].
  - (* TMap *) intros k IHk v IHv name. split; [|exact I]. intros S hs bv lv pt _ _ Hpt T Hb Hl.
    simpl in Hpt. inversion Hpt; subst pt. clear Hpt.
    destruct (is_hnil lv) eqn:Hn.
    + exists S, hs, bv. split; [simpl; rewrite Hn; reflexivity|split; [apply tpost_refl; auto|exact I]].
    + exists S, hs, lv. split; [|split; [apply tpost_refl; auto|exact I]].
      cbn [overlay_field_h nilable_kind andb]. rewrite Hn. cbn [ov_default]. rewrite ty_eqb_refl. reflexivity.
  - (* TStruct *) intros bfs IHs name. split; [|exact IHs]. intros S hs bv lv pt Hwf Hsup Hpt T Hb Hl.
    simpl in Hpt. inversion Hpt; subst pt. clear Hpt.
    simpl in Hwf. apply andb_true_iff in Hwf as [Hnd Hwf]. simpl in Hsup. simpl in Hb, Hl.
    destruct bv as [ | | | | | | | bvs | ]; try contradiction.
    destruct lv as [ | [oa|] | | | | | | | ]; try contradiction.
    + destruct (wt_struct _ _ _ _ (t_wt _ _ T) Hl) as (ovs & Go & So).
      destruct (IHs S hs bvs ovs Hwf Hsup T Hb So) as (S1 & hs1 & r & E1 & P1 & R1).
      exists S1, hs1, (HStruct r). split; [simpl; rewrite Go, E1; reflexivity|split; [exact P1|exact R1]].
    + exists S, hs, (HStruct bvs). split; [reflexivity|split; [apply tpost_refl; auto|exact Hb]].
  - (* TIface *) split; [|exact I]. intros S hs bv lv pt _ Hsup. discriminate.
  - (* TChan *) split; [|exact I]. intros S hs bv lv pt _ _ Hpt. discriminate.
  - (* TFunc *) split; [|exact I]. intros S hs bv lv pt _ _ Hpt. discriminate.
  - (* FNil *) intros S hs bvs lvs _ _ T Hb Hl. destruct bvs; [|contradiction].
    exists S, hs, []. split; [reflexivity|split; [apply tpost_refl; auto|exact I]].
  - (* FCons *) intros n tags anon t [IHt _] r IHr S hs bvs lvs Hwf Hsup T Hb Hl.
    destruct bvs as [|bv bvs']; [contradiction|]. destruct Hb as [Hbv Hbr].
    simpl in Hwf, Hsup. apply andb_true_iff in Hwf as [Hwt Hwr]. apply andb_true_iff in Hsup as [Hst Hsr].
    assert (Hskip : shp_fields S (ptrify_fields r) lvs ->
       exists S' hs' vs', (p <~ overlay_struct_h r hs bvs' (ptrify_fields r) lvs ;; Done (fst p, bv :: snd p)) = Done (hs', vs') /\
         tpost S hs S' hs' /\ shp_fields S' (FCons n tags anon t r) vs').
    { intro Hl'. destruct (IHr S hs bvs' lvs Hwr Hsr T Hbr Hl') as (S1 & hs1 & r' & E1 & P1 & R1).
      exists S1, hs1, (bv :: r'). split; [rewrite E1; reflexivity|split; [exact P1|]].
      split; auto. destruct P1 as (_ & X1 & _). destruct Hbv as [Q|[Q|Q]]; auto.
      right. right. apply (proj1 (shp_mono _ _ X1)); auto. }
    simpl in Hl. cbn [overlay_struct_h ptrify_fields]. destruct (omit_field n tags) eqn:Ho; [apply Hskip; exact Hl|].
    destruct (ptrify_ty t) as [pt|] eqn:Hpt.
    2:{ apply chan_func_ptrify in Hpt. rewrite Hpt. apply Hskip; exact Hl. }
    assert (Hcf : is_chan_func t = false).
    { destruct (is_chan_func t) eqn:Q; auto. apply chan_func_ptrify in Q. congruence. }
    rewrite Hcf. simpl in Hwt, Hst.
    destruct lvs as [|lv lvs']; [contradiction|]. destruct Hl as [Hlv Hlr].
    assert (Hlv' : shp S pt lv).
    { destruct Hlv as [Q|[Q|Q]]; auto; [congruence|].
      rewrite (ptrify_not_chan _ _ Hpt) in Q. discriminate. }
    destruct Hbv as [Q|[Q|Hbv]]; try congruence.
    destruct (IHt S hs bv lv pt Hwt Hst Hpt T Hbv Hlv') as (S1 & hs1 & v1 & E1 & (T1 & X1 & L1 & N1) & R1).
    destruct (IHr S1 hs1 bvs' lvs' Hwr Hsr T1 (proj2 (shp_mono _ _ X1) _ _ Hbr) (proj2 (shp_mono _ _ X1) _ _ Hlr))
      as (S2 & hs2 & r' & E2 & (T2 & X2 & L2 & N2) & R2).
    exists S2, hs2, (v1 :: r'). split; [rewrite E1; simpl; rewrite E2; reflexivity|split].
    + split; [auto|split; [eapply sext_trans; eauto|split; [lia|]]].
      intros a c Ha. destruct (N2 _ _ Ha) as [Q|Q]; [destruct (N1 _ _ Q) as [Q'|Q']; auto; right; lia|right; lia].
    + split; auto. right. right. apply (proj1 (shp_mono _ _ X2)); auto.
Qed.

(* ---- a deep copy of a typed value is typed: the new cells inherit the
   typing of the cells they were copied from ---- *)
Lemma vrel_shp pm mm H S S' :
  (forall a a' c, In (a, a') pm -> slook S a = Some c -> slook S' a' = Some c) ->
  (forall t v v', vrel pm mm H v v' -> shp S t v -> shp S' t v') /\
  (forall fs vs vs', vrels pm mm H vs vs' -> shp_fields S fs vs -> shp_fields S' fs vs').
Proof.
  intro Hm. apply ty_fields_ind; intros; simpl in *; auto.
  - (* TPtr *)
    assert (Hd : match v with HPtr None => True | HPtr (Some a) => slook S a <> None | _ => False end ->
                 match v' with HPtr None => True | HPtr (Some a) => slook S' a <> None | _ => False end).
    { inversion H1; subst; auto. intro Hn. destruct (slook S a) as [c|] eqn:G; [|congruence].
      rewrite (Hm _ _ _ H3 G). discriminate. }
    destruct t; try (apply Hd; exact H2).
    inversion H1; subst; auto; try contradiction. eapply Hm; eauto.
  - inversion H1; subst; try contradiction. eauto.
  - inversion H0; subst; auto.
  - inversion H2; subst; try contradiction. destruct H3 as [Q1 Q2]. split; eauto.
    destruct Q1 as [Q|[Q|Q]]; eauto.
Qed.

Definition copied_typing (S : styping) (pm : amap) : styping :=
  flat_map (fun ab => match slook S (fst ab) with Some c => [(snd ab, c)] | None => [] end) pm.

Lemma slook_app A B x : slook (A ++ B) x = match slook A x with Some c => Some c | None => slook B x end.
Proof.
  induction A as [|[a c] A IH]; simpl; auto. destruct (x =? a); auto.
Qed.

Lemma copied_lookup S : forall pm a a' c, NoDup (map snd pm) -> In (a, a') pm -> slook S a = Some c ->
  slook (copied_typing S pm) a' = Some c.
Proof.
  induction pm as [|[b b'] r IH]; intros a a' c Hnd Hin Hs; [contradiction|].
  simpl in Hnd. inversion Hnd; subst. unfold copied_typing. simpl. fold (copied_typing S r).
  destruct Hin as [E|Hin].
  - inversion E; subst. rewrite Hs. simpl. rewrite N.eqb_refl. reflexivity.
  - rewrite slook_app. assert (Hne : a' <> b') by (intro; subst; apply H1; eapply in_snd; eauto).
    destruct (slook S b) as [cb|]; simpl.
    + destruct (N.eqb_spec a' b'); [contradiction|]. eapply IH; eauto.
    + eapply IH; eauto.
Qed.

Lemma copied_source S : forall pm x c, slook (copied_typing S pm) x = Some c ->
  exists a, In (a, x) pm /\ slook S a = Some c.
Proof.
  induction pm as [|[b b'] r IH]; intros x c H; [discriminate|].
  unfold copied_typing in H. simpl in H. fold (copied_typing S r) in H. rewrite slook_app in H.
  destruct (slook S b) as [cb|] eqn:G; simpl in H.
  - destruct (N.eqb_spec x b').
    + inversion H; subst. exists b. split; [left; auto|auto].
    + destruct (IH _ _ H) as (a & Ha & Hs). exists a. split; [right; auto|auto].
  - destruct (IH _ _ H) as (a & Ha & Hs). exists a. split; [right; auto|auto].
Qed.

Section Typed.
Variables (h0 : heap) (n0 : N) (R D : nat) (rk : list (addr * nat)).
Hypothesis Hwf : wf_heap h0 n0.
Hypothesis Hrk : wf_rank h0 R D rk.
Hypothesis Hk : wf_kinds h0.
Hypothesis HD : (1 <= D)%nat.

Notation cinv := (cinv h0 n0).

(* one deep copy of an input cell, started from any compose state, returns *)
Lemma copy_done hs l fuel : cinv hs -> l < n0 -> vok h0 (HPtr (Some l)) -> (copy_fuel n0 R D <= fuel)%nat ->
  exists st' l', deep_copy true fuel (fst hs) (snd hs) (HPtr (Some l)) = Done (st', HPtr (Some l')).
Proof.
  intros C Hl V Hf. pose proof (cinv_inv h0 n0 hs C) as I0.
  assert (Hb : refs_below n0 (refs (HPtr (Some l)))) by (intros k b [E|[]]; inversion E; subst; auto).
  assert (Hn : copy true fuel (init_cst (fst hs) (snd hs)) (HPtr (Some l)) <> OutOfFuel).
  { eapply (copy_no_oof h0 n0 R D rk); eauto. unfold bound, unvisited, copy_fuel, K in *. simpl. nia. }
  pose proof (copy_good h0 n0 Hwf Hk fuel _ _ I0 Hb V) as Hg.
  unfold deep_copy. destruct (copy true fuel (init_cst (fst hs) (snd hs)) (HPtr (Some l))) as [[st' v']| | | |] eqn:E;
    try discriminate; try congruence.
  destruct fuel; [discriminate|]. apply copy_inv in E. inversion E; subst; eauto.
Qed.

(* ... and the copy is typed like the original *)
Lemma copy_typed S hs l fuel st' l' c : cinv hs -> tst S hs -> l < n0 -> slook S l = Some c ->
  deep_copy true fuel (fst hs) (snd hs) (HPtr (Some l)) = Done (st', HPtr (Some l')) ->
  let S' := copied_typing S (c_pm st') ++ S in
  tst S' (c_heap st', c_next st') /\ sext S S' /\ slook S' l' = Some c /\ snd hs <= c_next st' /\
  ComposeHProofs.cinv h0 n0 (c_heap st', c_next st').
Proof.
  intros C T Hl Hs Hc S'.
  destruct (deep_copy_cinv h0 n0 Hwf fuel hs l st' _ C Hl Hc) as (C1 & L1 & F1).
  pose proof (cinv_wf _ _ _ Hwf C) as Hwf1.
  assert (Hb1 : refs_below (snd hs) (refs (HPtr (Some l)))).
  { intros k b [E|[]]. inversion E; subst. pose proof (c_lo _ _ _ C). lia. }
  destruct (deep_copy_bisimilar_l _ _ _ fuel st' _ Hwf1 Hb1 Hc) as [Rl [Bp Bm]].
  unfold deep_copy in Hc.
  destruct (copy_post _ _ Hwf1 _ _ _ _ _ (inv_init _ _ Hwf1) Hb1 Hc) as (I1 & E1 & _).
  assert (Hnd : NoDup (map snd (c_pm st'))).
  { pose proof (i_val_nd _ _ _ I1) as Q. eapply nodup_app_l; eauto. }
  assert (Hran : forall a a', In (a, a') (c_pm st') -> a < snd hs /\ snd hs <= a' < c_next st').
  { intros a a' Hin. apply (i_pm _ _ _ I1) in Hin. lia. }
  assert (X : sext S S').
  { intros x cx Hx. unfold S'. rewrite slook_app.
    destruct (slook (copied_typing S (c_pm st')) x) as [c2|] eqn:G; auto.
    apply copied_source in G as (a & Ha & _). apply Hran in Ha. apply (t_sb _ _ T) in Hx. lia. }
  assert (Hmemo : forall a a' cx, In (a, a') (c_pm st') -> slook S a = Some cx -> slook S' a' = Some cx).
  { intros a a' cx Hin Hx. unfold S'. rewrite slook_app. rewrite (copied_lookup S _ _ _ _ Hnd Hin Hx). reflexivity. }
  assert (Hframe : forall a o, hget (fst hs) a = Some o -> hget (c_heap st') a = Some o).
  { intros a o Hg. rewrite (e_frame _ _ E1); auto. simpl. eapply (t_hb _ _ T); eauto. }
  split; [|split; [exact X|split; [|split; [exact L1|exact C1]]]].
  - split; simpl.
    + intros x cx Hx. unfold S' in Hx. rewrite slook_app in Hx.
      destruct (slook (copied_typing S (c_pm st')) x) as [c2|] eqn:G.
      * inversion Hx; subst c2. apply copied_source in G as (a & Ha & Hsa).
        destruct (Bp a x Ha) as (y & y' & G1 & G2 & Ry).
        pose proof (t_wt _ _ T a _ Hsa) as W. destruct cx.
        -- destruct W as (vs & Gv & Sv). apply get_struct_some in Gv. apply Hframe in Gv.
           rewrite Gv in G1. inversion G1; subst y. inversion Ry; subst.
           exists l'0. split; [unfold get_struct; rewrite G2; reflexivity|].
           eapply (proj2 (vrel_shp _ _ _ S S' Hmemo)); eauto.
        -- eauto.
      * pose proof (t_wt _ _ T x _ Hx) as W. destruct cx.
        -- destruct W as (vs & Gv & Sv). exists vs. split.
           ++ apply get_struct_some in Gv. apply Hframe in Gv. unfold get_struct. rewrite Gv. reflexivity.
           ++ apply (proj2 (shp_mono _ _ X)); auto.
        -- destruct W as (y & Hy). exists y. auto.
    + intros x cx Hx. unfold S' in Hx. rewrite slook_app in Hx.
      destruct (slook (copied_typing S (c_pm st')) x) as [c2|] eqn:G.
      * apply copied_source in G as (a & Ha & _). apply Hran in Ha. lia.
      * apply (t_sb _ _ T) in Hx. lia.
    + intros a o Hg. eapply i_bound; eauto.
  - inversion Rl; subst. eapply Hmemo; eauto.
Qed.

End Typed.

Lemma rbind_eq' {A B} (r : res A) (f : A -> res B) a : r = Done a -> rbind r f = f a.
Proof. intros ->. reflexivity. Qed.

(* ---- compose returns ---- *)
Section Total.
Variables (h0 : heap) (n0 : N) (R D : nat) (rk : list (addr * nat)) (S0 : styping) (fs : fields).
Hypothesis Hwf : wf_heap h0 n0.
Hypothesis Hrk : wf_rank h0 R D rk.
Hypothesis Hk : wf_kinds h0.
Hypothesis HD : (1 <= D)%nat.
Hypothesis Hcfg : cfg_ok fs = true.

Notation cinv := (ComposeHProofs.cinv h0 n0).

(* what is asked of a layer (and of the defaults, at their own type) *)
Definition input_ok (l : addr) (lfs : fields) : Prop :=
  l < n0 /\ vok h0 (HPtr (Some l)) /\ slook S0 l = Some (CStruct lfs).

Lemma cfg_parts : wf_fields fs = true /\ supported_fields fs = true.
Proof.
  unfold cfg_ok in Hcfg. apply andb_true_iff in Hcfg as [H _]. apply andb_true_iff in H as [H1 H2]. auto.
Qed.

Lemma compose_layers_total fuel : (copy_fuel n0 R D <= fuel)%nat ->
  forall layers hs S d', cinv hs -> tst S hs -> sext S0 S ->
  slook S d' = Some (CStruct fs) -> n0 <= d' < snd hs ->
  Forall (fun l => input_ok l (ptrify_fields fs)) layers ->
  exists hs' S', compose_layers fuel fs hs d' layers = Done hs' /\ cinv hs' /\ tst S' hs' /\ sext S S' /\
                 snd hs <= snd hs'.
Proof.
  intros Hf. induction layers as [|l rest IH]; intros hs S d' C T X0 Hd Hdr Hl.
  - exists hs, S. split; [reflexivity|split; [auto|split; [auto|split; [apply sext_refl|lia]]]].
  - inversion Hl as [|? ? (Hl1 & Hl2 & Hl3) Hrest]; subst.
    destruct (copy_done h0 n0 R D rk Hwf Hrk Hk HD hs l fuel C Hl1 Hl2 Hf) as (st1 & l' & H1).
    destruct (copy_typed h0 n0 D Hwf HD S hs l fuel st1 l' _ C T Hl1 (X0 _ _ Hl3) H1) as (T1 & X1 & Sl' & L1 & C1).
    set (S1 := copied_typing S (c_pm st1) ++ S) in *.
    destruct (deep_copy_cinv h0 n0 Hwf fuel hs l st1 _ C Hl1 H1) as (_ & _ & F1). apply fresh_ptr in F1.
    destruct (wt_struct _ _ _ _ (t_wt _ _ T1) (X1 _ _ Hd)) as (bvs & Gb & Sb). simpl in Gb.
    destruct (wt_struct _ _ _ _ (t_wt _ _ T1) Sl') as (ovs & Go & So). simpl in Go.
    destruct cfg_parts as [Hwff Hsup].
    destruct (proj2 overlay_total fs S1 (c_heap st1, c_next st1) bvs ovs Hwff Hsup T1 Sb So)
      as (S2 & hs2 & r & E2 & (T2 & X2 & L2 & N2) & R2).
    assert (Fb : refs_fresh n0 (c_next st1) (refs_list bvs)).
    { apply (get_struct_fresh h0 n0 (c_heap st1, c_next st1) d'); auto. lia. }
    assert (Fo : refs_fresh n0 (c_next st1) (refs_list ovs)).
    { apply (get_struct_fresh h0 n0 (c_heap st1, c_next st1) l'); auto. lia. }
    destruct (overlay_struct_ok h0 n0 fs _ _ _ _ _ _ C1 Fb Fo E2) as (C2 & _ & F2).
    destruct hs2 as [h2 n2]. simpl in L2, F2.
    assert (Hd2 : slook S2 d' = Some (CStruct fs)) by (apply X2, X1, Hd).
    assert (T3 : tst S2 (hset h2 d' (OCell (HStruct r)), n2)) by (apply (tst_write S2 h2 n2 d' fs r T2 Hd2 R2)).
    assert (C3 : cinv (hset h2 d' (OCell (HStruct r)), n2)).
    { apply cinv_set; auto. simpl in *. lia. }
    destruct (IH _ S2 d' C3 T3 (sext_trans _ _ _ X0 (sext_trans _ _ _ X1 X2)) Hd2) as (hs' & S' & E3 & C' & T' & X' & L');
      [simpl in *; lia|exact Hrest|].
    exists hs', S'. split; [|split; [auto|split; [auto|split; [|simpl in *; lia]]]].
    + cbn [compose_layers]. rewrite (rbind_eq' _ _ _ H1). cbn [fst snd]. rewrite Gb, Go.
      rewrite (rbind_eq' _ _ _ E2). cbn [fst snd]. exact E3.
    + eapply sext_trans; [exact X1|]. eapply sext_trans; eauto.
Qed.

Theorem compose_h_total_gen fuel d layers hs S : (copy_fuel n0 R D <= fuel)%nat ->
  cinv hs -> tst S hs -> sext S0 S ->
  input_ok d fs -> Forall (fun l => input_ok l (ptrify_fields fs)) layers ->
  exists hs' d' S', compose_h fuel fs (fst hs) (snd hs) d layers = Done (hs', d') /\
    cinv hs' /\ tst S' hs' /\ sext S S' /\ snd hs <= d' < snd hs'.
Proof.
  intros Hf C T X0 (Hd1 & Hd2 & Hd3) Hl.
  destruct (copy_done h0 n0 R D rk Hwf Hrk Hk HD hs d fuel C Hd1 Hd2 Hf) as (st1 & d' & H1).
  destruct (copy_typed h0 n0 D Hwf HD S hs d fuel st1 d' _ C T Hd1 (X0 _ _ Hd3) H1) as (T1 & X1 & Sd' & L1 & C1).
  set (S1 := copied_typing S (c_pm st1) ++ S) in *.
  pose proof (cinv_wf _ _ _ Hwf C) as Hwf1.
  assert (Hb1 : refs_below (snd hs) (refs (HPtr (Some d)))).
  { intros k b [E|[]]. inversion E; subst. pose proof (c_lo _ _ _ C). lia. }
  unfold deep_copy in H1.
  destruct (copy_post _ _ Hwf1 _ _ _ _ _ (inv_init _ _ Hwf1) Hb1 H1) as (_ & _ & F1). apply fresh_ptr in F1.
  fold (deep_copy true fuel (fst hs) (snd hs) (HPtr (Some d))) in H1.
  pose proof (c_lo _ _ _ C) as Hlo.
  destruct (compose_layers_total fuel Hf layers (c_heap st1, c_next st1) S1 d' C1 T1
              (sext_trans _ _ _ X0 X1) Sd') as (hs' & S' & E2 & C' & T' & X' & L'); [simpl; lia|exact Hl|].
  exists hs', d', S'. split; [|split; [auto|split; [auto|split; [eapply sext_trans; eauto|simpl in *; lia]]]].
  unfold compose_h. rewrite (rbind_eq' _ _ _ H1). cbn [fst snd]. rewrite (rbind_eq' _ _ _ E2). reflexivity.
Qed.

End Total.

(* ---- decidable guard => propositional hypotheses ---- *)
Lemma slook_key S a c : slook S a = Some c -> exists c', In (a, c') S.
Proof.
  induction S as [|[b cb] r IH]; simpl; [discriminate|]. destruct (N.eqb_spec a b).
  - subst. intros _. exists cb. left; auto.
  - intro H. destruct (IH H) as [c' Hc]. exists c'. right; auto.
Qed.

Lemma wtb_ok S h : wtb S h = true -> wt S h.
Proof.
  unfold wtb. rewrite forallb_forall. intros H a c Hs. destruct (slook_key _ _ _ Hs) as [c' Hin].
  specialize (H _ Hin). simpl in H. rewrite Hs in H. destruct c.
  - destruct (get_struct h a) as [vs|]; [|discriminate]. exists vs. split; auto. apply (proj2 (shpb_ok S)); auto.
  - destruct (hget h a) as [[x| |]|]; try discriminate. eauto.
Qed.

Lemma sboundb_ok S n : sboundb S n = true -> sbound S n.
Proof.
  unfold sboundb. rewrite forallb_forall. intros H a c Hs. destruct (slook_key _ _ _ Hs) as [c' Hin].
  specialize (H _ Hin). simpl in H. apply N.ltb_lt; auto.
Qed.

Lemma root_ok_ok h n0 S0 a lfs : root_ok h n0 S0 a lfs = true -> input_ok h n0 S0 a lfs.
Proof.
  unfold root_ok, input_ok. intro H. apply andb_true_iff in H as [H H3]. apply andb_true_iff in H as [H1 H2].
  split; [apply N.ltb_lt; auto|split].
  - unfold root_kindsb in H2. apply andb_true_iff in H2 as [H2 C]. apply andb_true_iff in H2 as [A B].
    split; [auto|split; auto].
  - unfold is_cstruct in H3. destruct (slook S0 a) as [[fs'|]|]; try discriminate.
    apply fields_eqb_eq in H3. subst. reflexivity.
Qed.

Lemma tst_init S0 h n0 : wf_heap h n0 -> wt S0 h -> sbound S0 n0 -> tst S0 (h, n0).
Proof. intros Hwf W B. split; simpl; auto. intros a o H. apply Hwf in H. tauto. Qed.

(* compose returns on every well-formed input *)
Theorem compose_h_total_l : forall fuel fs h n0 R D rk S0 d layers,
  c02_guard h n0 R D rk S0 fs d layers = true -> (copy_fuel n0 R D <= fuel)%nat ->
  exists h' n' d', compose_h fuel fs h n0 d layers = Done ((h', n'), d').
Proof.
  intros fuel fs h n0 R D rk S0 d layers G Hf. unfold c02_guard in G.
  repeat (apply andb_true_iff in G as [G ?]).
  apply wf_heapb_ok in G. apply wf_rankb_ok in H6. apply wf_kindsb_ok in H5. apply Nat.leb_le in H4.
  apply wtb_ok in H2. apply sboundb_ok in H1. apply root_ok_ok in H0.
  assert (Hl : Forall (fun l => input_ok h n0 S0 l (ptrify_fields fs)) layers).
  { apply Forall_forall. intros l Hin. rewrite forallb_forall in H. apply root_ok_ok. auto. }
  destruct (compose_h_total_gen h n0 R D rk S0 fs G H6 H5 H4 H3 fuel d layers (h, n0) S0 Hf
              (cinv_init h n0 G) (tst_init _ _ _ G H2 H1) (sext_refl _) H0 Hl) as ([h' n'] & d' & S' & E & _).
  simpl in E. eauto.
Qed.
