(* Deep embedding of the reflect.Type universe dials works on, and tree
   values (contents only; identity/aliasing lives in Reflect/Heap.v).
   `ty` and `fields` are mutually inductive (not nested through list) so that
   the mutual fixpoints mirroring Pointerify / overlay are accepted as written. *)
From Coq Require Import List NArith ZArith Bool.
From Dials Require Import Base.Outcome Base.Runes.
Import ListNotations.
Open Scope N_scope.

Inductive kind :=
| KBool | KInt (bits : N) | KUint (bits : N) | KFloat (bits : N) | KComplex (bits : N) | KString.

(* `name` = [] for an unnamed type; e.g. time.Duration = TBasic (KInt 64) "time.Duration" *)
Inductive ty :=
| TBasic (k : kind) (name : str)
| TTextU (id : str) (ptr_recv : bool)   (* a struct type implementing encoding.TextUnmarshaler: an opaque leaf *)
| TPtr (t : ty)
| TSlice (t : ty) (name : str)
| TArray (n : N) (t : ty)
| TMap (k v : ty) (name : str)
| TStruct (fs : fields) (name : str)
| TIface | TChan | TFunc
with fields :=
| FNil
| FCons (f_name : str) (f_tags : list (str * str)) (f_anon : bool) (t : ty) (rest : fields).

Scheme ty_ind2 := Induction for ty Sort Prop
  with fields_ind2 := Induction for fields Sort Prop.
Combined Scheme ty_fields_ind from ty_ind2, fields_ind2.

Inductive val :=
| VNil                          (* nil pointer / slice / map / interface / chan / func *)
| VBool (b : bool)
| VInt (z : Z)
| VFloat (bits : Z)             (* IEEE bits, opaque; complex numbers are VList [re; im] of VFloat *)
| VStr (s : str)
| VText (s : str)               (* contents of a TextUnmarshaler struct, opaque *)
| VPtr (v : val)                (* non-nil pointer *)
| VList (l : list val)          (* slice or array elements; a non-nil empty slice is VList [] *)
| VMap (kvs : list (val * val)) (* canonically sorted by the harness *)
| VStruct (fs : list val)       (* every field in declaration order, skipped ones included *)
| VOpaque (id : N).             (* non-nil chan / func / unexported payload: an identity token *)

(* ---- boolean equalities ---- *)
Definition kind_eqb (a b : kind) : bool :=
  match a, b with
  | KBool, KBool => true | KString, KString => true
  | KInt x, KInt y => x =? y | KUint x, KUint y => x =? y
  | KFloat x, KFloat y => x =? y | KComplex x, KComplex y => x =? y
  | _, _ => false
  end.

Fixpoint tags_eqb (a b : list (str * str)) : bool :=
  match a, b with
  | [], [] => true
  | (k, v) :: a', (k', v') :: b' => str_eqb k k' && str_eqb v v' && tags_eqb a' b'
  | _, _ => false
  end.

Fixpoint ty_eqb (a b : ty) {struct a} : bool :=
  match a, b with
  | TBasic k n, TBasic k' n' => kind_eqb k k' && str_eqb n n'
  | TTextU i p, TTextU i' p' => str_eqb i i' && Bool.eqb p p'
  | TPtr t, TPtr t' => ty_eqb t t'
  | TSlice t n, TSlice t' n' => ty_eqb t t' && str_eqb n n'
  | TArray k t, TArray k' t' => (k =? k') && ty_eqb t t'
  | TMap k v n, TMap k' v' n' => ty_eqb k k' && ty_eqb v v' && str_eqb n n'
  | TStruct fs n, TStruct fs' n' => fields_eqb fs fs' && str_eqb n n'
  | TIface, TIface => true | TChan, TChan => true | TFunc, TFunc => true
  | _, _ => false
  end
with fields_eqb (a b : fields) {struct a} : bool :=
  match a, b with
  | FNil, FNil => true
  | FCons n tg an t r, FCons n' tg' an' t' r' =>
      str_eqb n n' && tags_eqb tg tg' && Bool.eqb an an' && ty_eqb t t' && fields_eqb r r'
  | _, _ => false
  end.

Fixpoint val_eqb (a b : val) {struct a} : bool :=
  let fix list_eqb (x y : list val) : bool :=
    match x, y with
    | [], [] => true
    | u :: x', v :: y' => val_eqb u v && list_eqb x' y'
    | _, _ => false
    end in
  let fix kvs_eqb (x y : list (val * val)) : bool :=
    match x, y with
    | [], [] => true
    | (k, u) :: x', (k', v) :: y' => val_eqb k k' && val_eqb u v && kvs_eqb x' y'
    | _, _ => false
    end in
  match a, b with
  | VNil, VNil => true
  | VBool x, VBool y => Bool.eqb x y
  | VInt x, VInt y => Z.eqb x y
  | VFloat x, VFloat y => Z.eqb x y
  | VStr x, VStr y => str_eqb x y
  | VText x, VText y => str_eqb x y
  | VPtr x, VPtr y => val_eqb x y
  | VList x, VList y => list_eqb x y
  | VMap x, VMap y => kvs_eqb x y
  | VStruct x, VStruct y => list_eqb x y
  | VOpaque x, VOpaque y => x =? y
  | _, _ => false
  end.

(* ---- struct tags, exportedness, the omission rule (ptrify.OmitField) ---- *)
Fixpoint tag_lookup (k : str) (tags : list (str * str)) : option str :=
  match tags with
  | [] => None
  | (k', v) :: r => if str_eqb k k' then Some v else tag_lookup k r
  end.

Definition dials_tag : str := [100; 105; 97; 108; 115].  (* "dials" *)
Definition dash : str := [45].                          (* "-" *)

(* ast.IsExported: first rune upper-case (ASCII model) *)
Definition exported (name : str) : bool :=
  match name with c :: _ => is_upper c | [] => false end.

Definition omit_field (name : str) (tags : list (str * str)) : bool :=
  negb (exported name) ||
  match tag_lookup dials_tag tags with Some v => str_eqb v dash | None => false end.

Definition is_chan_func (t : ty) : bool :=
  match t with TChan | TFunc => true | _ => false end.

(* ---- zero values ---- *)
Fixpoint repeat_val (n : nat) (v : val) : list val :=
  match n with O => [] | S k => v :: repeat_val k v end.

Fixpoint zero (t : ty) : val :=
  match t with
  | TBasic KBool _ => VBool false
  | TBasic KString _ => VStr []
  | TBasic (KInt _) _ | TBasic (KUint _) _ => VInt 0
  | TBasic (KFloat _) _ => VFloat 0
  | TBasic (KComplex _) _ => VList [VFloat 0; VFloat 0]
  | TTextU _ _ => VText []
  | TArray n t' => VList (repeat_val (N.to_nat n) (zero t'))
  | TStruct fs _ => VStruct (zero_fields fs)
  | TPtr _ | TSlice _ _ | TMap _ _ _ | TIface | TChan | TFunc => VNil
  end
with zero_fields (fs : fields) : list val :=
  match fs with
  | FNil => []
  | FCons _ _ _ t r => zero t :: zero_fields r
  end.

Fixpoint fields_len (fs : fields) : nat :=
  match fs with FNil => O | FCons _ _ _ _ r => S (fields_len r) end.

Fixpoint field_names (fs : fields) : list str :=
  match fs with FNil => [] | FCons n _ _ _ r => n :: field_names r end.
