(* Heap values: the part of the formal universe that is about IDENTITY
   (properties C02, C03).  Contents live in tree values (Reflect/Ty.v, `val`).

   A heap maps addresses to objects.  Objects are exactly the things Go
   allocates separately and that can therefore be shared or form cycles:
     OCell v    the pointee of a pointer (one allocated variable),
     OMap kvs   a map object (entries in the canonical key order of the harness),
     OArr es    the backing array of one or more slices.
   Inline values (`hv`) hold references to objects: pointers and maps hold an
   optional address, a slice holds (array, offset, len, cap), an interface value
   holds a dynamic-type tag and a payload; structs and arrays are inline.

   NOT modelled: interior pointers (&s.Field, &slice[i], &array[i]).  Pointers
   are to whole allocated objects.  The deep copier's registerPair exists for
   interior pointers; on whole objects it only repeats what deepCopyPtr already
   recorded (see Copy/DeepCopy.v for the one place where it matters on the
   pinned code).  The generators of the correspondence checks never build
   interior pointers.

   Unexported struct fields are wrapped in HPriv: reflect refuses to set them,
   the copier carries them over with the initial out.Set(in) and never enters
   them, so whatever they reference stays shared with the input; every notion
   of reachability below is "through exported fields" and stops at HPriv. *)
From Coq Require Import List NArith ZArith Bool.
From Dials Require Import Base.Outcome Base.Runes Reflect.Ty.
Import ListNotations.
Open Scope N_scope.

Definition addr := N.

Record sref := mk_sref { s_arr : addr; s_off : N; s_len : N; s_cap : N }.

Inductive hv :=
| HLeaf (v : val)                 (* scalars, strings, opaque tokens for chan/func identities *)
| HPtr (a : option addr)
| HMap (a : option addr)
| HSlice (s : option sref)        (* None = nil slice *)
| HNilIface
| HIface (tag : N) (x : hv)       (* dynamic type (an opaque tag) and the concrete payload *)
| HPriv (x : hv)                  (* an unexported struct field *)
| HStruct (l : list hv)           (* all fields in declaration order *)
| HArray (l : list hv).

Inductive obj :=
| OCell (v : hv)
| OMap (kvs : list (hv * hv))
| OArr (es : list hv).

(* association list, newest binding first *)
Definition heap := list (addr * obj).

Fixpoint hget (h : heap) (a : addr) : option obj :=
  match h with
  | [] => None
  | (b, o) :: r => if a =? b then Some o else hget r a
  end.

Definition hset (h : heap) (a : addr) (o : obj) : heap := (a, o) :: h.

(* the part of a backing array a slice can reach: [off, off+cap) *)
Definition window (es : list hv) (off cap : N) : list hv :=
  firstn (N.to_nat cap) (skipn (N.to_nat off) es).

Definition amap := list (addr * addr).
Fixpoint alookup (m : amap) (a : addr) : option addr :=
  match m with
  | [] => None
  | (b, c) :: r => if a =? b then Some c else alookup r a
  end.

(* ---- references held directly by a value (not following them),
        through exported fields only ---- *)
Inductive rkind := RCell | RMap | RArr.

Definition rkind_eqb (a b : rkind) : bool :=
  match a, b with RCell, RCell | RMap, RMap | RArr, RArr => true | _, _ => false end.

Fixpoint refs (v : hv) : list (rkind * addr) :=
  match v with
  | HLeaf _ | HNilIface | HPriv _ => []
  | HPtr (Some a) => [(RCell, a)]
  | HMap (Some a) => [(RMap, a)]
  | HSlice (Some s) => [(RArr, s_arr s)]
  | HPtr None | HMap None | HSlice None => []
  | HIface _ x => refs x
  | HStruct l | HArray l => flat_map refs l
  end.

Definition refs_list (l : list hv) : list (rkind * addr) := flat_map refs l.

Definition refs_kvs (kvs : list (hv * hv)) : list (rkind * addr) :=
  flat_map (fun kv => refs (fst kv) ++ refs (snd kv)) kvs.

Definition obj_refs (o : obj) : list (rkind * addr) :=
  match o with
  | OCell v => refs v
  | OMap kvs => refs_kvs kvs
  | OArr es => refs_list es
  end.

Definition obj_kind (o : obj) : rkind :=
  match o with OCell _ => RCell | OMap _ => RMap | OArr _ => RArr end.

(* reachability through exported fields *)
Inductive reach (h : heap) : list (rkind * addr) -> addr -> Prop :=
| reach_here : forall rs k a, In (k, a) rs -> reach h rs a
| reach_step : forall rs k b o a, In (k, b) rs -> hget h b = Some o -> reach h (obj_refs o) a -> reach h rs a.

(* inline slices of a value (slices reachable without following a pointer or
   a map): the only references the copier follows without a memo *)
Fixpoint inline_slices (v : hv) : list sref :=
  match v with
  | HSlice (Some s) => [s]
  | HIface _ x => inline_slices x
  | HStruct l | HArray l => flat_map inline_slices l
  | _ => []
  end.

(* nesting depth of an inline value *)
Fixpoint depth (v : hv) : nat :=
  match v with
  | HIface _ x => S (depth x)
  | HStruct l | HArray l => S (fold_right (fun x m => Nat.max (depth x) m) O l)
  | _ => 1%nat
  end.

Definition depth_list (l : list hv) : nat := fold_right (fun x m => Nat.max (depth x) m) O l.

Definition obj_depth (o : obj) : nat :=
  match o with
  | OCell v => depth v
  | OMap kvs => fold_right (fun kv m => Nat.max (Nat.max (depth (fst kv)) (depth (snd kv))) m) O kvs
  | OArr es => depth_list es
  end.

(* renaming of the addresses a value refers to through exported fields *)
Fixpoint map_addr (f : addr -> addr) (v : hv) : hv :=
  match v with
  | HPtr (Some a) => HPtr (Some (f a))
  | HMap (Some a) => HMap (Some (f a))
  | HSlice (Some s) => HSlice (Some (mk_sref (f (s_arr s)) (s_off s) (s_len s) (s_cap s)))
  | HIface t x => HIface t (map_addr f x)
  | HStruct l => HStruct (map (map_addr f) l)
  | HArray l => HArray (map (map_addr f) l)
  | _ => v
  end.

Definition map_addr_obj (f : addr -> addr) (o : obj) : obj :=
  match o with
  | OCell v => OCell (map_addr f v)
  | OMap kvs => OMap (map (fun kv => (map_addr f (fst kv), map_addr f (snd kv))) kvs)
  | OArr es => OArr (map (map_addr f) es)
  end.

(* ---- boolean equality (used by the correspondence checks) ---- *)
Definition oaddr_eqb (a b : option addr) : bool :=
  match a, b with Some x, Some y => x =? y | None, None => true | _, _ => false end.

Definition sref_eqb (a b : sref) : bool :=
  (s_arr a =? s_arr b) && (s_off a =? s_off b) && (s_len a =? s_len b) && (s_cap a =? s_cap b).

Fixpoint hv_eqb (a b : hv) {struct a} : bool :=
  let fix list_eqb (x y : list hv) : bool :=
    match x, y with
    | [], [] => true
    | u :: x', v :: y' => hv_eqb u v && list_eqb x' y'
    | _, _ => false
    end in
  match a, b with
  | HLeaf x, HLeaf y => val_eqb x y
  | HPtr x, HPtr y => oaddr_eqb x y
  | HMap x, HMap y => oaddr_eqb x y
  | HSlice None, HSlice None => true
  | HSlice (Some x), HSlice (Some y) => sref_eqb x y
  | HNilIface, HNilIface => true
  | HIface t x, HIface u y => (t =? u) && hv_eqb x y
  | HPriv x, HPriv y => hv_eqb x y
  | HStruct x, HStruct y => list_eqb x y
  | HArray x, HArray y => list_eqb x y
  | _, _ => false
  end.

Fixpoint hvs_eqb (x y : list hv) : bool :=
  match x, y with
  | [], [] => true
  | u :: x', v :: y' => hv_eqb u v && hvs_eqb x' y'
  | _, _ => false
  end.

Fixpoint kvs_eqb (x y : list (hv * hv)) : bool :=
  match x, y with
  | [], [] => true
  | (k, u) :: x', (k', v) :: y' => hv_eqb k k' && hv_eqb u v && kvs_eqb x' y'
  | _, _ => false
  end.

Definition obj_eqb (a b : obj) : bool :=
  match a, b with
  | OCell x, OCell y => hv_eqb x y
  | OMap x, OMap y => kvs_eqb x y
  | OArr x, OArr y => hvs_eqb x y
  | _, _ => false
  end.
