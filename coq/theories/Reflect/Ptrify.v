(* Model of /repo/ptrify/ptrify.go (Pointerify, OmitField, pointerifyField)
   without the interface-devirtualisation branch (interface-typed config
   fields keep their type, as with a nil template). *)
From Coq Require Import List NArith Bool.
From Dials Require Import Base.Outcome Base.Runes Reflect.Ty.
Import ListNotations.

(* the type of the pointerified field, or None when the field is dropped *)
Fixpoint ptrify_ty (t : ty) : option ty :=
  match t with
  | TMap _ _ _ | TSlice _ _ => Some t
  | TIface => Some t
  | TPtr (TStruct fs _) => Some (TPtr (TStruct (ptrify_fields fs) []))
  | TPtr _ => Some t
  | TStruct fs _ => Some (TPtr (TStruct (ptrify_fields fs) []))
  | TChan | TFunc => None
  | TBasic _ _ | TTextU _ _ | TArray _ _ => Some (TPtr t)
  end
with ptrify_fields (fs : fields) : fields :=
  match fs with
  | FNil => FNil
  | FCons n tags anon t r =>
      if omit_field n tags then ptrify_fields r
      else match ptrify_ty t with
           | Some t' => FCons n tags anon t' (ptrify_fields r)
           | None => ptrify_fields r
           end
  end.
