(* Correspondence check for C15: evaluated by coqc on harness-written cases.
   Every case carries the input and what the implementation of the current
   tree returned; `check` runs the Gallina model on the same input and
   evaluates the specification (round-trip equality / literal value and
   range) on the implementation's output. *)
From Coq Require Import List NArith ZArith Bool.
From Dials Require Import Base.Outcome Base.Runes Text.Quote Text.Split Text.FlagHelpers Text.ParseDuration Text.Utf8.
From Dials Require Export Text.ParseInt Text.ParseString.   (* constructors used by the cases files *)
Import ListNotations.
Open Scope N_scope.

(* the modelled tree has the repairs of findings 9 and 10 *)
Definition fixed9 : bool := true.
Definition fixed10 : bool := true.
Definition fixed_elem : bool := true.   (* nested-slice panic of parse.String repaired *)

Inductive c15case :=
(* parse.String(s, <integer type>) ; w: 0..4 = int8 int16 int32 int64 int / uint8 .. uint *)
| IntScalar (signed : bool) (w : N) (s : str) (impl : outcome Z)
(* parse.SignedIntegralSlice / UnsignedIntegralSlice on arbitrary text; w = 5 is uintptr *)
| IntSliceRaw (signed : bool) (w : N) (s : str) (impl : outcome (list Z))
(* value -> flag helper String() -> parser *)
| IntSliceRT (signed : bool) (w : N) (zs : list Z) (impl_str : str) (impl : outcome (list Z))
(* strconv.Quote then strconv.Unquote; pr = the printable non-ASCII runes of the case *)
| QuoteRT (pr : list rune) (s : str) (impl_q : str) (impl_u : outcome str)
(* the same on an arbitrary byte string (invalid UTF-8 included), through the UTF-8 front end *)
| QuoteRTB (pr : list rune) (bs : list N) (impl_q : str) (impl_u : outcome str)
| UnquoteRaw (s : str) (impl : outcome str)
| SliceRT (pr : list rune) (l : list str) (impl_str : str) (impl : outcome (list str))
| SetRT (pr : list rune) (l : list str) (impl_str : str) (impl : outcome (list str))
| MapRT (pr : list rune) (m : list (str * str)) (impl_str : str) (impl : outcome (list (str * str)))
| MssRT (pr : list rune) (m : list (str * list str)) (impl_str : str)
        (impl : outcome (list (str * list str)))
(* parse.String(s, t) on arbitrary text *)
| Typed (pr : list rune) (t : ty) (s : str) (impl : outcome pval)
(* float / complex literals: no Gallina model (IEEE arithmetic is not modelled).  The harness
   compares dials with Go's own strconv at the target bit size (direct oracle) and reports
   whether they agreed; nothing is proved about these cases. *)
| FloatDirect (agrees : bool)
(* parse.String(s, time.Duration) on arbitrary text *)
| DurRaw (s : str) (impl : outcome Z)
(* nanosecond count -> Duration.String() -> parse.String *)
| DurRT (z : Z) (impl_str : str) (impl : outcome Z)
(* integer elements with blanks before and after them, on BOTH slice paths:
   parse.String(s, []intN) (scanner tokens; the env source) and
   parse.SignedIntegralSlice / UnsignedIntegralSlice (Split + TrimSpace; the flag helpers).
   zs are the values the harness rendered into s. *)
(* strings through the flag helpers' String() and back through parse.String at a type that is of
   slice-of-string / map-of-string KIND but not exactly []string / map[string]string:
   []Label, type Names []string, map[Label]string, type Env map[string]string ... *)
| NamedSliceRT (pr : list rune) (t : ty) (l : list str) (impl_str : str) (impl : outcome pval)
| NamedMapRT (pr : list rune) (t : ty) (m : list (str * str)) (impl_str : str) (impl : outcome pval)
| PaddedInts (signed : bool) (w : N) (s : str) (zs : list Z) (impl_generic : outcome pval)
             (impl_integral : outcome (list Z)).

Definition sw_of (w : N) : swidth :=
  match w with 0 => I8 | 1 => I16 | 2 => I32 | 3 => I64 | _ => IInt end.
Definition uw_of (w : N) : uwidth :=
  match w with 0 => U8 | 1 => U16 | 2 => U32 | 3 => U64 | 4 => UInt | _ => UPtr end.

(* ---- equality of observables (error texts and codes are not compared) ---- *)
Definition out_eqb {A} (eq : A -> A -> bool) (a b : outcome A) : bool :=
  match a, b with
  | Ok x, Ok y => eq x y
  | Err _, Err _ => true
  | Panic _, Panic _ => true
  | _, _ => false
  end.

Fixpoint list_eqb {A} (eq : A -> A -> bool) (a b : list A) : bool :=
  match a, b with
  | [], [] => true
  | x :: a', y :: b' => eq x y && list_eqb eq a' b'
  | _, _ => false
  end.

(* same elements, any order (used for Go maps, whose keys are distinct) *)
Definition perm_eqb {A} (eq : A -> A -> bool) (a b : list A) : bool :=
  (length a =? length b)%nat && forallb (fun x => existsb (eq x) b) a
  && forallb (fun y => existsb (eq y) a) b.

Definition kv_eqb (a b : str * str) : bool := str_eqb (fst a) (fst b) && str_eqb (snd a) (snd b).
Definition kvs_eqb (a b : str * list str) : bool := str_eqb (fst a) (fst b) && strs_eqb (snd a) (snd b).

Fixpoint pval_eqb (a b : pval) : bool :=
  match a, b with
  | VStr x, VStr y => str_eqb x y
  | VBool x, VBool y => Bool.eqb x y
  | VInt x, VInt y => (x =? y)%Z
  | VList x, VList y =>
      (fix go (x y : list pval) : bool :=
         match x, y with
         | [], [] => true
         | p :: x', q :: y' => pval_eqb p q && go x' y'
         | _, _ => false
         end) x y
  | VSet x, VSet y => perm_eqb str_eqb x y
  | VMss x, VMss y => perm_eqb kvs_eqb x y
  | VMap x, VMap y =>
      (length x =? length y)%nat &&
      (fix sub (x : list (pval * pval)) : bool :=
         match x with
         | [] => true
         | (k, v) :: x' =>
             (fix find (y : list (pval * pval)) : bool :=
                match y with
                | [] => false
                | (k', v') :: y' => (pval_eqb k k' && pval_eqb v v') || find y'
                end) y && sub x'
         end) x
  | _, _ => false
  end.

(* Values are compared after UTF-8 normalisation.  The harness prints what the bytes of the
   implementation's strings decode to (invalid bytes as raw pseudo runes, Text/Utf8.v); a model
   string whose raw bytes came from \xNN / octal escapes may contain neighbours that together
   form a valid sequence, so it is encoded and decoded again before the comparison. *)
Definition renorm (s : str) : str := utf8_decode (utf8_encode s).
Fixpoint pval_norm (v : pval) : pval :=
  match v with
  | VStr s => VStr (renorm s)
  | VList l => VList (map pval_norm l)
  | VSet l => VSet (map renorm l)
  | VMss m => VMss (map (fun kv : str * list str => (renorm (fst kv), map renorm (snd kv))) m)
  | VMap m => VMap (map (fun kv : pval * pval => let (k, x) := kv in (pval_norm k, pval_norm x)) m)
  | x => x
  end.
(* a duration whose float step the model does not determine: class only *)
Fixpoint pval_raw (v : pval) : bool :=
  match v with
  | VOpaque => true
  | VList l => existsb pval_raw l
  | VMap m => existsb (fun kv : pval * pval => let (k, x) := kv in pval_raw k || pval_raw x) m
  | _ => false
  end.
Definition out_class_eqb {A B} (a : outcome A) (b : outcome B) : bool :=
  match a, b with Ok _, Ok _ | Err _, Err _ | Panic _, Panic _ => true | _, _ => false end.

Definition no_dup (l : list str) : bool :=
  (fix go (l : list str) : bool :=
     match l with [] => true | x :: r => negb (mem_str x r) && go r end) l.

Definition z_list_eqb := list_eqb Z.eqb.

(* 0 pass; 1 implementation <> model while the specification holds on the case;
   3 the specification fails on the case; 10+k: it fails, implementation =
   model, and the case is in known-finding class k
   (1: a map key is the empty string - finding 9, only on a tree without the fix;
    2: empty integer slice - finding 10, only on a tree without the fix;
    3: a map[string][]string key whose value slice is empty - finding 11;
    4: a duration text whose terms sum to 2^64 ns or more: time.ParseDuration's uint64 accumulator wraps) *)
Definition verdict (spec_ok same_as_model : bool) (known : N) : N :=
  if spec_ok then (if same_as_model then 0 else 1)
  else if same_as_model && negb (known =? 0) then 10 + known else 3.

Definition check (c : c15case) : N :=
  match c with
  | IntScalar signed w s impl =>
      let model := if signed then parse_number_int (sw_of w) s
                   else omap Z.of_N (parse_number_uint (uw_of w) s) in
      let spec :=
        if signed then
          match lit_value s with
          | Some v => if in_srange (sw_of w) v then Ok v else Err 0
          | None => Err 0
          end
        else
          match lit_uvalue s with
          | Some v => if in_urange (uw_of w) v then Ok (Z.of_N v) else Err 0
          | None => Err 0
          end in
      verdict (out_eqb Z.eqb impl spec) (out_eqb Z.eqb impl model) 0
  | IntSliceRaw signed w s impl =>
      let model := if signed then signed_slice_gen fixed10 (sw_of w) s
                   else omap (map Z.of_N) (unsigned_slice_gen fixed10 (uw_of w) s) in
      (* spec on the implementation's output: every returned element is the
         value of its literal and lies in range; an error is justified by some
         element that is no literal or out of range *)
      let parts := map trim_space (split_on comma s) in
      let good p := match (if signed then lit_value p else option_map Z.of_N (lit_uvalue p)) with
                    | Some v => if signed then in_srange (sw_of w) v
                                else (0 <=? v)%Z && in_urange (uw_of w) (Z.to_N v)
                    | None => false
                    end in
      let value p := match (if signed then lit_value p else option_map Z.of_N (lit_uvalue p)) with
                     | Some v => v | None => 0%Z end in
      let spec := if fixed10 && nilb s then Ok [] else
                  if forallb good parts then Ok (map value parts) else Err 0 in
      verdict (out_eqb z_list_eqb impl spec) (out_eqb z_list_eqb impl model) 0
  | IntSliceRT signed w zs istr impl =>
      let mstr := if signed then int_slice_string zs else uint_slice_string (map Z.to_N zs) in
      let model := if signed then signed_slice_gen fixed10 (sw_of w) mstr
                   else omap (map Z.of_N) (unsigned_slice_gen fixed10 (uw_of w) mstr) in
      let inrange := forallb (fun z => if signed then in_srange (sw_of w) z
                                       else (0 <=? z)%Z && in_urange (uw_of w) (Z.to_N z)) zs in
      if negb inrange then 1    (* malformed case: the harness must only send values of the type *)
      else verdict (out_eqb z_list_eqb impl (Ok zs))
                   (str_eqb istr mstr && out_eqb z_list_eqb impl model)
                   (if negb fixed10 && nilb zs then 2 else 0)
  | QuoteRT pr s iq iu =>
      let isp := mk_print pr in
      let mq := quote isp s in
      verdict (out_eqb str_eqb iu (Ok s)) (str_eqb iq mq && out_eqb str_eqb iu (unquote mq)) 0
  | QuoteRTB pr bs iq iu =>
      let isp := mk_print pr in
      let s := utf8_decode bs in
      let mq := quote isp s in
      verdict (out_eqb str_eqb iu (Ok s)) (str_eqb iq mq && out_eqb str_eqb iu (omap renorm (unquote mq))) 0
  | UnquoteRaw s impl =>
      let model := unquote s in
      if out_eqb str_eqb impl (omap renorm model) then 0 else if is_panic impl then 3 else 1
  | SliceRT pr l istr impl =>
      let isp := mk_print pr in
      let mstr := slice_string isp l in
      verdict (out_eqb strs_eqb impl (Ok l))
              (str_eqb istr mstr && out_eqb strs_eqb impl (string_slice isp mstr)) 0
  | SetRT pr l istr impl =>
      let isp := mk_print pr in
      let mstr := set_string isp l in
      if negb (no_dup l) then 1
      else verdict (out_eqb (perm_eqb str_eqb) impl (Ok l))
                   (str_eqb istr mstr && out_eqb (perm_eqb str_eqb) impl (string_set isp mstr)) 0
  | MapRT pr m istr impl =>
      let isp := mk_print pr in
      let mstr := map_ss_string isp m in
      if negb (no_dup (map fst m)) then 1
      else verdict (out_eqb (perm_eqb kv_eqb) impl (Ok m))
                   (str_eqb istr mstr && out_eqb (perm_eqb kv_eqb) impl (map_ss_parse_gen fixed9 isp mstr))
                   (if negb fixed9 && existsb (fun kv => nilb (fst kv)) m then 1 else 0)
  | MssRT pr m istr impl =>
      let isp := mk_print pr in
      let mstr := mss_string isp m in
      if negb (no_dup (map fst m)) then 1
      else verdict (out_eqb (perm_eqb kvs_eqb) impl (Ok m))
                   (str_eqb istr mstr && out_eqb (perm_eqb kvs_eqb) impl (mss_parse_gen fixed9 isp mstr))
                   (if existsb (fun kv => nilb (snd kv)) m then 3
                    else if negb fixed9 && existsb (fun kv => nilb (fst kv)) m then 1 else 0)
  | Typed pr t s impl =>
      let model := parse_string (mk_print pr) fixed9 fixed_elem t s in
      if is_panic impl then 3
      else match model with
           | Ok v => if pval_raw v then (if out_class_eqb impl model then 0 else 1)
                     else if out_eqb pval_eqb impl (Ok (pval_norm v)) then 0 else 1
           | _ => if out_eqb pval_eqb impl model then 0 else 1
           end
  | FloatDirect agrees => if agrees then 0 else 3
  | DurRaw s impl =>
      if is_panic impl then 3
      else if dur_inexact s then 0       (* a float64 fraction step the model does not determine *)
      else
        let model := parse_duration s in
        let range_ok (neg : bool) (t : N) := if neg then t <=? two63 else t <=? two63 - 1 in
        let signed (neg : bool) (t : N) := if neg then (- Z.of_N t)%Z else Z.of_N t in
        let spec := match dur_spec s with
                    | DVal neg t => if range_ok neg t then Ok (signed neg t) else Err 0
                    | _ => Err 0
                    end in
        verdict (out_eqb Z.eqb impl spec) (out_eqb Z.eqb impl model)
                (match dur_spec s with DVal _ t => if two64 <=? t then 4 else 0 | _ => 0 end)
  | NamedSliceRT pr t l istr impl =>
      let isp := mk_print pr in
      let mstr := slice_string isp l in
      verdict (out_eqb pval_eqb impl (Ok (VList (map VStr l))))
              (str_eqb istr mstr && out_eqb pval_eqb impl (omap pval_norm (parse_string isp fixed9 fixed_elem t mstr))) 0
  | NamedMapRT pr t m istr impl =>
      let isp := mk_print pr in
      let mstr := map_ss_string isp m in
      if negb (no_dup (map fst m)) then 1
      else verdict (out_eqb pval_eqb impl (Ok (VMap (map (fun kv : str * str => (VStr (fst kv), VStr (snd kv))) m))))
                   (str_eqb istr mstr && out_eqb pval_eqb impl (omap pval_norm (parse_string isp fixed9 fixed_elem t mstr))) 0
  | PaddedInts signed w s zs ig ii =>
      let et := if signed then TInt (sw_of w) else TUint (uw_of w) in
      let mg := parse_string (mk_print []) fixed9 fixed_elem (TSlice et) s in
      let mi := if signed then signed_slice_gen fixed10 (sw_of w) s
                else omap (map Z.of_N) (unsigned_slice_gen fixed10 (uw_of w) s) in
      let want := match zs with [] => Ok (VList []) | _ => Ok (VList (map VInt zs)) end in
      verdict (out_eqb pval_eqb ig want && out_eqb z_list_eqb ii (Ok zs))
              (out_eqb pval_eqb ig mg && out_eqb z_list_eqb ii mi) 0
  | DurRT z istr impl =>
      let mstr := dur_string z in
      if negb ((- Z.of_N two63 <=? z)%Z && (z <? Z.of_N two63)%Z) then 1
      else verdict (out_eqb Z.eqb impl (Ok z)) (str_eqb istr mstr && out_eqb Z.eqb impl (parse_duration mstr)) 0
  end.

Fixpoint run_from (i : N) (cs : list c15case) : list (N * N) :=
  match cs with
  | [] => []
  | c :: r => let v := check c in
              if v =? 0 then run_from (i + 1) r else (i, v) :: run_from (i + 1) r
  end.
Definition run_cases := run_from 0.
