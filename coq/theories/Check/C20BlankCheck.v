(* Correspondence check for the Blank half of C20. *)
From Coq Require Import List NArith ZArith Bool.
From Dials Require Export Base.Outcome Base.Runes Reflect.Ty Reflect.Ptrify Stack.Overlay Ez.SeqDials Ez.Ez.
Import ListNotations.
Open Scope N_scope.

(* one observation group: the operations (one, or two racing SetSource calls in
   the order the Blank's mutex serialises them), their return classes, then View
   and Blank.Value after the group *)
Definition obs_group := (list blank_op * list (outcome unit) * list val * outcome val)%type.

Inductive c20bcase :=
| BlankCase (fs : fields) (defaults : list val) (groups : list obs_group).

Definition vals_eqb (a b : list val) : bool := val_eqb (VList a) (VList b).
Definition cls_eqb (a b : outcome unit) : bool :=
  match a, b with Ok _, Ok _ | Err _, Err _ | Panic _, Panic _ => true | _, _ => false end.

Definition prm0 : dparams := {| p_skip := false; p_delay := false; p_suppress := false |}.

Definition oval_eqb (a b : outcome val) : bool :=
  match a, b with
  | Ok x, Ok y => val_eqb x y
  | Err _, Err _ | Panic _, Panic _ => true
  | _, _ => false
  end.

Fixpoint run_group (fs : fields) (d : list val) (bs : blank * dstate) (ops : list blank_op)
  : blank * dstate * list (outcome unit) :=
  match ops with
  | [] => (fst bs, snd bs, [])
  | o :: ops' =>
      let '(b', st', r) := blank_step fs d (fun _ => true) prm0 bs o in
      let '(b'', st'', rs) := run_group fs d (b', st') ops' in
      (b'', st'', r :: rs)
  end.

Fixpoint rets_eqb (a b : list (outcome unit)) : bool :=
  match a, b with
  | [], [] => true
  | x :: a', y :: b' => cls_eqb x y && rets_eqb a' b'
  | _, _ => false
  end.

Fixpoint replay (fs : fields) (d : list val) (bs : blank * dstate) (groups : list obs_group) : bool :=
  match groups with
  | [] => true
  | (ops, rets, view, bval) :: rest =>
      let '(b', st', rs) := run_group fs d bs ops in
      rets_eqb rets rs && vals_eqb view (d_cur st') && oval_eqb bval (blank_value fs b') &&
      replay fs d (b', st') rest
  end.

Definition check (c : c20bcase) : N :=
  match c with
  | BlankCase fs d groups =>
      match d_config fs d (fun _ => true) prm0 [blank_layer fs] [true] with
      | Ok st0 => if replay fs d ({| b_inner := None; b_has_wa := true |}, st0) groups then 0 else 3
      | _ => 2
      end
  end.

Fixpoint run_from (i : N) (cs : list c20bcase) : list (N * N) :=
  match cs with
  | [] => []
  | c :: r => let v := check c in
              if v =? 0 then run_from (i + 1) r else (i, v) :: run_from (i + 1) r
  end.
Definition run_cases := run_from 0.
