(* End-to-end correspondence check of property C18 (second engine, c18e2e):
   the file layer from the decoder model (C13), the environment layer from the
   env-source model (C11), the flag layer from the flag-source model (C12),
   stacked by C01's compose - against dials.Config / ez.ConfigFileEnvFlag on
   the real sources.

   The case carries the config type, the defaults, the DOCUMENT, the
   ENVIRONMENT and the FLAG OCCURRENCES, the implementation's outcome, and the
   generator's own expectation: per leaf the value of the highest source it
   assigned the leaf to (computed by name in the harness, independent of every
   model here). *)
From Coq Require Import String.
From Coq Require Import List NArith ZArith Bool.
From Dials Require Export Base.Outcome Base.Runes Reflect.Ty Reflect.Ptrify Stack.Overlay
  Text.ParseText Sources.Flatten Sources.TimeText Sources.Decoders Sources.DecodersSpec
  Sources.Env Sources.Flags.
From Dials Require Import Check.C11Check Check.C12Check Check.C13Check.
Import ListNotations.
Open Scope list_scope.
Open Scope N_scope.

(* w: through ez (the decoder wrapped with the set-slice mangler); f: format;
   pk: flag package *)
Inductive e2ecase :=
| E2E (w : bool) (f pk : N) (fs : fields) (defaults : list val) (dc : doc)
      (env occs : list (str * str)) (expect impl : outcome (list val))
| E2ESkip.   (* the returned value holds a float beyond the harness' fixed-point value printer *)

(* defaults < file < environment < flags, every layer from its model *)
Definition e2e_model (w : bool) (f pk : N) (fs : fields) (d : list val) (dc : doc)
    (env occs : list (str * str)) : outcome (list val) :=
  let pfs := ptrify_fields fs in
  fl <- (if w then decode_wrapped (fmt_of f) dc pfs else decode (fmt_of f) dc pfs) ;;
  el <- env_value [] pfs env ;;
  gl <- flag_value (pkg_of pk) 0 0 fs d occs ;;
  compose fs d [VStruct fl; VStruct el; VStruct gl].

(* verdicts: 0 pass; 1 the implementation meets the by-name expectation but the
   composed model differs (model mismatch); 3 the implementation violates the
   per-leaf precedence expectation (or panics) *)
Definition check (c : e2ecase) : N :=
  match c with
  | E2ESkip => 0
  | E2E w f pk fs d dc env occs expect impl =>
      if is_panic impl then 3
      else if negb (cout_eqb impl expect) then 3
      else if cout_eqb impl (e2e_model w f pk fs d dc env occs) then 0 else 1
  end.

Fixpoint run_from (i : N) (cs : list e2ecase) : list (N * N) :=
  match cs with
  | [] => []
  | c :: r => let v := check c in
              if v =? 0 then run_from (i + 1) r else (i, v) :: run_from (i + 1) r
  end.
Definition run_cases := run_from 0.
