(* Correspondence check for C02: evaluated by coqc on harness-written cases.
   As in C03Check, one heap H numbers inputs and outputs jointly: addresses
   below n_in are exactly the objects reachable from the inputs (defaults,
   every layer / every value a source ever reported). *)
From Coq Require Import List NArith ZArith Bool.
From Dials Require Export Base.Outcome Base.Runes Reflect.Ty Reflect.Ptrify Reflect.Heap Copy.DeepCopy Copy.Canon
  Copy.DeepCopySpec Stack.Overlay Stack.StackProofs Stack.ComposeH Stack.ComposeHTyping Stack.ComposeHAbs Stack.History.
Import ListNotations.
Open Scope N_scope.

Inductive c02case :=
| Stack2 (fs : fields) (H : heap) (n_in : N) (d : addr) (layers : list addr)
         (impl : outcome (hv * hv))       (* the same inputs stacked twice: both results *)
| History (fs : fields) (H : heap) (n_in : N) (d : addr)
          (evs : list (list addr))     (* per stacking: the addresses of the source values in force *)
          (versions : list hv).        (* every View() over a run with k updates, oldest first *)

Definition input_heap (H : heap) (n_in : N) : heap := filter (fun ao => fst ao <? n_in) H.

Definition reach_of (fuel : nat) (H : heap) (v : hv) : option (list addr) :=
  match reach_addrs fuel H v with Done l => Some l | _ => None end.

Fixpoint pairwise_disjoint (ls : list (list addr)) : bool :=
  match ls with
  | [] => true
  | l :: r => forallb (disjointb l) r && pairwise_disjoint r
  end.

Fixpoint all_some {A} (l : list (option A)) : option (list A) :=
  match l with
  | [] => Some []
  | Some x :: r => match all_some r with Some r' => Some (x :: r') | None => None end
  | None :: _ => None
  end.

Fixpoint versions_eqb (fuel : nat) (hm : heap) (vs : list version) (H : heap) (impl : list hv) : bool :=
  match vs, impl with
  | [], [] => true
  | v :: vs', r :: impl' =>
      canon_eqb (canon_of false fuel hm (HPtr (Some (v_root v)))) (canon_of false fuel H r) &&
      versions_eqb fuel hm vs' H impl'
  | _, _ => false
  end.

Definition check (c : c02case) : N :=
  match c with
  | Stack2 fs H n_in d layers impl =>
      let hin := input_heap H n_in in
      let fuel := walk_fuel H (HPtr (Some d)) in
      let m := compose_h fuel fs hin n_in d layers in
      (* the shipped inputs must satisfy the decidable hypotheses of the theorems *)
      let rk := compute_rk hin in
      let guard_root := fun a => c03_guard_total hin n_in (rank_bound rk) (Nat.max (heap_depth hin) 1) rk (HPtr (Some a)) in
      (* ... including, for types inside C01's universe, the full guard of compose_h_total
         with a store typing inferred along the types *)
      let total_guard := negb (cfg_ok fs) ||
                         c02_guard hin n_in (rank_bound rk) (Nat.max (heap_depth hin) 1) rk
                                   (infer_inputs hin fs d layers) fs d layers in
      if negb (wf_heapb hin n_in && (d <? n_in) && layers_below n_in layers &&
               guard_root d && forallb guard_root layers && total_guard) then 1 else
      match impl with
      | Ok (r1, r2) =>
          match reach_of fuel H r1, reach_of fuel H r2 with
          | Some l1, Some l2 =>
              let spec := all_ge n_in l1 && all_ge n_in l2 && disjointb l1 l2 &&
                          canon_eqb (canon_of false fuel H r1) (canon_of false fuel H r2) in
              if spec then
                match m with
                | Done ((hm, _), dm) =>
                    (* contents: for an alias-free spine of the defaults the tree value of the
                       model's result is C01's `stack` of the tree values of the inputs *)
                    let contents_ok := negb (cfg_ok fs && spine_alias_free hin fs d) ||
                                       contents_agree fuel fs hin d layers hm dm in
                    if negb contents_ok then 1 else
                    if canon_eqb (canon_of false fuel hm (HPtr (Some dm))) (canon_of false fuel H r1) then 0 else 1
                | _ => 1
                end
              else 3
          | _, _ => 3
          end
      | Err _ => match m with RErr _ => 0 | _ => 1 end
      | Panic _ => match m with RPanic _ => 0 | _ => 1 end
      end
  | History fs H n_in d evs versions =>
      let hin := input_heap H n_in in
      let fuel := walk_fuel H (HPtr (Some d)) in
      let rk := compute_rk hin in
      let guard_root := fun a => c03_guard_total hin n_in (rank_bound rk) (Nat.max (heap_depth hin) 1) rk (HPtr (Some a)) in
      let hist_guard := negb (cfg_ok fs) ||
                        c02_history_guard hin n_in (rank_bound rk) (Nat.max (heap_depth hin) 1) rk
                                          (infer_inputs hin fs d (concat evs)) fs d evs in
      if negb (wf_heapb hin n_in && guard_root d && forallb (forallb guard_root) evs && hist_guard) then 1 else
      match all_some (map (reach_of fuel H) versions) with
      | Some ls =>
          if forallb (all_ge n_in) ls && pairwise_disjoint ls then
            (* replay the history in the model (Stack/History.v): every value the sources
               ever supplied already lives in the shipped heap *)
            match config_h fuel fs hin n_in d (map (mk_event []) evs) with
            | Done ((hm, _), _, vs) =>
                if versions_eqb fuel hm (rev vs) H versions then 0 else 1
            | _ => 1
            end
          else 3
      | None => 3
      end
  end.

Fixpoint run_from (i : N) (cs : list c02case) : list (N * N) :=
  match cs with
  | [] => []
  | c :: r => let v := check c in
              if v =? 0 then run_from (i + 1) r else (i, v) :: run_from (i + 1) r
  end.
Definition run_cases := run_from 0.
