(* Correspondence check for C18 (ez). *)
From Coq Require Import List NArith ZArith Bool.
From Dials Require Export Base.Outcome Base.Runes Reflect.Ty Reflect.Ptrify Stack.Overlay Stack.StackSpec
  Stack.Spine Stack.StackProofs Ez.SeqDials Ez.Ez.
Import ListNotations.
Open Scope N_scope.

(* later file change: new file layer, view afterwards, Verify receivers, the (old, new) arguments of
   every OnNewConfig call, number of OnWatchedError calls *)
Definition upd_obs := (outcome val * list val * list (list val) * list (list val * list val) * N)%type.

Inductive ez_obs :=
| EzObs (ok : bool) (view : option (list val)) (vlog : list (list val)) (events_empty : bool)
        (newcfg_calls err_calls : N) (upd : option upd_obs).

Inductive c18case :=
| EzCase (fs : fields) (defaults : list val) (env_layer flag_layer : val) (path_idx valid_idx : N) (watch : bool)
         (files : list (str * outcome val)) (obs : ez_obs)
(* the same, for a config type whose ConfigPath() answers (path, true) even when the path is empty *)
| EzCaseAlways (fs : fields) (defaults : list val) (env_layer flag_layer : val) (path_idx valid_idx : N) (watch : bool)
         (files : list (str * outcome val)) (obs : ez_obs).

Definition vals_eqb (a b : list val) : bool := val_eqb (VList a) (VList b).
Fixpoint vlogs_eqb (a b : list (list val)) : bool :=
  match a, b with
  | [], [] => true
  | x :: a', y :: b' => vals_eqb x y && vlogs_eqb a' b'
  | _, _ => false
  end.

Fixpoint pairs_eqb (a b : list (list val * list val)) : bool :=
  match a, b with
  | [], [] => true
  | (x1, x2) :: a', (y1, y2) :: b' => vals_eqb x1 y1 && vals_eqb x2 y2 && pairs_eqb a' b'
  | _, _ => false
  end.

Definition config_path_of (always : bool) (idx : N) (c : list val) : option str :=
  match nth_error c (N.to_nat idx) with
  | Some (VStr (ch :: s)) => Some (ch :: s)
  | Some (VStr []) => if always then Some [] else None
  | _ => None
  end.
Definition verify_of (idx : N) (c : list val) : bool :=
  match nth_error c (N.to_nat idx) with Some (VBool true) => true | _ => false end.
Fixpoint file_of (files : list (str * outcome val)) (p : str) : outcome val :=
  match files with
  | [] => Err 0
  | (q, v) :: r => if str_eqb p q then v else file_of r p
  end.

Definition hyps_ok (fs : fields) (d : list val) (envl flagl : val) (files : list (str * outcome val)) : bool :=
  cfg_ok fs && spine_fields fs d && layer_ok fs envl && layer_ok fs flagl &&
  forallb (fun e => match snd e with Ok l => layer_ok fs l | _ => true end) files.

Definition check_with (always : bool) (fs : fields) (d : list val) (envl flagl : val) (pidx vidx : N) (watch : bool)
    (files : list (str * outcome val)) (o : ez_obs) : N :=
  match o with
  | EzObs ok view vlog ev_empty ncb nerr upd =>
      let verify := verify_of vidx in
      let r := ez_run fs d verify envl flagl (config_path_of always pidx) (file_of files) watch in
      if negb (hyps_ok fs d envl flagl files) then 2 else
      let base_ok :=
        Bool.eqb ok (ez_ok r) && vlogs_eqb vlog (ez_vlog r) && (ncb =? 0) && (nerr =? 0) && negb (ez_hang r) &&
        match ez_state r, view with
        | Some st, Some v => vals_eqb v (d_cur st) && ev_empty
        | None, None => true
        | _, _ => false
        end in
      if negb base_ok then 3 else
      match upd, ez_state r with
      | Some (Ok fl, view2, vlog2, ncb2, nerr2), Some st =>
          if negb (layer_ok fs fl) then 2 else
          let st' := ez_file_update fs d verify st fl in
          let dv := skipn (length (d_vlog st)) (d_vlog st') in
          if vals_eqb view2 (d_cur st') && vlogs_eqb vlog2 dv &&
             pairs_eqb ncb2 (skipn (length (d_newcfg st)) (d_newcfg st')) &&
             (nerr2 =? N.of_nat (length (d_errcb st') - length (d_errcb st)))
          then 0 else 3
      | Some (_, view2, vlog2, ncb2, nerr2), Some st =>
          (* the new content does not decode: the view must stay, nothing is verified,
             the error goes to OnWatchedError (source-reported error, after enable) *)
          if vals_eqb view2 (d_cur st) && vlogs_eqb vlog2 [] && pairs_eqb ncb2 [] then 0 else 3
      | Some _, None => 3
      | None, _ => 0
      end
  end.

Definition check (c : c18case) : N :=
  match c with
  | EzCase fs d envl flagl pidx vidx watch files o => check_with false fs d envl flagl pidx vidx watch files o
  | EzCaseAlways fs d envl flagl pidx vidx watch files o => check_with true fs d envl flagl pidx vidx watch files o
  end.

Fixpoint run_from (i : N) (cs : list c18case) : list (N * N) :=
  match cs with
  | [] => []
  | c :: r => let v := check c in
              if v =? 0 then run_from (i + 1) r else (i, v) :: run_from (i + 1) r
  end.
Definition run_cases := run_from 0.
