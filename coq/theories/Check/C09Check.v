(* C09: delayed verification: never early, atomic switch-on, precise suppression. *)
From Coq Require Import List NArith Bool.
From Dials Require Import Base.Outcome Core.CbMgr Core.Monitor Core.System Core.Concrete Check.CoreCheck.
Import ListNotations.
Open Scope N_scope.

Definition first_enable_start (st : list istep) : option N :=
  match find (fun x => match i_lab x with LApiStart _ OpEnable => true | _ => false end) st with
  | Some x => Some (i_idx x)
  | None => None
  end.

(* under Delay, Verify is not invoked before EnableVerification is called *)
Definition never_early (su : setup) (vl : list (cfg3 * bool)) (st : list istep) : bool :=
  negb (p_delay (su_p su)) ||
  (match vl with [] => true | _ => false end &&
   forallb (fun ie =>
     match snd ie with
     | OVerify _ _ => match first_enable_start st with Some t => t <=? fst ie | None => false end
     | _ => true
     end) (events st)).

(* a successful enable returns an installed pair that verifies; without a
   monitor it is the current one; each enable under Delay that reaches a
   verdict called Verify on what it returned *)
Definition enable_ok (su : setup) (init : obs) (st : list istep) : bool :=
  forallb (fun x =>
    forallb (fun e =>
      match e with
      | ORet _ (RetEnable (EOk v)) =>
          installed init st v && (negb (p_delay (su_p su)) || verifyS su (snd v))
          && (if existsb (fun b => b) (map fst (su_srcs su)) then true else vc_eqb v (o_val (i_obs x)))
      | _ => true
      end) (o_evs (i_obs x))) st.

Definition first_ctl_recv (st : list istep) : option N :=
  match find (fun x => match i_lab x with LMonRecv RCtl => true | _ => false end) st with
  | Some x => Some (i_idx x)
  | None => None
  end.

(* global callbacks withheld while suppressed: with Delay and the option set,
   no OnNewConfig and no source-error OnWatchedError before the first enable
   request has reached the monitor *)
Definition withheld_while_suppressed (su : setup) (st : list istep) : bool :=
  negb (p_delay (su_p su) && p_suppress (su_p su)) ||
  forallb (fun ie =>
    match snd ie with
    | OCall (OINew _ _ _) | OCall (OIErr 2 _ _) =>
        match first_ctl_recv st with Some t => t <? fst ie | None => false end
    | _ => true
    end) (events st).

(* ... and delivered in every other state: in a schedule that is never in the
   suppressed state, that never overflowed the queue nor cancelled the Config
   context before the queue drained, every source error received by the monitor
   reached OnWatchedError and every install reached OnNewConfig *)
Definition count_if {A} (f : A -> bool) (l : list A) : N := N.of_nat (length (filter f l)).

Definition never_suppressed (su : setup) : bool := negb (p_delay (su_p su) && p_suppress (su_p su)).

(* some submitEvent did not send: an LMonAct true taken while the monitor stood at a submit hook *)
Fixpoint dropped_submit (prev : obs) (st : list istep) : bool :=
  match st with
  | [] => false
  | x :: r =>
      (match i_lab x with
       | LMonAct true => (o_mon prev =? 1) || (o_mon prev =? 5) || (o_mon prev =? 6)
       | _ => false
       end) || dropped_submit (i_obs x) r
  end.

Definition delivered_otherwise (su : setup) (init : obs) (st : list istep) : bool :=
  (* from which step on the schedule is certainly outside the suppressed state *)
  let from := if never_suppressed su then Some 0 else first_enable_ok st in
  let srcerrs_after t := count_if (fun x =>
      match i_lab x with
      | LMonRecv (ROffer tid) =>
          (t <? i_idx x) && match op_of st tid with Some (OpOffer (MsgErr _)) => true | _ => false end
      | _ => false
      end) st in
  let delivered := count_if (fun ie => match snd ie with OCall (OIErr 2 _ _) => true | _ => false end) (events st) in
  let lo := last (map i_obs st) init in
  match from with
  | None => true
  | Some t =>
      negb (su_on_err su) || dropped_submit init st || negb (o_cbq lo =? 0) || negb (o_mon lo =? 9) || negb (o_cb lo =? 3)
      || (srcerrs_after t <=? delivered)
  end.

Definition spec_ok (c : ccase) : bool :=
  match c with
  | CoreCrash _ _ => false
  | CoreCase su vl res init steps =>
      let st := index_from 1 steps in
      never_early su vl st &&
      ((negb (res =? 0)) ||
       (enable_ok su init st && withheld_while_suppressed su st && delivered_otherwise su init st
        && stores_verified su init st))
  end.

Definition check (c : ccase) : N := verdict (spec_ok c) c.
Definition run_cases : list ccase -> list (N * N) := run_from check 0.
