(* Correspondence check for C17: evaluated by coqc on harness-written cases.

   A quiescent case is a history of file operations; for every operation the
   harness recorded the ground truth about the file system after it (what an
   independent read through the config path returns, the symlink-resolved
   path, which config inodes and directories the operation destroyed), the
   names of the fsnotify events the watch loop received, and the
   implementation's observables once the loop was idle again (fsnotify watch
   list, numbers of reported values and errors, last reported value, whether
   the last report was an error).  The model (Sources/FileWatch.v,
   instantiated with the harness's content table and an injective checksum) is
   replayed on the same history: file-system change, then the received events
   as loop inputs (plus the loop's own recheck token when one is waiting), then
   the kernel's watch removals.  The first step of every case (OStart) is the
   state after Watch() and the loop's first pass; operations applied between the
   initial Value() and Watch() show up there. *)
From Coq Require Import List NArith Bool.
From Dials Require Import Base.Outcome Base.Runes.
From Dials Require Export Sources.FileWatch.
Import ListNotations.
Open Scope N_scope.

Inductive opkind := OStart | ORewrite | OTrunc | ORename | OK8s | OLink | ODelete | OReload | ODir | ORmParent
                  | ORewriteM | ORewrite2 | OOverflow | OTRename.

Record qstep := mkStep {
  q_op : opkind;
  q_read : read_result;        (* ground truth after the operation *)
  q_resolved : option path;
  q_linkres : option path;     (* what Readlink + EvalSymlinks(dir) tell about a (dangling) symlink *)
  q_ino : N;                   (* logical inode of the target, 0 = none *)
  q_dead : list N;             (* config inodes destroyed by the operation *)
  q_gone : list path;          (* directories removed by the operation *)
  q_transient : bool;          (* the operation passes through an empty file *)
  q_mid : option N;            (* a content that was in the file for an instant (two rewrites back to back) *)
  q_events : list path;        (* event names the loop received *)
  q_watches : list path;       (* implementation: fsnotify WatchList *)
  q_nvals : N;                 (* implementation: values reported so far (incl. the initial one) *)
  q_nerrs : N;                 (* implementation: errors reported so far *)
  q_nio : N;                   (* ... of which not from the decoder: open/read failures other than
                                  not-exist, i.e. transient IOErr reads of the environment *)
  q_last : option N;           (* implementation: last reported value *)
  q_lasterr : bool             (* implementation: the last report was an error *)
}.

Inductive c17case :=
| Quiescent (cfg r0 : path) (ino0 : N) (steps : list qstep)
| Racing (hist : list opkind) (final : read_result) (view : option N) (lasterr dup ok : bool)
| Window (points : list (read_result * option N * bool)) (dup ok : bool).

(* the harness's content table: ids below 100 decode to themselves *)
Definition decode (c : content) : option value := if c <? 100 then Some c else None.
Definition hmac (c : content) : csum := c.

Definition m_step := step decode hmac update_dir_watches.
Definition m_init := init_state hmac.

Definition subset (a b : list path) : bool := forallb (fun p => mem p b) a.
Definition set_eqb (a b : list path) : bool := subset a b && subset b a.
Definition optN_eqb (a b : option N) : bool :=
  match a, b with Some x, Some y => x =? y | None, None => true | _, _ => false end.
Definition read_eqb (a b : read_result) : bool :=
  match a, b with
  | NotExist, NotExist => true | IOErr, IOErr => true
  | Content x, Content y => x =? y | _, _ => false
  end.
Definition memN (x : N) (l : list N) : bool := existsb (N.eqb x) l.

Definition view_val (st : lstate) : option N := option_map snd (view st).

(* replay of one step in the model; returns the new state and watched inode *)
Definition model_step (cfg : path) (st : lstate) (wino : N) (s : qstep) : lstate * N :=
  let f := mkFs (q_read s) (q_resolved s) (q_linkres s) true true [] in
  let inputs := match q_op s with
                | OReload => [IReload]
                | OStart => [IRecheck]          (* the token watchLoop starts with *)
                | _ => map IEvent (q_events s)
                end in
  let st1a := fold_left (m_step cfg f) inputs st in
  (* a token left by a newly added watch is received before the loop is idle *)
  let st1 := if st_recheck st1a then m_step cfg f st1a IRecheck else st1a in
  let wino1 := if negb (st_watching st) && st_watching st1 then q_ino s else wino in
  let st2 := if st_watching st1 && negb (st_dropped st1) && memN wino1 (q_dead s)
             then drop cfg cfg st1 else st1 in
  (fold_left (fun a p => drop cfg p a) (q_gone s) st2, wino1).

(* implementation = model on the observables of this step *)
Definition step_agrees (st0 st : lstate) (prev s : qstep) : bool :=
  let dm := n_errors (st_reports st) - n_errors (st_reports st0) in
  let dio := q_nio s - q_nio prev in
  let di := q_nerrs s - q_nerrs prev in
  let newval := negb (n_values (st_reports st) =? n_values (st_reports st0)) in
  (* a multi-event operation lets the loop re-read the previous content *)
  let prev_bad := match q_read prev with
                  | Content c => match decode c with None => true | Some _ => false end
                  | IOErr => true | NotExist => false end in
  let exp_lasterr := if newval || (0 <? dm) then last_is_error (st_reports st) else q_lasterr prev in
  set_eqb (q_watches s) (st_watches st)
  && (q_nvals s =? n_values (st_reports st))
  && optN_eqb (q_last s) (view_val st)
  && (q_nerrs prev <=? q_nerrs s)
  && match q_op s with
     | OReload => di =? dm
     | _ => if dm =? 0 then (di =? 0) || q_transient s || prev_bad else 0 <? di
     end
  && (Bool.eqb (q_lasterr s) exp_lasterr
      || ((q_transient s || (0 <? dio)) && negb newval && q_lasterr s)).

(* the property itself, on the implementation's observables and the ground
   truth only: converged to decode(final) / stays at the last good value with
   the error reported / not-exist tolerated; content identical to the one of
   the current view gives no new version (`good` is no longer consulted: the
   view may legitimately sit on an instant content of a double rewrite) *)
(* the view did not move - or it moved to the content that was in the file for
   an instant (two rewrites back to back), which is then the last good one *)
Definition kept (prev s : qstep) : bool :=
  (optN_eqb (q_last s) (q_last prev) && (q_nvals s =? q_nvals prev))
  || match q_mid s with
     | Some m => match decode m with
                 | Some v => optN_eqb (q_last s) (Some v) && (q_nvals s <=? q_nvals prev + 1)
                 | None => false
                 end
     | None => false
     end.

Definition step_property (good : option N) (prev s : qstep) : bool :=
  match q_read s with
  | Content c =>
      match decode c with
      | Some v => optN_eqb (q_last s) (Some v)
                  && implb (optN_eqb (q_last prev) (Some v) && match q_mid s with None => true | Some _ => false end)
                           (q_nvals s =? q_nvals prev)
      | None => q_lasterr s && kept prev s
      end
  | IOErr => q_lasterr s && kept prev s
  | NotExist => kept prev s
  end.

(* A reader that resolves the config path while the operation replaces the
   link and then destroys the old target can get ENOENT although no state of
   the file system lacks the file (it followed the old link body).  When a step
   destroyed a config inode the model is therefore also replayed with one
   transient not-exist read first; the walk keeps every candidate model state
   that agrees with what the implementation showed. *)
Definition transient_notexist (cfg : path) (st : lstate) : lstate :=
  m_step cfg (mkFs NotExist None None false false []) st (IEvent cfg).

(* Second environment race: vfs_rename notifies the parent directory
   (IN_MOVED_TO) before the moved inode itself (IN_MOVE_SELF).  A loop that
   reacts to the first within microseconds adds its file watch to the inode
   before the second is sent; the fresh watch then receives IN_MOVE_SELF and
   fsnotify removes it.  Whenever the model (re-)added the file watch in a step,
   by an operation that puts the config entry in place with rename(2), the
   variant in which the kernel dropped it again is a candidate too. *)
Definition by_rename (o : opkind) : bool :=
  match o with ORename | OLink | OK8s | OTRename => true | _ => false end.

Definition with_move_self (cfg : path) (o : opkind) (before : lstate) (r : lstate * N) : list (lstate * N) :=
  let '(n, w) := r in
  if by_rename o && negb (st_watching before) && st_watching n
  then [(n, w); (drop cfg cfg n, w)] else [(n, w)].

(* Fourth (below, via_mid): an operation that rewrites the file twice back to
   back leaves its first content readable for an instant: one transient read of
   it is a candidate.

   Third: open/read failures other than not-exist that the source reported
   without a decoder being involved are transient IOErr reads of the
   environment; the model is fed as many of them as the harness counted. *)
Fixpoint io_transients (cfg : path) (k : nat) (st : lstate) : lstate :=
  match k with
  | O => st
  | S k' => io_transients cfg k' (m_step cfg (mkFs IOErr None None false false []) st (IEvent cfg))
  end.

Definition successors (cfg : path) (prev : qstep) (c : lstate * N) (s : qstep) : list (lstate * lstate * N) :=
  let '(st00, wino) := c in
  let st := io_transients cfg (N.to_nat (q_nio s - q_nio prev)) st00 in
  let via_mid := match q_mid s with
                 | Some c' => [m_step cfg (mkFs (Content c') (q_resolved s) (q_linkres s) true true []) st (IEvent cfg)]
                 | None => []
                 end in
  flat_map (fun st =>
  let tag := map (fun r : lstate * N => (st00, fst r, snd r)) in
  let normal := tag (with_move_self cfg (q_op s) st (model_step cfg st wino s)) in
  let through_notexist := match q_dead s, q_op s with
                          | _ :: _, _ => true
                          | [], ODir => true       (* the entry is removed, then the directory made *)
                          | [], _ => false
                          end in
  if through_notexist
  then let st' := transient_notexist cfg st in
       normal ++ tag (with_move_self cfg (q_op s) st' (model_step cfg st' wino s))
  else normal) (st :: via_mid).

(* bits: 1 = some step differs from the model, 2 = the property fails on some
   step, 4 = at the first property failure the model's watch-set invariant
   does not hold (lost watch) *)
Fixpoint walk (cfg : path) (cands : list (lstate * N)) (good : option N) (prev : qstep)
         (steps : list qstep) : bool * bool * bool :=
  match steps with
  | [] => (false, false, false)
  | s :: r =>
      let succ := flat_map (fun c => successors cfg prev c s) cands in
      let ok := filter (fun x => let '(st0, st', _) := x in step_agrees st0 st' prev s) succ in
      let agree := match ok with [] => false | _ => true end in
      let next := map (fun x => let '(_, st', w) := x in (st', w))
                      (match ok with [] => firstn 1 succ | _ => ok end) in
      let prop := step_property good prev s in
      let good' := match q_read s with
                   | Content c => match decode c with Some _ => Some c | None => good end
                   | _ => good end in
      let '(mm, pf, wl) := walk cfg next good' s r in
      (negb agree || mm, negb prop || pf,
       if negb prop then forallb (fun x => negb (winv cfg (fst x))) next else wl)
  end.

(* what dials.Config's initial Source.Value() saw *)
Definition first_step (r0 : path) : qstep :=
  mkStep OStart (Content 0) (Some r0) None 1 [] [] false None [] [] 1 0 0 (Some 0) false.

(* verdict codes: 0 pass; 1 implementation <> model though the property holds;
   3 the property fails; 11 the property fails, implementation = model, and the
   model has lost a directory watch (class 1: DESIGN finding 12, repaired) *)
(* the property's oracle at an idle point: converged to decode(final); or a
   good value kept and the error reported; or (file absent) a good value kept *)
Definition converged (final : read_result) (v : option N) (lasterr : bool) : bool :=
  let good := match v with Some x => x <? 100 | None => false end in
  match final with
  | Content c =>
      match decode c with
      | Some x => optN_eqb v (Some x)
      | None => lasterr && good
      end
  | IOErr => lasterr && good
  | NotExist => good
  end.

Definition check (c : c17case) : N :=
  match c with
  | Quiescent cfg r0 ino0 steps =>
      let st0 := m_init cfg 0 0 r0 in
      let '(mm, pf, wl) := walk cfg [(st0, ino0)] (Some 0) (first_step r0) steps in
      if pf then (if negb mm && wl then 11 else 3)
      else if mm then 1 else 0
  | Racing hist final v lasterr dup ok =>
      if negb dup && ok && converged final v lasterr then 0 else 3
  | Window points dup ok =>
      if negb dup && ok && forallb (fun p => let '(r, v, e) := p in converged r v e) points then 0 else 3
  end.

Fixpoint run_from (i : N) (cs : list c17case) : list (N * N) :=
  match cs with
  | [] => []
  | c :: r => let v := check c in
              if v =? 0 then run_from (i + 1) r else (i, v) :: run_from (i + 1) r
  end.
Definition run_cases := run_from 0.
