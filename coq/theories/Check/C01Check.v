(* Correspondence check for C01. *)
From Coq Require Import List NArith ZArith Bool.
From Dials Require Export Base.Outcome Base.Runes Reflect.Ty Reflect.Ptrify Stack.Overlay Stack.StackSpec.
Import ListNotations.
Open Scope N_scope.

Inductive c01case :=
| Stack (fs : fields) (defaults : list val) (layers : list val) (impl_ptrified : fields)
        (impl : outcome (list val)).

Definition vals_eqb (a b : list val) : bool := val_eqb (VList a) (VList b).

Definition out_eqb (a b : outcome (list val)) : bool :=
  match a, b with
  | Ok x, Ok y => vals_eqb x y
  | Err _, Err _ => true
  | Panic _, Panic _ => true
  | _, _ => false
  end.

Definition check (c : c01case) : N :=
  match c with
  | Stack fs d layers pfs impl =>
      let model := compose fs d layers in
      let corr := out_eqb impl model && fields_eqb (ptrify_fields fs) pfs in
      if supported_fields fs then
        match impl with
        | Ok r => if vals_eqb r (stack fs d layers) then (if corr then 0 else 1) else 3
        | _ => 3
        end
      else if corr then 0 else 1
  end.

Fixpoint run_from (i : N) (cs : list c01case) : list (N * N) :=
  match cs with
  | [] => []
  | c :: r => let v := check c in
              if v =? 0 then run_from (i + 1) r else (i, v) :: run_from (i + 1) r
  end.
Definition run_cases := run_from 0.
