(* Correspondence check for C01. *)
From Coq Require Import List NArith ZArith Bool.
From Dials Require Export Base.Outcome Base.Runes Reflect.Ty Reflect.Ptrify Stack.Overlay Stack.StackSpec.
Import ListNotations.
Open Scope N_scope.

(* a sequence of stackings over the same defaults value (as the monitor
   re-stacks): each round = the layers handed to compose and what it returned *)
Inductive c01case :=
| StackSeq (fs : fields) (defaults : list val) (impl_ptrified : fields)
           (rounds : list (list val * outcome (list val))).

Definition vals_eqb (a b : list val) : bool := val_eqb (VList a) (VList b).

Definition out_eqb (a b : outcome (list val)) : bool :=
  match a, b with
  | Ok x, Ok y => vals_eqb x y
  | Err _, Err _ => true
  | Panic _, Panic _ => true
  | _, _ => false
  end.

Definition check_round (fs : fields) (d : list val) (pfs : fields) (rd : list val * outcome (list val)) : N :=
  let '(layers, impl) := rd in
  let model := compose fs d layers in
  let corr := out_eqb impl model && fields_eqb (ptrify_fields fs) pfs in
  if supported_fields fs then
    match impl with
    | Ok r => if vals_eqb r (stack fs d layers) then (if corr then 0 else 1) else 3
    | _ => 3
    end
  else if corr then 0 else 1.

Fixpoint worst (l : list N) : N :=
  match l with [] => 0 | x :: r => N.max x (worst r) end.

Definition check (c : c01case) : N :=
  match c with
  | StackSeq fs d pfs rounds => worst (map (check_round fs d pfs) rounds)
  end.

Fixpoint run_from (i : N) (cs : list c01case) : list (N * N) :=
  match cs with
  | [] => []
  | c :: r => let v := check c in
              if v =? 0 then run_from (i + 1) r else (i, v) :: run_from (i + 1) r
  end.
Definition run_cases := run_from 0.
