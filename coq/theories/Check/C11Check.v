(* Correspondence check for C11 (environment source). *)
From Coq Require Import String.
From Coq Require Import List NArith ZArith Bool.
From Dials Require Export Base.Outcome Base.Runes Reflect.Ty Reflect.Ptrify Stack.Overlay
  Text.CaseConv Text.GoCamelSpec Text.ParseText Sources.Flatten Sources.FlattenSpec Sources.Env Sources.EnvSpec.
Import ListNotations.
Open Scope list_scope.
Open Scope N_scope.

(* the words the generator meant a field name / a tag to consist of *)
Definition dict := list (str * list (bool * str)).

Fixpoint dlookup (k : str) (d : dict) : option (list (bool * str)) :=
  match d with
  | [] => None
  | (k', v) :: r => if str_eqb k k' then Some v else dlookup k r
  end.

Definition intended (d : dict) (fallback : str -> outcome words) (s : str) : outcome words :=
  match dlookup s d with Some toks => Ok (expected (group toks)) | None => fallback s end.

Definition comp_intended (nd td : dict) (c : comp) : outcome words :=
  match tag_lookup dials_tag (c_tags c) with
  | Some t => intended td decode_go_tags t
  | None => if c_anon c then Ok [] else intended nd decode_go_camel (c_name c)
  end.

Fixpoint doc_words (nd td : dict) (p : path) : outcome words :=
  match p with
  | [] => Ok []
  | c :: r => a <- comp_intended nd td c ;; b <- doc_words nd td r ;; Ok (a ++ b)
  end.

Definition comp_silent (c : comp) : bool :=
  match tag_lookup dials_tag (c_tags c) with
  | Some [] => true
  | Some _ => false
  | None => c_anon c
  end.

(* the documented variable: dialsenv tag, else PREFIX_ + UPPER_SNAKE of the
   intended words along the path *)
Definition doc_var (nd td : dict) (prefix : str) (p : path) : outcome str :=
  match tag_get dialsenv_tag (leaf_tags p) with
  | [] => ws <- doc_words nd td p ;;
          match encode_upper_snake ws with
          | [] =>
              (* no word at all.  If that is because every component is silent (an explicitly
                 empty `dials:""` tag, or an untagged embedded field) the words of the field
                 names along the path are used; tags made of separators name nothing: error *)
              if forallb comp_silent p then
                ws' <- decode_go_camel (encode_upper_camel_t (flat_map (fun c => if c_anon c then [] else [c_name c]) p)) ;;
                match encode_upper_snake ws' with [] => Err 5 | n => Ok (with_prefix prefix n) end
              else Err 5
          | n => Ok (with_prefix prefix n)
          end
  | v => Ok (with_prefix prefix v)
  end.

(* specification of the source's value: documented names, parse, depth-first
   reassembly *)
Definition env_spec (nd td : dict) (prefix : str) (pfs : fields) (env : list (str * str))
  : outcome (list val) :=
  let afs := alias_fields env_alias_keys pfs in
  let pts := paths afs in
  (* two leaves whose Go names flatten to the same name cannot be told apart: error *)
  if has_dup (map (fun pt => encode_upper_camel_t (flat_map (fun c => if c_anon c then [] else [c_name c]) (fst pt))) pts)
  then Err 4 else
  vars <- omapM (fun pt => doc_var nd td prefix (fst pt)) pts ;;
  vals <- omapM (fun pv => cast (snd (fst pv)) (lookup_env env (snd pv))) (combine pts vars) ;;
  vs <- populate afs vals ;;
  unalias_fields env_alias_keys pfs vs.

(* ---- canonical form: maps sorted by (string) key ---- *)
Fixpoint str_leb (a b : str) : bool :=
  match a, b with
  | [], _ => true
  | _ :: _, [] => false
  | x :: a', y :: b' => if x <? y then true else if y <? x then false else str_leb a' b'
  end.

Definition key_leb (a b : val) : bool :=
  match a, b with
  | VStr x, VStr y => str_leb x y
  | VInt x, VInt y => (x <=? y)%Z
  | VBool x, VBool y => implb x y
  | _, _ => true
  end.

Fixpoint kv_insert (kv : val * val) (l : list (val * val)) : list (val * val) :=
  match l with
  | [] => [kv]
  | kv' :: r => if key_leb (fst kv) (fst kv') then kv :: l else kv' :: kv_insert kv r
  end.

Fixpoint canon (v : val) : val :=
  match v with
  | VPtr x => VPtr (canon x)
  | VList l => VList (map canon l)
  | VStruct l => VStruct (map canon l)
  | VMap kvs => VMap (fold_right (fun kv acc => kv_insert (fst kv, canon (snd kv)) acc) [] kvs)
  | _ => v
  end.

Definition cvals_eqb (a b : list val) : bool := val_eqb (canon (VList a)) (canon (VList b)).

Definition cout_eqb (a b : outcome (list val)) : bool :=
  match a, b with
  | Ok x, Ok y => cvals_eqb x y
  | Err _, Err _ => true
  | Panic _, Panic _ => true
  | _, _ => false
  end.


Definition vals_eqb (a b : list val) : bool := cvals_eqb a b.

Definition out_eqb (a b : outcome (list val)) : bool :=
  match a, b with
  | Ok x, Ok y => vals_eqb x y
  | Err _, Err _ => true
  | Panic _, Panic _ => true
  | _, _ => false
  end.

Definition ostr_eqb (a b : outcome str) : bool :=
  match a, b with Ok x, Ok y => str_eqb x y | _, _ => false end.

(* known-finding classes (0 = none):
     4  flattened Go field names collide (embedded field shadowed by an outer
        field, or A.B next to AB): reflect.StructOf panics
     2  a field name on the path is split by DecodeGoCamelCase into other words
        than it was assembled from (the C19 classes surfacing in a variable name)
     3  a dials tag on the path is split by DecodeGoTags into other words than
        it was assembled from (same, through tags)
     1  every component splits as intended but the UpperCamel join of the
        components fuses words (DESIGN finding 8: A.B reads AB)            *)
Definition comp_class (nd td : dict) (c : comp) : N :=
  match tag_lookup dials_tag (c_tags c) with
  | Some t => if owords_eqb (decode_go_tags t) (intended td decode_go_tags t) then 0 else 3
  | None => if c_anon c then 0
            else if owords_eqb (decode_go_camel (c_name c)) (intended nd decode_go_camel (c_name c)) then 0 else 2
  end.

Fixpoint path_class (nd td : dict) (p : path) : N :=
  match p with
  | [] => 1
  | c :: r => let k := comp_class nd td c in if k =? 0 then path_class nd td r else k
  end.

Fixpoint first_class (nd td : dict) (prefix : str) (ls : list leaf) (pts : list (path * ty)) : N :=
  match ls, pts with
  | l :: ls', pt :: pts' =>
      (* a class only explains two NAMES that differ; any other disagreement
         (error or panic on one side) is not a known finding *)
      match env_leaf_var prefix l, doc_var nd td prefix (fst pt) with
      | Ok a, Ok b => if str_eqb a b then first_class nd td prefix ls' pts' else path_class nd td (fst pt)
      | Err _, Err _ => first_class nd td prefix ls' pts'
      | _, _ => 0
      end
  | _, _ => 0
  end.

Definition known_class (nd td : dict) (prefix : str) (pfs : fields) : N :=
  let afs := alias_fields env_alias_keys pfs in
  match flatten env_cfg afs with
  | Ok ls => first_class nd td prefix ls (paths afs)
  | _ => 0
  end.

Inductive c11case :=
| EnvCase (fs : fields) (impl_pfs : fields) (nd td : dict) (prefix : str) (env : list (str * str))
          (impl : outcome (list val)) (defaults : list val) (impl_stacked : outcome (list val))
| EnvSkip.   (* the returned value holds a float beyond the harness' fixed-point value printer *)

Definition check (c : c11case) : N :=
  match c with
  | EnvCase fs ipfs nd td prefix env impl d istacked =>
      let pfs := ptrify_fields fs in
      let model := env_value prefix pfs env in
      let spec := env_spec nd td prefix pfs env in
      let corr := out_eqb impl model && fields_eqb pfs ipfs in
      if out_eqb impl spec then
        (* the documented layer, stacked over the defaults, is what the caller sees *)
        match spec with
        | Ok vs => if out_eqb istacked (compose fs d [VStruct vs]) then (if corr then 0 else 1) else 3
        | _ => if corr then 0 else 1
        end
      else if corr then
        let k := known_class nd td prefix pfs in
        if k =? 0 then 3
        else if is_panic impl then 3     (* no panic is ever explained by a known class *)
        else 10 + k
      else 3
  | EnvSkip => 0
  end.

Fixpoint run_from (i : N) (cs : list c11case) : list (N * N) :=
  match cs with
  | [] => []
  | c :: r => let v := check c in
              if v =? 0 then run_from (i + 1) r else (i, v) :: run_from (i + 1) r
  end.
Definition run_cases := run_from 0.
