(* Correspondence check for C19: evaluated by coqc on harness-written cases. *)
From Coq Require Import List NArith Bool.
From Dials Require Import Base.Outcome Base.Runes Text.CaseConv Text.GoCamelSpec Text.CaseTitle.
Import ListNotations.
Open Scope N_scope.

Inductive c19case :=
| RoundTrip (scheme : N) (ws : words) (impl_enc : str) (impl_dec : outcome words)
| GoName (toks : list (bool * str)) (impl : outcome words)
| Raw (dec : N) (s : str) (impl : outcome words).

(* the camel encoders through the faithful ASCII model of x/text's title casing
   (Text/CaseTitle.v); on the theorems' words [a-z][a-z0-9]* it is CaseConv.v's
   encode_upper_camel / encode_lower_camel (CaseTitleProofs.encode_camel_go_lwords) *)
Definition encode (scheme : N) : words -> str :=
  match scheme with
  | 0 => encode_upper_camel_go | 1 => encode_lower_camel_go | 2 => encode_lower_snake
  | 3 => encode_upper_snake | 4 => encode_kebab | _ => encode_cp_snake
  end.

Definition decode (d : N) : str -> outcome words :=
  match d with
  | 0 => decode_upper_camel | 1 => decode_lower_camel | 2 => decode_lower_snake
  | 3 => decode_upper_snake | 4 => decode_kebab | 5 => decode_cp_snake
  | 6 => decode_go_camel | _ => decode_go_tags
  end.

(* outcomes are compared up to error text/class *)
Definition out_eqb (a b : outcome words) : bool :=
  match a, b with
  | Ok x, Ok y => strs_eqb x y
  | Err _, Err _ => true
  | Panic _, Panic _ => true
  | _, _ => false
  end.

Definition wf_lword (w : str) : bool :=
  match w with c :: t => is_lower c && forallb low_or_dig t | [] => false end.

(* verdict codes: 0 pass; 1 implementation <> model though the property holds
   on this case; 3 the property fails on this case; 10+k the property fails,
   implementation = model, and the case is in known-finding class k *)
Definition check (c : c19case) : N :=
  match c with
  | RoundTrip scheme ws ienc idec =>
      let menc := encode scheme ws in
      let mdec := decode scheme menc in
      if forallb wf_lword ws && negb (is_nil ws) then
        if negb (out_eqb idec (Ok ws)) then 3
        else if str_eqb ienc menc && out_eqb idec mdec then 0 else 1
      else if str_eqb ienc menc && out_eqb idec mdec then 0 else 1
  | GoName toks impl =>
      let ss := group toks in
      let model := decode_go_camel (render ss) in
      if is_panic impl then 3
      else if forallb wf_seg ss && negb (is_nil ss) then
        if out_eqb impl (Ok (expected ss)) then (if out_eqb impl model then 0 else 1)
        else
          let k := guard_class None ss in
          if negb (k =? 0) && out_eqb impl model then 10 + k else 3
      else if out_eqb impl model then 0 else 1
  | Raw d s impl =>
      if is_panic impl then 3 else if out_eqb impl (decode d s) then 0 else 1
  end.

Fixpoint run_from (i : N) (cs : list c19case) : list (N * N) :=
  match cs with
  | [] => []
  | c :: r => let v := check c in
              if v =? 0 then run_from (i + 1) r else (i, v) :: run_from (i + 1) r
  end.
Definition run_cases := run_from 0.
