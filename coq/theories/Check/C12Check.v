(* Correspondence check for C12 (flag sources). *)
From Coq Require Import String.
From Coq Require Import List NArith ZArith Bool.
From Dials Require Export Base.Outcome Base.Runes Reflect.Ty Reflect.Ptrify Stack.Overlay
  Text.CaseConv Text.GoCamelSpec Text.ParseInt Text.Quote Text.Split Text.ParseText Sources.Flatten Sources.FlattenSpec
  Sources.Env Sources.TimeText Sources.Flags Sources.FlagsDefaults.
From Dials Require Import Check.C11Check.
Import ListNotations.
Open Scope list_scope.
Open Scope N_scope.

(* advertised flags: same names, same canonical defaults (any order) *)
Fixpoint adv_find (n : str) (l : list (str * val)) : option val :=
  match l with
  | [] => None
  | (k, v) :: r => if str_eqb n k then Some v else adv_find n r
  end.

Definition adv_sub (a b : list (str * val)) : bool :=
  forallb (fun nv => match adv_find (fst nv) b with
                     | Some v => val_eqb (canon (snd nv)) (canon v)
                     | None => false end) a.

Definition adv_eqb (a b : outcome (list (str * val))) : bool :=
  match a, b with
  | Ok x, Ok y => (length x =? length y)%nat && adv_sub x y && adv_sub y x
  | Err _, Err _ => true
  | Panic _, Panic _ => true
  | _, _ => false
  end.

Definition pkg_of (n : N) : pkg := match n with 0 => PStd | _ => PPflag end.

(* ---- documented flag names ---- *)
Definition comp_doc_parts (nd : dict) (c : comp) : outcome (list str) :=
  match tag_lookup dials_tag (c_tags c) with
  | Some t => Ok [t]
  | None => if c_anon c then Ok [] else intended nd decode_go_camel (c_name c)
  end.

Fixpoint doc_parts (nd : dict) (p : path) : outcome (list str) :=
  match p with
  | [] => Ok []
  | c :: r => a <- comp_doc_parts nd c ;; b <- doc_parts nd r ;; Ok (a ++ b)
  end.

Definition doc_flag_name (pk : pkg) (te : N) (nd : dict) (p : path) : outcome str :=
  match tag_lookup (src_tag pk) (leaf_tags p) with
  | Some n => Ok n
  | None => parts <- doc_parts nd p ;; Ok (tag_enc te parts)
  end.

Fixpoint names_ok (pk : pkg) (te : N) (nd : dict) (regs : list reg) (pts : list (path * ty)) : bool :=
  match regs, pts with
  | r :: regs', pt :: pts' =>
      match doc_flag_name pk te nd (fst pt) with
      | Ok n => str_eqb n (rg_name r) && names_ok pk te nd regs' pts'
      | _ => false
      end
  | [], [] => true
  | _, _ => false
  end.

(* ================= the by-name specification =================
   Independent of the model of registerFlags / Parse / Value (flag_regs,
   run_occs, flag_value): it speaks about documented flag NAMES, the
   depth-first leaf paths of the type (FlattenSpec.paths), a positional read
   of the template (FlagsDefaults.tl_fields) and of the implementation's value
   (FlattenSpec.leaves_of), and the accumulation LAW of each flag kind over
   the texts given for that name.  Shared with the model: the table of flag
   kinds per leaf type (flag_kind), the parsers of property C15 and the
   association-list helpers.  Evaluated for types without alias tags (alias
   cases are judged against the model only). *)
Fixpoint omapL {A B} (f : A -> outcome B) (l : list A) : outcome (list B) :=
  match l with [] => Ok [] | a :: r => b <- f a ;; bs <- omapL f r ;; Ok (b :: bs) end.

Fixpoint texts_for (n : str) (occs : list (str * str)) : list str :=
  match occs with
  | [] => []
  | (m, t) :: r => if str_eqb n m then t :: texts_for n r else texts_for n r
  end.

Definition last_of {A} (l : list A) (d : A) : A := last l d.

(* the value a flag of kind k holds after the texts ts (non-empty), by law:
   scalars - the last text, every text must parse; slices - the parsed lists
   concatenated, the default dropped; maps and sets - the union, later texts
   overwriting / extending; a TextUnmarshaler - what UnmarshalText left *)
Definition law (k : fkind) (dflt : val) (ts : list str) : outcome val :=
  match k with
  | FkString => Ok (VStr (last_of ts []))
  | FkBool => l <- omapL PS.parse_bool ts ;; Ok (VBool (last_of l false))
  | FkInt b => l <- omapL (fun t => parse_int t b) ts ;; Ok (VInt (last_of l 0%Z))
  | FkUint b => l <- omapL (fun t => ures_out (parse_uint t b)) ts ;; Ok (VInt (Z.of_N (last_of l 0)))
  | FkFloat b => l <- omapL (parse_float b) ts ;; Ok (VFloat (last_of l 0%Z))
  | FkComplex b => l <- omapL (parse_complex b) ts ;; Ok (last_of l VNil)
  | FkDuration => l <- omapL parse_duration ts ;; Ok (VInt (last_of l 0%Z))
  | FkTime => l <- omapL time_value ts ;; Ok (last_of l VNil)
  | FkEnum ws => if forallb (fun t => existsb (str_eqb t) ws) ts then Ok (VText (last_of ts [])) else Err e_syntax
  | FkText true => Ok (VText (last_of ts []))
  | FkText false => Ok dflt
  | FkIP => l <- omapL parse_ip ts ;; Ok (last_of l VNil)
  | FkStrSlice native =>
      l <- omapL (fun t => if native then pflag_csv t else string_slice isp0 t) ts ;;
      Ok (VList (map VStr (concat l)))
  | FkIntSlice sg b =>
      l <- omapL (fun t => if sg then omap (map VInt) (signed_slice (sw_of b) t)
                           else omap (map (fun n => VInt (Z.of_N n))) (unsigned_slice (uw_of b) t)) ts ;;
      Ok (VList (concat l))
  | FkStrMap =>
      l <- omapL (map_ss_parse isp0) ts ;;
      Ok (VMap (fold_left (fun m kv => map_put (VStr (fst kv)) (VStr (snd kv)) m) (concat l) []))
  | FkStrSet =>
      l <- omapL (string_set isp0) ts ;;
      Ok (VMap (fold_left (fun m w => map_put (VStr w) set_unit m) (concat l) []))
  | FkStrSliceMap =>
      l <- omapL (mss_parse isp0) ts ;;
      Ok (VMap (fold_left (fun m kvs => merge_mss kvs m) l []))
  end.

(* what the leaf holds for a flag value v *)
Definition leaf_of_flag (p : pkg) (k : fkind) (lt : ty) (v : val) : outcome val :=
  match k with
  | FkStrSlice _ | FkIntSlice _ _ | FkStrMap | FkStrSet | FkStrSliceMap | FkIP =>
      match lt with TPtr _ => Ok (VPtr v) | _ => Ok v end
  | _ => match lt with
         | TPtr e => match p with
                     | PStd => if fits e v then Ok (VPtr v) else Err 31      (* out of the leaf's range *)
                     | PPflag => Ok (VPtr v)
                     end
         | _ => Err 97
         end
  end.

Record sleaf := mkSleaf { sl_name : str; sl_ty : ty; sl_kind : option fkind; sl_dflt : val }.

Definition spec_leaves (p : pkg) (te : N) (nd : dict) (fs : fields) (tmpl : list val) : outcome (list sleaf) :=
  let pfs := ptrify_fields fs in
  omapL (fun pd =>
           let pt := fst pd in
           n <- doc_flag_name p te nd (fst pt) ;;
           let t := snd pt in
           let dash := match tag_lookup (src_tag p) (leaf_tags (fst pt)) with Some v => str_eqb v Ty.dash | None => false end in
           Ok (mkSleaf n t (if dash then None else flag_kind p (strip_ptr_ty t))
                       (match snd pd with Some v => v | None => zero (strip_ptr_ty t) end)))
        (combine (paths pfs) (tl_fields fs (Some tmpl))).

Definition flat_go_names (ne : N) (pfs : fields) : list str :=
  map (fun pt => name_enc ne (flat_map (fun c => if c_anon c then [] else [c_name c]) (fst pt))) (paths pfs).

(* registration must fail iff two leaves share a flag name (other than "-"),
   share a flattened Go name, or - std package - a registered name begins
   with '-' or contains '=' *)
Definition spec_reg_error (p : pkg) (ne : N) (fs : fields) (sls : list sleaf) : bool :=
  has_dup (filter (fun n => negb (str_eqb n Ty.dash)) (map sl_name sls)) ||
  has_dup (flat_go_names ne (ptrify_fields fs)) ||
  match p with
  | PStd => existsb (fun sl => negb (str_eqb (sl_name sl) Ty.dash) && bad_std_name (sl_name sl)) sls
  | PPflag => false
  end.

Definition spec_advertised (sls : list sleaf) : list (str * val) :=
  flat_map (fun sl => match sl_kind sl with
                      | Some k => [(sl_name sl, canon_default k (sl_dflt sl))]
                      | None => [] end) sls.

(* the expected leaves (depth first) of the value *)
Definition spec_values (p : pkg) (sls : list sleaf) (occs : list (str * str)) : outcome (list val) :=
  if negb (forallb (fun o => existsb (fun sl => str_eqb (fst o) (sl_name sl) &&
                                        match sl_kind sl with Some _ => true | None => false end) sls) occs)
  then Err 30                                              (* a flag that is not defined *)
  else omapL (fun sl => match texts_for (sl_name sl) occs, sl_kind sl with
                        | [], _ | _, None => Ok VNil       (* not given: unset *)
                        | ts, Some k => v <- law k (sl_dflt sl) ts ;; leaf_of_flag p k (sl_ty sl) v
                        end) sls.

(* every struct pointer is allocated exactly when some leaf below it is set *)
Fixpoint alloc_ok_ty (t : ty) (v : val) {struct t} : bool :=
  match t, v with
  | TPtr (TStruct fs _), VNil => true
  | TPtr (TStruct fs _), VPtr (VStruct vs) =>
      existsb (fun x => negb (is_vnil x)) (read_fields fs (Some vs)) && alloc_ok fs vs
  | TPtr (TStruct _ _), _ => false
  | _, _ => true
  end
with alloc_ok (fs : fields) (vs : list val) {struct fs} : bool :=
  match fs, vs with
  | FNil, [] => true
  | FCons _ _ _ t r, v :: vs' => alloc_ok_ty t v && alloc_ok r vs'
  | _, _ => false
  end.

(* 0 = the implementation satisfies the specification, 3 = it does not,
   12 = it does not, the flag names being those the (name-faithful) model
   derives: known class 2 is decided by the caller *)
Definition spec_check (p : pkg) (ne te : N) (nd : dict) (fs : fields) (tmpl : list val)
    (iadv : outcome (list (str * val))) (occs : list (str * str)) (impl : outcome (list val)) : bool :=
  let pfs := ptrify_fields fs in
  match spec_leaves p te nd fs tmpl with
  | Ok sls =>
      if spec_reg_error p ne fs sls then
        match iadv, impl with Err _, Err _ => true | _, _ => false end
      else
        adv_eqb iadv (Ok (spec_advertised sls)) &&
        match spec_values p sls occs, impl with
        | Ok exp, Ok vs => cvals_eqb (leaves_of pfs vs) exp && alloc_ok pfs vs
        | Err _, Err _ => true
        | _, _ => false
        end
  | _ => match iadv, impl with Err _, Err _ => true | _, _ => false end
  end.

Inductive c12case :=
| FlagCase (pk ne te : N) (fs : fields) (tmpl : list val) (nd : dict)
           (impl_adv : outcome (list (str * val)))
           (occs : list (str * str))
           (impl : outcome (list val)) (impl_stacked : outcome (list val))
| FlagSkip.   (* the returned value holds a float too large for the harness' value printer *)

(* verdicts: 0 pass; 1 the implementation satisfies the by-name specification
   but differs from the model; 3 the specification fails on the
   implementation's output; 12 it fails, implementation = model, and the
   model's flag names differ from the documented ones (known class 2: a field
   name is split by DecodeGoCamelCase into other words than it is made of).
   Types with alias tags are judged against the model only. *)
Definition check (c : c12case) : N :=
  match c with
  | FlagSkip => 0
  | FlagCase pk ne te fs tmpl nd iadv occs impl istacked =>
      let p := pkg_of pk in
      let mregs := flag_regs p ne te fs tmpl in
      let madv := omap flag_advertised mregs in
      let model := flag_value p ne te fs tmpl occs in
      let same := adv_eqb iadv madv && cout_eqb impl model in
      let stacked_ok := match impl with
                        | Ok vs => cout_eqb istacked (compose fs tmpl [VStruct vs])
                        | _ => true end in
      (* the names the code derives, also when registration then fails on them (a mis-split name
         may collide with another flag's: the naming class then shows as a registration error) *)
      let nok := match flatten (flag_cfg ne te) (alias_fields (flag_alias_keys p) (ptrify_fields fs)) with
                 | Ok ls => names_ok p te nd (map (mk_reg p fs tmpl) ls)
                              (paths (alias_fields (flag_alias_keys p) (ptrify_fields fs)))
                 | _ => true end in
      if is_panic impl || is_panic iadv then 3             (* no panic is ever acceptable *)
      else if negb stacked_ok then 3
      else if alias_free (flag_alias_keys p) (ptrify_fields fs) then
        if spec_check p ne te nd fs tmpl iadv occs impl then (if same then 0 else 1)
        else if same && negb nok then 12
        else 3
      else if same then (if nok then 0 else 12) else 3
  end.

Fixpoint run_from (i : N) (cs : list c12case) : list (N * N) :=
  match cs with
  | [] => []
  | c :: r => let v := check c in
              if v =? 0 then run_from (i + 1) r else (i, v) :: run_from (i + 1) r
  end.
Definition run_cases := run_from 0.
