(* Correspondence check for C12 (flag sources). *)
From Coq Require Import String.
From Coq Require Import List NArith ZArith Bool.
From Dials Require Export Base.Outcome Base.Runes Reflect.Ty Reflect.Ptrify Stack.Overlay
  Text.CaseConv Text.GoCamelSpec Text.ParseText Sources.Flatten Sources.FlattenSpec Sources.Env Sources.Flags.
From Dials Require Import Check.C11Check.
Import ListNotations.
Open Scope list_scope.
Open Scope N_scope.

(* advertised flags: same names, same canonical defaults (any order) *)
Fixpoint adv_find (n : str) (l : list (str * val)) : option val :=
  match l with
  | [] => None
  | (k, v) :: r => if str_eqb n k then Some v else adv_find n r
  end.

Definition adv_sub (a b : list (str * val)) : bool :=
  forallb (fun nv => match adv_find (fst nv) b with
                     | Some v => val_eqb (canon (snd nv)) (canon v)
                     | None => false end) a.

Definition adv_eqb (a b : outcome (list (str * val))) : bool :=
  match a, b with
  | Ok x, Ok y => (length x =? length y)%nat && adv_sub x y && adv_sub y x
  | Err _, Err _ => true
  | Panic _, Panic _ => true
  | _, _ => false
  end.

Definition pkg_of (n : N) : pkg := match n with 0 => PStd | _ => PPflag end.

(* ---- documented flag names ---- *)
Definition comp_doc_parts (nd : dict) (c : comp) : outcome (list str) :=
  match tag_lookup dials_tag (c_tags c) with
  | Some t => Ok [t]
  | None => if c_anon c then Ok [] else intended nd decode_go_camel (c_name c)
  end.

Fixpoint doc_parts (nd : dict) (p : path) : outcome (list str) :=
  match p with
  | [] => Ok []
  | c :: r => a <- comp_doc_parts nd c ;; b <- doc_parts nd r ;; Ok (a ++ b)
  end.

Definition doc_flag_name (pk : pkg) (te : N) (nd : dict) (p : path) : outcome str :=
  match tag_lookup (src_tag pk) (leaf_tags p) with
  | Some n => Ok n
  | None => parts <- doc_parts nd p ;; Ok (tag_enc te parts)
  end.

Fixpoint names_ok (pk : pkg) (te : N) (nd : dict) (regs : list reg) (pts : list (path * ty)) : bool :=
  match regs, pts with
  | r :: regs', pt :: pts' =>
      match doc_flag_name pk te nd (fst pt) with
      | Ok n => str_eqb n (rg_name r) && names_ok pk te nd regs' pts'
      | _ => false
      end
  | [], [] => true
  | _, _ => false
  end.

Inductive c12case :=
| FlagCase (pk ne te : N) (fs : fields) (tmpl : list val) (nd : dict)
           (impl_adv : outcome (list (str * val)))
           (occs : list (str * str))
           (impl : outcome (list val)) (impl_stacked : outcome (list val))
| FlagSkip.   (* the returned value holds a float too large for the harness' value printer *)

(* verdicts: 0 pass (incl. cases with colliding flag names, which are outside
   the property and the model), 3 property fails, 12 = known class 2 (a field
   name is split by DecodeGoCamelCase into other words than it is made of),
   14 = known class 4 (two leaves flatten to the same Go field name:
   reflect.StructOf panics while the flags are registered) *)
Definition check (c : c12case) : N :=
  match c with
  | FlagSkip => 0
  | FlagCase pk ne te fs tmpl nd iadv occs impl istacked =>
      let p := pkg_of pk in
      match flag_regs p ne te fs tmpl with
      | mregs =>
          let madv := omap flag_advertised mregs in
          let model := flag_value p ne te fs tmpl occs in
          let same := adv_eqb iadv madv && cout_eqb impl model &&
                      match model with
                      | Ok vs => cout_eqb istacked (compose fs tmpl [VStruct vs])
                      | _ => true end in
          let nok := match mregs with
                     | Ok regs => names_ok p te nd regs (paths (alias_fields (flag_alias_keys p) (ptrify_fields fs)))
                     | _ => true end in
          match impl, model with
          | Panic _, _ => 3                             (* no panic is ever acceptable *)
          | _, _ => if same then (if nok then 0 else 12) else 3
          end
      end
  end.

Fixpoint run_from (i : N) (cs : list c12case) : list (N * N) :=
  match cs with
  | [] => []
  | c :: r => let v := check c in
              if v =? 0 then run_from (i + 1) r else (i, v) :: run_from (i + 1) r
  end.
Definition run_cases := run_from 0.
