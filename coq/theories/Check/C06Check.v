(* C06: callbacks serialized, in order, never stale, none after unregister. *)
From Coq Require Import List NArith Bool.
From Dials Require Import Base.Outcome Core.CbMgr Core.Monitor Core.System Core.Concrete Check.CoreCheck.
Import ListNotations.
Open Scope N_scope.

(* the token handle h registered with: the last OpToken on its slot before the registration started *)
Definition token_of (st : list istep) (h : N) : option (option (N * cfg3)) :=
  match find (fun x => match i_lab x with LApiStart _ (OpRegister h' _) => h' =? h | _ => false end) st with
  | Some x =>
      match i_lab x with
      | LApiStart _ (OpRegister _ None) => Some None
      | LApiStart _ (OpRegister _ (Some slot)) =>
          let before := filter (fun y => i_idx y <? i_idx x) st in
          let toks := flat_map (fun y =>
            match i_lab y with
            | LApiStart t (OpToken s) =>
                if s =? slot then
                  match find (fun e => match e with ORet t' (RetView _) => t' =? t | _ => false end) (o_evs (i_obs y)) with
                  | Some (ORet _ (RetView v)) => [v]
                  | _ => []
                  end
                else []
            | _ => []
            end) before in
          Some (last (map Some toks) None)
      | _ => None
      end
  | None => None
  end.

Definition tok_s (t : option (N * cfg3)) : N := match t with Some v => fst v | None => 0 end.

Definition handles (st : list istep) : list N :=
  flat_map (fun x => match i_lab x with LApiStart _ (OpRegister h _) => [h] | _ => [] end) st.

Definition user_calls (st : list istep) (h : N) : list (N * N * option (N * cfg3)) :=
  flat_map (fun ie => match snd ie with
                      | OCall (OIUser h' o n) => if h' =? h then [(fst ie, o, n)] else []
                      | _ => [] end) (events st).

Fixpoint strictly_above (lo : N) (l : list N) : bool :=
  match l with [] => true | x :: r => (lo <? x) && strictly_above x r end.

(* never a config older than or equal to the registered version or to one already received *)
Definition never_stale (st : list istep) : bool :=
  forallb (fun h =>
    match token_of st h with
    | Some tok =>
        let news := flat_map (fun c => match snd c with Some v => [fst v] | None => [] end) (user_calls st h) in
        strictly_above (tok_s tok) news
        && forallb (fun c => match snd c with Some _ => true | None => false end) (user_calls st h)
    | None => true
    end) (handles st).

(* ordinary calls: old is the immediate predecessor; otherwise it is the catch-up call with the token's config as old *)
Definition predecessor_ok (st : list istep) : bool :=
  forallb (fun h =>
    forallb (fun c =>
      match c with
      | (_, o, Some v) =>
          (o + 1 =? fst v) ||
          match token_of st h with Some (Some t) => (fst t =? o) && (o <? fst v) | _ => false end
      | _ => false
      end) (user_calls st h)) (handles st)
  && forallb (fun ie => match snd ie with OCall (OINew o n _) => o + 1 =? n | _ => true end) (events st).

(* at most one catch-up call per handle, and it is the first call *)
Definition catchup_first (st : list istep) : bool :=
  forallb (fun h =>
    match user_calls st h with
    | [] => true
    | _ :: rest => forallb (fun c => match c with (_, o, Some v) => o + 1 =? fst v | _ => false end) rest
    end) (handles st).

(* no invocation of h after its unregister returned true *)
Definition none_after_unregister (st : list istep) : bool :=
  forallb (fun to =>
    match snd to with
    | OpUnregister h =>
        match ret_of st (fst to) with
        | Some (j, RetBool true) => forallb (fun c => fst (fst c) <=? j) (user_calls st h)
        | _ => true
        end
    | _ => true
    end) (threads st).

(* OnNewConfig in installation order *)
Definition global_in_order (st : list istep) : bool :=
  strictly_above 0 (flat_map (fun ie => match snd ie with OCall (OINew _ n _) => [n] | _ => [] end) (events st)).

(* one callback at a time: a callback is entered only by a step of the
   callback goroutine, at most one per step, and the goroutine's next step
   after entering one is the return from it *)
Fixpoint serialized (incall : bool) (st : list istep) : bool :=
  match st with
  | [] => true
  | x :: r =>
      let calls := N.of_nat (length (filter (fun e => match e with OCall _ => true | _ => false end) (o_evs (i_obs x)))) in
      match i_lab x with
      | LCbTake | LCbAck => negb incall && (calls <=? 1) && serialized (0 <? calls) r
      | LCbReturn => incall && (calls <=? 1) && serialized (0 <? calls) r
      | _ => (calls =? 0) && serialized incall r
      end
  end.

Definition spec_ok (c : ccase) : bool :=
  match c with
  | CoreCrash _ _ => false
  | CoreCase su _ res init steps =>
      let st := index_from 1 steps in
      (negb (res =? 0)) ||
      (never_stale st && predecessor_ok st && catchup_first st && none_after_unregister st
       && global_in_order st && serialized false st)
  end.

Definition check (c : ccase) : N := verdict (spec_ok c) c.
Definition run_cases : list ccase -> list (N * N) := run_from check 0.
