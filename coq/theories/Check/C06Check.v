(* C06: callbacks serialized, in order, never stale, none after unregister. *)
From Coq Require Import List NArith Bool.
From Dials Require Import Base.Outcome Core.CbMgr Core.Monitor Core.System Core.Concrete Check.CoreCheck.
Import ListNotations.
Open Scope N_scope.

(* the token handle h registered with: the last OpToken on its slot before the registration started *)
Definition token_of (st : list istep) (h : N) : option (option (N * cfg3)) :=
  match find (fun x => match i_lab x with LApiStart _ (OpRegister h' _) => h' =? h | _ => false end) st with
  | Some x =>
      match i_lab x with
      | LApiStart _ (OpRegister _ None) => Some None
      | LApiStart _ (OpRegister _ (Some slot)) =>
          let before := filter (fun y => i_idx y <? i_idx x) st in
          let toks := flat_map (fun y =>
            match i_lab y with
            | LApiStart t (OpToken s) =>
                if s =? slot then
                  match find (fun e => match e with ORet t' (RetView _) => t' =? t | _ => false end) (o_evs (i_obs y)) with
                  | Some (ORet _ (RetView v)) => [v]
                  | _ => []
                  end
                else []
            | _ => []
            end) before in
          Some (last (map Some toks) None)
      | _ => None
      end
  | None => None
  end.

Definition tok_s (t : option (N * cfg3)) : N := match t with Some v => fst v | None => 0 end.

Definition handles (st : list istep) : list N :=
  flat_map (fun x => match i_lab x with LApiStart _ (OpRegister h _) => [h] | _ => [] end) st.

Definition user_calls (st : list istep) (h : N) : list (N * N * option (N * cfg3)) :=
  flat_map (fun ie => match snd ie with
                      | OCall (OIUser h' o n) => if h' =? h then [(fst ie, o, n)] else []
                      | _ => [] end) (events st).

Fixpoint strictly_above (lo : N) (l : list N) : bool :=
  match l with [] => true | x :: r => (lo <? x) && strictly_above x r end.

(* never a config older than or equal to the registered version or to one already received *)
Definition never_stale (st : list istep) : bool :=
  forallb (fun h =>
    match token_of st h with
    | Some tok =>
        let news := flat_map (fun c => match snd c with Some v => [fst v] | None => [] end) (user_calls st h) in
        strictly_above (tok_s tok) news
        && forallb (fun c => match snd c with Some _ => true | None => false end) (user_calls st h)
    | None => true
    end) (handles st).

(* ordinary calls: old is the immediate predecessor; otherwise it is the catch-up call with the token's config as old *)
Definition predecessor_ok (st : list istep) : bool :=
  forallb (fun h =>
    forallb (fun c =>
      match c with
      | (_, o, Some v) =>
          (o + 1 =? fst v) ||
          match token_of st h with Some (Some t) => (fst t =? o) && (o <? fst v) | _ => false end
      | _ => false
      end) (user_calls st h)) (handles st)
  && forallb (fun ie => match snd ie with OCall (OINew o n _) => o + 1 =? n | _ => true end) (events st).

(* at most one catch-up call per handle, and it is the first call *)
Definition catchup_first (st : list istep) : bool :=
  forallb (fun h =>
    match user_calls st h with
    | [] => true
    | _ :: rest => forallb (fun c => match c with (_, o, Some v) => o + 1 =? fst v | _ => false end) rest
    end) (handles st).

(* no invocation of h after its unregister returned true *)
Definition none_after_unregister (st : list istep) : bool :=
  forallb (fun to =>
    match snd to with
    | OpUnregister h =>
        match ret_of st (fst to) with
        | Some (j, RetBool true) => forallb (fun c => fst (fst c) <=? j) (user_calls st h)
        | _ => true
        end
    | _ => true
    end) (threads st).

(* OnNewConfig in installation order *)
Definition global_in_order (st : list istep) : bool :=
  strictly_above 0 (flat_map (fun ie => match snd ie with OCall (OINew _ n _) => [n] | _ => [] end) (events st)).

(* one callback at a time: a callback is entered only by a step of the
   callback goroutine, at most one per step, and the goroutine's next step
   after entering one is the return from it *)
Fixpoint serialized (incall : bool) (st : list istep) : bool :=
  match st with
  | [] => true
  | x :: r =>
      let calls := N.of_nat (length (filter (fun e => match e with OCall _ => true | _ => false end) (o_evs (i_obs x)))) in
      match i_lab x with
      | LCbTake | LCbAck => negb incall && (calls <=? 1) && serialized (0 <? calls) r
      | LCbReturn => incall && (calls <=? 1) && serialized (0 <? calls) r
      | _ => (calls =? 0) && serialized incall r
      end
  end.

(* ---- catch-up exactly when due, and no skipped version, on the implementation's trace ---- *)

(* the steps at which something was put into cbch, in order: the API call that did it, or - for a
   new-config event of the monitor - the serial it announces (the store directly precedes the submit,
   so it is the published serial at that step); and the steps at which the callback goroutine took
   something out *)
Fixpoint enq_steps (prev : obs) (st : list istep) : list (N * option N * option N) :=
  match st with
  | [] => []
  | x :: r =>
      (match i_lab x with
       | LApiAct t 2 => [(i_idx x, Some t, None)]
       | LMonAct false =>
           if o_mon prev =? 5 then [(i_idx x, None, Some (fst (o_val (i_obs x))))]
           else if (o_mon prev =? 1) || (o_mon prev =? 6) then [(i_idx x, None, None)] else []
       | _ => []
       end) ++ enq_steps (i_obs x) r
  end.
Fixpoint take_steps (prev : obs) (st : list istep) : list N :=
  match st with
  | [] => []
  | x :: r =>
      (match i_lab x with LCbTake => if 0 <? o_cbq prev then [i_idx x] else [] | _ => [] end)
        ++ take_steps (i_obs x) r
  end.

Fixpoint index_of {A} (f : A -> bool) (l : list A) (i : nat) : option nat :=
  match l with [] => None | a :: r => if f a then Some i else index_of f r (S i) end.

(* position of h's registration in the queue history (cbch is FIFO) *)
Definition reg_position (init : obs) (st : list istep) (h : N) : option nat :=
  match find (fun to => match snd to with OpRegister h' _ => h' =? h | _ => false end) (threads st) with
  | Some (tid, _) =>
      index_of (fun e => match snd (fst e) with Some t => t =? tid | None => false end) (enq_steps init st) 0
  | None => None
  end.

(* the step at which the registration of h was taken by the callback goroutine *)
Definition reg_taken_at (init : obs) (st : list istep) (h : N) : option N :=
  match reg_position init st h with
  | Some k => nth_error (take_steps init st) k
  | None => None
  end.

(* the last serial announced to the callback goroutine before it takes the k-th queue entry *)
Definition last_announced_before (init : obs) (st : list istep) (k : nat) : N :=
  fold_left (fun acc e => match snd e with Some n => n | None => acc end) (firstn k (enq_steps init st)) 0.

(* an immediate call exactly when the token is valid and below the last announced serial -
   whether or not OnNewConfig is installed or suppressed *)
Definition catchup_when_due (su : setup) (init : obs) (st : list istep) : bool :=
  forallb (fun h =>
    match token_of st h, reg_position init st h, reg_taken_at init st h with
    | Some tok, Some k, Some j =>
        let L := last_announced_before init st k in
        let at_j := filter (fun c => fst (fst c) =? j) (user_calls st h) in
        match tok with
        | Some t =>
            if fst t <? L
            then match at_j with
                 | [(_, o, Some v)] => (o =? fst t) && (fst v =? L)
                 | _ => false
                 end
            else match at_j with [] => true | _ => false end
        | None => match at_j with [] => true | _ => false end
        end
    | _, _, _ => true
    end) (handles st).

(* the same from the outside only: a version is settled once the monitor is back at its select after
   storing it without an overflow drop in between; a registration queued after that with a valid
   older token must get an immediate call carrying at least that version *)
Fixpoint settled_from (prev : obs) (pending : option N) (st : list istep) : list (N * N) :=
  match st with
  | [] => []
  | x :: r =>
      let pend :=
        match i_lab x with
        | LMonAct d =>
            if o_mon prev =? 3 then Some (fst (o_val (i_obs x)))
            else if d && (o_mon prev =? 5) then None else pending
        | _ => pending
        end in
      if o_mon (i_obs x) =? 0
      then match pend with
           | Some n => (i_idx x, n) :: settled_from (i_obs x) None r
           | None => settled_from (i_obs x) None r
           end
      else settled_from (i_obs x) pend r
  end.

Definition catchup_floor (init : obs) (st : list istep) : bool :=
  forallb (fun h =>
    match token_of st h, reg_position init st h, reg_taken_at init st h with
    | Some (Some t), Some k, Some j =>
        match nth_error (enq_steps init st) k with
        | Some e =>
            let i := fst (fst e) in
            let L := fold_left (fun acc q => if fst q <? i then snd q else acc) (settled_from init None st) 0 in
            negb (fst t <? L) ||
            match filter (fun c => fst (fst c) =? j) (user_calls st h) with
            | [(_, o, Some v)] => (o =? fst t) && (L <=? fst v)
            | _ => false
            end
        | None => true
        end
    | _, _, _ => true
    end) (handles st).

Definition unreg_started (st : list istep) (h : N) : N :=
  match find (fun x => match i_lab x with LApiStart _ (OpUnregister h') => h' =? h | _ => false end) st with
  | Some x => i_idx x
  | None => 2 + N.of_nat (length st)
  end.

(* every version put into the queue after h's registration, above its token and before any
   unregister of h was started, is handed to h once the queue has been worked off *)
Definition no_version_skipped (su : setup) (init : obs) (st : list istep) : bool :=
  let lo := last (map i_obs st) init in
  negb ((o_cbq lo =? 0) && ((o_cb lo =? 3) || (o_cb lo =? 0))) ||
  forallb (fun h =>
    match token_of st h, reg_position init st h, reg_taken_at init st h with
    | Some tok, Some k, Some _ =>
        let u := unreg_started st h in
        forallb (fun e =>
          match snd e with
          | Some n =>
              negb ((fst (fst e) <? u) && (tok_s tok <? n)) ||
              existsb (fun c => match snd c with Some v => fst v =? n | None => false end) (user_calls st h)
          | None => true
          end) (skipn (S k) (enq_steps init st))
    | _, _, _ => true
    end) (handles st).

Definition spec_ok (c : ccase) : bool :=
  match c with
  | CoreCrash _ _ => false
  | CoreCase su _ res init steps =>
      let st := index_from 1 steps in
      (negb (res =? 0)) ||
      (never_stale st && predecessor_ok st && catchup_first st && none_after_unregister st
       && global_in_order st && serialized false st
       && catchup_when_due su init st && catchup_floor init st && no_version_skipped su init st)
  end.

Definition check (c : ccase) : N := verdict (spec_ok c) c.
Definition run_cases : list ccase -> list (N * N) := run_from check 0.
