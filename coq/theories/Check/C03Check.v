(* Correspondence check for C03: evaluated by coqc on harness-written cases.

   A case carries ONE heap H in which the input graph and the output graph of
   the implementation are numbered jointly: addresses below n_in are exactly
   the objects reachable from the input root (numbered in DFS order by the
   harness before the copier is called), addresses from n_in on are objects
   found only below the implementation's output.  An output reference to an
   input object therefore shows up as an address < n_in. *)
From Coq Require Import List NArith ZArith Bool.
From Dials Require Export Base.Outcome Base.Runes Reflect.Ty Reflect.Heap Copy.DeepCopy Copy.DeepCopySpec Copy.Canon Copy.PtrifyWalk.
Import ListNotations.
Open Scope N_scope.

Inductive c03case :=
| Graph (mode : N)              (* 0: the copier alone (VerifDeepCopy); 1: Config(ctx, &defaults) + View() *)
        (H : heap) (n_in : N) (root : hv)
        (impl : option hv)      (* None: the child process died (stack overflow) or hung; Some r: root of the output in H *)
        (tg : tgraph) (troot : N)   (* struct/pointer-to-struct edges of the config type (mode 1) *)
| Explore.   (* exploration outside the model (interior pointers): implementation-only direct oracles on the Go side *)

Definition input_heap (H : heap) (n_in : N) : heap := filter (fun ao => fst ao <? n_in) H.

(* the model of what the entry point does with the graph:
   mode 0: one deep copy;  mode 1: Config copies the defaults on entry and
   compose copies that copy again (no sources: nothing is overlaid) *)
Definition model (mode : N) (fuel : nat) (h : heap) (n : N) (root : hv) : res (heap * hv) :=
  p <~ deep_copy true fuel h n root ;;
  if mode =? 0 then Done (c_heap (fst p), snd p)
  else q <~ deep_copy true fuel (c_heap (fst p)) (c_next (fst p)) (snd p) ;;
       Done (c_heap (fst q), snd q).

Definition is_done {A} (r : res A) : bool := match r with Done _ => true | _ => false end.

(* verdicts: 0 pass; 1 implementation <> model although the property holds on
   the case; 3 property fails; 11 property fails in known-finding class 1 *)
Definition check (c : c03case) : N :=
  match c with
  | Explore => 0
  | Graph mode H n_in root impl tg troot =>
      let hin := input_heap H n_in in
      let fuel := walk_fuel H root in
      let m := model mode fuel hin n_in root in
      (* the shipped input must satisfy the decidable hypotheses of the theorems
         (finite, closed, ranked - no cycle of slices only -, depth-bounded, kind-correct:
         c03_guard_total with a ranking computed by Canon.compute_rk); otherwise the harness is broken *)
      let rk := compute_rk hin in
      if negb (c03_guard_total hin n_in (rank_bound rk) (Nat.max (heap_depth hin) (depth root)) rk root) then 1 else
      match impl with
      | None =>
          (* did not terminate *)
          if (mode =? 1) && type_reaches_itself tg troot then 11 else 3
      | Some r =>
          let faithful := canon_eqb (canon_of true fuel H root) (canon_of true fuel H r) in
          let fresh := match reach_addrs fuel H r with Done l => all_ge n_in l | _ => false end in
          let input_closed := match reach_addrs fuel H root with Done l => all_lt n_in l | _ => false end in
          (* Config path: the model of Pointerify's walk over the template terminates
             within the theorem's bound, and the input is inside its guard *)
          let walk_ok :=
            if mode =? 0 then true
            else
              let prk := compute_prk hin in
              let P := rank_bound prk in
              let Dw := Nat.max (heap_depth hin) (depth root) in
              wf_prankb hin P Dw prk && pwalk_root_ok n_in P Dw prk root &&
              match pwalk false (pwalk_fuel n_in P Dw) hin [] root with Done _ => true | _ => false end in
          if negb walk_ok then 1 else
          if faithful && fresh && input_closed then
            match m with
            | Done (hm, rm) =>
                if canon_eqb (canon_of false fuel hm rm) (canon_of false fuel H r) then 0 else 1
            | _ => 1
            end
          else 3
      end
  end.

Fixpoint run_from (i : N) (cs : list c03case) : list (N * N) :=
  match cs with
  | [] => []
  | c :: r => let v := check c in
              if v =? 0 then run_from (i + 1) r else (i, v) :: run_from (i + 1) r
  end.
Definition run_cases := run_from 0.
