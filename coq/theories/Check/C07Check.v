(* C07: a blocking report returns only after its value is stacked (or rejected). *)
From Coq Require Import List NArith Bool.
From Dials Require Import Base.Outcome Core.CbMgr Core.Monitor Core.System Core.Concrete Check.CoreCheck.
Import ListNotations.
Open Scope N_scope.

Definition cancelled_before (st : list istep) (tid j : N) : bool :=
  existsb (fun x => match i_lab x with LCancelCall t => (t =? tid) && (i_idx x <=? j) | _ => false end) st.

(* nil: the value was installed no later than the return (the serial moved past
   the one current at the receive, so View is that config or a later one);
   error: rejected_unchanged; context error only when the context really ended *)
Definition blocking_ok (init : obs) (st : list istep) : bool :=
  forallb (fun to =>
    match snd to with
    | OpOffer (MsgUpdate _ _ true) =>
        match ret_of st (fst to), recv_idx st (fst to) with
        | Some (j, RetNil), Some i => serial_at init st (i - 1) <? serial_at init st j
        | Some (j, RetNil), None => false
        | Some (j, RetCtxErr), _ => cancelled_before st (fst to) j
        | Some (j, RetStackErr), Some _ | Some (j, RetVerifyErr), Some _ => true
        | Some _, _ => false
        | None, _ => true
        end
    | _ => true
    end) (threads st).

(* the first store after the receive of a nil-answered report installs a stack that contains its value *)
Definition stacked_value_ok (su : setup) (init : obs) (st : list istep) : bool :=
  forallb (fun to =>
    match snd to with
    | OpOffer (MsgUpdate _ v true) =>
        match ret_of st (fst to), recv_idx st (fst to) with
        | Some (_, RetNil), Some i =>
            match find (fun iv => i <=? fst iv) (stores init st) with
            | Some iv =>
                let c := snd (snd iv) in
                (* the source is not the last layer in general; compare only when it is the only source *)
                (if Nat.eqb (length (su_srcs su)) 1
                 then cfg3_eqb c (overlay3 (su_def su) v) else true)
            | None => false
            end
        | _, _ => true
        end
    | _ => true
    end) (threads st).

Definition spec_ok (c : ccase) : bool :=
  match c with
  | CoreCrash _ _ => false
  | CoreCase su _ res init steps =>
      let st := index_from 1 steps in
      (negb (res =? 0)) ||
      (blocking_ok init st && rejected_unchanged init st && stacked_value_ok su init st && blocking_answered st)
  end.

Definition check (c : ccase) : N := verdict (spec_ok c) c.
Definition run_cases : list ccase -> list (N * N) := run_from check 0.
