(* Correspondence check for C13 (file decoders). *)
From Coq Require Import String.
From Coq Require Import List NArith ZArith Bool.
From Dials Require Export Base.Outcome Base.Runes Reflect.Ty Reflect.Ptrify Stack.Overlay
  Text.ParseText Sources.Flatten Sources.TimeText Sources.Decoders Sources.DecodersSpec Sources.AnonFlat.
From Dials Require Import Check.C11Check Check.C12Check.
Import ListNotations.
Open Scope list_scope.
Open Scope N_scope.

Definition fmt_of (n : N) : format :=
  match n with 0 => FJson | 1 => FYaml | 2 => FToml | _ => FCue end.

(* w: the decoders are wrapped with the set-slice mangler *)
Inductive c13case :=
| Agree (w : bool) (fs : fields) (d : doc) (ij iy it ic : outcome (list val))
| Corrupt (f : N) (w : bool) (fs : fields) (d : doc) (impl : outcome (list val))
| Flat (w : bool) (fs : fields) (d : doc) (impl : outcome (list val))   (* decoders/yaml with FlattenAnonymous *)
| Skipped (f : N).   (* corrupted text the library rejects (direct oracle only) or outside the document language *)

(* known-finding class 1: the document holds the int64 minimum and the Cue
   decoder rejects it ("value was rounded up") where the other three accept *)
Fixpoint has_min64 (d : doc) : bool :=
  match d with
  | DInt z => (z =? -9223372036854775808)%Z
  | DList l => existsb has_min64 l
  | DMap kvs => existsb (fun kv => has_min64 (snd kv)) kvs
  | _ => false
  end.

(* known-finding class 4: the document holds an integer beyond the int64
   maximum; go-toml parses it as uint64 and converts it into a signed field
   without an overflow check (it wraps around) where the other three fail *)
Fixpoint has_big64 (d : doc) : bool :=
  match d with
  | DInt z => (9223372036854775807 <? z)%Z
  | DList l => existsb has_big64 l
  | DMap kvs => existsb (fun kv => has_big64 (snd kv)) kvs
  | _ => false
  end.

Definition one (w : bool) (f : format) (pfs : fields) (d : doc) (impl : outcome (list val)) : N :=
  let model := if w then decode_wrapped f d pfs else decode f d pfs in
  let spec := if w then spec_wrapped f d pfs else spec_decode f d pfs in
  if cout_eqb impl spec then (if cout_eqb impl model then 0 else 1)
  else match f, impl, spec with
       | FCue, Err _, Ok _ => if has_min64 d then 11 else 3
       | FToml, Ok _, Err _ => if has_big64 d then 14 else 3
       | _, _, _ => 3
       end.

(* does the type have a TextUnmarshaler leaf?  go-toml (like yaml.v2) hands the
   text of ANY scalar to UnmarshalText (not for time.Time, which it reads itself) *)
Fixpoint has_textu_ty (t : ty) {struct t} : bool :=
  match t with
  | TTextU _ _ => negb (is_time t)
  | TPtr t' => has_textu_ty t'
  | TSlice e n => netip e n || has_textu_ty e
  | TArray _ e => has_textu_ty e
  | TMap _ v _ => has_textu_ty v
  | TStruct fs _ => has_textu fs
  | _ => false
  end
with has_textu (fs : fields) {struct fs} : bool :=
  match fs with
  | FNil => false
  | FCons _ _ _ t r => has_textu_ty t || has_textu r
  end.

Definition one_flat (w : bool) (pfs : fields) (d : doc) (impl : outcome (list val)) : N :=
  let model := if w then decode_yaml_flat_wrapped d pfs else decode_yaml_flat d pfs in
  let spec := if w then spec_yaml_flat_wrapped d pfs else spec_yaml_flat d pfs in
  (* the mangler cannot build a struct with two fields of one name: an error by construction,
     which the specification shares (documented limit, not a reading of the data) *)
  let spec := match model with Err 4 => Err 4 | _ => spec end in
  match impl with
  | Panic _ => 3
  | _ => if cout_eqb impl spec then (if cout_eqb impl model then 0 else 1) else 3
  end.

Definition worst (a b : N) : N := if a =? 3 then 3 else if b =? 3 then 3 else N.max a b.

Definition check (c : c13case) : N :=
  match c with
  | Agree w fs d ij iy it ic =>
      let pfs := ptrify_fields fs in
      worst (worst (one w FJson pfs d ij) (one w FYaml pfs d iy)) (worst (one w FToml pfs d it) (one w FCue pfs d ic))
  | Corrupt f w fs d impl =>
      let pfs := ptrify_fields fs in
      let fm := fmt_of f in
      match (if w then spec_wrapped fm d pfs else spec_decode fm d pfs), impl with
      | Ok _, _ => one w fm pfs d impl
      | _, Ok _ =>                     (* library leniency on ill-typed corrupted documents: *)
          match fm with
          | FYaml => 0                 (* yaml.v2 reads any scalar into a string / TextUnmarshaler field *)
          | FToml => if has_textu pfs then 0          (* go-toml: any scalar into a TextUnmarshaler field *)
                     else if has_big64 d then 14 else 3
          | _ => 3
          end
      | _, Err _ => 0
      | _, Panic _ => 3
      end
  | Flat w fs d impl => one_flat w (ptrify_fields fs) d impl
  | Skipped _ => 0
  end.

Fixpoint run_from (i : N) (cs : list c13case) : list (N * N) :=
  match cs with
  | [] => []
  | c :: r => let v := check c in
              if v =? 0 then run_from (i + 1) r else (i, v) :: run_from (i + 1) r
  end.
Definition run_cases := run_from 0.
