(* Correspondence check for C13 (file decoders). *)
From Coq Require Import String.
From Coq Require Import List NArith ZArith Bool.
From Dials Require Export Base.Outcome Base.Runes Reflect.Ty Reflect.Ptrify Stack.Overlay
  Text.ParseText Sources.Flatten Sources.Decoders Sources.DecodersSpec.
From Dials Require Import Check.C12Check.
Import ListNotations.
Open Scope list_scope.
Open Scope N_scope.

Definition fmt_of (n : N) : format :=
  match n with 0 => FJson | 1 => FYaml | 2 => FToml | _ => FCue end.

Inductive c13case :=
| Agree (fs : fields) (d : doc) (ij iy it ic : outcome (list val))
| Corrupt (f : N) (fs : fields) (d : doc) (impl : outcome (list val))
| Skipped (f : N).   (* corrupted text the library rejects (direct oracle only) or outside the document language *)

(* known-finding class 1: the document holds the int64 minimum and the Cue
   decoder rejects it ("value was rounded up") where the other three accept *)
Fixpoint has_min64 (d : doc) : bool :=
  match d with
  | DInt z => (z =? -9223372036854775808)%Z
  | DList l => existsb has_min64 l
  | DMap kvs => existsb (fun kv => has_min64 (snd kv)) kvs
  | _ => false
  end.

Definition one (f : format) (pfs : fields) (d : doc) (impl : outcome (list val)) : N :=
  let model := decode f d pfs in
  let spec := spec_decode f d pfs in
  if cout_eqb impl spec then (if cout_eqb impl model then 0 else 1)
  else match f, impl, spec with
       | FCue, Err _, Ok _ => if has_min64 d then 11 else 3
       | _, _, _ => 3
       end.

Definition worst (a b : N) : N := if a =? 3 then 3 else if b =? 3 then 3 else N.max a b.

Definition check (c : c13case) : N :=
  match c with
  | Agree fs d ij iy it ic =>
      let pfs := ptrify_fields fs in
      worst (worst (one FJson pfs d ij) (one FYaml pfs d iy)) (worst (one FToml pfs d it) (one FCue pfs d ic))
  | Corrupt f fs d impl =>
      let pfs := ptrify_fields fs in
      let fm := fmt_of f in
      match spec_decode fm d pfs, impl with
      | Ok _, _ => one fm pfs d impl
      | _, Ok _ => match fm with FYaml => 0 | _ => 3 end   (* yaml.v2 reads any scalar into a string field *)
      | _, Err _ => 0
      | _, Panic _ => 3
      end
  | Skipped _ => 0
  end.

Fixpoint run_from (i : N) (cs : list c13case) : list (N * N) :=
  match cs with
  | [] => []
  | c :: r => let v := check c in
              if v =? 0 then run_from (i + 1) r else (i, v) :: run_from (i + 1) r
  end.
Definition run_cases := run_from 0.
