(* C05: incremental re-stacking equals a fresh stack; serials count installs. *)
From Coq Require Import List NArith Bool.
From Dials Require Import Base.Outcome Core.CbMgr Core.Monitor Core.System Core.Concrete Check.CoreCheck.
Import ListNotations.
Open Scope N_scope.

(* each step moves the serial by 0 or 1, and the config only together with it *)
Fixpoint serial_steps (prev : N * cfg3) (vs : list (N * (N * cfg3))) : bool :=
  match vs with
  | [] => true
  | iv :: r =>
      let v := snd iv in
      (if fst v =? fst prev then cfg3_eqb (snd v) (snd prev) else fst v =? fst prev + 1)
      && serial_steps v r
  end.

(* messages the monitor has received up to and including step i, in order *)
Definition received (st : list istep) (i : N) : list (mon_in sv3) :=
  flat_map (fun x =>
    if i <? i_idx x then [] else
    match i_lab x with
    | LMonRecv (ROffer t) =>
        match op_of st t with
        | Some (OpOffer (MsgUpdate src v _)) => [InUpdate src v None]
        | _ => []
        end
    | LMonRecv RCtl => [InEnable 0]
    | _ => []
    end) st.

(* whenever the monitor is back at its select the view is the fresh stack of
   the latest values (or the last accepted view) *)
Definition view_fresh (su : setup) (init : obs) (st : list istep) : bool :=
  forallb (fun x =>
    negb (o_mon (i_obs x) =? 0) ||
    cfg3_eqb (snd (o_val (i_obs x)))
             (spec_view (stack3 (su_def su)) (verifyS su) (map snd (su_srcs su)) (snd (o_val init))
                        (p_delay (su_p su)) (received st (i_idx x)))) st.

Fixpoint increasing (lo : option N) (l : list N) : bool :=
  match l with
  | [] => true
  | x :: r => (match lo with Some y => y <? x | None => true end) && increasing (Some x) r
  end.

(* a reader never sees ViewVersion or the Events stream go backwards *)
Definition reads_monotone (init : obs) (st : list istep) : bool :=
  let ev := flat_map (fun ie => match snd ie with ORet _ (RetEvents (Some v)) => [fst v] | _ => [] end) (events st) in
  increasing None ev &&
  (fix mono (p : N) (vs : list (N * (N * cfg3))) : bool :=
     match vs with [] => true | iv :: r => (p <=? fst (snd iv)) && mono (fst (snd iv)) r end)
    0 (views init st).

(* config and serial read together belong together *)
Definition pairs_belong (init : obs) (st : list istep) : bool :=
  forallb (fun ie =>
    match snd ie with
    | ORet _ (RetView v) => installed init st v
    | ORet _ (RetEvents (Some v)) => installed init st v
    | _ => true
    end) (events st).

Definition spec_ok (c : ccase) : bool :=
  match c with
  | CoreCrash _ _ => false
  | CoreCase su _ res init steps =>
      let st := index_from 1 steps in
      (negb (res =? 0)) ||
      ((fst (o_val init) =? 0) && serial_steps (o_val init) (map (fun x => (i_idx x, o_val (i_obs x))) st)
       && view_fresh su init st && reads_monotone init st && pairs_belong init st)
  end.

Definition check (c : ccase) : N := verdict (spec_ok c) c.
Definition run_cases : list ccase -> list (N * N) := run_from check 0.
