(* Correspondence check shared by C04..C09: the harness drives a real
   dials.Dials through a schedule (one label per atomic action) and records the
   projected observation after every step; here the same schedule is replayed in
   the model (Core/System.v instantiated by Core/Concrete.v) and compared step
   by step.  The per-property modules (C04Check.v ...) add the specification
   predicates evaluated on the implementation's observations alone. *)
From Coq Require Import List NArith Bool.
From Dials Require Import Base.Outcome Core.CbMgr Core.Monitor Core.System Core.Concrete.
Import ListNotations.
Open Scope N_scope.

Record setup := mkSetup {
  su_p : params;
  su_def : cfg3;                      (* the defaults passed to Config *)
  su_srcs : list (bool * sv3);        (* per source: implements Watcher?, its initial Value() *)
  su_nv : bool;                       (* the config type has no Verify method *)
  su_on_new : bool;                   (* Params.OnNewConfig is set *)
  su_on_err : bool                    (* Params.OnWatchedError is set *)
}.

(* Verify of the harness config (A <= B); a type without the method always passes
   and no call is ever observed *)
Definition verifyS (su : setup) (c : cfg3) : bool := su_nv su || verify3 c.

(* ---- projected observables ---- *)

Inductive oinv :=
| OINew (olds news : N) (newc : cfg3)                    (* OnNewConfig(old, new) *)
| OIErr (kind : N) (olds : N) (rej : option cfg3)        (* OnWatchedError; kind 0 stack, 1 verify, 2 source *)
| OIUser (h : N) (olds : N) (new : option (N * cfg3)).   (* registered callback h *)

Inductive oevent :=
| OVerify (c : cfg3) (ok : bool)      (* Verify was called on c *)
| OCall (i : oinv)                    (* a callback was entered *)
| ORet (tid : N) (r : ret cfg3)       (* API call tid returned *)
| OStuck (who : N)                    (* goroutine observed blocked inside the library: 0 monitor, 1 callbacks, 2+tid *)
| OPanic (who : N).                   (* recovered panic *)

Record obs := mkObs {
  o_val : N * cfg3;      (* ViewVersion after the step: serial and contents *)
  o_cbq : N;             (* len(cbch) *)
  o_ctl : N;             (* len(monCtl) *)
  o_mon : N;             (* hook point the monitor is parked at *)
  o_cb : N;              (* where the callback goroutine is *)
  o_evs : list oevent    (* what happened during the step, in order *)
}.

Definition clabel := label sv3.

Inductive ccase :=
| CoreCase (su : setup) (cfg_verifies : list (cfg3 * bool)) (cfg_res : N)
           (init : obs) (steps : list (clabel * obs))
  (* cfg_res: 0 Config succeeded, 1 stacking error, 2 verification error *)
| CoreCrash (su : setup) (steps : list (clabel * obs)).   (* the process died during the last step *)

(* ---- decidable equality on observations ---- *)

Definition opt_eqb {A} (f : A -> A -> bool) (x y : option A) : bool :=
  match x, y with Some a, Some b => f a b | None, None => true | _, _ => false end.
Definition vc_eqb (x y : N * cfg3) : bool := (fst x =? fst y) && cfg3_eqb (snd x) (snd y).

Fixpoint list_eqb {A} (f : A -> A -> bool) (x y : list A) : bool :=
  match x, y with
  | [], [] => true
  | a :: r, b :: s => f a b && list_eqb f r s
  | _, _ => false
  end.

Definition er_eqb (x y : enable_reply cfg3) : bool :=
  match x, y with EOk a, EOk b => vc_eqb a b | EErr, EErr => true | _, _ => false end.

Definition ret_eqb (x y : ret cfg3) : bool :=
  match x, y with
  | RetView a, RetView b => vc_eqb a b
  | RetEvents a, RetEvents b => opt_eqb vc_eqb a b
  | RetUnit, RetUnit | RetNil, RetNil | RetStackErr, RetStackErr | RetVerifyErr, RetVerifyErr
  | RetCtxErr, RetCtxErr | RetRegOk, RetRegOk | RetRegNil, RetRegNil => true
  | RetBool a, RetBool b => Bool.eqb a b
  | RetEnable a, RetEnable b => er_eqb a b
  | _, _ => false
  end.

Definition oinv_eqb (x y : oinv) : bool :=
  match x, y with
  | OINew a b c, OINew a' b' c' => (a =? a') && (b =? b') && cfg3_eqb c c'
  | OIErr k a r, OIErr k' a' r' => (k =? k') && (a =? a') && opt_eqb cfg3_eqb r r'
  | OIUser h a n, OIUser h' a' n' => (h =? h') && (a =? a') && opt_eqb vc_eqb n n'
  | _, _ => false
  end.

Definition oevent_eqb (x y : oevent) : bool :=
  match x, y with
  | OVerify c b, OVerify c' b' => cfg3_eqb c c' && Bool.eqb b b'
  | OCall i, OCall j => oinv_eqb i j
  | ORet t r, ORet t' r' => (t =? t') && ret_eqb r r'
  | OStuck a, OStuck b => a =? b
  | OPanic a, OPanic b => a =? b
  | _, _ => false
  end.

Definition obs_eqb (x y : obs) : bool :=
  vc_eqb (o_val x) (o_val y) && (o_cbq x =? o_cbq y) && (o_ctl x =? o_ctl y)
  && (o_mon x =? o_mon y) && (o_cb x =? o_cb y) && list_eqb oevent_eqb (o_evs x) (o_evs y).

(* ---- the model side ---- *)

Definition csys := sys cfg3 sv3.

Definition cstep (su : setup) : csys -> clabel -> option csys :=
  step (stack3 (su_def su)) (verifyS su) (su_p su) (su_on_new su) (su_on_err su) cbcap3.

Definition cinit (su : setup) : list (cfg3 * bool) * outcome csys :=
  sys_init (stack3 (su_def su)) (verifyS su) (su_p su) (map snd (su_srcs su)) (map fst (su_srcs su)).

Definition kind_code (e : errkind) : N := match e with EStack => 0 | EVerify => 1 | ESource => 2 end.

Definition proj_inv (i : invocation cfg3) : oinv :=
  match i with
  | InvNewGlobal old new => OINew (fst old) (fst new) (snd new)
  | InvErrGlobal e old rej => OIErr (kind_code e) (fst old) rej
  | InvUser h old new _ => OIUser h (fst old) new
  end.

Definition proj_event (g : gevent cfg3 sv3) : list oevent :=
  match g with
  | GVerify c b => [OVerify c b]
  | GCall i => [OCall (proj_inv i)]
  | GRet tid r => [ORet tid r]
  | _ => []
  end.

(* hook point names as numbers (harness: same table) *)
Definition mon_at (m : mon_ctrl cfg3 sv3) : N :=
  match m with
  | MNone => 99
  | MExited => 9
  | MRun _ [] => 0                                   (* mon.loop *)
  | MRun _ (a :: _) =>
      match a with
      | ATrySubmit (EvErr ESource _ _) => 6          (* mon.submit-srcerr *)
      | ATrySubmit (EvNew _ _ _ _) => 5              (* mon.submit-new *)
      | ATrySubmit _ => 1                            (* mon.submit-err *)
      | AReply _ _ => 2                              (* mon.reply *)
      | AStore _ => 3                                (* mon.store *)
      | ATryUpdates _ => 4                           (* mon.updates *)
      | AEnableReply _ _ => 7                        (* mon.enable-reply *)
      | AExit => 8                                   (* mon.exit *)
      | AVerify _ _ => 10
      end
  end.

Definition cb_at (c : cb_ctrl cfg3) : N :=
  match c with
  | CNone => 99
  | CExited => 3
  | CRun _ [] => 0               (* cb.take *)
  | CRun _ (OInv _ :: _) => 1    (* inside a user callback *)
  | CRun _ (OAck _ :: _) => 2    (* cb.ack *)
  end.

Definition hide_verify (nv : bool) (e : oevent) : bool :=
  match e with OVerify _ _ => negb nv | _ => true end.

Definition obs_of (nv : bool) (s : csys) (newlog : list (gevent cfg3 sv3)) : obs :=
  mkObs (s_value s) (N.of_nat (length (s_cbq s))) (N.of_nat (length (s_ctl s)))
        (mon_at (s_mon s)) (cb_at (s_cb s)) (filter (hide_verify nv) (flat_map proj_event newlog)).

Definition step_obs (nv : bool) (s s' : csys) : obs := obs_of nv s' (skipn (length (s_log s)) (s_log s')).

(* first disagreement: (step index, implementation, model (None: label not enabled in the model)) *)
Fixpoint replay (su : setup) (s : csys) (steps : list (clabel * obs)) (i : N)
  : option (N * obs * option obs) :=
  match steps with
  | [] => None
  | (l, o) :: r =>
      match cstep su s l with
      | None => Some (i, o, None)
      | Some s' =>
          let m := step_obs (su_nv su) s s' in
          if obs_eqb o m then replay su s' r (i + 1) else Some (i, o, Some m)
      end
  end.

Definition res_code (o : outcome csys) : N :=
  match o with Ok _ => 0 | Err c => c | Panic _ => 7 end.

Definition verif_eqb (x y : cfg3 * bool) : bool := cfg3_eqb (fst x) (fst y) && Bool.eqb (snd x) (snd y).

(* 1000000: Config's result or verify calls differ; 1000001: initial observation differs *)
Definition diagnose (c : ccase) : option (N * obs * option obs) :=
  match c with
  | CoreCrash _ _ => None
  | CoreCase su vl res init steps =>
      let '(mvl, mo) := cinit su in
      let dummy := mkObs (0, mkCfg 0 0 0) 0 0 0 0 [] in
      if negb (list_eqb verif_eqb vl (if su_nv su then [] else mvl) && (res =? res_code mo)) then Some (1000000, dummy, None)
      else match mo with
           | Ok s0 =>
               let m0 := obs_of (su_nv su) s0 [] in
               if obs_eqb init m0 then replay su s0 steps 0 else Some (1000001, init, Some m0)
           | _ => None
           end
  end.

Definition model_agrees (c : ccase) : bool :=
  match diagnose c with None => true | Some _ => false end.

(* is a label list a schedule of the model (used by the harness's shrinker)? *)
Definition model_enabled (su : setup) (ls : list clabel) : bool :=
  match snd (cinit su) with
  | Ok s0 =>
      match run (stack3 (su_def su)) (verifyS su) (su_p su) (su_on_new su) (su_on_err su) cbcap3 s0 ls with
      | Some _ => true
      | None => false
      end
  | _ => false
  end.

(* ---- vocabulary for the specification predicates: the implementation's trace ---- *)

Definition istep : Type := N * clabel * obs.

Fixpoint index_from (i : N) (l : list (clabel * obs)) : list istep :=
  match l with
  | [] => []
  | (lb, o) :: r => (i, lb, o) :: index_from (i + 1) r
  end.

Definition case_steps (c : ccase) : list istep :=
  match c with CoreCase _ _ _ _ st => index_from 1 st | CoreCrash _ st => index_from 1 st end.
Definition case_setup (c : ccase) : setup :=
  match c with CoreCase su _ _ _ _ => su | CoreCrash su _ => su end.

Definition i_idx (x : istep) : N := fst (fst x).
Definition i_lab (x : istep) : clabel := snd (fst x).
Definition i_obs (x : istep) : obs := snd x.

(* all events with the index of their step *)
Definition events (st : list istep) : list (N * oevent) :=
  flat_map (fun x => map (fun e => (i_idx x, e)) (o_evs (i_obs x))) st.

(* the installed (serial, config) pairs a reader polling after every step saw; index 0 = after Config *)
Definition views (init : obs) (st : list istep) : list (N * (N * cfg3)) :=
  (0, o_val init) :: map (fun x => (i_idx x, o_val (i_obs x))) st.

Definition installed (init : obs) (st : list istep) (v : N * cfg3) : bool :=
  existsb (fun iv => vc_eqb (snd iv) v) (views init st).

Definition op_of (st : list istep) (tid : N) : option (api_op sv3) :=
  match find (fun x => match i_lab x with LApiStart t _ => t =? tid | _ => false end) st with
  | Some x => match i_lab x with LApiStart _ op => Some op | _ => None end
  | None => None
  end.

Definition start_idx (st : list istep) (tid : N) : option N :=
  match find (fun x => match i_lab x with LApiStart t _ => t =? tid | _ => false end) st with
  | Some x => Some (i_idx x)
  | None => None
  end.

Definition ret_of (st : list istep) (tid : N) : option (N * ret cfg3) :=
  match find (fun ie => match snd ie with ORet t _ => t =? tid | _ => false end) (events st) with
  | Some (i, ORet _ r) => Some (i, r)
  | _ => None
  end.

Definition recv_idx (st : list istep) (tid : N) : option N :=
  match find (fun x => match i_lab x with LMonRecv (ROffer t) => t =? tid | _ => false end) st with
  | Some x => Some (i_idx x)
  | None => None
  end.

Definition is_recv (x : istep) : bool := match i_lab x with LMonRecv _ => true | _ => false end.

(* index of the first receive of the monitor strictly after step i (or a bound beyond the trace) *)
Definition next_recv_after (st : list istep) (i : N) : N :=
  match find (fun x => is_recv x && (i <? i_idx x)) st with
  | Some x => i_idx x
  | None => 1 + N.of_nat (length st) + i
  end.

Definition serial_at (init : obs) (st : list istep) (i : N) : N :=
  match find (fun iv => fst iv =? i) (views init st) with
  | Some iv => fst (snd iv)
  | None => 0
  end.

(* serial unchanged on all steps j with lo <= j < hi, relative to the step before lo *)
Definition unchanged_between (init : obs) (st : list istep) (lo hi : N) : bool :=
  let s0 := serial_at init st (lo - 1) in
  forallb (fun iv => negb ((lo <=? fst iv) && (fst iv <? hi)) || (fst (snd iv) =? s0)) (views init st).

Definition threads (st : list istep) : list (N * api_op sv3) :=
  flat_map (fun x => match i_lab x with LApiStart t op => [(t, op)] | _ => [] end) st.

(* anything that ends the evaluation of every property: crash, recovered panic, goroutine stuck in the library *)
Definition fatal (c : ccase) : bool :=
  match c with
  | CoreCrash _ _ => true
  | CoreCase _ _ _ _ _ =>
      existsb (fun ie => match snd ie with OStuck _ | OPanic _ => true | _ => false end) (events (case_steps c))
  end.

(* rejected updates leave view and version alone: for every blocking report
   that returned a stack/verify error, the serial does not move from its
   receive until the monitor's next receive *)
Definition rejected_unchanged (init : obs) (st : list istep) : bool :=
  forallb (fun to =>
    match snd to with
    | OpOffer (MsgUpdate _ _ true) =>
        match ret_of st (fst to), recv_idx st (fst to) with
        | Some (_, RetStackErr), Some i | Some (_, RetVerifyErr), Some i =>
            unchanged_between init st i (next_recv_after st i)
        | _, _ => true
        end
    | _ => true
    end) (threads st).

(* every blocking report the monitor received is answered: the monitor reaches
   its reply point before it is back at its select (or leaves) *)
Fixpoint answered_from (all : list istep) (pending : bool) (st : list istep) : bool :=
  match st with
  | [] => true
  | x :: r =>
      let starts :=
        match i_lab x with
        | LMonRecv (ROffer t) =>
            match op_of all t with Some (OpOffer (MsgUpdate _ _ true)) => true | _ => false end
        | _ => false
        end in
      let m := o_mon (i_obs x) in
      let pend := (pending || starts) && negb (m =? 2) in
      if pend && ((m =? 0) || (m =? 8) || (m =? 9)) then false
      else answered_from all pend r
  end.
Definition blocking_answered (st : list istep) : bool := answered_from st false st.

(* every store made while verification is active carries a config that verifies *)
Definition first_enable_ok (st : list istep) : option N :=
  match find (fun ie => match snd ie with ORet _ (RetEnable (EOk _)) => true | _ => false end) (events st) with
  | Some ie => Some (fst ie)
  | None => None
  end.

Fixpoint stores_from (prev : N * cfg3) (vs : list (N * (N * cfg3))) : list (N * (N * cfg3)) :=
  match vs with
  | [] => []
  | iv :: r => if fst (snd iv) =? fst prev then stores_from (snd iv) r else iv :: stores_from (snd iv) r
  end.
Definition stores (init : obs) (st : list istep) : list (N * (N * cfg3)) :=
  stores_from (o_val init) (map (fun x => (i_idx x, o_val (i_obs x))) st).

Definition stores_verified (su : setup) (init : obs) (st : list istep) : bool :=
  let p := su_p su in
  let from := if p_delay p then first_enable_ok st else Some 0 in
  match from with
  | None => true
  | Some t => forallb (fun iv => (fst iv <=? t) || verifyS su (snd (snd iv))) (stores init st)
  end.

Fixpoint run_from {A} (f : A -> N) (i : N) (cs : list A) : list (N * N) :=
  match cs with
  | [] => []
  | c :: r => let v := f c in
              if v =? 0 then run_from f (i + 1) r else (i, v) :: run_from f (i + 1) r
  end.

(* verdict: 0 pass, 1 implementation <> model though the property's
   predicates hold, 3 the property fails on the implementation's observations *)
Definition verdict (spec_ok : bool) (c : ccase) : N :=
  if fatal c then 3
  else if negb spec_ok then 3
  else if model_agrees c then 0 else 1.
