(* C04: only verified configs become visible; rejected updates change nothing.
   Specification predicates on the implementation's observations + verdict. *)
From Coq Require Import List NArith Bool.
From Dials Require Import Base.Outcome Core.CbMgr Core.Monitor Core.System Core.Concrete Check.CoreCheck.
Import ListNotations.
Open Scope N_scope.

(* Config itself fails when the initial stack does not verify (unless Skip/Delay) *)
Definition config_initial_ok (su : setup) (res : N) (init : obs) : bool :=
  match stack3 (su_def su) (map snd (su_srcs su)) with
  | None => res =? 1
  | Some c =>
      if p_skip_initial (su_p su) || p_delay (su_p su) then (res =? 0) && cfg3_eqb (snd (o_val init)) c
      else if verifyS su c then (res =? 0) && cfg3_eqb (snd (o_val init)) c else res =? 2
  end.

(* every config handed out (callbacks, Events, ViewVersion) was installed *)
Definition observed_installed (init : obs) (st : list istep) : bool :=
  forallb (fun ie =>
    match snd ie with
    | OCall (OINew _ n c) => installed init st (n, c)
    | OCall (OIUser _ _ (Some v)) => installed init st v
    | ORet _ (RetView v) => installed init st v
    | ORet _ (RetEvents (Some v)) => installed init st v
    | ORet _ (RetEnable (EOk v)) => installed init st v
    | _ => true
    end) (events st).

(* an error event hands OnWatchedError the current config as old, never the rejected one as installed *)
Definition error_events_ok (su : setup) (init : obs) (st : list istep) : bool :=
  forallb (fun ie =>
    match snd ie with
    | OCall (OIErr k olds rej) =>
        existsb (fun iv => fst (snd iv) =? olds) (views init st)
        && (if k =? 0 then match rej with None => true | Some _ => false end else true)
        && (if k =? 1 then match rej with Some c => negb (verifyS su c) | None => false end else true)
    | _ => true
    end) (events st).

Definition spec_ok (c : ccase) : bool :=
  match c with
  | CoreCrash _ _ => false
  | CoreCase su _ res init steps =>
      let st := index_from 1 steps in
      config_initial_ok su res init &&
      ((negb (res =? 0)) ||
       (stores_verified su init st && observed_installed init st
        && rejected_unchanged init st && error_events_ok su init st && blocking_answered st
        && (p_skip_initial (su_p su) || p_delay (su_p su) || verifyS su (snd (o_val init)))))
  end.

Definition check (c : ccase) : N := verdict (spec_ok c) c.
Definition run_cases : list ccase -> list (N * N) := run_from check 0.
