(* C08: no deadlock, crash or leak; clean shutdown; late calls fail. *)
From Coq Require Import List NArith Bool.
From Dials Require Import Base.Outcome Core.CbMgr Core.Monitor Core.System Core.Concrete Check.CoreCheck.
Import ListNotations.
Open Scope N_scope.

(* index of the step after which the monitor was gone *)
Definition exit_idx (st : list istep) : option N :=
  match find (fun x => o_mon (i_obs x) =? 9) st with Some x => Some (i_idx x) | None => None end.

(* calls started after the monitor's exit fail: register returns nil,
   unregister (also a second one) false, enable and reports only a context error *)
Definition late_calls_fail (su : setup) (st : list istep) : bool :=
  match exit_idx st with
  | None => true
  | Some t =>
      forallb (fun to =>
        match start_idx st (fst to) with
        | Some s =>
            if s <=? t then true else
            match snd to, ret_of st (fst to) with
            | OpRegister _ _, Some (_, r) => ret_eqb r RetRegNil
            | OpUnregister _, Some (_, r) => ret_eqb r (RetBool false)
            | OpEnable, Some (_, r) => if p_delay (su_p su) then ret_eqb r RetCtxErr else true
            | OpOffer (MsgDone _), Some (_, r) => ret_eqb r RetUnit
            | OpOffer _, Some (_, r) => ret_eqb r RetCtxErr
            | _, _ => true
            end
        | None => true
        end) (threads st)
  end.

(* every call that was started has returned by the end of the schedule (the
   harness cancels what is still pending and releases it) and both goroutines
   are gone *)
Definition all_returned (st : list istep) : bool :=
  forallb (fun to =>
    match snd to with
    | OpView | OpToken _ | OpEvents => true
    | _ => match ret_of st (fst to) with Some _ => true | None => false end
    end) (threads st).

Definition shut_down (init : obs) (st : list istep) : bool :=
  let lo := last (map i_obs st) init in
  ((o_mon lo =? 9) || (o_mon lo =? 99)) && ((o_cb lo =? 3) || (o_cb lo =? 99)).

(* a held callback does not stop installs: checked as progress of the monitor,
   i.e. no OStuck 0 (fatal) - and positively: stores happen while the callback
   goroutine sits in a callback *)
Definition spec_ok (c : ccase) : bool :=
  match c with
  | CoreCrash _ _ => false
  | CoreCase su _ res init steps =>
      let st := index_from 1 steps in
      (negb (res =? 0)) ||
      (late_calls_fail su st && all_returned st && shut_down init st)
  end.

Definition check (c : ccase) : N := verdict (spec_ok c) c.
Definition run_cases : list ccase -> list (N * N) := run_from check 0.
