(* Correspondence check for C20 (transforming-source half). *)
From Coq Require Import String.
From Coq Require Import List NArith ZArith Bool.
From Dials Require Export Base.Outcome Base.Runes Reflect.Ty Reflect.Ptrify Stack.Overlay
  Transform.RType Transform.Manglers Transform.Transformer Transform.TransformingSource
  Check.C10Check.
Import ListNotations.
Open Scope N_scope.

Definition otable := list (str * ty * outcome tval).

Inductive winit :=
| IFail                                     (* the inner source's Value fails *)
| INoValue                                  (* the inner source was never asked *)
| IStatic (filled : list val) (o : otable)  (* the inner source returned this translated value *)
| IWatchFail (filled : list val) (o : otable). (* ... and then its Watch failed *)

(* view_at_return: the View read immediately after the report returned (for a
   blocking report it must already show the installed value); view_after: the
   View after the update has settled *)
Inductive wstep :=
| WStep (filled : list val) (o : otable) (blocking : bool) (view_at_return : list val)
        (view_after : list val) (new_errors : N) (returned_error : bool).

(* Verify() of the harness's config types: reject when field i is an integer below the bound *)
Definition vrule := option (nat * Z).
Definition verify_of (r : vrule) (view : list val) : bool :=
  match r with
  | None => true
  | Some (i, b) => match nth i view VNil with VInt z => negb (z <? b)%Z | _ => true end
  end.

Inductive c20case :=
| WCase (t0 : fields) (defaults : list val) (vr : vrule) (ms : list mangler) (init : winit)
        (config : outcome (list val)) (steps : list wstep)
| WDied.

Definition views_eqb (a b : list val) : bool := val_eqm (VList a) (VList b).

(* steps: model state, error events and the value returned to the reporting
   watcher against what was observed *)
Fixpoint check_steps (fuel : nat) (t0 : fields) (defaults : list val) (vr : vrule) (ms : list mangler)
  (x : xstate) (ttr : ty) (s : dstate) (steps : list wstep) : N :=
  match steps with
  | [] => 0
  | WStep filled o blocking var va ne re :: rest =>
      match ts_report_ret fuel (case_env o) ms x blocking t0 defaults (verify_of vr) s (ttr, VStruct filled) with
      | Ok (s', ret) =>
          if views_eqb (d_view s') va &&
             (if d_errors s' =? d_errors s then ne =? 0 else 1 <=? ne) &&
             Bool.eqb ret re &&
             (if blocking then views_eqb (d_view s') var else true)
          then check_steps fuel t0 defaults vr ms x ttr s' rest
          else 3
      | _ => 3
      end
  end.

Definition check (c : c20case) : N :=
  match c with
  | WDied => 3
  | WCase t0 defaults vr ms init config steps =>
      let t := TStruct (ptrify_fields t0) [] in
      let fuel := fuel_for t in
      let tr := translate fuel ms t in
      let inner (o : winit) : ty -> outcome tval :=
        fun ttr => match o with
                  | IStatic f _ | IWatchFail f _ => Ok (ttr, VStruct f)
                  | _ => Err 1
                  end in
      let E := case_env (match init with IStatic _ o | IWatchFail _ o => o | _ => [] end) in
      let first := ts_value fuel E ms t (inner init) in
      let watch_ok := match init with IWatchFail _ _ => false | _ => true end in
      let model_cfg := s <- dials_config t0 defaults (verify_of vr) first ;;
                       if watch_ok then Ok s else Err 2 in
      match model_cfg, config with
      | Ok s, Ok v =>
          if negb (views_eqb (d_view s) v) then 3
          else match tr with
               | Ok (ttr, x) => check_steps fuel t0 defaults vr ms x ttr s steps
               | _ => 3
               end
      | Err _, Err _ => 0
      | _, _ => 3
      end
  end.

Fixpoint run_from (i : N) (cs : list c20case) : list (N * N) :=
  match cs with
  | [] => []
  | c :: r => let v := check c in
              if v =? 0 then run_from (i + 1) r else (i, v) :: run_from (i + 1) r
  end.
Definition run_cases := run_from 0.
