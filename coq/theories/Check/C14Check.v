(* Correspondence check for C14 (aliases through the real sources). *)
From Coq Require Import String.
From Coq Require Import List NArith ZArith Bool.
From Dials Require Export Base.Outcome Base.Runes Reflect.Ty Transform.RType Transform.MAlias
  Transform.Manglers Transform.Transformer Check.C10Check.
Import ListNotations.
Open Scope N_scope.

(* t: pointerified config type; ms1: the source's (or ez's decoder-wrap) chain;
   ms2: the inner decoder's chain ([] for env/flag/pflag); filled: the
   translated value the source built from its input (for JSON: what
   encoding/json decoded); impl: the source's outcome, its error text, and
   the names of the targets given under both names *)
Inductive c14case :=
| ACase (t : ty) (ms1 ms2 : list mangler) (filled : list val)
        (oracle : list (str * ty * outcome tval)) (impl : outcome tval) (errtext : str)
        (both : list str).

Fixpoint starts_with (p s : str) : bool :=
  match p, s with
  | [], _ => true
  | x :: p', y :: s' => (x =? y) && starts_with p' s'
  | _ :: _, [] => false
  end.
Fixpoint contains (p s : str) : bool :=
  starts_with p s || match s with [] => false | _ :: s' => contains p s' end.

Definition quoted (n : str) : str := 34 :: n ++ [34].

Definition model_c14 (E : env) (t : ty) (ms1 ms2 : list mangler) (filled : list val) : outcome tval :=
  r1 <- model_translate t ms1 ;;
  match ms2 with
  | [] => reverse (fuel_for t) E ms1 (snd r1) (fst r1, VStruct filled)
  | _ =>
      r2 <- model_translate (fst r1) ms2 ;;
      v1 <- reverse (fuel_for t) E ms2 (snd r2) (fst r2, VStruct filled) ;;
      reverse (fuel_for t) E ms1 (snd r1) v1
  end.

(* 0 pass; 3 the implementation deviates from the model on the value / error
   class, or the error does not name a field the model blames *)
Definition check (c : c14case) : N :=
  match c with
  | ACase t ms1 ms2 filled oracle impl errtext both =>
      let model := model_c14 (case_env oracle) t ms1 ms2 filled in
      if negb (tval_out_eqb impl model) then 3
      else match model with
           | Err code =>
               match alias_err_name code with
               | Some n =>
                   (* the model blames field n: it is one of the both-set targets and the text names it *)
                   if existsb (str_eqb n) both && contains (quoted n) errtext then 0 else 3
               | None => if is_nil_list both then 0 else 3
               end
           | Ok _ => if is_nil_list both then 0 else 3
           | Panic _ => 3
           end
  end.

Fixpoint run_from (i : N) (cs : list c14case) : list (N * N) :=
  match cs with
  | [] => []
  | c :: r => let v := check c in
              if v =? 0 then run_from (i + 1) r else (i, v) :: run_from (i + 1) r
  end.
Definition run_cases := run_from 0.
