(* Correspondence check for the text half of C16: evaluated by coqc on
   harness-written cases.  The property on a case: the implementation returned
   (a value or an error) - it did not panic and did not exceed the deadline
   (the harness reports both as Panic).  Additionally the outcome is compared
   with the Gallina model, for which "never Panic, never out of fuel" is
   proved in Properties/C16.v. *)
From Coq Require Import List NArith ZArith Bool.
From Dials Require Import Base.Outcome Base.Runes Text.CaseConv Text.Quote Text.Split Text.CasePipeline Text.CaseTitle Text.Utf8.
From Dials Require Export Text.ParseInt Text.ParseString.
From Dials Require Import Check.C15Check.
Import ListNotations.
Open Scope N_scope.

Inductive c16case :=
| Dec (d : N) (s : str) (impl : outcome words)                      (* the 8 case decoders, ASCII inputs *)
| Str (pr : list rune) (t : ty) (s : str) (impl : outcome pval)      (* parse.String(s, t) *)
| IntSl (signed : bool) (w : N) (s : str) (impl : outcome (list Z))  (* integral slice parsers *)
| Unq (s : str) (impl : outcome str)                                 (* strconv.Unquote on double/back-quoted text *)
(* the same entry points on arbitrary BYTE strings, through the UTF-8 front end (Text/Utf8.v) *)
| DecB (d : N) (bs : list N) (impl : outcome words)
| StrB (pr : list rune) (t : ty) (bs : list N) (impl : outcome pval)
| IntSlB (signed : bool) (w : N) (bs : list N) (impl : outcome (list Z))
| UnqB (bs : list N) (impl : outcome str)
| Enc (e : N) (ws : words) (impl : outcome str)                      (* the 6 encoders on arbitrary ASCII word lists *)
| Pipe (d1 e d2 : N) (s : str) (impl : outcome words)                (* decode, encode, decode; ASCII input *)
| Fuzz (impl_class : N).                                             (* byte-level exploration: 0 returned, 1 panicked/hung *)

Definition decode (d : N) : str -> outcome words :=
  match d with
  | 0 => decode_upper_camel | 1 => decode_lower_camel | 2 => decode_lower_snake
  | 3 => decode_upper_snake | 4 => decode_kebab | 5 => decode_cp_snake
  | 6 => decode_go_camel | _ => decode_go_tags
  end.

(* 0 pass; 1 implementation <> model although it returned; 3 the implementation
   panicked or hung *)
Definition check0 (c : c16case) : N :=
  match c with
  | Dec d s impl =>
      if is_panic impl then 3 else if out_eqb strs_eqb impl (decode d s) then 0 else 1
  | Str pr t s impl =>
      if is_panic impl then 3
      else
        let model := parse_string (mk_print pr) fixed9 fixed_elem t s in
        match model with
        | Ok v => if pval_raw v then (if out_class_eqb impl model then 0 else 1)
                  else if out_eqb pval_eqb impl (Ok (pval_norm v)) then 0 else 1
        | _ => if out_eqb pval_eqb impl model then 0 else 1
        end
  | IntSl signed w s impl =>
      if is_panic impl then 3
      else
        let model := if signed then signed_slice_gen fixed10 (sw_of w) s
                     else omap (map Z.of_N) (unsigned_slice_gen fixed10 (uw_of w) s) in
        if out_eqb z_list_eqb impl model then 0 else 1
  | Unq s impl =>
      if is_panic impl then 3
      else
        if out_eqb str_eqb impl (omap renorm (unquote s)) then 0 else 1
  | DecB d bs impl =>
      let s := utf8_decode bs in
      if is_panic impl then 3
      (* the decoder model classifies ASCII only: valid non-ASCII runes are not compared *)
      else if existsb (fun r => (128 <=? r) && negb (is_raw r)) s then 0
      (* DecodeGoTags does not validate its input; its test word == strings.ToUpper(word) is a byte
         comparison and ToUpper re-encodes an invalid byte as U+FFFD (3 bytes), which the rune-level
         all_upper of Text/CaseConv.v cannot see: invalid bytes through decoder 7 are exploration only *)
      else if (7 <=? d) && has_invalid s then 0
      else if out_eqb strs_eqb impl (decode d (range_view s)) then 0 else 1
  | StrB _ _ _ _ | IntSlB _ _ _ _ | UnqB _ _ => 0      (* reduced to the rune-level cases by check *)
  | Enc e ws impl =>
      if is_panic impl then 3
      else if out_eqb str_eqb impl (Ok (encode_by_go e ws)) then 0 else 1
  | Pipe d1 e d2 s impl =>
      if is_panic impl then 3
      else if out_eqb strs_eqb impl (ws <- decode_by d1 s ;; decode_by d2 (encode_by_go e ws)) then 0 else 1
  | Fuzz k => if k =? 0 then 0 else 3
  end.

Definition check (c : c16case) : N :=
  match c with
  | StrB pr t bs impl => check0 (Str pr t (utf8_decode bs) impl)
  | IntSlB signed w bs impl => check0 (IntSl signed w (utf8_decode bs) impl)
  | UnqB bs impl => check0 (Unq (utf8_decode bs) impl)
  | _ => check0 c
  end.

Fixpoint run_from (i : N) (cs : list c16case) : list (N * N) :=
  match cs with
  | [] => []
  | c :: r => let v := check c in
              if v =? 0 then run_from (i + 1) r else (i, v) :: run_from (i + 1) r
  end.
Definition run_cases := run_from 0.
