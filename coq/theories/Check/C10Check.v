(* Correspondence check for C10 (and, in mode 1, C16's named-variant sweep). *)
From Coq Require Import String.
From Coq Require Import List NArith ZArith Bool.
From Dials Require Export Base.Outcome Base.Runes Reflect.Ty Transform.RType Transform.MAlias
  Transform.Manglers Transform.Transformer Transform.WellFormed Transform.CounterpartSpec.
Import ListNotations.
Open Scope N_scope.

Inductive c10case :=
| XCase (mode : N) (t : ty) (ms : list mangler) (impl_tt : outcome ty) (filled : list val)
        (oracle : list (str * ty * outcome tval)) (impl : outcome tval)
(* two ReverseTranslate calls on the same Transformer; the first result is the
   one read AFTER the second call *)
| XTwice (first second : c10case).

(* ---- comparison modulo tag order (alias tags are appended in Go map order)
        and modulo map entry order ---- *)
Fixpoint insert_tag (x : str * str) (l : list (str * str)) : list (str * str) :=
  match l with
  | [] => [x]
  | y :: r => if str_leb (fst x) (fst y) then x :: l else y :: insert_tag x r
  end.
Definition sort_tags (l : list (str * str)) : list (str * str) := fold_right insert_tag [] l.

Fixpoint norm_ty (t : ty) : ty :=
  match t with
  | TPtr e => TPtr (norm_ty e)
  | TSlice e n => TSlice (norm_ty e) n
  | TArray k e => TArray k (norm_ty e)
  | TMap k v n => TMap (norm_ty k) (norm_ty v) n
  | TStruct fs n => TStruct (norm_fields fs) n
  | _ => t
  end
with norm_fields (fs : fields) : fields :=
  match fs with
  | FNil => FNil
  | FCons n tg an t r => FCons n (sort_tags tg) an (norm_ty t) (norm_fields r)
  end.

Definition ty_eqn (a b : ty) : bool := ty_eqb (norm_ty a) (norm_ty b).

Fixpoint val_eqm (a b : val) {struct a} : bool :=
  let fix list_eqm (x y : list val) : bool :=
    match x, y with
    | [], [] => true
    | u :: x', v :: y' => val_eqm u v && list_eqm x' y'
    | _, _ => false
    end in
  match a, b with
  | VNil, VNil => true
  | VBool x, VBool y => Bool.eqb x y
  | VInt x, VInt y => Z.eqb x y
  | VFloat x, VFloat y => Z.eqb x y
  | VStr x, VStr y => str_eqb x y
  | VText x, VText y => str_eqb x y
  | VPtr x, VPtr y => val_eqm x y
  | VList x, VList y => list_eqm x y
  | VStruct x, VStruct y => list_eqm x y
  | VOpaque x, VOpaque y => x =? y
  | VMap x, VMap y =>
      Nat.eqb (length x) (length y) &&
      (fix all (x : list (val * val)) : bool :=
         match x with
         | [] => true
         | (k, v) :: x' => existsb (fun kv => val_eqm k (fst kv) && val_eqm v (snd kv)) y && all x'
         end) x
  | _, _ => false
  end.

Definition tval_out_eqb (a b : outcome tval) : bool :=
  match a, b with
  | Ok (t, x), Ok (t', y) => ty_eqn t t' && val_eqm x y
  | Err _, Err _ => true
  | Panic _, Panic _ => true
  | _, _ => false
  end.
Definition ty_out_eqb (a b : outcome ty) : bool :=
  match a, b with
  | Ok x, Ok y => ty_eqn x y
  | Err _, Err _ => true
  | Panic _, Panic _ => true
  | _, _ => false
  end.

(* ---- the environment of a case ---- *)
Fixpoint oracle_lookup (o : list (str * ty * outcome tval)) (s : str) (t : ty) : outcome tval :=
  match o with
  | [] => Err 254
  | (s', t', r) :: rest => if str_eqb s s' && ty_eqb t t' then r else oracle_lookup rest s t
  end.

(* UnmarshalText of the harness palette: TUp stores the text, TUv (value receiver) cannot *)
Definition palette_unmarshal (id : str) (s : str) : outcome val :=
  if str_eqb id (s2r "TUp"%string) then Ok (VText s) else Ok (VText []).

Definition case_env (o : list (str * ty * outcome tval)) : env :=
  Env (oracle_lookup o) palette_unmarshal.

Definition model_translate (t : ty) (ms : list mangler) : outcome (ty * xstate) :=
  translate (fuel_for t) ms t.

Definition model_reverse (E : env) (t : ty) (ms : list mangler) (filled : list val) : outcome tval :=
  r <- model_translate t ms ;;
  reverse (fuel_for t) E ms (snd r) (fst r, VStruct filled).

(* ---- the types the property quantifies over: what Pointerify produces
        (the same predicate the theorems of Properties/C10.v assume) ---- *)
Definition supported (t : ty) : bool :=
  match t with TStruct fs _ => wf_fields fs | _ => false end.

(* (former known-finding class 1, now an error outcome: an alias tag on an
   embedded struct field in a chain that later flattens gives both copies the
   same flattened names) *)
Definition chain_alias_tags (ms : list mangler) : list str :=
  flat_map (fun m => match m with MAlias tags => tags | _ => [] end) ms.
Definition has_alias_tag (atags : list str) (tg : list (str * str)) : bool :=
  existsb (fun t => match tag_lookup (t ++ alias_sfx) tg with Some _ => true | None => false end) atags.
Fixpoint alias_on_anon_ty (atags : list str) (t : ty) : bool :=
  match t with
  | TPtr e | TSlice e _ | TArray _ e => alias_on_anon_ty atags e
  | TStruct fs _ => alias_on_anon_fields atags fs
  | _ => false
  end
with alias_on_anon_fields (atags : list str) (fs : fields) : bool :=
  match fs with
  | FNil => false
  | FCons _ tg an t r =>
      (an && has_alias_tag atags tg) || alias_on_anon_ty atags t || alias_on_anon_fields atags r
  end.
Definition chain_flattens (ms : list mangler) : bool :=
  existsb (fun m => match m with MFlatten _ _ _ | MAnonFlatten => true | _ => false end) ms.
Definition class1 (t : ty) (ms : list mangler) : bool :=
  chain_flattens ms && alias_on_anon_ty (chain_alias_tags ms) t.

Definition all_nil (vs : list val) : bool := forallb is_vnil vs.

(* verdicts: 0 pass; 1 implementation <> model on something the property does
   not speak about (translated type's tags, types outside the quantifier);
   3 the property fails on this case; 10+k it fails, implementation = model,
   and the case is in known-finding class k *)
Fixpoint check (c : c10case) : N :=
  match c with
  | XTwice a b => let v := check a in if v =? 0 then check b else v
  | XCase mode t ms itt filled oracle impl =>
      let mtt := omap fst (model_translate t ms) in
      let corr_t := ty_out_eqb itt mtt in
      let model := match itt with
                   | Ok _ => model_reverse (case_env oracle) t ms filled
                   | _ => Err 0
                   end in
      let corr_v := match itt with Ok _ => tval_out_eqb impl model | _ => true end in
      if negb (supported t) then (if corr_t && corr_v then 0 else 1)
      else match itt with
           | Panic _ => 3
           | Err _ =>
               (* a type whose translated field names collide, or one of whose names /
                  tag values the chain's case decoder rejects, has no translation
                  (an error): outside the property's quantifier, provided the model
                  says so too *)
               match model_translate t ms with
               | Err c => if c =? 255 then 3 else 0
               | _ => 3
               end
           | Ok _ =>
               match impl with
               | Panic _ => 3
               | _ =>
                   if mode =? 1 then (if corr_t && corr_v then 0 else 1)
                   else
                     let exact := match impl with Ok (rt, _) => ty_eqb rt t | _ => true end in
                     let empty_ok :=
                       if all_nil filled
                       then match impl with Ok (_, v) => val_eqb v (zero t) | _ => false end
                       else true in
                     (* the by-name specification, where the chain has one: the
                        property holds iff the implementation agrees with it *)
                     let spec := match itt with
                                 | Ok tti => counterpart_spec (case_env oracle) ms t tti filled
                                 | _ => None
                                 end in
                     match spec with
                     | Some sp =>
                         if negb exact || negb empty_ok || negb (tval_out_eqb impl sp) then 3
                         else if corr_t && corr_v then 0 else 1
                     | None =>
                         if negb exact || negb empty_ok || negb corr_v then 3
                         else if corr_t then 0 else 1
                     end
               end
           end
  end.

Fixpoint run_from (i : N) (cs : list c10case) : list (N * N) :=
  match cs with
  | [] => []
  | c :: r => let v := check c in
              if v =? 0 then run_from (i + 1) r else (i, v) :: run_from (i + 1) r
  end.
Definition run_cases := run_from 0.
