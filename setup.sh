#!/bin/sh
# Build the framework from files on disk only (offline): Coq development (full
# .vo build), Go harnesses (against /repo with tag verif).
set -e
cd "$(dirname "$0")"
export GOFLAGS=-mod=mod GOPROXY=off GOSUMDB=off GOTOOLCHAIN=local CGO_ENABLED=0
mkdir -p build evidence replays
cp /repo/go.sum harness/go.sum
(cd harness && for d in cmd/*; do go build -tags verif -o ../build/$(basename $d) ./$d; done)
./build/geninit > build/Initialisms.v.new
cmp -s build/Initialisms.v.new coq/theories/Generated/Initialisms.v || cp build/Initialisms.v.new coq/theories/Generated/Initialisms.v
cd coq
coq_makefile -f _CoqProject $(find theories -name '*.v' | sort) -o Makefile
find theories -name '*.v' | sort | sed 's|^|theories/|;s|^theories/theories/|theories/|' > .filelist.tmp
python3 - <<'PY'
import os
srcs=[]
for root,_,files in os.walk('theories'):
    for f in files:
        if f.endswith('.v'): srcs.append(os.path.join(root,f))
open('.filelist','w').write("\n".join(sorted(srcs)))
PY
rm -f .filelist.tmp
timeout 3000 make -j16
