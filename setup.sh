#!/bin/sh
# Build the framework from files on disk only (offline): Go harnesses (against
# /repo, tag verif), source-derived model fragments, Coq development (full .vo build).
set -e
cd "$(dirname "$0")"
export GOFLAGS=-mod=mod GOPROXY=off GOSUMDB=off GOTOOLCHAIN=local CGO_ENABLED=0
mkdir -p build evidence replays
cp /repo/go.sum harness/go.sum
[ -f harness/go.sum.extra ] && cat harness/go.sum.extra >> harness/go.sum
(cd harness && for d in cmd/*/; do
   ls "$d"*.go >/dev/null 2>&1 || continue
   go build -tags verif -o ../build/$(basename "$d") ./"$d"
 done)
./build/geninit > build/Initialisms.v.new
cmp -s build/Initialisms.v.new coq/theories/Generated/Initialisms.v || cp build/Initialisms.v.new coq/theories/Generated/Initialisms.v
cd coq
find theories -name '*.v' | sort > .filelist.new
coq_makefile -f _CoqProject $(cat .filelist.new) -o Makefile
python3 - <<'PY'
import os
srcs=[]
for root,_,files in os.walk('theories'):
    for f in files:
        if f.endswith('.v'): srcs.append(os.path.join(root,f))
open('.filelist','w').write("\n".join(sorted(srcs)))
PY
rm -f .filelist.new
timeout 3000 make -j16
