// Package coqfmt prints Go values as Coq terms for the cases.v files that the
// correspondence check evaluates inside Coq.
package coqfmt

import (
	"fmt"
	"strings"
)

// Str prints a string as a list of code points: [104; 105]
func Str(s string) string {
	var b strings.Builder
	b.WriteString("[")
	first := true
	for _, r := range s {
		if !first {
			b.WriteString("; ")
		}
		first = false
		fmt.Fprintf(&b, "%d", r)
	}
	b.WriteString("]")
	return b.String()
}

// Strs prints a list of strings.
func Strs(ss []string) string {
	parts := make([]string, len(ss))
	for i, s := range ss {
		parts[i] = Str(s)
	}
	return "[" + strings.Join(parts, "; ") + "]"
}

// List joins already-printed terms.
func List(parts []string) string {
	return "[" + strings.Join(parts, "; ") + "]"
}

// Bool prints a Coq bool.
func Bool(b bool) string {
	if b {
		return "true"
	}
	return "false"
}

// Rng is the single PRNG (splitmix64) every generator derives its choices from.
type Rng struct{ s uint64 }

func NewRng(seed uint64) *Rng { return &Rng{s: seed*0x9E3779B97F4A7C15 + 0x1234567} }

func (r *Rng) U64() uint64 {
	r.s += 0x9E3779B97F4A7C15
	z := r.s
	z = (z ^ (z >> 30)) * 0xBF58476D1CE4E5B9
	z = (z ^ (z >> 27)) * 0x94D049BB133111EB
	return z ^ (z >> 31)
}

// Intn returns a value in [0,n).
func (r *Rng) Intn(n int) int {
	if n <= 0 {
		return 0
	}
	return int(r.U64() % uint64(n))
}

// Chance returns true with probability num/den.
func (r *Rng) Chance(num, den int) bool { return r.Intn(den) < num }

// Pick returns one element.
func Pick[T any](r *Rng, xs []T) T { return xs[r.Intn(len(xs))] }
