// Package xf is the shared part of the transform-engine harnesses (c10, c14,
// c20): mangler chains as Go values + Coq terms, safe wrappers around
// Transformer.TranslateType / ReverseTranslate, filling of translated values
// and the parse.String oracle table handed to the Coq model.
package xf

import (
	"fmt"
	"github.com/fatih/structtag"
	"os"
	"reflect"
	"runtime/debug"
	"sort"
	"strings"
	"time"

	"github.com/vimeo/dials/common"
	"github.com/vimeo/dials/decoders/json/jsontypes"
	"github.com/vimeo/dials/parse"
	"github.com/vimeo/dials/tagformat"
	cc "github.com/vimeo/dials/tagformat/caseconversion"
	"github.com/vimeo/dials/transform"

	"verifharness/internal/coqfmt"
	"verifharness/internal/rty"
)

// M is one mangler: the Go value and its Coq term.
type M struct {
	Go       transform.Mangler
	Coq      string
	Kind     string // alias flatten anon setslice subst strcast textu tagcopy reformat
	OneToOne bool
	Alias    []string     // tag families of an alias mangler
	From     reflect.Type // the type a substitution mangler replaces
}

var Encoders = []cc.EncodeCasingFunc{cc.EncodeUpperCamelCase, cc.EncodeLowerCamelCase, cc.EncodeLowerSnakeCase,
	cc.EncodeUpperSnakeCase, cc.EncodeKebabCase, cc.EncodeCasePreservingSnakeCase}
var Decoders = []cc.DecodeCasingFunc{cc.DecodeUpperCamelCase, cc.DecodeLowerCamelCase, cc.DecodeLowerSnakeCase,
	cc.DecodeUpperSnakeCase, cc.DecodeKebabCase, cc.DecodeCasePreservingSnakeCase, cc.DecodeGoCamelCase, cc.DecodeGoTags}

func Alias(tags ...string) M {
	return M{Go: transform.NewAliasMangler(tags...), Coq: "(MAlias " + coqfmt.Strs(tags) + ")", Kind: "alias", Alias: tags}
}
func Flatten(tag string, nenc, tenc int) M {
	return M{Go: transform.NewFlattenMangler(tag, Encoders[nenc], Encoders[tenc]),
		Coq: fmt.Sprintf("(MFlatten %s %d %d)", coqfmt.Str(tag), nenc, tenc), Kind: "flatten"}
}
func Anon() M { return M{Go: transform.AnonymousFlattenMangler{}, Coq: "MAnonFlatten", Kind: "anon"} }
func SetSlice() M {
	return M{Go: &transform.SetSliceMangler{}, Coq: "MSetSlice", Kind: "setslice", OneToOne: true}
}
func StrCast() M {
	return M{Go: &transform.StringCastingMangler{}, Coq: "MStrCast", Kind: "strcast", OneToOne: true}
}
func TextU() M {
	return M{Go: &transform.TextUnmarshalerMangler{}, Coq: "MTextU", Kind: "textu", OneToOne: true}
}
func TagCopy(src, dst string) M {
	return M{Go: &tagformat.TagCopyingMangler{SrcTag: src, NewTag: dst},
		Coq: fmt.Sprintf("(MTagCopy %s %s)", coqfmt.Str(src), coqfmt.Str(dst)), Kind: "tagcopy", OneToOne: true}
}
func Reformat(tag string, dec, enc int) M {
	return M{Go: tagformat.NewTagReformattingMangler(tag, Decoders[dec], Encoders[enc]),
		Coq: fmt.Sprintf("(MReformat %s %d %d)", coqfmt.Str(tag), dec, enc), Kind: "reformat", OneToOne: true}
}

func must[T any](v T, err error) T {
	if err != nil {
		panic(err)
	}
	return v
}

func substM[F, T any]() M {
	m := must(transform.NewSingleTypeSubstitutionMangler[F, T]())
	var f *F
	var t *T
	return M{Go: m, Coq: "(MSubst " + rty.TyTerm(reflect.TypeOf(f).Elem()) + " " + rty.TyTerm(reflect.TypeOf(t).Elem()) + ")",
		Kind: "subst", OneToOne: true, From: reflect.TypeOf(f).Elem()}
}

// SubstDur is the substitution used by the JSON and Cue decoders.
func SubstDur() M { return substM[time.Duration, jsontypes.ParsingDuration]() }

// SubstName substitutes a named string type by string (a second instance).
func SubstName() M { return substM[rty.NName, string]() }

// Shipped chains.
func EnvChain() []M {
	return []M{Alias(common.DialsTagName, common.DialsEnvTagName), Flatten(common.DialsTagName, 0, 0),
		Reformat(common.DialsTagName, 7, 3), TagCopy(common.DialsTagName, common.DialsEnvTagName), StrCast()}
}
func FlagChain() []M {
	return []M{Alias(common.DialsTagName, common.DialsFlagTagName), Flatten(common.DialsTagName, 0, 4)}
}
func PflagChain() []M {
	return []M{Alias(common.DialsTagName, common.DialsPFlagTag, common.DialsPFlagShortTag), Flatten(common.DialsTagName, 0, 4)}
}
func JSONChain() []M { return []M{SubstDur(), TagCopy(common.DialsTagName, "json")} }
func YAMLChain(anon bool) []M {
	c := []M{TagCopy(common.DialsTagName, "yaml")}
	if anon {
		c = append(c, Anon())
	}
	return c
}
func TOMLChain() []M              { return []M{TagCopy(common.DialsTagName, "toml")} }
func EzChain(reformatEnc int) []M { return EzChainOpts(reformatEnc, true) }

// EzChainOpts: the file decoder's wrap as ez assembles it from its Params
// (FileFieldNameEncoder, !DisableAutoSetToSlice); the alias mangler is always there.
func EzChainOpts(reformatEnc int, setSlice bool) []M {
	c := []M{Alias(common.DialsTagName)}
	if reformatEnc >= 0 {
		c = append(c, Reformat(common.DialsTagName, 6, reformatEnc))
	}
	if setSlice {
		c = append(c, SetSlice())
	}
	return c
}

// DrawChain draws a shipped chain, a sub-chain (order kept) or a single mangler.
func DrawChain(r *coqfmt.Rng) ([]M, string) {
	var c []M
	var name string
	switch r.Intn(14) {
	case 0, 1, 2:
		c, name = EnvChain(), "env"
	case 3:
		c, name = FlagChain(), "flag"
	case 4:
		c, name = PflagChain(), "pflag"
	case 5:
		c, name = JSONChain(), "json"
	case 6:
		c, name = YAMLChain(r.Chance(1, 2)), "yaml"
	case 7:
		c, name = TOMLChain(), "toml"
	case 8, 9:
		c, name = EzChain(r.Intn(7)-1), "ez"
	case 10:
		c, name = []M{TextU()}, "textu"
	case 11:
		c, name = []M{SubstName(), SetSlice(), Anon()}, "mix1"
	case 12:
		c, name = []M{Anon(), Alias(common.DialsTagName), TextU(), Flatten(common.DialsTagName, 0, 5)}, "mix2"
	default:
		c, name = []M{Alias(common.DialsTagName, common.DialsEnvTagName), Anon(), SetSlice(), SubstDur(), TagCopy(common.DialsTagName, "json"), StrCast()}, "mix3"
	}
	if r.Chance(1, 3) {
		// sub-chain: drop each stage with probability 1/3 (at least one stays)
		var s []M
		for _, m := range c {
			if !r.Chance(1, 3) {
				s = append(s, m)
			}
		}
		if len(s) > 0 && len(s) < len(c) {
			c, name = s, name+"-sub"
		}
	}
	return c, name
}

func ChainTerm(c []M) string {
	parts := make([]string, len(c))
	for i, m := range c {
		parts[i] = m.Coq
	}
	return coqfmt.List(parts)
}

func ChainKinds(c []M) string {
	parts := make([]string, len(c))
	for i, m := range c {
		parts[i] = m.Kind
	}
	return strings.Join(parts, "+")
}

func Manglers(c []M) []transform.Mangler {
	out := make([]transform.Mangler, len(c))
	for i, m := range c {
		out[i] = m.Go
	}
	return out
}

// AliasFamilies returns the tag families of the chain's first alias mangler.
func AliasFamilies(c []M) []string {
	for _, m := range c {
		if m.Kind == "alias" {
			return m.Alias
		}
	}
	return nil
}

// Outcome of a call: class + value.
type Out struct {
	V        reflect.Value
	T        reflect.Type
	Err      error
	Panicked bool
	PanicMsg string
}

func (o Out) Class() string {
	switch {
	case o.Panicked:
		return "panic"
	case o.Err != nil:
		return "err"
	}
	return "ok"
}

func TranslateSafe(tf *transform.Transformer) (o Out) {
	defer func() {
		if r := recover(); r != nil {
			o = Out{Panicked: true, PanicMsg: fmt.Sprint(r)}
		}
	}()
	t, err := tf.TranslateType()
	return Out{T: t, Err: err}
}

func ReverseSafe(tf *transform.Transformer, v reflect.Value) (o Out) {
	defer func() {
		if r := recover(); r != nil {
			if os.Getenv("XF_STACK") != "" {
				fmt.Fprintf(os.Stderr, "%v\n%s\n", r, debug.Stack())
			}
			o = Out{Panicked: true, PanicMsg: fmt.Sprint(r)}
		}
	}()
	res, err := tf.ReverseTranslate(v)
	if err != nil {
		return Out{Err: err}
	}
	return Out{V: res, T: res.Type()}
}

// TypeOutcome prints a TranslateType outcome as `outcome ty`.
func TypeOutcome(o Out) string {
	switch o.Class() {
	case "panic":
		return "(Panic 0)"
	case "err":
		return "(Err 0)"
	}
	return "(Ok " + rty.TyTerm(o.T) + ")"
}

// ValueOutcome prints a ReverseTranslate outcome as `outcome tval`.
func ValueOutcome(o Out) string {
	switch o.Class() {
	case "panic":
		return "(Panic 0)"
	case "err":
		return "(Err 0)"
	}
	return "(Ok (" + rty.TyTerm(o.T) + ", " + rty.ValTerm(o.V) + "))"
}

var strPtrType = reflect.TypeOf((*string)(nil))

// castTargets lists the types parse.String is asked for by a string-cast
// stage at position k of the chain (nil if the chain has none), one per field
// of the type the stage receives.
func castTargets(t reflect.Type, c []M) (k int, targets []reflect.Type) {
	k = -1
	for i, m := range c {
		if m.Kind == "strcast" {
			k = i
			break
		}
	}
	if k < 0 {
		return k, nil
	}
	pre := TranslateSafe(transform.NewTransformer(t, Manglers(c[:k])...))
	if pre.Class() != "ok" {
		return k, nil
	}
	for i := 0; i < pre.T.NumField(); i++ {
		ft := pre.T.Field(i).Type
		switch ft.Kind() {
		case reflect.Slice, reflect.Map:
			targets = append(targets, ft)
		case reflect.Ptr, reflect.Array:
			targets = append(targets, ft.Elem())
		default:
			targets = append(targets, nil)
		}
	}
	return k, targets
}

func parseSafe(s string, t reflect.Type) (o Out) {
	defer func() {
		if r := recover(); r != nil {
			o = Out{Panicked: true, PanicMsg: fmt.Sprint(r)}
		}
	}()
	v, err := parse.String(s, t)
	if err != nil {
		return Out{Err: err}
	}
	return Out{V: v, T: v.Type()}
}

// OracleEntry runs parse.String(s, t) and prints the table entry for the model.
func OracleEntry(s string, t reflect.Type) string {
	return "(" + coqfmt.Str(s) + ", " + rty.TyTerm(t) + ", " + ValueOutcome(parseSafe(s, t)) + ")"
}

// Filled is a translated value with a random subset of its fields set.
type Filled struct {
	V         reflect.Value
	Oracle    string // Coq list (str * ty * outcome tval)
	NFilled   int
	Depths    map[int]bool
	Texts     int
	ElemZeros int // zero-but-written scalars / whole zero elements inside element structs of slices and arrays
	Zeros     int // fields set to the zero value of their type (non-nil pointer to false/0/"", empty slice/map)
}

// BadTextDen: one in BadTextDen string-cast fields receives a text that is not
// drawn from the always-valid generator (0 = never).
var BadTextDen = 1

// zeroText is the text of the Go zero value of a scalar type ("" if there is none to give).
func zeroText(t reflect.Type) (string, bool) {
	if t == reflect.TypeOf(time.Duration(0)) {
		return "0s", true
	}
	switch t.Kind() {
	case reflect.String:
		return "", true
	case reflect.Bool:
		return "false", true
	case reflect.Int, reflect.Int8, reflect.Int16, reflect.Int32, reflect.Int64,
		reflect.Uint, reflect.Uint8, reflect.Uint16, reflect.Uint32, reflect.Uint64, reflect.Float32, reflect.Float64:
		return "0", true
	}
	return "", false
}

// setToZero makes a nil-able field "set to its zero value": a non-nil pointer
// to false / 0 / "", an empty non-nil slice or map.
func setToZero(fv reflect.Value) bool {
	switch fv.Kind() {
	case reflect.Ptr:
		if fv.Type().Elem().Kind() == reflect.Struct || fv.Type().Elem().Kind() == reflect.Ptr {
			return false
		}
		fv.Set(reflect.New(fv.Type().Elem()))
	case reflect.Slice:
		fv.Set(reflect.MakeSlice(fv.Type(), 0, 0))
	case reflect.Map:
		fv.Set(reflect.MakeMap(fv.Type()))
	default:
		return false
	}
	return true
}

// zeroInElems rewrites part of a generated value: inside the element structs of
// slices and arrays (their fields are not pointerified, so "written" and "zero"
// can coincide) one element in four becomes the zero element, and otherwise one
// scalar field in four is set to the zero value of its type.
func scalarKind(k reflect.Kind) bool {
	switch k {
	case reflect.Bool, reflect.String, reflect.Int, reflect.Int8, reflect.Int16, reflect.Int32, reflect.Int64,
		reflect.Uint, reflect.Uint8, reflect.Uint16, reflect.Uint32, reflect.Uint64, reflect.Float32, reflect.Float64:
		return true
	}
	return false
}

func zeroInElems(r *coqfmt.Rng, v reflect.Value, inElem bool) int {
	n := 0
	t := v.Type()
	if t == rty.TTUp() || t == rty.TTUv() {
		return 0
	}
	switch v.Kind() {
	case reflect.Ptr:
		if !v.IsNil() {
			n += zeroInElems(r, v.Elem(), inElem)
		}
	case reflect.Map:
		// one entry in four of a map of scalars holds the zero value (the entry is
		// written all the same); keys in a fixed order, the case stays reproducible
		if !scalarKind(t.Elem().Kind()) || v.IsNil() {
			return 0
		}
		keys := v.MapKeys()
		sort.Slice(keys, func(i, j int) bool { return fmt.Sprint(keys[i].Interface()) < fmt.Sprint(keys[j].Interface()) })
		for _, k := range keys {
			if r.Chance(1, 4) {
				v.SetMapIndex(k, reflect.Zero(t.Elem()))
				n++
			}
		}
	case reflect.Slice, reflect.Array:
		if scalarKind(t.Elem().Kind()) {
			for i := 0; i < v.Len(); i++ {
				if v.Index(i).CanSet() && r.Chance(1, 6) {
					v.Index(i).Set(reflect.Zero(t.Elem()))
					n++
				}
			}
			return n
		}
		if t.Elem().Kind() != reflect.Struct || t.Elem() == rty.TTUp() || t.Elem() == rty.TTUv() {
			return 0
		}
		for i := 0; i < v.Len(); i++ {
			if r.Chance(1, 4) {
				v.Index(i).Set(reflect.Zero(t.Elem()))
				n++
			} else {
				n += zeroInElems(r, v.Index(i), true)
			}
		}
	case reflect.Struct:
		for i := 0; i < v.NumField(); i++ {
			if t.Field(i).PkgPath != "" {
				continue
			}
			fv := v.Field(i)
			switch fv.Kind() {
			case reflect.Bool, reflect.String, reflect.Int, reflect.Int8, reflect.Int16, reflect.Int32, reflect.Int64,
				reflect.Uint, reflect.Uint8, reflect.Uint16, reflect.Uint32, reflect.Uint64, reflect.Float32, reflect.Float64:
				if inElem && r.Chance(1, 4) {
					fv.Set(reflect.Zero(fv.Type()))
					n++
				}
			default:
				n += zeroInElems(r, fv, inElem)
			}
		}
	}
	return n
}

func textFor(r *coqfmt.Rng, t reflect.Type) string {
	if r.Chance(1, 6) {
		if z, ok := zeroText(t); ok {
			return z
		}
	}
	if BadTextDen > 0 && r.Chance(1, BadTextDen) {
		return rty.TextFor(r, t)
	}
	return rty.TextForValid(r, t)
}

// Fill builds a value of the translated type tt (of original type t under
// chain c): every top-level field is filled with probability num/den;
// string-cast fields receive texts appropriate for their original type.
func Fill(r *coqfmt.Rng, t, tt reflect.Type, c []M, num, den int) Filled {
	v := reflect.New(tt).Elem()
	k, targets := castTargets(t, c)
	positional := k >= 0 && len(targets) == tt.NumField()
	if k >= 0 {
		for _, m := range c[k+1:] {
			if !m.OneToOne {
				positional = false
			}
		}
	}
	hasTextU := false
	for _, m := range c {
		if m.Kind == "textu" {
			hasTextU = true
		}
	}
	f := Filled{Depths: map[int]bool{}}
	var texts []string
	for i := 0; i < tt.NumField(); i++ {
		sf := tt.Field(i)
		if sf.PkgPath != "" || !r.Chance(num, den) {
			continue
		}
		fv := v.Field(i)
		if sf.Type == strPtrType && k >= 0 && positional && targets[i] != nil && !castable(targets[i]) && BadTextDen != 1 && !r.Chance(1, BadTextDen) {
			continue // parse.String has no form for this type: leave the field unset most of the time
		}
		if sf.Type == strPtrType && (k >= 0 || hasTextU) {
			var s string
			var guess reflect.Type
			if len(targets) > 0 {
				guess = targets[r.Intn(len(targets))]
			}
			switch {
			case positional && targets[i] != nil:
				s = textFor(r, targets[i])
			case guess != nil:
				s = textFor(r, guess)
			default:
				s = []string{"abc", "12", "true", "3s", "a,b"}[r.Intn(5)]
			}
			fv.Set(reflect.ValueOf(&s))
			texts = append(texts, s)
		} else {
			if !(r.Chance(1, 6) && setToZero(fv)) {
				rty.GenValue(r, fv, rty.VOpts{NilNum: 1, NilDen: 4}, 0)
				f.ElemZeros += zeroInElems(r, fv, false)
			} else {
				f.Zeros++
			}
		}
		base := strings.Count(sf.Tag.Get("dialsfieldpath"), ",")
		leafDepths(fv, base, f.Depths, &f.NFilled)
	}
	f.V = v
	f.Texts = len(texts)
	// oracle: every text against every distinct cast target
	var entries []string
	seen := map[string]bool{}
	// the by-name specification asks about the ORIGINAL leaf types, which differ
	// from the types at the string-cast stage where an earlier stage rewrote the
	// element struct of a slice leaf (alias copies, tags): add those as well
	all := targets
	if k >= 0 && len(texts) > 0 {
		var plain []M
		for _, m := range c[:k] {
			if m.Kind == "flatten" {
				plain = append(plain, m)
			}
		}
		_, orig := castTargets(t, append(plain, c[k]))
		all = append(append([]reflect.Type{}, targets...), orig...)
	}
	for _, s := range texts {
		for _, tg := range all {
			if tg == nil {
				continue
			}
			key := s + "\x00" + tg.String()
			if seen[key] {
				continue
			}
			seen[key] = true
			o := parseSafe(s, tg)
			entries = append(entries, "("+coqfmt.Str(s)+", "+rty.TyTerm(tg)+", "+ValueOutcome(o)+")")
		}
	}
	f.Oracle = coqfmt.List(entries)
	return f
}

// castable: parse.String has a textual form for type t
func castable(t reflect.Type) bool {
	scalar := func(t reflect.Type) bool {
		switch t.Kind() {
		case reflect.Bool, reflect.String, reflect.Int, reflect.Int8, reflect.Int16, reflect.Int32, reflect.Int64,
			reflect.Uint, reflect.Uint8, reflect.Uint16, reflect.Uint32, reflect.Uint64,
			reflect.Float32, reflect.Float64, reflect.Complex64, reflect.Complex128:
			return true
		}
		return false
	}
	switch t.Kind() {
	case reflect.Slice:
		return scalar(t.Elem())
	case reflect.Map:
		if t == reflect.TypeOf(map[string]struct{}{}) {
			return true
		}
		return scalar(t.Key()) && scalar(t.Elem())
	}
	return scalar(t)
}

// leafDepths records the depths of the non-nil leaves below v.
func leafDepths(v reflect.Value, d int, depths map[int]bool, n *int) {
	switch v.Kind() {
	case reflect.Ptr:
		if v.IsNil() {
			return
		}
		if v.Elem().Kind() == reflect.Struct {
			leafDepths(v.Elem(), d, depths, n)
			return
		}
		depths[d] = true
		*n++
	case reflect.Struct:
		if v.Type() == rty.TTUp() || v.Type() == rty.TTUv() {
			depths[d] = true
			*n++
			return
		}
		for i := 0; i < v.NumField(); i++ {
			leafDepths(v.Field(i), d+1, depths, n)
		}
	case reflect.Slice, reflect.Map, reflect.Interface:
		if v.IsNil() {
			return
		}
		depths[d] = true
		*n++
	default:
		depths[d] = true
		*n++
	}
}

// HasFanout says whether the chain contains a 1->n mangler.
func HasFanout(c []M) bool {
	for _, m := range c {
		switch m.Kind {
		case "alias", "flatten", "anon":
			return true
		}
	}
	return false
}

// MakeUnreversible turns a filled translated value into one ReverseTranslate
// must reject, if the translated type offers a way: both copies of an aliased
// top-level field set, or a string field holding a text no parser accepts for
// a non-string target.  Returns false if nothing could be done.
func MakeUnreversible(v reflect.Value) bool {
	t := v.Type()
	for i := 0; i < t.NumField(); i++ {
		name := t.Field(i).Name
		if !strings.HasSuffix(name, "_alias9wr876rw3") {
			continue
		}
		prim := v.FieldByName(strings.TrimSuffix(name, "_alias9wr876rw3"))
		al := v.Field(i)
		if !prim.IsValid() || prim.Type() != al.Type() {
			continue
		}
		ok := true
		for _, fv := range []reflect.Value{prim, al} {
			switch fv.Kind() {
			case reflect.Ptr:
				if fv.IsNil() {
					fv.Set(reflect.New(fv.Type().Elem()))
				}
			case reflect.Slice:
				if fv.IsNil() {
					fv.Set(reflect.MakeSlice(fv.Type(), 0, 0))
				}
			case reflect.Map:
				if fv.IsNil() {
					fv.Set(reflect.MakeMap(fv.Type()))
				}
			default:
				ok = false
			}
		}
		if ok {
			return true
		}
	}
	return false
}

// MalformedTag walks a (translated) type and returns the first struct field
// whose tag is not in the conventional key:"quoted value" format ("" if none):
// whatever a mangler writes into a tag must survive re-parsing.
func MalformedTag(t reflect.Type) string {
	switch t.Kind() {
	case reflect.Ptr, reflect.Slice, reflect.Array, reflect.Map:
		return MalformedTag(t.Elem())
	case reflect.Struct:
		for i := 0; i < t.NumField(); i++ {
			f := t.Field(i)
			if _, err := structtag.Parse(string(f.Tag)); err != nil {
				return fmt.Sprintf("field %s has the malformed tag %q: %v", f.Name, string(f.Tag), err)
			}
			if m := MalformedTag(f.Type); m != "" {
				return m
			}
		}
	}
	return ""
}
