// Package rty generates random config struct types with reflect.StructOf,
// random values of arbitrary reflect types, and prints reflect types and
// values as Coq terms of Dials.Reflect.Ty (ty/fields/val).
package rty

import (
	"encoding"
	"fmt"
	"reflect"
	"sort"
	"strings"
	"time"

	"verifharness/internal/coqfmt"
)

// ---- palette of named and text-unmarshalable types ----

type NLevel uint8
type NName string
type NCount int64
type NStrs []string
type NMap map[string]int

// TUp implements encoding.TextUnmarshaler on the pointer receiver.
type TUp struct{ S string }

func (t *TUp) UnmarshalText(b []byte) error { t.S = string(b); return nil }
func (t TUp) MarshalText() ([]byte, error)  { return []byte(t.S), nil }

// TUv implements encoding.TextUnmarshaler on the value receiver.
type TUv struct{ S string }

func (t TUv) UnmarshalText(b []byte) error { return nil }

var (
	tTUp = reflect.TypeOf(TUp{})
	tTUv = reflect.TypeOf(TUv{})
)

var basics = []reflect.Type{
	reflect.TypeOf(false), reflect.TypeOf(int(0)), reflect.TypeOf(int8(0)), reflect.TypeOf(int16(0)),
	reflect.TypeOf(int32(0)), reflect.TypeOf(int64(0)), reflect.TypeOf(uint(0)), reflect.TypeOf(uint8(0)),
	reflect.TypeOf(uint16(0)), reflect.TypeOf(uint32(0)), reflect.TypeOf(uint64(0)), reflect.TypeOf(uintptr(0)),
	reflect.TypeOf(float32(0)), reflect.TypeOf(float64(0)), reflect.TypeOf(complex64(0)), reflect.TypeOf(complex128(0)),
	reflect.TypeOf(""), reflect.TypeOf(time.Duration(0)), reflect.TypeOf(NLevel(0)), reflect.TypeOf(NName("")),
	reflect.TypeOf(NCount(0)),
}

// Opts steer the type generator.
type Opts struct {
	MaxDepth   int
	MaxWidth   int
	Skipped    bool // unexported, dials:"-", chan and func fields
	TextU      bool
	UserPtrs   bool
	Embedded   bool
	Arrays     bool
	Maps       bool
	Slices     bool
	StructElem bool // []struct / [2]struct / map[string]struct
	NamedColl  bool // NStrs, NMap
	Twins      bool // sibling struct fields whose types differ only in skipped fields
	DeepPtrs   bool // user pointers to nil-able things: *[]T, *map[K]V, **T
	NilElems   bool // arrays, slices and maps whose ELEMENTS are nil-able ([3]*T, [2][]T, []map[string]T, map[string]*T): replaced as a whole, never slot by slot
	OddTags    bool // dials:"-" next to other, also unconventional, tag parts (`dials:"-" json:secret`)
	ZeroSized  bool // zero-sized exported leaves: struct{}, [0]T
	IfaceSkip  bool // interface{} fields (defaults: nil, a func or a chan; no layer ever sets them)
}

// AllOpts enables everything C01 quantifies over.
func AllOpts(depth, width int) Opts {
	return Opts{MaxDepth: depth, MaxWidth: width, Skipped: true, TextU: true, UserPtrs: true, Embedded: true,
		Arrays: true, Maps: true, Slices: true, StructElem: true, NamedColl: true}
}

func basic(r *coqfmt.Rng) reflect.Type { return basics[r.Intn(len(basics))] }

// elemType draws the element type of an array, slice or map leaf
func elemType(r *coqfmt.Rng, o Opts) reflect.Type {
	if o.NilElems && r.Chance(1, 3) {
		switch r.Intn(3) {
		case 0:
			return reflect.PtrTo(basic(r))
		case 1:
			return reflect.SliceOf(basic(r))
		default:
			return reflect.MapOf(reflect.TypeOf(""), basic(r))
		}
	}
	return basic(r)
}

// leafType draws a non-struct field type.
func leafType(r *coqfmt.Rng, o Opts) reflect.Type {
	if o.ZeroSized && r.Chance(1, 12) {
		if r.Chance(1, 2) {
			return reflect.TypeOf(struct{}{})
		}
		return reflect.ArrayOf(0, basic(r))
	}
	for {
		switch r.Intn(10) {
		case 0, 1, 2, 3:
			return basic(r)
		case 4:
			if o.Slices {
				if o.NamedColl && r.Chance(1, 4) {
					return reflect.TypeOf(NStrs(nil))
				}
				return reflect.SliceOf(elemType(r, o))
			}
		case 5:
			if o.Maps {
				if o.NamedColl && r.Chance(1, 4) {
					return reflect.TypeOf(NMap(nil))
				}
				return reflect.MapOf(reflect.TypeOf(""), elemType(r, o))
			}
		case 6:
			if o.Arrays {
				return reflect.ArrayOf(1+r.Intn(3), elemType(r, o))
			}
		case 7:
			if o.TextU {
				if r.Chance(1, 2) {
					return tTUp
				}
				return tTUv
			}
		case 8:
			if o.UserPtrs && o.DeepPtrs && r.Chance(1, 3) {
				switch r.Intn(3) {
				case 0:
					return reflect.PtrTo(reflect.SliceOf(basic(r)))
				case 1:
					return reflect.PtrTo(reflect.MapOf(reflect.TypeOf(""), basic(r)))
				default:
					return reflect.PtrTo(reflect.PtrTo(basic(r)))
				}
			}
			if o.UserPtrs {
				if o.TextU && r.Chance(1, 4) {
					return reflect.PtrTo(tTUp)
				}
				return reflect.PtrTo(basic(r))
			}
		default:
			return basic(r)
		}
	}
}

// SkippedVariant returns a struct type with the same retained fields as t
// (hence the same pointerified form) but with additional skipped fields
// (unexported, dials:"-", chan) inserted at random positions.
func SkippedVariant(r *coqfmt.Rng, t reflect.Type) reflect.Type {
	var fields []reflect.StructField
	k := 0
	ins := func() {
		k++
		switch r.Intn(3) {
		case 0:
			fields = append(fields, reflect.StructField{Name: fmt.Sprintf("v%d", k), PkgPath: "verifharness/gen", Type: reflect.TypeOf(0)})
		case 1:
			fields = append(fields, reflect.StructField{Name: fmt.Sprintf("V%d", k), Type: reflect.TypeOf(""), Tag: `dials:"-"`})
		default:
			fields = append(fields, reflect.StructField{Name: fmt.Sprintf("V%d", k), Type: reflect.TypeOf(make(chan int))})
		}
	}
	for i := 0; i < t.NumField(); i++ {
		if r.Chance(1, 2) {
			ins()
		}
		fields = append(fields, t.Field(i))
	}
	if r.Chance(1, 3) {
		ins()
	}
	return reflect.StructOf(fields)
}

// GenStruct draws a random struct type.
func GenStruct(r *coqfmt.Rng, o Opts, depth int) reflect.Type {
	n := 1 + r.Intn(o.MaxWidth)
	fields := make([]reflect.StructField, 0, n)
	for i := 0; i < n; i++ {
		name := fmt.Sprintf("F%d", i)
		var sf reflect.StructField
		x := r.Intn(100)
		switch {
		case o.Skipped && x < 7:
			sf = reflect.StructField{Name: fmt.Sprintf("u%d", i), PkgPath: "verifharness/gen", Type: leafType(r, o)}
		case o.Skipped && x < 14:
			t := leafType(r, o)
			if depth < o.MaxDepth && r.Chance(1, 3) {
				t = GenStruct(r, o, depth+1)
			}
			sf = reflect.StructField{Name: name, Type: t, Tag: `dials:"-"`}
			if o.OddTags && r.Chance(1, 3) {
				sf.Tag = reflect.StructTag(coqfmt.Pick(r, []string{"dials:\"-\" json:secret", "json:\"x\" dials:\"-\"",
					"dials:\"-\" yaml:\"a,omitempty\" bad", "dials:\"-\"  dialsdesc:\"kept out\"", "dials:\"-\" :"}))
			}
		case o.IfaceSkip && x < 16 && r.Chance(1, 2):
			sf = reflect.StructField{Name: name, Type: reflect.TypeOf((*interface{})(nil)).Elem()}
		case o.Skipped && x < 18:
			sf = reflect.StructField{Name: name, Type: reflect.TypeOf(make(chan int))}
		case o.Skipped && x < 22:
			sf = reflect.StructField{Name: name, Type: reflect.TypeOf(func() {})}
		case depth < o.MaxDepth && x < 34:
			sf = reflect.StructField{Name: name, Type: GenStruct(r, o, depth+1)}
		case depth < o.MaxDepth && x < 44:
			sf = reflect.StructField{Name: name, Type: reflect.PtrTo(GenStruct(r, o, depth+1))}
		case o.Embedded && depth < o.MaxDepth && x < 50:
			t := GenStruct(r, o, depth+1)
			if r.Chance(1, 2) {
				t = reflect.PtrTo(t)
			}
			sf = reflect.StructField{Name: fmt.Sprintf("E%d", i), Type: t, Anonymous: true}
		case o.StructElem && depth < o.MaxDepth && x < 56:
			el := GenStruct(r, o, o.MaxDepth) // shallow element struct
			switch r.Intn(3) {
			case 0:
				sf = reflect.StructField{Name: name, Type: reflect.SliceOf(el)}
			case 1:
				sf = reflect.StructField{Name: name, Type: reflect.ArrayOf(2, el)}
			default:
				sf = reflect.StructField{Name: name, Type: reflect.MapOf(reflect.TypeOf(""), el)}
			}
		default:
			sf = reflect.StructField{Name: name, Type: leafType(r, o)}
		}
		if sf.Tag == "" && r.Chance(1, 5) {
			sf.Tag = reflect.StructTag(fmt.Sprintf(`dials:"t%d"`, i))
		}
		fields = append(fields, sf)
		// a sibling whose type differs only in skipped fields: both pointerify to the same type
		if o.Twins && o.Skipped && sf.Tag == "" && !sf.Anonymous && sf.PkgPath == "" && r.Chance(1, 4) {
			switch {
			case sf.Type.Kind() == reflect.Struct && sf.Type.Name() == "":
				fields = append(fields, reflect.StructField{Name: name + "v", Type: SkippedVariant(r, sf.Type)})
			case sf.Type.Kind() == reflect.Ptr && sf.Type.Elem().Kind() == reflect.Struct && sf.Type.Elem().Name() == "":
				fields = append(fields, reflect.StructField{Name: name + "v", Type: reflect.PtrTo(SkippedVariant(r, sf.Type.Elem()))})
			}
		}
	}
	return reflect.StructOf(fields)
}

// ---- values ----

// VOpts steer value generation.
type VOpts struct {
	NilNum, NilDen int // probability that a nil-able value is nil
}

const strAlphabet = "abcxyz019_-,:\" "

func genString(r *coqfmt.Rng) string {
	n := r.Intn(5)
	b := make([]byte, n)
	for i := range b {
		b[i] = strAlphabet[r.Intn(len(strAlphabet))]
	}
	return string(b)
}

// GenValue fills v (settable) with a random value of its type.
func GenValue(r *coqfmt.Rng, v reflect.Value, o VOpts, depth int) {
	t := v.Type()
	if t == tTUp || t == tTUv {
		v.Field(0).SetString(genString(r))
		return
	}
	switch t.Kind() {
	case reflect.Bool:
		v.SetBool(r.Chance(1, 2))
	case reflect.Int, reflect.Int8, reflect.Int16, reflect.Int32, reflect.Int64:
		bits := t.Bits()
		x := int64(r.U64())
		if r.Chance(1, 2) {
			x = int64(r.Intn(200)) - 100
		}
		if bits < 64 {
			x = x << (64 - uint(bits)) >> (64 - uint(bits))
		}
		v.SetInt(x)
	case reflect.Uint, reflect.Uint8, reflect.Uint16, reflect.Uint32, reflect.Uint64, reflect.Uintptr:
		bits := t.Bits()
		x := r.U64()
		if r.Chance(1, 2) {
			x = uint64(r.Intn(200))
		}
		if bits < 64 {
			x &= (1 << uint(bits)) - 1
		}
		v.SetUint(x)
	case reflect.Float32, reflect.Float64:
		v.SetFloat(float64(r.Intn(2000)-1000) / 8)
	case reflect.Complex64, reflect.Complex128:
		v.SetComplex(complex(float64(r.Intn(200)-100)/4, float64(r.Intn(200)-100)/4))
	case reflect.String:
		v.SetString(genString(r))
	case reflect.Ptr:
		if r.Chance(o.NilNum, o.NilDen) {
			return
		}
		p := reflect.New(t.Elem())
		GenValue(r, p.Elem(), o, depth+1)
		v.Set(p)
	case reflect.Slice:
		if r.Chance(o.NilNum, o.NilDen) {
			return
		}
		n := r.Intn(4)
		s := reflect.MakeSlice(t, n, n)
		for i := 0; i < n; i++ {
			GenValue(r, s.Index(i), o, depth+1)
		}
		v.Set(s)
	case reflect.Array:
		for i := 0; i < v.Len(); i++ {
			GenValue(r, v.Index(i), o, depth+1)
		}
	case reflect.Map:
		if r.Chance(o.NilNum, o.NilDen) {
			return
		}
		n := r.Intn(4)
		m := reflect.MakeMapWithSize(t, n)
		for i := 0; i < n; i++ {
			k := reflect.New(t.Key()).Elem()
			GenValue(r, k, o, depth+1)
			e := reflect.New(t.Elem()).Elem()
			GenValue(r, e, o, depth+1)
			m.SetMapIndex(k, e)
		}
		v.Set(m)
	case reflect.Struct:
		for i := 0; i < v.NumField(); i++ {
			if t.Field(i).PkgPath != "" {
				continue // unexported: stays zero (cannot be set through reflect)
			}
			GenValue(r, v.Field(i), o, depth+1)
		}
	case reflect.Chan:
		if !r.Chance(o.NilNum, o.NilDen) {
			v.Set(reflect.MakeChan(t, 0))
		}
	case reflect.Func, reflect.Interface:
		// stay nil
	}
}

// ---- Coq printers ----

func qname(t reflect.Type) string {
	if t.Name() == "" {
		return "[]"
	}
	return coqfmt.Str(t.String())
}

func kindTerm(t reflect.Type) string {
	switch t.Kind() {
	case reflect.Bool:
		return "KBool"
	case reflect.String:
		return "KString"
	case reflect.Int, reflect.Int8, reflect.Int16, reflect.Int32, reflect.Int64:
		return fmt.Sprintf("(KInt %d)", kbits(t))
	case reflect.Uint, reflect.Uint8, reflect.Uint16, reflect.Uint32, reflect.Uint64, reflect.Uintptr:
		return fmt.Sprintf("(KUint %d)", kbits(t))
	case reflect.Float32, reflect.Float64:
		return fmt.Sprintf("(KFloat %d)", t.Bits())
	case reflect.Complex64, reflect.Complex128:
		return fmt.Sprintf("(KComplex %d)", t.Bits())
	}
	panic("not basic: " + t.String())
}

// int/uint/uintptr are distinct types from int64/uint64: encode them with
// pseudo bit sizes 0 (int, uint) and 1 (uintptr) so type identity is kept.
func kbits(t reflect.Type) int {
	switch t.Kind() {
	case reflect.Int, reflect.Uint:
		return 0
	case reflect.Uintptr:
		return 1
	}
	return t.Bits()
}

var tuIface = reflect.TypeOf((*encoding.TextUnmarshaler)(nil)).Elem()

// isTextU: a struct implementing encoding.TextUnmarshaler directly or via its pointer type
// (what ptrify.IsTextUnmarshalerStruct decides); such a struct is an opaque leaf.
func isTextU(t reflect.Type) bool {
	return t.Kind() == reflect.Struct && (t.Implements(tuIface) || reflect.PtrTo(t).Implements(tuIface))
}

// TyTerm prints a reflect.Type as a Coq `ty`.
func TyTerm(t reflect.Type) string {
	if t != tTUp && t != tTUv && isTextU(t) {
		return "(TTextU " + coqfmt.Str(t.String()) + " " + coqfmt.Bool(!t.Implements(tuIface)) + ")"
	}
	if t == tTUp {
		return "(TTextU " + coqfmt.Str("TUp") + " true)"
	}
	if t == tTUv {
		return "(TTextU " + coqfmt.Str("TUv") + " false)"
	}
	switch t.Kind() {
	case reflect.Ptr:
		return "(TPtr " + TyTerm(t.Elem()) + ")"
	case reflect.Slice:
		return "(TSlice " + TyTerm(t.Elem()) + " " + qname(t) + ")"
	case reflect.Array:
		return fmt.Sprintf("(TArray %d %s)", t.Len(), TyTerm(t.Elem()))
	case reflect.Map:
		return "(TMap " + TyTerm(t.Key()) + " " + TyTerm(t.Elem()) + " " + qname(t) + ")"
	case reflect.Struct:
		return "(TStruct " + FieldsTerm(t) + " " + qname(t) + ")"
	case reflect.Interface:
		return "TIface"
	case reflect.Chan:
		return "TChan"
	case reflect.Func:
		return "TFunc"
	default:
		return "(TBasic " + kindTerm(t) + " " + qname(t) + ")"
	}
}

// Tags parses a struct tag into key/value pairs (conventional syntax).
func Tags(tag reflect.StructTag) [][2]string {
	var out [][2]string
	s := string(tag)
	for s != "" {
		i := 0
		for i < len(s) && s[i] == ' ' {
			i++
		}
		s = s[i:]
		if s == "" {
			break
		}
		i = 0
		for i < len(s) && s[i] > ' ' && s[i] != ':' && s[i] != '"' && s[i] != 0x7f {
			i++
		}
		if i == 0 || i+1 >= len(s) || s[i] != ':' || s[i+1] != '"' {
			break
		}
		name := s[:i]
		s = s[i+1:]
		i = 1
		for i < len(s) && s[i] != '"' {
			if s[i] == '\\' {
				i++
			}
			i++
		}
		if i >= len(s) {
			break
		}
		val := s[1:i]
		s = s[i+1:]
		out = append(out, [2]string{name, strings.ReplaceAll(val, `\"`, `"`)})
	}
	return out
}

// FieldsTerm prints the fields of a struct type as a Coq `fields`.
func FieldsTerm(t reflect.Type) string {
	var b strings.Builder
	n := t.NumField()
	for i := 0; i < n; i++ {
		f := t.Field(i)
		tags := Tags(f.Tag)
		tp := make([]string, len(tags))
		for j, kv := range tags {
			tp[j] = "(" + coqfmt.Str(kv[0]) + ", " + coqfmt.Str(kv[1]) + ")"
		}
		fmt.Fprintf(&b, "(FCons %s %s %s %s ", coqfmt.Str(f.Name), coqfmt.List(tp), coqfmt.Bool(f.Anonymous), TyTerm(f.Type))
	}
	b.WriteString("FNil")
	b.WriteString(strings.Repeat(")", n))
	return b.String()
}

// ValTerm prints a reflect.Value as a Coq `val`.
func ValTerm(v reflect.Value) string {
	t := v.Type()
	if t == tTUp || t == tTUv {
		return "(VText " + coqfmt.Str(v.Field(0).String()) + ")"
	}
	if isTextU(t) {
		if v.CanInterface() {
			if m, ok := v.Interface().(encoding.TextMarshaler); ok {
				if b, err := m.MarshalText(); err == nil {
					return "(VText " + coqfmt.Str(string(b)) + ")"
				}
			}
		}
		return "(VText " + coqfmt.Str(fmt.Sprint(v)) + ")"
	}
	switch t.Kind() {
	case reflect.Bool:
		return "(VBool " + coqfmt.Bool(v.Bool()) + ")"
	case reflect.Int, reflect.Int8, reflect.Int16, reflect.Int32, reflect.Int64:
		return fmt.Sprintf("(VInt (%d)%%Z)", v.Int())
	case reflect.Uint, reflect.Uint8, reflect.Uint16, reflect.Uint32, reflect.Uint64, reflect.Uintptr:
		return fmt.Sprintf("(VInt %d%%Z)", v.Uint())
	case reflect.Float32, reflect.Float64:
		return fmt.Sprintf("(VFloat (%d)%%Z)", floatBits(v.Float()))
	case reflect.Complex64, reflect.Complex128:
		c := v.Complex()
		return fmt.Sprintf("(VList [VFloat (%d)%%Z; VFloat (%d)%%Z])", floatBits(real(c)), floatBits(imag(c)))
	case reflect.String:
		return "(VStr " + coqfmt.Str(v.String()) + ")"
	case reflect.Ptr:
		if v.IsNil() {
			return "VNil"
		}
		return "(VPtr " + ValTerm(v.Elem()) + ")"
	case reflect.Interface:
		if v.IsNil() {
			return "VNil"
		}
		return "(VPtr " + ValTerm(v.Elem()) + ")"
	case reflect.Slice:
		if v.IsNil() {
			return "VNil"
		}
		fallthrough
	case reflect.Array:
		parts := make([]string, v.Len())
		for i := range parts {
			parts[i] = ValTerm(v.Index(i))
		}
		return "(VList " + coqfmt.List(parts) + ")"
	case reflect.Map:
		if v.IsNil() {
			return "VNil"
		}
		type kv struct{ k, v string }
		var kvs []kv
		it := v.MapRange()
		for it.Next() {
			kvs = append(kvs, kv{ValTerm(it.Key()), ValTerm(it.Value())})
		}
		sort.Slice(kvs, func(i, j int) bool { return kvs[i].k < kvs[j].k })
		parts := make([]string, len(kvs))
		for i, e := range kvs {
			parts[i] = "(" + e.k + ", " + e.v + ")"
		}
		return "(VMap " + coqfmt.List(parts) + ")"
	case reflect.Struct:
		parts := make([]string, v.NumField())
		for i := range parts {
			parts[i] = ValTerm(v.Field(i))
		}
		return "(VStruct " + coqfmt.List(parts) + ")"
	case reflect.Chan, reflect.Func:
		if v.IsNil() {
			return "VNil"
		}
		return fmt.Sprintf("(VOpaque %d)", v.Pointer())
	}
	panic("ValTerm: unsupported kind " + t.Kind().String())
}

func floatBits(f float64) int64 {
	// values are generated as small dyadic rationals: f*1024 is exact
	return int64(f * 1024)
}

// StructFieldsTerm prints the field values of a struct value as `list val`.
func StructFieldsTerm(v reflect.Value) string {
	parts := make([]string, v.NumField())
	for i := range parts {
		parts[i] = ValTerm(v.Field(i))
	}
	return coqfmt.List(parts)
}

// AliasUserPtrs makes some same-typed, non-nil user-declared pointers (pointers
// to non-structs) inside v point to the SAME variable.  Tree values cannot
// tell, so the expected stacking result is unchanged; an implementation that
// writes through such a pointer instead of replacing it is exposed.
func AliasUserPtrs(r *coqfmt.Rng, v reflect.Value) int {
	var ptrs []reflect.Value
	var walk func(v reflect.Value, depth int)
	walk = func(v reflect.Value, depth int) {
		if depth > 6 {
			return
		}
		switch v.Kind() {
		case reflect.Struct:
			if v.Type() == tTUp || v.Type() == tTUv {
				return
			}
			for i := 0; i < v.NumField(); i++ {
				if v.Type().Field(i).PkgPath != "" {
					continue
				}
				walk(v.Field(i), depth+1)
			}
		case reflect.Ptr:
			if v.IsNil() {
				return
			}
			if v.Type().Elem().Kind() == reflect.Struct && v.Type().Elem() != tTUp && v.Type().Elem() != tTUv {
				walk(v.Elem(), depth+1)
				return
			}
			if v.CanSet() {
				ptrs = append(ptrs, v)
			}
		}
	}
	walk(v, 0)
	n := 0
	for i := 0; i < len(ptrs); i++ {
		for j := i + 1; j < len(ptrs); j++ {
			if ptrs[i].Type() == ptrs[j].Type() && r.Chance(1, 2) {
				ptrs[j].Set(ptrs[i])
				n++
			}
		}
	}
	return n
}

// FillIfaceFuncChan sets interface{}-typed fields reachable through structs
// and non-nil pointers to structs to a func, a chan, or leaves them nil.
func FillIfaceFuncChan(r *coqfmt.Rng, v reflect.Value, depth int) int {
	n := 0
	if depth > 6 {
		return 0
	}
	switch v.Kind() {
	case reflect.Struct:
		if v.Type() == tTUp || v.Type() == tTUv {
			return 0
		}
		for i := 0; i < v.NumField(); i++ {
			if v.Type().Field(i).PkgPath != "" {
				continue
			}
			n += FillIfaceFuncChan(r, v.Field(i), depth+1)
		}
	case reflect.Ptr:
		if !v.IsNil() && v.Type().Elem().Kind() == reflect.Struct {
			n += FillIfaceFuncChan(r, v.Elem(), depth+1)
		}
	case reflect.Interface:
		if v.CanSet() && v.NumMethod() == 0 {
			switch r.Intn(3) {
			case 0:
				v.Set(reflect.ValueOf(func() {}))
				n++
			case 1:
				v.Set(reflect.ValueOf(make(chan int)))
				n++
			}
		}
	}
	return n
}
