package rty

// Generators for config struct types whose field names and `dials` tags are
// assembled from known word lists (capitalised words, initialisms of the
// source's list, single letters), so that the checks of the name-deriving
// sources (C11, C12) know which words a name was meant to consist of.
// Nothing in rty.go is changed by this file.

import (
	"fmt"
	"math"
	"math/big"
	"reflect"
	"sort"
	"strings"
	"time"

	"verifharness/internal/coqfmt"
)

// Tok is one token of a generated name: a capitalised word or an initialism.
type Tok struct {
	I bool   `json:"i"`
	S string `json:"s"`
}

// NameDict remembers, per generated string, the tokens it was built from.
type NameDict struct {
	m     map[string][]Tok
	order []string
}

func NewNameDict() *NameDict { return &NameDict{m: map[string][]Tok{}} }

// Add records s -> toks; it reports false when s is already bound to other tokens.
func (d *NameDict) Add(s string, toks []Tok) bool {
	if old, ok := d.m[s]; ok {
		if len(old) != len(toks) {
			return false
		}
		for i := range old {
			if old[i] != toks[i] {
				return false
			}
		}
		return true
	}
	d.m[s] = toks
	d.order = append(d.order, s)
	return true
}

func (d *NameDict) Get(s string) ([]Tok, bool) { t, ok := d.m[s]; return t, ok }

// Words returns the lower-case words s was assembled from.
func (d *NameDict) Words(s string) ([]string, bool) {
	t, ok := d.m[s]
	if !ok {
		return nil, false
	}
	out := make([]string, len(t))
	for i, x := range t {
		out[i] = strings.ToLower(x.S)
	}
	return out, true
}

// Term prints the dictionary as a Coq `list (str * list (bool * str))`.
func (d *NameDict) Term() string {
	parts := make([]string, len(d.order))
	for i, s := range d.order {
		ts := d.m[s]
		tp := make([]string, len(ts))
		for j, t := range ts {
			tp[j] = "(" + coqfmt.Bool(t.I) + ", " + coqfmt.Str(t.S) + ")"
		}
		parts[i] = "(" + coqfmt.Str(s) + ", " + coqfmt.List(tp) + ")"
	}
	return coqfmt.List(parts)
}

var nameVocab = []string{"User", "File", "Port", "Name", "Path", "Is", "As", "Sha256", "Port2", "Key", "Ab", "Docs",
	"Server", "Max", "Conns", "Timeout", "V2", "X1y", "Config", "Id", "Ids", "Db", "Addr", "Level", "Retry"}

var singleLetters = []string{"A", "B", "C", "X", "Y"}

// NamedOpts steer GenNamedStruct.
type NamedOpts struct {
	MaxDepth, MaxWidth               int
	Leaf                             func(r *coqfmt.Rng) reflect.Type // leaf type palette
	Inits                            []string                         // the source's initialism list
	TagNum, TagDen                   int                              // probability of a `dials` tag on a field
	SrcTags                          []string                         // source-specific tag keys (e.g. dialsenv) put on leaves
	SrcTagNum, SrcTagDen             int
	SrcTagGen                        func(r *coqfmt.Rng) string
	AliasKeys                        []string // tag keys that may get a `<key>alias` companion (empty: no aliases)
	AliasNum, AliasDen               int
	Embedded                         bool
	Skipped                          bool
	SingleLetterNum, SingleLetterDen int      // probability of a single-letter token (finding 8 shapes)
	OddTags                          []string // dials tags outside the word styles (only separators, leading/trailing separators, empty)
	OddTagNum, OddTagDen             int      // probability that a tagged field gets one of them
}

// GenName draws a Go field name made of 1-3 tokens.
func GenName(r *coqfmt.Rng, o NamedOpts) (string, []Tok) {
	n := 1 + r.Intn(3)
	if r.Chance(1, 2) {
		n = 1
	}
	toks := make([]Tok, 0, n)
	var sb strings.Builder
	for i := 0; i < n; i++ {
		var t Tok
		switch {
		case o.SingleLetterDen > 0 && r.Chance(o.SingleLetterNum, o.SingleLetterDen):
			t = Tok{I: false, S: coqfmt.Pick(r, singleLetters)}
		case len(o.Inits) > 0 && r.Chance(1, 3):
			t = Tok{I: true, S: coqfmt.Pick(r, o.Inits)}
		default:
			t = Tok{I: false, S: coqfmt.Pick(r, nameVocab)}
		}
		toks = append(toks, t)
		sb.WriteString(t.S)
	}
	return sb.String(), toks
}

// GenTag draws a `dials` tag value from lower-case words in one of several
// styles and returns it with the words it stands for (as tokens).
func GenTag(r *coqfmt.Rng, o NamedOpts) (string, []Tok) {
	n := 1 + r.Intn(3)
	words := make([]string, n)
	for i := range words {
		if len(o.Inits) > 0 && r.Chance(1, 4) {
			words[i] = strings.ToLower(coqfmt.Pick(r, o.Inits))
		} else if o.SingleLetterDen > 0 && r.Chance(o.SingleLetterNum, o.SingleLetterDen) {
			words[i] = strings.ToLower(coqfmt.Pick(r, singleLetters))
		} else {
			words[i] = strings.ToLower(coqfmt.Pick(r, nameVocab))
		}
	}
	style := r.Intn(6)
	toks := make([]Tok, n)
	parts := make([]string, n)
	for i, w := range words {
		switch style {
		case 0, 1, 3: // lower_snake, kebab, lower
			parts[i] = w
		case 2: // UPPER_SNAKE
			parts[i] = strings.ToUpper(w)
		case 4: // lowerCamel
			if i == 0 {
				parts[i] = w
			} else {
				parts[i] = strings.ToUpper(w[:1]) + w[1:]
			}
		default: // UpperCamel
			parts[i] = strings.ToUpper(w[:1]) + w[1:]
		}
		toks[i] = Tok{I: false, S: parts[i]}
	}
	sep := ""
	switch style {
	case 0, 2, 3:
		sep = "_"
	case 1:
		sep = "-"
	}
	return strings.Join(parts, sep), toks
}

// GenNamedStruct draws a random struct type; names go to nd, tags to td.
func GenNamedStruct(r *coqfmt.Rng, o NamedOpts, nd, td *NameDict, depth int) reflect.Type {
	n := 1 + r.Intn(o.MaxWidth)
	fields := make([]reflect.StructField, 0, n)
	used := map[string]bool{}
	for i := 0; i < n; i++ {
		var name string
		for try := 0; ; try++ {
			var toks []Tok
			name, toks = GenName(r, o)
			if try > 20 {
				name = fmt.Sprintf("Fld%d", i)
				toks = []Tok{{I: false, S: name}}
			}
			if !used[name] && !used[name+"_alias9wr876rw3"] && nd.Add(name, toks) {
				break
			}
		}
		used[name] = true
		var sf reflect.StructField
		x := r.Intn(100)
		isLeaf := false
		switch {
		case o.Skipped && x < 4:
			sf = reflect.StructField{Name: "u" + name, PkgPath: "verifharness/gen", Type: o.Leaf(r)}
		case o.Skipped && x < 8:
			sf = reflect.StructField{Name: name, Type: o.Leaf(r), Tag: `dials:"-"`}
		case o.Skipped && x < 10:
			sf = reflect.StructField{Name: name, Type: reflect.TypeOf(make(chan int))}
		case depth < o.MaxDepth && x < 24:
			sf = reflect.StructField{Name: name, Type: GenNamedStruct(r, o, nd, td, depth+1)}
		case depth < o.MaxDepth && x < 36:
			sf = reflect.StructField{Name: name, Type: reflect.PtrTo(GenNamedStruct(r, o, nd, td, depth+1))}
		case o.Embedded && depth < o.MaxDepth && x < 44:
			t := GenNamedStruct(r, o, nd, td, depth+1)
			if r.Chance(1, 2) {
				t = reflect.PtrTo(t)
			}
			sf = reflect.StructField{Name: name, Type: t, Anonymous: true}
		default:
			sf = reflect.StructField{Name: name, Type: o.Leaf(r)}
			isLeaf = true
		}
		var tags []string
		if sf.Tag == "" && sf.PkgPath == "" && len(o.OddTags) > 0 && o.OddTagDen > 0 && r.Chance(o.OddTagNum, o.OddTagDen) {
			tags = append(tags, fmt.Sprintf(`dials:"%s"`, coqfmt.Pick(r, o.OddTags)))
		} else if sf.Tag == "" && sf.PkgPath == "" && o.TagDen > 0 && r.Chance(o.TagNum, o.TagDen) {
			for {
				tag, toks := GenTag(r, o)
				if td.Add(tag, toks) {
					tags = append(tags, fmt.Sprintf(`dials:"%s"`, tag))
					break
				}
			}
		}
		if sf.Tag == "" && sf.PkgPath == "" && len(o.SrcTags) > 0 && o.SrcTagDen > 0 && (isLeaf || r.Chance(1, 4)) && r.Chance(o.SrcTagNum, o.SrcTagDen) {
			for _, k := range o.SrcTags {
				if r.Chance(2, 3) {
					tags = append(tags, fmt.Sprintf(`%s:"%s"`, k, o.SrcTagGen(r)))
				}
			}
		}
		if sf.Tag == "" && sf.PkgPath == "" && !sf.Anonymous && len(o.AliasKeys) > 0 && o.AliasDen > 0 && r.Chance(o.AliasNum, o.AliasDen) {
			for _, k := range o.AliasKeys {
				if r.Chance(1, 2) {
					if k == "dials" {
						for {
							tag, toks := GenTag(r, o)
							if td.Add(tag, toks) {
								tags = append(tags, fmt.Sprintf(`dialsalias:"%s"`, tag))
								break
							}
						}
					} else {
						tags = append(tags, fmt.Sprintf(`%salias:"%s"`, k, o.SrcTagGen(r)))
					}
				}
			}
		}
		if len(tags) > 0 {
			sf.Tag = reflect.StructTag(strings.Join(tags, " "))
		}
		fields = append(fields, sf)
	}
	return reflect.StructOf(fields)
}

// IsTextU reports whether t is one of the palette's TextUnmarshaler structs.
func IsTextU(t reflect.Type) bool { return t == tTUp || t == tTUv }

// TextUTypes returns the palette's TextUnmarshaler struct types (pointer receiver, value receiver).
func TextUTypes() (reflect.Type, reflect.Type) { return tTUp, tTUv }

// ---- named versions of every scalar kind a source supports ----
// (the named types themselves live in rty.go and xform.go; uintptr is added here)

type NUintptr uintptr

// declared (defined) container types of durations: reflect.SliceOf / MapOf cannot make these
type NDurs []time.Duration
type NDurMap map[string]time.Duration

// DurContainers returns the declared duration containers.
func DurContainers() []reflect.Type {
	return []reflect.Type{reflect.TypeOf(NDurs(nil)), reflect.TypeOf(NDurMap(nil))}
}

// Duration is an int64 that merely shares time.Duration's NAME: for every source it is a plain
// integer ("30" is thirty, "1h" is malformed).
type Duration int64

// NamedScalars lists a named type for every scalar kind.  NDur has duration
// KIND only: it is an int64 for every source, not a time.Duration.
func NamedScalars() []reflect.Type {
	return []reflect.Type{
		reflect.TypeOf(NBool(false)), reflect.TypeOf(NName("")),
		reflect.TypeOf(NInt(0)), reflect.TypeOf(NInt8(0)), reflect.TypeOf(NInt16(0)), reflect.TypeOf(NInt32(0)), reflect.TypeOf(NCount(0)),
		reflect.TypeOf(NUint(0)), reflect.TypeOf(NLevel(0)), reflect.TypeOf(NUint16(0)), reflect.TypeOf(NUint32(0)), reflect.TypeOf(NUint64(0)),
		reflect.TypeOf(NUintptr(0)), reflect.TypeOf(NF32(0)), reflect.TypeOf(NF64(0)), reflect.TypeOf(NC64(0)), reflect.TypeOf(NC128(0)),
		reflect.TypeOf(NDur(0)), reflect.TypeOf(Duration(0)),
	}
}

// ---- texts in the grammar of package parse (slices, sets, maps), ASCII ----

var identToks = []string{"a", "b", "ab", "x1", "k", "v", "foo", "bar", "z9", "q", "a.b", "p/q", "h:1", "x+y", "m-n", "$v", "50%", "a b", "A", "0"}
var quotedToks = []string{`"x,y"`, `"q\"uote"`, `"sp ace"`, `""`, "`raw,text`", "`b\\s`", `"tab\there"`, `"\x41é"`, `"k:v"`}
var badToks = []string{`"unterminated`, `"bad\qescape"`, `'c'`, "`open", `"a" "b"`, `\`, `a\b`}

// GenStrElem draws one string element in source form; ok=false: malformed.
func GenStrElem(r *coqfmt.Rng, allowBad bool) (string, bool) {
	switch x := r.Intn(20); {
	case x < 12:
		return coqfmt.Pick(r, identToks), true
	case x < 18:
		return coqfmt.Pick(r, quotedToks), true
	default:
		if allowBad {
			return coqfmt.Pick(r, badToks), false
		}
		return coqfmt.Pick(r, identToks), true
	}
}

// GenListText joins 0-4 elements with commas (blanks around some of them, stray commas rarely).
func GenListText(r *coqfmt.Rng, elem func() string) string {
	n := r.Intn(5)
	var sb strings.Builder
	for i := 0; i < n; i++ {
		if i > 0 {
			sb.WriteString(coqfmt.Pick(r, []string{",", ",", ",", ", ", " ,", ",,"}))
		}
		sb.WriteString(elem())
	}
	if r.Chance(1, 12) {
		return "," + sb.String()
	}
	if r.Chance(1, 12) {
		return sb.String() + ","
	}
	return sb.String()
}

// GenMapText draws "k:v,k2:v2" texts, incl. bare keys, empty values, repeated keys and (rarely) stray colons.
func GenMapText(r *coqfmt.Rng, key, val func() string, allowBad bool) string {
	n := r.Intn(5)
	parts := make([]string, n)
	for i := range parts {
		switch x := r.Intn(12); {
		case x == 0:
			parts[i] = key()
		case x == 1:
			parts[i] = key() + ":"
		case x == 2 && allowBad:
			parts[i] = coqfmt.Pick(r, []string{":" + val(), key() + ":" + val() + ":" + val(), key() + "::" + val()})
		default:
			parts[i] = key() + coqfmt.Pick(r, []string{":", ":", ": ", " :"}) + val()
		}
	}
	return strings.Join(parts, coqfmt.Pick(r, []string{",", ",", ", "}))
}

// Printer prints types and values like TyTerm / ValTerm, except that the types
// Leaf chooses are printed by it as opaque leaves (ok = false: not chosen).
type Printer struct {
	LeafTy  func(reflect.Type) (string, bool)
	LeafVal func(reflect.Value) (string, bool)
}

func (p Printer) TyTerm(t reflect.Type) string {
	if s, ok := p.LeafTy(t); ok {
		return s
	}
	if t == tTUp || t == tTUv {
		return TyTerm(t)
	}
	switch t.Kind() {
	case reflect.Ptr:
		return "(TPtr " + p.TyTerm(t.Elem()) + ")"
	case reflect.Slice:
		return "(TSlice " + p.TyTerm(t.Elem()) + " " + qname(t) + ")"
	case reflect.Array:
		return fmt.Sprintf("(TArray %d %s)", t.Len(), p.TyTerm(t.Elem()))
	case reflect.Map:
		return "(TMap " + p.TyTerm(t.Key()) + " " + p.TyTerm(t.Elem()) + " " + qname(t) + ")"
	case reflect.Struct:
		return "(TStruct " + p.FieldsTerm(t) + " " + qname(t) + ")"
	}
	return TyTerm(t)
}

func (p Printer) FieldsTerm(t reflect.Type) string {
	var b strings.Builder
	n := t.NumField()
	for i := 0; i < n; i++ {
		f := t.Field(i)
		tags := Tags(f.Tag)
		tp := make([]string, len(tags))
		for j, kv := range tags {
			tp[j] = "(" + coqfmt.Str(kv[0]) + ", " + coqfmt.Str(kv[1]) + ")"
		}
		fmt.Fprintf(&b, "(FCons %s %s %s %s ", coqfmt.Str(f.Name), coqfmt.List(tp), coqfmt.Bool(f.Anonymous), p.TyTerm(f.Type))
	}
	b.WriteString("FNil")
	b.WriteString(strings.Repeat(")", n))
	return b.String()
}

func (p Printer) ValTerm(v reflect.Value) string {
	if s, ok := p.LeafVal(v); ok {
		return s
	}
	t := v.Type()
	if t == tTUp || t == tTUv {
		return ValTerm(v)
	}
	switch t.Kind() {
	case reflect.Ptr, reflect.Interface:
		if v.IsNil() {
			return "VNil"
		}
		return "(VPtr " + p.ValTerm(v.Elem()) + ")"
	case reflect.Slice:
		if v.IsNil() {
			return "VNil"
		}
		fallthrough
	case reflect.Array:
		parts := make([]string, v.Len())
		for i := range parts {
			parts[i] = p.ValTerm(v.Index(i))
		}
		return "(VList " + coqfmt.List(parts) + ")"
	case reflect.Map:
		if v.IsNil() {
			return "VNil"
		}
		type kv struct{ k, v string }
		var kvs []kv
		it := v.MapRange()
		for it.Next() {
			kvs = append(kvs, kv{p.ValTerm(it.Key()), p.ValTerm(it.Value())})
		}
		sort.Slice(kvs, func(i, j int) bool { return kvs[i].k < kvs[j].k })
		parts := make([]string, len(kvs))
		for i, e := range kvs {
			parts[i] = "(" + e.k + ", " + e.v + ")"
		}
		return "(VMap " + coqfmt.List(parts) + ")"
	case reflect.Struct:
		return "(VStruct " + p.StructFieldsTerm(v) + ")"
	}
	return ValTerm(v)
}

func (p Printer) StructFieldsTerm(v reflect.Value) string {
	parts := make([]string, v.NumField())
	for i := range parts {
		parts[i] = p.ValTerm(v.Field(i))
	}
	return coqfmt.List(parts)
}

var tTime = reflect.TypeOf(time.Time{})

// TimePrinter prints a time.Time as an opaque leaf: the instant as Unix seconds and nanoseconds; the
// zero instant (what an unset field holds) as the empty text.
var TimePrinter = Printer{
	LeafTy: func(t reflect.Type) (string, bool) {
		if t == tTime {
			return "(TTextU " + coqfmt.Str("time.Time") + " true)", true
		}
		return "", false
	},
	LeafVal: func(v reflect.Value) (string, bool) {
		if v.Type() == tTime {
			if !v.CanInterface() { // in an unexported field: never set
				return "(VText " + coqfmt.Str("") + ")", true
			}
			tm := v.Interface().(time.Time)
			if tm.IsZero() {
				return "(VText " + coqfmt.Str("") + ")", true
			}
			return fmt.Sprintf("(VList [VInt (%d)%%Z; VInt (%d)%%Z])", tm.Unix(), tm.Nanosecond()), true
		}
		return "", false
	},
}

// floatZ: f*1024 as a Coq integer literal, exactly, whatever the magnitude (ValTerm goes through
// int64); an infinity as +-2^2000.
func floatZ(f float64) string {
	if math.IsInf(f, 0) || math.IsNaN(f) {
		if f < 0 {
			return "(-(2 ^ 2000))%Z"
		}
		return "(2 ^ 2000)%Z"
	}
	bf := new(big.Float).SetPrec(2100).SetFloat64(f)
	bf.Mul(bf, big.NewFloat(1024))
	i, _ := bf.Int(nil)
	return "(" + i.String() + ")%Z"
}

// FloatTerm prints a float the way the models carry one: its value times 1024 as an integer.
func FloatTerm(f float64) string { return "(VFloat " + floatZ(f) + ")" }

// TimeTerm prints a time.Time as TimePrinter does.
func TimeTerm(tm time.Time) string {
	s, _ := TimePrinter.LeafVal(reflect.ValueOf(tm))
	return s
}

// ValuePrinter: TimePrinter and ExactFloatPrinter together.
var ValuePrinter = Printer{
	LeafTy: func(t reflect.Type) (string, bool) { return TimePrinter.LeafTy(t) },
	LeafVal: func(v reflect.Value) (string, bool) {
		if s, ok := TimePrinter.LeafVal(v); ok {
			return s, true
		}
		return ExactFloatPrinter.LeafVal(v)
	},
}

// ExactFloatPrinter prints float and complex leaves exactly.
var ExactFloatPrinter = Printer{
	LeafTy: func(reflect.Type) (string, bool) { return "", false },
	LeafVal: func(v reflect.Value) (string, bool) {
		switch v.Kind() {
		case reflect.Float32, reflect.Float64:
			return FloatTerm(v.Float()), true
		case reflect.Complex64, reflect.Complex128:
			c := v.Complex()
			return "(VList [VFloat " + floatZ(real(c)) + "; VFloat " + floatZ(imag(c)) + "])", true
		}
		return "", false
	},
}

// ---- text-unmarshalable leaves of SCALAR kind (an slog.Level-like integer, a string enum) ----

// NSeverity is an integer with names; 0 is unset and has the empty text.
type NSeverity int

var severityNames = []string{"", "DEBUG", "INFO", "WARN", "ERROR"}

func (l *NSeverity) UnmarshalText(b []byte) error {
	for i, n := range severityNames {
		if i > 0 && n == string(b) {
			*l = NSeverity(i)
			return nil
		}
	}
	return fmt.Errorf("unknown severity %q", b)
}

func (l NSeverity) MarshalText() ([]byte, error) {
	if l >= 0 && int(l) < len(severityNames) {
		return []byte(severityNames[l]), nil
	}
	return []byte(fmt.Sprintf("NSeverity(%d)", int(l))), nil
}

// NMode is a string enum: only "fast" and "slow" can be given as text.
type NMode string

func (m *NMode) UnmarshalText(b []byte) error {
	if s := string(b); s == "fast" || s == "slow" {
		*m = NMode(s)
		return nil
	}
	return fmt.Errorf("unknown mode %q", b)
}

func (m NMode) MarshalText() ([]byte, error) { return []byte(m), nil }

var tSeverity, tMode = reflect.TypeOf(NSeverity(0)), reflect.TypeOf(NMode(""))

// EnumTypes returns the two scalar-kind TextUnmarshaler types.
func EnumTypes() []reflect.Type { return []reflect.Type{tSeverity, tMode} }

// EnumPrinter: ValuePrinter plus the enum types as opaque text leaves (their MarshalText).
var EnumPrinter = Printer{
	LeafTy: func(t reflect.Type) (string, bool) {
		if t == tSeverity || t == tMode {
			return "(TTextU " + coqfmt.Str(t.String()) + " true)", true
		}
		return ValuePrinter.LeafTy(t)
	},
	LeafVal: func(v reflect.Value) (string, bool) {
		switch v.Type() {
		case tSeverity:
			b, _ := NSeverity(v.Int()).MarshalText()
			return "(VText " + coqfmt.Str(string(b)) + ")", true
		case tMode:
			return "(VText " + coqfmt.Str(v.String()) + ")", true
		}
		return ValuePrinter.LeafVal(v)
	},
}
