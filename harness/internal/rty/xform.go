// Additions for the transform engine (properties C10, C14, C16, C20): a type
// generator with globally unique field names (so that flattened names do not
// collide by accident), alias tags, set types and named variants of every
// scalar; text generation for string-cast fields.  Add-only: nothing in
// rty.go is changed.
package rty

import (
	"fmt"
	"reflect"
	"strconv"
	"strings"
	"time"

	"verifharness/internal/coqfmt"
)

// named variants of every scalar kind
type (
	NBool   bool
	NInt    int
	NInt8   int8
	NInt16  int16
	NInt32  int32
	NUint   uint
	NUint16 uint16
	NUint32 uint32
	NUint64 uint64
	NF32    float32
	NF64    float64
	NC64    complex64
	NC128   complex128
	NDur    time.Duration
)

var namedOf = map[reflect.Kind]reflect.Type{
	reflect.Bool: reflect.TypeOf(NBool(false)), reflect.Int: reflect.TypeOf(NInt(0)), reflect.Int8: reflect.TypeOf(NInt8(0)),
	reflect.Int16: reflect.TypeOf(NInt16(0)), reflect.Int32: reflect.TypeOf(NInt32(0)), reflect.Int64: reflect.TypeOf(NCount(0)),
	reflect.Uint: reflect.TypeOf(NUint(0)), reflect.Uint8: reflect.TypeOf(NLevel(0)), reflect.Uint16: reflect.TypeOf(NUint16(0)),
	reflect.Uint32: reflect.TypeOf(NUint32(0)), reflect.Uint64: reflect.TypeOf(NUint64(0)),
	reflect.Float32: reflect.TypeOf(NF32(0)), reflect.Float64: reflect.TypeOf(NF64(0)),
	reflect.Complex64: reflect.TypeOf(NC64(0)), reflect.Complex128: reflect.TypeOf(NC128(0)),
	reflect.String: reflect.TypeOf(NName("")),
}

// NamedVariant returns the user-named version of a predeclared scalar type
// (time.Duration and already named types are kept; uintptr has none).
func NamedVariant(t reflect.Type) reflect.Type {
	if t.PkgPath() != "" {
		return t
	}
	if n, ok := namedOf[t.Kind()]; ok {
		return n
	}
	return t
}

// Void is a declared empty struct type; NSet a declared set type.
type Void struct{}
type NSet map[string]struct{}

// TTUp / TTUv expose the two text-unmarshalable palette types.
func TTUp() reflect.Type { return tTUp }
func TTUv() reflect.Type { return tTUv }

// XOpts steer GenXStruct.
type XOpts struct {
	MaxDepth, MaxWidth int
	AliasFamilies      []string // tag families (e.g. "dials", "dialsenv") for which alias tags may be generated
	AliasNum, AliasDen int      // probability that a field gets alias tags
	Named              bool     // every scalar leaf replaced by its named variant
	NamedSome          bool     // the palette's three named scalars appear among the leaves
	Sets               bool
	TextU              bool
	TUv                bool // also the value-receiver TextUnmarshaler
	Embedded           bool
	StructElem         bool
	Maps, Slices       bool
	Arrays             bool
	UserPtrs           bool
	Unexported         bool         // unexported fields (raw types only make sense with them)
	ForceEmptyEmbed    bool         // the first two top-level fields are embedded structs: one with unexported fields only (hoists nothing), one with >= 2 fields
	ForcePrefixPair    bool         // the first top-level field is an embedded struct whose first two fields are (pointer-to-)struct fields named N and N+"Replica"
	Favor              reflect.Type // a scalar type drawn more often (the type the chain's substitution mangler replaces)
	OddNames           bool         // some field names start with a non-ASCII upper-case letter
	OddTagValues       bool         // tag values with quotes, backslashes, blanks, colons, backticks, non-ASCII
	ForceElemEmbed     bool         // the first top-level field is a slice/array of structs whose element embeds a pointer to a struct
	ElemPtrs           bool         // []*struct / [2]*struct fields
	ElemNested         bool         // element structs of slices/arrays/maps may contain struct, *struct and embedded struct fields
	ElemUnexported     bool         // unexported fields inside the element structs of slices/arrays/maps (Pointerify keeps those)
	DialsTags          bool
	Desc               bool // dialsdesc tags
	PoolNames          bool // some realistic CamelCase field names
}

// XGen carries the per-type state of the generator (unique names).
type XGen struct {
	R       *coqfmt.Rng
	O       XOpts
	next    int
	pending string
	un      int
	pool    []string
	// Aliased lists the names of fields that received alias tags.
	Aliased []string
}

var namePool = []string{"Name", "Port", "HTTPPort", "UserID", "Timeout", "LogLevel", "Addr", "Verbose", "Retries",
	"JSONPath", "DBHost", "Region", "Weight", "Ratio", "Labels", "Owner", "Quota", "TLSCert", "Mode", "Shard"}

func NewXGen(r *coqfmt.Rng, o XOpts) *XGen {
	g := &XGen{R: r, O: o}
	g.pool = append(g.pool, namePool...)
	return g
}

// names that differ from a pool name only in case (Go field names are case-sensitive)
var caseVariant = map[string]string{"HTTPPort": "HttpPort", "UserID": "UserId", "JSONPath": "JsonPath",
	"DBHost": "DbHost", "TLSCert": "TlsCert", "Addr": "ADDR", "Mode": "MODE", "Owner": "OWNER"}

func (g *XGen) name() string {
	if g.pending != "" {
		n := g.pending
		g.pending = ""
		return n
	}
	if g.O.PoolNames && len(g.pool) > 0 && g.R.Chance(1, 4) {
		i := g.R.Intn(len(g.pool))
		n := g.pool[i]
		g.pool = append(g.pool[:i:i], g.pool[i+1:]...)
		if v, ok := caseVariant[n]; ok && g.R.Chance(1, 2) {
			g.pending = v // the next field (usually a sibling) differs only in case
		}
		return n
	}
	g.next++
	if g.O.OddNames && g.R.Chance(1, 8) {
		// exported by a NON-ASCII upper-case first letter (rest ASCII)
		return upperX[g.R.Intn(len(upperX))] + fmt.Sprintf("f%d", g.next)
	}
	return fmt.Sprintf("F%d", g.next)
}

var upperX = []string{"Ä", "Ö", "Ü", "É", "Đ", "Ω", "Ж"}

var xbasics = []reflect.Type{
	reflect.TypeOf(false), reflect.TypeOf(int(0)), reflect.TypeOf(int8(0)), reflect.TypeOf(int16(0)),
	reflect.TypeOf(int32(0)), reflect.TypeOf(int64(0)), reflect.TypeOf(uint(0)), reflect.TypeOf(uint8(0)),
	reflect.TypeOf(uint16(0)), reflect.TypeOf(uint32(0)), reflect.TypeOf(uint64(0)),
	reflect.TypeOf(float32(0)), reflect.TypeOf(float64(0)), reflect.TypeOf(complex64(0)), reflect.TypeOf(complex128(0)),
	reflect.TypeOf(""), reflect.TypeOf(""), reflect.TypeOf(int(0)), reflect.TypeOf(time.Duration(0)), reflect.TypeOf(time.Duration(0)),
}

func (g *XGen) basic() reflect.Type {
	r := g.R
	if g.O.Favor != nil && r.Chance(1, 4) {
		return g.O.Favor
	}
	if g.O.NamedSome && r.Chance(1, 6) {
		switch r.Intn(3) {
		case 0:
			return reflect.TypeOf(NLevel(0))
		case 1:
			return reflect.TypeOf(NName(""))
		default:
			return reflect.TypeOf(NCount(0))
		}
	}
	t := xbasics[r.Intn(len(xbasics))]
	if g.O.Named {
		return NamedVariant(t)
	}
	return t
}

func (g *XGen) leaf() reflect.Type {
	r, o := g.R, g.O
	for {
		switch r.Intn(12) {
		case 0, 1, 2, 3, 4:
			return g.basic()
		case 5:
			if o.Slices {
				if r.Chance(1, 5) {
					return reflect.TypeOf(NStrs(nil))
				}
				if r.Chance(1, 5) {
					// a slice nested in a slice, map or array (its inner values may be nil)
					b := g.basic()
					switch r.Intn(3) {
					case 0:
						return reflect.SliceOf(reflect.SliceOf(b))
					case 1:
						return reflect.MapOf(reflect.TypeOf(""), reflect.SliceOf(b))
					default:
						return reflect.ArrayOf(2, reflect.SliceOf(b))
					}
				}
				return reflect.SliceOf(g.basic())
			}
		case 6:
			if o.Maps {
				if r.Chance(1, 5) {
					return reflect.TypeOf(NMap(nil))
				}
				if r.Chance(1, 6) {
					// a composite key type that CONTAINS a substitutable type: both directions of a
					// type substitution have to convert the keys (seeded C10-q)
					k := reflect.Type(reflect.TypeOf(time.Duration(0)))
					if r.Chance(1, 3) {
						k = reflect.TypeOf(int64(0))
					}
					return reflect.MapOf(reflect.ArrayOf(1+r.Intn(2), k), g.basic())
				}
				return reflect.MapOf(reflect.TypeOf(""), g.basic())
			}
		case 7:
			if o.Sets {
				k := g.basic()
				for k.Kind() == reflect.Complex64 || k.Kind() == reflect.Complex128 || k.Kind() == reflect.Float32 || k.Kind() == reflect.Float64 {
					k = g.basic()
				}
				if r.Chance(1, 2) {
					k = reflect.TypeOf("")
				}
				switch r.Intn(6) {
				case 0: // the element type is a DECLARED empty struct: not a set for the set-slice mangler
					return reflect.MapOf(k, reflect.TypeOf(Void{}))
				case 1: // a declared set type
					return reflect.TypeOf(NSet(nil))
				}
				return reflect.MapOf(k, reflect.TypeOf(struct{}{}))
			}
		case 8:
			if o.Arrays {
				return reflect.ArrayOf(1+r.Intn(2), g.basic())
			}
		case 9:
			if o.TextU {
				if o.TUv && r.Chance(1, 4) {
					return tTUv
				}
				if o.Slices && r.Chance(1, 4) {
					// a slice / array of TextUnmarshaler structs (never recursed into)
					if r.Chance(1, 3) {
						return reflect.ArrayOf(2, tTUp)
					}
					return reflect.SliceOf(tTUp)
				}
				return tTUp
			}
		case 10:
			if o.UserPtrs {
				if o.TextU && r.Chance(1, 4) {
					return reflect.PtrTo(tTUp)
				}
				switch r.Intn(8) {
				case 0: // user-declared pointer to a slice / map / pointer
					return reflect.PtrTo(reflect.SliceOf(g.basic()))
				case 1:
					return reflect.PtrTo(reflect.MapOf(reflect.TypeOf(""), g.basic()))
				case 2:
					return reflect.PtrTo(reflect.PtrTo(g.basic()))
				}
				return reflect.PtrTo(g.basic())
			}
		default:
			return g.basic()
		}
	}
}

var oddTagParts = []string{`a"b`, `x\y`, `two words `, `k:v`, `naïve`, `日本`, "a`b", `q'`, `\"`, `tab	`}

func (g *XGen) tags(name string, isStructy bool) reflect.StructTag {
	r, o := g.R, g.O
	var parts []string
	// everything a properly quoted struct tag value can carry: quotes,
	// backslashes, blanks, colons, backticks, non-ASCII
	odd := func(plain string) string {
		if o.OddTagValues && r.Chance(1, 5) {
			return oddTagParts[r.Intn(len(oddTagParts))] + plain
		}
		return plain
	}
	if o.DialsTags && r.Chance(1, 4) {
		parts = append(parts, "dials:"+strconv.Quote(odd("t_"+strings.ToLower(name))))
	}
	if o.Desc && r.Chance(1, 6) {
		parts = append(parts, "dialsdesc:"+strconv.Quote(odd("about "+name)))
	}
	if len(o.AliasFamilies) > 0 && r.Chance(o.AliasNum, o.AliasDen) {
		n := 0
		for _, fam := range o.AliasFamilies {
			if n == 0 && fam == o.AliasFamilies[len(o.AliasFamilies)-1] || r.Chance(1, 2) {
				val := "old_" + strings.ToLower(name)
				if fam != "dials" {
					val = "OLD_" + strings.ToUpper(name) + "_" + strings.ToUpper(strings.TrimPrefix(fam, "dials"))
				}
				parts = append(parts, fam+"alias:"+strconv.Quote(odd(val)))
				if fam != "dials" && r.Chance(1, 2) {
					parts = append(parts, fam+":"+strconv.Quote(odd("CUR_"+strings.ToUpper(name))))
				}
				n++
			}
		}
		g.Aliased = append(g.Aliased, name)
	}
	// random order of the tag keys
	for i := len(parts) - 1; i > 0; i-- {
		j := r.Intn(i + 1)
		parts[i], parts[j] = parts[j], parts[i]
	}
	return reflect.StructTag(strings.Join(parts, " "))
}

// Struct draws a struct type.
func (g *XGen) Struct(depth int) reflect.Type {
	r, o := g.R, g.O
	n := 1 + r.Intn(o.MaxWidth)
	fields := make([]reflect.StructField, 0, n)
	for i := 0; i < n; i++ {
		name := g.name()
		var sf reflect.StructField
		x := r.Intn(100)
		structy := false
		if o.ForceEmptyEmbed && depth == 0 && i == 0 {
			// run-time state only: Pointerify leaves an embedded pointer to an EMPTY struct
			g.un++
			state := reflect.StructOf([]reflect.StructField{
				{Name: fmt.Sprintf("hits%d", g.un), PkgPath: "verifharness/gen", Type: reflect.TypeOf(uint64(0))},
				{Name: fmt.Sprintf("note%d", g.un), PkgPath: "verifharness/gen", Type: reflect.TypeOf("")}})
			fields = append(fields, reflect.StructField{Name: name, Type: state, Anonymous: true})
			save, saveW := g.O.MaxDepth, g.O.MaxWidth
			g.O.MaxDepth = depth + 1
			if g.O.MaxWidth < 3 {
				g.O.MaxWidth = 3
			}
			var later reflect.Type
			for later == nil || later.NumField() < 2 {
				later = g.Struct(depth + 1)
			}
			g.O.MaxDepth, g.O.MaxWidth = save, saveW
			if r.Chance(1, 2) {
				later = reflect.PtrTo(later)
			}
			fields = append(fields, reflect.StructField{Name: g.name(), Type: later, Anonymous: true})
			continue
		}
		if o.ForcePrefixPair && depth == 0 && i == 0 && depth+1 < o.MaxDepth {
			// adjacent nested-struct fields whose names are prefixes of one another
			// (DB / DBReplica), of the same kind, inside an embedded struct
			ptr := r.Chance(1, 2)
			mk := func(n string) reflect.StructField {
				t := g.Struct(depth + 2)
				if ptr {
					t = reflect.PtrTo(t)
				}
				return reflect.StructField{Name: n, Type: t, Tag: g.tags(n, true)}
			}
			inner := []reflect.StructField{mk(name), mk(name + "Replica")}
			rest := g.Struct(depth + 1)
			for j := 0; j < rest.NumField(); j++ {
				inner = append(inner, rest.Field(j))
			}
			et := reflect.StructOf(inner)
			if r.Chance(1, 2) {
				et = reflect.PtrTo(et)
			}
			fields = append(fields, reflect.StructField{Name: g.name(), Type: et, Anonymous: true})
			continue
		}
		forced := o.ForceElemEmbed && depth == 0 && i == 0 && depth < o.MaxDepth
		if forced {
			x = 45
		}
		switch {
		case o.Unexported && x < 6:
			g.un++ // (names that differ only in case would collide after lowering)
			sf = reflect.StructField{Name: fmt.Sprintf("u%s%d", strings.ToLower(name), g.un), PkgPath: "verifharness/gen", Type: g.leaf()}
			fields = append(fields, sf)
			continue
		case depth < o.MaxDepth && x < 22:
			sf = reflect.StructField{Name: name, Type: g.Struct(depth + 1)}
			structy = true
		case depth < o.MaxDepth && x < 34:
			sf = reflect.StructField{Name: name, Type: reflect.PtrTo(g.Struct(depth + 1))}
			structy = true
		case o.Embedded && depth < o.MaxDepth && x < 42:
			t := g.Struct(depth + 1)
			if r.Chance(1, 8) {
				// only unexported (run-time) state: nothing to hoist
				g.un++
				t = reflect.StructOf([]reflect.StructField{
					{Name: fmt.Sprintf("state%d", g.un), PkgPath: "verifharness/gen", Type: reflect.TypeOf(uint64(0))}})
			}
			if r.Chance(1, 2) {
				t = reflect.PtrTo(t)
			}
			sf = reflect.StructField{Name: name, Type: t, Anonymous: true}
			structy = true
		case o.StructElem && depth < o.MaxDepth && x < 50:
			save, saveU := g.O.MaxDepth, g.O.Unexported
			g.O.MaxDepth = depth + 1 // shallow element struct
			if g.O.ElemNested && r.Chance(1, 2) {
				// one more level inside the element: struct, *struct and embedded
				// (pointer) struct fields of elements (never pointerified)
				g.O.MaxDepth = depth + 2
			}
			g.O.Unexported = saveU || (g.O.ElemUnexported && r.Chance(1, 2))
			el := g.Struct(depth + 1)
			if forced || g.O.ElemNested && g.O.Embedded && r.Chance(1, 3) {
				// the element embeds a pointer to a struct of leaves (its promoted
				// fields are plain, non-pointerified scalars)
				g.O.MaxDepth = depth + 1
				inner := g.Struct(depth + 1)
				fs := make([]reflect.StructField, 0, el.NumField()+1)
				for i := 0; i < el.NumField(); i++ {
					fs = append(fs, el.Field(i))
				}
				fs = append(fs, reflect.StructField{Name: g.name(), Type: reflect.PtrTo(inner), Anonymous: true})
				el = reflect.StructOf(fs)
			}
			g.O.MaxDepth, g.O.Unexported = save, saveU
			kind := r.Intn(4)
			if forced && kind == 3 {
				kind = 0
			}
			if !forced && g.O.ElemPtrs && r.Chance(1, 4) {
				// a list of POINTERS to structs (nil elements occur): no transformer
				// recurses into it, it is a leaf for every mangler
				el = reflect.PtrTo(el)
				if kind == 3 {
					kind = 0
				}
			}
			switch kind {
			case 0, 1:
				sf = reflect.StructField{Name: name, Type: reflect.SliceOf(el)}
			case 2:
				sf = reflect.StructField{Name: name, Type: reflect.ArrayOf(2, el)}
			default:
				sf = reflect.StructField{Name: name, Type: reflect.MapOf(reflect.TypeOf(""), el)}
			}
		default:
			sf = reflect.StructField{Name: name, Type: g.leaf()}
		}
		if sf.Anonymous && !r.Chance(1, 6) {
			// alias tags on embedded fields only rarely (they have no name to alias)
			fam := g.O.AliasFamilies
			g.O.AliasFamilies = nil
			sf.Tag = g.tags(name, structy)
			g.O.AliasFamilies = fam
		} else {
			sf.Tag = g.tags(name, structy)
		}
		fields = append(fields, sf)
	}
	return reflect.StructOf(fields)
}

// ---- text for string-cast fields ----

func textScalar(r *coqfmt.Rng, t reflect.Type) string {
	if t == reflect.TypeOf(time.Duration(0)) {
		return []string{"3s", "1h2m", "250ms", "0s", "-5m", "1.5h", "7"}[r.Intn(7)]
	}
	switch t.Kind() {
	case reflect.Bool:
		return []string{"true", "false", "1", "0", "T", "yes"}[r.Intn(6)]
	case reflect.Int, reflect.Int8, reflect.Int16, reflect.Int32, reflect.Int64:
		switch r.Intn(8) {
		case 0:
			return strconv.FormatInt(int64(r.U64()), 10)
		case 1:
			return "0x1f"
		case 2:
			return "200"
		default:
			return strconv.Itoa(r.Intn(250) - 125)
		}
	case reflect.Uint, reflect.Uint8, reflect.Uint16, reflect.Uint32, reflect.Uint64, reflect.Uintptr:
		switch r.Intn(8) {
		case 0:
			return strconv.FormatUint(r.U64(), 10)
		case 1:
			return "-1"
		case 2:
			return "300"
		default:
			return strconv.Itoa(r.Intn(250))
		}
	case reflect.Float32, reflect.Float64:
		return strconv.FormatFloat(float64(r.Intn(2000)-1000)/8, 'f', -1, 64)
	case reflect.Complex64, reflect.Complex128:
		return fmt.Sprintf("%v+%vi", float64(r.Intn(64))/4, float64(r.Intn(64))/4)
	case reflect.String:
		return []string{"abc", "x", "hello", "a_b", "v1"}[r.Intn(5)]
	}
	return "x"
}

// TextFor draws a text that parse.String mostly accepts for type t.
func TextFor(r *coqfmt.Rng, t reflect.Type) string {
	if r.Chance(1, 12) {
		return []string{"", "!!", "abc", "1,,2", "\"", "9999999999999999999999"}[r.Intn(6)]
	}
	switch t.Kind() {
	case reflect.Slice:
		n := 1 + r.Intn(3)
		parts := make([]string, n)
		for i := range parts {
			parts[i] = textScalar(r, t.Elem())
		}
		return strings.Join(parts, ",")
	case reflect.Map:
		n := 1 + r.Intn(3)
		parts := make([]string, n)
		for i := range parts {
			k := fmt.Sprintf("k%d", i)
			if t.Key().Kind() != reflect.String {
				k = strconv.Itoa(i + 1)
			}
			if t.Elem().Kind() == reflect.Struct {
				parts[i] = k
			} else {
				parts[i] = k + ":" + textScalar(r, t.Elem())
			}
		}
		return strings.Join(parts, ",")
	}
	return textScalar(r, t)
}

// TextForValid draws a text that parse.String accepts for type t (scalars in
// the range of every width, well-formed lists and maps).
func TextForValid(r *coqfmt.Rng, t reflect.Type) string {
	sc := func(t reflect.Type) string {
		if t == reflect.TypeOf(time.Duration(0)) {
			return []string{"3s", "1h2m", "250ms", "0s", "-5m", "1.5h"}[r.Intn(6)]
		}
		switch t.Kind() {
		case reflect.Bool:
			return []string{"true", "false", "1", "0", "T"}[r.Intn(5)]
		case reflect.Int, reflect.Int8, reflect.Int16, reflect.Int32, reflect.Int64:
			return strconv.Itoa(r.Intn(200) - 100)
		case reflect.Uint, reflect.Uint8, reflect.Uint16, reflect.Uint32, reflect.Uint64, reflect.Uintptr:
			return strconv.Itoa(r.Intn(200))
		}
		return textScalar(r, t)
	}
	switch t.Kind() {
	case reflect.Slice:
		n := 1 + r.Intn(3)
		parts := make([]string, n)
		for i := range parts {
			parts[i] = sc(t.Elem())
		}
		return strings.Join(parts, ",")
	case reflect.Map:
		n := 1 + r.Intn(3)
		parts := make([]string, n)
		for i := range parts {
			k := fmt.Sprintf("k%d", i)
			if t.Key().Kind() != reflect.String {
				k = strconv.Itoa(i + 1)
			}
			if t.Elem().Kind() == reflect.Struct {
				parts[i] = k
			} else {
				parts[i] = k + ":" + sc(t.Elem())
			}
		}
		return strings.Join(parts, ",")
	}
	return sc(t)
}
