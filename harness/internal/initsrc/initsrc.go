// Package initsrc reads var commonInitialisms out of the dials source tree.
package initsrc

import (
	"fmt"
	"go/ast"
	"go/parser"
	"go/token"
	"os"
	"strconv"
)

// RepoRoot is /repo unless VERIF_REPO points at a scratch worktree.
func RepoRoot() string {
	if r := os.Getenv("VERIF_REPO"); r != "" {
		return r
	}
	return "/repo"
}

func Load() ([]string, error) {
	File := RepoRoot() + "/tagformat/caseconversion/case_conversion.go"
	fset := token.NewFileSet()
	f, err := parser.ParseFile(fset, File, nil, 0)
	if err != nil {
		return nil, err
	}
	var out []string
	found := false
	ast.Inspect(f, func(n ast.Node) bool {
		vs, ok := n.(*ast.ValueSpec)
		if !ok || len(vs.Names) != 1 || vs.Names[0].Name != "commonInitialisms" || len(vs.Values) != 1 {
			return true
		}
		cl, ok := vs.Values[0].(*ast.CompositeLit)
		if !ok {
			return true
		}
		found = true
		for _, e := range cl.Elts {
			bl, ok := e.(*ast.BasicLit)
			if !ok {
				continue
			}
			s, err := strconv.Unquote(bl.Value)
			if err == nil {
				out = append(out, s)
			}
		}
		return false
	})
	if !found {
		return nil, fmt.Errorf("commonInitialisms not found in %s", File)
	}
	return out, nil
}
