// Package textgen holds what the text harnesses (c15, c16) share: the string
// grammar biased to the runes that are special to dials' splitters, the
// projection of parse.String results to Coq terms, and the type codes.
package textgen

import (
	"fmt"
	"reflect"
	"regexp"
	"sort"
	"strconv"
	"strings"
	"time"
	"unicode"
	"unicode/utf8"

	"verifharness/internal/coqfmt"
)

// RawByteBase mirrors Dials.Text.Quote.raw_byte_base: a byte b >= 0x80 that is
// not part of a valid UTF-8 sequence is shown to Coq as RawByteBase + b.
const RawByteBase = 0x110000

// StrBytes prints a Go string as a rune list, invalid bytes as pseudo runes.
func StrBytes(s string) string {
	var b strings.Builder
	b.WriteString("[")
	first := true
	for i := 0; i < len(s); {
		r, w := utf8.DecodeRuneInString(s[i:])
		v := int(r)
		if r == utf8.RuneError && w == 1 {
			v = RawByteBase + int(s[i])
		}
		if !first {
			b.WriteString("; ")
		}
		first = false
		fmt.Fprintf(&b, "%d", v)
		i += w
	}
	b.WriteString("]")
	return b.String()
}

// Printable lists the non-ASCII runes of the given strings that
// unicode.IsPrint accepts (the model's IsPrint table for the case).
var uEscape = regexp.MustCompile(`\\u[0-9a-fA-F]{4}|\\U[0-9a-fA-F]{8}`)

func Printable(ss ...string) string {
	seen := map[rune]bool{}
	var parts []string
	// runes written as \uNNNN / \UNNNNNNNN escapes reach the scanner again when a quoted element
	// is itself parsed as a collection (nested slices, slices of sets): include them
	for _, s := range ss {
		for _, m := range uEscape.FindAllString(s, -1) {
			if v, err := strconv.ParseUint(m[2:], 16, 32); err == nil && utf8.ValidRune(rune(v)) {
				ss = append(ss, string(rune(v)))
			}
		}
	}
	for _, s := range ss {
		for _, r := range s {
			if r >= 128 && !seen[r] && unicode.IsPrint(r) {
				seen[r] = true
				parts = append(parts, strconv.Itoa(int(r)))
			}
		}
	}
	return coqfmt.List(parts)
}

const specialRunes = ",:\"\\'` \t\n\r"

// Special reports whether some string contains a rune that is special to the
// scanner, a control character or a non-ASCII rune.
func Special(ss ...string) bool {
	for _, s := range ss {
		for _, r := range s {
			if r < 32 || r >= 127 || strings.ContainsRune(specialRunes, r) {
				return true
			}
		}
	}
	return false
}

// ---- type codes ----

// user-defined named types: parse.String goes by kind, except for its exact-type tests
// ([]string, map[string][]string, map[string]struct{}, time.Duration)
type Label string
type Names []string
type Level uint8
type Env map[string]string
type MyDur time.Duration
type MySet map[string]struct{}

var atoms = map[string]struct {
	t    reflect.Type
	term string
}{
	"str": {reflect.TypeOf(""), "TStr"}, "bool": {reflect.TypeOf(false), "TBool"},
	"i8": {reflect.TypeOf(int8(0)), "(TInt I8)"}, "i16": {reflect.TypeOf(int16(0)), "(TInt I16)"},
	"i32": {reflect.TypeOf(int32(0)), "(TInt I32)"}, "i64": {reflect.TypeOf(int64(0)), "(TInt I64)"},
	"int": {reflect.TypeOf(int(0)), "(TInt IInt)"},
	"u8":  {reflect.TypeOf(uint8(0)), "(TUint U8)"}, "u16": {reflect.TypeOf(uint16(0)), "(TUint U16)"},
	"u32": {reflect.TypeOf(uint32(0)), "(TUint U32)"}, "u64": {reflect.TypeOf(uint64(0)), "(TUint U64)"},
	"uint": {reflect.TypeOf(uint(0)), "(TUint UInt)"}, "uptr": {reflect.TypeOf(uintptr(0)), "(TUint UPtr)"},
	"dur":   {reflect.TypeOf(time.Duration(0)), "TDur"},
	"lbl":   {reflect.TypeOf(Label("")), "(TNamed TStr)"},
	"names": {reflect.TypeOf(Names{}), "(TNamed (TSlice TStr))"},
	"lvl":   {reflect.TypeOf(Level(0)), "(TNamed (TUint U8))"},
	"nenv":  {reflect.TypeOf(Env{}), "(TNamed (TMap TStr TStr))"},
	"ndur":  {reflect.TypeOf(MyDur(0)), "(TNamed TDur)"},
	"nset":  {reflect.TypeOf(MySet{}), "(TNamed TSet)"},
	"other": {reflect.TypeOf((*int)(nil)), "TOther"},
	"set":   {reflect.TypeOf(map[string]struct{}{}), "TSet"},
	"mss":   {reflect.TypeOf(map[string][]string{}), "TMss"},
}

// ParseTy turns a type code (str, i8, sl:<t>, map:<atom>:<atom>, set, mss, other ...)
// into the Go type and the Coq term of Dials.Text.ParseString.ty.
func ParseTy(code string) (reflect.Type, string) {
	toks := strings.Split(code, ":")
	t, term, rest := parseTy(toks)
	if len(rest) != 0 {
		panic("bad type code " + code)
	}
	return t, term
}

func parseTy(toks []string) (reflect.Type, string, []string) {
	if len(toks) == 0 {
		panic("empty type code")
	}
	switch toks[0] {
	case "sl":
		e, term, rest := parseTy(toks[1:])
		return reflect.SliceOf(e), "(TSlice " + term + ")", rest
	case "map":
		k, kt, rest := parseTy(toks[1:])
		v, vt, rest2 := parseTy(rest)
		return reflect.MapOf(k, v), "(TMap " + kt + " " + vt + ")", rest2
	}
	a, ok := atoms[toks[0]]
	if !ok {
		panic("bad type atom " + toks[0])
	}
	return a.t, a.term, toks[1:]
}

var setType = reflect.TypeOf(map[string]struct{}{})
var mssType = reflect.TypeOf(map[string][]string{})

// Pval projects a value returned by parse.String to a Coq term of type pval.
func Pval(v reflect.Value) string {
	if v.Kind() == reflect.Ptr {
		v = v.Elem()
	}
	switch v.Kind() {
	case reflect.String:
		return "(VStr " + StrBytes(v.String()) + ")"
	case reflect.Bool:
		return "(VBool " + coqfmt.Bool(v.Bool()) + ")"
	case reflect.Int, reflect.Int8, reflect.Int16, reflect.Int32, reflect.Int64:
		return fmt.Sprintf("(VInt (%d)%%Z)", v.Int())
	case reflect.Uint, reflect.Uint8, reflect.Uint16, reflect.Uint32, reflect.Uint64, reflect.Uintptr:
		return fmt.Sprintf("(VInt (%d)%%Z)", v.Uint())
	case reflect.Slice:
		parts := make([]string, v.Len())
		for i := range parts {
			parts[i] = Pval(v.Index(i))
		}
		return "(VList " + coqfmt.List(parts) + ")"
	case reflect.Map:
		switch v.Type() {
		case setType:
			keys := make([]string, 0, v.Len())
			for _, k := range v.MapKeys() {
				keys = append(keys, k.String())
			}
			sort.Strings(keys)
			parts := make([]string, len(keys))
			for i, k := range keys {
				parts[i] = StrBytes(k)
			}
			return "(VSet " + coqfmt.List(parts) + ")"
		case mssType:
			m := v.Interface().(map[string][]string)
			keys := make([]string, 0, len(m))
			for k := range m {
				keys = append(keys, k)
			}
			sort.Strings(keys)
			parts := make([]string, len(keys))
			for i, k := range keys {
				vs := make([]string, len(m[k]))
				for j, x := range m[k] {
					vs[j] = StrBytes(x)
				}
				parts[i] = "(" + StrBytes(k) + ", " + coqfmt.List(vs) + ")"
			}
			return "(VMss " + coqfmt.List(parts) + ")"
		}
		var parts []string
		for _, k := range v.MapKeys() {
			parts = append(parts, "("+Pval(k)+", "+Pval(v.MapIndex(k))+")")
		}
		sort.Strings(parts)
		return "(VMap " + coqfmt.List(parts) + ")"
	}
	panic("textgen.Pval: unsupported kind " + v.Kind().String())
}

// ---- the string grammar ----

type Gen struct{ r *coqfmt.Rng }

func New(r *coqfmt.Rng) *Gen { return &Gen{r: r} }

var plain = []rune("abcdefghijklmnopqrstuvwxyzABCXYZ0123456789")
var specials = []rune{',', ',', ':', ':', '"', '"', '\\', '\\', '`', '\'', ' ', ' ', '\t', '\n', '\r',
	0, 1, 7, 8, 11, 12, 27, 127, '.', '-', '/', '+', '$', '%', '_', '{', '}', '[', ']', '#', '=', '~', 'x', 'u', 'n'}
var nonASCII = []rune{0xe9, 0x4e16, 0xa0, 0xfeff, 0x2028, 0x85, 0x1f600, 0xfffd, 0x301, 0x200b, 0xe000,
	0x10ffff, 0xa3, 0xa5, 0x3000, 0xad, 0x7ff, 0x800, 0xffff, 0x10000}

func (g *Gen) Rune() rune {
	switch x := g.r.Intn(100); {
	case x < 45:
		return coqfmt.Pick(g.r, plain)
	case x < 85:
		return coqfmt.Pick(g.r, specials)
	default:
		return coqfmt.Pick(g.r, nonASCII)
	}
}

// String is a value of the quantifier "all strings": short, any rune.
func (g *Gen) String() string {
	n := g.r.Intn(7)
	switch x := g.r.Intn(20); {
	case x == 0:
		n = 0
	case x == 1:
		n = 8 + g.r.Intn(24)
	}
	rs := make([]rune, n)
	for i := range rs {
		rs[i] = g.Rune()
	}
	return string(rs)
}

// Size of a collection: 0-20, small sizes favoured.
func (g *Gen) Size() int {
	switch x := g.r.Intn(10); {
	case x == 0:
		return 0
	case x < 3:
		return 1
	case x < 8:
		return 2 + g.r.Intn(4)
	}
	return 6 + g.r.Intn(15)
}

func (g *Gen) Strings(n int) []string {
	out := make([]string, n)
	for i := range out {
		out[i] = g.String()
	}
	return out
}

// Distinct returns up to n distinct strings.
func (g *Gen) Distinct(n int) []string {
	seen := map[string]bool{}
	out := []string{}
	for i := 0; i < n; i++ {
		s := g.String()
		if !seen[s] {
			seen[s] = true
			out = append(out, s)
		}
	}
	return out
}

// BoundaryEscapes are escape sequences at and beyond the validity boundaries: text/scanner checks only
// the shape of an escape, strconv.Unquote also its value
var BoundaryEscapes = []string{`\377`, `\400`, `\777`, `\378`, `\ud7ff`, `\ud800`, `\udbff`, `\udfff`, `\ue000`, `\U0010FFFF`, `\U00110000`,
	`\UFFFFFFFF`, `\U0000D800`, `\x7f`, `\x80`, `\xff`, `\x4`, `\xg0`, `\u12`, `\u123g`, `\U0001F60`, `\0`, `\08`, `\8`, `\q`, `\'`, `\ `, `\`,
	`\x`, `\u`, `\U`, `\1`, `\12`, `\"`, `\\`, `\a\b\f\n\r\t\v`, `\u0000`, `\x00`, `\000`}

var oddEscapes = []string{`\x41`, `\101`, `é`, `\U0001F600`, `\q`, `\400`, `\377`, `\ud800`, `\U00110000`,
	`\'`, `\xZZ`, `\x4`, `\u12`, `\0`, `\08`, `\xe9`, `\xc3\xa9`, `\n`, `\"`, `\\`, `\a\b\f\r\t\v`, `\u0000`, `\x00`}

// QuotedText is an argument for strconv.Unquote: mostly a well-formed quoted
// string, often with hand-written escapes, sometimes damaged.
func (g *Gen) QuotedText() string {
	s := g.String()
	var q string
	switch x := g.r.Intn(10); {
	case x < 5:
		q = strconv.Quote(s)
	case x < 7:
		q = "`" + strings.ReplaceAll(s, "`", "\r") + "`"
	default: // unescaped (single-quoted literals are never passed to Unquote by dials and are not modelled)
		q = `"` + s + `"`
	}
	for g.r.Chance(1, 2) && len(q) >= 2 {
		i := 1 + g.r.Intn(len(q)-1)
		for !utf8.RuneStart(q[i]) {
			i--
		}
		q = q[:i] + coqfmt.Pick(g.r, oddEscapes) + q[i:]
	}
	switch g.r.Intn(12) {
	case 0:
		q = q[:len(q)-1]
	case 1:
		q += g.String()
	case 2:
		if len(q) > 0 {
			q = q[1:]
		}
	}
	return q
}

var boolWords = []string{"1", "t", "T", "TRUE", "true", "True", "0", "f", "F", "FALSE", "false", "False", "yes", "tRUE", ""}

func (g *Gen) ident() string {
	const al = "abcxyzABC019.-/+$%_ :é"
	rs := []rune(al)
	n := 1 + g.r.Intn(5)
	out := make([]rune, n)
	for i := range out {
		out[i] = rs[g.r.Intn(len(rs))]
	}
	return string(out)
}

// element renders one item the way a user might write it on a command line
func (g *Gen) element(code string) string {
	switch {
	case strings.Contains(code, "dur") && g.r.Chance(3, 4):
		return g.DurationText()
	case strings.Contains(code, "bool") && g.r.Chance(1, 2):
		return coqfmt.Pick(g.r, boolWords)
	case strings.ContainsAny(code, "0123456789") && g.r.Chance(3, 4): // an integer width is mentioned
		return coqfmt.Pick(g.r, []string{"0", "1", "-1", "127", "128", "-128", "-129", "255", "256", "0x7f", "0b101",
			"0o17", "017", "1_0", "65535", "65536", "+5", "18446744073709551615", "18446744073709551616", " 7", "7 ", "1e3", "0x", "_1"})
	}
	s := g.String()
	switch x := g.r.Intn(14); {
	case x < 5:
		return strconv.Quote(s)
	case x < 7:
		return "`" + strings.ReplaceAll(s, "`", "") + "`"
	case x < 10:
		return g.ident()
	case x < 11:
		return "'" + coqfmt.Pick(g.r, []string{"a", "ab", "", `\n`, `\'`, "é", `\x41`}) + "'"
	default:
		if g.r.Chance(1, 3) {
			return strconv.Quote(s) + coqfmt.Pick(g.r, oddEscapes)
		}
		// a boundary escape INSIDE the quotes (at the start, in the middle or right before the closing quote)
		q := strconv.Quote(s)
		e := coqfmt.Pick(g.r, BoundaryEscapes)
		switch g.r.Intn(3) {
		case 0:
			return q[:1] + e + q[1:]
		case 1:
			return q[:len(q)-1] + e + q[len(q)-1:]
		}
		i := 1 + g.r.Intn(len(q)-1)
		for !utf8.RuneStart(q[i]) {
			i--
		}
		if i > 1 && q[i-1] == '\\' { // do not split an escape of the quoted text
			i--
		}
		return q[:i] + e + q[i:]
	}
}

func (g *Gen) sep(s string) string {
	switch g.r.Intn(8) {
	case 0:
		return " " + s
	case 1:
		return s + " "
	case 2:
		return " " + s + " "
	case 3:
		return s + "\t"
	}
	return s
}

// RawText is text for parse.String at the type with the given code:
// structured, mostly valid input plus a malformed stream.
func (g *Gen) RawText(code string) string {
	if g.r.Chance(1, 8) { // anything
		return g.String()
	}
	isMap := strings.HasPrefix(code, "map") || code == "mss" || strings.HasSuffix(code, "map:str:str")
	if !strings.Contains(code, "sl") && !isMap && code != "set" {
		return g.element(code)
	}
	n := g.Size() % 6
	var b strings.Builder
	for i := 0; i < n; i++ {
		if i > 0 {
			b.WriteString(g.sep(coqfmt.Pick(g.r, []string{",", ",", ",", ",", ",", ",,", ":", ""})))
		}
		b.WriteString(g.element(code))
		if isMap && !g.r.Chance(1, 8) {
			b.WriteString(g.sep(coqfmt.Pick(g.r, []string{":", ":", ":", ":", ":", "::", ",", ""})))
			if !g.r.Chance(1, 10) {
				b.WriteString(g.element(code))
			}
		}
	}
	s := b.String()
	if g.r.Chance(1, 10) && len(s) > 0 { // damage
		i := g.r.Intn(len(s))
		for !utf8.RuneStart(s[i]) {
			i--
		}
		s = s[:i] + string(g.Rune()) + s[i:]
	}
	if g.r.Chance(1, 15) {
		s += coqfmt.Pick(g.r, []string{",", ":", " ", "\"", "`", "\\"})
	}
	return s
}

// ASCIIOnly maps every non-ASCII rune of s to '~'.
func ASCIIOnly(s string) string {
	return strings.Map(func(r rune) rune {
		if r >= 128 {
			return '~'
		}
		return r
	}, s)
}

var durUnits = []string{"ns", "us", "µs", "μs", "ms", "s", "m", "h", "s", "m", "h", "d", "sec", "", "S", "hs"}

// DurationText is an argument for time.ParseDuration: mostly well-formed
// ([-+]?([0-9]*(\.[0-9]*)?unit)+), with values around the int64 edges, some malformed.
func (g *Gen) DurationText() string {
	r := g.r
	if r.Chance(1, 10) {
		return coqfmt.Pick(r, []string{"", "0", "+0", "-0", "+", "-", ".", ".s", "-.s", "1", "1.", "s", "1.s", ".5s", "1h-1m", "1 h", " 1h", "1h ",
			"9223372036854775808ns9223372036854775808ns", "4611686018427387904ns4611686018427387904ns", "-4611686018427387904ns4611686018427387904ns",
			"9223372036854775807ns", "9223372036854775808ns", "-9223372036854775808ns", "-9223372036854775809ns", "2562047h47m16.854775807s",
			"2562047h47m16.854775808s", "-2562047h47m16.854775808s", "2562048h", "153722867m", "153722868m", "9223372036s", "9223372037s",
			"0.3333333333333333333h", "1.0000000000000000000000001s", "0.000000001s", "0.0000000001s", "1e3s", "0x1s", "1_0s", "١s", "1h1h", "1.5.5s",
			"99999999999999999999ns", "0.99999999999999999999h", "9223372036854.775808ms", "9223372036854775.808us"})
	}
	var b strings.Builder
	switch r.Intn(6) {
	case 0:
		b.WriteByte('-')
	case 1:
		b.WriteByte('+')
	}
	n := 1 + r.Intn(3)
	for i := 0; i < n; i++ {
		switch x := r.Intn(10); {
		case x < 6:
			b.WriteString(strconv.Itoa(r.Intn(1000)))
		case x < 8:
			b.WriteString(strconv.FormatUint(r.U64()>>uint(r.Intn(64)), 10))
		case x < 9:
			b.WriteString(coqfmt.Pick(r, []string{"2562047", "2562048", "153722867", "9223372036", "9223372036854", "9223372036854775807", "9223372036854775808"}))
		}
		if r.Chance(1, 3) {
			b.WriteByte('.')
			k := r.Intn(10)
			if r.Chance(1, 8) {
				k = 10 + r.Intn(15) // more digits than a unit has: float step may be inexact
			}
			for j := 0; j < k; j++ {
				b.WriteByte(byte('0' + r.Intn(10)))
			}
		}
		b.WriteString(coqfmt.Pick(r, durUnits))
	}
	return b.String()
}
