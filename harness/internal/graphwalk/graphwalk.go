// Package graphwalk turns Go object graphs into Coq terms of Dials.Reflect.Heap
// (hv / obj / heap): a reflect walker that follows pointers, maps, slices and
// interface values through EXPORTED fields only and numbers every pointee,
// map object and slice backing array in order of first visit.  One Walker can
// walk several roots one after the other; the numbering is then joint, so a
// reference from a later root into the memory of an earlier one shows up as a
// small number (this is how aliasing between an input and an output is seen).
//
// Slices: overlapping slice headers (same element type) are grouped into one
// backing-array object; a slice is printed as (array, offset, len, cap).
// Call Scan on every root of a phase and then Freeze before calling Term, so
// that the groups are known.  Slices of capacity 0 own no memory and get an
// array of their own per occurrence; so do pointers to zero-sized values.
package graphwalk

import (
	"fmt"
	"reflect"
	"sort"
	"strings"

	"verifharness/internal/coqfmt"
	"verifharness/internal/rty"
)

type kind int

const (
	kCell kind = iota
	kMap
	kOpaque
)

type key struct {
	k kind
	p uintptr
}

type ivKey struct {
	p   uintptr
	cap int
	t   reflect.Type
}

type interval struct {
	lo, hi uintptr
	val    reflect.Value // s[0:cap]
	group  int
}

type group struct {
	id      int // heap address; -1 until first printed
	lo, hi  uintptr
	es      uintptr
	t       reflect.Type
	members []int
}

// Walker holds the joint numbering.
type Walker struct {
	Split bool // every slice occurrence is its own array holding its window (no Scan needed)

	ids      map[key]int
	opaque   map[key]int
	next     int
	objs     []string
	ivs      []interval
	ivIndex  map[ivKey]int
	groups   []*group
	frozen   int
	tags     map[reflect.Type]int
	scanSeen map[key]bool
	Touched  map[int]bool
}

func New() *Walker {
	return &Walker{ids: map[key]int{}, opaque: map[key]int{}, ivIndex: map[ivKey]int{}, tags: map[reflect.Type]int{},
		scanSeen: map[key]bool{}, Touched: map[int]bool{}}
}

// Next is the number the next new object will get.
func (w *Walker) Next() int { return w.next }

// Objs returns the heap entries printed so far from index `from` on, as a Coq list body.
func (w *Walker) Objs(from int) []string { return w.objs[from:] }

// NumObjs is the number of heap entries printed so far.
func (w *Walker) NumObjs() int { return len(w.objs) }

// PtrID returns the number of the pointee of the non-nil pointer v (after Term has seen it).
func (w *Walker) PtrID(v reflect.Value) int {
	id, ok := w.ids[key{kCell, v.Pointer()}]
	if !ok {
		panic("graphwalk: pointer not walked")
	}
	return id
}

// TouchedList returns the numbers referenced since the last ResetTouched.
func (w *Walker) TouchedList() []int {
	out := make([]int, 0, len(w.Touched))
	for id := range w.Touched {
		out = append(out, id)
	}
	sort.Ints(out)
	return out
}

// ResetTouched forgets which objects were referenced.
func (w *Walker) ResetTouched() { w.Touched = map[int]bool{} }

// Scan collects the slice headers reachable from v.
func (w *Walker) Scan(v reflect.Value) {
	if !v.IsValid() {
		return
	}
	switch v.Kind() {
	case reflect.Ptr:
		if v.IsNil() {
			return
		}
		k := key{kCell, v.Pointer()}
		if w.scanSeen[k] && v.Type().Elem().Size() != 0 {
			return
		}
		w.scanSeen[k] = true
		w.Scan(v.Elem())
	case reflect.Map:
		if v.IsNil() {
			return
		}
		k := key{kMap, v.Pointer()}
		if w.scanSeen[k] {
			return
		}
		w.scanSeen[k] = true
		it := v.MapRange()
		for it.Next() {
			w.Scan(it.Key())
			w.Scan(it.Value())
		}
	case reflect.Slice:
		if v.IsNil() || v.Cap() == 0 {
			return
		}
		ik := ivKey{v.Pointer(), v.Cap(), v.Type().Elem()}
		if _, ok := w.ivIndex[ik]; ok {
			return
		}
		es := v.Type().Elem().Size()
		full := v.Slice(0, v.Cap())
		w.ivIndex[ik] = len(w.ivs)
		w.ivs = append(w.ivs, interval{lo: v.Pointer(), hi: v.Pointer() + uintptr(v.Cap())*es, val: full, group: -1})
		for i := 0; i < full.Len(); i++ {
			w.Scan(full.Index(i))
		}
	case reflect.Interface:
		if !v.IsNil() {
			w.Scan(v.Elem())
		}
	case reflect.Struct:
		t := v.Type()
		for i := 0; i < v.NumField(); i++ {
			if t.Field(i).PkgPath != "" {
				continue
			}
			w.Scan(v.Field(i))
		}
	case reflect.Array:
		for i := 0; i < v.Len(); i++ {
			w.Scan(v.Index(i))
		}
	}
}

// Freeze groups the slice headers collected since the last Freeze.
func (w *Walker) Freeze() {
	idx := make([]int, 0, len(w.ivs)-w.frozen)
	for i := w.frozen; i < len(w.ivs); i++ {
		idx = append(idx, i)
	}
	sort.Slice(idx, func(a, b int) bool { return w.ivs[idx[a]].lo < w.ivs[idx[b]].lo })
	for _, i := range idx {
		iv := &w.ivs[i]
		et := iv.val.Type().Elem()
		es := et.Size()
		if es == 0 {
			// zero-sized elements own no memory: a group of its own
			w.groups = append(w.groups, &group{id: -1, lo: iv.lo, hi: iv.hi, es: es, t: et, members: []int{i}})
			iv.group = len(w.groups) - 1
			continue
		}
		joined := false
		for gi, g := range w.groups {
			if g.t == et && g.es != 0 && iv.lo < g.hi && iv.hi > g.lo && (iv.lo-g.lo)%es == 0 {
				if g.id < 0 {
					if iv.lo < g.lo {
						g.lo = iv.lo
					}
					if iv.hi > g.hi {
						g.hi = iv.hi
					}
				}
				g.members = append(g.members, i)
				iv.group = gi
				joined = true
				break
			}
		}
		if !joined {
			w.groups = append(w.groups, &group{id: -1, lo: iv.lo, hi: iv.hi, es: es, t: et, members: []int{i}})
			iv.group = len(w.groups) - 1
		}
	}
	w.frozen = len(w.ivs)
}

func (w *Walker) newID() int {
	id := w.next
	w.next++
	return id
}

func (w *Walker) touch(id int) int {
	w.Touched[id] = true
	return id
}

func (w *Walker) tag(t reflect.Type) int {
	if n, ok := w.tags[t]; ok {
		return n
	}
	n := len(w.tags) + 1
	w.tags[t] = n
	return n
}

func (w *Walker) opaqueID(k key) int {
	if n, ok := w.opaque[k]; ok {
		return n
	}
	n := len(w.opaque) + 1
	w.opaque[k] = n
	return n
}

func (w *Walker) list(n int, at func(i int) reflect.Value) string {
	parts := make([]string, n)
	for i := range parts {
		parts[i] = w.Term(at(i))
	}
	return coqfmt.List(parts)
}

// groupElem returns element i of the merged backing array of g.
func (w *Walker) groupElem(g *group, i int) reflect.Value {
	p := g.lo + uintptr(i)*g.es
	for _, m := range g.members {
		iv := w.ivs[m]
		if iv.lo <= p && p < iv.hi {
			return iv.val.Index(int((p - iv.lo) / g.es))
		}
	}
	panic("graphwalk: uncovered backing-array element")
}

// privTerm prints the contents of an unexported field: scalars and zero
// values faithfully (reflect can read but not set them), anything that holds
// a reference as an opaque token (it is never entered by dials).
func privTerm(v reflect.Value) string {
	switch v.Kind() {
	case reflect.Bool, reflect.Int, reflect.Int8, reflect.Int16, reflect.Int32, reflect.Int64,
		reflect.Uint, reflect.Uint8, reflect.Uint16, reflect.Uint32, reflect.Uint64, reflect.Uintptr,
		reflect.Float32, reflect.Float64, reflect.Complex64, reflect.Complex128, reflect.String:
		return "(HLeaf " + rty.ValTerm(v) + ")"
	case reflect.Ptr:
		if v.IsNil() {
			return "(HPtr None)"
		}
	case reflect.Map:
		if v.IsNil() {
			return "(HMap None)"
		}
	case reflect.Slice:
		if v.IsNil() {
			return "(HSlice None)"
		}
	case reflect.Interface:
		if v.IsNil() {
			return "HNilIface"
		}
	case reflect.Chan, reflect.Func:
		if v.IsNil() {
			return "(HLeaf VNil)"
		}
	case reflect.Array:
		parts := make([]string, v.Len())
		for i := range parts {
			parts[i] = privTerm(v.Index(i))
		}
		return "(HArray " + coqfmt.List(parts) + ")"
	case reflect.Struct:
		t := v.Type()
		parts := make([]string, v.NumField())
		for i := range parts {
			if t.Field(i).PkgPath != "" {
				parts[i] = "(HPriv " + privTerm(v.Field(i)) + ")"
			} else {
				parts[i] = privTerm(v.Field(i))
			}
		}
		return "(HStruct " + coqfmt.List(parts) + ")"
	}
	return "(HLeaf (VOpaque 0))"
}

// Term prints v as an `hv`, adding the objects found on the way to the heap.
func (w *Walker) Term(v reflect.Value) string {
	switch v.Kind() {
	case reflect.Ptr:
		if v.IsNil() {
			return "(HPtr None)"
		}
		k := key{kCell, v.Pointer()}
		id, ok := w.ids[k]
		if !ok || v.Type().Elem().Size() == 0 {
			id = w.newID()
			w.ids[k] = id
			slot := len(w.objs)
			w.objs = append(w.objs, "")
			w.objs[slot] = fmt.Sprintf("(%d, OCell %s)", id, w.Term(v.Elem()))
		}
		return fmt.Sprintf("(HPtr (Some %d))", w.touch(id))
	case reflect.Map:
		if v.IsNil() {
			return "(HMap None)"
		}
		k := key{kMap, v.Pointer()}
		id, ok := w.ids[k]
		if !ok {
			id = w.newID()
			w.ids[k] = id
			slot := len(w.objs)
			w.objs = append(w.objs, "")
			type kv struct {
				sortKey string
				k, v    reflect.Value
			}
			var kvs []kv
			it := v.MapRange()
			for it.Next() {
				kvs = append(kvs, kv{keySortString(it.Key()), it.Key(), it.Value()})
			}
			sort.Slice(kvs, func(i, j int) bool { return kvs[i].sortKey < kvs[j].sortKey })
			parts := make([]string, len(kvs))
			for i, e := range kvs {
				kt := w.Term(e.k)
				parts[i] = "(" + kt + ", " + w.Term(e.v) + ")"
			}
			w.objs[slot] = fmt.Sprintf("(%d, OMap %s)", id, coqfmt.List(parts))
		}
		return fmt.Sprintf("(HMap (Some %d))", w.touch(id))
	case reflect.Slice:
		if v.IsNil() {
			return "(HSlice None)"
		}
		if v.Cap() == 0 {
			id := w.newID()
			w.objs = append(w.objs, fmt.Sprintf("(%d, OArr [])", id))
			return fmt.Sprintf("(HSlice (Some (mk_sref %d 0 0 0)))", w.touch(id))
		}
		if w.Split {
			id := w.newID()
			slot := len(w.objs)
			w.objs = append(w.objs, "")
			full := v.Slice(0, v.Cap())
			w.objs[slot] = fmt.Sprintf("(%d, OArr %s)", id, w.list(full.Len(), full.Index))
			return fmt.Sprintf("(HSlice (Some (mk_sref %d 0 %d %d)))", w.touch(id), v.Len(), v.Cap())
		}
		ii, ok := w.ivIndex[ivKey{v.Pointer(), v.Cap(), v.Type().Elem()}]
		if !ok || w.ivs[ii].group < 0 {
			panic("graphwalk: slice not scanned (call Scan and Freeze on every root first)")
		}
		g := w.groups[w.ivs[ii].group]
		if g.id < 0 {
			g.id = w.newID()
			slot := len(w.objs)
			w.objs = append(w.objs, "")
			n := 0
			if g.es != 0 {
				n = int((g.hi - g.lo) / g.es)
			} else {
				n = v.Cap()
			}
			w.objs[slot] = fmt.Sprintf("(%d, OArr %s)", g.id, w.list(n, func(i int) reflect.Value {
				if g.es == 0 {
					return v.Slice(0, v.Cap()).Index(i)
				}
				return w.groupElem(g, i)
			}))
		}
		off := 0
		if g.es != 0 && v.Pointer() >= g.lo {
			off = int((v.Pointer() - g.lo) / g.es)
		}
		return fmt.Sprintf("(HSlice (Some (mk_sref %d %d %d %d)))", w.touch(g.id), off, v.Len(), v.Cap())
	case reflect.Interface:
		if v.IsNil() {
			return "HNilIface"
		}
		e := v.Elem()
		return fmt.Sprintf("(HIface %d %s)", w.tag(e.Type()), w.Term(e))
	case reflect.Struct:
		t := v.Type()
		parts := make([]string, v.NumField())
		for i := range parts {
			if t.Field(i).PkgPath != "" {
				parts[i] = "(HPriv " + privTerm(v.Field(i)) + ")"
			} else {
				parts[i] = w.Term(v.Field(i))
			}
		}
		return "(HStruct " + coqfmt.List(parts) + ")"
	case reflect.Array:
		return "(HArray " + w.list(v.Len(), v.Index) + ")"
	case reflect.Chan, reflect.Func, reflect.UnsafePointer:
		if v.Kind() != reflect.UnsafePointer && v.IsNil() {
			return "(HLeaf VNil)"
		}
		return fmt.Sprintf("(HLeaf (VOpaque %d))", w.opaqueID(key{kOpaque, v.Pointer()}))
	default:
		return "(HLeaf " + rty.ValTerm(v) + ")"
	}
}

// keySortString orders map entries canonically: scalar keys by their printed value, keys that
// hold references (interfaces, structs / arrays with pointers, pointers) by a bounded-depth
// signature of their contents (scalars reachable within three dereferences; never addresses,
// and never a full walk: the graph below a key may be cyclic through this very map).
func keySortString(k reflect.Value) string { return sig(k, 3) }

func sig(v reflect.Value, d int) string {
	switch v.Kind() {
	case reflect.Bool, reflect.Int, reflect.Int8, reflect.Int16, reflect.Int32, reflect.Int64,
		reflect.Uint, reflect.Uint8, reflect.Uint16, reflect.Uint32, reflect.Uint64, reflect.Uintptr,
		reflect.Float32, reflect.Float64, reflect.String:
		return fmt.Sprintf("%v", v)
	case reflect.Ptr:
		if v.IsNil() {
			return "*nil"
		}
		if d == 0 {
			return "*"
		}
		return "*" + sig(v.Elem(), d-1)
	case reflect.Interface:
		if v.IsNil() {
			return "i:nil"
		}
		return "i:" + v.Elem().Type().String() + ":" + sig(v.Elem(), d)
	case reflect.Struct:
		if d == 0 {
			return "{}"
		}
		parts := []string{}
		for i := 0; i < v.NumField(); i++ {
			if v.Type().Field(i).PkgPath == "" {
				parts = append(parts, sig(v.Field(i), d-1))
			}
		}
		return "{" + strings.Join(parts, ",") + "}"
	case reflect.Array:
		parts := []string{}
		for i := 0; i < v.Len(); i++ {
			parts = append(parts, sig(v.Index(i), d))
		}
		return "[" + strings.Join(parts, ",") + "]"
	case reflect.Map:
		return fmt.Sprintf("m#%d", v.Len())
	case reflect.Slice:
		return fmt.Sprintf("s#%d", v.Len())
	}
	return v.Kind().String()
}

// Canon is a canonical string of the graph below v (slices split, own
// numbering): two graphs have the same string iff they are isomorphic, alias
// partition of pointers and maps included.  Used for before/after snapshots.
func Canon(v reflect.Value) string {
	w := New()
	w.Split = true
	root := w.Term(v)
	return root + " | " + strings.Join(w.objs, "; ")
}
