// Package driver is the common main loop of every correspondence harness:
// generate inputs from one seeded PRNG (or read a replay file), run the
// implementation on each, and write
//   <out>/inputs.jsonl      one JSON input per case (this is the replay format)
//   <out>/cases_<k>.v       the same cases with the implementation's projected
//                           observation, as Coq terms, evaluated by coqc
//   <out>/stats.json        distribution of what was generated
package driver

import (
	"bufio"
	"crypto/sha256"
	"encoding/json"
	"flag"
	"fmt"
	"os"
	"path/filepath"
	"sort"
	"strings"
	"sync"

	"verifharness/internal/coqfmt"
)

// Result is what running the implementation on one input produced.
type Result struct {
	Coq        string   // Coq term of the engine's case type (input + observation)
	Kind       string   // generator class, for the distribution
	Nontrivial bool     // by the engine's stated rule
	Direct     []string // direct-oracle failures observed on the implementation alone
	Tags       []string // extra distribution counters
}

// Engine describes one property's harness.
type Engine struct {
	Prop      string // e.g. C19
	CoqImport string // e.g. "Dials.Check.C19Check"
	CoqRun    string // function : list case -> list (N*N)
	Rule      string // non-triviality rule, copied into the evidence
	Gen       func(r *coqfmt.Rng, n int, tier string) []json.RawMessage
	Run       func(in json.RawMessage) Result
	Corpus    []json.RawMessage // fixed regression cases, run first
	Parallel  int               // >1: run cases concurrently (only for engines without process-global state)
}

type Stats struct {
	Prop        string         `json:"prop"`
	Seed        uint64         `json:"seed"`
	Evaluations int            `json:"evaluations"`
	Distinct    int            `json:"distinct"`
	Nontrivial  int            `json:"distinct_nontrivial"`
	Kinds       map[string]int `json:"kinds"`
	Tags        map[string]int `json:"tags"`
	Rule        string         `json:"rule"`
	Samples     []string       `json:"samples"`
	Direct      []DirectFail   `json:"direct_failures"`
	Shards      []string       `json:"shards"`
	ShardBase   []int          `json:"shard_base"`
}

type DirectFail struct {
	Index int    `json:"index"`
	What  string `json:"what"`
}

func Main(e Engine) {
	seed := flag.Uint64("seed", 1, "PRNG seed")
	n := flag.Int("n", 100, "number of generated cases")
	out := flag.String("out", "", "output directory")
	replay := flag.String("replay", "", "replay file (JSON lines of inputs) instead of generating")
	tier := flag.String("tier", "quick", "quick|thorough")
	shard := flag.Int("shard", 400, "cases per .v shard")
	flag.Parse()
	if *out == "" {
		fmt.Fprintln(os.Stderr, "need --out")
		os.Exit(2)
	}
	if err := os.MkdirAll(*out, 0o755); err != nil {
		panic(err)
	}
	var inputs []json.RawMessage
	if *replay != "" {
		f, err := os.Open(*replay)
		if err != nil {
			panic(err)
		}
		sc := bufio.NewScanner(f)
		sc.Buffer(make([]byte, 1<<20), 1<<28)
		for sc.Scan() {
			line := strings.TrimSpace(sc.Text())
			if line == "" || strings.HasPrefix(line, "#") {
				continue
			}
			inputs = append(inputs, json.RawMessage(line))
		}
		f.Close()
	} else {
		inputs = append(inputs, e.Corpus...)
		inputs = append(inputs, e.Gen(coqfmt.NewRng(*seed), *n, *tier)...)
	}
	st := Stats{Prop: e.Prop, Seed: *seed, Kinds: map[string]int{}, Tags: map[string]int{}, Rule: e.Rule}
	seen := map[[32]byte]bool{}
	inF, err := os.Create(filepath.Join(*out, "inputs.jsonl"))
	if err != nil {
		panic(err)
	}
	inW := bufio.NewWriter(inF)
	var terms []string
	results := make([]Result, len(inputs))
	if e.Parallel > 1 {
		var wg sync.WaitGroup
		sem := make(chan struct{}, e.Parallel)
		for i := range inputs {
			wg.Add(1)
			sem <- struct{}{}
			go func(i int) {
				defer wg.Done()
				defer func() { <-sem }()
				results[i] = e.Run(inputs[i])
			}(i)
		}
		wg.Wait()
	}
	for i, in := range inputs {
		inW.Write(in)
		inW.WriteByte('\n')
		var res Result
		if e.Parallel > 1 {
			res = results[i]
		} else {
			res = e.Run(in)
		}
		terms = append(terms, res.Coq)
		st.Evaluations++
		st.Kinds[res.Kind]++
		for _, t := range res.Tags {
			st.Tags[t]++
		}
		h := sha256.Sum256(in)
		if !seen[h] {
			seen[h] = true
			st.Distinct++
			if res.Nontrivial {
				st.Nontrivial++
			}
		}
		for _, d := range res.Direct {
			st.Direct = append(st.Direct, DirectFail{Index: i, What: d})
		}
		if len(st.Samples) < 5 && (res.Nontrivial || i < 2) {
			s := string(in)
			if len(s) > 600 {
				s = s[:600] + "…"
			}
			st.Samples = append(st.Samples, s)
		}
	}
	inW.Flush()
	inF.Close()
	// shards
	for base, k := 0, 0; base < len(terms); base, k = base+*shard, k+1 {
		end := base + *shard
		if end > len(terms) {
			end = len(terms)
		}
		name := fmt.Sprintf("cases_%d.v", k)
		f, err := os.Create(filepath.Join(*out, name))
		if err != nil {
			panic(err)
		}
		w := bufio.NewWriter(f)
		fmt.Fprintf(w, "From Coq Require Import List NArith ZArith.\nFrom Dials Require Import Base.Outcome.\nRequire Import %s.\nImport ListNotations.\nOpen Scope N_scope.\n", e.CoqImport)
		fmt.Fprintf(w, "Definition cases := [\n")
		for i := base; i < end; i++ {
			sep := ";"
			if i == end-1 {
				sep = ""
			}
			fmt.Fprintf(w, "(* %d *) %s%s\n", i, terms[i], sep)
		}
		fmt.Fprintf(w, "].\nDefinition R := Eval vm_compute in %s cases.\nPrint R.\n", e.CoqRun)
		w.Flush()
		f.Close()
		st.Shards = append(st.Shards, name)
		st.ShardBase = append(st.ShardBase, base)
	}
	sort.Slice(st.Direct, func(i, j int) bool { return st.Direct[i].Index < st.Direct[j].Index })
	b, _ := json.MarshalIndent(st, "", " ")
	if err := os.WriteFile(filepath.Join(*out, "stats.json"), b, 0o644); err != nil {
		panic(err)
	}
}

// Outcome prints an implementation outcome class with an Ok payload.
func Outcome(okTerm string, err error, panicked bool) string {
	switch {
	case panicked:
		return "(Panic 0)"
	case err != nil:
		return "(Err 0)"
	default:
		return "(Ok " + okTerm + ")"
	}
}
