package cfgdoc

// Abstract documents (scalars, lists, string-keyed maps) and their rendering
// in the four concrete syntaxes.

import (
	"encoding/json"
	"fmt"
	"sort"

	"verifharness/internal/coqfmt"
)

type Kind int

const (
	Bool Kind = iota
	Int
	Str
	List
	Map
	Time  // a timestamp: a datetime literal in TOML, a string in the other three syntaxes
	Bytes // a Cue bytes literal (only re-abstracted Cue texts have one)
)

type KV struct {
	K string
	V *Doc
}

type Doc struct {
	Kind Kind
	B    bool
	I    int64
	U    uint64 // used when neg == false && big
	Big  bool   // value does not fit int64 (unsigned)
	S    string
	List []*Doc
	KVs  []KV // in document order
}

func NB(b bool) *Doc  { return &Doc{Kind: Bool, B: b} }
func NI(i int64) *Doc { return &Doc{Kind: Int, I: i} }
func NU(u uint64) *Doc {
	if u <= 1<<63-1 {
		return NI(int64(u))
	}
	return &Doc{Kind: Int, U: u, Big: true}
}
func NS(s string) *Doc  { return &Doc{Kind: Str, S: s} }
func NT(s string) *Doc  { return &Doc{Kind: Time, S: s} }
func NBy(s string) *Doc { return &Doc{Kind: Bytes, S: s} }
func NL(l ...*Doc) *Doc { return &Doc{Kind: List, List: l} }
func NM(kvs ...KV) *Doc { return &Doc{Kind: Map, KVs: kvs} }

func (d *Doc) IntText() string {
	if d.Big {
		return fmt.Sprintf("%d", d.U)
	}
	return fmt.Sprintf("%d", d.I)
}

// term prints the document as a Coq `doc`.
func (d *Doc) Term() string {
	switch d.Kind {
	case Bool:
		return "(DBool " + coqfmt.Bool(d.B) + ")"
	case Int:
		return "(DInt (" + d.IntText() + ")%Z)"
	case Str:
		return "(DStr " + coqfmt.Str(d.S) + ")"
	case Time:
		return "(DTime " + coqfmt.Str(d.S) + ")"
	case Bytes:
		return "(DBytes " + coqfmt.Str(d.S) + ")"
	case List:
		parts := make([]string, len(d.List))
		for i, e := range d.List {
			parts[i] = e.Term()
		}
		return "(DList " + coqfmt.List(parts) + ")"
	default:
		parts := make([]string, len(d.KVs))
		for i, e := range d.KVs {
			parts[i] = "(" + coqfmt.Str(e.K) + ", " + e.V.Term() + ")"
		}
		return "(DMap " + coqfmt.List(parts) + ")"
	}
}

func Q(s string) string {
	b, _ := json.Marshal(s)
	return string(b)
}

func IsScalar(d *Doc) bool {
	return d.Kind == Bool || d.Kind == Int || d.Kind == Str || d.Kind == Time || d.Kind == Bytes
}

func sortedKeys(m map[string]*Doc) []string {
	ks := make([]string, 0, len(m))
	for k := range m {
		ks = append(ks, k)
	}
	sort.Strings(ks)
	return ks
}

// Render prints d in format f: 0 JSON, 1 YAML, 2 TOML, 3 Cue.
func Render(f int, d *Doc) string {
	switch f {
	case 0:
		return ToJSON(d)
	case 1:
		return ToYAML(d, 0)
	case 2:
		return RenderTOML(d)
	default:
		return ToCue(d, true)
	}
}
