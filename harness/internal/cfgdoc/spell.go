package cfgdoc

// The four printers.  One abstract document has many spellings in each concrete
// syntax (string escapes and quoting styles, integer bases and digit separators,
// flow vs block collections, tables vs inline tables, insignificant blanks and
// comments): with `Sp` set, every rendering draws among the spellings the format
// allows for the SAME data; with Sp == nil the plain canonical one is printed.

import (
	"fmt"
	"regexp"
	"strings"
	"unicode/utf8"

	"verifharness/internal/coqfmt"
)

var Sp *coqfmt.Rng // spelling choices of the rendering in progress

func alt(n, d int) bool { return Sp != nil && Sp.Chance(n, d) }

func pick(canon string, alts ...string) string {
	if Sp == nil {
		return canon
	}
	return coqfmt.Pick(Sp, append([]string{canon}, alts...))
}

// ---- integers ----
func groups3(dec string) string {
	if len(dec) <= 3 {
		return dec
	}
	return groups3(dec[:len(dec)-3]) + "_" + dec[len(dec)-3:]
}

// intSpell: 'j' JSON (decimal only), 'y' YAML 1.1 as yaml.v2 resolves it, 't' TOML, 'c' Cue.
func intSpell(f byte, d *Doc) string {
	dec := d.IntText()
	if f == 'j' || d.Big || !alt(1, 3) {
		return dec
	}
	neg := d.I < 0
	mag := uint64(d.I)
	if neg {
		mag = uint64(-d.I)
	}
	sign := ""
	if neg {
		sign = "-"
	}
	magDec := fmt.Sprintf("%d", mag)
	forms := []string{sign + groups3(magDec)}
	if !neg {
		if f != 'c' {
			forms = append(forms, "+"+magDec)
		}
	}
	if !neg || f != 't' { // TOML: no sign on the prefixed forms
		forms = append(forms, fmt.Sprintf("%s0x%x", sign, mag), fmt.Sprintf("%s0x%X", sign, mag),
			fmt.Sprintf("%s0o%o", sign, mag), fmt.Sprintf("%s0b%b", sign, mag))
	}
	if f == 'c' && mag%1000 == 0 && mag > 0 && !neg {
		forms = append(forms, fmt.Sprintf("%dK", mag/1000))
	}
	return coqfmt.Pick(Sp, forms)
}

// ---- strings ----
func hex4(c rune) string {
	if alt(1, 2) {
		return fmt.Sprintf("%04X", c)
	}
	return fmt.Sprintf("%04x", c)
}

// escString: a double-quoted string in which any character may be written as an escape.
// u4: \uXXXX available; slash: \/ available; x2: \xXX available (ASCII); u8: \UXXXXXXXX available.
func escString(s string, slash, x2, u8 bool) string {
	var b strings.Builder
	b.WriteByte('"')
	for _, c := range s {
		switch {
		case c == utf8.RuneError:
			b.WriteString(Q(string(c))[1 : len(Q(string(c)))-1])
		case alt(1, 5) && c <= 0xFFFF && !(c >= 0xD800 && c <= 0xDFFF):
			if x2 && c < 0x80 && alt(1, 2) {
				fmt.Fprintf(&b, "\\x%02x", c)
			} else if u8 && alt(1, 3) {
				fmt.Fprintf(&b, "\\U%08x", c)
			} else {
				b.WriteString("\\u" + hex4(c))
			}
		case c == '/' && slash && alt(1, 2):
			b.WriteString("\\/")
		default:
			e := Q(string(c))
			b.WriteString(e[1 : len(e)-1])
		}
	}
	b.WriteByte('"')
	return b.String()
}

var stampRe = regexp.MustCompile(`^[0-9]{4}-[0-9]{2}-[0-9]{2}T`)

func jsonStr(s string) string {
	if Sp == nil || stampRe.MatchString(s) {
		// (a string spelling a timestamp may be bound for a time.Time, whose UnmarshalJSON does
		// not unescape: go.dev/issue/47353)
		return Q(s)
	}
	return escString(s, true, false, false)
}

var plainRe = regexp.MustCompile(`^[A-Za-z][A-Za-z0-9_-]*( [A-Za-z0-9_-]+)*$`)
var yamlWords = map[string]bool{"y": true, "n": true, "yes": true, "no": true, "on": true, "off": true, "true": true,
	"false": true, "null": true, "nan": true, "inf": true}

func yamlPlainSafe(s string) bool {
	return plainRe.MatchString(s) && !yamlWords[strings.ToLower(s)]
}

func printable(s string, also string) bool {
	for _, c := range s {
		if (c < 0x20 && !strings.ContainsRune(also, c)) || c == 0x7f || c == utf8.RuneError {
			return false
		}
	}
	return true
}

// yamlStr: double-quoted (with escapes), single-quoted, plain; block: also a literal block scalar
// (only as the value of a block-mapping entry whose nested lines are indented by `pad`).
func yamlStr(s string, block bool, pad string) string {
	if Sp == nil {
		return Q(s)
	}
	switch Sp.Intn(6) {
	case 0:
		if printable(s, "") {
			return "'" + strings.ReplaceAll(s, "'", "''") + "'"
		}
	case 1:
		if yamlPlainSafe(s) {
			return s
		}
	case 2:
		if block && s != "" && printable(s, "\n\t") && !strings.HasPrefix(s, " ") && !strings.HasPrefix(s, "\n") &&
			!strings.HasPrefix(s, "\t") && !strings.HasSuffix(s, "\n") && !strings.Contains(s, "\n\n") {
			lines := strings.Split(s, "\n")
			return "|-\n" + pad + "  " + strings.Join(lines, "\n"+pad+"  ")
		}
	case 3:
		return Q(s)
	}
	return escString(s, false, true, true) // (no \/: yaml.v2 is YAML 1.1)
}

func tomlStr(s string) string {
	if Sp == nil {
		return Q(s)
	}
	switch Sp.Intn(6) {
	case 0:
		if printable(s, "\t") && !strings.Contains(s, "'") {
			return "'" + s + "'"
		}
	case 1:
		if printable(s, "\t\n") && !strings.Contains(s, "'''") && !strings.HasSuffix(s, "'") {
			return "'''\n" + s + "'''"
		}
	case 2:
		if printable(s, "\t\n") {
			// multi-line basic string: newlines as they are, the newline after the opening delimiter is trimmed
			body := strings.ReplaceAll(strings.ReplaceAll(s, "\\", "\\\\"), "\"", "\\\"")
			return "\"\"\"\n" + body + "\"\"\""
		}
	case 3:
		return Q(s)
	}
	return escString(s, false, false, true)
}

func cueStr(s string, pad string) string {
	if Sp == nil {
		return Q(s)
	}
	switch Sp.Intn(6) {
	case 0:
		if printable(s, "\t") && !strings.Contains(s, "\"#") && !strings.Contains(s, "\\#") && !strings.HasSuffix(s, "\"") {
			return "#\"" + s + "\"#" // raw string: a backslash is a backslash
		}
	case 1:
		if printable(s, "\t\n") {
			body := strings.ReplaceAll(strings.ReplaceAll(s, "\\", "\\\\"), "\"", "\\\"")
			lines := strings.Split(body, "\n")
			return "\"\"\"\n" + pad + "  " + strings.Join(lines, "\n"+pad+"  ") + "\n" + pad + "  \"\"\""
		}
	case 2:
		return Q(s)
	}
	return escString(s, true, false, true)
}

// ---- JSON ----
func jws() string { return pick("", "", " ", "  ", "\n", "\t", "\n  ") }

func ToJSON(d *Doc) string {
	sep := func(c, canon string) string {
		if Sp == nil {
			return canon
		}
		return jws() + c + jws()
	}
	switch d.Kind {
	case List:
		parts := make([]string, len(d.List))
		for i, e := range d.List {
			parts[i] = ToJSON(e)
		}
		return "[" + jws() + strings.Join(parts, sep(",", ", ")) + jws() + "]"
	case Map:
		parts := make([]string, len(d.KVs))
		for i, e := range d.KVs {
			parts[i] = jsonStr(e.K) + sep(":", ": ") + ToJSON(e.V)
		}
		return "{" + jws() + strings.Join(parts, sep(",", ", ")) + jws() + "}"
	case Bool:
		if d.B {
			return "true"
		}
		return "false"
	case Int:
		return intSpell('j', d)
	}
	if d.Kind == Time {
		// encoding/json's Time.UnmarshalJSON does not unescape its string (go.dev/issue/47353)
		return Q(d.S)
	}
	return jsonStr(d.S)
}

// ---- Cue ----
func cueLabel(k string) string {
	ok := k != ""
	for i, c := range k {
		if !(c == '_' || c >= 'a' && c <= 'z' || c >= 'A' && c <= 'Z' || (i > 0 && c >= '0' && c <= '9')) {
			ok = false
		}
	}
	if ok && !strings.HasPrefix(k, "_") && !cueKeyword[k] && !alt(1, 4) {
		return k
	}
	if Sp == nil {
		return Q(k)
	}
	return escString(k, true, false, true)
}

var cueKeyword = map[string]bool{"true": true, "false": true, "null": true, "for": true, "in": true, "if": true, "let": true,
	"package": true, "import": true, "div": true, "mod": true, "quo": true, "rem": true, "string": true, "int": true,
	"bool": true, "float": true, "number": true, "bytes": true, "len": true, "close": true, "and": true, "or": true}

func cueComment() string {
	if alt(1, 8) {
		return " // c: \"x\"\n"
	}
	return ""
}

func toCueAt(d *Doc, top bool, pad string) string {
	switch d.Kind {
	case List:
		parts := make([]string, len(d.List))
		for i, e := range d.List {
			parts[i] = toCueAt(e, false, pad)
		}
		if len(parts) > 0 && alt(1, 4) {
			return "[\n" + pad + "  " + strings.Join(parts, ",\n"+pad+"  ") + ",\n" + pad + "]"
		}
		return "[" + strings.Join(parts, ", ") + "]"
	case Map:
		multi := top || alt(1, 3)
		inner := pad
		if !top {
			inner = pad + "  "
		}
		parts := make([]string, len(d.KVs))
		for i, e := range d.KVs {
			val := ""
			// a: b: c: 1 - the shorthand for nested single-field structs
			if e.V.Kind == Map && len(e.V.KVs) == 1 && alt(1, 2) {
				in := e.V.KVs[0]
				val = cueLabel(in.K) + ": " + toCueAt(in.V, false, inner)
			} else {
				val = toCueAt(e.V, false, inner)
			}
			parts[i] = cueLabel(e.K) + pick(": ", ":", ":  ", ":\t") + val
		}
		switch {
		case top && alt(1, 5):
			return "{\n" + strings.Join(parts, "\n") + "\n}\n"
		case top:
			var sb strings.Builder
			for _, p := range parts {
				sb.WriteString(p)
				if c := cueComment(); c != "" {
					sb.WriteString(c)
				} else {
					sb.WriteString(pick("\n", ",\n", "\n\n"))
				}
			}
			return sb.String()
		case multi && len(parts) > 0:
			return "{\n" + inner + strings.Join(parts, pick(",\n", "\n")+inner) + "\n" + pad + "}"
		}
		return "{" + strings.Join(parts, ", ") + "}"
	case Bool:
		if d.B {
			return "true"
		}
		return "false"
	case Int:
		return intSpell('c', d)
	}
	return cueStr(d.S, pad)
}

func ToCue(d *Doc, top bool) string { return toCueAt(d, top, "") }

// ---- YAML ----
func yamlKey(k string) string {
	if Sp != nil && Sp.Chance(1, 3) && yamlPlainSafe(k) {
		return k
	}
	return yamlStr(k, false, "")
}

func yamlScalar(d *Doc, block bool, pad string) string {
	switch d.Kind {
	case Bool:
		if d.B {
			return pick("true", "true", "True", "TRUE", "yes", "on")
		}
		return pick("false", "false", "False", "FALSE", "no", "off")
	case Int:
		return intSpell('y', d)
	}
	return yamlStr(d.S, block, pad)
}

func yamlFlow(d *Doc) string {
	switch d.Kind {
	case List:
		parts := make([]string, len(d.List))
		for i, e := range d.List {
			parts[i] = yamlFlow(e)
		}
		return "[" + strings.Join(parts, pick(", ", ",", " , ")) + "]"
	case Map:
		parts := make([]string, len(d.KVs))
		for i, e := range d.KVs {
			parts[i] = yamlKey(e.K) + ": " + yamlFlow(e.V)
		}
		return "{" + strings.Join(parts, ", ") + "}"
	}
	return yamlScalar(d, false, "")
}

func yamlEol() string {
	if alt(1, 8) {
		return " # c: 'x'\n"
	}
	if alt(1, 12) {
		return "\n\n"
	}
	return "\n"
}

func ToYAML(d *Doc, indent int) string {
	pad := strings.Repeat("  ", indent)
	if d.Kind != Map {
		return pad + yamlFlow(d) + "\n"
	}
	if len(d.KVs) == 0 {
		return pad + "{}\n"
	}
	var sb strings.Builder
	if indent == 0 && alt(1, 10) {
		sb.WriteString("---\n")
	}
	for _, e := range d.KVs {
		colon := pick(": ", ":  ", ": ")
		switch {
		case IsScalar(e.V):
			v := yamlScalar(e.V, true, pad)
			sb.WriteString(pad + yamlKey(e.K) + colon + v)
			if strings.HasPrefix(v, "|") {
				sb.WriteString("\n")
			} else {
				sb.WriteString(yamlEol())
			}
		case e.V.Kind == Map && len(e.V.KVs) == 0:
			sb.WriteString(pad + yamlKey(e.K) + ": {}" + yamlEol())
		case e.V.Kind == List && len(e.V.List) == 0:
			sb.WriteString(pad + yamlKey(e.K) + ": []" + yamlEol())
		case alt(1, 4):
			sb.WriteString(pad + yamlKey(e.K) + colon + yamlFlow(e.V) + yamlEol())
		case e.V.Kind == List && IsScalar(e.V.List[0]) && !alt(1, 2):
			sb.WriteString(pad + yamlKey(e.K) + colon + yamlFlow(e.V) + yamlEol())
		case e.V.Kind == List:
			sb.WriteString(pad + yamlKey(e.K) + ":" + yamlEol())
			for _, it := range e.V.List {
				if it.Kind == Map && len(it.KVs) > 0 {
					body := ToYAML(it, indent+2)
					// turn the first line's indentation into "- "
					sb.WriteString(pad + "  - " + strings.TrimPrefix(body, strings.Repeat("  ", indent+2)))
				} else {
					sb.WriteString(pad + "  - " + yamlFlow(it) + "\n")
				}
			}
		default:
			sb.WriteString(pad + yamlKey(e.K) + ":" + yamlEol() + ToYAML(e.V, indent+1))
		}
	}
	return sb.String()
}

// ---- TOML ----
func tomlKey(k string) string {
	ok := k != ""
	for _, c := range k {
		if !(c == '_' || c == '-' || c >= 'a' && c <= 'z' || c >= 'A' && c <= 'Z' || c >= '0' && c <= '9') {
			ok = false
		}
	}
	if ok && !alt(1, 4) {
		return k
	}
	if Sp == nil {
		return Q(k)
	}
	if alt(1, 2) && printable(k, "") && !strings.Contains(k, "'") {
		return "'" + k + "'"
	}
	return Q(k) // (go-toml does not resolve \u escapes in quoted keys: none is written)
}

func tomlInline(d *Doc, nl bool) string {
	switch d.Kind {
	case Time:
		if alt(1, 4) {
			return strings.Replace(d.S, "T", " ", 1)
		}
		return d.S
	case Bool:
		if d.B {
			return "true"
		}
		return "false"
	case Int:
		return intSpell('t', d)
	case Str:
		if !nl && Sp != nil {
			// inside an inline table: no multi-line spellings
			for {
				if s := tomlStr(d.S); !strings.Contains(s, "\n") {
					return s
				}
			}
		}
		return tomlStr(d.S)
	case List:
		parts := make([]string, len(d.List))
		for i, e := range d.List {
			parts[i] = tomlInline(e, nl)
		}
		if nl && len(parts) > 0 && alt(1, 4) {
			return "[\n  " + strings.Join(parts, ", # c\n  ") + ",\n]"
		}
		return "[" + strings.Join(parts, pick(", ", ",", " , ")) + "]"
	}
	parts := make([]string, len(d.KVs))
	for i, e := range d.KVs {
		parts[i] = tomlKey(e.K) + " = " + tomlInline(e.V, false)
	}
	if len(parts) == 0 {
		return "{}"
	}
	return "{ " + strings.Join(parts, ", ") + " }"
}

func tomlEol() string {
	if alt(1, 8) {
		return " # c = \"x\"\n"
	}
	if alt(1, 12) {
		return "\n\n"
	}
	return "\n"
}

func toTOML(d *Doc, path []string, sb *strings.Builder) {
	inline := make([]bool, len(d.KVs))
	for i, e := range d.KVs {
		tables := e.V.Kind == Map || (e.V.Kind == List && len(e.V.List) > 0 && e.V.List[0].Kind == Map)
		inline[i] = !tables || alt(1, 4)
		if inline[i] {
			sb.WriteString(tomlKey(e.K) + pick(" = ", "=", "  =  ") + tomlInline(e.V, !tables) + tomlEol())
		}
	}
	for i, e := range d.KVs {
		if inline[i] {
			continue
		}
		p := append(append([]string{}, path...), tomlKey(e.K))
		switch {
		case e.V.Kind == Map:
			sb.WriteString("\n[" + strings.Join(p, ".") + "]" + tomlEol()) // (no blanks around the dots: go-toml mis-reads them)
			toTOML(e.V, p, sb)
		default:
			for _, it := range e.V.List {
				sb.WriteString("\n[[" + strings.Join(p, ".") + "]]" + tomlEol())
				toTOML(it, p, sb)
			}
		}
	}
}

func RenderTOML(d *Doc) string {
	var sb strings.Builder
	toTOML(d, nil, &sb)
	return sb.String()
}
