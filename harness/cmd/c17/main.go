// c17: correspondence and exploration harness for the watching file source
// (property C17).
//
// Every case runs a real file.WatchingSource (fsnotify/inotify) on a fresh
// directory tree under /var/tmp and applies a generated history of file
// operations to the config file.
//
//   - mode "q" (quiescent-step correspondence): after every operation the
//     harness waits until the watch loop has consumed every event the
//     operation caused, then records the fsnotify watch list, the number of
//     values and errors the source reported, the last reported value and the
//     names of the events the loop received.  The source's Watch is driven with
//     a recording dials.WatchArgs, so reports are observed exactly.  The Coq
//     side (Check/C17Check.v) replays the same history in the Gallina model.
//     A case may apply its first one or two operations between the initial
//     Source.Value() and Watch() (changes racing with start-up).
//   - mode "w" (window): like "q", but operations flagged H hold the loop
//     between Source.Value and the rest of the pass (verif after-Value hook)
//     while the next operation is applied - the interleavings of the split-pass
//     model, made deterministic; the property's oracle at every idle point.
//   - mode "r" (racing exploration): the same histories applied with pauses
//     from {0, 50us, 2ms} and no waiting; afterwards only the property's own
//     oracle is evaluated (converged to decode(final content), or last good
//     value and error reported; no new version for identical content;
//     goroutines and inotify instance released after cancel).  Half of these
//     cases run the source under a real dials.Config (View() polled).
//
// Idleness is detected without sleeping: the harness registers one extra
// "sentinel" directory with the source's own fsnotify watcher; inotify queues
// the events of all watches of one instance in order, so once the loop has
// received the event for a freshly created sentinel file (reported by the
// verif event hook) it has completely handled every earlier event.
package main

import (
	"context"
	"encoding/json"
	"errors"
	"fmt"
	"io"
	"hash/adler32"
	"hash/crc32"
	"hash/fnv"
	"io/fs"
	"math"
	"os"
	"os/exec"
	"os/signal"
	"path/filepath"
	"reflect"
	"runtime"
	"sort"
	"strings"
	"sync"
	"sync/atomic"
	"syscall"
	"time"

	"github.com/vimeo/dials"
	djson "github.com/vimeo/dials/decoders/json"
	"github.com/vimeo/dials/ptrify"
	"github.com/vimeo/dials/sources/file"

	"verifharness/internal/coqfmt"
	"verifharness/internal/driver"
)

// ---------------------------------------------------------------- inputs

type op struct {
	K string `json:"k"`           // rewrite|rewritem|rewrite2|trunc|rename|trename|k8s|link|linkto|delete|reload|dir|rmparent|overflow
	M int    `json:"m,omitempty"` // rewrite2: the content written first (the final content C follows at once); linkto: which earlier directory
	C int    `json:"c"`           // content id; -1 = identical to the current content
	V int    `json:"v,omitempty"` // variant bits: 1 = keep the old directory / delete only the target; 2 = leave the old target alone
	P int    `json:"p,omitempty"` // pause before the operation (racing mode): 0, 1 = 50us, 2 = 2ms
	A bool   `json:"a,omitempty"` // alt cases: write the value in another byte form (convergence is required, a new version is unspecified)
	H bool   `json:"h,omitempty"` // window mode: hold the loop between Value() and the rest of the pass this operation causes, apply the next operation meanwhile
}

type input struct {
	Mode    string `json:"mode"`    // q | r | w
	Layout  int    `json:"layout"`  // 0 regular file, 1 k8s with ..data, 2 k8s with ..dir, 3 symlink into another directory
	Backend string `json:"backend"` // args | dials
	Early   int    `json:"early,omitempty"` // args backend: number of leading ops applied between the initial Value() and Watch()
	Dec     int    `json:"dec,omitempty"`   // 1: a decoder whose errors wrap sentinel errors (fs.ErrNotExist, ...); 2: a decoder whose values hold a NaN
	Slow    int    `json:"slow,omitempty"`  // dials backend: Verify() of every version takes this many milliseconds
	Alt     bool   `json:"alt,omitempty"`   // racing/window: operations flagged A write the same value with different bytes (whitespace-only rewrites)
	Poll    bool   `json:"poll,omitempty"`  // racing: WithPollInterval(3ms); the history may remove and re-create the parent directory
	Ops     []op   `json:"ops"`
}

type cfgT struct {
	A int
	F float64 // never in the file; the NaN decoder sets it (a value that is not reflect.DeepEqual to itself)
}

// verifyDelayNs makes cfgT.Verify slow for the current case (dials backend):
// Dials is then busy for that long with every new version, and the watcher's
// next report has to wait for it.
var verifyDelayNs int64

// Verify implements dials.VerifiedConfig.
func (c cfgT) Verify() error {
	if d := atomic.LoadInt64(&verifyDelayNs); d > 0 {
		time.Sleep(time.Duration(d))
	}
	return nil
}

const contentLen = 32
const firstInvalid = 100
const altBase = 200

// pairBase..: pairs of VALID documents with different values that collide under
// a common unkeyed 32-bit checksum (crc32-IEEE, crc32-Castagnoli, adler32,
// fnv32a), found by a birthday search at start.  One replacing the other is a
// real change; a change detection built on such a checksum calls it unchanged.
const pairBase = 300

var pairDocs []string // 2k, 2k+1 collide under checksum k
var pairVals []int

func findWeakChecksumPairs() {
	sums := []func([]byte) uint32{
		crc32.ChecksumIEEE,
		func(b []byte) uint32 { return crc32.Checksum(b, crc32.MakeTable(crc32.Castagnoli)) },
		adler32.Checksum,
		func(b []byte) uint32 { h := fnv.New32a(); h.Write(b); return h.Sum32() },
	}
	for _, sum := range sums {
		seen := map[uint32]int{} // checksum -> index into docs
		var docs []string
		var vals []int
		found := false
		for filler := 0; filler < 2000000 && !found; filler++ {
			a := 60 + filler%40 // values the generator never uses for plain contents
			// an unknown string field as filler: 12 pseudo-random characters
			z := uint64(filler)*0x9E3779B97F4A7C15 + 0x1234567
			var fill [12]byte
			for i := range fill {
				z = (z ^ (z >> 30)) * 0xBF58476D1CE4E5B9
				z ^= z >> 27
				fill[i] = "abcdefghijklmnopqrstuvwxyz0123456789"[z%36]
				z = z*0x94D049BB133111EB + uint64(i)
			}
			d := fmt.Sprintf(`{"A": %d, "B": "%s"}`, a, fill[:])
			for len(d) < contentLen {
				d += " "
			}
			k := sum([]byte(d))
			if j, ok := seen[k]; ok && vals[j] != a {
				pairDocs = append(pairDocs, docs[j], d)
				pairVals = append(pairVals, vals[j], a)
				found = true
				break
			}
			if _, ok := seen[k]; !ok {
				seen[k] = len(docs)
			}
			docs = append(docs, d)
			vals = append(vals, a)
		}
		if !found {
			panic("no colliding pair found")
		}
	}
}

// number of malformed content ids; the last four are degenerate files of other lengths
const numInvalid = 12
const (
	cidEmpty      = firstInvalid + 8  // 0 bytes: truncate without write, `: > file`, rename-over by an empty file
	cidWhitespace = firstInvalid + 9  // blanks only
	cidBOM        = firstInvalid + 10 // a lone UTF-8 byte order mark
	cidNUL        = firstInvalid + 11 // a single NUL byte
)

// contentBytes maps a content id to file bytes, of fixed length except for the
// degenerate ones.  Ids below firstInvalid decode to cfgT{A: id}; the others
// are malformed in various ways.
func contentBytes(c int) []byte {
	var s string
	if c >= pairBase && c < pairBase+len(pairDocs) {
		return []byte(pairDocs[c-pairBase])
	}
	if c >= altBase && c < altBase+firstInvalid {
		// the same value as id c-altBase, other bytes: only blanks differ
		s = fmt.Sprintf(`{ "A" :%d }`, c-altBase)
		for len(s) < contentLen {
			s = " " + s
		}
		return []byte(s)
	}
	switch c {
	case cidEmpty:
		return []byte{}
	case cidWhitespace:
		return []byte(" \n\t \r\n ")
	case cidBOM:
		return []byte{0xEF, 0xBB, 0xBF}
	case cidNUL:
		return []byte{0}
	}
	if c < firstInvalid {
		s = fmt.Sprintf(`{"A": %d}`, c)
	} else {
		switch c % 4 {
		case 0:
			s = fmt.Sprintf(`{"A": %d`, c)
		case 1:
			s = fmt.Sprintf(`{"A": "x%d"}`, c)
		case 2:
			s = fmt.Sprintf(`not json %d`, c)
		default:
			s = fmt.Sprintf(`{"A": %d,,}`, c)
		}
	}
	for len(s) < contentLen {
		s += " "
	}
	return []byte(s)
}

// contentID is the inverse of contentBytes on what the harness wrote.
func contentID(b []byte) (int, bool) {
	for c := 0; c < pairBase+len(pairDocs); c++ {
		if string(contentBytes(c)) == string(b) {
			return c, true
		}
	}
	return 0, false
}

// ---------------------------------------------------------------- a decoder with wrapped sentinel errors

// wrapDecoder behaves like the JSON decoder, but its errors wrap well-known
// sentinel errors the way a decoder with an include / reference feature would
// (a missing include is fs.ErrNotExist somewhere down the chain).  Whatever
// the chain contains, a decoder error must be reported; only a missing config
// file itself is tolerated silently.
type wrapDecoder struct{ inner djson.Decoder }

var sentinels = []error{
	fs.ErrNotExist, os.ErrNotExist, &fs.PathError{Op: "open", Path: "included.json", Err: syscall.ENOENT},
	fs.ErrPermission, io.ErrUnexpectedEOF, context.Canceled, &os.SyscallError{Syscall: "open", Err: syscall.ENOENT},
}

func (d *wrapDecoder) Decode(r io.Reader, t *dials.Type) (reflect.Value, error) {
	b, err := io.ReadAll(r)
	if err != nil {
		return reflect.Value{}, err
	}
	v, err := d.inner.Decode(strings.NewReader(string(b)), t)
	if err != nil {
		k := len(b)
		if id, ok := contentID(b); ok {
			k = id
		}
		return v, fmt.Errorf("resolving includes of %d bytes: %w (%v)", len(b), sentinels[k%len(sentinels)], err)
	}
	return v, nil
}

// nanDecoder behaves like the JSON decoder, but every value it returns holds a
// NaN in a field the file never mentions: equal bytes still decode to values
// that are not reflect.DeepEqual, so "unchanged" must be decided on the bytes.
type nanDecoder struct{ inner djson.Decoder }

func (d *nanDecoder) Decode(r io.Reader, t *dials.Type) (reflect.Value, error) {
	v, err := d.inner.Decode(r, t)
	if err != nil {
		return v, err
	}
	nv := reflect.New(v.Type()).Elem()
	nv.Set(v)
	f := nv.FieldByName("F")
	nan := math.NaN()
	if f.Kind() == reflect.Ptr {
		f.Set(reflect.ValueOf(&nan))
	} else {
		f.SetFloat(nan)
	}
	return nv, nil
}

// ---------------------------------------------------------------- event hook

type hookState struct {
	mu     sync.Mutex
	events []string
	seen   map[string]chan struct{}
}

var hooks sync.Map // *file.WatchingSource -> *hookState

func init() {
	file.VerifSetEventHook(func(ws *file.WatchingSource, name string) {
		v, ok := hooks.Load(ws)
		if !ok {
			return
		}
		h := v.(*hookState)
		h.mu.Lock()
		if ch, ok := h.seen[name]; ok {
			close(ch)
			delete(h.seen, name)
		} else {
			h.events = append(h.events, name)
		}
		h.mu.Unlock()
	})
}

// ---------------------------------------------------------------- holding the loop inside a pass

type holder struct {
	mu      sync.Mutex
	armed   bool
	held    chan struct{}
	release chan struct{}
}

var holders sync.Map // *file.WatchingSource -> *holder

func init() {
	file.VerifSetAfterValueHook(func(ws *file.WatchingSource) {
		v, ok := holders.Load(ws)
		if !ok {
			return
		}
		h := v.(*holder)
		h.mu.Lock()
		if !h.armed {
			h.mu.Unlock()
			return
		}
		h.armed = false
		held, release := h.held, h.release
		h.mu.Unlock()
		close(held)
		<-release
	})
}

// arm makes the next pass of the loop stop right after Source.Value.
func (h *holder) arm() {
	h.mu.Lock()
	h.armed, h.held, h.release = true, make(chan struct{}), make(chan struct{})
	h.mu.Unlock()
}

// waitHeld reports whether the loop is now held; if no pass came it disarms.
func (h *holder) waitHeld(d time.Duration) bool {
	select {
	case <-h.held:
		return true
	case <-time.After(d):
	}
	h.mu.Lock()
	if h.armed {
		h.armed = false
		h.mu.Unlock()
		return false
	}
	h.mu.Unlock()
	<-h.held
	return true
}

// ---------------------------------------------------------------- recording WatchArgs

type rep struct {
	isErr bool
	ioErr bool // an error that does not come from the decoder (open/read failure other than not-exist)
	val   int
}

type recArgs struct {
	mu      sync.Mutex
	reports []rep
	done    int
	// a receiver that stays busy until the watcher's context ends: the report is
	// in flight when the cancellation arrives (seeded C17-r)
	busy     atomic.Bool
	inflight atomic.Int64
}

func valueOf(v reflect.Value) int {
	for v.Kind() == reflect.Ptr || v.Kind() == reflect.Interface {
		if v.IsNil() {
			return -1
		}
		v = v.Elem()
	}
	f := v.FieldByName("A")
	for f.Kind() == reflect.Ptr {
		if f.IsNil() {
			return -1
		}
		f = f.Elem()
	}
	return int(f.Int())
}

func (r *recArgs) ReportNewValue(ctx context.Context, val reflect.Value) error {
	if r.busy.Load() {
		r.inflight.Add(1)
		<-ctx.Done()
		return ctx.Err()
	}
	r.mu.Lock()
	r.reports = append(r.reports, rep{val: valueOf(val)})
	r.mu.Unlock()
	return nil
}
func (r *recArgs) BlockingReportNewValue(ctx context.Context, val reflect.Value) error {
	return r.ReportNewValue(ctx, val)
}
func (r *recArgs) ReportError(_ context.Context, err error) error {
	if os.Getenv("C17_DEBUG") != "" {
		fmt.Fprintf(os.Stderr, "c17 debug: reported error: %v\n", err)
	}
	var de *file.DecoderErr
	lastErrMu.Lock()
	lastErr = err.Error()
	lastErrMu.Unlock()
	r.mu.Lock()
	r.reports = append(r.reports, rep{isErr: true, ioErr: !errors.As(err, &de)})
	r.mu.Unlock()
	return nil
}
func (r *recArgs) Done(context.Context) {
	r.mu.Lock()
	r.done++
	r.mu.Unlock()
}

var (
	lastErrMu sync.Mutex
	lastErr   string
)

func lastErrText() string {
	lastErrMu.Lock()
	defer lastErrMu.Unlock()
	return lastErr
}

type obs struct {
	nvals, nerrs int
	nio          int // errors that did not come from the decoder
	last         int // last reported value (-1 none)
	lastErr      bool
	dup          bool // two consecutive value reports carried the same value
}

func (r *recArgs) snapshot() obs {
	r.mu.Lock()
	defer r.mu.Unlock()
	o := obs{last: -1}
	prev := -2
	for _, x := range r.reports {
		if x.isErr {
			o.nerrs++
			if x.ioErr {
				o.nio++
			}
			o.lastErr = true
		} else {
			o.nvals++
			o.lastErr = false
			if x.val == prev {
				o.dup = true
			}
			prev = x.val
			o.last = x.val
		}
	}
	return o
}

// ---------------------------------------------------------------- the world (file tree of one case)

const (
	shRegular = iota
	shK8s
	shLink
	shMissing
	shDangling // the config symlink exists, its target does not
	shDir      // a directory sits where the file should be: reading it fails (EISDIR)
)

type world struct {
	root, d, cfg, sent string
	shape              int
	linkName           string // ..data or ..dir
	gen                int
	target             string // the real file behind cfg ("" if none)
	targetDir          string // directory holding the target when it is not d
	danglingOf         int    // shape to return to when a dangling link's target is recreated
	cur                int    // id of the content last written
	ino                int    // logical inode id of the target (0 = none)
	nextIno            int
	gone               []string // directories removed by the current operation
	dead               []int    // config inodes destroyed by the current operation
	odirs              []string // every "other" directory a symlink ever pointed into (paths are reused by linkto)
	mid                int      // content written first by a "rewrite2" that took effect (-1 none)
	entryChanged       bool     // the current operation created, replaced or removed the config path's own directory entry
}

func must(err error) {
	if err != nil {
		panic(err)
	}
}

func (w *world) next() int { w.gen++; return w.gen }
func (w *world) newIno()   { w.nextIno++; w.ino = w.nextIno }

// writeInPlace overwrites an open file: one pwrite when the length stays or
// grows; when it shrinks the file is cut first (what is left of the old
// content for an instant - a short prefix of it - is never valid).
func writeInPlace(f *os.File, b []byte) {
	fi, err := f.Stat()
	must(err)
	if fi.Size() > int64(len(b)) {
		must(f.Truncate(int64(len(b))))
	}
	if len(b) > 0 {
		_, err = f.WriteAt(b, 0)
		must(err)
	}
}

func writeFile(p string, b []byte) {
	f, err := os.OpenFile(p, os.O_WRONLY|os.O_CREATE|os.O_EXCL, 0o644)
	must(err)
	_, err = f.Write(b)
	must(err)
	must(f.Close())
}

// cleanup deals with the previous target after the config path was switched
// away from it.  Variant bit 1 (v&2): leave it alone (file and directory stay).  Otherwise the old file is removed and, unless
// variant bit 0 is set, its directory too.
func (w *world) cleanup(oldShape, oldIno int, oldTarget, oldDir string, v int) {
	if oldShape == shRegular || oldShape == shMissing {
		return
	}
	k8s := oldShape == shK8s || (oldShape == shDangling && w.danglingOf == shK8s)
	if v&2 != 0 {
		// also for kubernetes layouts: the swap of the ..data link itself must
		// be noticed, not only the removal of the old timestamped directory
		return
	}
	if oldShape != shDangling && oldTarget != "" {
		if err := os.Remove(oldTarget); err == nil && oldIno != 0 {
			w.dead = append(w.dead, oldIno)
		}
	}
	if oldDir != "" && (v&1 == 0 || k8s) {
		if err := os.Remove(oldDir); err == nil {
			w.gone = append(w.gone, oldDir)
		}
	}
}

func (w *world) dropK8sLink() {
	if w.linkName != "" {
		os.Remove(filepath.Join(w.d, w.linkName))
	}
}

func (w *world) apply(o op, pause func()) {
	w.gone, w.dead, w.entryChanged, w.mid = nil, nil, false, -1
	if o.K == "trename" && !(w.shape == shK8s || w.shape == shLink || w.shape == shDangling) {
		o.K = "rename" // no separate target: replacing the target is replacing the config path's entry
	}
	c := o.C
	if c < 0 {
		c = w.cur
	}
	b := contentBytes(c)
	if o.A && c < firstInvalid {
		b = contentBytes(altBase + c)
	}
	oldShape, oldIno, oldTarget, oldDir := w.shape, w.ino, w.target, w.targetDir
	replaced := func() { // the rename replaced the directory entry of the config path
		w.entryChanged = true
		if oldShape == shRegular {
			w.dead = append(w.dead, oldIno)
		}
	}
	if w.shape == shDir && o.K != "reload" && o.K != "dir" {
		// every operation first removes the directory that sits in the way
		must(os.Remove(w.cfg))
		w.dead = append(w.dead, w.ino)
		w.entryChanged = true
		w.shape, w.target, w.targetDir, w.ino = shMissing, "", "", 0
		oldShape, oldIno, oldTarget, oldDir = shMissing, 0, "", ""
		pause()
	}
	switch o.K {
	case "reload":
		return
	case "dir":
		if w.shape == shDir {
			return
		}
		if w.shape != shMissing {
			must(os.Remove(w.cfg))
			replaced()
			if oldShape == shK8s || (oldShape == shDangling && w.danglingOf == shK8s) {
				w.dropK8sLink()
			}
			w.cleanup(oldShape, oldIno, oldTarget, oldDir, o.V&2)
			pause()
		}
		must(os.Mkdir(w.cfg, 0o755))
		w.entryChanged = true
		w.shape, w.target, w.targetDir = shDir, w.cfg, ""
		w.newIno()
		return
	case "rmparent":
		// the whole config directory disappears and comes back with a regular file
		must(os.RemoveAll(w.d))
		if oldDir != "" && !strings.HasPrefix(oldDir, w.d) {
			os.RemoveAll(oldDir)
		}
		pause()
		must(os.Mkdir(w.d, 0o755))
		pause()
		writeFile(w.cfg, b)
		w.shape, w.target, w.targetDir, w.cur = shRegular, w.cfg, "", c
		w.newIno()
		return
	case "rewrite", "trunc", "rewritem", "rewrite2":
		exists := w.shape == shRegular || w.shape == shK8s || w.shape == shLink
		w.mid = -1
		if o.K != "trunc" && exists {
			f, err := os.OpenFile(w.cfg, os.O_WRONLY, 0)
			must(err)
			fi, err := f.Stat()
			must(err)
			if o.K == "rewrite2" {
				// two same-size rewrites back to back (one clock tick on coarse timestamps)
				writeInPlace(f, contentBytes(o.M))
				w.mid = o.M
				pause()
			}
			writeInPlace(f, b)
			must(f.Close())
			if o.K == "rewritem" {
				// a writer that preserves timestamps (rsync --inplace --times, touch -r):
				// same inode, same size, and the modification time of the previous content
				must(os.Chtimes(w.cfg, fi.ModTime(), fi.ModTime()))
			}
		} else {
			f, err := os.OpenFile(w.cfg, os.O_WRONLY|os.O_CREATE|os.O_TRUNC, 0o644)
			must(err)
			pause()
			_, err = f.Write(b)
			must(err)
			must(f.Close())
			if !exists {
				w.newIno()
				if w.shape == shMissing {
					w.entryChanged = true
					w.shape, w.target, w.targetDir = shRegular, w.cfg, ""
				} else { // dangling: the target was created through the link
					w.shape = w.danglingOf
				}
			}
		}
		w.cur = c
	case "rename", "overflow":
		tmp := filepath.Join(w.d, fmt.Sprintf(".tmp-%d", w.next()))
		writeFile(tmp, b)
		pause()
		must(os.Rename(tmp, w.cfg))
		replaced()
		w.shape, w.target, w.targetDir, w.cur = shRegular, w.cfg, "", c
		w.newIno()
		pause()
		if oldShape == shK8s || (oldShape == shDangling && w.danglingOf == shK8s) {
			w.dropK8sLink()
		}
		w.cleanup(oldShape, oldIno, oldTarget, oldDir, o.V)
	case "k8s":
		ts := fmt.Sprintf("..ts_%d", w.next())
		tsDir := filepath.Join(w.d, ts)
		must(os.Mkdir(tsDir, 0o755))
		writeFile(filepath.Join(tsDir, "config.json"), b)
		link := filepath.Join(w.d, w.linkName)
		tmpLink := filepath.Join(w.d, w.linkName+"_tmp")
		inK8s := oldShape == shK8s || (oldShape == shDangling && w.danglingOf == shK8s)
		must(os.Symlink(ts, tmpLink))
		pause()
		must(os.Rename(tmpLink, link))
		if !inK8s {
			// (re)create the user-visible link config.json -> <link>/config.json
			tmp := filepath.Join(w.d, fmt.Sprintf(".tmpl-%d", w.next()))
			must(os.Symlink(filepath.Join(w.linkName, "config.json"), tmp))
			pause()
			must(os.Rename(tmp, w.cfg))
			replaced()
		}
		w.shape, w.target, w.targetDir, w.cur = shK8s, filepath.Join(tsDir, "config.json"), tsDir, c
		w.newIno()
		pause()
		w.cleanup(oldShape, oldIno, oldTarget, oldDir, o.V)
	case "trename":
		// atomic replacement of the TARGET file inside its own directory; the
		// config path's entry (a symlink) is not touched
		tmp := filepath.Join(filepath.Dir(w.target), fmt.Sprintf(".tmp-%d", w.next()))
		writeFile(tmp, b)
		pause()
		must(os.Rename(tmp, w.target))
		if w.shape == shDangling {
			w.shape = w.danglingOf
		} else {
			w.dead = append(w.dead, oldIno)
		}
		w.cur = c
		w.newIno()
	case "link", "linkto":
		od := ""
		if o.K == "linkto" && len(w.odirs) > 0 {
			// back into a directory an earlier symlink pointed into - possibly
			// removed since: it is then re-created under the same path
			od = w.odirs[o.M%len(w.odirs)]
			must(os.MkdirAll(od, 0o755))
		} else {
			od = filepath.Join(w.root, fmt.Sprintf("o%d", w.next()))
			must(os.Mkdir(od, 0o755))
			w.odirs = append(w.odirs, od)
		}
		tgt := filepath.Join(od, fmt.Sprintf("file-%d.json", w.next()))
		writeFile(tgt, b)
		tmp := filepath.Join(w.d, fmt.Sprintf(".tmpl-%d", w.next()))
		must(os.Symlink(tgt, tmp))
		pause()
		must(os.Rename(tmp, w.cfg))
		replaced()
		w.shape, w.target, w.targetDir, w.cur = shLink, tgt, od, c
		w.newIno()
		pause()
		if oldShape == shK8s || (oldShape == shDangling && w.danglingOf == shK8s) {
			w.dropK8sLink()
		}
		w.cleanup(oldShape, oldIno, oldTarget, oldDir, o.V)
	case "delete":
		switch {
		case w.shape == shMissing || w.shape == shDangling:
			return
		case o.V&1 == 1 && (w.shape == shK8s || w.shape == shLink):
			// remove only the target: the config path becomes a dangling symlink
			must(os.Remove(w.target))
			w.dead = append(w.dead, oldIno)
			w.danglingOf = w.shape
			w.shape = shDangling
			w.ino = 0
		default:
			must(os.Remove(w.cfg))
			replaced()
			pause()
			if oldShape == shK8s {
				w.dropK8sLink()
			}
			w.cleanup(oldShape, oldIno, oldTarget, oldDir, o.V&2)
			w.shape, w.target, w.targetDir, w.ino = shMissing, "", "", 0
		}
	default:
		panic("bad op " + o.K)
	}
}

// truth reads the config path the way an independent observer would.
// kind: 0 absent, 1 readable content, 2 present but unreadable (a directory).
func (w *world) truth() (kind int, cid int, resolved string) {
	b, err := os.ReadFile(w.cfg)
	if err != nil {
		if os.IsNotExist(err) {
			return 0, 0, ""
		}
		r, rerr := filepath.EvalSymlinks(w.cfg)
		must(rerr)
		return 2, 0, r
	}
	id, ok := contentID(b)
	if !ok {
		panic(fmt.Sprintf("unrecognised content %q", b))
	}
	r, err := filepath.EvalSymlinks(w.cfg)
	must(err)
	return 1, id, r
}

// linkres is what the loop's not-exist branch can learn about a (dangling)
// symlink: the directory its target names, resolved, plus the base name.
func (w *world) linkres() (string, bool) {
	tgt, err := os.Readlink(w.cfg)
	if err != nil {
		return "", false
	}
	if !filepath.IsAbs(tgt) {
		tgt = filepath.Join(w.d, tgt)
	}
	dir, err := filepath.EvalSymlinks(filepath.Dir(tgt))
	if err != nil {
		return "", false
	}
	return filepath.Join(dir, filepath.Base(tgt)), true
}

func (w *world) sym(p string) string {
	rel, err := filepath.Rel(w.root, p)
	if err != nil || strings.HasPrefix(rel, "..") {
		rel = "OUTSIDE/" + p
	}
	return coqfmt.Strs(strings.Split(rel, "/"))
}

func (w *world) symList(ps []string) string {
	var parts []string
	sort.Strings(ps)
	for _, p := range ps {
		if p == w.sent {
			continue
		}
		parts = append(parts, w.sym(p))
	}
	return coqfmt.List(parts)
}

// ---------------------------------------------------------------- running one case

var scratch string
var caseNo int

type runner struct {
	w      *world
	ws     *file.WatchingSource
	hs     *hookState
	args   *recArgs
	cancel context.CancelFunc
	reload chan os.Signal
	sentN  int
	// dials backend
	d      *dials.Dials[cfgT]
	dmu    sync.Mutex
	dvals  []int
	derrs  int
	direct []string
	r0     string // resolved config path when Watch() was called
	hold   *holder
}

func early(in input) int {
	if in.Backend != "args" || in.Early <= 0 {
		return 0
	}
	if in.Early > len(in.Ops) {
		return len(in.Ops)
	}
	return in.Early
}

func setup(in input) *runner {
	caseNo++
	root := filepath.Join(scratch, fmt.Sprintf("case-%d", caseNo))
	must(os.MkdirAll(root, 0o755))
	root, err := filepath.EvalSymlinks(root)
	must(err)
	w := &world{root: root, d: filepath.Join(root, "cfg"), sent: filepath.Join(root, "sent"), linkName: "..data"}
	w.cfg = filepath.Join(w.d, "config.json")
	must(os.Mkdir(w.d, 0o755))
	must(os.Mkdir(w.sent, 0o755))
	if in.Layout == 2 {
		w.linkName = "..dir"
	}
	w.shape = shMissing
	switch in.Layout {
	case 0:
		w.apply(op{K: "rename", C: 0}, func() {})
	case 1, 2:
		w.apply(op{K: "k8s", C: 0}, func() {})
	default:
		w.apply(op{K: "link", C: 0}, func() {})
	}
	r := &runner{w: w, args: &recArgs{reports: []rep{{val: 0}}}, reload: make(chan os.Signal)}
	opts := []file.WatchOpt{file.WithSignalChannel(r.reload)}
	if in.Poll {
		opts = append(opts, file.WithPollInterval(3*time.Millisecond))
	}
	var dec dials.Decoder = &djson.Decoder{}
	switch in.Dec {
	case 1:
		dec = &wrapDecoder{}
	case 2:
		dec = &nanDecoder{}
	}
	ws, err := file.NewWatchingSource(w.cfg, dec, opts...)
	must(err)
	r.ws = ws
	r.hs = &hookState{seen: map[string]chan struct{}{}}
	hooks.Store(ws, r.hs)
	r.hold = &holder{}
	holders.Store(ws, r.hold)
	ctx, cancel := context.WithCancel(context.Background())
	r.cancel = cancel
	if in.Backend == "dials" {
		atomic.StoreInt64(&verifyDelayNs, int64(in.Slow)*int64(time.Millisecond))
		p := dials.Params[cfgT]{
			OnNewConfig: func(_ context.Context, _, n *cfgT) {
				r.dmu.Lock()
				r.dvals = append(r.dvals, n.A)
				r.dmu.Unlock()
			},
			OnWatchedError: func(_ context.Context, _ error, _, _ *cfgT) {
				r.dmu.Lock()
				r.derrs++
				r.dmu.Unlock()
			},
		}
		r.r0, _ = filepath.EvalSymlinks(w.cfg)
		d, err := p.Config(ctx, &cfgT{A: -7}, ws)
		must(err)
		r.d = d
		if d.View().A != 0 {
			panic("initial view")
		}
	} else {
		typ := dials.NewType(ptrify.Pointerify(reflect.TypeOf(cfgT{}), reflect.ValueOf(cfgT{})))
		v, err := ws.Value(ctx, typ)
		must(err)
		if valueOf(v) != 0 {
			panic("initial value")
		}
		// changes racing with start-up: after dials.Config's initial Value(),
		// before Watch() has set up any watch
		for _, o := range in.Ops[:early(in)] {
			if o.K != "reload" {
				w.apply(o, func() {})
			}
		}
		if w.shape == shMissing || w.shape == shDangling {
			// Watch() refuses to start on a missing file; keep the case well formed
			w.apply(op{K: "trunc", C: w.cur}, func() {})
		}
		r.r0, err = filepath.EvalSymlinks(w.cfg)
		must(err)
		must(ws.Watch(ctx, typ, r.args))
	}
	must(ws.VerifWatcher().Add(w.sent))
	return r
}

// settle waits until the loop has handled every event queued so far.  Two
// rounds: an inode unlinked while the loop still had it open is destroyed (and
// its watch dropped) only when the loop closes it, i.e. possibly after the
// first sentinel was queued.
// sentinelWaits: a sentinel event that never arrives (the loop is stuck, or the
// implementation throws events away) first costs a second, not a minute; the
// total patience before the loop is declared unresponsive stays about a minute.
var sentinelWaits = []time.Duration{time.Second, 2 * time.Second, 4 * time.Second, 8 * time.Second, 16 * time.Second, 30 * time.Second}

var sentinelsLost int64

func (r *runner) settle() bool { return r.settleSched(sentinelWaits) }

func (r *runner) settleWith(attempts int, each time.Duration) bool {
	sched := make([]time.Duration, attempts)
	for i := range sched {
		sched[i] = each
	}
	return r.settleSched(sched)
}

func (r *runner) settleSched(sched []time.Duration) bool {
	for round := 0; round < 2; round++ {
		ok := false
		for _, each := range sched {
			r.sentN++
			name := filepath.Join(r.w.sent, fmt.Sprintf("s%d", r.sentN))
			ch := make(chan struct{})
			r.hs.mu.Lock()
			r.hs.seen[name] = ch
			r.hs.mu.Unlock()
			writeFile(name, nil)
			select {
			case <-ch:
				ok = true
			case <-time.After(each):
				atomic.AddInt64(&sentinelsLost, 1)
			}
			if ok {
				break
			}
		}
		if !ok {
			return false
		}
	}
	return true
}

// maxQueuedEvents is the kernel's per-instance inotify queue limit.
func maxQueuedEvents() int {
	b, err := os.ReadFile("/proc/sys/fs/inotify/max_queued_events")
	n := 16384
	if err == nil {
		fmt.Sscanf(strings.TrimSpace(string(b)), "%d", &n)
	}
	return n
}

// flood generates more events on unrelated files of the config directory than
// the kernel queue plus fsnotify's read buffer can hold (alternating files, so
// that consecutive events are not merged).
func (r *runner) flood() {
	var fs [2]*os.File
	for i := range fs {
		f, err := os.OpenFile(filepath.Join(r.w.d, fmt.Sprintf(".flood-%d", i)), os.O_WRONLY|os.O_CREATE, 0o644)
		must(err)
		fs[i] = f
	}
	n := maxQueuedEvents() + 4096 + 4000
	for i := 0; i < n; i++ {
		_, err := fs[i%2].WriteAt([]byte{byte(i)}, 0)
		must(err)
	}
	for _, f := range fs {
		f.Close()
	}
}

func (r *runner) takeEvents() []string {
	r.hs.mu.Lock()
	defer r.hs.mu.Unlock()
	var out []string
	for _, e := range r.hs.events {
		if !strings.HasPrefix(e, r.w.sent) {
			out = append(out, e)
		}
	}
	r.hs.events = nil
	return out
}

func (r *runner) sendReload() bool {
	select {
	case r.reload <- syscall.SIGHUP:
		return true
	case <-time.After(15 * time.Second):
		return false
	}
}

func countInotify() int {
	ents, err := os.ReadDir("/proc/self/fd")
	if err != nil {
		return -1
	}
	n := 0
	for _, e := range ents {
		if l, err := os.Readlink("/proc/self/fd/" + e.Name()); err == nil && strings.Contains(l, "inotify") {
			n++
		}
	}
	return n
}

func loopGoroutines() int {
	buf := make([]byte, 1<<20)
	n := runtime.Stack(buf, true)
	s := string(buf[:n])
	return strings.Count(s, "(*WatchingSource).watchLoop") + strings.Count(s, "fsnotify.(*inotify).readEvents")
}

// teardown cancels the context and evaluates the release part of the property.
func (r *runner) teardown() (released bool, why string) {
	atomic.StoreInt64(&verifyDelayNs, 0)
	r.cancel()
	done := make(chan struct{})
	go func() { r.ws.WG.Wait(); close(done) }()
	released = true
	select {
	case <-done:
	case <-time.After(20 * time.Second):
		released, why = false, "watchLoop did not return within 20s after cancel"
	}
	hooks.Delete(r.ws)
	holders.Delete(r.ws)
	if released {
		// the reader goroutine of fsnotify exits asynchronously after Close
		deadline := time.Now().Add(10 * time.Second)
		for {
			g, fds := loopGoroutines(), countInotify()
			if g == 0 && fds == 0 {
				break
			}
			if time.Now().After(deadline) {
				released, why = false, fmt.Sprintf("after cancel: %d watcher goroutines, %d inotify descriptors still alive", g, fds)
				break
			}
			time.Sleep(2 * time.Millisecond)
		}
		if wl := r.ws.VerifWatchList(); len(wl) != 0 {
			released, why = false, "watch list not empty after cancel"
		}
	}
	signal.Stop(r.reload)
	os.RemoveAll(r.w.root)
	return
}

var pauses = []time.Duration{0, 50 * time.Microsecond, 2 * time.Millisecond}

func coqRead(kind int, cid int) string {
	switch kind {
	case 0:
		return "NotExist"
	case 1:
		return fmt.Sprintf("(Content %d)", cid)
	default:
		return "IOErr"
	}
}

func optPath(w *world, ok bool, p string) string {
	if !ok {
		return "None"
	}
	return "(Some " + w.sym(p) + ")"
}

func optN(v int) string {
	if v < 0 {
		return "None"
	}
	return fmt.Sprintf("(Some %d)", v)
}

func opTerm(o op) string {
	k := map[string]string{"rewrite": "ORewrite", "trunc": "OTrunc", "rename": "ORename", "k8s": "OK8s",
		"link": "OLink", "delete": "ODelete", "reload": "OReload", "dir": "ODir", "rmparent": "ORmParent",
		"rewritem": "ORewriteM", "rewrite2": "ORewrite2", "overflow": "OOverflow", "linkto": "OLink", "trename": "OTRename"}[o.K]
	return k
}

// runQuiescent repeats a case (fresh directory) when a step reported an error
// although neither the content before nor after the operation is malformed and
// the operation has no transient state.  Such a report does not touch the
// property (the view is right); it was seen about once in 16000 cases under
// heavy machine load and never reproduced.  A defect of the code would show up
// again in the repetition; the repetition is counted in the tags.
func runQuiescent(in input) driver.Result {
	var res driver.Result
	for attempt := 0; attempt < 3; attempt++ {
		var odd bool
		res, odd = runQuiescentOnce(in)
		if !odd {
			break
		}
		res.Tags = append(res.Tags, "q-repeated-unexplained-error-report")
	}
	return res
}

// noteOdd leaves a trace of an unexplained error report for later diagnosis.
func noteOdd(in input, term string, step int) {
	if f, err := os.OpenFile(filepath.Join("..", "build", "c17-unexplained-errors.log"), os.O_APPEND|os.O_CREATE|os.O_WRONLY, 0o644); err == nil {
		b, _ := json.Marshal(in)
		fmt.Fprintf(f, "%s step %d (%s): %s; last error: %s\n", time.Now().Format(time.RFC3339), step, term, b, lastErrText())
		f.Close()
	}
}

func runQuiescentOnce(in input) (driver.Result, bool) {
	odd := false
	r := setup(in)
	w := r.w
	res := driver.Result{Kind: fmt.Sprintf("quiescent-layout%d", in.Layout)}
	if early(in) > 0 {
		res.Kind += "-early"
	}
	var steps []string
	kinds := map[string]bool{}
	changes := 0
	prevCid, prevExists := 0, true
	prevNio, prevNerrs, prevKind := 0, 0, 1
	record := func(term string, o op, transient bool) bool {
		if o.K == "reload" && !r.sendReload() {
			res.Direct = append(res.Direct, "watch loop did not take an explicit reload within 15s")
			return false
		}
		if !r.settle() {
			res.Direct = append(res.Direct, "watch loop unresponsive (sentinel event never received)")
			return false
		}
		evs := r.takeEvents()
		kind, cid, resolved := w.truth()
		exists := kind != 0
		lres, lok := w.linkres()
		ob := r.args.snapshot()
		var evTerms, goneTerms, deadTerms []string
		for _, e := range evs {
			evTerms = append(evTerms, w.sym(e))
		}
		for _, g := range w.gone {
			goneTerms = append(goneTerms, w.sym(g))
		}
		for _, x := range w.dead {
			deadTerms = append(deadTerms, fmt.Sprint(x))
		}
		steps = append(steps, fmt.Sprintf("mkStep %s %s %s %s %d %s %s %s %s %s %s %d %d %d %s %s",
			term, coqRead(kind, cid), optPath(w, exists, resolved), optPath(w, lok, lres), w.ino, coqfmt.List(deadTerms), coqfmt.List(goneTerms),
			coqfmt.Bool(transient), optN(w.mid), coqfmt.List(evTerms), w.symList(r.ws.VerifWatchList()),
			ob.nvals, ob.nerrs, ob.nio, optN(ob.last), coqfmt.Bool(ob.lastErr)))
		if ob.nio > prevNio {
			res.Tags = append(res.Tags, "q-io-error-reported")
		}
		if ob.nerrs > prevNerrs && !transient && w.mid < firstInvalid && prevKind != 2 && prevCid < firstInvalid && kind != 2 && (!exists || cid < firstInvalid) {
			odd = true
			noteOdd(in, term, len(steps))
		}
		prevKind = kind
		prevNio, prevNerrs = ob.nio, ob.nerrs
		if kind != 1 {
			cid = firstInvalid
		}
		if exists != prevExists || cid != prevCid {
			changes++
		}
		prevCid, prevExists = cid, exists
		return true
	}
	// the state once the loop has taken its first pass after Watch()
	w.gone, w.dead, w.mid = nil, nil, -1
	ino0 := w.ino
	ok := record("OStart", op{K: "start"}, false)
	for _, o := range in.Ops[early(in):] {
		if !ok {
			break
		}
		if o.K == "rmparent" || o.K == "overflow" {
			continue // racing / window mode only
		}
		prevShape := w.shape
		w.apply(o, func() {})
		// an operation may let the loop read a transient state (empty file)
		transient := o.K == "trunc" || ((o.K == "rewrite" || o.K == "rewritem" || o.K == "rewrite2") &&
			!(prevShape == shRegular || prevShape == shK8s || prevShape == shLink))

		ok = record(opTerm(o), o, transient)
		kinds[o.K] = true
		res.Tags = append(res.Tags, "q-op-"+o.K)
	}
	if ok && r.args != nil && len(in.Ops)%2 == 0 {
		// cancellation while a report is in flight: the receiver is busy until the context
		// ends and then refuses the value; the loop has to return all the same
		r.args.busy.Store(true)
		w.apply(op{K: "rewrite", C: (w.cur + 1) % 3}, func() {})
		for dl := time.Now().Add(2 * time.Second); r.args.inflight.Load() == 0 && time.Now().Before(dl); {
			time.Sleep(time.Millisecond)
		}
		if r.args.inflight.Load() > 0 {
			res.Tags = append(res.Tags, "q-cancel-in-flight")
		}
	}
	released, why := r.teardown()
	if !released {
		res.Direct = append(res.Direct, why)
	}
	res.Coq = fmt.Sprintf("Quiescent %s %s %d %s", w.sym(w.cfg), w.sym(r.r0), ino0, coqfmt.List(steps))
	res.Nontrivial = len(kinds) >= 3 && changes >= 2
	return res, odd
}

func runRacing(in input) driver.Result {
	r := setup(in)
	w := r.w
	res := driver.Result{Kind: fmt.Sprintf("racing-%s-layout%d", in.Backend, in.Layout)}
	valid := map[int]bool{0: true}
	kinds := map[string]bool{}
	changes := 0
	if early(in) > 0 {
		res.Kind += "-early"
	}
	if w.cur < firstInvalid {
		valid[w.cur] = true
	}
	var hist []string
	for _, o := range in.Ops[early(in):] {
		time.Sleep(pauses[o.P%len(pauses)])
		before := w.cur
		shapeBefore := w.shape
		w.apply(o, func() { time.Sleep(pauses[o.P%len(pauses)]) })
		_ = shapeBefore
		hist = append(hist, opTerm(o))
		if o.K == "reload" {
			r.sendReload()
		}
		if w.cur < firstInvalid {
			valid[w.cur] = true
		} else if w.cur >= pairBase {
			valid[pairVals[w.cur-pairBase]] = true
		}
		if w.mid >= 0 && w.mid < firstInvalid {
			valid[w.mid] = true
		}
		if w.cur != before {
			changes++
		}
		kinds[o.K] = true
		res.Tags = append(res.Tags, "r-op-"+o.K)
	}
	if in.Poll {
		// the ticker is the only notification left after the parent directory was replaced
		time.Sleep(60 * time.Millisecond)
	}
	settled := r.settle()
	kind, cid, _ := w.truth()
	exists := kind != 0
	if kind == 2 {
		cid = firstInvalid // unreadable: like malformed content
	}
	if cid >= pairBase {
		cid = pairVals[cid-pairBase]
	} else if cid >= altBase {
		cid -= altBase // another byte form of the same value
	}
	var ob obs
	fail := func(format string, a ...interface{}) {
		res.Direct = append(res.Direct, fmt.Sprintf(format, a...))
	}
	if !settled {
		fail("watch loop unresponsive after the history (sentinel event never received)")
	}
	if in.Backend == "dials" {
		want := -1
		if exists && cid < firstInvalid {
			want = cid
		}
		deadline := time.Now().Add(8 * time.Second)
		for {
			got := r.d.View().A
			if want < 0 || got == want || time.Now().After(deadline) {
				ob.last = got
				break
			}
			time.Sleep(time.Millisecond)
		}
		if exists && cid >= firstInvalid {
			// the error travels through the monitor and the callback goroutine
			for time.Now().Before(deadline) {
				r.dmu.Lock()
				n := r.derrs
				r.dmu.Unlock()
				if n > 0 {
					break
				}
				time.Sleep(time.Millisecond)
			}
		}
		r.dmu.Lock()
		ob.nerrs = r.derrs
		ob.lastErr = r.derrs > 0 // order of values and errors is not observable through dials
		ob.nvals = len(r.dvals)
		r.dmu.Unlock()
	} else {
		ob = r.args.snapshot()
	}
	// The property's own oracle.  Whether the view converged (to decode(final),
	// or last good + error) is decided inside Coq from the term below;
	// everything else is a direct oracle.
	viewGood := valid[ob.last]
	if !viewGood {
		fail("the view A=%d is not a good value of the history", ob.last)
	}
	if in.Alt {
		ob.dup = false // the same value in other bytes may or may not give a new version: unspecified
	}
	if ob.dup {
		fail("a new version was reported for content identical to the previous version")
	}
	released, why := r.teardown()
	if !released {
		fail("%s", why)
	}
	res.Coq = fmt.Sprintf("Racing %s %s %s %s %s %s", coqfmt.List(hist), coqRead(kind, cid), optN(ob.last), coqfmt.Bool(ob.lastErr),
		coqfmt.Bool(ob.dup), coqfmt.Bool(released && viewGood && settled))
	res.Nontrivial = len(kinds) >= 3 && changes >= 2
	return res
}

// runWindow explores the window inside a pass deterministically: an operation
// flagged H makes the loop read; the loop is then held between Source.Value and
// the rest of the pass while the next operation is applied, and released.  At
// every idle point the property's own oracle is evaluated (in Coq).
func runWindow(in input) driver.Result {
	in.Backend = "args"
	r := setup(in)
	w := r.w
	res := driver.Result{Kind: fmt.Sprintf("window-layout%d", in.Layout)}
	fail := func(format string, a ...interface{}) {
		res.Direct = append(res.Direct, fmt.Sprintf(format, a...))
	}
	var points []string
	kinds := map[string]bool{}
	heldN := 0
	overflowed := false
	point := func() bool {
		settled := false
		if overflowed {
			// a sentinel created while the queue is still full is dropped as well
			overflowed = false
			time.Sleep(100 * time.Millisecond)
			settled = r.settleWith(30, time.Second)
			r.takeEvents()
		} else {
			settled = r.settle()
		}
		if !settled {
			fail("watch loop unresponsive (sentinel event never received)")
			return false
		}
		kind, cid, _ := w.truth()
		if kind == 2 {
			cid = firstInvalid
		}
		if cid >= pairBase {
			cid = pairVals[cid-pairBase]
		} else if cid >= altBase {
			cid -= altBase
		}
		ob := r.args.snapshot()
		points = append(points, fmt.Sprintf("(%s, %s, %s)", coqRead(kind, cid), optN(ob.last), coqfmt.Bool(ob.lastErr)))
		return true
	}
	do := func(o op) bool {
		if o.K == "rmparent" {
			return true
		}
		if o.K == "overflow" && maxQueuedEvents() <= 70000 {
			// park the loop inside a pass (explicit reload), overflow the inotify
			// queue, let the final rename-over land while the queue is full
			r.hold.arm()
			if !r.sendReload() {
				fail("watch loop did not take an explicit reload within 15s")
				return false
			}
			if r.hold.waitHeld(2 * time.Second) {
				r.flood()
				w.apply(o, func() {})
				close(r.hold.release)
				overflowed = true
				kinds[o.K] = true
				res.Tags = append(res.Tags, "w-op-overflow")
				return true
			}
		}
		w.apply(o, func() {})
		kinds[o.K] = true
		res.Tags = append(res.Tags, "w-op-"+o.K)
		if o.K == "reload" && !r.sendReload() {
			fail("watch loop did not take an explicit reload within 15s")
			return false
		}
		return true
	}
	ok := point()
	ops := in.Ops[early(in):]
	for i := 0; ok && i < len(ops); i++ {
		if ops[i].H && i+1 < len(ops) && ops[i+1].K != "reload" && ops[i].K != "overflow" && ops[i+1].K != "overflow" {
			r.hold.arm()
			ok = do(ops[i])
			if ok && r.hold.waitHeld(300*time.Millisecond) {
				heldN++
				res.Tags = append(res.Tags, "w-held-"+ops[i].K+"-then-"+ops[i+1].K)
				ok = do(ops[i+1])
				close(r.hold.release)
				i++
			}
		} else {
			ok = do(ops[i])
		}
		ok = ok && point()
	}
	ob := r.args.snapshot()
	if in.Alt {
		ob.dup = false
	}
	if ob.dup {
		fail("a new version was reported for content identical to the previous version")
	}
	released, why := r.teardown()
	if !released {
		fail("%s", why)
	}
	res.Coq = fmt.Sprintf("Window %s %s %s", coqfmt.List(points), coqfmt.Bool(ob.dup), coqfmt.Bool(released && ok))
	res.Nontrivial = heldN >= 1 && len(kinds) >= 2
	return res
}

// A run that takes far longer than any healthy run (5 minutes + 0.3 s per case
// so far; a healthy quick run needs well under a minute) means the
// implementation keeps the harness waiting - events thrown away, a loop that
// stops responding.  The remaining cases are then not run; each reports the
// overrun, so that the check ends with a VIOLATION instead of a timeout.
var (
	runStart time.Time
	runCases int
)

func overBudget() bool {
	if runStart.IsZero() {
		runStart = time.Now()
	}
	runCases++
	return time.Since(runStart) > 5*time.Minute+time.Duration(runCases)*300*time.Millisecond
}

func run(raw json.RawMessage) driver.Result {
	var in input
	if err := json.Unmarshal(raw, &in); err != nil {
		panic(err)
	}
	if overBudget() {
		return driver.Result{Coq: "Window [] false false", Kind: "not-run-over-budget",
			Direct: []string{fmt.Sprintf("harness over its time budget after %d cases (%d sentinel events never arrived): the watch loop keeps losing events or stops responding",
				runCases, atomic.LoadInt64(&sentinelsLost))}}
	}
	switch in.Mode {
	case "q":
		return runQuiescent(in)
	case "w":
		return runWindow(in)
	}
	return runRacing(in)
}

// ---------------------------------------------------------------- generator

var opKinds = []string{"rewrite", "trunc", "rename", "k8s", "link", "delete", "reload"}

func genOps(r *coqfmt.Rng, maxOps int) []op {
	n := 1 + r.Intn(maxOps)
	ops := make([]op, n)
	nextC := 1
	for i := range ops {
		var o op
		switch x := r.Intn(29); {
		case x >= 24 && x < 27:
			o.K = "trename"
		case x >= 27:
			o.K = "linkto"
			o.M = r.Intn(8)
		case x == 20:
			o.K = "dir"
		case x == 21 || x == 22:
			o.K = "rewritem"
		case x == 23:
			o.K = "rewrite2"
		case x < 4:
			o.K = "rewrite"
		case x < 6:
			o.K = "trunc"
		case x < 10:
			o.K = "rename"
		case x < 13:
			o.K = "k8s"
		case x < 16:
			o.K = "link"
		case x < 18:
			o.K = "delete"
		default:
			o.K = "reload"
		}
		switch y := r.Intn(10); {
		case y < 5: // fresh valid content
			o.C = nextC
			nextC++
		case y < 7: // identical bytes
			o.C = -1
		case y < 8: // an earlier valid content
			o.C = r.Intn(nextC)
		default: // malformed
			o.C = firstInvalid + r.Intn(numInvalid)
		}
		o.V = r.Intn(4)
		o.P = r.Intn(3)
		if o.K == "rewrite2" {
			if r.Chance(3, 4) {
				o.M = nextC
				nextC++
			} else {
				o.M = firstInvalid + r.Intn(numInvalid)
			}
		}
		ops[i] = o
	}
	return ops
}

func gen(r *coqfmt.Rng, n int, tier string) []json.RawMessage {
	var out []json.RawMessage
	maxOps := 12
	if tier == "thorough" {
		maxOps = 24
	}
	for i := 0; i < n; i++ {
		in := input{Layout: r.Intn(4), Ops: genOps(r, maxOps)}
		switch r.Intn(6) {
		case 0, 1:
			in.Dec = 1
		case 2:
			in.Dec = 2
		}
		if i%4 != 0 && i%4 != 2 && r.Chance(1, 6) && len(in.Ops) >= 2 {
			// weak-checksum probe: a document, then its collision partner in its place
			k := r.Intn(len(pairDocs) / 2)
			j := r.Intn(len(in.Ops) - 1)
			for d := 0; d < 2; d++ {
				if kk := in.Ops[j+d].K; !(kk == "rewrite" || kk == "rename" || kk == "trename" || kk == "trunc" || kk == "rewritem") {
					in.Ops[j+d].K = coqfmt.Pick(r, []string{"rewrite", "rename", "rewritem"})
				}
				in.Ops[j+d].C = pairBase + 2*k + d
			}
		}
		if i%4 != 0 && i%4 != 2 && r.Chance(1, 5) {
			// oracle modes only: some operations write the value in other bytes
			in.Alt = true
			for j := range in.Ops {
				in.Ops[j].A = r.Chance(1, 2)
			}
		}
		if i%4 == 3 {
			in.Mode, in.Backend = "w", "args"
			for j := range in.Ops {
				in.Ops[j].H = r.Chance(1, 2)
			}
			if i%80 == 3 {
				// inotify queue overflow while the final change lands
				j := r.Intn(len(in.Ops))
				in.Ops[j].K = "overflow"
				if in.Ops[j].C < 0 {
					in.Ops[j].C = 1
				}
			}
			b, _ := json.Marshal(in)
			out = append(out, b)
			continue
		}
		if i%2 == 0 {
			in.Mode, in.Backend = "q", "args"
			if r.Chance(1, 4) {
				in.Early = 1 + r.Intn(2)
			}
		} else {
			in.Mode = "r"
			in.Backend = coqfmt.Pick(r, []string{"args", "dials"})
			if in.Backend == "args" && r.Chance(1, 4) {
				in.Early = 1 + r.Intn(2)
			}
			if r.Chance(1, 5) {
				// fault family: the parent directory is removed and re-created;
				// afterwards only the ticker (poll mode) or an explicit reload can notify
				in.Poll = r.Chance(1, 2)
				for k := 0; k < 1+r.Intn(2); k++ {
					j := r.Intn(len(in.Ops))
					in.Ops[j].K = "rmparent"
					if in.Ops[j].C < 0 {
						in.Ops[j].C = 0
					}
				}
				if !in.Poll {
					// everything after the removal is invisible until somebody says "reload"
					in.Ops = append(in.Ops, op{K: "reload", P: 2})
				}
			} else if r.Chance(1, 6) {
				in.Poll = true
			}
			if in.Backend == "dials" && !in.Poll && r.Chance(1, 30) {
				// Dials busy with the previous version (slow Verify) when the next change is reported
				in.Slow = 300 + 100*r.Intn(4)
				if len(in.Ops) > 4 {
					in.Ops = in.Ops[:4]
				}
				for j := range in.Ops {
					if in.Ops[j].K == "rmparent" {
						in.Ops[j].K = "rename"
					}
				}
			}
		}
		b, _ := json.Marshal(in)
		out = append(out, b)
	}
	return out
}

func corpus() []json.RawMessage {
	var out []json.RawMessage
	add := func(in input) {
		b, _ := json.Marshal(in)
		out = append(out, b)
	}
	// DESIGN finding 12: regular file replaced by a symlink into another directory, then rename-overs
	f12 := []op{{K: "link", C: 1}, {K: "rename", C: 2, V: 2}, {K: "rename", C: 3}}
	add(input{Mode: "q", Backend: "args", Layout: 0, Ops: f12})
	add(input{Mode: "r", Backend: "args", Layout: 0, Ops: f12})
	add(input{Mode: "r", Backend: "dials", Layout: 0, Ops: f12})
	// identical content atomically replaced; malformed then repaired; delete and recreate
	add(input{Mode: "q", Backend: "args", Layout: 0, Ops: []op{{K: "rename", C: -1}, {K: "rewrite", C: -1}, {K: "rename", C: 101},
		{K: "reload"}, {K: "rename", C: 0}, {K: "delete"}, {K: "trunc", C: 4}}})
	add(input{Mode: "q", Backend: "args", Layout: 1, Ops: []op{{K: "k8s", C: 1}, {K: "k8s", C: -1}, {K: "delete", V: 1}, {K: "trunc", C: 2},
		{K: "link", C: 3}, {K: "k8s", C: 4}}})
	add(input{Mode: "q", Backend: "args", Layout: 3, Ops: []op{{K: "rewrite", C: 1}, {K: "delete", V: 1}, {K: "rewrite", C: 2}, {K: "rename", C: 3},
		{K: "rename", C: 4}}})
	// the read-before-watch window: switch into another directory, rewrite the new target at once
	win := []op{{K: "rename", C: 5}, {K: "link", C: 101}, {K: "k8s", C: -1, V: 2, P: 1}, {K: "rewrite", C: 6, V: 2}}
	for i := 0; i < 6; i++ {
		add(input{Mode: "r", Backend: "args", Layout: 1, Ops: win})
	}
	// kubernetes swap of the real ..data link whose old directory is NOT removed: only the rename itself can notify
	add(input{Mode: "q", Backend: "args", Layout: 1, Ops: []op{{K: "k8s", C: 1, V: 2}, {K: "k8s", C: 2, V: 2}, {K: "k8s", C: 102, V: 2}, {K: "k8s", C: 3}}})
	add(input{Mode: "r", Backend: "dials", Layout: 1, Ops: []op{{K: "k8s", C: 1, V: 2}, {K: "k8s", C: 2, V: 2, P: 1}}})
	// dangling symlink right after a switch (former class C17/2), then re-creation in the never-watched directory
	add(input{Mode: "r", Backend: "args", Layout: 0, Ops: []op{{K: "link", C: 103, V: 2}, {K: "delete", V: 1}, {K: "rewrite", C: 103, V: 3, P: 1}, {K: "trunc", C: 1, V: 3, P: 1}, {K: "rewrite", C: 3, V: 3, P: 1}}})
	add(input{Mode: "r", Backend: "args", Layout: 1, Ops: []op{{K: "link", C: 1, V: 3, P: 2}, {K: "k8s", C: -1}, {K: "delete", C: 1, V: 1}, {K: "rewrite", C: 106, P: 1}, {K: "rewrite", C: 3, V: 1, P: 2}}})
	// a directory where the file should be (read fails), then repaired
	add(input{Mode: "q", Backend: "args", Layout: 0, Ops: []op{{K: "dir"}, {K: "reload"}, {K: "rename", C: 1}, {K: "dir"}, {K: "link", C: 2}, {K: "dir"}, {K: "trunc", C: 3}}})
	// parent directory removed and re-created: ticker, or an explicit reload
	add(input{Mode: "r", Backend: "args", Layout: 0, Poll: true, Ops: []op{{K: "rmparent", C: 1}, {K: "rewrite", C: 2, P: 2}, {K: "rmparent", C: 3, P: 1}}})
	add(input{Mode: "r", Backend: "dials", Layout: 3, Poll: true, Ops: []op{{K: "rewrite", C: 1}, {K: "rmparent", C: 2}, {K: "rename", C: 101, P: 2}}})
	add(input{Mode: "r", Backend: "args", Layout: 1, Ops: []op{{K: "rmparent", C: 1}, {K: "rewrite", C: 2, P: 2}, {K: "reload", P: 2}}})
	// inside a pass: switch, then (loop held after its read) rewrite the new target / delete it and re-create it
	add(input{Mode: "w", Backend: "args", Layout: 0, Ops: []op{{K: "link", C: 1, H: true}, {K: "rewrite", C: 2}, {K: "rewrite", C: 3}}})
	add(input{Mode: "w", Backend: "args", Layout: 0, Ops: []op{{K: "link", C: 1, H: true}, {K: "delete", V: 1}, {K: "trunc", C: 2}, {K: "rewrite", C: 3}}})
	add(input{Mode: "w", Backend: "args", Layout: 1, Ops: []op{{K: "k8s", C: 1, V: 2, H: true}, {K: "delete", V: 1}, {K: "trunc", C: 2}, {K: "k8s", C: 3, H: true}, {K: "rewrite", C: 4}}})
	// in-place rewrite that restores the previous modification time; two rewrites back to back
	add(input{Mode: "q", Backend: "args", Layout: 0, Ops: []op{{K: "rewrite", C: 1}, {K: "rewritem", C: 2}, {K: "rewritem", C: 3}, {K: "rewrite2", M: 4, C: 5}, {K: "rewritem", C: 101}, {K: "rewritem", C: 6}}})
	add(input{Mode: "q", Backend: "args", Layout: 3, Ops: []op{{K: "rewritem", C: 1}, {K: "rewritem", C: 2}, {K: "rewrite2", M: 102, C: 3}}})
	add(input{Mode: "r", Backend: "dials", Layout: 1, Ops: []op{{K: "rewritem", C: 1, P: 2}, {K: "rewritem", C: 2, P: 2}, {K: "rewritem", C: 3, P: 2}}})
	// inotify queue overflow while the loop is parked in a pass; the final rename-over is among the dropped events
	add(input{Mode: "w", Backend: "args", Layout: 0, Ops: []op{{K: "rewrite", C: 1}, {K: "overflow", C: 2}}})
	add(input{Mode: "w", Backend: "args", Layout: 3, Ops: []op{{K: "overflow", C: 1}, {K: "rewrite", C: 2}}})
	// the final state is an EMPTY file (truncate without write, rename-over by an empty file), blanks, a lone BOM, a NUL
	add(input{Mode: "q", Backend: "args", Layout: 0, Ops: []op{{K: "trunc", C: cidEmpty}, {K: "rename", C: 1}, {K: "rename", C: cidEmpty}, {K: "rewrite", C: 2},
		{K: "rewrite", C: cidEmpty}, {K: "rewrite", C: cidBOM}, {K: "rewrite", C: 3}, {K: "rewrite2", M: cidEmpty, C: cidNUL}, {K: "k8s", C: cidWhitespace}, {K: "link", C: cidEmpty}}})
	add(input{Mode: "r", Backend: "dials", Layout: 1, Ops: []op{{K: "k8s", C: 1}, {K: "rewrite", C: cidEmpty, P: 1}}})
	add(input{Mode: "w", Backend: "args", Layout: 3, Ops: []op{{K: "rewrite", C: 1, H: true}, {K: "rewrite", C: cidEmpty}, {K: "rename", C: 2, H: true}, {K: "trunc", C: cidEmpty}}})
	// back into an earlier target directory (A -> B -> A, A -> B -> C -> A), then the target replaced atomically several times
	back := []op{{K: "link", C: 1, V: 2}, {K: "linkto", M: 0, C: 2, V: 2}, {K: "trename", C: 3}, {K: "trename", C: 4}, {K: "trename", C: 5}}
	back3 := []op{{K: "link", C: 1, V: 2}, {K: "link", C: 2, V: 2}, {K: "linkto", M: 0, C: 3, V: 2}, {K: "trename", C: 4}, {K: "trename", C: 5}, {K: "trename", C: 104}, {K: "trename", C: 6}}
	for _, m := range []string{"q", "w", "r"} {
		add(input{Mode: m, Backend: "args", Layout: 3, Ops: back})
		add(input{Mode: m, Backend: "args", Layout: 3, Ops: back3})
		add(input{Mode: m, Backend: "args", Layout: 0, Dec: 1, Ops: back3})
	}
	add(input{Mode: "r", Backend: "dials", Layout: 3, Ops: back})
	// a decoder whose errors wrap fs.ErrNotExist and friends: malformed content is an error, not a missing file
	wrapped := []op{{K: "rename", C: 100}, {K: "rewrite", C: 101}, {K: "rename", C: 1}, {K: "rewrite", C: 102}, {K: "trunc", C: 106}, {K: "reload"}, {K: "rename", C: 2}, {K: "rewrite", C: cidEmpty}}
	add(input{Mode: "q", Backend: "args", Layout: 0, Dec: 1, Ops: wrapped})
	add(input{Mode: "q", Backend: "args", Layout: 3, Dec: 1, Ops: wrapped})
	add(input{Mode: "r", Backend: "dials", Layout: 1, Dec: 1, Ops: wrapped})
	add(input{Mode: "w", Backend: "args", Layout: 0, Dec: 1, Ops: wrapped})
	// the believed target directory removed and re-created under the same path inside one pass
	add(input{Mode: "w", Backend: "args", Layout: 3, Ops: []op{{K: "delete", C: 1}, {K: "link", C: 111, H: true}, {K: "link", C: -1, V: 2}, {K: "rename", C: 2, H: true},
		{K: "linkto", M: 5, C: 3, V: 1}, {K: "rewrite", C: 4, V: 3}, {K: "rename", C: 5, V: 1}}})
	// values that are not DeepEqual to themselves (NaN) under identical-bytes rewrites and re-reads: no new version
	same := []op{{K: "rename", C: -1}, {K: "rewrite", C: -1}, {K: "reload"}, {K: "rename", C: 1}, {K: "rename", C: -1}, {K: "rewritem", C: -1}, {K: "trename", C: -1}, {K: "reload"}}
	add(input{Mode: "q", Backend: "args", Layout: 0, Dec: 2, Ops: same})
	add(input{Mode: "q", Backend: "args", Layout: 3, Dec: 2, Ops: same})
	add(input{Mode: "w", Backend: "args", Layout: 0, Dec: 2, Ops: same})
	add(input{Mode: "r", Backend: "dials", Layout: 1, Dec: 2, Ops: same})
	// the dual: the same value in other bytes (blanks only differ): the view must converge; a new version is unspecified
	add(input{Mode: "w", Backend: "args", Layout: 0, Alt: true, Ops: []op{{K: "rewrite", C: -1, A: true}, {K: "rename", C: 1}, {K: "rename", C: -1, A: true}, {K: "rewrite", C: 2, A: true}, {K: "rewrite", C: -1}}})
	add(input{Mode: "r", Backend: "dials", Layout: 3, Alt: true, Ops: []op{{K: "rewrite", C: 1, A: true}, {K: "rewrite", C: -1, P: 1}, {K: "rename", C: 2, A: true, P: 2}}})
	// two changes closer together than the time Dials needs for the first one (slow Verify)
	add(input{Mode: "r", Backend: "dials", Layout: 0, Slow: 400, Ops: []op{{K: "rename", C: 1}, {K: "rename", C: 2, P: 2}}})
	add(input{Mode: "r", Backend: "dials", Layout: 3, Slow: 500, Ops: []op{{K: "rewrite", C: 1}, {K: "rewrite", C: 2, P: 1}, {K: "rewrite", C: 3, P: 2}}})
	// a valid document replaced by another valid document with the same unkeyed 32-bit checksum
	for k := 0; k < len(pairDocs)/2; k++ {
		add(input{Mode: "w", Backend: "args", Layout: 0, Ops: []op{{K: "rewrite", C: pairBase + 2*k}, {K: "rewrite", C: pairBase + 2*k + 1}, {K: "rename", C: pairBase + 2*k}, {K: "rewritem", C: pairBase + 2*k + 1}}})
	}
	add(input{Mode: "r", Backend: "dials", Layout: 3, Ops: []op{{K: "rewrite", C: pairBase, P: 2}, {K: "rewrite", C: pairBase + 1, P: 2}}})
	// a change between the initial Value() and Watch()
	add(input{Mode: "q", Backend: "args", Layout: 0, Early: 1, Ops: []op{{K: "rename", C: 3}, {K: "rewrite", C: 4}}})
	add(input{Mode: "q", Backend: "args", Layout: 3, Early: 2, Ops: []op{{K: "rewrite", C: 3}, {K: "k8s", C: 4}, {K: "rename", C: 5}}})
	add(input{Mode: "r", Backend: "args", Layout: 1, Early: 1, Ops: []op{{K: "k8s", C: 3}}})
	return out
}

// supervise re-runs the harness in a child process.  fsnotify v1.8.0 reads its
// path map without the lock in readEvents (IN_DELETE_SELF handling) while
// Add/Remove write it from the watch loop; very rarely (about once in 50000
// cases) the Go runtime kills the process with "concurrent map read and map
// write".  That is third-party code outside the property; a crashed batch is
// simply repeated (same seed, same cases).
func supervise() {
	dir := filepath.Join("/var/tmp", fmt.Sprintf("c17-%d", os.Getpid()))
	defer os.RemoveAll(dir)
	for attempt := 0; ; attempt++ {
		os.RemoveAll(dir)
		cmd := exec.Command(os.Args[0], os.Args[1:]...)
		cmd.Env = append(os.Environ(), "C17_CHILD="+dir)
		var errBuf strings.Builder
		cmd.Stdout = os.Stdout
		cmd.Stderr = &errBuf
		err := cmd.Run()
		if err == nil {
			os.Stderr.WriteString(errBuf.String())
			return
		}
		if attempt < 3 && strings.Contains(errBuf.String(), "concurrent map") {
			fmt.Fprintln(os.Stderr, "c17: fsnotify crashed the process (concurrent map access); repeating the batch")
			continue
		}
		os.Stderr.WriteString(errBuf.String())
		os.RemoveAll(dir)
		os.Exit(1)
	}
}

func main() {
	if os.Getenv("C17_CHILD") == "" {
		supervise()
		return
	}
	// self-check of the content table against the real decoder
	findWeakChecksumPairs()
	scratch = os.Getenv("C17_CHILD")
	must(os.MkdirAll(scratch, 0o755))
	defer os.RemoveAll(scratch)
	typ := dials.NewType(ptrify.Pointerify(reflect.TypeOf(cfgT{}), reflect.ValueOf(cfgT{})))
	for c := 0; c < firstInvalid+numInvalid; c++ {
		v, err := (&djson.Decoder{}).Decode(strings.NewReader(string(contentBytes(c))), typ)
		if (err == nil) != (c < firstInvalid) || (err == nil && valueOf(v) != c) {
			panic(fmt.Sprintf("content table disagrees with the JSON decoder at %d", c))
		}
	}
	driver.Main(driver.Engine{
		Prop: "C17", CoqImport: "Dials.Check.C17Check", CoqRun: "run_cases",
		Rule: "histories of 1..12 (thorough 24) operations over {in-place rewrite, truncate+write, atomic rename-over, kubernetes ..data/..dir swap (old directory removed or kept), " +
			"symlink into another (fresh or EARLIER) directory, atomic replacement of the symlink's target, delete (path or target only), directory in place of the file, explicit reload} x content {fresh valid, identical bytes, earlier valid, malformed incl. the empty file, blanks only, a lone BOM, a single NUL} " +
			"on 4 initial layouts, a third of the cases with a decoder whose errors wrap fs.ErrNotExist / ErrPermission / ENOENT path errors / ..., a sixth with a decoder whose values hold a NaN (not DeepEqual to themselves), some oracle-mode cases writing the same value in other bytes, a few dials-backend racing cases with a Verify() that takes 300-600 ms per version, oracle-mode cases in which a valid document is replaced by another one colliding with it under crc32 / crc32c / adler32 / fnv32a; half of the cases quiescent-step (compared with the model), a quarter window mode (the loop held inside a pass while the next operation is applied), a quarter racing with pauses {0,50us,2ms}, a fifth of them with the parent directory " +
			"removed and re-created (poll mode or a final explicit reload), some in poll mode; window cases are non-trivial with >=1 hold that took effect and >=2 operation kinds; " +
			"non-trivial: >=3 distinct operation kinds and >=2 changes of the file's content; distinct = distinct JSON inputs",
		Gen: gen, Run: run, Corpus: corpus(),
	})
}
