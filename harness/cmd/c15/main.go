// c15: correspondence harness for text parsing (property C15).
//
// Runs the parse package and the flag helpers' String() methods of the
// repository on generated inputs and prints, per case, the input together with
// the implementation's projected observation (outcome class + canonical value)
// as a Coq term of type Dials.Check.C15Check.c15case.
package main

import (
	"encoding/json"
	"fmt"
	"math/big"
	"reflect"
	"sort"
	"strconv"
	"strings"
	"time"
	"unicode"
	"unicode/utf8"

	"github.com/vimeo/dials/parse"
	"github.com/vimeo/dials/sources/flag/flaghelper"

	"verifharness/internal/coqfmt"
	"verifharness/internal/driver"
	"verifharness/internal/textgen"
)

type kvs struct {
	K  string   `json:"k"`
	Vs []string `json:"vs"`
}

type input struct {
	K      string      `json:"k"`
	Signed bool        `json:"signed,omitempty"`
	W      int         `json:"w,omitempty"`
	S      string      `json:"s,omitempty"`
	Vals   []string    `json:"vals,omitempty"` // decimal integers
	L      []string    `json:"l,omitempty"`
	M      [][2]string `json:"m,omitempty"`
	MM     []kvs       `json:"mm,omitempty"`
	T      string      `json:"t,omitempty"`
	E      int         `json:"e,omitempty"` // entry point of the float/complex direct oracle
	B      []byte      `json:"b,omitempty"` // arbitrary bytes (base64 in JSON)
}

var sTypes = []reflect.Type{reflect.TypeOf(int8(0)), reflect.TypeOf(int16(0)), reflect.TypeOf(int32(0)),
	reflect.TypeOf(int64(0)), reflect.TypeOf(int(0))}
var uTypes = []reflect.Type{reflect.TypeOf(uint8(0)), reflect.TypeOf(uint16(0)), reflect.TypeOf(uint32(0)),
	reflect.TypeOf(uint64(0)), reflect.TypeOf(uint(0))}

func zTerm(s string) string { return "(" + s + ")%Z" }

func zList(vals []string) string {
	parts := make([]string, len(vals))
	for i, v := range vals {
		parts[i] = zTerm(v)
	}
	return coqfmt.List(parts)
}

func outcome(term string, err error) string { return driver.Outcome(term, err, false) }

func guard(f func() string) (out string) {
	defer func() {
		if r := recover(); r != nil {
			out = "(Panic 0)"
		}
	}()
	return f()
}

// ---- integers ----

func parseScalar(signed bool, w int, s string) string {
	return guard(func() string {
		t := uTypes[w%5]
		if signed {
			t = sTypes[w%5]
		}
		v, err := parse.String(s, t)
		if err != nil {
			return "(Err 0)"
		}
		if signed {
			return "(Ok " + zTerm(strconv.FormatInt(v.Elem().Int(), 10)) + ")"
		}
		return "(Ok " + zTerm(strconv.FormatUint(v.Elem().Uint(), 10)) + ")"
	})
}

func signedSlice[I flaghelper.SignedInt](s string) string {
	return guard(func() string {
		vs, err := parse.SignedIntegralSlice[I](s)
		parts := make([]string, len(vs))
		for i, v := range vs {
			parts[i] = strconv.FormatInt(int64(v), 10)
		}
		return outcome(zList(parts), err)
	})
}

func unsignedSlice[I flaghelper.UnsignedInt](s string) string {
	return guard(func() string {
		vs, err := parse.UnsignedIntegralSlice[I](s)
		parts := make([]string, len(vs))
		for i, v := range vs {
			parts[i] = strconv.FormatUint(uint64(v), 10)
		}
		return outcome(zList(parts), err)
	})
}

func parseIntSlice(signed bool, w int, s string) string {
	if signed {
		switch w {
		case 0:
			return signedSlice[int8](s)
		case 1:
			return signedSlice[int16](s)
		case 2:
			return signedSlice[int32](s)
		case 3:
			return signedSlice[int64](s)
		default:
			return signedSlice[int](s)
		}
	}
	switch w {
	case 0:
		return unsignedSlice[uint8](s)
	case 1:
		return unsignedSlice[uint16](s)
	case 2:
		return unsignedSlice[uint32](s)
	case 3:
		return unsignedSlice[uint64](s)
	case 4:
		return unsignedSlice[uint](s)
	default:
		return unsignedSlice[uintptr](s)
	}
}

func signedString[I flaghelper.SignedInt](vals []string) string {
	sl := make([]I, len(vals))
	for i, v := range vals {
		x, err := strconv.ParseInt(v, 10, 64)
		if err != nil {
			panic("harness: bad value " + v)
		}
		sl[i] = I(x)
		if int64(sl[i]) != x {
			panic("harness: value outside the type " + v)
		}
	}
	return flaghelper.NewSignedIntegralSlice(&sl).String()
}

func unsignedString[I flaghelper.UnsignedInt](vals []string) string {
	sl := make([]I, len(vals))
	for i, v := range vals {
		x, err := strconv.ParseUint(v, 10, 64)
		if err != nil {
			panic("harness: bad value " + v)
		}
		sl[i] = I(x)
		if uint64(sl[i]) != x {
			panic("harness: value outside the type " + v)
		}
	}
	return flaghelper.NewUnsignedIntegralSlice(&sl).String()
}

func intSliceString(signed bool, w int, vals []string) string {
	if signed {
		switch w {
		case 0:
			return signedString[int8](vals)
		case 1:
			return signedString[int16](vals)
		case 2:
			return signedString[int32](vals)
		case 3:
			return signedString[int64](vals)
		default:
			return signedString[int](vals)
		}
	}
	switch w {
	case 0:
		return unsignedString[uint8](vals)
	case 1:
		return unsignedString[uint16](vals)
	case 2:
		return unsignedString[uint32](vals)
	case 3:
		return unsignedString[uint64](vals)
	case 4:
		return unsignedString[uint](vals)
	default:
		return unsignedString[uintptr](vals)
	}
}

// ---- strings ----

func kvList(m map[string]string) string {
	keys := make([]string, 0, len(m))
	for k := range m {
		keys = append(keys, k)
	}
	sort.Strings(keys)
	parts := make([]string, len(keys))
	for i, k := range keys {
		parts[i] = fmt.Sprintf("(%s, %s)", coqfmt.Str(k), coqfmt.Str(m[k]))
	}
	return coqfmt.List(parts)
}

func mssList(m map[string][]string) string {
	keys := make([]string, 0, len(m))
	for k := range m {
		keys = append(keys, k)
	}
	sort.Strings(keys)
	parts := make([]string, len(keys))
	for i, k := range keys {
		parts[i] = fmt.Sprintf("(%s, %s)", coqfmt.Str(k), coqfmt.Strs(m[k]))
	}
	return coqfmt.List(parts)
}

func setList(m map[string]struct{}) string {
	keys := make([]string, 0, len(m))
	for k := range m {
		keys = append(keys, k)
	}
	sort.Strings(keys)
	return coqfmt.Strs(keys)
}

func run(raw json.RawMessage) driver.Result {
	var in input
	if err := json.Unmarshal(raw, &in); err != nil {
		panic(err)
	}
	var direct []string
	if strconv.IntSize != 64 {
		direct = append(direct, "platform: strconv.IntSize != 64, the model's int_size does not apply")
	}
	sg := coqfmt.Bool(in.Signed)
	switch in.K {
	case "flt":
		return runFloat(in)
	case "nsl":
		l := append([]string{}, in.L...)
		str := flaghelper.NewStringSliceFlag(&l).String()
		ty, term := textgen.ParseTy(in.T)
		out := guard(func() string {
			v, err := parse.String(str, ty)
			if err != nil {
				return "(Err 0)"
			}
			return "(Ok " + textgen.Pval(v) + ")"
		})
		direct = append(direct, fresh("parse.String at "+in.T, str, func() (reflect.Value, error) { return parse.String(str, ty) })...)
		return driver.Result{Direct: direct,
			Coq:  fmt.Sprintf("NamedSliceRT %s %s %s %s %s", textgen.Printable(in.L...), term, coqfmt.Strs(in.L), coqfmt.Str(str), out),
			Kind: "named-slice-roundtrip", Nontrivial: len(in.L) >= 1 && textgen.Special(in.L...),
			Tags: []string{"named-slice-" + in.T},
		}
	case "nmap":
		m := map[string]string{}
		var all []string
		parts := make([]string, len(in.M))
		for i, kv := range in.M {
			m[kv[0]] = kv[1]
			all = append(all, kv[0], kv[1])
			parts[i] = fmt.Sprintf("(%s, %s)", coqfmt.Str(kv[0]), coqfmt.Str(kv[1]))
		}
		str := flaghelper.NewMapStringStringFlag(&m).String()
		ty, term := textgen.ParseTy(in.T)
		out := guard(func() string {
			v, err := parse.String(str, ty)
			if err != nil {
				return "(Err 0)"
			}
			return "(Ok " + textgen.Pval(v) + ")"
		})
		direct = append(direct, fresh("parse.String at "+in.T, str, func() (reflect.Value, error) { return parse.String(str, ty) })...)
		return driver.Result{Direct: direct,
			Coq:  fmt.Sprintf("NamedMapRT %s %s %s %s %s", textgen.Printable(all...), term, coqfmt.List(parts), coqfmt.Str(str), out),
			Kind: "named-map-roundtrip", Nontrivial: len(in.M) >= 1 && textgen.Special(all...),
			Tags: []string{"named-map-" + in.T},
		}
	case "pad":
		// values rendered as literals with blanks before and after, through both slice paths
		parts := make([]string, len(in.Vals))
		for i, v := range in.Vals {
			bi, _ := new(big.Int).SetString(v, 10)
			form := (in.E + i) % nForms
			if !in.Signed && form == 8 { // ParseUint takes no sign
				form = 0
			}
			parts[i] = in.L[2*i] + literal(bi, form) + in.L[2*i+1]
		}
		s := strings.Join(parts, ",")
		et := uTypes[in.W%5]
		if in.Signed {
			et = sTypes[in.W%5]
		}
		og := guard(func() string {
			v, err := parse.String(s, reflect.SliceOf(et))
			if err != nil {
				return "(Err 0)"
			}
			return "(Ok " + textgen.Pval(v) + ")"
		})
		oi := parseIntSlice(in.Signed, in.W%5, s)
		return driver.Result{
			Coq:  fmt.Sprintf("PaddedInts %s %d %s %s %s %s", sg, in.W%5, coqfmt.Str(s), zList(in.Vals), og, oi),
			Kind: "padded-int-slices", Nontrivial: len(in.Vals) >= 2,
			Tags: []string{"padded-generic-" + cls(og), "padded-integral-" + cls(oi)},
		}
	case "dur":
		out := guard(func() string {
			v, err := parse.String(in.S, reflect.TypeOf(time.Duration(0)))
			if err != nil {
				return "(Err 0)"
			}
			return "(Ok " + zTerm(strconv.FormatInt(v.Elem().Int(), 10)) + ")"
		})
		return driver.Result{
			Coq:  fmt.Sprintf("DurRaw %s %s", coqfmt.Str(in.S), out),
			Kind: "duration-raw", Nontrivial: strings.HasPrefix(out, "(Ok"), Tags: []string{"duration-raw-" + cls(out)},
		}
	case "durrt":
		z, err := strconv.ParseInt(in.S, 10, 64)
		if err != nil {
			panic("harness: bad duration value " + in.S)
		}
		str := time.Duration(z).String()
		out := guard(func() string {
			v, err := parse.String(str, reflect.TypeOf(time.Duration(0)))
			if err != nil {
				return "(Err 0)"
			}
			return "(Ok " + zTerm(strconv.FormatInt(v.Elem().Int(), 10)) + ")"
		})
		return driver.Result{
			Coq:  fmt.Sprintf("DurRT %s %s %s", zTerm(in.S), coqfmt.Str(str), out),
			Kind: "duration-roundtrip", Nontrivial: z != 0,
		}
	case "int":
		out := parseScalar(in.Signed, in.W, in.S)
		return driver.Result{
			Coq:        fmt.Sprintf("IntScalar %s %d %s %s", sg, in.W, coqfmt.Str(in.S), out),
			Kind:       "int-scalar",
			Nontrivial: strings.HasPrefix(out, "(Ok"),
			Tags:       []string{"int-scalar-" + cls(out), fmt.Sprintf("int-width-%s%d", sign(in.Signed), in.W)},
			Direct:     direct,
		}
	case "isr":
		out := parseIntSlice(in.Signed, in.W, in.S)
		if in.Signed {
			direct = append(direct, fresh("parse.SignedIntegralSlice[int64]", in.S, func() (reflect.Value, error) {
				r, err := parse.SignedIntegralSlice[int64](in.S)
				return reflect.ValueOf(r), err
			})...)
		} else {
			direct = append(direct, fresh("parse.UnsignedIntegralSlice[uint16]", in.S, func() (reflect.Value, error) {
				r, err := parse.UnsignedIntegralSlice[uint16](in.S)
				return reflect.ValueOf(r), err
			})...)
		}
		return driver.Result{Direct: direct,
			Coq:        fmt.Sprintf("IntSliceRaw %s %d %s %s", sg, in.W, coqfmt.Str(in.S), out),
			Kind:       "int-slice-raw",
			Nontrivial: strings.HasPrefix(out, "(Ok") && strings.Contains(in.S, ","),
			Tags:       []string{"int-slice-raw-" + cls(out)},
		}
	case "isrt":
		str := intSliceString(in.Signed, in.W, in.Vals)
		out := parseIntSlice(in.Signed, in.W, str)
		return driver.Result{
			Coq:        fmt.Sprintf("IntSliceRT %s %d %s %s %s", sg, in.W, zList(in.Vals), coqfmt.Str(str), out),
			Kind:       "int-slice-roundtrip",
			Nontrivial: len(in.Vals) >= 2,
			Tags:       []string{sizeTag("int-slice", len(in.Vals))},
		}
	case "q":
		q := strconv.Quote(in.S)
		out := guard(func() string { u, err := strconv.Unquote(q); return outcome(coqfmt.Str(u), err) })
		return driver.Result{
			Coq:        fmt.Sprintf("QuoteRT %s %s %s %s", textgen.Printable(in.S), coqfmt.Str(in.S), coqfmt.Str(q), out),
			Kind:       "quote-roundtrip",
			Nontrivial: textgen.Special(in.S),
		}
	case "qb":
		s := string(in.B)
		q := strconv.Quote(s)
		out := guard(func() string { u, err := strconv.Unquote(q); return outcome(textgen.StrBytes(u), err) })
		parts := make([]string, len(in.B))
		for i, x := range in.B {
			parts[i] = strconv.Itoa(int(x))
		}
		return driver.Result{
			Coq:        fmt.Sprintf("QuoteRTB %s %s %s %s", textgen.Printable(s), coqfmt.List(parts), coqfmt.Str(q), out),
			Kind:       "quote-roundtrip-bytes",
			Nontrivial: !utf8.ValidString(s),
		}
	case "uq":
		out := guard(func() string { u, err := strconv.Unquote(in.S); return outcome(textgen.StrBytes(u), err) })
		return driver.Result{
			Coq:  fmt.Sprintf("UnquoteRaw %s %s", coqfmt.Str(in.S), out),
			Kind: "unquote-raw", Tags: []string{"unquote-raw-" + cls(out)},
		}
	case "sl":
		l := append([]string{}, in.L...)
		str := flaghelper.NewStringSliceFlag(&l).String()
		out := guard(func() string { r, err := parse.StringSlice(str); return outcome(coqfmt.Strs(r), err) })
		direct = append(direct, fresh("parse.StringSlice", str, func() (reflect.Value, error) { r, err := parse.StringSlice(str); return reflect.ValueOf(r), err })...)
		return driver.Result{Direct: direct,
			Coq:  fmt.Sprintf("SliceRT %s %s %s %s", textgen.Printable(in.L...), coqfmt.Strs(in.L), coqfmt.Str(str), out),
			Kind: "slice-roundtrip", Nontrivial: len(in.L) >= 2 && textgen.Special(in.L...),
			Tags: []string{sizeTag("slice", len(in.L))},
		}
	case "set":
		m := map[string]struct{}{}
		for _, x := range in.L {
			m[x] = struct{}{}
		}
		str := flaghelper.NewStringSetFlag(&m).String()
		out := guard(func() string { r, err := parse.StringSet(str); return outcome(setList(r), err) })
		direct = append(direct, fresh("parse.StringSet", str, func() (reflect.Value, error) { r, err := parse.StringSet(str); return reflect.ValueOf(r), err })...)
		return driver.Result{Direct: direct,
			Coq:  fmt.Sprintf("SetRT %s %s %s %s", textgen.Printable(in.L...), coqfmt.Strs(in.L), coqfmt.Str(str), out),
			Kind: "set-roundtrip", Nontrivial: len(in.L) >= 2 && textgen.Special(in.L...),
			Tags: []string{sizeTag("set", len(in.L))},
		}
	case "map":
		m := map[string]string{}
		var all []string
		parts := make([]string, len(in.M))
		for i, kv := range in.M {
			m[kv[0]] = kv[1]
			all = append(all, kv[0], kv[1])
			parts[i] = fmt.Sprintf("(%s, %s)", coqfmt.Str(kv[0]), coqfmt.Str(kv[1]))
		}
		str := flaghelper.NewMapStringStringFlag(&m).String()
		out := guard(func() string {
			r, err := parse.Map(str, reflect.TypeOf(map[string]string{}))
			if err != nil {
				return "(Err 0)"
			}
			return "(Ok " + kvList(r.Interface().(map[string]string)) + ")"
		})
		tags := []string{sizeTag("map", len(in.M))}
		if _, ok := m[""]; ok {
			tags = append(tags, "map-empty-key")
		}
		direct = append(direct, fresh("parse.Map", str, func() (reflect.Value, error) { return parse.Map(str, reflect.TypeOf(map[string]string{})) })...)
		return driver.Result{Direct: direct,
			Coq:  fmt.Sprintf("MapRT %s %s %s %s", textgen.Printable(all...), coqfmt.List(parts), coqfmt.Str(str), out),
			Kind: "map-roundtrip", Nontrivial: len(in.M) >= 2 && textgen.Special(all...), Tags: tags,
		}
	case "mss":
		m := map[string][]string{}
		var all []string
		parts := make([]string, len(in.MM))
		tags := []string{sizeTag("mss", len(in.MM))}
		for i, e := range in.MM {
			vs := append([]string{}, e.Vs...)
			m[e.K] = vs
			all = append(all, e.K)
			all = append(all, e.Vs...)
			parts[i] = fmt.Sprintf("(%s, %s)", coqfmt.Str(e.K), coqfmt.Strs(e.Vs))
			if len(e.Vs) == 0 {
				tags = append(tags, "mss-empty-slice")
			}
		}
		str := flaghelper.NewMapStringStringSliceFlag(&m).String()
		out := guard(func() string { r, err := parse.StringStringSliceMap(str); return outcome(mssList(r), err) })
		direct = append(direct, fresh("parse.StringStringSliceMap", str, func() (reflect.Value, error) {
			r, err := parse.StringStringSliceMap(str)
			return reflect.ValueOf(r), err
		})...)
		return driver.Result{Direct: direct,
			Coq:  fmt.Sprintf("MssRT %s %s %s %s", textgen.Printable(all...), coqfmt.List(parts), coqfmt.Str(str), out),
			Kind: "mss-roundtrip", Nontrivial: len(in.MM) >= 2 && textgen.Special(all...), Tags: tags,
		}
	case "ty":
		t, term := textgen.ParseTy(in.T)
		out := guard(func() string {
			v, err := parse.String(in.S, t)
			if err != nil {
				return "(Err 0)"
			}
			return "(Ok " + textgen.Pval(v) + ")"
		})
		direct = append(direct, fresh("parse.String at "+in.T, in.S, func() (reflect.Value, error) { return parse.String(in.S, t) })...)
		return driver.Result{Direct: direct,
			Coq:  fmt.Sprintf("Typed %s %s %s %s", textgen.Printable(in.S), term, coqfmt.Str(in.S), out),
			Kind: "typed-raw", Nontrivial: strings.HasPrefix(out, "(Ok") && len(in.S) >= 3,
			Tags: []string{"typed-" + cls(out), "typed-type-" + strings.SplitN(in.T, ":", 2)[0]},
		}
	}
	panic("bad kind " + in.K)
}

func cls(out string) string {
	switch {
	case strings.HasPrefix(out, "(Ok"):
		return "ok"
	case strings.HasPrefix(out, "(Err"):
		return "err"
	}
	return "panic"
}

func sign(b bool) string {
	if b {
		return "s"
	}
	return "u"
}

func sizeTag(what string, n int) string {
	switch {
	case n == 0:
		return what + "-size-0"
	case n == 1:
		return what + "-size-1"
	case n <= 5:
		return what + "-size-2..5"
	}
	return what + "-size-6..20"
}

// ---- generators ----

func bounds(signed bool, w int) (lo, hi *big.Int) {
	bits := []uint{8, 16, 32, 64, 64, 64}[w]
	one := big.NewInt(1)
	if signed {
		hi = new(big.Int).Sub(new(big.Int).Lsh(one, bits-1), one)
		lo = new(big.Int).Neg(new(big.Int).Lsh(one, bits-1))
		return
	}
	return big.NewInt(0), new(big.Int).Sub(new(big.Int).Lsh(one, bits), one)
}

// literal renders v in one of the Go integer literal forms
func literal(v *big.Int, form int) string {
	neg := v.Sign() < 0
	a := new(big.Int).Abs(v)
	var body string
	switch form {
	case 0:
		body = a.Text(10)
	case 1:
		body = "0x" + a.Text(16)
	case 2:
		body = "0X" + strings.ToUpper(a.Text(16))
	case 3:
		body = "0o" + a.Text(8)
	case 4:
		body = "0" + a.Text(8) // legacy octal
	case 5:
		body = "0b" + a.Text(2)
	case 6: // digit separators
		d := a.Text(10)
		if len(d) > 1 {
			d = d[:1] + "_" + d[1:]
		}
		if len(d) > 4 {
			d = d[:len(d)-2] + "_" + d[len(d)-2:]
		}
		body = d
	case 7:
		body = "0x_" + a.Text(16)
	case 8: // explicit plus sign (only meaningful when not negative)
		if !neg {
			return "+" + a.Text(10)
		}
		body = a.Text(10)
	case 9:
		body = "0B" + a.Text(2)
	case 10: // legacy octal with separators: 0_17_7
		body = "0" + sepEvery(a.Text(8), 2, true)
	default: // mixed-case hex with a separator after the prefix and between digit groups
		h := []byte(a.Text(16))
		for i := range h {
			if i%2 == 1 && h[i] >= 'a' {
				h[i] -= 'a' - 'A'
			}
		}
		body = "0x" + sepEvery(string(h), 3, true)
	}
	if neg {
		return "-" + body
	}
	return body
}

var blanksBefore = []string{"", " ", "  ", "\t", "\n", " \t "}
var blanksAfter = []string{"", " ", " ", "  ", "\t", " \t", "\r\n", "   "}

// blanky puts blanks around a string now and then: quoted elements must keep them
func blanky(r *coqfmt.Rng, s string) string {
	switch r.Intn(6) {
	case 0:
		return " " + s
	case 1:
		return s + " "
	case 2:
		return " " + s + "  "
	case 3:
		return "\t" + s + "\n"
	}
	return s
}

const nForms = 12

// sepEvery puts '_' before every k-th digit (and at the front if lead)
func sepEvery(d string, k int, lead bool) string {
	var b strings.Builder
	for i := 0; i < len(d); i++ {
		if (i > 0 && (len(d)-i)%k == 0) || (i == 0 && lead) {
			b.WriteByte('_')
		}
		b.WriteByte(d[i])
	}
	return b.String()
}

var pads = [][2]string{{"", ""}, {" ", ""}, {"", " "}, {" ", " "}, {"\t", "\n"}, {"  ", "\r\n"}, {" ", " "}}

func sweep() []json.RawMessage {
	var out []json.RawMessage
	add := func(in input) {
		b, _ := json.Marshal(in)
		out = append(out, b)
	}
	for _, signed := range []bool{true, false} {
		maxw := 5
		if !signed {
			maxw = 6
		}
		for w := 0; w < maxw; w++ {
			lo, hi := bounds(signed, w)
			var vals []*big.Int
			for d := int64(-2); d <= 2; d++ {
				vals = append(vals, new(big.Int).Add(lo, big.NewInt(d)), new(big.Int).Add(hi, big.NewInt(d)))
			}
			k := 0
			for _, v := range vals {
				for form := 0; form < nForms; form++ {
					lit := literal(v, form)
					if w < 5 {
						add(input{K: "int", Signed: signed, W: w, S: lit})
					}
					p := pads[k%len(pads)]
					k++
					add(input{K: "isr", Signed: signed, W: w, S: p[0] + lit + p[1]})
					add(input{K: "isr", Signed: signed, W: w, S: "1," + p[0] + lit + p[1] + ", 0x2"})
				}
			}
			// extremes through the flag helper
			add(input{K: "isrt", Signed: signed, W: w, Vals: []string{lo.String(), hi.String(), "0", hi.String(), lo.String()}})
			add(input{K: "isrt", Signed: signed, W: w, Vals: []string{}})
			add(input{K: "isrt", Signed: signed, W: w, Vals: []string{lo.String()}})
		}
	}
	// string elements with blanks at named string-kind types (quoted by the helper: blanks must survive)
	for _, ty := range []string{"sl:lbl", "names", "sl:str"} {
		add(input{K: "nsl", T: ty, L: []string{" a ", "b", "  ", ""}})
		add(input{K: "nsl", T: ty, L: []string{"x "}})
		add(input{K: "nsl", T: ty, L: []string{}})
	}
	for _, ty := range []string{"map:lbl:str", "map:str:lbl", "map:lbl:lbl", "nenv"} {
		add(input{K: "nmap", T: ty, M: [][2]string{{" k ", " v "}, {"k", "v "}}})
	}
	// blanks before and after integer elements on both slice paths
	for w := 0; w < 5; w++ {
		for _, sg := range []bool{true, false} {
			add(input{K: "pad", Signed: sg, W: w, Vals: []string{"1", "2", "3"}, L: []string{"", " ", " ", "", " ", " "}, E: 0})
			add(input{K: "pad", Signed: sg, W: w, Vals: []string{"7", "0"}, L: []string{"\t", "  ", "  ", "\t"}, E: 1})
			add(input{K: "pad", Signed: sg, W: w, Vals: []string{"100"}, L: []string{" ", " "}, E: 6})
		}
	}
	// durations: every unit boundary of Duration.String and the int64 edges, both signs
	for _, v := range []string{"0", "1", "999", "1000", "1001", "999999", "1000000", "1500000", "999999999", "1000000000", "1000000001",
		"59999999999", "60000000000", "3599999999999", "3600000000000", "3600000000001", "9223372036854775806", "9223372036854775807",
		"123456789", "1234567", "1234", "100", "10", "1000000000000", "86400000000000", "9223372036000000000", "9223372036854000000"} {
		add(input{K: "durrt", S: v})
		if v != "0" {
			add(input{K: "durrt", S: "-" + v})
		}
	}
	add(input{K: "durrt", S: "-9223372036854775808"})
	for _, s := range []string{"9223372036854775808ns9223372036854775808ns", "-9223372036854775808ns9223372036854775808ns1ns",
		"4611686018427387904ns4611686018427387904ns", "-4611686018427387904ns4611686018427387904ns", "2562047h47m16.854775808s",
		"-2562047h47m16.854775808s", "1µs", "1μs", "1us", "1.5h", ".5s", "1.s", "", "0", "+0", "1", "1h1h", "0.3333333333333333333h"} {
		add(input{K: "dur", S: s})
	}
	// the findings of DESIGN 7 (9, 10, 11) as fixed regression inputs
	add(input{K: "map", M: [][2]string{{"", "x"}}})
	add(input{K: "map", M: [][2]string{{"", ""}, {"a", "b"}}})
	add(input{K: "mss", MM: []kvs{{K: "", Vs: []string{"x", "y"}}}})
	add(input{K: "mss", MM: []kvs{{K: "a", Vs: []string{"x"}}, {K: "b", Vs: []string{}}}})
	add(input{K: "mss", MM: []kvs{{K: "a", Vs: []string{}}}})
	add(input{K: "sl", L: []string{}})
	add(input{K: "sl", L: []string{""}})
	add(input{K: "set", L: []string{""}})
	add(input{K: "map", M: [][2]string{}})
	return out
}

func randBig(r *coqfmt.Rng, bits int) *big.Int {
	v := new(big.Int)
	for i := 0; i < bits; i += 32 {
		v.Lsh(v, 32)
		v.Or(v, big.NewInt(int64(r.U64()&0xffffffff)))
	}
	return v.Rsh(v, uint((32-bits%32)%32))
}

// a value for width (signed, w): mostly inside the range, sometimes just outside or far outside
func genValue(r *coqfmt.Rng, signed bool, w int, inside bool) *big.Int {
	lo, hi := bounds(signed, w)
	span := new(big.Int).Add(new(big.Int).Sub(hi, lo), big.NewInt(1))
	switch x := r.Intn(10); {
	case x < 5:
		v := new(big.Int).Mod(randBig(r, 72), span)
		return v.Add(v, lo)
	case x < 7:
		return big.NewInt(int64(r.Intn(300)) - map[bool]int64{true: 150, false: 0}[signed])
	case x < 9 || inside:
		d := big.NewInt(int64(r.Intn(4)))
		if r.Chance(1, 2) {
			return new(big.Int).Sub(hi, d)
		}
		return new(big.Int).Add(lo, d)
	default:
		v := randBig(r, 8+r.Intn(70))
		if r.Chance(1, 2) {
			v.Neg(v)
		}
		return v
	}
}

const litAlphabet = "0123456789abfxXoObB_+- 17"

func genMalformedLiteral(r *coqfmt.Rng) string {
	n := r.Intn(8)
	b := make([]byte, n)
	for i := range b {
		b[i] = litAlphabet[r.Intn(len(litAlphabet))]
	}
	return string(b)
}

func genLiteral(r *coqfmt.Rng, signed bool, w int) string {
	if r.Chance(1, 6) {
		return genMalformedLiteral(r)
	}
	lit := literal(genValue(r, signed, w, false), r.Intn(nForms))
	if r.Chance(1, 12) { // damage a well-formed literal
		i := r.Intn(len(lit) + 1)
		lit = lit[:i] + string(litAlphabet[r.Intn(len(litAlphabet))]) + lit[i:]
	}
	return lit
}

var tyPool = []string{"sl:lbl", "names", "map:lbl:str", "map:str:lbl", "map:lbl:lvl", "sl:lvl", "nenv", "lbl", "ndur", "nset", "sl:names", "dur", "sl:dur", "map:str:dur", "map:dur:bool", "sl:str", "sl:str", "set", "set", "map:str:str", "map:str:str", "mss", "mss",
	"sl:i8", "sl:u16", "sl:bool", "sl:sl:str", "map:i16:bool", "map:str:u8", "map:bool:str", "bool", "str",
	"i32", "u64", "uptr", "other", "sl:other", "map:str:other", "map:other:str", "sl:set", "sl:map:str:str"}

func gen(r *coqfmt.Rng, n int, tier string) []json.RawMessage {
	var out []json.RawMessage
	add := func(in input) {
		b, _ := json.Marshal(in)
		out = append(out, b)
	}
	tg := textgen.New(r)
	for i := 0; i < n; i++ {
		signed := r.Chance(1, 2)
		w := r.Intn(5)
		switch x := r.Intn(138); {
		case x >= 134:
			ks := tg.Distinct(tg.Size() % 5)
			m := make([][2]string, len(ks))
			for j, k := range ks {
				m[j] = [2]string{blanky(r, k), blanky(r, tg.String())}
			}
			// keys stay distinct: blanky only adds blanks around a key, and two keys that differ only
			// in blanks are still different strings
			seen := map[string]bool{}
			m2 := m[:0]
			for _, kv := range m {
				if !seen[kv[0]] {
					seen[kv[0]] = true
					m2 = append(m2, kv)
				}
			}
			add(input{K: "nmap", T: coqfmt.Pick(r, []string{"map:lbl:str", "map:str:lbl", "map:lbl:lbl", "nenv", "map:str:str"}), M: m2})
		case x >= 130:
			l := tg.Strings(tg.Size() % 6)
			for j := range l {
				l[j] = blanky(r, l[j])
			}
			add(input{K: "nsl", T: coqfmt.Pick(r, []string{"sl:lbl", "names", "sl:str", "sl:lbl", "names"}), L: l})
		case x >= 124:
			k := 1 + r.Intn(5)
			vals := make([]string, k)
			l := make([]string, 2*k)
			for j := range vals {
				vals[j] = genValue(r, signed, w, true).String()
				lo, hi := bounds(signed, w)
				if v, _ := new(big.Int).SetString(vals[j], 10); v.Cmp(lo) < 0 || v.Cmp(hi) > 0 {
					vals[j] = hi.String()
				}
				l[2*j] = coqfmt.Pick(r, blanksBefore)
				l[2*j+1] = coqfmt.Pick(r, blanksAfter)
			}
			add(input{K: "pad", Signed: signed, W: w, Vals: vals, L: l, E: r.Intn(nForms)})
		case x >= 118:
			v := int64(r.U64() >> uint(r.Intn(64)))
			if r.Chance(1, 2) {
				v = -v
			}
			if r.Chance(1, 4) {
				v = v / 1000000 * 1000000 // whole milliseconds and more: short fractions
			}
			add(input{K: "durrt", S: strconv.FormatInt(v, 10)})
		case x >= 112:
			add(input{K: "dur", S: tg.DurationText()})
		case x >= 100:
			add(genFloatCase(r))
		case x < 22:
			add(input{K: "int", Signed: signed, W: w, S: genLiteral(r, signed, w)})
		case x < 34:
			if !signed {
				w = r.Intn(6)
			}
			k := r.Intn(5)
			parts := make([]string, k)
			for j := range parts {
				p := pads[r.Intn(len(pads))]
				parts[j] = p[0] + genLiteral(r, signed, w) + p[1]
			}
			add(input{K: "isr", Signed: signed, W: w, S: strings.Join(parts, ",")})
		case x < 44:
			if !signed {
				w = r.Intn(6)
			}
			k := r.Intn(21)
			if r.Chance(1, 2) {
				k = r.Intn(4)
			}
			vals := make([]string, k)
			for j := range vals {
				vals[j] = genValue(r, signed, w, true).String()
				lo, hi := bounds(signed, w)
				v, _ := new(big.Int).SetString(vals[j], 10)
				if v.Cmp(lo) < 0 || v.Cmp(hi) > 0 {
					vals[j] = hi.String()
				}
			}
			add(input{K: "isrt", Signed: signed, W: w, Vals: vals})
		case x < 47:
			b := []byte(tg.String())
			for k := r.Intn(4); k > 0; k-- {
				pos := r.Intn(len(b) + 1)
				ins := coqfmt.Pick(r, [][]byte{{0xff}, {0x80}, {0xc3}, {0xc0, 0x80}, {0xed, 0xa0, 0x80}, {0xf4, 0x90, 0x80, 0x80}, {0xe2, 0x82}, {0xbf}})
				b = append(b[:pos], append(append([]byte{}, ins...), b[pos:]...)...)
			}
			add(input{K: "qb", B: b})
		case x < 50:
			add(input{K: "q", S: tg.String()})
		case x < 56:
			add(input{K: "uq", S: tg.QuotedText()})
		case x < 64:
			add(input{K: "sl", L: tg.Strings(tg.Size())})
		case x < 70:
			add(input{K: "set", L: tg.Distinct(tg.Size())})
		case x < 78:
			ks := tg.Distinct(tg.Size())
			m := make([][2]string, len(ks))
			for j, k := range ks {
				m[j] = [2]string{k, tg.String()}
			}
			add(input{K: "map", M: m})
		case x < 86:
			ks := tg.Distinct(tg.Size())
			mm := make([]kvs, len(ks))
			for j, k := range ks {
				nv := 1 + r.Intn(3)
				if r.Chance(1, 25) {
					nv = 0
				}
				mm[j] = kvs{K: k, Vs: tg.Strings(nv)}
			}
			add(input{K: "mss", MM: mm})
		default:
			t := coqfmt.Pick(r, tyPool)
			add(input{K: "ty", T: t, S: tg.RawText(t)})
		}
	}
	return out
}

func main() {
	_ = utf8.RuneError
	_ = unicode.MaxRune
	driver.Main(driver.Engine{
		Prop: "C15", CoqImport: "Dials.Check.C15Check", CoqRun: "run_cases",
		Rule: "boundary sweep: every integer width x {min-2..min+2, max-2..max+2} x 10 literal forms, scalar and slice element (padded); " +
			"random literals (non-trivial: parsed successfully); integer slices of size 0-20 through the flag helper (non-trivial: >=2 elements); " +
			"strings from a grammar biased to the scanner's special runes, collections of size 0-20 through the real String() methods " +
			"(non-trivial: >=2 members and at least one member containing a special rune); raw text through parse.String at 26 types " +
			"(non-trivial: parsed successfully, length >= 3); float32/float64/complex64/complex128 boundary sweep and random literals, " +
			"scalar, slice element, map value, parse.Complex*, flag helper Set - DIRECT ORACLE against strconv at the target bit size, no model (non-trivial: accepted); " +
			"string slices and string maps with blanks at the ends of the members through the flag helpers and back through parse.String at named string-kind types " +
			"([]Label, type Names []string, map[Label]string, type Env map[string]string; non-trivial: a special rune present); " +
			"integer slices with blanks before and after the elements through both parse.String at []intN and the integral slice parsers (non-trivial: >=2 elements); " +
			"durations: nanosecond counts (every unit boundary of Duration.String, int64 edges, random) through Duration.String and back, and duration texts " +
			"(terms around the int64 edges, all unit spellings, long fractions, malformed) through parse.String at time.Duration (non-trivial: accepted / non-zero); " +
			"every collection parser call is repeated after the caller modified the first result (direct oracle: same value again); distinct = distinct JSON inputs",
		Gen: gen, Run: run, Corpus: append(sweep(), floatSweep()...),
	})
}
