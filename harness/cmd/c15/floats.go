package main

// Float / complex literals (kind "flt").  There is no Gallina model of IEEE
// arithmetic; this part of the C15 check is a DIRECT ORACLE: dials is compared
// with Go's own strconv at the target bit size.
//   strconv.ParseFloat(s, 32|64) / ParseComplex(s, 64|128) fails  =>  dials must return an error
//   it succeeds with x  =>  dials must return exactly float32(x) / x / complex64(x) / x
// In particular a finite literal outside the target's range (range error of
// strconv) must be rejected and never comes back as +-Inf, and a literal that
// rounds into range must come back as that rounding.

import (
	"encoding/json"
	"fmt"
	"math"
	"reflect"
	"strconv"
	"strings"

	"github.com/vimeo/dials/parse"
	"github.com/vimeo/dials/sources/flag/flaghelper"

	"verifharness/internal/coqfmt"
	"verifharness/internal/driver"
)

var fltTypes = map[string]reflect.Type{
	"f32": reflect.TypeOf(float32(0)), "f64": reflect.TypeOf(float64(0)),
	"c64": reflect.TypeOf(complex64(0)), "c128": reflect.TypeOf(complex128(0)),
}

func sameFloat(a, b float64) bool {
	if math.IsNaN(a) || math.IsNaN(b) {
		return math.IsNaN(a) && math.IsNaN(b)
	}
	return math.Float64bits(a) == math.Float64bits(b)
}

func sameComplex(a, b complex128) bool {
	return sameFloat(real(a), real(b)) && sameFloat(imag(a), imag(b))
}

// expect is Go's own answer for literal s at type code t: value (as complex128,
// imaginary part 0 for floats) or error.
func expect(t, s string) (complex128, error) {
	switch t {
	case "f32":
		f, err := strconv.ParseFloat(s, 32)
		return complex(float64(float32(f)), 0), err
	case "f64":
		f, err := strconv.ParseFloat(s, 64)
		return complex(f, 0), err
	case "c64":
		c, err := strconv.ParseComplex(s, 64)
		return complex128(complex64(c)), err
	default:
		return strconv.ParseComplex(s, 128)
	}
}

func asComplex(v reflect.Value) complex128 {
	if v.Kind() == reflect.Ptr {
		v = v.Elem()
	}
	switch v.Kind() {
	case reflect.Float32, reflect.Float64:
		return complex(v.Float(), 0)
	}
	return v.Complex()
}

func describe(c complex128, err error) string {
	if err != nil {
		return "error"
	}
	return fmt.Sprintf("%v", c)
}

// runFloat: entry 0 = parse.String at the scalar type, 1 = parse.String at the slice type
// (elements in.L), 2 = parse.Complex64/Complex128 directly, 3 = flaghelper.Complex*Var.Set,
// 4 = parse.String at map[string]T with the literal as value
func runFloat(in input) driver.Result {
	var problems []string
	bad := func(format string, a ...any) { problems = append(problems, fmt.Sprintf(format, a...)) }
	t := fltTypes[in.T]
	check := func(entry, lit string, got complex128, gerr error, paniced bool) {
		if in.E == 4 {
			lit = strings.TrimSpace(lit) // slice elements and map values are trimmed before parsing
		}
		want, werr := expect(in.T, lit)
		switch {
		case paniced:
			bad("%s(%q) at %s panicked", entry, lit, in.T)
		case werr != nil && gerr == nil:
			bad("%s(%q) at %s returned %v although strconv at the target size rejects the literal (%v): out-of-range or malformed literal accepted",
				entry, lit, in.T, got, werr)
		case werr == nil && gerr != nil:
			bad("%s(%q) at %s failed (%v) although strconv at the target size accepts the literal as %v", entry, lit, in.T, gerr, want)
		case werr == nil && !sameComplex(got, want):
			bad("%s(%q) at %s returned %v, strconv at the target size gives %v", entry, lit, in.T, got, want)
		}
	}
	call := func(f func() (complex128, error)) (c complex128, err error, paniced bool) {
		defer func() {
			if r := recover(); r != nil {
				paniced = true
			}
		}()
		c, err = f()
		return
	}
	okTag := "flt-err"
	switch in.E {
	case 0:
		c, err, p := call(func() (complex128, error) {
			v, err := parse.String(in.S, t)
			if err != nil {
				return 0, err
			}
			return asComplex(v), nil
		})
		check("parse.String", in.S, c, err, p)
		if err == nil && !p {
			okTag = "flt-ok"
			// round trip of the canonical text form of the value just obtained
			var text string
			switch in.T {
			case "f32":
				text = strconv.FormatFloat(real(c), 'g', -1, 32)
			case "f64":
				text = strconv.FormatFloat(real(c), 'g', -1, 64)
			case "c64":
				text = strconv.FormatComplex(c, 'g', -1, 64)
			default:
				text = strconv.FormatComplex(c, 'g', -1, 128)
			}
			c2, err2, p2 := call(func() (complex128, error) {
				v, err := parse.String(text, t)
				if err != nil {
					return 0, err
				}
				return asComplex(v), nil
			})
			if p2 || err2 != nil || !sameComplex(c, c2) {
				bad("round trip at %s: value %v prints as %q which parses back as %s", in.T, c, text, describe(c2, err2))
			}
		}
	case 1:
		st := reflect.SliceOf(t)
		joined := strings.Join(in.L, ",")
		var got []complex128
		_, err, p := call(func() (complex128, error) {
			v, err := parse.String(joined, st)
			if err != nil {
				return 0, err
			}
			for i := 0; i < v.Len(); i++ {
				got = append(got, asComplex(v.Index(i)))
			}
			return 0, nil
		})
		allOK := true
		for _, lit := range in.L {
			if _, werr := expect(in.T, strings.TrimSpace(lit)); werr != nil {
				allOK = false
			}
		}
		switch {
		case p:
			bad("parse.String(%q) at []%s panicked", joined, in.T)
		case !allOK && err == nil:
			bad("parse.String(%q) at []%s returned %v although strconv at the target size rejects an element", joined, in.T, got)
		case allOK && err != nil:
			bad("parse.String(%q) at []%s failed (%v) although every element is a literal of the type", joined, in.T, err)
		case allOK:
			okTag = "flt-ok"
			if len(got) != len(in.L) {
				bad("parse.String(%q) at []%s returned %d elements", joined, in.T, len(got))
			} else {
				for i, lit := range in.L {
					want, _ := expect(in.T, strings.TrimSpace(lit))
					if !sameComplex(got[i], want) {
						bad("parse.String(%q) at []%s element %d is %v, strconv at the target size gives %v", joined, in.T, i, got[i], want)
					}
				}
			}
		}
	case 2:
		c, err, p := call(func() (complex128, error) {
			if in.T == "c64" {
				c, err := parse.Complex64(in.S)
				return complex128(c), err
			}
			return parse.Complex128(in.S)
		})
		check("parse.Complex", in.S, c, err, p)
		if err == nil && !p {
			okTag = "flt-ok"
		}
	case 3:
		c, err, p := call(func() (complex128, error) {
			if in.T == "c64" {
				var x complex64
				err := flaghelper.NewComplex64Var(&x).Set(in.S)
				return complex128(x), err
			}
			var x complex128
			err := flaghelper.NewComplex128Var(&x).Set(in.S)
			return x, err
		})
		check("flaghelper.ComplexVar.Set", in.S, c, err, p)
		if err == nil && !p {
			okTag = "flt-ok"
		}
	default:
		mt := reflect.MapOf(reflect.TypeOf(""), t)
		text := `"k":` + strconv.Quote(in.S)
		c, err, p := call(func() (complex128, error) {
			v, err := parse.String(text, mt)
			if err != nil {
				return 0, err
			}
			return asComplex(v.MapIndex(reflect.ValueOf("k"))), nil
		})
		check("parse.String(map value)", in.S, c, err, p)
		if err == nil && !p {
			okTag = "flt-ok"
		}
	}
	if len(problems) > 1 {
		problems = problems[:1]
	}
	return driver.Result{
		Coq:        "FloatDirect " + coqfmt.Bool(len(problems) == 0),
		Kind:       "float-direct-oracle",
		Nontrivial: okTag == "flt-ok",
		Tags:       []string{okTag, "flt-type-" + in.T, fmt.Sprintf("flt-entry-%d", in.E)},
		Direct:     problems,
	}
}

// ---- literals ----

// real literals just inside and just outside the float32 and float64 ranges,
// the smallest denormals, zero, infinities, NaN spellings, hex floats, malformed text
var floatLits = []string{
	"0", "-0", "1", "-1.5", "1e38", "3.4028234e38", "3.4028235e38", "3.40282346638528859811704183484516925440e38",
	"3.4028235677973365e38", "3.4028235677973366e38", "3.4028235677973367e38", "3.4028236e38", "3.403e38", "3.5e38", "-3.5e38",
	"1e39", "-1e39", "1e100", "1e308", "1.7976931348623157e308", "1.7976931348623158e308", "1.797693134862315807e308",
	"1.797693134862315808e308", "1.7976931348623159e308", "1.8e308", "-1.8e308", "1e309", "1e400", "-1e400", "1e4000",
	"1e-37", "1.1754944e-38", "1.1754943e-38", "1e-45", "1.4e-45", "1.401298464324817e-45", "7.1e-46", "7e-46", "1e-46", "-1e-46",
	"2.2250738585072014e-308", "2.2250738585072011e-308", "5e-324", "4.9406564584124654e-324", "2.5e-324", "2.4e-324", "1e-400",
	"Inf", "+Inf", "-Inf", "inf", "infinity", "-Infinity", "iNf", "NaN", "nan", "+NaN", "-nan", "infinit",
	"0x1p127", "0x1.fffffep127", "0x1.ffffffp127", "0x1p128", "-0x1p128", "0x1p1023", "0x1.fffffffffffffp1023", "0x1p1024", "0x1p-149",
	"0x1p-150", "0x1p-1074", "0x1p-1075", "1_0.5", "0x_1p4", "1__0", "1e", "e5", ".", "", "1.2.3", "0x", "1e+", "+", "--1", "1 ", " 1",
	"3.4028235e+38", "340282346638528859811704183484516925440", "340282356779733661637539395458142568448", "1E39", "1d3",
}

// components used for complex literals
var cplxParts = []string{"0", "1.5", "-2", "3.4028235e38", "3.4028236e38", "3.5e38", "-3.5e38", "1e39", "-1e39", "1e308", "-1e308",
	"1.8e308", "1e400", "1e-45", "1e-46", "5e-324", "1e-400", "Inf", "-Inf", "NaN", "0x1p127", "0x1p128", "x"}

func cplxLiteral(re, im string, form int) string {
	s := im
	if !strings.HasPrefix(im, "-") && !strings.HasPrefix(im, "+") {
		s = "+" + im
	}
	switch form {
	case 0:
		return re + s + "i"
	case 1:
		return "(" + re + s + "i)"
	case 2:
		return im + "i"
	default:
		return re
	}
}

func floatSweep() []json.RawMessage {
	var out []json.RawMessage
	add := func(in input) {
		b, _ := json.Marshal(in)
		out = append(out, b)
	}
	for _, t := range []string{"f32", "f64"} {
		for i, lit := range floatLits {
			add(input{K: "flt", T: t, E: 0, S: lit})
			if !strings.ContainsAny(lit, " ,") && lit != "" {
				add(input{K: "flt", T: t, E: 1, L: []string{"1.5", lit, floatLits[(i*7+3)%40]}})
			}
			if i%3 == 0 {
				add(input{K: "flt", T: t, E: 4, S: lit})
			}
		}
	}
	for _, t := range []string{"c64", "c128"} {
		k := 0
		for _, re := range cplxParts {
			for _, im := range cplxParts {
				form := k % 2
				k++
				lit := cplxLiteral(re, im, form)
				add(input{K: "flt", T: t, E: 0, S: lit})
				switch k % 4 {
				case 0:
					add(input{K: "flt", T: t, E: 2, S: lit})
				case 1:
					add(input{K: "flt", T: t, E: 3, S: lit})
				case 2:
					add(input{K: "flt", T: t, E: 1, L: []string{lit, "1+2i"}})
				}
			}
			add(input{K: "flt", T: t, E: 0, S: cplxLiteral(re, re, 2)})
			add(input{K: "flt", T: t, E: 0, S: cplxLiteral(re, re, 3)})
			add(input{K: "flt", T: t, E: 2, S: cplxLiteral(re, re, 2)})
			add(input{K: "flt", T: t, E: 3, S: cplxLiteral(re, re, 3)})
			add(input{K: "flt", T: t, E: 4, S: cplxLiteral(re, "1", 0)})
		}
	}
	return out
}

// a random real literal, biased to the edges of the float32 and float64 ranges
func genFloatLit(r *coqfmt.Rng) string {
	switch x := r.Intn(10); {
	case x < 2:
		return coqfmt.Pick(r, floatLits)
	case x < 7:
		// d.ddddddddde[+-]XX with exponents around 38, 39, 308, 309, -45, -46, -324
		exp := coqfmt.Pick(r, []int{37, 38, 38, 38, 39, 40, 307, 308, 308, 309, 310, -37, -38, -44, -45, -46, -323, -324, -325, 0, 5})
		mant := fmt.Sprintf("%d.%09d", 1+r.Intn(9), r.Intn(1000000000))
		if r.Chance(1, 3) {
			mant = coqfmt.Pick(r, []string{"3.4028234", "3.4028235", "3.4028236", "1.7976931348623157", "1.7976931348623159", "1.4", "4.9", "2.4", "7.0", "7.1"})
		}
		sign := ""
		if r.Chance(1, 3) {
			sign = "-"
		}
		return fmt.Sprintf("%s%se%d", sign, mant, exp)
	case x < 9:
		return strconv.FormatFloat(math.Float64frombits(r.U64()), 'g', -1, 64)
	default:
		return strconv.FormatFloat(float64(math.Float32frombits(uint32(r.U64()))), 'g', -1, 32)
	}
}

func genFloatCase(r *coqfmt.Rng) input {
	t := coqfmt.Pick(r, []string{"f32", "f64", "c64", "c64", "c128"})
	if t == "f32" || t == "f64" {
		switch r.Intn(4) {
		case 0:
			n := 1 + r.Intn(4)
			l := make([]string, n)
			for i := range l {
				l[i] = genFloatLit(r)
				if strings.ContainsAny(l[i], " ,") || l[i] == "" {
					l[i] = "1"
				}
			}
			return input{K: "flt", T: t, E: 1, L: l}
		case 1:
			return input{K: "flt", T: t, E: 4, S: genFloatLit(r)}
		}
		return input{K: "flt", T: t, E: 0, S: genFloatLit(r)}
	}
	lit := cplxLiteral(genFloatLit(r), genFloatLit(r), r.Intn(5))
	return input{K: "flt", T: t, E: coqfmt.Pick(r, []int{0, 0, 2, 3, 4}), S: lit}
}
