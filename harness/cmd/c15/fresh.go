package main

// Every parser call is repeated after the caller has MUTATED what the first call returned (map
// entries overwritten and added, slice elements zeroed, pointed-to scalars zeroed).  A parser is a
// function of its text: the second call must return the same value as the first did (snapshot taken
// before the mutation).  State left behind by an earlier call - a shared empty map, a cached slice -
// shows up as a difference.  Direct oracle on the implementation.

import (
	"fmt"
	"reflect"
	"strconv"

	"verifharness/internal/textgen"
)

func mutate(v reflect.Value) {
	switch v.Kind() {
	case reflect.Ptr:
		if !v.IsNil() {
			mutate(v.Elem())
		}
	case reflect.Map:
		if v.IsNil() {
			return
		}
		for _, k := range v.MapKeys() {
			if e := v.MapIndex(k); e.Kind() == reflect.Slice {
				mutate(e) // shares its backing array with the stored value
			}
			v.SetMapIndex(k, reflect.Zero(v.Type().Elem()))
		}
		nk := reflect.New(v.Type().Key()).Elem()
		switch nk.Kind() {
		case reflect.String:
			nk.SetString("\x00left behind")
		case reflect.Int, reflect.Int8, reflect.Int16, reflect.Int32, reflect.Int64:
			nk.SetInt(-77)
		case reflect.Uint, reflect.Uint8, reflect.Uint16, reflect.Uint32, reflect.Uint64:
			nk.SetUint(77)
		case reflect.Bool:
			nk.SetBool(true)
		}
		v.SetMapIndex(nk, reflect.Zero(v.Type().Elem()))
	case reflect.Slice:
		for i := 0; i < v.Len(); i++ {
			mutate(v.Index(i))
			v.Index(i).Set(reflect.Zero(v.Type().Elem()))
		}
	default:
		if v.CanSet() {
			v.Set(reflect.Zero(v.Type()))
		}
	}
}

func snapshot(v reflect.Value, err error) (s string) {
	if err != nil {
		return "error"
	}
	defer func() {
		if r := recover(); r != nil {
			s = fmt.Sprintf("%v", v.Interface())
		}
	}()
	return textgen.Pval(v)
}

// fresh calls the parser, mutates its result, calls it again and reports a difference.
func fresh(what, text string, call func() (reflect.Value, error)) (problems []string) {
	defer func() {
		if r := recover(); r != nil {
			problems = append(problems, fmt.Sprintf("%s(%s): panic while repeating the call after mutating the first result: %v", what, strconv.QuoteToASCII(text), r))
		}
	}()
	v1, err1 := call()
	before := snapshot(v1, err1)
	if err1 == nil && v1.IsValid() {
		mutate(v1)
	}
	v2, err2 := call()
	after := snapshot(v2, err2)
	if before != after {
		problems = append(problems, fmt.Sprintf("%s(%s) returned %s; after the caller modified that result the same call returns %s: state of an earlier call leaks into a later one",
			what, strconv.QuoteToASCII(text), before, after))
	}
	return problems
}
