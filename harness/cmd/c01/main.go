// c01: correspondence harness for layer precedence (property C01).
package main

import (
	"context"
	"encoding/json"
	"fmt"
	"reflect"
	"strings"
	"time"

	"github.com/vimeo/dials"
	"github.com/vimeo/dials/ptrify"

	"verifharness/internal/coqfmt"
	"verifharness/internal/driver"
	"verifharness/internal/rty"
)

type input struct {
	K     string `json:"k"`
	State uint64 `json:"state"` // PRNG seed of this case: the generator is deterministic in it
	Depth int    `json:"depth"`
	Width int    `json:"width"`
}

func composeSafe(defaultsPtr reflect.Value, layers []reflect.Value) (res reflect.Value, err error, panicked bool) {
	defer func() {
		if r := recover(); r != nil {
			panicked = true
		}
	}()
	out, err := dials.VerifCompose(defaultsPtr.Interface(), layers)
	if err != nil {
		return reflect.Value{}, err, false
	}
	return reflect.ValueOf(out).Elem(), nil, false
}

// setMask: which top-level pointerified fields are non-nil
func setMask(l reflect.Value) []bool {
	if l.Kind() == reflect.Ptr {
		l = l.Elem()
	}
	m := make([]bool, l.NumField())
	for i := range m {
		f := l.Field(i)
		switch f.Kind() {
		case reflect.Ptr, reflect.Slice, reflect.Map, reflect.Interface:
			m[i] = !f.IsNil()
		default:
			m[i] = true
		}
	}
	return m
}

// A declared (named, generic-usable) config type: stacked through the PUBLIC
// API (dials.Config + View) as well, which ties the verif export to the API.
type StaticInner struct {
	X    int
	Skip int `dials:"-"`
	Y    string
}
type StaticPtr struct{ Z int16 }
type StaticCfg struct {
	A      int64
	hidden string
	B      StaticInner
	C      chan int
	P      *StaticPtr
	S      []string
	U      *int
	M      map[string]int
	T      rty.TUp
	StaticInner2
	J  SelfDecoding // a struct with every "decodes itself" method EXCEPT UnmarshalText: still merged field by field
	JP *SelfDecoding
}
type StaticInner2 struct{ W uint8 }

// SelfDecoding implements json.Unmarshaler, yaml (v2 and v3) Unmarshaler, encoding.BinaryUnmarshaler,
// gob.GobDecoder, sql.Scanner and flag.Value - but not encoding.TextUnmarshaler, the one interface that makes
// dials treat a struct as a single value
type SelfDecoding struct {
	X int
	Y string
	Z []string
}

func (s *SelfDecoding) UnmarshalJSON([]byte) error                  { return nil }
func (s *SelfDecoding) UnmarshalYAML(func(interface{}) error) error { return nil }
func (s *SelfDecoding) UnmarshalBinary([]byte) error                { return nil }
func (s *SelfDecoding) GobDecode([]byte) error                      { return nil }
func (s *SelfDecoding) Scan(interface{}) error                      { return nil }
func (s *SelfDecoding) Set(string) error                            { return nil }
func (s SelfDecoding) String() string                               { return "" }
func (s SelfDecoding) MarshalJSON() ([]byte, error)                 { return []byte("{}"), nil }

// Two function-local struct types with the SAME NAME, the first text-unmarshalable through an
// embedded time.Time, the second a plain struct that must be merged field by field.
func sameNameA() reflect.Type {
	type Section struct{ time.Time }
	type Cfg struct {
		S Section
		X int
	}
	return reflect.TypeOf(Cfg{})
}

func sameNameB() reflect.Type {
	type Section struct {
		A int
		B string
	}
	type Cfg struct {
		S Section
		X int
	}
	return reflect.TypeOf(Cfg{})
}

type layerSource struct{ v reflect.Value }

func (l layerSource) Value(_ context.Context, _ *dials.Type) (reflect.Value, error) { return l.v, nil }

func viaPublicAPI(defaults reflect.Value, layers []reflect.Value) (res reflect.Value, err error, panicked bool) {
	defer func() {
		if r := recover(); r != nil {
			panicked = true
		}
	}()
	srcs := make([]dials.Source, len(layers))
	for i, l := range layers {
		srcs[i] = layerSource{l}
	}
	d, err := dials.Config(context.Background(), defaults.Interface().(*StaticCfg), srcs...)
	if err != nil {
		return reflect.Value{}, err, false
	}
	return reflect.ValueOf(d.View()).Elem(), nil, false
}

// interface-typed config fields (outside the type universe of the Coq model, which has no dynamic types):
// decided by a direct oracle only.  Defaults leave them nil (pointerification then keeps the interface type);
// a layer stores a struct VALUE of one of two types (all-zero included), a map, a typed nil map, or nothing.
// Whatever the dynamic types of the lower layers, the last layer that stored a non-nil value wins as a whole.
type IfA struct {
	A int
	B string
}
type IfB struct {
	X  float64
	On bool
}
type IfaceCfg struct {
	P int
	I interface{}
	Q string
	J interface{}
	M map[string]interface{} // replaced as a whole; its values are structs held BY VALUE with unexported state
	L []interface{}
}

type private struct {
	n int
	s string
}

// boxed draws a value for an interface position inside a collection
func boxed(r *coqfmt.Rng) interface{} {
	switch r.Intn(5) {
	case 0:
		return time.Unix(int64(1000+r.Intn(100000)), int64(r.Intn(1000))).UTC()
	case 1:
		return private{n: 1 + r.Intn(9), s: "p"}
	case 2:
		return IfA{A: r.Intn(3), B: "b"}
	case 3:
		return r.Intn(7)
	default:
		return []string{"x"}
	}
}

func boxedMap(r *coqfmt.Rng) map[string]interface{} {
	m := map[string]interface{}{}
	for i, n := 0, r.Intn(3); i < n; i++ {
		m[string(rune('a'+r.Intn(4)))] = boxed(r)
	}
	return m
}

func boxedList(r *coqfmt.Rng) []interface{} {
	l := []interface{}{}
	for i, n := 0, r.Intn(3); i < n; i++ {
		l = append(l, boxed(r))
	}
	return l
}

func runIface(in input) driver.Result {
	r := coqfmt.NewRng(in.State)
	T := reflect.TypeOf(IfaceCfg{})
	defaults := reflect.New(T)
	defaults.Elem().Field(0).SetInt(int64(r.Intn(5)))
	defaults.Elem().Field(2).SetString([]string{"", "d"}[r.Intn(2)])
	if r.Chance(1, 2) {
		defaults.Elem().Field(4).Set(reflect.ValueOf(boxedMap(r)))
	}
	if r.Chance(1, 2) {
		defaults.Elem().Field(5).Set(reflect.ValueOf(boxedList(r)))
	}
	exp := defaults.Elem().Interface().(IfaceCfg)
	PT := ptrify.Pointerify(T, defaults.Elem())
	nl := 1 + r.Intn(4)
	layers := make([]reflect.Value, nl)
	var desc []string
	for i := range layers {
		l := reflect.New(PT).Elem()
		if r.Chance(1, 2) {
			v := r.Intn(5)
			l.Field(0).Set(reflect.ValueOf(&v))
			exp.P = v
		}
		if r.Chance(1, 2) {
			v := []string{"", "l"}[r.Intn(2)]
			l.Field(2).Set(reflect.ValueOf(&v))
			exp.Q = v
		}
		if r.Chance(1, 3) {
			m := boxedMap(r)
			l.Field(4).Set(reflect.ValueOf(m))
			exp.M = m
			desc = append(desc, fmt.Sprintf("L%d.M=%#v", i, m))
		}
		if r.Chance(1, 3) {
			v := boxedList(r)
			l.Field(5).Set(reflect.ValueOf(v))
			exp.L = v
			desc = append(desc, fmt.Sprintf("L%d.L=%#v", i, v))
		}
		for _, fi := range []int{1, 3} {
			var val interface{}
			switch r.Intn(10) {
			case 9:
				l.Field(fi).Set(reflect.ValueOf([]string(nil))) // a typed nil slice: sets nothing
				desc = append(desc, fmt.Sprintf("L%d.%d=nil-slice", i, fi))
				continue
			case 0, 1, 2:
			case 3, 4:
				val = IfA{A: r.Intn(3), B: []string{"", "x"}[r.Intn(2)]}
			case 5:
				val = IfA{}
			case 6:
				val = IfB{X: float64(r.Intn(2)), On: r.Chance(1, 2)}
			case 7:
				val = map[string]int{"k": r.Intn(3)}
			default:
				l.Field(fi).Set(reflect.ValueOf(map[string]int(nil))) // a typed nil: sets nothing
				desc = append(desc, fmt.Sprintf("L%d.%d=nil-map", i, fi))
				continue
			}
			if val == nil {
				continue
			}
			l.Field(fi).Set(reflect.ValueOf(val))
			desc = append(desc, fmt.Sprintf("L%d.%d=%#v", i, fi, val))
			if fi == 1 {
				exp.I = val
			} else {
				exp.J = val
			}
		}
		layers[i] = l
	}
	var direct []string
	res, err, panicked := composeSafe(defaults, layers)
	switch {
	case panicked:
		direct = append(direct, "stacking interface-typed fields panicked: "+strings.Join(desc, " "))
	case err != nil:
		direct = append(direct, fmt.Sprintf("stacking interface-typed fields failed (%v): %s", err, strings.Join(desc, " ")))
	case !reflect.DeepEqual(res.Interface(), exp):
		direct = append(direct, fmt.Sprintf("interface-typed leaf is not the last non-nil layer value: got %#v want %#v; layers %s", res.Interface(), exp, strings.Join(desc, " ")))
	}
	return driver.Result{Coq: "StackSeq FNil [] FNil []", Kind: "iface-direct", Nontrivial: nl >= 2, Direct: direct}
}

func run(raw json.RawMessage) driver.Result {
	var in input
	if err := json.Unmarshal(raw, &in); err != nil {
		panic(err)
	}
	if in.K == "iface" {
		return runIface(in)
	}
	r := coqfmt.NewRng(in.State)
	var T reflect.Type
	if in.K == "static" {
		T = reflect.TypeOf(StaticCfg{})
	} else if in.K == "samenameA" {
		T = sameNameA()
	} else if in.K == "samenameB" {
		T = sameNameB()
	} else {
		o := rty.AllOpts(in.Depth, in.Width)
		o.Twins = true
		o.DeepPtrs = true
		o.NilElems = true
		o.OddTags = true
		o.ZeroSized = true
		o.IfaceSkip = r.Chance(1, 4)
		T = rty.GenStruct(r, o, 0)
	}
	defaults := reflect.New(T)
	rty.GenValue(r, defaults.Elem(), rty.VOpts{NilNum: 1, NilDen: 3}, 0)
	ifaces := rty.FillIfaceFuncChan(r, defaults.Elem(), 0)
	aliased := rty.AliasUserPtrs(r, defaults.Elem())
	PT := ptrify.Pointerify(T, defaults.Elem())
	nl := r.Intn(6)
	layers := make([]reflect.Value, nl)
	layerTerms := make([]string, nl)
	overlap := false
	var seen []bool
	for i := range layers {
		l := reflect.New(PT)
		den := 4
		num := r.Intn(den + 1) // probability of "unset" for this layer: 0, 1/4, ..., 1
		rty.GenValue(r, l.Elem(), rty.VOpts{NilNum: num, NilDen: den}, 0)
		aliased += rty.AliasUserPtrs(r, l.Elem())
		if r.Chance(1, 3) {
			layers[i] = l // pointer layer: dereferenced automatically by compose
		} else {
			layers[i] = l.Elem()
		}
		layerTerms[i] = rty.ValTerm(layers[i])
		m := setMask(layers[i])
		if seen == nil {
			seen = make([]bool, len(m))
		}
		for j, s := range m {
			if s && seen[j] {
				overlap = true
			}
			seen[j] = seen[j] || s
		}
	}
	defTerm := rty.StructFieldsTerm(defaults.Elem())
	// a sequence of stackings over the SAME defaults value, as the monitor re-stacks
	// after every update: all layers first, then random sub-selections of them
	rounds := 1 + r.Intn(3)
	var roundTerms []string
	var direct []string
	tags := []string{fmt.Sprintf("layers-%d", nl), fmt.Sprintf("rounds-%d", rounds)}
	if aliased > 0 {
		tags = append(tags, "aliased-user-pointers")
	}
	if ifaces > 0 {
		tags = append(tags, "interface-field-holding-func-or-chan")
	}
	for round := 0; round < rounds; round++ {
		sel := layers
		selTerms := layerTerms
		if round > 0 {
			sel, selTerms = nil, nil
			for i := range layers {
				if r.Chance(1, 2) {
					sel = append(sel, layers[i])
					selTerms = append(selTerms, layerTerms[i])
				}
			}
		}
		res, err, panicked := composeSafe(defaults, sel)
		if in.K == "static" {
			res2, err2, p2 := viaPublicAPI(defaults, sel)
			if (err == nil) != (err2 == nil) || panicked != p2 ||
				(err == nil && !panicked && !reflect.DeepEqual(res.Interface(), res2.Interface())) {
				direct = append(direct, "dials.Config+View disagrees with the verif-tagged compose export on the same inputs")
			}
		}
		okTerm := ""
		if err == nil && !panicked {
			okTerm = rty.StructFieldsTerm(res)
		}
		if panicked {
			tags = append(tags, "impl-panic")
		} else if err != nil {
			tags = append(tags, "impl-err")
		}
		roundTerms = append(roundTerms, fmt.Sprintf("(%s, %s)", coqfmt.List(selTerms), driver.Outcome(okTerm, err, panicked)))
	}
	return driver.Result{
		Coq:        fmt.Sprintf("StackSeq %s %s %s %s", rty.FieldsTerm(T), defTerm, rty.FieldsTerm(PT), coqfmt.List(roundTerms)),
		Kind:       in.K,
		Nontrivial: nl >= 2 && overlap,
		Tags:       tags,
		Direct:     direct,
	}
}

func gen(r *coqfmt.Rng, n int, tier string) []json.RawMessage {
	var out []json.RawMessage
	// same-named local types, the text-unmarshalable one first (type-keyed caches must not confuse them)
	for _, k := range []string{"samenameA", "samenameB", "samenameB", "samenameA", "samenameB"} {
		b, _ := json.Marshal(input{K: k, State: r.U64(), Depth: 1, Width: 2})
		out = append(out, b)
	}
	for i := 0; i < n; i++ {
		depth := 1 + r.Intn(3)
		width := 2 + r.Intn(5)
		if tier == "thorough" {
			depth = 1 + r.Intn(4)
		}
		k := "gen"
		if r.Chance(1, 10) {
			k = "static"
		} else if r.Chance(1, 15) {
			k = "iface"
		} else if r.Chance(1, 40) {
			depth, width = 0, 60+r.Intn(80) // very wide structs: per-type bit masks, small fixed-size tables
		}
		b, _ := json.Marshal(input{K: k, State: r.U64(), Depth: depth, Width: width})
		out = append(out, b)
	}
	return out
}

func main() {
	driver.Main(driver.Engine{
		Prop: "C01", CoqImport: "Dials.Check.C01Check", CoqRun: "run_cases",
		Rule: "random struct types (reflect.StructOf; 1 case in 15 instead a declared type with interface{} fields decided by a direct oracle only: scalars of every width, named scalars, durations, TextUnmarshaler structs with value/pointer receiver, slices, maps, arrays (element types scalar or nil-able: *T, []T, map[string]T), user pointers, nested / pointer / embedded structs, []struct, unexported / dials:\"-\" / chan / func fields at random positions), random defaults, 0-5 layers of the pointerified type with a per-layer unset probability in {0,1/4,..,1}; non-trivial: >=2 layers and some top-level field set by >=2 layers; distinct = distinct PRNG case states",
		Gen:  gen, Run: run,
	})
}
