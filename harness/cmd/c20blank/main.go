// c20blank: correspondence harness for sourcewrap.Blank (property C20, second half).
// Exhaustive enumeration of operation histories on a Blank placed in a real Dials.
package main

import (
	"context"
	"encoding/json"
	"errors"
	"fmt"
	"reflect"
	"strings"
	"time"

	"github.com/vimeo/dials"
	"github.com/vimeo/dials/ptrify"
	"github.com/vimeo/dials/sourcewrap"
	"github.com/vimeo/dials/tagformat"
	"github.com/vimeo/dials/tagformat/caseconversion"

	"verifharness/internal/coqfmt"
	"verifharness/internal/driver"
	"verifharness/internal/rty"
)

type Cfg struct {
	V int
	W string
}

// ops: "sA" "sB" static sources, "sF" failing Value, "wC" watcher (Watch ok), "wD" watcher whose Watch fails,
// "done", "rep" (the last successfully watching inner source reports a value)
type input struct {
	K   string   `json:"k"`
	Ops []string `json:"ops"`
}

type src struct {
	slow     time.Duration // Value takes this long (used by the concurrent SetSource operation)
	v        int
	fail     bool
	watcher  bool
	watchErr bool
	wa       dials.WatchArgs
	typ      *dials.Type
	wctx     context.Context // the context the Blank handed to Watch
}

func layer(t *dials.Type, v int) reflect.Value {
	out := reflect.New(t.Type()).Elem()
	x := v
	out.FieldByName("V").Set(reflect.ValueOf(&x))
	return out
}

type staticSrc struct{ s *src }

func (s staticSrc) Value(_ context.Context, t *dials.Type) (reflect.Value, error) {
	if s.s.slow > 0 {
		time.Sleep(s.s.slow)
	}
	if s.s.fail {
		return reflect.Value{}, errors.New("value failed")
	}
	return layer(t, s.s.v), nil
}

type watchSrc struct{ staticSrc }

func (w watchSrc) Watch(ctx context.Context, t *dials.Type, wa dials.WatchArgs) error {
	if w.s.watchErr {
		return errors.New("watch failed")
	}
	w.s.wctx = ctx
	w.s.wa = wa
	w.s.typ = t
	return nil
}

// wrapInner: the inner source as it is, or behind the other half of sourcewrap - a transforming source (no
// manglers) or tagformat's reformatting source.  A wrapper must be a Watcher exactly when what it wraps is
// one, or the Blank treats a plain source as the owner of its watch slot.  Deterministic in (ops, i).
func wrapInner(s dials.Source, ops []string, i int) dials.Source {
	h := uint32(2166136261)
	for _, o := range ops {
		for _, c := range []byte(o) {
			h = (h ^ uint32(c)) * 16777619
		}
	}
	switch (h + uint32(i)*7) % 4 {
	case 1:
		return sourcewrap.NewTransformingSource(s)
	case 2:
		return tagformat.ReformatDialsTagSource(s, caseconversion.DecodeGoTags, caseconversion.EncodeLowerSnakeCase)
	}
	return s
}

func class(err error) string {
	if err != nil {
		return "(Err 0)"
	}
	return "(Ok tt)"
}

func run(raw json.RawMessage) driver.Result {
	var in input
	if err := json.Unmarshal(raw, &in); err != nil {
		panic(err)
	}
	blank := &sourcewrap.Blank{}
	ctx, cancel := context.WithCancel(context.Background())
	defer cancel()
	defaults := &Cfg{V: 1, W: "w"}
	d, err := dials.Config(ctx, defaults, blank)
	if err != nil {
		panic(err)
	}
	typ := dials.NewType(ptrify.Pointerify(reflect.TypeOf(Cfg{}), reflect.ValueOf(defaults).Elem()))
	var live *src // the watching inner source holding the WatchArgs
	var direct []string
	opTerms := make([]string, len(in.Ops))
	obs := make([]string, len(in.Ops))
	next := 10
	deadAware := false
	for i, op := range in.Ops {
		// a dead monitor can only be noticed through the context: keep it short once Done was forwarded
		to := 800 * time.Millisecond
		if deadAware {
			to = 50 * time.Millisecond
		}
		octx, ocancel := context.WithTimeout(ctx, to)
		var ret string
		func() {
			defer func() {
				if p := recover(); p != nil {
					ret = "(Panic 0)"
					direct = append(direct, fmt.Sprintf("op %d (%s) panicked: %v", i, op, p))
				}
			}()
			switch op {
			case "sA", "sB", "sF", "wC", "wD":
				next++
				s := &src{v: next, fail: op == "sF", watcher: op[0] == 'w', watchErr: op == "wD"}
				var vterm string
				if s.fail {
					vterm = "(Err 0)"
				} else {
					vterm = fmt.Sprintf("(Ok (VStruct [VPtr (VInt %d%%Z); VNil]))", s.v)
				}
				var e error
				if s.watcher {
					opTerms[i] = fmt.Sprintf("OpSet (SrcWatcher %s %s)", vterm, coqfmt.Bool(!s.watchErr))
					e = blank.SetSource(octx, wrapInner(watchSrc{staticSrc{s}}, in.Ops, i))
					if s.wa != nil {
						live = s
					}
				} else {
					opTerms[i] = fmt.Sprintf("OpSet (SrcStatic %s)", vterm)
					e = blank.SetSource(octx, wrapInner(staticSrc{s}, in.Ops, i))
				}
				ret = class(e)
			case "par":
				// two SetSource calls racing: a static source whose Value is slow, and - started while the
				// first one is inside Value - a watching source.  SetSource holds the Blank's mutex across
				// Value, so they are serialised in start order: static first, then the watcher.
				next += 2
				s1 := &src{v: next - 1, slow: 25 * time.Millisecond}
				s2 := &src{v: next, watcher: true}
				opTerms[i] = fmt.Sprintf("OpSet (SrcStatic (Ok (VStruct [VPtr (VInt %d%%Z); VNil]))); OpSet (SrcWatcher (Ok (VStruct [VPtr (VInt %d%%Z); VNil])) true)", s1.v, s2.v)
				var e1, e2 error
				done1 := make(chan struct{})
				go func() { e1 = blank.SetSource(octx, staticSrc{s1}); close(done1) }()
				time.Sleep(8 * time.Millisecond)
				e2 = blank.SetSource(octx, watchSrc{staticSrc{s2}})
				<-done1
				if s2.wa != nil {
					live = s2
				}
				ret = class(e1) + "; " + class(e2)
			case "dd":
				// Done with an already-expired context (may or may not be delivered: both arms of the
				// select are ready), directly followed by Done with a live context: after both, the slot
				// has certainly been signalled Done if the Blank still owned it
				opTerms[i] = "OpDone"
				ectx, ecancel := context.WithCancel(ctx)
				ecancel()
				blank.Done(ectx)
				blank.Done(octx)
				ret = "(Ok tt)"
			case "done":
				opTerms[i] = "OpDone"
				blank.Done(octx)
				ret = "(Ok tt)"
			case "rep":
				next++
				opTerms[i] = fmt.Sprintf("OpReport (VStruct [VPtr (VInt %d%%Z); VNil])", next)
				if live == nil {
					ret = "(Err 0)"
				} else {
					ret = class(live.wa.BlockingReportNewValue(octx, layer(live.typ, next)))
				}
			default:
				panic("bad op " + op)
			}
		}()
		if octx.Err() != nil {
			deadAware = true
		}
		ocancel()
		if live != nil && live.wctx != nil && live.wctx.Err() != nil {
			direct = append(direct, fmt.Sprintf("op %d (%s): the context handed to the inner source's Watch ended with the SetSource call's context; it must be the context Dials gave the Blank", i, op))
			live.wctx = nil
		}
		bv, bverr := blank.Value(ctx, typ)
		bvTerm := "(Err 0)"
		if bverr == nil {
			bvTerm = "(Ok " + rty.ValTerm(bv) + ")"
		}
		obs[i] = fmt.Sprintf("([%s], [%s], %s, %s)", opTerms[i], ret, rty.StructFieldsTerm(reflect.ValueOf(d.View()).Elem()), bvTerm)
	}
	nontrivial := false
	joined := strings.Join(in.Ops, " ")
	if strings.Contains(joined, "w") && (strings.Contains(joined, "done") || strings.Count(joined, "s")+strings.Count(joined, "w") >= 2) {
		nontrivial = true
	}
	return driver.Result{
		Coq:        fmt.Sprintf("BlankCase %s %s %s", rty.FieldsTerm(reflect.TypeOf(Cfg{})), rty.StructFieldsTerm(reflect.ValueOf(defaults).Elem()), coqfmt.List(obs)),
		Kind:       fmt.Sprintf("len-%d", len(in.Ops)),
		Nontrivial: nontrivial,
		Direct:     direct,
	}
}

var alphabet = []string{"sA", "sF", "wC", "wD", "done", "rep", "par", "dd"}

func gen(r *coqfmt.Rng, n int, tier string) []json.RawMessage {
	// exhaustive up to maxLen, plus a seeded random sample of longer histories
	maxLen, nRandom, lo, hi := 3, 900, 4, 6
	if tier == "thorough" {
		maxLen, nRandom, lo, hi = 4, 6000, 5, 8
	}
	var out []json.RawMessage
	var rec func(prefix []string)
	rec = func(prefix []string) {
		if len(prefix) > 0 {
			b, _ := json.Marshal(input{K: "enum", Ops: append([]string(nil), prefix...)})
			out = append(out, b)
		}
		if len(prefix) == maxLen {
			return
		}
		for _, a := range alphabet {
			rec(append(prefix, a))
		}
	}
	rec(nil)
	for i := 0; i < nRandom; i++ {
		l := lo + r.Intn(hi-lo+1)
		ops := make([]string, l)
		for j := range ops {
			ops[j] = alphabet[r.Intn(len(alphabet))]
		}
		b, _ := json.Marshal(input{K: "rand", Ops: ops})
		out = append(out, b)
	}
	return out
}

func main() {
	driver.Main(driver.Engine{
		Prop: "C20", CoqImport: "Dials.Check.C20BlankCheck", CoqRun: "run_cases",
		Rule: "EXHAUSTIVE enumeration of all operation histories of length <= 3 (quick) / <= 4 (thorough) plus a seeded random sample of longer ones (900 of length 4-6 / 6000 of length 5-8) over {SetSource static, SetSource failing, SetSource watcher, SetSource watcher whose Watch fails, Done, report through the inner watcher's WatchArgs, two concurrent SetSource calls (slow static Value racing a watcher), Done with an expired context followed by Done} on a Blank inside a real Dials; non-trivial: contains a watcher and either a Done or a second SetSource",
		Gen:  gen, Run: run, Parallel: 48,
	})
}
