// c14: aliases through the real sources (property C14).  For a generated
// config type with alias tags at any depth, up to three aliased targets are
// driven through all 4^k neither/primary/alias/both patterns via the env
// source (os.Setenv, serialised), the std-flag and pflag sources (explicit
// argument lists, private flag sets), a JSON decoder wrapped as ez does, and
// (static types) a JSON config file through the real ez entry point.
package main

import (
	"context"
	"encoding/json"
	"fmt"
	"os"
	"reflect"
	"sort"
	"strconv"
	"strings"
	"time"

	"github.com/vimeo/dials"
	djson "github.com/vimeo/dials/decoders/json"
	"github.com/vimeo/dials/ptrify"
	"github.com/vimeo/dials/sources/env"
	dflag "github.com/vimeo/dials/sources/flag"
	dpflag "github.com/vimeo/dials/sources/pflag"
	"github.com/vimeo/dials/sourcewrap"
	"github.com/vimeo/dials/transform"

	"verifharness/internal/coqfmt"
	"verifharness/internal/driver"
	"verifharness/internal/rty"
	"verifharness/internal/xf"
)

type input struct {
	K     string `json:"k"`
	State uint64 `json:"state"` // PRNG state: type, targets and the values of the other fields
	Src   int    `json:"src"`   // 0 env, 1 flag, 2 pflag, 3 json via ez's decoder wrap, 4 a static type through the real ez entry point
	Pat   int    `json:"pat"`   // base-4 digits: pattern of target i (0 neither, 1 primary, 2 alias, 3 both)
}

const aliasSuffix = "_alias9wr876rw3"

var srcNames = []string{"env", "flag", "pflag", "json", "ez"}
var families = [][]string{{"dials", "dialsenv"}, {"dials", "dialsflag"}, {"dials", "dialspflag"}, {"dials"}, {"dials"}}

// ---- type generation: scalar leaves every source can express ----

var leafTypes = []reflect.Type{
	reflect.TypeOf(""), reflect.TypeOf(false), reflect.TypeOf(int(0)), reflect.TypeOf(int8(0)), reflect.TypeOf(int64(0)),
	reflect.TypeOf(uint16(0)), reflect.TypeOf(uint(0)), reflect.TypeOf(float64(0)), reflect.TypeOf(time.Duration(0)),
	reflect.TypeOf(rty.NLevel(0)), reflect.TypeOf(rty.NName("")),
	// kinds that could "accumulate": both names given is an error for them as well
	reflect.TypeOf([]string(nil)), reflect.TypeOf([]int(nil)), reflect.TypeOf(map[string]struct{}(nil)),
}

type target struct {
	path    []string // path of the aliased field from the root
	inner   []string // for a struct-typed aliased field: path of the chosen leaf below it
	leaf    reflect.Type
	innerAl bool // that leaf carries an alias of its own (outer alias + inner alias is a fourth name)
}

type gen struct {
	r       *coqfmt.Rng
	src     int
	next    int
	shorts  int // pflag shorthands handed out
	nsCur   int // id of the current namespace
	nsNext  int
	recs    []leafRec       // the plain leaves generated so far
	ns      map[string]bool // shared alias values used in the current namespace (embedded structs share their parent's)
	targets []target
	leaves  [][]string // paths of all leaves (for the independent fields)
	leafT   []reflect.Type
	leafAl  []bool // the leaf lies below an aliased struct and has an alias tag itself
	ez      ezType // src 4: the static type and its ez entry point
	ezo     ezOpts
}

func (g *gen) name() string { g.next++; return fmt.Sprintf("F%d", g.next) }

type leafRec struct {
	name string
	tag  reflect.StructTag
	typ  reflect.Type
	ns   int
}

// reuse picks (one time in eight) a leaf of ANOTHER namespace whose name and
// tags can be repeated here: no source-specific names (they are absolute), no
// shorthand, its general alias value not yet used in this namespace.
func (g *gen) reuse(underAlias bool) (leafRec, bool) {
	if underAlias || len(g.recs) == 0 || !g.r.Chance(1, 8) {
		return leafRec{}, false
	}
	rec := g.recs[g.r.Intn(len(g.recs))]
	tag := string(rec.tag)
	if rec.ns == g.nsCur || g.ns["name:"+rec.name] || strings.Contains(tag, "dialspflagshort") {
		return leafRec{}, false
	}
	if fam := families[g.src]; len(fam) > 1 && strings.Contains(tag, fam[1]) {
		return leafRec{}, false
	}
	for _, v := range sharedAliases {
		if strings.Contains(tag, `dialsalias:"`+v+`"`) {
			if g.ns[v] {
				return leafRec{}, false
			}
			g.ns[v] = true
		}
	}
	g.ns["name:"+rec.name] = true
	return rec, true
}

var sharedAliases = []string{"timeout", "deadline", "legacy", "addr"}

func (g *gen) aliasTags(name string, leaf bool) string {
	r := g.r
	fam := families[g.src]
	// every non-empty subset of {dialsalias, <source-specific>alias} (the latter on
	// leaves of the sources that have one) x each primary tag present or not
	base, special := true, false
	if leaf && len(fam) > 1 {
		switch r.Intn(4) {
		case 0:
			base, special = false, true // ONLY the source-specific alias
		case 1:
			special = true // both
		}
	}
	var parts []string
	if base {
		val := "old_" + strings.ToLower(name)
		if r.Chance(1, 4) {
			// an everyday alias value; fields of DIFFERENT nested structs may share it
			// (their full names differ), fields of one namespace may not
			if c := sharedAliases[r.Intn(len(sharedAliases))]; !g.ns[c] {
				g.ns[c] = true
				val = c
			}
		}
		parts = append(parts, fmt.Sprintf(`dialsalias:"%s"`, val))
	}
	if r.Chance(1, 3) {
		parts = append(parts, fmt.Sprintf(`dials:"cur_%s"`, strings.ToLower(name)))
	}
	if special {
		parts = append(parts, fmt.Sprintf(`%salias:"OLD2_%s"`, fam[1], strings.ToUpper(name)))
	}
	if leaf && len(fam) > 1 && (special && r.Chance(1, 2) || !special && r.Chance(1, 6)) {
		parts = append(parts, fmt.Sprintf(`%s:"CUR2_%s"`, fam[1], strings.ToUpper(name)))
	}
	if r.Chance(1, 4) {
		parts = append(parts, fmt.Sprintf(`dialsdesc:"the %s"`, name))
	}
	for i := len(parts) - 1; i > 0; i-- {
		j := r.Intn(i + 1)
		parts[i], parts[j] = parts[j], parts[i]
	}
	return strings.Join(parts, " ")
}

// strct draws a struct type; path is the path of the struct from the root;
// underAlias says an enclosing field is aliased (no nested targets then).
func (g *gen) strct(depth int, path []string, underAlias bool, collect bool) reflect.Type {
	r := g.r
	n := 1 + r.Intn(4)
	var fields []reflect.StructField
	for i := 0; i < n; i++ {
		name := g.name()
		p := append(append([]string{}, path...), name)
		x := r.Intn(100)
		switch {
		case depth < 3 && x < 30:
			aliased := !underAlias && r.Chance(1, 3)
			mark := len(g.leaves)
			saveNS, saveCur := g.ns, g.nsCur
			g.ns = map[string]bool{} // a named nested struct opens a new namespace
			g.nsNext++
			g.nsCur = g.nsNext
			st := g.strct(depth+1, p, underAlias || aliased, collect)
			g.ns, g.nsCur = saveNS, saveCur
			t := st
			if r.Chance(1, 2) {
				t = reflect.PtrTo(st)
			}
			sf := reflect.StructField{Name: name, Type: t}
			if aliased && len(g.leaves) > mark && collect {
				sf.Tag = reflect.StructTag(g.aliasTags(name, false))
				k := mark + r.Intn(len(g.leaves)-mark)
				g.targets = append(g.targets, target{path: p, inner: g.leaves[k][len(p):], leaf: g.leafT[k], innerAl: g.leafAl[k]})
			} else if r.Chance(1, 5) {
				sf.Tag = reflect.StructTag(fmt.Sprintf(`dials:"s_%s"`, strings.ToLower(name)))
			}
			fields = append(fields, sf)
		case depth < 3 && x < 38:
			// embedded struct (never aliased: it contributes no name)
			st := g.strct(depth+1, p, underAlias, collect)
			t := st
			if r.Chance(1, 2) {
				t = reflect.PtrTo(st)
			}
			fields = append(fields, reflect.StructField{Name: name, Type: t, Anonymous: true})
		default:
			lt := leafTypes[r.Intn(len(leafTypes))]
			sf := reflect.StructField{Name: name, Type: lt}
			innerAl := false
			if rec, ok := g.reuse(underAlias); ok {
				// the SAME field name with the SAME tags as a field of another nested
				// struct, but of another type (Read.Timeout / Write.Timeout)
				name, p = rec.name, append(append([]string{}, path...), rec.name)
				for lt == rec.typ {
					lt = leafTypes[r.Intn(len(leafTypes))]
				}
				sf = reflect.StructField{Name: name, Type: lt, Tag: rec.tag}
				if strings.Contains(string(rec.tag), `dialsalias:"`) && collect {
					g.targets = append(g.targets, target{path: p, leaf: lt})
				}
				fields = append(fields, sf)
				g.leaves = append(g.leaves, p)
				g.leafT = append(g.leafT, lt)
				g.leafAl = append(g.leafAl, false)
				continue
			}
			if !underAlias && r.Chance(1, 2) {
				sf.Tag = reflect.StructTag(g.aliasTags(name, true))
				if collect {
					g.targets = append(g.targets, target{path: p, leaf: lt})
				}
			} else if underAlias && r.Chance(1, 3) {
				// an aliased leaf BELOW an aliased struct (general alias only: a
				// source-specific name would be the same in both copies of the struct)
				sf.Tag = reflect.StructTag(g.aliasTags(name, false))
				innerAl = true
			} else if !underAlias && r.Chance(1, 6) {
				// an alias tag that belongs to ANOTHER source: no alias here, the
				// field is an ordinary one for this source
				var foreign []string
				for _, f := range []string{"dialsenv", "dialsflag", "dialspflag"} {
					if len(families[g.src]) < 2 || families[g.src][1] != f {
						foreign = append(foreign, f)
					}
				}
				f := foreign[r.Intn(len(foreign))]
				sf.Tag = reflect.StructTag(fmt.Sprintf(`%salias:"OLDX_%s"`, f, strings.ToUpper(name)))
				if r.Chance(1, 2) {
					sf.Tag += reflect.StructTag(fmt.Sprintf(` dials:"l_%s"`, strings.ToLower(name)))
				}
			} else if r.Chance(1, 5) {
				sf.Tag = reflect.StructTag(fmt.Sprintf(`dials:"l_%s"`, strings.ToLower(name)))
			}
			if g.src == 2 && !underAlias && g.shorts < 52 && r.Chance(1, 3) {
				// a one-letter pflag shorthand (unique per type), on aliased and other leaves
				l := string("abcdefgijklmnopqrstuvwxyzABCDEFGHIJKLMNOPQRSTUVWXYZh"[g.shorts])
				g.shorts++
				sep := ""
				if sf.Tag != "" {
					sep = " "
				}
				sf.Tag = reflect.StructTag(string(sf.Tag) + sep + fmt.Sprintf(`dialspflagshort:"%s"`, l))
			}
			fields = append(fields, sf)
			g.leaves = append(g.leaves, p)
			g.leafT = append(g.leafT, lt)
			g.leafAl = append(g.leafAl, innerAl)
			g.recs = append(g.recs, leafRec{name, sf.Tag, lt, g.nsCur})
		}
	}
	return reflect.StructOf(fields)
}

// ---- values and their text ----

func genLeaf(r *coqfmt.Rng, t reflect.Type) (reflect.Value, string) {
	v := reflect.New(t).Elem()
	switch t.Kind() {
	case reflect.Slice, reflect.Map:
		// one to three distinct elements, never empty (an empty list has no text form)
		n := 1 + r.Intn(3)
		var texts []string
		seen := map[string]bool{}
		for len(texts) < n {
			e := []string{"p", "q", "rs", "t1", "u"}[r.Intn(5)]
			if t.Kind() == reflect.Slice && t.Elem().Kind() == reflect.Int {
				e = strconv.Itoa(1 + r.Intn(90))
			}
			if seen[e] {
				continue
			}
			seen[e] = true
			texts = append(texts, e)
		}
		if t.Kind() == reflect.Map {
			sort.Strings(texts)
			v.Set(reflect.MakeMap(t))
			for _, e := range texts {
				v.SetMapIndex(reflect.ValueOf(e), reflect.ValueOf(struct{}{}))
			}
		} else {
			v.Set(reflect.MakeSlice(t, 0, n))
			for _, e := range texts {
				if t.Elem().Kind() == reflect.Int {
					x, _ := strconv.Atoi(e)
					v.Set(reflect.Append(v, reflect.ValueOf(x)))
				} else {
					v.Set(reflect.Append(v, reflect.ValueOf(e)))
				}
			}
		}
		return v, strings.Join(texts, ",")
	}
	if r.Chance(1, 3) {
		// the Go zero value, explicitly supplied: false, 0, "", 0s (set, not unset)
		switch t.Kind() {
		case reflect.String:
			return v, ""
		case reflect.Bool:
			return v, "false"
		}
		if t == reflect.TypeOf(time.Duration(0)) {
			return v, "0s"
		}
		return v, "0"
	}
	switch t.Kind() {
	case reflect.String:
		s := []string{"abc", "x1", "hello", "v_2", "Zed"}[r.Intn(5)]
		v.SetString(s)
		return v, s
	case reflect.Bool:
		v.SetBool(true)
		return v, "true"
	case reflect.Float64:
		f := float64(1+r.Intn(400)) / 8
		v.SetFloat(f)
		return v, strconv.FormatFloat(f, 'f', -1, 64)
	case reflect.Int, reflect.Int8, reflect.Int64:
		if t == reflect.TypeOf(time.Duration(0)) {
			d := time.Duration(1+r.Intn(500)) * time.Second
			v.SetInt(int64(d))
			return v, d.String()
		}
		x := int64(1 + r.Intn(120))
		if r.Chance(1, 3) {
			x = -x
		}
		v.SetInt(x)
		return v, strconv.FormatInt(x, 10)
	default: // unsigned
		x := uint64(1 + r.Intn(250))
		v.SetUint(x)
		return v, strconv.FormatUint(x, 10)
	}
}

// ---- locating translated fields ----

func fieldByPath(tt reflect.Type, path []string) int {
	want := strings.Join(path, ",")
	for i := 0; i < tt.NumField(); i++ {
		if tt.Field(i).Tag.Get("dialsfieldpath") == want {
			return i
		}
	}
	return -1
}

func withAlias(t target, alias bool) []string {
	p := append([]string{}, t.path...)
	if alias {
		p[len(p)-1] += aliasSuffix
	}
	return append(p, t.inner...)
}

// slotPath: the name a value is supplied under; for a leaf with its own alias
// below the aliased struct, half of the time the leaf's alias name
func slotPath(r *coqfmt.Rng, t target, alias bool) []string {
	p := withAlias(t, alias)
	if t.innerAl && r.Chance(1, 2) {
		p[len(p)-1] += aliasSuffix
	}
	return p
}

// leafAt walks v (original type, possibly through nil pointers) along path.
func leafAt(v reflect.Value, path []string) (reflect.Value, bool) {
	for _, n := range path {
		for v.Kind() == reflect.Ptr {
			if v.IsNil() {
				return reflect.Value{}, false
			}
			v = v.Elem()
		}
		if n == elemStep {
			// the first element of a slice / array of structs
			if v.Len() == 0 {
				return reflect.Value{}, false
			}
			v = v.Index(0)
			continue
		}
		v = v.FieldByName(n)
	}
	for v.Kind() == reflect.Ptr {
		if v.IsNil() {
			return reflect.Value{}, false
		}
		v = v.Elem()
	}
	if (v.Kind() == reflect.Slice || v.Kind() == reflect.Map) && v.IsNil() {
		return reflect.Value{}, false // slices and maps are not pointerified: nil is unset
	}
	return v, true
}

// elemStep in a path: into the first element of a slice or array of structs
// (element structs are not pointerified: a written zero cannot be told from unset)
const elemStep = "#0"

func inElem(path []string) bool {
	for _, n := range path {
		if n == elemStep {
			return true
		}
	}
	return false
}

// genLeafFor: values below an element struct are never the zero value
func genLeafFor(r *coqfmt.Rng, tg target) (reflect.Value, string) {
	for {
		v, s := genLeaf(r, tg.leaf)
		if !inElem(tg.path) || !v.IsZero() {
			return v, s
		}
	}
}

type slot struct {
	path  []string // path in the translated structure (alias suffix applied)
	val   reflect.Value
	text  string
	tgt   int  // index of the target this value is for (-1: an independent leaf)
	alias bool // supplied under the target's alias name
}

func safeValue(f func() (reflect.Value, error)) (o xf.Out) {
	defer func() {
		if r := recover(); r != nil {
			o = xf.Out{Panicked: true, PanicMsg: fmt.Sprint(r)}
		}
	}()
	v, err := f()
	if err != nil {
		return xf.Out{Err: err}
	}
	return xf.Out{V: v, T: v.Type()}
}

// build draws the type and its (at most 1..3) targets from the case state.
func build(state uint64, src int) (*gen, reflect.Type, *coqfmt.Rng) {
	r := coqfmt.NewRng(state)
	g := &gen{r: r, src: src, ns: map[string]bool{}}
	var t0 reflect.Type
	if src == 4 {
		g.ez = ezPalette[r.Intn(len(ezPalette))]
		g.ezo = drawEzOpts(r)
		t0 = g.ez.T
		g.walk(t0, nil, false)
	} else {
		t0 = g.strct(0, nil, false, true)
	}
	kmax := 1 + r.Intn(3)
	for len(g.targets) > kmax {
		i := r.Intn(len(g.targets))
		g.targets = append(g.targets[:i], g.targets[i+1:]...)
	}
	return g, t0, r
}

func run(raw json.RawMessage) driver.Result {
	var in input
	if err := json.Unmarshal(raw, &in); err != nil {
		panic(err)
	}
	g, t0, r := build(in.State, in.Src)
	pt := ptrify.Pointerify(t0, reflect.Value{})
	k := len(g.targets)
	var slots []slot
	both := []string{}
	pat := in.Pat
	for ti, tg := range g.targets {
		d := pat % 4
		pat /= 4
		pv, ps := genLeafFor(r, tg)
		if d&1 != 0 {
			slots = append(slots, slot{slotPath(r, tg, false), pv, ps, ti, false})
		}
		if d&2 != 0 {
			v, s := genLeafFor(r, tg)
			// both names carrying the SAME value (slices, sets and maps included) is
			// an error like any other pair (seeded C14-q)
			if d == 3 && r.Chance(1, 2) {
				v, s = pv, ps
			}
			slots = append(slots, slot{slotPath(r, tg, true), v, s, ti, true})
		}
		if d == 3 {
			both = append(both, tg.path[len(tg.path)-1])
		}
	}
	// independent fields: some other leaves that are not below a target
	for i, lp := range g.leaves {
		under := false
		for _, tg := range g.targets {
			if len(lp) >= len(tg.path) && strings.Join(lp[:len(tg.path)], ",") == strings.Join(tg.path, ",") {
				under = true
			}
		}
		if !under && !inElem(lp) && r.Chance(1, 3) {
			v, s := genLeaf(r, g.leafT[i])
			slots = append(slots, slot{lp, v, s, -1, false})
		}
	}

	var chain, chain2 []xf.M
	switch in.Src {
	case 0:
		chain = xf.EnvChain()
	case 1:
		chain = xf.FlagChain()
	case 2:
		chain = xf.PflagChain()
	case 3:
		chain = xf.EzChain([]int{-1, 2, 4}[r.Intn(3)])
		chain2 = xf.JSONChain()
	default:
		// what ez has to assemble for these Params: the alias mangler ALWAYS
		chain = xf.EzChainOpts(g.ezo.Enc, !g.ezo.DisableSetSlice)
		chain2 = xf.JSONChain()
	}
	tf := transform.NewTransformer(pt, xf.Manglers(chain)...)
	tto := xf.TranslateSafe(tf)
	tags := []string{"src-" + srcNames[in.Src], fmt.Sprintf("targets-%d", k)}
	if tto.Class() != "ok" {
		return driver.Result{Coq: fmt.Sprintf("ACase %s %s [] [] [] (Err 0) [] []", rty.TyTerm(pt), xf.ChainTerm(chain)),
			Kind: "notranslate", Tags: append(tags, "translate-"+tto.Class()),
			Direct: []string{"TranslateType failed for an alias-tagged config type: " + tto.PanicMsg + fmt.Sprint(tto.Err)}}
	}
	tt := tto.T
	filled := reflect.New(tt).Elem()
	oracle := "[]"
	var res xf.Out
	var direct []string
	ctx := context.Background()

	switch in.Src {
	case 0: // ---- environment
		prefix := ""
		if r.Chance(1, 2) {
			prefix = "APPX"
		}
		var setNames []string
		var entries []string
		for _, s := range slots {
			i := fieldByPath(tt, s.path)
			if i < 0 {
				direct = append(direct, "no translated field for path "+strings.Join(s.path, ","))
				continue
			}
			name := tt.Field(i).Tag.Get("dialsenv")
			if prefix != "" {
				name = prefix + "_" + name
			}
			os.Setenv(name, s.text)
			setNames = append(setNames, name)
			txt := s.text
			filled.Field(i).Set(reflect.ValueOf(&txt))
		}
		// oracle for the texts: the type the string-cast stage asks for
		pre := xf.TranslateSafe(transform.NewTransformer(pt, xf.Manglers(chain[:len(chain)-1])...))
		if pre.Class() == "ok" {
			seen := map[string]bool{}
			for _, s := range slots {
				i := fieldByPath(tt, s.path)
				if i < 0 {
					continue
				}
				ft := pre.T.Field(i).Type
				var ct reflect.Type
				switch ft.Kind() {
				case reflect.Slice, reflect.Map:
					ct = ft
				default:
					ct = ft.Elem()
				}
				key := s.text + "\x00" + ct.String()
				if seen[key] {
					continue
				}
				seen[key] = true
				entries = append(entries, xf.OracleEntry(s.text, ct))
			}
		}
		oracle = coqfmt.List(entries)
		res = safeValue(func() (reflect.Value, error) {
			return (&env.Source{Prefix: prefix}).Value(ctx, dials.NewType(pt))
		})
		for _, n := range setNames {
			os.Unsetenv(n)
		}
	case 1, 2: // ---- flag sources
		var args []string
		dash := "-"
		nameTag := "dialsflag"
		if in.Src == 2 {
			dash = "--"
			nameTag = "dialspflag"
		}
		for _, s := range slots {
			i := fieldByPath(tt, s.path)
			if i < 0 {
				direct = append(direct, "no translated field for path "+strings.Join(s.path, ","))
				continue
			}
			sf := tt.Field(i)
			name, ok := sf.Tag.Lookup(nameTag)
			if !ok {
				name = sf.Tag.Get("dials")
			}
			args = append(args, dash+name+"="+s.text)
			if ft := filled.Field(i).Type(); ft != s.val.Type() && ft != reflect.PtrTo(s.val.Type()) {
				direct = append(direct, fmt.Sprintf("translated field %s has type %s for a leaf of type %s", sf.Name, ft, s.val.Type()))
				continue
			}
			if filled.Field(i).Kind() == reflect.Ptr {
				p := reflect.New(s.val.Type())
				p.Elem().Set(s.val)
				filled.Field(i).Set(p)
			} else {
				filled.Field(i).Set(s.val) // slices, maps
			}
		}
		tmpl := reflect.New(t0).Interface()
		res = safeValue(func() (reflect.Value, error) {
			if in.Src == 1 {
				set, err := dflag.NewSetWithArgs(dflag.DefaultFlagNameConfig(), tmpl, args)
				if err != nil {
					return reflect.Value{}, err
				}
				return set.Value(ctx, dials.NewType(pt))
			}
			set, err := dpflag.NewSetWithArgs(dpflag.DefaultFlagNameConfig(), tmpl, args)
			if err != nil {
				return reflect.Value{}, err
			}
			return set.Value(ctx, dials.NewType(pt))
		})
	default: // ---- JSON through ez's decoder wrap
		tf2 := transform.NewTransformer(tt, xf.Manglers(chain2)...)
		tto2 := xf.TranslateSafe(tf2)
		if tto2.Class() != "ok" {
			direct = append(direct, "inner TranslateType failed")
			break
		}
		// the document is produced from a value of the inner type itself
		docVal := reflect.New(tto2.T)
		for _, s := range slots {
			if !setNestedConv(docVal.Elem(), s.path, s.val) {
				direct = append(direct, "cannot place value at "+strings.Join(s.path, ","))
			}
		}
		doc, err := json.Marshal(docVal.Interface())
		if err != nil {
			direct = append(direct, "marshal: "+err.Error())
			break
		}
		// what encoding/json produces for this document is the model's input
		filled = reflect.New(tto2.T).Elem()
		if err := json.Unmarshal(doc, filled.Addr().Interface()); err != nil {
			direct = append(direct, "unmarshal: "+err.Error())
		}
		dec := sourcewrap.NewTransformingDecoder(&djson.Decoder{}, xf.Manglers(chain)...)
		if r.Chance(1, 2) {
			// the same decoder instance first decodes for ANOTHER config type
			ot := reflect.TypeOf(EzB{})
			if t0 == ot {
				ot = reflect.TypeOf(EzA{})
			}
			other := ptrify.Pointerify(ot, reflect.Value{})
			pre := safeValue(func() (reflect.Value, error) {
				return dec.Decode(strings.NewReader("{}"), dials.NewType(other))
			})
			if pre.Class() == "ok" && pre.V.Type() != other {
				direct = append(direct, fmt.Sprintf("transforming decoder asked for %s returned a %s", other, pre.V.Type()))
			}
			tags = append(tags, "decoder-reused-after-another-type")
		}
		res = safeValue(func() (reflect.Value, error) {
			return dec.Decode(strings.NewReader(string(doc)), dials.NewType(pt))
		})
		if in.Src == 4 {
			// the same document as a config FILE through the real ez entry point
			// with these Params: same outcome as the alias-wrapped decoder above
			tags = append(tags, fmt.Sprintf("ez-disable-setslice-%v", g.ezo.DisableSetSlice), fmt.Sprintf("ez-encoder-%d", g.ezo.Enc))
			ezRes := safeValue(func() (reflect.Value, error) { return viaEz(g.ez, g.ezo, doc) })
			switch {
			case ezRes.Panicked:
				direct = append(direct, "ez panicked: "+ezRes.PanicMsg)
			case res.Class() == "err" && ezRes.Err == nil:
				direct = append(direct, "ez: the alias-wrapped decoder rejects this file ("+res.Err.Error()+") but ez accepts it")
			case res.Class() == "ok" && ezRes.Err != nil:
				direct = append(direct, "ez: unexpected error "+ezRes.Err.Error())
			case res.Class() == "ok":
				if d := sameAsView(res.V, ezRes.V, "cfg"); d != "" {
					direct = append(direct, "ez's view differs from the alias-wrapped decoder's result: "+d)
				}
			case res.Class() == "err":
				named := false
				for _, b := range both {
					if strings.Contains(ezRes.Err.Error(), strconv.Quote(b)) {
						named = true
					}
				}
				if len(both) > 0 && !named {
					direct = append(direct, "ez: error does not name the field: "+ezRes.Err.Error())
				}
			}
		}
	}

	// ---- direct oracle: the property on the implementation's result
	errText := ""
	if res.Err != nil {
		errText = res.Err.Error()
	}
	switch {
	case res.Panicked:
		direct = append(direct, "source panicked: "+res.PanicMsg)
	case len(both) > 0:
		if res.Err == nil {
			direct = append(direct, "both names set for "+strings.Join(both, ",")+" but no error")
		} else {
			named := false
			for _, b := range both {
				if strings.Contains(errText, strconv.Quote(b)) {
					named = true
				}
			}
			if !named {
				direct = append(direct, "error does not name the field: "+errText)
			}
		}
	case res.Err != nil:
		direct = append(direct, "unexpected error: "+errText)
	default:
		p := in.Pat
		for ti, tg := range g.targets {
			d := p % 4
			p /= 4
			leaf, set := leafAt(res.V, append(append([]string{}, tg.path...), tg.inner...))
			var want *slot
			for i := range slots {
				if slots[i].tgt == ti && slots[i].alias == (d == 2) {
					want = &slots[i]
				}
			}
			switch {
			case d == 0 && set && !(inElem(tg.path) && leaf.IsZero()):
				direct = append(direct, "neither name given but the field is set: "+strings.Join(tg.path, "."))
			case d != 0 && !set:
				direct = append(direct, "a name was given but the field is unset: "+strings.Join(tg.path, "."))
			case d != 0 && want != nil && !reflect.DeepEqual(leaf.Interface(), want.val.Interface()):
				direct = append(direct, fmt.Sprintf("field %s = %v, want %v", strings.Join(tg.path, "."), leaf.Interface(), want.val.Interface()))
			}
		}
	}
	for _, sl := range slots {
		if sl.val.IsZero() {
			tags = append(tags, "zero-value-supplied")
			break
		}
	}
	tags = append(tags, "result-"+res.Class())
	if len(both) > 0 {
		tags = append(tags, "some-both")
	}
	bothTerms := make([]string, len(both))
	for i, b := range both {
		bothTerms[i] = coqfmt.Str(b)
	}
	return driver.Result{
		Coq: fmt.Sprintf("ACase %s %s %s %s %s %s %s %s", rty.TyTerm(pt), xf.ChainTerm(chain), xf.ChainTerm(chain2),
			rty.StructFieldsTerm(filled), oracle, xf.ValueOutcome(res), coqfmt.Str(errText), coqfmt.List(bothTerms)),
		Kind:       srcNames[in.Src],
		Nontrivial: k >= 1 && in.Pat != 0,
		Direct:     direct,
		Tags:       tags,
	}
}

// setNestedConv is setNested with the conversions the JSON decoder's type
// substitution introduces (time.Duration -> ParsingDuration).
func setNestedConv(v reflect.Value, path []string, leaf reflect.Value) bool {
	for _, n := range path {
		for v.Kind() == reflect.Ptr {
			if v.IsNil() {
				v.Set(reflect.New(v.Type().Elem()))
			}
			v = v.Elem()
		}
		if n == elemStep {
			switch v.Kind() {
			case reflect.Slice:
				if v.Len() == 0 {
					v.Set(reflect.MakeSlice(v.Type(), 1, 1))
				}
			case reflect.Array:
			default:
				return false
			}
			v = v.Index(0)
			continue
		}
		if v.Kind() != reflect.Struct {
			return false
		}
		f := v.FieldByName(n)
		if !f.IsValid() {
			return false
		}
		v = f
	}
	if v.Kind() == reflect.Ptr {
		et := v.Type().Elem()
		if !leaf.Type().ConvertibleTo(et) {
			return false
		}
		p := reflect.New(et)
		p.Elem().Set(leaf.Convert(et))
		v.Set(p)
		return true
	}
	if leaf.Kind() == reflect.Map && v.Kind() == reflect.Slice && leaf.Type().Key() == v.Type().Elem() {
		// a set behind the set-slice mangler: its elements in a fixed order
		keys := leaf.MapKeys()
		sort.Slice(keys, func(i, j int) bool { return keys[i].String() < keys[j].String() })
		out := reflect.MakeSlice(v.Type(), 0, len(keys))
		for _, k := range keys {
			out = reflect.Append(out, k)
		}
		v.Set(out)
		return true
	}
	if !leaf.Type().ConvertibleTo(v.Type()) {
		return false
	}
	v.Set(leaf.Convert(v.Type()))
	return true
}

func gen_(r *coqfmt.Rng, n int, tier string) []json.RawMessage {
	var out []json.RawMessage
	for len(out) < n {
		state := r.U64()
		src := r.Intn(5)
		// determine k for this type
		g, _, _ := build(state, src)
		k := len(g.targets)
		if k == 0 && r.Chance(3, 4) {
			continue
		}
		total := 1
		for i := 0; i < k; i++ {
			total *= 4
		}
		for p := 0; p < total; p++ {
			b, _ := json.Marshal(input{K: "alias", State: state, Src: src, Pat: p})
			out = append(out, b)
		}
	}
	return out
}

func main() {
	driver.Main(driver.Engine{
		Prop: "C14", CoqImport: "Dials.Check.C14Check", CoqRun: "run_cases",
		Rule: "random config types (leaves of 14 kinds: 11 scalar kinds incl. durations and named scalars, []string, []int, the set map[string]struct{}; alias values partly from a small everyday pool shared between DIFFERENT nested structs; one leaf in eight repeats name and tags of a leaf of another nested struct with another type; nested value/pointer structs to depth 3, embedded structs) with dialsalias tags; every supplied value is the Go zero value of its type (false, 0, \"\", 0s) with probability 1/3 (every non-empty subset of {dialsalias, dialsenvalias / dialsflagalias / dialspflagalias} on leaves - incl. ONLY the source-specific alias - each of dials and the source-specific primary tag present or not, dialsdesc; for the pflag source one leaf in three, aliased or not, carries a one-letter dialspflagshort) on random leaf and struct-typed fields at any depth, a leaf below an aliased struct may carry an alias of its own (then outer alias + inner alias is a fourth name, used half of the time), one plain leaf in six carries an alias tag of ANOTHER source only; up to 3 aliased targets per type, ALL 4^k neither/primary/alias/both patterns; other leaves set independently with probability 1/3; each type through one of: env source (with and without prefix), std flag source, pflag source, JSON decoder wrapped with ez's alias/reformat/set-slice manglers, or (four static config types with aliases on leaves, struct-typed, pointer and embedded fields) a JSON config FILE read through the real ez.JSONConfigEnvFlag with Params drawn from DisableAutoSetToSlice x FileFieldNameEncoder in {nil, nil, lower_snake, kebab}, its view compared with the alias-wrapped decoder's result; non-trivial: at least one target and a pattern other than all-neither; distinct = distinct (type state, source, pattern)",
		Gen:  gen_, Run: run,
	})
}
