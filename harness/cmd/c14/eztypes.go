package main

// Static config types for the REAL ez entry point (ez's functions are generic
// over the config type, so generated reflect types cannot be used there).
// Every type carries dialsalias tags at some depth and a Path field for
// ConfigPath; the aliased targets are found by walking the type.

import (
	"context"
	"fmt"
	"os"
	"path/filepath"
	"reflect"
	"time"

	"github.com/vimeo/dials"
	"github.com/vimeo/dials/ez"
	"github.com/vimeo/dials/tagformat/caseconversion"

	"verifharness/internal/coqfmt"
	"verifharness/internal/rty"
)

type EzA struct {
	ConfFile   string
	ListenAddr string `dials:"listen_addr" dialsalias:"addr"`
	SrvPort    int    `dialsalias:"old_port"`
	Verbose    bool
	Tags       map[string]struct{}
}

type EzBBackend struct {
	MaxConns int64 `dialsalias:"conns"`
	Host     string
	Timeout  time.Duration `dials:"timeout" dialsalias:"deadline"`
}

type EzB struct {
	ConfFile string
	SvcName  rty.NName `dialsalias:"old_name"`
	Backend  EzBBackend
	Standby  *EzBBackend `dials:"standby" dialsalias:"spare"` // an aliased struct with aliased leaves
	Ratio    float64
}

type EzCLimits struct {
	Burst uint16
	Level rty.NLevel
	Note  string
}

type EzC struct {
	ConfFile string
	Limits   EzCLimits  `dialsalias:"old_limits"`
	Extra    *EzCLimits `dials:"extra" dialsalias:"more"`
	Retry    int8       `dialsalias:"retries"`
	Labels   map[string]struct{}
}

type EzDInner struct {
	Depth uint `dialsalias:"old_depth"`
	Wait  time.Duration
}

type EzDMid struct {
	Inner EzDInner
	Flag  bool `dialsalias:"old_flag"`
}

type EzDCommon struct {
	RegionID string `dialsalias:"zone"`
	Shard    int
}

type EzD struct {
	ConfFile string
	EzDCommon
	Mid     EzDMid
	OwnerID string `dials:"owner"`
}

// types whose ONLY aliases sit inside a pointer-to-struct section, an embedded
// pointer, the elements of a slice / an array of structs
type EzESection struct {
	Weight int    `dialsalias:"w"`
	ZoneID string `dials:"zone_id" dialsalias:"zone"`
	Note   string
}

type EzE struct {
	ConfFile string
	Sec      *EzESection
	Plain    int
}

type EzFCommon struct {
	RegionID string `dialsalias:"old_region"`
	ShardNo  int
}

type EzF struct {
	ConfFile string
	*EzFCommon
	Plain string
}

type EzGItem struct {
	Weight int64  `dialsalias:"w"`
	Label  string `dials:"label"`
}

type EzG struct {
	ConfFile string
	Items    []EzGItem
	Plain    bool
}

type EzHInner struct {
	Depth uint16 `dialsalias:"old_depth"`
}

type EzHItem struct {
	Inner *EzHInner
	Tag   string
}

type EzH struct {
	ConfFile string
	Pairs    []EzHItem `dials:"pairs"` // (not an array: Pointerify makes [N]T a *[N]T, which no transformer recurses into)
	Deep     *struct {
		Items []EzGItem
	}
}

func (c *EzE) ConfigPath() (string, bool) { return c.ConfFile, c.ConfFile != "" }
func (c *EzF) ConfigPath() (string, bool) { return c.ConfFile, c.ConfFile != "" }
func (c *EzG) ConfigPath() (string, bool) { return c.ConfFile, c.ConfFile != "" }
func (c *EzH) ConfigPath() (string, bool) { return c.ConfFile, c.ConfFile != "" }
func (c *EzA) ConfigPath() (string, bool) { return c.ConfFile, c.ConfFile != "" }
func (c *EzB) ConfigPath() (string, bool) { return c.ConfFile, c.ConfFile != "" }
func (c *EzC) ConfigPath() (string, bool) { return c.ConfFile, c.ConfFile != "" }
func (c *EzD) ConfigPath() (string, bool) { return c.ConfFile, c.ConfFile != "" }

// ezOpts: the option combination of ez.Params that decides how the file
// decoder is wrapped.
type ezOpts struct {
	DisableSetSlice bool
	Enc             int // -1: no FileFieldNameEncoder; else index into xf.Encoders
}

var ezEncoders = map[int]caseconversion.EncodeCasingFunc{
	2: caseconversion.EncodeLowerSnakeCase,
	4: caseconversion.EncodeKebabCase,
}

// nullSource stands in for the flag source (ez would otherwise register flags
// on the process-wide flag.CommandLine).
type nullSource struct{}

func (nullSource) Value(_ context.Context, t *dials.Type) (reflect.Value, error) {
	return reflect.New(t.Type()).Elem(), nil
}

type ezType struct {
	T   reflect.Type
	Run func(path string, o ezOpts) (reflect.Value, error)
}

func runEz[T any, TP ez.ConfigWithConfigPath[T]](mk func(path string) TP) func(string, ezOpts) (reflect.Value, error) {
	return func(path string, o ezOpts) (reflect.Value, error) {
		ctx, cancel := context.WithCancel(context.Background())
		defer cancel()
		p := ez.Params[T]{DisableAutoSetToSlice: o.DisableSetSlice, FlagSource: nullSource{}}
		if o.Enc >= 0 {
			p.FileFieldNameEncoder = ezEncoders[o.Enc]
		}
		d, err := ez.JSONConfigEnvFlag[T, TP](ctx, mk(path), p)
		if err != nil {
			return reflect.Value{}, err
		}
		return reflect.ValueOf(d.View()).Elem(), nil
	}
}

var ezPalette = []ezType{
	{reflect.TypeOf(EzA{}), runEz[EzA](func(p string) *EzA { return &EzA{ConfFile: p} })},
	{reflect.TypeOf(EzB{}), runEz[EzB](func(p string) *EzB { return &EzB{ConfFile: p} })},
	{reflect.TypeOf(EzC{}), runEz[EzC](func(p string) *EzC { return &EzC{ConfFile: p} })},
	{reflect.TypeOf(EzD{}), runEz[EzD](func(p string) *EzD { return &EzD{ConfFile: p} })},
	{reflect.TypeOf(EzE{}), runEz[EzE](func(p string) *EzE { return &EzE{ConfFile: p} })},
	{reflect.TypeOf(EzF{}), runEz[EzF](func(p string) *EzF { return &EzF{ConfFile: p} })},
	{reflect.TypeOf(EzG{}), runEz[EzG](func(p string) *EzG { return &EzG{ConfFile: p} })},
	{reflect.TypeOf(EzH{}), runEz[EzH](func(p string) *EzH { return &EzH{ConfFile: p} })},
}

func isLeafType(t reflect.Type) bool {
	for _, lt := range leafTypes {
		if lt == t {
			return true
		}
	}
	return false
}

// walk collects the aliased targets and the scalar leaves of a static type the
// way strct does for a generated one.
func (g *gen) walk(t reflect.Type, path []string, underAlias bool) {
	for t.Kind() == reflect.Ptr {
		t = t.Elem()
	}
	for i := 0; i < t.NumField(); i++ {
		sf := t.Field(i)
		p := append(append([]string{}, path...), sf.Name)
		_, aliased := sf.Tag.Lookup("dialsalias")
		ft := sf.Type
		for ft.Kind() == reflect.Ptr {
			ft = ft.Elem()
		}
		switch {
		case len(path) == 0 && sf.Name == "ConfFile":
			// the config file's own path: not a leaf the file supplies
		case ft.Kind() == reflect.Struct && ft != reflect.TypeOf(time.Time{}):
			mark := len(g.leaves)
			g.walk(ft, p, underAlias || aliased)
			if aliased && !underAlias && len(g.leaves) > mark {
				k := mark + g.r.Intn(len(g.leaves)-mark)
				g.targets = append(g.targets, target{path: p, inner: g.leaves[k][len(p):], leaf: g.leafT[k], innerAl: g.leafAl[k]})
			}
		case (ft.Kind() == reflect.Slice || ft.Kind() == reflect.Array) && ft.Elem().Kind() == reflect.Struct:
			// the first element of a slice / array of structs (an alias on the
			// slice-typed field itself is not a target)
			g.walk(ft.Elem(), append(p, elemStep), underAlias || aliased)
		case isLeafType(sf.Type):
			if aliased && !underAlias {
				g.targets = append(g.targets, target{path: p, leaf: sf.Type})
			}
			g.leaves = append(g.leaves, p)
			g.leafT = append(g.leafT, sf.Type)
			g.leafAl = append(g.leafAl, aliased && underAlias)
		}
	}
}

func drawEzOpts(r *coqfmt.Rng) ezOpts {
	return ezOpts{DisableSetSlice: r.Chance(1, 2), Enc: []int{-1, -1, 2, 4}[r.Intn(4)]}
}

// sameAsView compares a value of the pointerified type (p) with the view ez
// hands out (s, the plain config type stacked over zero defaults): an unset
// pointer corresponds to the zero value.
func sameAsView(p, s reflect.Value, where string) string {
	if p.Kind() == reflect.Ptr && s.Kind() != reflect.Ptr {
		if p.IsNil() {
			if !s.IsZero() {
				return fmt.Sprintf("%s: unset in the decoder's result, %v in ez's view", where, s.Interface())
			}
			return ""
		}
		return sameAsView(p.Elem(), s, where)
	}
	switch s.Kind() {
	case reflect.Ptr:
		if p.IsNil() || s.IsNil() {
			if p.IsNil() != s.IsNil() {
				return fmt.Sprintf("%s: nil-ness differs", where)
			}
			return ""
		}
		return sameAsView(p.Elem(), s.Elem(), where)
	case reflect.Struct:
		for i := 0; i < s.NumField(); i++ {
			name := s.Type().Field(i).Name
			if where == "cfg" && name == "ConfFile" {
				continue // the file's own path (a default, not a file value)
			}
			pf := p.FieldByName(name)
			if !pf.IsValid() {
				return fmt.Sprintf("%s.%s: missing in the decoder's result", where, name)
			}
			if d := sameAsView(pf, s.Field(i), where+"."+name); d != "" {
				return d
			}
		}
		return ""
	case reflect.Map, reflect.Slice:
		if p.Len() == 0 && s.Len() == 0 {
			return ""
		}
	}
	if !reflect.DeepEqual(p.Interface(), s.Interface()) {
		return fmt.Sprintf("%s: %v in the decoder's result, %v in ez's view", where, p.Interface(), s.Interface())
	}
	return ""
}

// viaEz writes the document to a file and reads it through the real ez entry point.
func viaEz(et ezType, o ezOpts, doc []byte) (reflect.Value, error) {
	dir, err := os.MkdirTemp("", "c14ez")
	if err != nil {
		panic(err)
	}
	defer os.RemoveAll(dir)
	path := filepath.Join(dir, "cfg.json")
	if err := os.WriteFile(path, doc, 0o600); err != nil {
		panic(err)
	}
	return et.Run(path, o)
}
