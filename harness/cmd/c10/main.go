// c10: correspondence harness for "manglers are lossless" (property C10);
// with --named-variants the same generator serves C16's sweep over named
// versions of every scalar leaf (only "returns, never panics" is checked).
package main

import (
	"encoding/json"
	"fmt"
	"os"
	"reflect"
	"strings"

	"github.com/vimeo/dials/ptrify"
	"github.com/vimeo/dials/transform"

	"verifharness/internal/coqfmt"
	"verifharness/internal/driver"
	"verifharness/internal/rty"
	"verifharness/internal/xf"
)

type input struct {
	K     string `json:"k"`     // gen | named
	State uint64 `json:"state"` // PRNG state of this case: the generator is deterministic in it
	Depth int    `json:"depth"`
	Width int    `json:"width"`
	Raw   bool   `json:"raw,omitempty"` // the type is handed over un-pointerified
	// "embelem": an anonymous-flatten chain over a type whose first field is a
	// slice/array of structs with an embedded pointer to a struct, every field filled;
	// "prefixpair": the same chains over a type whose first field is an embedded struct
	// starting with two nested-struct fields named N and NReplica
	Focus string `json:"focus,omitempty"`
}

func opts(in input, chain []xf.M) rty.XOpts {
	o := rty.XOpts{MaxDepth: in.Depth, MaxWidth: in.Width, AliasFamilies: xf.AliasFamilies(chain), AliasNum: 1, AliasDen: 4,
		NamedSome: true, Sets: true, TextU: true, Embedded: true, StructElem: true, Maps: true, Slices: true, Arrays: true,
		UserPtrs: true, DialsTags: true, Desc: true, PoolNames: true, ElemUnexported: true, ElemNested: true, ElemPtrs: true, OddTagValues: true, OddNames: true}
	for _, m := range chain {
		if m.From != nil && !namedOnly(in) {
			o.Favor = m.From
		}
		if m.Kind == "flatten" || m.Kind == "reformat" {
			// the case encoders' Title step (x/text word segmentation) is modelled for
			// plain words only: no quotes, blanks, ... in names that get re-cased
			o.OddTagValues = false
			o.OddNames = false
		}
	}
	if len(o.AliasFamilies) == 0 {
		o.AliasFamilies = []string{"dials"}
		o.AliasDen = 8
	}
	if in.K == "named" {
		o.Named = true
	}
	if in.Raw {
		o.Unexported = true
		o.TUv = true
	}
	if in.Focus == "embelem" {
		o.ForceElemEmbed = true
	}
	if in.Focus == "prefixpair" {
		o.ForcePrefixPair = true
	}
	if in.Focus == "emptyembed" {
		o.ForceEmptyEmbed = true
	}
	return o
}

// namedOnly: the named-variants sweep replaces every scalar by its named version
func namedOnly(in input) bool { return in.K == "named" }

func run(raw json.RawMessage) driver.Result {
	var in input
	if err := json.Unmarshal(raw, &in); err != nil {
		panic(err)
	}
	r := coqfmt.NewRng(in.State)
	chain, cname := xf.DrawChain(r)
	if in.Focus == "embelem" || in.Focus == "prefixpair" || in.Focus == "emptyembed" {
		switch r.Intn(4) {
		case 0:
			chain, cname = xf.YAMLChain(true), "yaml"
		case 1:
			chain, cname = []xf.M{xf.Anon()}, "anon"
		case 2:
			chain, cname = []xf.M{xf.Alias("dials"), xf.Anon(), xf.SetSlice()}, "alias-anon-setslice"
		default:
			chain, cname = []xf.M{xf.SubstName(), xf.SetSlice(), xf.Anon()}, "mix1"
		}
	}
	g := rty.NewXGen(r, opts(in, chain))
	t0 := g.Struct(0)
	t := t0
	if !in.Raw {
		t = ptrify.Pointerify(t0, reflect.Value{})
	}
	tf := transform.NewTransformer(t, xf.Manglers(chain)...)
	tto := xf.TranslateSafe(tf)
	tags := []string{"chain-" + cname, "translate-" + tto.Class()}
	mode := 0
	if in.K == "named" {
		mode = 1
	}
	if tto.Class() != "ok" {
		if os.Getenv("C10_DEBUG") != "" {
			fmt.Fprintf(os.Stderr, "T%s raw=%v chain=%s: %s %v\n", tto.Class(), in.Raw, xf.ChainKinds(chain), tto.PanicMsg, tto.Err)
		}
		return driver.Result{
			Coq:  fmt.Sprintf("XCase %d %s %s %s [] [] (Err 0)", mode, rty.TyTerm(t), xf.ChainTerm(chain), xf.TypeOutcome(tto)),
			Kind: in.K + "-notranslate", Tags: tags,
		}
	}
	num := 1 + r.Intn(4) // fill probability 1/4 .. 4/4
	if in.Focus != "" {
		num = 4
		tags = append(tags, "focus-"+in.Focus)
	}
	f := xf.Fill(r, t, tto.T, chain, num, 4)
	res := xf.ReverseSafe(tf, f.V)
	tags = append(tags, "reverse-"+res.Class(), fmt.Sprintf("filled-leaves-%d", min(f.NFilled, 8)))
	if len(g.Aliased) > 0 {
		tags = append(tags, "has-alias-tags")
	}
	if f.Zeros > 0 {
		tags = append(tags, "has-zero-but-set-fields")
	}
	if f.Texts > 0 {
		tags = append(tags, "has-cast-texts")
	}
	if in.Raw {
		tags = append(tags, "raw-type")
	}
	if res.Panicked && os.Getenv("C10_DEBUG") != "" {
		fmt.Fprintf(os.Stderr, "PANIC raw=%v chain=%s: %s INPUT %s\n", in.Raw, xf.ChainKinds(chain), res.PanicMsg, string(raw))
	}
	if tto.Panicked && os.Getenv("C10_DEBUG") != "" {
		fmt.Fprintf(os.Stderr, "TPANIC raw=%v chain=%s: %s\n", in.Raw, xf.ChainKinds(chain), tto.PanicMsg)
	}
	if res.Panicked {
		tags = append(tags, "panic: "+trim(res.PanicMsg, in.Raw))
	}
	if f.ElemZeros > 0 {
		tags = append(tags, "has-zero-but-written-element-fields")
	}
	caseTerm := func(f xf.Filled, res xf.Out) string {
		return fmt.Sprintf("XCase %d %s %s %s %s %s %s", mode, rty.TyTerm(t), xf.ChainTerm(chain), xf.TypeOutcome(tto),
			rty.StructFieldsTerm(f.V), f.Oracle, xf.ValueOutcome(res))
	}
	var direct []string
	if m := xf.MalformedTag(tto.T); m != "" {
		direct = append(direct, "translated type: "+m)
	}
	coq := caseTerm(f, res)
	if mode == 0 && r.Chance(1, 3) {
		// the SAME Transformer reverse-translates a second, different filling;
		// afterwards the first result is read again: it must not have changed,
		// and both results are compared with the model
		before := xf.ValueOutcome(res)
		f2 := xf.Fill(r, t, tto.T, chain, 1+r.Intn(4), 4)
		res2 := xf.ReverseSafe(tf, f2.V)
		after := xf.ValueOutcome(res)
		tags = append(tags, "second-reverse-on-same-transformer", "second-reverse-"+res2.Class())
		if before != after {
			direct = append(direct, "the result of the first ReverseTranslate changed when the same Transformer reverse-translated a second value")
		}
		if res2.Panicked {
			tags = append(tags, "panic: "+trim(res2.PanicMsg, in.Raw))
		}
		coq = "XTwice (" + caseTerm(f, res) + ") (" + caseTerm(f2, res2) + ")"
	}
	return driver.Result{
		Coq:        coq,
		Kind:       in.K + "-" + cname,
		Nontrivial: xf.HasFanout(chain) && len(f.Depths) >= 2,
		Direct:     direct,
		Tags:       tags,
	}
}

// trim shortens a panic message to its class for the distribution
func trim(s string, raw bool) string {
	for _, cut := range []string{" of type ", ": ", " ["} {
		if i := strings.Index(s, cut); i > 0 {
			s = s[:i]
		}
	}
	if len(s) > 60 {
		s = s[:60]
	}
	if raw {
		s += " (raw type)"
	}
	return s
}

func min(a, b int) int {
	if a < b {
		return a
	}
	return b
}

var namedVariants bool

func gen(r *coqfmt.Rng, n int, tier string) []json.RawMessage {
	var out []json.RawMessage
	for i := 0; i < n; i++ {
		depth := 1 + r.Intn(3)
		width := 1 + r.Intn(5)
		if tier == "thorough" && r.Chance(1, 4) {
			depth = 4
		}
		in := input{K: "gen", State: r.U64(), Depth: depth, Width: width}
		if namedVariants {
			in.K = "named"
		} else if r.Chance(1, 16) {
			in.Raw = true
		} else if r.Chance(1, 12) {
			in.Focus = "embelem"
			if in.Depth < 1 {
				in.Depth = 1
			}
		} else if r.Chance(1, 16) {
			in.Focus = "prefixpair"
			if in.Depth < 2 {
				in.Depth = 2
			}
		} else if r.Chance(1, 16) {
			in.Focus = "emptyembed"
		}
		b, _ := json.Marshal(in)
		out = append(out, b)
	}
	return out
}

func main() {
	// --named-variants is consumed here; everything else belongs to the driver
	args := os.Args[:1]
	for _, a := range os.Args[1:] {
		if a == "--named-variants" || a == "-named-variants" {
			namedVariants = true
			continue
		}
		args = append(args, a)
	}
	os.Args = args
	prop := "C10"
	if namedVariants {
		prop = "C16"
	}
	driver.Main(driver.Engine{
		Prop: prop, CoqImport: "Dials.Check.C10Check", CoqRun: "run_cases",
		Rule: "random struct types with globally unique field names (nesting, *struct, embedded value/pointer structs, []struct, [2]struct, map[string]struct, []*struct / [2]*struct with nil elements, maps, sets map[T]struct{} incl. a declared set type and maps to a DECLARED empty struct, field names starting with a non-ASCII upper-case letter (chains without case conversion), durations, TextUnmarshaler structs, named scalars/slices/maps, user pointers, dials/dialsdesc tags, alias tags of the chain's tag families on random fields incl. struct-typed ones), pointerified (1/16 raw, then with unexported fields); random chain = a shipped chain (env, flag, pflag, json/cue, yaml with/without anonymous-flatten, toml, ez's decoder wrap with each field-name encoder), three mixed chains covering every mangler, or a sub-chain of one of them; every translated top-level field filled with a per-case probability in {1/4..1}, nested pointers nil with probability 1/4, 1/6 of the filled fields SET TO THE ZERO VALUE of their type (non-nil pointer to false/0/\"\", empty non-nil slice or map; string-cast texts false / 0 / empty / 0s), string-cast fields with texts drawn for their original type (1/12 malformed); element structs of slices/arrays half of the time with one more level (struct, *struct, embedded (pointer) struct fields), one element in four the zero element and one written scalar in four of the others zero; one case in twelve focused: an anonymous-flatten chain (yaml with FlattenAnonymous, the mangler alone, alias+anon+set-slice, mix1) over a type whose first field is a slice/array of structs embedding a pointer to a struct, every field filled; one case in sixteen starts with an embedded struct of unexported fields only (hoists nothing) followed by an embedded struct with >= 2 fields; one case in sixteen focused on an embedded struct that starts with two adjacent (pointer-to-)struct fields named N and NReplica under the same anonymous-flatten chains; one case in three reverse-translates a SECOND filling with the same Transformer and re-reads the first result afterwards (direct oracle: unchanged; both compared with the model); parse.String outcomes for the texts handed to the model as a table; non-trivial: chain contains a 1->n mangler (alias, flatten, anonymous-flatten) and non-nil leaves were written at >= 2 different depths; distinct = distinct PRNG case states",
		Gen:  gen, Run: run,
	})
}
