package main

import (
	"fmt"
	"time"

	"verifharness/internal/rty"
)

// Static palette of config types (dials.Config is generic, so the type must
// exist at compile time).  Shapes: nesting by value and pointer, embedding,
// alias tags on leaves and structs, sets, maps, slices of structs, durations,
// named scalars, TextUnmarshaler, dials tags.

type Leafy struct {
	A int           `dials:"a_val" dialsalias:"old_a"`
	B string        `dialsalias:"old_b" dialsenvalias:"OLD_B_ENV"`
	D time.Duration `dialsdesc:"a duration"`
	L rty.NLevel
}

type Emb struct {
	X float64
	Y []string `dials:"why"`
}

type Elem struct {
	K string
	V int8 `dialsalias:"old_v"`
}

type Cfg1 struct {
	Name    string `dials:"nm"`
	Port    uint16
	Timeout time.Duration
	Verbose bool
}

type Cfg2 struct {
	Title string `dialsalias:"old_title"`
	In    Leafy
	P     *Leafy `dialsalias:"old_p"`
	Count rty.NCount
}

type Cfg3 struct {
	Emb
	Tags  map[string]struct{}
	Ports map[int]struct{}
	M     map[string]int
	Who   rty.NName `dials:"who_is"`
	Deep  struct {
		Lvl1 struct {
			Z  uint32
			Du time.Duration
		}
		Q *bool
	}
}

type Cfg4 struct {
	Items []Elem
	Pair  [2]Elem
	T     rty.TUp
	PT    *rty.TUp
	F     float32
	I64   int64 `dialsalias:"old_i64" dialsdesc:"sixty four"`
}

type Cfg5 struct {
	*Emb
	S  []int
	NS rty.NStrs
	D  []time.Duration
	Up *int
	In struct {
		Leafy
		W string `dials:"w"`
	}
}

// Config types with a Verify method (dials.VerifiedConfig): an update whose
// stacked result is rejected must not be installed, is an error event, and a
// BlockingReportNewValue of it returns the error.

type CfgV1 struct {
	Name  string `dialsalias:"old_name"`
	Limit int16  `dials:"lim"`
	In    struct {
		Ratio float64
		Mode  rty.NLevel
	}
	Tags map[string]struct{}
}

// Verify rejects Limit < -50 (pointer receiver).
func (c *CfgV1) Verify() error {
	if c.Limit < -50 {
		return fmt.Errorf("limit %d too small", c.Limit)
	}
	return nil
}

type CfgV2 struct {
	Emb
	P     *Leafy
	Count rty.NCount `dialsalias:"old_count"`
	D     time.Duration
}

// Verify rejects Count < 0 (value receiver).
func (c CfgV2) Verify() error {
	if c.Count < 0 {
		return fmt.Errorf("count %d negative", c.Count)
	}
	return nil
}

// verifyRule describes Verify() to the model: reject when field idx is an integer below bound.
func verifyRule(typ int) string {
	switch typ {
	case 5:
		return "(Some (1%nat, (-50)%Z))"
	case 6:
		return "(Some (2%nat, 0%Z))"
	}
	return "None"
}

// ---- more shapes (deepening round) ----

type Lvl3 struct {
	Z  uint32 `dialsalias:"old_z"`
	S  []string
	Pt *int
}
type Lvl2 struct {
	Name string `dials:"nm2" dialsalias:"old_nm2"`
	L3   *Lvl3  `dialsalias:"old_l3"`
	V3   Lvl3
}
type Cfg6 struct {
	Top  bool
	L2   *Lvl2 `dialsalias:"old_l2"`
	V2   Lvl2
	Last rty.NLevel `dialsalias:"old_last" dialsenvalias:"OLD_LAST_ENV"`
}

type Row struct {
	ID    int `dialsalias:"old_id"`
	Label rty.NName
	Sub   struct {
		W float64
		T []string
	}
}
type Cfg7 struct {
	Rows   []Row
	ByName map[string]Row
	IDs    map[int]struct{}
	Names  map[rty.NName]struct{}
	Fixed  [2]Row
	Durs   map[string]time.Duration
}

type EmbV struct {
	EV  int `dials:"ev_tag"`
	EVS []int
}
type EmbP struct {
	EP  string `dialsalias:"old_ep"`
	EPM rty.NMap
}
type Cfg8 struct {
	EmbV
	*EmbP
	NS   rty.NStrs
	PI   *int
	PSl  *[]string
	PD   *time.Duration
	PMap *map[string]int
}

type Cfg9 struct {
	A string        `dials:"alpha" dialsalias:"old_alpha" dialsenvalias:"OLD_ALPHA" dialsflagalias:"old-alpha-flag"`
	B int           `dialsalias:"old_b" dialsdesc:"the b"`
	C bool          `dialsenv:"CUR_C" dialsenvalias:"OLD_C" dialsalias:"old_c"`
	D time.Duration `dialspflag:"dee" dialspflagalias:"old-dee" dialsalias:"old_d"`
	E float64       `dials:"-"`
	F uint8         `dialsalias:"old_f"`
	G struct {
		H int16 `dialsalias:"old_h"`
		I string
	} `dialsalias:"old_g"`
}

type Cfg10 struct {
	Arr  [3]int
	C64  complex64
	F32  float32
	I8   int8
	U64  uint64
	TU   rty.TUp
	PTU  *rty.TUp
	Nest struct {
		Deep struct {
			Deeper struct {
				X string `dialsalias:"old_x"`
				Y *bool
			}
		}
	}
}
