// c20: transforming sources are transparent (property C20, transforming half).
// A Dials built on sourcewrap.NewTransformingSource(inner, manglers...) with a
// scripted inner source (static / failing / watching with an update sequence)
// is compared, step by step, with a reference Dials fed the already-unmangled
// values (direct oracle) and with the Coq model (translate, reverse, stack).
// Every batch of cases runs in a CHILD process: on the pinned tree an update
// through a type-changing chain kills the process (panic in the monitor
// goroutine); the parent then records "process died" for that case.
package main

import (
	"bufio"
	"context"
	"encoding"
	"encoding/json"
	"errors"
	"fmt"
	"io"
	"io/fs"
	"os"
	"os/exec"
	"reflect"
	"sort"
	"strings"
	"sync"
	"time"

	"github.com/vimeo/dials"
	"github.com/vimeo/dials/common"
	"github.com/vimeo/dials/ptrify"
	"github.com/vimeo/dials/sources/static"
	"github.com/vimeo/dials/sourcewrap"
	"github.com/vimeo/dials/tagformat"
	cc "github.com/vimeo/dials/tagformat/caseconversion"
	"github.com/vimeo/dials/transform"

	"verifharness/internal/coqfmt"
	"verifharness/internal/driver"
	"verifharness/internal/rty"
	"verifharness/internal/xf"
)

type input struct {
	K     string `json:"k"`
	State uint64 `json:"state"`
	Type  int    `json:"type"`  // palette index
	Inner int    `json:"inner"` // 0 static, 1 failing Value, 2 watching, 3 watching whose Watch fails
	Steps int    `json:"steps"`
	// the SAME wrapper instance is first asked about ANOTHER config type
	// (palette index PrimeType): 0 not, 1 its Value, 2 its Watch, 3 both
	Prime     int `json:"prime,omitempty"`
	PrimeType int `json:"prime_type,omitempty"`
	// the wrapper is built by tagformat.ReformatDialsTagSource (decoder
	// DecodeGoTags, encoder index Via-1) instead of sourcewrap.NewTransformingSource
	Via int `json:"via,omitempty"`
	// the chain is spread over Nest (2 or 3) transforming sources wrapped
	// directly around one another: the composition of the single wrappers is the
	// wrapper of the whole chain (outermost wrapper = first manglers)
	Nest int `json:"nest,omitempty"`
}

type childResult struct {
	Coq        string   `json:"coq"`
	Kind       string   `json:"kind"`
	Nontrivial bool     `json:"nontrivial"`
	Direct     []string `json:"direct"`
	Tags       []string `json:"tags"`
}

// ---------------- scripted inner source ----------------

type fakeSrc struct {
	priming   bool  // answering for another config type before the case proper: zero value, nothing recorded
	err       error // what a failing Value / Watch returns
	failValue bool
	failWatch bool
	first     func(t reflect.Type) reflect.Value
	typ       reflect.Type
	args      dials.WatchArgs
	ready     chan struct{}
}

func (f *fakeSrc) Value(_ context.Context, t *dials.Type) (reflect.Value, error) {
	if f.priming {
		return reflect.New(t.Type()).Elem(), nil
	}
	if f.failValue {
		return reflect.Value{}, f.err
	}
	return f.first(t.Type()), nil
}

type fakeWatcher struct{ fakeSrc }

func (f *fakeWatcher) Watch(_ context.Context, t *dials.Type, args dials.WatchArgs) error {
	if f.priming {
		return nil
	}
	if f.failWatch {
		return f.err
	}
	f.typ = t.Type()
	f.args = args
	close(f.ready)
	return nil
}

// failure draws the error of a failing inner source / decoder: a plain error or
// one of the sentinels callers test for, bare or wrapped.
func failure(state uint64) (err, base error) {
	r := coqfmt.NewRng(state ^ 0x5e171e1)
	bases := []error{errors.New("inner failed on purpose"), io.EOF, io.ErrUnexpectedEOF, fs.ErrNotExist, context.Canceled,
		context.DeadlineExceeded, os.ErrPermission}
	base = bases[r.Intn(len(bases))]
	if r.Chance(1, 2) {
		return fmt.Errorf("reading the inner configuration: %w", base), base
	}
	return base, base
}

// failDec is a decoder that fails.
type failDec struct{ err error }

func (d *failDec) Decode(io.Reader, *dials.Type) (reflect.Value, error) {
	return reflect.Value{}, d.err
}

// decoderFailure: a failing inner decoder behind NewTransformingDecoder fails
// exactly as it does unwrapped, and the cause stays reachable.
func decoderFailure[T any](ctx context.Context, in input, ms []transform.Mangler, pt reflect.Type, translatable bool) (direct []string) {
	defer func() {
		if r := recover(); r != nil {
			direct = append(direct, fmt.Sprintf("transforming decoder around a failing decoder panicked: %v", r))
		}
	}()
	err, base := failure(in.State)
	_, native := dials.Config(ctx, new(T), &static.StringSource{Data: "x", Decoder: &failDec{err}})
	_, wrapped := dials.Config(ctx, new(T), &static.StringSource{Data: "x", Decoder: sourcewrap.NewTransformingDecoder(&failDec{err}, ms...)})
	if native == nil {
		direct = append(direct, "reference: Config with a failing decoder succeeded")
	}
	if wrapped == nil {
		direct = append(direct, fmt.Sprintf("Config succeeds with a transforming decoder around a decoder that fails with %q (unwrapped it fails)", err))
	}
	if translatable {
		_, derr := sourcewrap.NewTransformingDecoder(&failDec{err}, ms...).Decode(strings.NewReader("x"), dials.NewType(pt))
		switch {
		case derr == nil:
			direct = append(direct, fmt.Sprintf("transforming decoder returned no error although the inner decoder failed with %q", err))
		case !errors.Is(derr, base):
			direct = append(direct, fmt.Sprintf("transforming decoder's error %q does not wrap the inner decoder's %q", derr, base))
		}
	}
	return direct
}

// ---------------- one case ----------------

type errLog struct {
	mu sync.Mutex
	n  int
}

func (e *errLog) add() { e.mu.Lock(); e.n++; e.mu.Unlock() }
func (e *errLog) get() int {
	e.mu.Lock()
	defer e.mu.Unlock()
	return e.n
}

func waitFor(cond func() bool) bool {
	deadline := time.Now().Add(3 * time.Second)
	for time.Now().Before(deadline) {
		if cond() {
			return true
		}
		time.Sleep(200 * time.Microsecond)
	}
	return cond()
}

func waitShort(cond func() bool) bool {
	deadline := time.Now().Add(2 * time.Millisecond)
	for time.Now().Before(deadline) {
		if cond() {
			return true
		}
		time.Sleep(100 * time.Microsecond)
	}
	return cond()
}

func viewTerm[T any](d *dials.Dials[T]) string {
	return rty.StructFieldsTerm(reflect.ValueOf(d.View()).Elem())
}

func runCase[T any](in input) childResult {
	r := coqfmt.NewRng(in.State)
	ctx, cancel := context.WithCancel(context.Background())
	defer cancel()
	var zero T
	t0 := reflect.TypeOf(zero)
	chain, cname := xf.DrawChain(r)
	if in.Via > 0 && in.Nest > 0 {
		// ReformatDialsTagSource around further transforming source(s)
		chain, cname = append([]xf.M{xf.Reformat(common.DialsTagName, 7, in.Via-1)}, chain...), "via-ReformatDialsTagSource-nested-"+cname
	} else if in.Via > 0 {
		chain, cname = []xf.M{xf.Reformat(common.DialsTagName, 7, in.Via-1)}, "via-ReformatDialsTagSource"
	}
	// defaults
	defaults := new(T)
	rty.GenValue(r, reflect.ValueOf(defaults).Elem(), rty.VOpts{NilNum: 1, NilDen: 3}, 0)
	refDefaults := new(T)
	reflect.ValueOf(refDefaults).Elem().Set(reflect.ValueOf(defaults).Elem())
	defTerm := rty.StructFieldsTerm(reflect.ValueOf(defaults).Elem())
	pt := ptrify.Pointerify(t0, reflect.ValueOf(defaults).Elem())

	res := childResult{Kind: []string{"static", "failing-value", "watching", "failing-watch"}[in.Inner] + "-" + cname,
		Tags: []string{fmt.Sprintf("type-%d", in.Type), "chain-" + cname}}
	head := fmt.Sprintf("WCase %s %s %s %s", rty.FieldsTerm(t0), defTerm, verifyRule(in.Type), xf.ChainTerm(chain))

	// the harness's own transformer: translated type, filled values, reference values
	tf := transform.NewTransformer(pt, xf.Manglers(chain)...)
	tto := xf.TranslateSafe(tf)
	var fills []xf.Filled
	mkFill := func(tt reflect.Type) xf.Filled {
		f := xf.Fill(r, pt, tt, chain, 1+r.Intn(4), 4)
		fills = append(fills, f)
		return f
	}

	var wrappedErrs, refErrs errLog
	innerErr, _ := failure(in.State)
	inner := &fakeWatcher{fakeSrc: fakeSrc{err: innerErr, failValue: in.Inner == 1, failWatch: in.Inner == 3, ready: make(chan struct{})}}
	if in.Inner == 1 {
		res.Direct = append(res.Direct, decoderFailure[T](ctx, in, xf.Manglers(chain), pt, tto.Class() == "ok")...)
	}
	var seenType reflect.Type // the type the inner source is asked about
	inner.first = func(tt reflect.Type) reflect.Value { seenType = tt; return mkFill(tt).V }
	var innerSrc dials.Source = inner
	if in.Inner <= 1 {
		innerSrc = &inner.fakeSrc // not a Watcher
	}
	fakeInner := innerSrc // the scripted source at the bottom
	wrapped := sourcewrap.NewTransformingSource(innerSrc, xf.Manglers(chain)...)
	if in.Nest > 0 && len(chain) >= 2 {
		// cut the chain into 2 or 3 non-empty pieces; the LAST piece is the innermost wrapper
		nr := coqfmt.NewRng(in.State ^ 0x4e357)
		pieces := in.Nest
		if pieces > len(chain) {
			pieces = len(chain)
		}
		first := 0
		if in.Via > 0 {
			first = 1 // the reformat stage is the outermost wrapper, built below
			if pieces > len(chain)-1 {
				pieces = len(chain) - 1
			}
			pieces++
		}
		cuts := []int{}
		for len(cuts) < pieces-1 {
			c := 1 + nr.Intn(len(chain)-1)
			if in.Via > 0 && len(cuts) == 0 {
				c = 1
			}
			dup := false
			for _, x := range cuts {
				dup = dup || x == c
			}
			if !dup && c >= first {
				cuts = append(cuts, c)
			}
		}
		sort.Ints(cuts)
		bounds := append(append([]int{0}, cuts...), len(chain))
		nested := innerSrc
		for i := len(bounds) - 2; i >= 0; i-- {
			if in.Via > 0 && i == 0 {
				break
			}
			nested = sourcewrap.NewTransformingSource(nested, xf.Manglers(chain[bounds[i]:bounds[i+1]])...)
		}
		wrapped = nested
		innerSrc = nested // what ReformatDialsTagSource wraps below
		res.Tags = append(res.Tags, fmt.Sprintf("nested-wrappers-%d", len(bounds)-1))
	}
	if in.Via > 0 {
		// the shipped convenience constructor: same chain, and a watching inner
		// source must stay a watching source
		wrapped = tagformat.ReformatDialsTagSource(innerSrc, xf.Decoders[7], xf.Encoders[in.Via-1])
		if _, innerWatches := fakeInner.(dials.Watcher); innerWatches {
			if _, ok := wrapped.(dials.Watcher); !ok {
				res.Direct = append(res.Direct, "ReformatDialsTagSource of a watching source is not a Watcher: its updates are lost")
			}
		}
	}
	// transparency of the Watcher property: the wrapper is a dials.Watcher exactly
	// when the wrapped source is (Dials and Blank decide by type assertion)
	{
		_, innerWatches := fakeInner.(dials.Watcher)
		_, wrapWatches := wrapped.(dials.Watcher)
		if innerWatches != wrapWatches {
			res.Direct = append(res.Direct, fmt.Sprintf("inner source is a Watcher: %v, its transforming wrapper: %v", innerWatches, wrapWatches))
		}
	}
	if in.Prime != 0 {
		// transparency: a wrapper that has served another config type behaves
		// for this one exactly as a fresh wrapper does
		res.Tags = append(res.Tags, fmt.Sprintf("wrapper-reused-after-%s-of-another-type", []string{"", "value", "watch", "value+watch"}[in.Prime]))
		res.Direct = append(res.Direct, prime(ctx, wrapped, &inner.fakeSrc, in)...)
	}
	d, cfgErr := dials.Params[T]{OnWatchedError: func(context.Context, error, *T, *T) { wrappedErrs.add() }}.Config(ctx, defaults, wrapped)

	if in.Via > 0 && in.Nest == 0 && seenType != nil {
		// what the wrapped source gets to see: EVERY field, at every depth the
		// transformer recurses to, carries its dials name in the requested casing
		if m := checkReformatted(pt, seenType, xf.Encoders[in.Via-1], ""); m != "" {
			res.Direct = append(res.Direct, "ReformatDialsTagSource: "+m)
		}
	}
	initTerm := "IFail"
	if in.Inner != 1 && len(fills) > 0 {
		ctor := "IStatic"
		if in.Inner == 3 {
			ctor = "IWatchFail"
		}
		initTerm = fmt.Sprintf("(%s %s %s)", ctor, rty.StructFieldsTerm(fills[0].V), fills[0].Oracle)
	} else if in.Inner != 1 {
		initTerm = "INoValue" // translation failed before the inner source was asked
	}
	if cfgErr != nil {
		res.Coq = fmt.Sprintf("%s %s (Err 0) []", head, initTerm)
		why := "config-err-initial-value-unreversible"
		switch {
		case in.Inner == 1:
			why = "config-err-inner-value-fails"
		case tto.Class() != "ok":
			why = "config-err-translate-" + tto.Class()
		case in.Inner == 3:
			why = "config-err-inner-watch-fails"
		}
		res.Tags = append(res.Tags, why)
		if os.Getenv("C20_DEBUG") != "" {
			fmt.Fprintf(os.Stderr, "CFGERR %s %s: %v\n", why, cname, cfgErr)
		}
		// direct: must the configuration have failed?
		mustFail := in.Inner == 1 || in.Inner == 3 || tto.Class() != "ok"
		if !mustFail && len(fills) > 0 {
			ref := xf.ReverseSafe(tf, fills[0].V)
			if ref.Class() == "ok" {
				if _, e2 := dials.Config(ctx, refDefaults, &staticVal{ref.V}); e2 == nil {
					res.Direct = append(res.Direct, "wrapped Config failed but the natively fed one succeeds: "+cfgErr.Error())
				}
			}
		}
		return res
	}
	if in.Inner == 1 || in.Inner == 3 {
		res.Direct = append(res.Direct, "inner source failed but Config succeeded (error swallowed)")
	}
	// reference Dials fed natively
	ref0 := xf.ReverseSafe(tf, fills[0].V)
	refSrc := &nativeWatcher{ready: make(chan struct{})}
	if ref0.Class() == "ok" {
		refSrc.first = ref0.V
	}
	var rd *dials.Dials[T]
	if ref0.Class() == "ok" {
		var e2 error
		rd, e2 = dials.Params[T]{OnWatchedError: func(context.Context, error, *T, *T) { refErrs.add() }}.Config(ctx, refDefaults, refSrc)
		if e2 != nil {
			res.Direct = append(res.Direct, "reference Config failed: "+e2.Error())
			rd = nil
		}
	} else {
		res.Direct = append(res.Direct, "wrapped Config succeeded although the initial value cannot be reversed")
	}
	if rd != nil && !reflect.DeepEqual(d.View(), rd.View()) {
		res.Direct = append(res.Direct, fmt.Sprintf("initial view differs from the natively fed one: %+v vs %+v", *d.View(), *rd.View()))
	}
	view0 := viewTerm(d)
	var steps []string
	nErrSteps := 0
	nRejected := 0
	if in.Inner == 2 {
		<-inner.ready
		for s := 0; s < in.Steps; s++ {
			f := mkFill(inner.typ)
			if r.Chance(1, 5) && xf.MakeUnreversible(f.V) {
				res.Tags = append(res.Tags, "forced-unreversible-step")
			}
			blocking := r.Chance(1, 2)
			_, serialBefore := d.ViewVersion()
			errsBefore := wrappedErrs.get()
			expect := xf.ReverseSafe(tf, f.V)
			var retErr error
			if blocking {
				retErr = inner.args.BlockingReportNewValue(ctx, f.V)
			} else {
				retErr = inner.args.ReportNewValue(ctx, f.V)
			}
			// a blocking report that returned must already be reflected in the View
			viewAtReturn := viewTerm(d)
			// settle: a new version or an error event
			settled := waitFor(func() bool {
				_, sn := d.ViewVersion()
				return sn != serialBefore || wrappedErrs.get() > errsBefore
			})
			if settled && wrappedErrs.get() == errsBefore {
				// installed: give a (wrongly) concurrent error event the chance to show up
				waitShort(func() bool { return wrappedErrs.get() > errsBefore })
			}
			if !settled {
				res.Direct = append(res.Direct, fmt.Sprintf("step %d: neither a new version nor an error event within 3s", s))
			}
			// reference
			if rd != nil {
				if expect.Class() == "ok" {
					<-refSrc.ready
					e := refSrc.args.BlockingReportNewValue(ctx, expect.V)
					// the verdict of the re-stack (stacking / Verify failure) must come back
					// through the wrapped blocking report exactly as it does natively
					if blocking && (e != nil) != (retErr != nil) {
						res.Direct = append(res.Direct, fmt.Sprintf("step %d: wrapped BlockingReportNewValue returned %v, natively it returns %v", s, retErr, e))
					}
					if !blocking && retErr != nil {
						res.Direct = append(res.Direct, fmt.Sprintf("step %d: ReportNewValue of a reversible value returned %v", s, retErr))
					}
					if e != nil {
						nRejected++
					}
				}
				if !reflect.DeepEqual(d.View(), rd.View()) {
					res.Direct = append(res.Direct, fmt.Sprintf("step %d: view differs from the natively fed Dials: %+v vs %+v", s, *d.View(), *rd.View()))
				}
			}
			if expect.Class() != "ok" {
				nErrSteps++
				if wrappedErrs.get() == errsBefore {
					res.Direct = append(res.Direct, fmt.Sprintf("step %d: un-reversible value but no error was reported", s))
				}
			}
			steps = append(steps, fmt.Sprintf("(WStep %s %s %s %s %s %d %s)", rty.StructFieldsTerm(f.V), f.Oracle, coqfmt.Bool(blocking),
				viewAtReturn, viewTerm(d), wrappedErrs.get()-errsBefore, coqfmt.Bool(retErr != nil)))
		}
	}
	res.Coq = fmt.Sprintf("%s %s (Ok %s) %s", head, initTerm, view0, coqfmt.List(steps))
	res.Nontrivial = in.Inner == 2 && in.Steps >= 2 && len(chain) >= 1
	res.Tags = append(res.Tags, fmt.Sprintf("steps-%d", len(steps)), fmt.Sprintf("unreversible-steps-%d", nErrSteps), fmt.Sprintf("rejected-by-verify-or-stack-steps-%d", nRejected))
	return res
}

var textUnmarshalerT = reflect.TypeOf((*encoding.TextUnmarshaler)(nil)).Elem()

// checkReformatted compares the type handed to the inner source (got) with the
// config type (orig) field by field: the dials tag must be the re-cased dials
// tag, or the re-cased Go field name where there is none.
func checkReformatted(orig, got reflect.Type, enc cc.EncodeCasingFunc, path string) string {
	// the transformer looks through ONE pointer, slice or array (a pointerified
	// array *[N]T and maps are not recursed into: recorded limitation)
	if orig.Kind() == reflect.Ptr || orig.Kind() == reflect.Slice || orig.Kind() == reflect.Array {
		if got.Kind() != orig.Kind() {
			return fmt.Sprintf("%s: kind %s became %s", path, orig.Kind(), got.Kind())
		}
		orig, got = orig.Elem(), got.Elem()
	}
	if orig.Kind() != reflect.Struct || orig.Implements(textUnmarshalerT) || reflect.PtrTo(orig).Implements(textUnmarshalerT) {
		return ""
	}
	if got.Kind() != reflect.Struct || got.NumField() != orig.NumField() {
		return fmt.Sprintf("%s: struct shape changed (%s -> %s)", path, orig, got)
	}
	for i := 0; i < orig.NumField(); i++ {
		of, gf := orig.Field(i), got.Field(i)
		if of.PkgPath != "" {
			continue
		}
		var words cc.DecodedIdentifier
		var err error
		if tag := of.Tag.Get(common.DialsTagName); tag != "" {
			words, err = cc.DecodeGoTags(tag)
		} else {
			words, err = cc.DecodeGoCamelCase(of.Name)
		}
		if err != nil {
			continue
		}
		if want, have := enc(words), gf.Tag.Get(common.DialsTagName); want != have {
			return fmt.Sprintf("field %s%s: dials tag %q, want %q", path, of.Name, have, want)
		}
		if m := checkReformatted(of.Type, gf.Type, enc, path+of.Name+"."); m != "" {
			return m
		}
	}
	return ""
}

// prime uses the wrapper for another config type of the palette first.
func prime(ctx context.Context, wrapped dials.Source, inner *fakeSrc, in input) (direct []string) {
	inner.priming = true
	defer func() {
		inner.priming = false
		if r := recover(); r != nil {
			direct = append(direct, fmt.Sprintf("wrapper panicked when first used for another config type: %v", r))
		}
	}()
	ut := paletteTypes[in.PrimeType%len(paletteTypes)]
	put := ptrify.Pointerify(ut, reflect.New(ut).Elem())
	if in.Prime&1 != 0 {
		v, err := wrapped.Value(ctx, dials.NewType(put))
		if err == nil && v.Type() != put {
			direct = append(direct, fmt.Sprintf("wrapped Value for %s returned a %s", put, v.Type()))
		}
	}
	if w, ok := wrapped.(dials.Watcher); ok && in.Prime&2 != 0 {
		w.Watch(ctx, dials.NewType(put), nopArgs{})
	}
	return direct
}

type nopArgs struct{}

func (nopArgs) ReportNewValue(context.Context, reflect.Value) error         { return nil }
func (nopArgs) BlockingReportNewValue(context.Context, reflect.Value) error { return nil }
func (nopArgs) Done(context.Context)                                        {}
func (nopArgs) ReportError(context.Context, error) error                    { return nil }

var paletteTypes = []reflect.Type{
	reflect.TypeOf(Cfg1{}), reflect.TypeOf(Cfg2{}), reflect.TypeOf(Cfg3{}), reflect.TypeOf(Cfg4{}), reflect.TypeOf(Cfg5{}),
	reflect.TypeOf(CfgV1{}), reflect.TypeOf(CfgV2{}), reflect.TypeOf(Cfg6{}), reflect.TypeOf(Cfg7{}), reflect.TypeOf(Cfg8{}),
	reflect.TypeOf(Cfg9{}), reflect.TypeOf(Cfg10{}),
}

// staticVal / nativeWatcher: the reference sources (already unmangled values)
type staticVal struct{ v reflect.Value }

func (s *staticVal) Value(context.Context, *dials.Type) (reflect.Value, error) { return s.v, nil }

type nativeWatcher struct {
	first reflect.Value
	args  dials.WatchArgs
	ready chan struct{}
}

func (n *nativeWatcher) Value(context.Context, *dials.Type) (reflect.Value, error) {
	return n.first, nil
}
func (n *nativeWatcher) Watch(_ context.Context, _ *dials.Type, args dials.WatchArgs) error {
	n.args = args
	close(n.ready)
	return nil
}

func dispatch(in input) childResult {
	switch in.Type {
	case 0:
		return runCase[Cfg1](in)
	case 1:
		return runCase[Cfg2](in)
	case 2:
		return runCase[Cfg3](in)
	case 3:
		return runCase[Cfg4](in)
	case 4:
		return runCase[Cfg5](in)
	case 5:
		return runCase[CfgV1](in)
	case 6:
		return runCase[CfgV2](in)
	case 7:
		return runCase[Cfg6](in)
	case 8:
		return runCase[Cfg7](in)
	case 9:
		return runCase[Cfg8](in)
	case 10:
		return runCase[Cfg9](in)
	default:
		return runCase[Cfg10](in)
	}
}

// ---------------- child process plumbing ----------------

func childMain() {
	sc := bufio.NewScanner(os.Stdin)
	sc.Buffer(make([]byte, 1<<20), 1<<26)
	w := bufio.NewWriter(os.Stdout)
	for sc.Scan() {
		var in input
		if err := json.Unmarshal(sc.Bytes(), &in); err != nil {
			panic(err)
		}
		res := dispatch(in)
		b, _ := json.Marshal(res)
		w.Write(b)
		w.WriteByte('\n')
		w.Flush()
	}
}

type child struct {
	cmd    *exec.Cmd
	stdin  io.WriteCloser
	out    *bufio.Reader
	stderr *tailBuf
}

type tailBuf struct {
	mu sync.Mutex
	b  []byte
}

func (t *tailBuf) Write(p []byte) (int, error) {
	t.mu.Lock()
	t.b = append(t.b, p...)
	if len(t.b) > 4000 {
		t.b = t.b[len(t.b)-4000:]
	}
	t.mu.Unlock()
	return len(p), nil
}

var cur *child

func startChild() *child {
	cmd := exec.Command(os.Args[0])
	cmd.Env = append(os.Environ(), "C20_CHILD=1")
	in, _ := cmd.StdinPipe()
	out, _ := cmd.StdoutPipe()
	tb := &tailBuf{}
	cmd.Stderr = tb
	if err := cmd.Start(); err != nil {
		panic(err)
	}
	return &child{cmd: cmd, stdin: in, out: bufio.NewReaderSize(out, 1<<20), stderr: tb}
}

func firstLine(b []byte) string {
	s := string(b)
	for i, c := range s {
		if c == '\n' {
			// keep "panic: ..." and the goroutine header
			if i > 300 {
				return s[:300]
			}
			return s[:i]
		}
	}
	return s
}

func run(raw json.RawMessage) driver.Result {
	if cur == nil {
		cur = startChild()
	}
	cur.stdin.Write(append(append([]byte{}, raw...), '\n'))
	line, err := cur.out.ReadBytes('\n')
	if err != nil {
		// the child died on this case
		cur.cmd.Wait()
		cur.stderr.mu.Lock()
		msg := firstLine(cur.stderr.b)
		cur.stderr.mu.Unlock()
		cur = nil
		return driver.Result{Coq: "WDied", Kind: "process-died", Tags: []string{"process-died"},
			Direct: []string{"the process died while running this case (fatal panic in a goroutine): " + msg}}
	}
	var cr childResult
	if err := json.Unmarshal(line, &cr); err != nil {
		panic(err)
	}
	return driver.Result{Coq: cr.Coq, Kind: cr.Kind, Nontrivial: cr.Nontrivial, Direct: cr.Direct, Tags: cr.Tags}
}

func gen(r *coqfmt.Rng, n int, tier string) []json.RawMessage {
	var out []json.RawMessage
	for i := 0; i < n; i++ {
		inner := 2
		switch r.Intn(10) {
		case 0:
			inner = 0
		case 1:
			inner = 1
		case 2:
			inner = 3
		}
		c := input{K: "wrap", State: r.U64(), Type: r.Intn(12), Inner: inner, Steps: 1 + r.Intn(5)}
		if r.Chance(1, 8) {
			c.Via = 1 + r.Intn(6)
		}
		if r.Chance(1, 5) {
			c.Nest = 2 + r.Intn(2)
		}
		if r.Chance(1, 4) {
			c.Prime = 1 + r.Intn(3)
			c.PrimeType = (c.Type + 1 + r.Intn(11)) % 12
		}
		b, _ := json.Marshal(c)
		out = append(out, b)
	}
	return out
}

func main() {
	xf.BadTextDen = 12 // most updates should be reversible
	if os.Getenv("C20_CHILD") == "1" {
		childMain()
		return
	}
	driver.Main(driver.Engine{
		Prop: "C20", CoqImport: "Dials.Check.C20Check", CoqRun: "run_cases",
		Rule: "twelve static config types (nesting by value and pointer to depth 4, aliases on leaves and struct-typed fields at every level incl. family-specific alias tags, embedded value and pointer structs, []struct / [2]struct / map[string]struct with nested element structs, sets of strings / ints / named strings, named slices and maps, user pointers to scalars / slices / maps, arrays, complex, TextUnmarshaler; two types with a Verify method that rejects part of the update values: pointer and value receiver) (nesting by value/pointer, embedded value/pointer, alias tags on leaves and structs, sets, maps, []struct, [2]struct, durations, named scalars, TextUnmarshaler) x random defaults x a mangler chain from C10's generator (shipped chains, mixed chains, sub-chains) x inner source: static (1/10), failing Value (1/10; the error is a plain one or a sentinel - io.EOF, io.ErrUnexpectedEOF, fs.ErrNotExist, context.Canceled, DeadlineExceeded, os.ErrPermission - bare or wrapped; the same failure is also put behind NewTransformingDecoder: Config must fail as it does unwrapped and the cause stay reachable), watching whose Watch fails (1/10), watching with 1-5 updates (7/10; one update in five is made un-reversible on purpose when the chain allows it: both names of an aliased field set, or an unparsable text, so sequences mix reversible and un-reversible values), each update a random filling of the translated type reported through ReportNewValue or BlockingReportNewValue; the value returned by every (Blocking)ReportNewValue is compared with the model (a blocking report returns the verdict of its own re-stack) and with the natively fed Dials, the View is read immediately after a blocking report returned and again after the update settled; after every step the View is compared with a reference Dials fed the already-unmangled value and with the model (reverse-translate, then stack onto the defaults); one case in eight builds the wrapper with tagformat.ReformatDialsTagSource (DecodeGoTags, each of the six encoders) instead of sourcewrap.NewTransformingSource; one case in five spreads the chain over two or three transforming sources wrapped directly around one another (also with ReformatDialsTagSource outermost): model and reference stay those of the whole chain; one case in four REUSES the wrapper instance: it is first asked for the Value, the Watch or both of ANOTHER config type of the palette and must then behave for the case's type exactly as a fresh wrapper (same model outcome, same reference Dials); non-trivial: watching inner source with >= 2 updates; distinct = distinct PRNG case states; every case runs in a child process",
		Gen:  gen, Run: run,
	})
	if cur != nil {
		cur.stdin.Close()
		cur.cmd.Wait()
	}
}
