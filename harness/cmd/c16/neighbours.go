package main

// Kind "nbr": the environment also binds NEIGHBOUR names of every leaf's variable - NAME_FILE,
// NAME_PATH, NAME_URL, NAME_DIR, _NAME, NAME_, FILE_NAME, with and without the source's prefix - to
// hostile values: a FIFO nobody writes to, /dev/zero, /dev/urandom, /dev/full, a directory, a sparse
// file of 16 GB, a dangling symlink, a symlink loop, a path that does not exist, a URL.  The leaf's own
// variable is set or unset.  Same child process and 3 s watchdog as kind "refs" (address space of
// the child limited to 3 GB): a source that starts reading what such a neighbour names hangs or dies
// and is reported for the case and stage.  On a tree that never reads neighbours nothing happens.

import (
	"fmt"
	"os"
	"path/filepath"
	"strings"
	"syscall"

	"verifharness/internal/coqfmt"
	"verifharness/internal/driver"
)

var nbrSuffixes = []string{"_FILE", "_PATH", "_URL", "_DIR", "_", "_FROM", "_FILE_PATH", "_SECRET", "_REF"}
var nbrPrefixes = []string{"_", "FILE_", "PATH_"}
var nbrCodes = []string{"@fifo", "@zero", "@urandom", "@full", "@dir", "@huge", "@dangling", "@loop", "@missing", "@url", "@fifo", "@zero"}

// makeHostile creates the objects in a fresh scratch directory and returns code -> value
func makeHostile() (dir string, vals map[string]string, err error) {
	dir, err = os.MkdirTemp("/var/tmp", "verif-c16-nbr-")
	if err != nil {
		return "", nil, err
	}
	vals = map[string]string{"@zero": "/dev/zero", "@urandom": "/dev/urandom", "@full": "/dev/full",
		"@missing": filepath.Join(dir, "no", "such", "file"), "@url": "file:///dev/zero", "@dir": dir}
	fifo := filepath.Join(dir, "fifo")
	if e := syscall.Mkfifo(fifo, 0o600); e == nil {
		vals["@fifo"] = fifo
	} else {
		vals["@fifo"] = "/dev/zero"
	}
	huge := filepath.Join(dir, "huge")
	if f, e := os.Create(huge); e == nil {
		_ = f.Truncate(16 << 30) // sparse
		f.Close()
	}
	vals["@huge"] = huge
	dangling := filepath.Join(dir, "dangling")
	_ = os.Symlink(filepath.Join(dir, "gone"), dangling)
	vals["@dangling"] = dangling
	loop := filepath.Join(dir, "loop")
	_ = os.Symlink(loop, loop)
	vals["@loop"] = loop
	return dir, vals, nil
}

func runNeighbours(in input) driver.Result {
	dir, vals, err := makeHostile()
	if err != nil {
		panic(err)
	}
	defer os.RemoveAll(dir)
	extra := make([]string, len(in.X))
	for i, e := range in.X {
		kv := strings.SplitN(e, "=", 2)
		v := kv[1]
		if r, ok := vals[v]; ok {
			v = r
		}
		extra[i] = kv[0] + "=" + v
	}
	return runRefsWith(in, extra, "hostile-neighbour-variables", "nbr")
}

func nbrCorpus(add func(in input)) {
	unset := []string{"\x00unset", "\x00unset", "\x00unset", "\x00unset"}
	set := []string{"h", "n", "a", "t"}
	for _, code := range nbrCodes[:10] {
		for _, suf := range nbrSuffixes[:5] {
			var x []string
			for _, v := range refVars {
				x = append(x, v+suf+"="+code, "APP_"+v+suf+"="+code)
			}
			add(input{K: "nbr", T: "leaves-unset", L: unset, X: x})
			add(input{K: "nbr", T: "leaves-set", L: set, X: x})
		}
		var x []string
		for _, v := range refVars {
			for _, pre := range nbrPrefixes {
				x = append(x, pre+v+"="+code)
			}
		}
		add(input{K: "nbr", T: "leaves-unset", L: unset, X: x})
	}
}

func genNeighbours(r *coqfmt.Rng) input {
	l := make([]string, 4)
	for i := range l {
		l[i] = coqfmt.Pick(r, []string{"\x00unset", "\x00unset", "v", ""})
	}
	n := 1 + r.Intn(6)
	var x []string
	for i := 0; i < n; i++ {
		v := coqfmt.Pick(r, refVars)
		name := v + coqfmt.Pick(r, nbrSuffixes)
		if r.Chance(1, 5) {
			name = coqfmt.Pick(r, nbrPrefixes) + v
		}
		if r.Chance(1, 4) {
			name = "APP_" + name
		}
		x = append(x, fmt.Sprintf("%s=%s", name, coqfmt.Pick(r, nbrCodes)))
	}
	return input{K: "nbr", T: "random", L: l, X: x}
}
