// c16: harness for the text half of property C16 (no input makes dials panic
// or hang).
//
// (i)  model-vs-implementation: random rune lists (valid UTF-8; ASCII for the
//
//	case decoders, whose model classifies ASCII only) through every text
//	entry point - the eight case decoders, parse.String at a pool of types,
//	the integral slice parsers, strconv.Unquote - each call wrapped in
//	recover() and a watchdog; the outcome is compared with the Gallina
//	model inside Coq (Dials.Check.C16Check).
//
// (ii) byte-level exploration on the implementation alone: invalid UTF-8,
//
//	NULs, non-ASCII, inputs up to 64 kB; oracle "returned a value or an
//	error within the deadline, no panic", reported through Result.Direct.
//	This part is exploration, not proof: the byte level of text/scanner,
//	strconv and x/text is not modelled.
package main

import (
	"encoding/json"
	"fmt"
	"os"
	"reflect"
	"strconv"
	"strings"
	"time"

	"github.com/vimeo/dials/parse"
	"github.com/vimeo/dials/sources/flag/flaghelper"
	cc "github.com/vimeo/dials/tagformat/caseconversion"

	"verifharness/internal/coqfmt"
	"verifharness/internal/driver"
	"verifharness/internal/textgen"
)

type input struct {
	K      string     `json:"k"`
	D      int        `json:"d,omitempty"`
	S      string     `json:"s,omitempty"`
	B      []byte     `json:"b,omitempty"` // byte-level inputs (base64 in JSON)
	T      string     `json:"t,omitempty"`
	Signed bool       `json:"signed,omitempty"`
	W      int        `json:"w,omitempty"`
	E      int        `json:"e,omitempty"` // entry point of the byte-level fuzz / encoder number
	D2     int        `json:"d2,omitempty"`
	L      []string   `json:"l,omitempty"`   // word list for the encoders
	Env    [][]byte   `json:"env,omitempty"` // raw environment block of the child process
	Cfg    int        `json:"cfg,omitempty"`
	X      []string   `json:"x,omitempty"`  // extra environment entries NAME=@code (kind nbr)
	M2     [][]string `json:"m2,omitempty"` // per field: tag "kind\x00value" pairs
}

const deadline = 2 * time.Second

// skipped marks calls that were not started because earlier calls hung.
const skipped = "skipped"

// hangs counts deadline misses; a hung call cannot be killed and keeps a CPU
// busy, so after a few of them the remaining calls are not started any more
// (such cases are emitted as passing byte-level cases of kind "skipped-after-hang";
// the run is a VIOLATION anyway, by the hangs that were observed).
var hangs int

// call runs f under recover() and the watchdog.
func call(f func() string) (out string, what string) {
	if hangs >= 3 {
		return "(Err 0)", skipped
	}
	ch := make(chan [2]string, 1)
	go func() {
		defer func() {
			if r := recover(); r != nil {
				ch <- [2]string{"(Panic 0)", fmt.Sprintf("panic: %v", r)}
			}
		}()
		ch <- [2]string{f(), ""}
	}()
	select {
	case r := <-ch:
		return r[0], r[1]
	case <-time.After(deadline):
		hangs++
		return "(Panic 1)", "no return within the deadline of 2s"
	}
}

var decoders = []cc.DecodeCasingFunc{cc.DecodeUpperCamelCase, cc.DecodeLowerCamelCase, cc.DecodeLowerSnakeCase,
	cc.DecodeUpperSnakeCase, cc.DecodeKebabCase, cc.DecodeCasePreservingSnakeCase, cc.DecodeGoCamelCase, cc.DecodeGoTags}

func signedSlice[I flaghelper.SignedInt](s string) string {
	vs, err := parse.SignedIntegralSlice[I](s)
	parts := make([]string, len(vs))
	for i, v := range vs {
		parts[i] = "(" + strconv.FormatInt(int64(v), 10) + ")%Z"
	}
	return driver.Outcome(coqfmt.List(parts), err, false)
}

func unsignedSlice[I flaghelper.UnsignedInt](s string) string {
	vs, err := parse.UnsignedIntegralSlice[I](s)
	parts := make([]string, len(vs))
	for i, v := range vs {
		parts[i] = "(" + strconv.FormatUint(uint64(v), 10) + ")%Z"
	}
	return driver.Outcome(coqfmt.List(parts), err, false)
}

func intSlice(signed bool, w int, s string) string {
	if signed {
		switch w {
		case 0:
			return signedSlice[int8](s)
		case 1:
			return signedSlice[int16](s)
		case 2:
			return signedSlice[int32](s)
		case 3:
			return signedSlice[int64](s)
		default:
			return signedSlice[int](s)
		}
	}
	switch w {
	case 0:
		return unsignedSlice[uint8](s)
	case 1:
		return unsignedSlice[uint16](s)
	case 2:
		return unsignedSlice[uint32](s)
	case 3:
		return unsignedSlice[uint64](s)
	case 4:
		return unsignedSlice[uint](s)
	default:
		return unsignedSlice[uintptr](s)
	}
}

// byte-level entry points: every text entry point of the library, values discarded
var fuzzTypes = []string{"sl:str", "set", "map:str:str", "mss", "sl:i8", "map:i16:bool", "sl:sl:str", "sl:map:str:str",
	"bool", "i32", "u64", "str", "other", "sl:u16", "map:str:u8", "sl:bool"}

var floatTypes = []reflect.Type{reflect.TypeOf(float32(0)), reflect.TypeOf(float64(0)), reflect.TypeOf(complex64(0)),
	reflect.TypeOf(complex128(0)), reflect.TypeOf(time.Duration(0)), reflect.TypeOf([]float64{}), reflect.TypeOf([]time.Duration{}),
	reflect.TypeOf(map[string]complex128{})}

const nFuzzEntries = 8 + 16 + 8 + 11 + 4 + 6 + 8

func fuzzEntry(e int, s string) (name string, f func() string) {
	ret := func(err error) string {
		if err != nil {
			return "err"
		}
		return "ok"
	}
	switch {
	case e < 8:
		return fmt.Sprintf("decoder%d", e), func() string { _, err := decoders[e](s); return ret(err) }
	case e < 24:
		code := fuzzTypes[e-8]
		t, _ := textgen.ParseTy(code)
		return "parse.String:" + code, func() string { _, err := parse.String(s, t); return ret(err) }
	case e < 32:
		t := floatTypes[e-24]
		return "parse.String:" + t.String(), func() string { _, err := parse.String(s, t); return ret(err) }
	case e < 43:
		k := e - 32
		return fmt.Sprintf("integral-slice%d", k), func() string {
			if k < 5 {
				return cls(intSlice(true, k, s))
			}
			return cls(intSlice(false, k-5, s))
		}
	default:
		switch e - 43 {
		case 0:
			return "StringSliceFlag.Set", func() string {
				var v []string
				fl := flaghelper.NewStringSliceFlag(&v)
				err := fl.Set(s)
				_ = fl.String()
				return ret(err)
			}
		case 1:
			return "StringSetFlag.Set", func() string {
				v := map[string]struct{}{}
				fl := flaghelper.NewStringSetFlag(&v)
				err := fl.Set(s)
				_ = fl.String()
				return ret(err)
			}
		case 2:
			return "MapStringStringFlag.Set", func() string {
				v := map[string]string{}
				fl := flaghelper.NewMapStringStringFlag(&v)
				err := fl.Set(s)
				_ = fl.String()
				return ret(err)
			}
		case 3:
			return "MapStringStringSliceFlag.Set", func() string {
				v := map[string][]string{}
				fl := flaghelper.NewMapStringStringSliceFlag(&v)
				err := fl.Set(s)
				_ = fl.String()
				return ret(err)
			}
		}
		if k := e - 47; k < 6 {
			// an encoder on the comma-separated pieces of the input, then every decoder on its output
			return fmt.Sprintf("encoder%d", k), func() string {
				out := encoders[k](cc.DecodedIdentifier(strings.Split(s, ",")))
				for _, d := range decoders {
					_, _ = d(out)
				}
				return "ok"
			}
		}
		d := e - 53
		// a decoder, then every encoder on its words, then every decoder on every encoding
		return fmt.Sprintf("pipeline%d", d), func() string {
			ws, err := decoders[d](s)
			if err != nil {
				return "err"
			}
			for _, enc := range encoders {
				out := enc(ws)
				for _, d2 := range decoders {
					_, _ = d2(out)
				}
			}
			return "ok"
		}
	}
}

func cls(out string) string {
	switch {
	case strings.HasPrefix(out, "(Ok"):
		return "ok"
	case strings.HasPrefix(out, "(Err"):
		return "err"
	case out == "ok" || out == "err":
		return out
	}
	return "panic"
}

func run1(raw json.RawMessage, skipOut *bool) driver.Result {
	var in input
	if err := json.Unmarshal(raw, &in); err != nil {
		panic(err)
	}
	var direct []string
	nDirect := 0
	skip := false
	fail := func(entry, what string, s string) {
		if what == skipped {
			skip = true
			return
		}
		if what != "" && (nDirect < 1 || os.Getenv("C16_ALL_DIRECT") != "") {
			nDirect++
			q := strconv.QuoteToASCII(s)
			if len(q) > 200 {
				q = q[:200] + "..."
			}
			direct = append(direct, fmt.Sprintf("%s did not return normally on %s: %s", entry, q, what))
		}
	}
	defer func() { *skipOut = skip }()
	switch in.K {
	case "decb", "strb", "islb", "unqb":
		res := runBytes(in, fail)
		res.Direct = direct
		return res
	case "rflag":
		res := runRepFlag(in, fail)
		res.Direct = direct
		return res
	case "tags":
		res := runTags(in, fail)
		res.Direct = direct
		return res
	case "refs":
		return runRefs(in)
	case "nbr":
		return runNeighbours(in)
	case "casex":
		res := runCaseShift(in, fail)
		res.Direct = direct
		return res
	case "doc":
		res := runDoc(in, fail)
		res.Direct = direct
		return res
	case "enc":
		res := runEnc(in, fail)
		res.Direct = direct
		return res
	case "pipe":
		res := runPipe(in, fail)
		res.Direct = direct
		return res
	case "envp":
		return runEnvChild(in)
	case "dec":
		out, what := call(func() string {
			ws, err := decoders[in.D](in.S)
			return driver.Outcome(coqfmt.Strs(ws), err, false)
		})
		fail(fmt.Sprintf("decoder %d", in.D), what, in.S)
		return driver.Result{
			Coq:  fmt.Sprintf("Dec %d %s %s", in.D, coqfmt.Str(in.S), out),
			Kind: "decoder", Tags: []string{"decoder-" + cls(out)}, Nontrivial: len(in.S) >= 2, Direct: direct,
		}
	case "str":
		t, term := textgen.ParseTy(in.T)
		out, what := call(func() string {
			v, err := parse.String(in.S, t)
			if err != nil {
				return "(Err 0)"
			}
			return "(Ok " + textgen.Pval(v) + ")"
		})
		fail("parse.String at "+in.T, what, in.S)
		return driver.Result{
			Coq:  fmt.Sprintf("Str %s %s %s %s", textgen.Printable(in.S), term, coqfmt.Str(in.S), out),
			Kind: "parse-string", Tags: []string{"parse-string-" + cls(out)}, Nontrivial: len(in.S) >= 2, Direct: direct,
		}
	case "isl":
		out, what := call(func() string { return intSlice(in.Signed, in.W, in.S) })
		fail("integral slice parser", what, in.S)
		return driver.Result{
			Coq:  fmt.Sprintf("IntSl %s %d %s %s", coqfmt.Bool(in.Signed), in.W, coqfmt.Str(in.S), out),
			Kind: "integral-slice", Tags: []string{"integral-slice-" + cls(out)}, Nontrivial: len(in.S) >= 2, Direct: direct,
		}
	case "unq":
		out, what := call(func() string {
			u, err := strconv.Unquote(in.S)
			return driver.Outcome(textgen.StrBytes(u), err, false)
		})
		fail("strconv.Unquote", what, in.S)
		return driver.Result{
			Coq:  fmt.Sprintf("Unq %s %s", coqfmt.Str(in.S), out),
			Kind: "unquote", Tags: []string{"unquote-" + cls(out)}, Nontrivial: len(in.S) >= 2, Direct: direct,
		}
	case "fuzz":
		s := string(in.B)
		name, f := fuzzEntry(in.E, s)
		out, what := call(f)
		fail(name, what, s)
		k := 0
		if what != "" {
			k = 1
		}
		size := "fuzz-len-0..64"
		switch {
		case len(s) > 4096:
			size = "fuzz-len-4k..64k"
		case len(s) > 64:
			size = "fuzz-len-65..4k"
		}
		return driver.Result{
			Coq:  fmt.Sprintf("Fuzz %d", k),
			Kind: "byte-fuzz", Tags: []string{"fuzz-" + cls(out), size, "fuzz-entry-" + strings.SplitN(name, ":", 2)[0]},
			Nontrivial: len(s) >= 2, Direct: direct,
		}
	}
	panic("bad kind " + in.K)
}

var directReported int

func run(raw json.RawMessage) driver.Result {
	var skip bool
	res := run1(raw, &skip)
	if skip {
		return driver.Result{Coq: "Fuzz 0", Kind: "skipped-after-hang"}
	}
	// a broken tree can fail on most inputs: report the first 25 through the direct oracle
	if len(res.Direct) > 0 {
		if directReported >= 25 && os.Getenv("C16_ALL_DIRECT") == "" {
			res.Direct = nil
		}
		directReported++
	}
	return res
}

// ---- generators ----

const identAlphabet = "abcxyzABCXYZ019_-_-aAzZ $.IDURLHTPS"

var initialisms = []string{"ID", "URL", "HTTP", "HTTPS", "UID", "JSON", "API", "UTF8", "IP", "DNS"}

func genIdent(r *coqfmt.Rng) string {
	var sb strings.Builder
	n := r.Intn(14)
	for i := 0; i < n; i++ {
		switch x := r.Intn(10); {
		case x < 7:
			sb.WriteByte(identAlphabet[r.Intn(len(identAlphabet))])
		case x < 9:
			sb.WriteString(coqfmt.Pick(r, initialisms))
		default:
			sb.WriteString(coqfmt.Pick(r, []string{"User", "file", "Sha256", "x", "Is", "_", "-", "9"}))
		}
	}
	return sb.String()
}

var strTypes = []string{"sl:str", "set", "map:str:str", "mss", "sl:i8", "sl:u16", "sl:bool", "sl:sl:str", "map:i16:bool",
	"map:str:u8", "map:bool:str", "bool", "str", "i32", "u64", "uptr", "other", "sl:other", "sl:set", "sl:map:str:str", "sl:mss",
	"sl:sl:sl:str", "map:str:other", "i8", "u8", "int", "uint"}

var fuzzSeeds = []string{`"a","b"`, `"k":"v","k2":"v2"`, "a:b,c:d", "`raw`", `'c'`, "0x7f,-1, 2", "HTTPServerID", "lower_snake_case",
	"kebab-case", "true", "\"\\u00e9\\U0001F600\\x41\\101\"", "1s", "1.5e3", "(1+2i)", "\xef\xbb\xbf\"bom\""}

var fuzzBytes = []byte{0, 0, 0x80, 0xbf, 0xc0, 0xc3, 0xe2, 0xed, 0xa0, 0xf0, 0xf4, 0xf5, 0xff, 0xfe, '"', '"', '\\', '\\', '`', '\'', ',', ':',
	' ', '\n', '\r', '\t', 'a', 'Z', '0', '_', '-', '.', 'x', 'u', 'U', '7', 0x7f, 0x1b}

func genBytes(r *coqfmt.Rng, tg *textgen.Gen) []byte {
	var n int
	switch x := r.Intn(100); {
	case x < 70:
		n = r.Intn(65)
	case x < 94:
		n = 65 + r.Intn(4000)
	case x < 99:
		n = 4097 + r.Intn(20000)
	default:
		n = 65536
	}
	var b []byte
	mode := r.Intn(5)
	for len(b) < n {
		switch mode {
		case 0: // mutated seeds
			s := []byte(coqfmt.Pick(r, fuzzSeeds))
			if len(s) > 0 && r.Chance(1, 2) {
				s[r.Intn(len(s))] = coqfmt.Pick(r, fuzzBytes)
			}
			b = append(b, s...)
			if r.Chance(1, 2) {
				b = append(b, ',')
			}
		case 1: // special bytes
			b = append(b, coqfmt.Pick(r, fuzzBytes))
		case 2: // the string grammar, with stray bytes
			b = append(b, []byte(tg.String())...)
			if r.Chance(1, 3) {
				b = append(b, coqfmt.Pick(r, fuzzBytes))
			}
		case 3: // uniform bytes
			b = append(b, byte(r.Intn(256)))
		default: // long runs (deep recursion / quadratic behaviour)
			c := coqfmt.Pick(r, []string{"A", "\"", "\\", ",", ":", "HTTP", "`", "_", "é", "\xff", "ID", "0"})
			k := 1 + r.Intn(64)
			for i := 0; i < k; i++ {
				b = append(b, c...)
			}
		}
	}
	if len(b) > n {
		b = b[:n]
	}
	return b
}

func gen(r *coqfmt.Rng, n int, tier string) []json.RawMessage {
	var out []json.RawMessage
	add := func(in input) {
		b, _ := json.Marshal(in)
		out = append(out, b)
	}
	tg := textgen.New(r)
	for i := 0; i < n; i++ {
		switch x := r.Intn(1000) / 10; {
		case r.Intn(250) == 0:
			add(genRefs(r))
		case r.Intn(400) == 0:
			add(genNeighbours(r))
		case r.Intn(125) == 0: // child processes are expensive: ~0.8 %
			add(input{K: "envp", Cfg: r.Intn(nEnvCfgs), Env: genEnvp(r)})
		case x >= 94:
			add(genDoc(r))
		case x >= 91:
			add(genCaseShift(r))
		case x >= 89:
			add(genTags(r))
		case x >= 87:
			add(genRepFlag(r))
		case x < 3:
			add(genBytesCase(r, tg))
		case x < 7:
			add(input{K: "enc", E: r.Intn(6), L: genWords(r, tg)})
		case x < 13:
			s := genIdent(r)
			switch r.Intn(5) {
			case 0:
				s = tg.String()
			case 1:
				s = strings.Join(genWords(r, tg), coqfmt.Pick(r, []string{"_", "-", "", "__"}))
			}
			add(input{K: "pipe", D: r.Intn(8), E: r.Intn(6), D2: r.Intn(8), S: s})
		case x < 25:
			s := genIdent(r)
			if r.Chance(1, 5) {
				s = textgen.ASCIIOnly(tg.String())
			}
			add(input{K: "dec", D: r.Intn(8), S: s})
		case x < 45:
			t := coqfmt.Pick(r, strTypes)
			s := tg.RawText(t)
			if r.Chance(1, 4) {
				s = tg.String()
			}
			add(input{K: "str", T: t, S: s})
		case x < 53:
			signed := r.Chance(1, 2)
			w := r.Intn(5)
			if !signed {
				w = r.Intn(6)
			}
			s := tg.RawText("sl:i8")
			if r.Chance(1, 3) {
				s = tg.String()
			}
			add(input{K: "isl", Signed: signed, W: w, S: s})
		case x < 60:
			add(input{K: "unq", S: tg.QuotedText()})
		default:
			add(input{K: "fuzz", E: r.Intn(nFuzzEntries), B: genBytes(r, tg)})
		}
	}
	return out
}

func corpus() []json.RawMessage {
	var out []json.RawMessage
	add := func(in input) {
		b, _ := json.Marshal(in)
		out = append(out, b)
	}
	// the nested-slice panic of parse.String (fixed on this tree)
	add(input{K: "str", T: "sl:sl:str", S: "a"})
	add(input{K: "str", T: "sl:map:str:str", S: `"a":"b"`})
	add(input{K: "str", T: "sl:set", S: "a,b"})
	// every byte-level entry point on the empty input, a NUL and a lone continuation byte
	for e := 0; e < nFuzzEntries; e++ {
		add(input{K: "fuzz", E: e, B: []byte{}})
		add(input{K: "fuzz", E: e, B: []byte{0}})
		add(input{K: "fuzz", E: e, B: []byte{0x80, '"', 0xff}})
	}
	extraCorpus(add)
	// quoted elements with escapes at and beyond the validity boundaries, as map key, map value, slice
	// element and set member, alone and next to a well-formed neighbour
	for _, e := range textgen.BoundaryEscapes {
		q := `"a` + e + `b"`
		qe := `"` + e + `"`
		for _, el := range []string{q, qe} {
			add(input{K: "str", T: "map:str:str", S: el + `:"v"`})
			add(input{K: "str", T: "map:str:str", S: `"k":` + el})
			add(input{K: "str", T: "map:str:str", S: `"k":"v",` + el + `:` + el})
			add(input{K: "str", T: "nenv", S: `k:` + el})
			add(input{K: "str", T: "mss", S: el + `:"v","k":` + el})
			add(input{K: "str", T: "map:str:i8", S: el + `:1`})
			add(input{K: "str", T: "map:lbl:lbl", S: el + `:` + el})
			add(input{K: "str", T: "sl:str", S: `"x",` + el})
			add(input{K: "str", T: "names", S: el})
			add(input{K: "str", T: "set", S: el + `,"y"`})
			add(input{K: "str", T: "sl:sl:str", S: el})
			add(input{K: "str", T: "sl:u16", S: el})
		}
	}
	docCorpus(add)
	bomCorpus(add)
	caseShiftCorpus(add)
	refsCorpus(add)
	tagsCorpus(add)
	repFlagCorpus(add)
	nbrCorpus(add)
	return out
}

func main() {
	if len(os.Args) >= 2 && os.Args[1] == "refchild" {
		refChildMain(os.Args[2:])
		return
	}
	if len(os.Args) == 3 && os.Args[1] == "envchild" {
		cfg, _ := strconv.Atoi(os.Args[2])
		childMain(cfg)
		return
	}
	_ = reflect.TypeOf
	driver.Main(driver.Engine{
		Prop: "C16", CoqImport: "Dials.Check.C16Check", CoqRun: "run_cases",
		Rule: "compared cases: random rune lists (valid UTF-8; ASCII for the case decoders) through the 8 case decoders, parse.String at 27 types, " +
			"the 11 integral slice parsers, strconv.Unquote, the 6 encoders on arbitrary word lists (empty words, single runes, upper-case, digit-leading; non-ASCII uncompared) " +
			"and decode-encode-decode pipelines, outcome and value compared with the model; the decoders, parse.String, the integral slice parsers and Unquote also on " +
			"arbitrary short BYTE strings (invalid UTF-8, non-ASCII) compared through the model's UTF-8 decoding front end; child processes started with a hand-built environment block " +
			"(entries without '=', '=X', 'A=B=C', long and non-UTF-8 entries) running env.Source.Value on 4 config set-ups, oracle = the child reports 'returned'; byte-level cases: byte strings of length 0-65536 " +
			"(mutated seeds, special bytes, invalid UTF-8, NULs, long runs) through 61 entry points incl. float/complex/duration types and the flag helpers' Set, " +
			"oracle = returned within 2 s without panic; non-trivial: input of at least 2 runes/bytes; distinct = distinct JSON inputs",
		Gen: gen, Run: run, Corpus: corpus(),
	})
}
