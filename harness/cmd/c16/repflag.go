package main

// Kind "rflag": the SAME flag given several times on one command line, with empty and non-empty values
// in every order, for every collection-valued leaf ([]string, map[string]struct{}, map[string]string,
// map[string][]string, integer slices), with and without defaults in the template, through both flag
// sources (std flag and pflag) and through the flag helpers' Set methods directly.  Oracle: returned (a
// config or an error), no panic, within the deadline.  Exploration on the implementation.

import (
	"context"
	"fmt"
	"strings"

	"github.com/vimeo/dials"
	"github.com/vimeo/dials/sources/flag"
	"github.com/vimeo/dials/sources/flag/flaghelper"
	"github.com/vimeo/dials/sources/pflag"

	"verifharness/internal/coqfmt"
	"verifharness/internal/driver"
	"verifharness/internal/textgen"
)

type repCfg struct {
	Tags   []string            `dials:"tags"`
	Set    map[string]struct{} `dials:"set"`
	Labels map[string]string   `dials:"labels"`
	Multi  map[string][]string `dials:"multi"`
	Ints   []int               `dials:"ints"`
	I8     []int8              `dials:"i8"`
	U16    []uint16            `dials:"u16"`
	Name   string              `dials:"name"`
}

var repFlags = []string{"tags", "set", "labels", "multi", "ints", "i8", "u16", "name"}

// non-empty values per flag: valid ones first, then malformed
var repValues = map[string][]string{
	"tags":   {"a,b", `"x y",z`, "a", `"`, "a,,b"},
	"set":    {"blue,green", "blue", `"a,b"`, "a,a", `"`},
	"labels": {"team:core", "a:b,c:d", `"k":"v"`, "a:b,a:c", "a", ":"},
	"multi":  {"k:v1,k:v2", "a:b", `"k":"v"`, "a", "::"},
	"ints":   {"1,2", "-3", " 4 , 5 ", "x", "1,,2"},
	"i8":     {"127", "-128,0", "128", "0x7f"},
	"u16":    {"65535,0", "1", "65536", "-1"},
	"name":   {"n", "a b", "=", "-x"},
}

func repTemplate(defaults bool) *repCfg {
	if !defaults {
		return &repCfg{}
	}
	return &repCfg{Tags: []string{"d"}, Set: map[string]struct{}{"d": {}}, Labels: map[string]string{"d": "v"},
		Multi: map[string][]string{"d": {"v"}}, Ints: []int{9}, I8: []int8{9}, U16: []uint16{9}, Name: "d"}
}

func runRepFlag(in input, fail func(entry, what, s string)) driver.Result {
	args := in.L
	desc := strings.Join(args, " ")
	k, nerr := 0, 0
	stage := func(name string, f func() error) {
		_, what := call(func() string {
			if f() != nil {
				nerr++
			}
			return "ok"
		})
		if what != "" {
			fail(name, what, desc)
			k = 1
		}
	}
	defaults := in.Cfg%2 == 1
	ctx := context.Background()
	stage("std flag source with repeated flags", func() error {
		s, err := flag.NewSetWithArgs(flag.DefaultFlagNameConfig(), repTemplate(defaults), args)
		if err != nil {
			return err
		}
		_, err = dials.Config(ctx, repTemplate(defaults), s)
		return err
	})
	stage("pflag source with repeated flags", func() error {
		pargs := make([]string, len(args))
		for i, a := range args {
			pargs[i] = "-" + a // --name=value
		}
		s, err := pflag.NewSetWithArgs(pflag.DefaultFlagNameConfig(), repTemplate(defaults), pargs)
		if err != nil {
			return err
		}
		_, err = dials.Config(ctx, repTemplate(defaults), s)
		return err
	})
	// the helpers directly: Set once per occurrence, String() after every Set
	stage("flag helper Set called repeatedly", func() error {
		t := repTemplate(defaults)
		hs := map[string]interface {
			Set(string) error
			String() string
		}{
			"tags": flaghelper.NewStringSliceFlag(&t.Tags), "set": flaghelper.NewStringSetFlag(&t.Set),
			"labels": flaghelper.NewMapStringStringFlag(&t.Labels), "multi": flaghelper.NewMapStringStringSliceFlag(&t.Multi),
			"ints": flaghelper.NewSignedIntegralSlice(&t.Ints), "i8": flaghelper.NewSignedIntegralSlice(&t.I8),
			"u16": flaghelper.NewUnsignedIntegralSlice(&t.U16),
		}
		var last error
		for _, a := range args {
			kv := strings.SplitN(strings.TrimPrefix(a, "-"), "=", 2)
			if h, ok := hs[kv[0]]; ok && len(kv) == 2 {
				if err := h.Set(kv[1]); err != nil {
					last = err
				}
				_ = h.String()
			}
		}
		return last
	})
	return driver.Result{Coq: fmt.Sprintf("Fuzz %d", k), Kind: "repeated-flags",
		Tags: []string{fmt.Sprintf("rflag-stages-with-error-%d", nerr), fmt.Sprintf("rflag-occurrences-%d", len(args))}, Nontrivial: len(args) >= 2}
}

func repFlagCorpus(add func(in input)) {
	for _, e := range textgen.BoundaryEscapes {
		q := `"a` + e + `"`
		add(input{K: "rflag", Cfg: 0, L: []string{`-labels=` + q + `:"v"`, `-labels="k":` + q, `-multi=` + q + `:` + q, `-tags=` + q, `-set="x",` + q}})
	}
	for _, name := range repFlags[:7] {
		vs := repValues[name]
		vals := []string{"", vs[0], vs[1]}
		for cfg := 0; cfg < 2; cfg++ {
			for _, a := range vals {
				add(input{K: "rflag", Cfg: cfg, L: []string{"-" + name + "=" + a}})
				for _, b := range vals {
					add(input{K: "rflag", Cfg: cfg, L: []string{"-" + name + "=" + a, "-" + name + "=" + b}})
					add(input{K: "rflag", Cfg: cfg, L: []string{"-" + name + "=" + a, "-" + name + "=" + b, "-" + name + "="}})
					add(input{K: "rflag", Cfg: cfg, L: []string{"-" + name + "=", "-" + name + "=" + a, "-" + name + "=" + b}})
				}
			}
		}
	}
}

func genRepFlag(r *coqfmt.Rng) input {
	n := 1 + r.Intn(6)
	args := make([]string, n)
	focus := coqfmt.Pick(r, repFlags)
	for i := range args {
		name := focus
		if r.Chance(1, 3) {
			name = coqfmt.Pick(r, repFlags)
		}
		v := ""
		if !r.Chance(1, 3) {
			v = coqfmt.Pick(r, repValues[name])
		}
		if r.Chance(1, 5) { // a quoted member with an escape at or beyond the validity boundaries
			q := `"a` + coqfmt.Pick(r, textgen.BoundaryEscapes) + `"`
			switch name {
			case "labels", "multi":
				v = coqfmt.Pick(r, []string{q + `:"v"`, `"k":` + q, q + ":" + q})
			case "tags", "set":
				v = coqfmt.Pick(r, []string{q, `"x",` + q})
			}
		}
		args[i] = "-" + name + "=" + v
	}
	return input{K: "rflag", Cfg: r.Intn(2), L: args}
}
