package main

// Kind "refs": values that look like shell / template REFERENCES to variables - ${X}, $X, $(X), %X%,
// {{X}}, @X, file:X, env:X - where X is the variable's own name, another variable of the case (chains,
// 2- and 3-cycles) or an unset name.  A child process is started with these as environment VALUES and
// runs, in stages, the env source, the flag source (the same values as flag arguments) and the JSON and
// YAML decoders (the same values as file content of string leaves) on a config type with string
// leaves.  Oracle: the child reports "returned" before the deadline of 3 s; a child that has to be
// killed is a hang, attributed to this case and to the stage it was in.  After three hangs no more
// children are started (the run is a VIOLATION already).  Exploration, no model.

import (
	"bytes"
	"context"
	stdjson "encoding/json"
	"fmt"
	"os"
	"os/exec"
	"strconv"
	"strings"
	"syscall"
	"time"

	"github.com/vimeo/dials"
	"github.com/vimeo/dials/decoders/json"
	"github.com/vimeo/dials/decoders/yaml"
	"github.com/vimeo/dials/sources/env"
	"github.com/vimeo/dials/sources/flag"
	"github.com/vimeo/dials/sources/static"

	"verifharness/internal/coqfmt"
	"verifharness/internal/driver"
)

type refCfg struct {
	Host   string
	Name   string
	Alias  string
	Target string
	Port   int
}

var refVars = []string{"HOST", "NAME", "ALIAS", "TARGET"}

const refDeadline = 3 * time.Second

// refChildMain: os.Args[2:] are the four values (also given as flags and file content)
func refChildMain(vals []string) {
	defer func() {
		if r := recover(); r != nil {
			fmt.Printf("RESULT panicked: %v\n", r)
			os.Exit(0)
		}
	}()
	for len(vals) < 4 {
		vals = append(vals, "")
	}
	// a source that slurps a device or a huge file must not take the machine down with it
	_ = syscall.Setrlimit(syscall.RLIMIT_AS, &syscall.Rlimit{Cur: 3 << 30, Max: 3 << 30})
	ctx := context.Background()
	fmt.Println("STAGE env")
	_, _ = dials.Config(ctx, &refCfg{}, &env.Source{})
	fmt.Println("STAGE env with prefix")
	_, _ = dials.Config(ctx, &refCfg{}, &env.Source{Prefix: "APP"})
	fmt.Println("STAGE flag")
	args := []string{"-host=" + vals[0], "-name=" + vals[1], "-alias=" + vals[2], "-target=" + vals[3]}
	if set, err := flag.NewSetWithArgs(flag.DefaultFlagNameConfig(), &refCfg{}, args); err == nil {
		_, _ = dials.Config(ctx, &refCfg{}, set)
	}
	fmt.Println("STAGE json")
	doc, _ := stdjson.Marshal(map[string]string{"Host": vals[0], "Name": vals[1], "Alias": vals[2], "Target": vals[3]})
	_, _ = dials.Config(ctx, &refCfg{}, &static.StringSource{Data: string(doc), Decoder: &json.Decoder{}})
	fmt.Println("STAGE yaml")
	_, _ = dials.Config(ctx, &refCfg{}, &static.StringSource{Data: string(doc), Decoder: &yaml.Decoder{}}) // JSON is YAML
	fmt.Println("STAGE all")
	_, _ = dials.Config(ctx, &refCfg{}, &env.Source{}, &static.StringSource{Data: string(doc), Decoder: &json.Decoder{}})
	fmt.Println("RESULT returned")
}

var childHangs int

func runRefs(in input) driver.Result { return runRefsWith(in, nil, "reference-shaped-values", "refs") }

func runRefsWith(in input, extraEnv []string, kind, tagp string) driver.Result {
	if childHangs >= 3 {
		return driver.Result{Coq: "Fuzz 0", Kind: "skipped-after-hang"}
	}
	exe, err := os.Executable()
	if err != nil {
		panic(err)
	}
	vals := append([]string{}, in.L...)
	for len(vals) < 4 {
		vals = append(vals, "")
	}
	envp := []string{"PORT=80", "OTHER=plain"}
	for i, v := range vals {
		if v != "\x00unset" {
			envp = append(envp, refVars[i]+"="+v)
		}
	}
	for i, v := range vals {
		if v == "\x00unset" {
			vals[i] = ""
		}
	}
	envp = append(envp, extraEnv...)
	ctx, cancel := context.WithTimeout(context.Background(), refDeadline)
	defer cancel()
	cmd := exec.CommandContext(ctx, exe, append([]string{"refchild"}, vals...)...)
	cmd.Env = envp
	var buf bytes.Buffer
	cmd.Stdout = &buf
	cmd.Stderr = &buf
	runErr := cmd.Run()
	outS := buf.String()
	stage := "start"
	for _, line := range strings.Split(outS, "\n") {
		if strings.HasPrefix(line, "STAGE ") {
			stage = strings.TrimPrefix(line, "STAGE ")
		}
	}
	show := strconv.QuoteToASCII(strings.Join(envp[2:], " "))
	var direct []string
	verdict, tag := 0, tagp+"-returned"
	switch {
	case strings.Contains(outS, "RESULT returned"):
	case strings.Contains(outS, "RESULT panicked"):
		verdict, tag = 1, tagp+"-panicked"
		line := outS[strings.Index(outS, "RESULT panicked"):]
		direct = append(direct, fmt.Sprintf("sources on environment %s (stage %s): %s", show, stage, strings.SplitN(line, "\n", 2)[0]))
	case ctx.Err() != nil:
		childHangs++
		verdict, tag = 1, tagp+"-hung"
		direct = append(direct, fmt.Sprintf("sources on environment %s: no return within %v in stage %q (the child had to be killed): does not terminate",
			show, refDeadline, stage))
	default:
		verdict, tag = 1, tagp+"-died"
		tail := outS
		if len(tail) > 300 {
			tail = tail[len(tail)-300:]
		}
		direct = append(direct, fmt.Sprintf("sources on environment %s: the child died in stage %q (%v): %s", show, stage, runErr, tail))
	}
	return driver.Result{Coq: fmt.Sprintf("Fuzz %d", verdict), Kind: kind, Tags: []string{tag, tagp + "-" + in.T},
		Nontrivial: true, Direct: direct}
}

// ---- generators ----

var refShapes = []func(x string) string{
	func(x string) string { return "${" + x + "}" },
	func(x string) string { return "$" + x },
	func(x string) string { return "$(" + x + ")" },
	func(x string) string { return "%" + x + "%" },
	func(x string) string { return "{{" + x + "}}" },
	func(x string) string { return "@" + x },
	func(x string) string { return "file:" + x },
	func(x string) string { return "env:" + x },
	func(x string) string { return "${" + x },
	func(x string) string { return "${${" + x + "}}" },
	func(x string) string { return "${" + x + "}${" + x + "}" },
	func(x string) string { return "{{ ." + x + " }}" },
	func(x string) string { return "${" + strings.ToLower(x) + "}" },
	func(x string) string { return "${" + x + ":-default}" },
}

func refsCorpus(add func(in input)) {
	for _, sh := range refShapes {
		// self reference, 2-cycle, 3-cycle, chain to a plain value, reference to an unset name
		add(input{K: "refs", T: "self", L: []string{sh("HOST"), "n", "a", "t"}})
		add(input{K: "refs", T: "cycle2", L: []string{sh("NAME"), sh("HOST"), "a", "t"}})
		add(input{K: "refs", T: "cycle3", L: []string{sh("NAME"), sh("ALIAS"), sh("HOST"), "t"}})
		add(input{K: "refs", T: "chain", L: []string{sh("NAME"), sh("ALIAS"), sh("TARGET"), "plain"}})
		add(input{K: "refs", T: "unset", L: []string{sh("UNSET_NAME"), sh("TARGET"), "a", "\x00unset"}})
	}
	add(input{K: "refs", T: "plain", L: []string{"h", "n", "a", "t"}})
	add(input{K: "refs", T: "self", L: []string{"${}", "$", "${HOST}x", "x${HOST}"}})
}

func genRefs(r *coqfmt.Rng) input {
	names := []string{"HOST", "NAME", "ALIAS", "TARGET", "OTHER", "UNSET_NAME", "PORT", ""}
	l := make([]string, 4)
	kind := "mixed"
	for i := range l {
		switch x := r.Intn(10); {
		case x < 7:
			l[i] = coqfmt.Pick(r, refShapes)(coqfmt.Pick(r, names))
		case x < 9:
			l[i] = coqfmt.Pick(r, []string{"plain", "", "$", "${", "}", "%%", "{{}}"})
		default:
			l[i] = "\x00unset"
		}
	}
	if r.Chance(1, 3) { // a cycle of one shape through k variables
		sh := coqfmt.Pick(r, refShapes)
		k := 1 + r.Intn(4)
		for i := 0; i < k; i++ {
			l[i] = sh(refVars[(i+1)%k])
		}
		kind = fmt.Sprintf("cycle%d", k)
	}
	return input{K: "refs", T: kind, L: l}
}
