package main

// File content (kind "doc"): byte-level exploration of the four decoders.  Every PREFIX of a few
// valid documents per format (a truncated file), single-byte mutations of them and random bytes
// are decoded through static.StringSource + the real decoder into declared config types with
// dials.Config.  Oracle: returned (a value or an error) within the deadline, no panic.  The
// documents are at most a few kB, so unbounded recursion in a parser (a fatal, unrecoverable
// stack overflow) is out of reach and the calls run in-process under recover() and the watchdog.
// Exploration, not proof: the decoder libraries are not modelled.

import (
	"context"
	"fmt"
	"strings"
	"time"

	"github.com/vimeo/dials"
	"github.com/vimeo/dials/decoders/cue"
	"github.com/vimeo/dials/decoders/json"
	"github.com/vimeo/dials/decoders/toml"
	"github.com/vimeo/dials/decoders/yaml"
	"github.com/vimeo/dials/sources/static"

	"verifharness/internal/coqfmt"
	"verifharness/internal/driver"
)

type docCfgA struct {
	Name    string
	Port    int
	Tags    []string
	Timeout time.Duration
	Nested  struct {
		Level uint8
		Ratio float64
		On    bool
	}
	M map[string]string
}

type docCfgB struct {
	Path  string `dials:"path"`
	URL   string `dials:"url"`
	Items []struct {
		K string
		V int
	}
	Deep struct {
		Deeper struct {
			X []int
		}
	}
	P *int
}

type docCfgC struct {
	A string
	B map[string][]string
	C []float64
	D map[string]int
	E struct{ F, G string }
}

var formatNames = []string{"json", "yaml", "toml", "cue"}

func decoderFor(f int) dials.Decoder {
	switch f {
	case 0:
		return &json.Decoder{}
	case 1:
		return &yaml.Decoder{}
	case 2:
		return &toml.Decoder{}
	default:
		return &cue.Decoder{}
	}
}

// valid documents; they contain '/', backslashes, escaped quotes, comments where the format has
// them, and multi-byte runes
var seedDocs = [4][]string{
	{ // JSON
		`{"Name":"svc/a","Port":8080,"Tags":["x/y","a\\b","q\"uo\"te","é世"],"Timeout":"1m30s","Nested":{"Level":3,"Ratio":0.5,"On":true},"M":{"k/1":"v\\"}}`,
		`{"path":"/etc/app/conf.d","url":"https://h/p?q=1","Items":[{"K":"a","V":1},{"K":"b\\","V":-2}],"Deep":{"Deeper":{"X":[1,2,3]}},"P":7}`,
		`{"A":"tail\\","B":{"k":["v1","v/2"]},"C":[1.5,2e3],"D":{"x":1},"E":{"F":"/","G":"\\\\"}}`,
		"{\n  \"Name\": \"n\", \"Tags\": [\"a//b\", \"/* not a comment */\"],\n  \"M\": {\"a\": \"b\\\\\"}\n}\n",
	},
	{ // YAML
		"Name: svc/a\nPort: 8080\nTags: [\"x/y\", 'a\\b', \"q\\\"uo\", é世]\nTimeout: 1m30s # comment\nNested:\n  Level: 3\n  Ratio: 0.5\n  On: true\nM:\n  k/1: \"v\\\\\"\n",
		"path: /etc/app\nurl: \"https://h/p\"\nItems:\n  - K: a\n    V: 1\n  - {K: \"b\\\\\", V: -2}\nDeep: {Deeper: {X: [1, 2]}}\nP: 7\n",
		"A: |\n  multi\n  line\\\nB:\n  k: [v1, v/2]\nC: [1.5, 2e3]\nD: {x: 1}\nE: {F: \"/\", G: '\\'}\n",
	},
	{ // TOML
		"Name = \"svc/a\"\nPort = 8080\nTags = [\"x/y\", 'a\\b', \"q\\\"uo\", \"é世\"]\nTimeout = \"1m30s\" # comment\n[Nested]\nLevel = 3\nRatio = 0.5\nOn = true\n[M]\n\"k/1\" = \"v\\\\\"\n",
		"path = \"/etc/app\"\nurl = \"https://h/p\"\nP = 7\n[[Items]]\nK = \"a\"\nV = 1\n[[Items]]\nK = \"b\\\\\"\nV = -2\n[Deep.Deeper]\nX = [1, 2, 3]\n",
		"A = \"\"\"\nmulti\\\n  line\"\"\"\nC = [1.5, 2e3]\n[B]\nk = [\"v1\", \"v/2\"]\n[D]\nx = 1\n[E]\nF = \"/\"\nG = '\\'\n",
	},
	{ // Cue
		"Name: \"svc/a\"\nPort: 8080\nTags: [\"x/y\", \"a\\\\b\", \"q\\\"uo\", \"é世\"]\nTimeout: \"1m30s\" // comment\nNested: {Level: 3, Ratio: 0.5, On: true}\nM: {\"k/1\": \"v\\\\\"}\n",
		"path: \"/etc/app\"\nurl: \"https://h/p\"\nItems: [{K: \"a\", V: 1}, {K: \"b\\\\\", V: -2}]\nDeep: Deeper: X: [1, 2, 3]\nP: 7\n",
		"A: \"tail\\\\\"\nB: k: [\"v1\", \"v/2\"]\nC: [1.5, 2e3]\nD: x: 1\nE: {F: \"/\", G: #\"\\\"#}\n",
	},
}

func runDoc(in input, fail func(entry, what, s string)) driver.Result {
	s := string(in.B)
	f := in.D % 4
	out, what := call(func() string {
		src := &static.StringSource{Data: s, Decoder: decoderFor(f)}
		var err error
		switch in.Cfg % 3 {
		case 0:
			_, err = dials.Config(context.Background(), &docCfgA{}, src)
		case 1:
			_, err = dials.Config(context.Background(), &docCfgB{}, src)
		default:
			_, err = dials.Config(context.Background(), &docCfgC{}, src)
		}
		if err != nil {
			return "err"
		}
		return "ok"
	})
	fail(fmt.Sprintf("%s decoder (config type %d)", formatNames[f], in.Cfg%3), what, s)
	k := 0
	if what != "" {
		k = 1
	}
	return driver.Result{
		Coq: fmt.Sprintf("Fuzz %d", k), Kind: "decoder-documents",
		Tags: []string{"doc-" + formatNames[f] + "-" + cls(out), "doc-" + in.T}, Nontrivial: len(s) >= 2,
	}
}

// every prefix of every seed document, each into the config type it was written for
func docCorpus(add func(in input)) {
	for f := 0; f < 4; f++ {
		for i, d := range seedDocs[f] {
			for n := 0; n <= len(d); n++ {
				add(input{K: "doc", D: f, Cfg: i % 3, T: "prefix", B: []byte(d[:n])})
			}
		}
	}
}

var boms = [][]byte{{0xEF, 0xBB, 0xBF}, {0xFF, 0xFE}, {0xFE, 0xFF}, {0xFF, 0xFE, 0x00, 0x00}, {0x00, 0x00, 0xFE, 0xFF}, {0x2B, 0x2F, 0x76}, {0xEF, 0xBB}, {0xFF}, {0xFE}}

// utf16 encodes s as UTF-16 (BMP only is enough here) in the given byte order
func utf16Bytes(s string, little bool) []byte {
	var out []byte
	for _, r := range s {
		if r > 0xFFFF {
			r = '?'
		}
		if little {
			out = append(out, byte(r), byte(r>>8))
		} else {
			out = append(out, byte(r>>8), byte(r))
		}
	}
	return out
}

// byte-order marks of every encoding in front of the documents, the documents transcoded to UTF-16
// in both byte orders, and every short truncation of those (odd and even lengths) - for every decoder
func bomCorpus(add func(in input)) {
	for f := 0; f < 4; f++ {
		d := seedDocs[f][0]
		for _, bom := range boms {
			for _, body := range [][]byte{[]byte(d), utf16Bytes(d, true), utf16Bytes(d, false)} {
				whole := append(append([]byte{}, bom...), body...)
				for n := 0; n <= len(whole) && n <= len(bom)+9; n++ {
					add(input{K: "doc", D: f, Cfg: 0, T: "bom", B: whole[:n]})
				}
				add(input{K: "doc", D: f, Cfg: 0, T: "bom", B: whole})
				add(input{K: "doc", D: f, Cfg: 0, T: "bom", B: whole[:len(whole)-1]})
			}
		}
	}
}

func genDoc(r *coqfmt.Rng) input {
	f := r.Intn(4)
	i := r.Intn(len(seedDocs[f]))
	d := []byte(seedDocs[f][i])
	cfg := i % 3
	if r.Chance(1, 5) {
		cfg = r.Intn(3)
	}
	if r.Chance(1, 8) { // a byte-order mark, possibly a transcoded body, cut anywhere
		body := d
		switch r.Intn(3) {
		case 1:
			body = utf16Bytes(string(d), true)
		case 2:
			body = utf16Bytes(string(d), false)
		}
		whole := append(append([]byte{}, coqfmt.Pick(r, boms)...), body...)
		return input{K: "doc", D: f, Cfg: cfg, T: "bom", B: whole[:r.Intn(len(whole)+1)]}
	}
	switch x := r.Intn(10); {
	case x < 6: // single-byte mutation (replace, insert or delete), possibly truncated afterwards
		pos := r.Intn(len(d))
		c := coqfmt.Pick(r, fuzzBytes)
		if r.Chance(1, 3) {
			const sp = "/\\\"'{}[]:,#*\n\t -=.\x00\xff"
			c = sp[r.Intn(len(sp))]
		}
		switch r.Intn(3) {
		case 0:
			d[pos] = c
		case 1:
			d = append(d[:pos], append([]byte{c}, d[pos:]...)...)
		default:
			d = append(d[:pos], d[pos+1:]...)
		}
		if r.Chance(1, 3) {
			d = d[:r.Intn(len(d)+1)]
		}
		return input{K: "doc", D: f, Cfg: cfg, T: "mutation", B: d}
	case x < 8: // two documents spliced
		e := seedDocs[f][r.Intn(len(seedDocs[f]))]
		cut := r.Intn(len(d) + 1)
		cut2 := r.Intn(len(e) + 1)
		return input{K: "doc", D: f, Cfg: cfg, T: "splice", B: append(append([]byte{}, d[:cut]...), e[cut2:]...)}
	case x < 9: // a document of another format
		g := r.Intn(4)
		return input{K: "doc", D: f, Cfg: cfg, T: "other-format", B: []byte(seedDocs[g][r.Intn(len(seedDocs[g]))])}
	default: // random bytes
		n := r.Intn(200)
		b := make([]byte, n)
		for j := range b {
			if r.Chance(1, 2) {
				b[j] = coqfmt.Pick(r, fuzzBytes)
			} else {
				const sp = "{}[]:,\"'/\\#*= \n"
				b[j] = sp[r.Intn(len(sp))]
			}
		}
		if r.Chance(1, 4) {
			b = []byte(strings.Repeat(coqfmt.Pick(r, []string{"[", "{", "{\"a\":", "- ", "a: ", "[[", "\"\\"}), 1+r.Intn(400)))
		}
		return input{K: "doc", D: f, Cfg: cfg, T: "random", B: b}
	}
}
