package main

// Kind "tags": config struct types (built with reflect.StructOf) whose fields carry EMPTY and odd
// values on every tag kind dials reads - dials, dialsenv, dialsflag, dialspflag, dialspflagshort,
// dialsdesc, dialsalias, dialsenvalias, dialsflagalias, dialspflagalias, json, yaml, toml - at top level
// and inside a nested struct.  Each type goes through every source and decoder: flag.NewSetWithArgs and
// a lazily registering zero-value flag.Set, pflag.NewSetWithArgs, the env source, the four decoders on
// an empty document, each inside dials.Config.  Oracle: returned (a config or an error), no panic,
// within the deadline.  Exploration on the implementation; the type half of C16 (named variants) is
// the c10 engine.

import (
	"context"
	"fmt"
	"reflect"
	"strings"

	"github.com/vimeo/dials"
	"github.com/vimeo/dials/decoders/cue"
	"github.com/vimeo/dials/decoders/json"
	"github.com/vimeo/dials/decoders/toml"
	"github.com/vimeo/dials/decoders/yaml"
	"github.com/vimeo/dials/ptrify"
	"github.com/vimeo/dials/sources/env"
	"github.com/vimeo/dials/sources/flag"
	"github.com/vimeo/dials/sources/pflag"
	"github.com/vimeo/dials/sources/static"

	"verifharness/internal/coqfmt"
	"verifharness/internal/driver"
)

var tagKinds = []string{"dials", "dialsenv", "dialsflag", "dialspflag", "dialspflagshort", "dialsdesc", "dialsalias", "dialsenvalias",
	"dialsflagalias", "dialspflagalias", "json", "yaml", "toml"}

var tagValues = []string{"", "", "", "-", "=", "-x", "a=b", " ", ",", ",omitempty", "a,omitempty", "é", "a b", "A.B", "a-b_c", ".", "_", "--", "x",
	"0", "-=", "a\tb", strings.Repeat("n", 300), "Name", "name", "%s", "\\", "'"}

var leafTypes = []reflect.Type{reflect.TypeOf(""), reflect.TypeOf(0), reflect.TypeOf(false), reflect.TypeOf([]string{}),
	reflect.TypeOf(map[string]string{}), reflect.TypeOf(uint8(0)), reflect.TypeOf(1.5)}

// a tag spec is a list of "kind\x00value" pairs per field; fields: F0..Fn at top level, then a nested struct N
func buildTagged(spec [][]string, nestedFrom int) (t reflect.Type, err error) {
	defer func() {
		if r := recover(); r != nil {
			err = fmt.Errorf("reflect.StructOf: %v", r)
		}
	}()
	mk := func(i int, pairs []string) reflect.StructField {
		var sb strings.Builder
		for j, p := range pairs {
			kv := strings.SplitN(p, "\x00", 2)
			if j > 0 {
				sb.WriteByte(' ')
			}
			fmt.Fprintf(&sb, "%s:%q", kv[0], kv[1])
		}
		return reflect.StructField{Name: fmt.Sprintf("F%d", i), Type: leafTypes[i%len(leafTypes)], Tag: reflect.StructTag(sb.String())}
	}
	var top, nested []reflect.StructField
	for i, pairs := range spec {
		if nestedFrom >= 0 && i >= nestedFrom {
			nested = append(nested, mk(i, pairs))
		} else {
			top = append(top, mk(i, pairs))
		}
	}
	if len(nested) > 0 {
		top = append(top, reflect.StructField{Name: "N", Type: reflect.StructOf(nested)})
	}
	return reflect.StructOf(top), nil
}

func runTags(in input, fail func(entry, what, s string)) driver.Result {
	spec := make([][]string, len(in.M2))
	copy(spec, in.M2)
	t, berr := buildTagged(spec, in.Cfg)
	desc := fmt.Sprintf("%q", in.M2)
	if berr != nil {
		return driver.Result{Coq: "Fuzz 0", Kind: "tagged-types", Tags: []string{"tags-not-a-type"}}
	}
	ctx := context.Background()
	// what dials.Config does with a source: Value on the pointerified config type
	ptype := dials.NewType(ptrify.Pointerify(t, reflect.New(t).Elem()))
	value := func(src dials.Source) (reflect.Value, error) { return src.Value(ctx, ptype) }
	stages := []struct {
		name string
		run  func() error
	}{
		{"flag.NewSetWithArgs", func() error {
			s, err := flag.NewSetWithArgs(flag.DefaultFlagNameConfig(), reflect.New(t).Interface(), nil)
			if err != nil {
				return err
			}
			_, err = value(s)
			return err
		}},
		{"zero-value flag.Set (lazy registration)", func() error {
			_, err := value(&flag.Set{})
			return err
		}},
		{"pflag.NewSetWithArgs", func() error {
			s, err := pflag.NewSetWithArgs(pflag.DefaultFlagNameConfig(), reflect.New(t).Interface(), nil)
			if err != nil {
				return err
			}
			_, err = value(s)
			return err
		}},
		{"env.Source", func() error { _, err := value(&env.Source{}); return err }},
		{"env.Source with prefix", func() error {
			_, err := value(&env.Source{Prefix: "P"})
			return err
		}},
		{"json decoder", func() error {
			_, err := value(&static.StringSource{Data: "{}", Decoder: &json.Decoder{}})
			return err
		}},
		{"yaml decoder", func() error {
			_, err := value(&static.StringSource{Data: "{}", Decoder: &yaml.Decoder{}})
			return err
		}},
		{"toml decoder", func() error {
			_, err := value(&static.StringSource{Data: "", Decoder: &toml.Decoder{}})
			return err
		}},
		{"cue decoder", func() error {
			_, err := value(&static.StringSource{Data: "{}", Decoder: &cue.Decoder{}})
			return err
		}},
	}
	k, nerr := 0, 0
	for _, st := range stages {
		_, what := call(func() string {
			if st.run() != nil {
				nerr++
			}
			return "ok"
		})
		if what != "" {
			fail(st.name+" on a config type with field tags", what, desc)
			k = 1
		}
	}
	return driver.Result{Coq: fmt.Sprintf("Fuzz %d", k), Kind: "tagged-types",
		Tags: []string{fmt.Sprintf("tags-stages-with-error-%d", nerr)}, Nontrivial: true}
}

func tagsCorpus(add func(in input)) {
	// every tag kind with every value, alone on a top-level leaf and alone on a nested leaf
	seen := map[string]bool{}
	for _, k := range tagKinds {
		for _, v := range tagValues {
			if seen[k+"\x00"+v] {
				continue
			}
			seen[k+"\x00"+v] = true
			add(input{K: "tags", Cfg: -1, M2: [][]string{{k + "\x00" + v}, {}}})
			add(input{K: "tags", Cfg: 1, M2: [][]string{{}, {k + "\x00" + v}}})
		}
	}
	// the same empty value on two leaves (colliding names must be an error, not a panic)
	for _, k := range tagKinds {
		add(input{K: "tags", Cfg: -1, M2: [][]string{{k + "\x00"}, {k + "\x00"}}})
	}
}

func genTags(r *coqfmt.Rng) input {
	n := 1 + r.Intn(5)
	spec := make([][]string, n)
	for i := range spec {
		m := r.Intn(4)
		for j := 0; j < m; j++ {
			spec[i] = append(spec[i], coqfmt.Pick(r, tagKinds)+"\x00"+coqfmt.Pick(r, tagValues))
		}
	}
	nf := -1
	if r.Chance(1, 2) {
		nf = r.Intn(n)
	}
	return input{K: "tags", Cfg: nf, M2: spec}
}
