package main

// Additional C16 entry points:
//   enc   - the six encoders on arbitrary word lists (empty words, single runes, non-ASCII,
//           upper-case and digit-leading words), compared with the model for ASCII lists
//   pipe  - decode -> encode -> decode pipelines on arbitrary rune lists (what the flatten and
//           tag-reformatting manglers do with field names and tags), compared for ASCII inputs
//   envp  - a CHILD PROCESS started with a hand-built environment block (entries without '=',
//           "=X", "A=B=C", very long and non-UTF-8 entries next to ordinary variables) that runs
//           env.Source.Value on declared config types; oracle: the child reports "returned"
//           (not "panicked", and it did not die).  Such environments cannot be built with
//           os.Setenv, only by a parent passing a raw envp.

import (
	"bytes"
	"context"
	"fmt"
	"os"
	"os/exec"
	"strconv"
	"strings"
	"time"
	"unicode/utf8"

	"github.com/vimeo/dials"
	"github.com/vimeo/dials/parse"
	"github.com/vimeo/dials/sources/env"
	cc "github.com/vimeo/dials/tagformat/caseconversion"

	"verifharness/internal/coqfmt"
	"verifharness/internal/driver"
	"verifharness/internal/textgen"
)

var encoders = []cc.EncodeCasingFunc{cc.EncodeUpperCamelCase, cc.EncodeLowerCamelCase, cc.EncodeLowerSnakeCase,
	cc.EncodeUpperSnakeCase, cc.EncodeKebabCase, cc.EncodeCasePreservingSnakeCase}

func isASCII(ss ...string) bool {
	for _, s := range ss {
		for i := 0; i < len(s); i++ {
			if s[i] >= 0x80 {
				return false
			}
		}
	}
	return true
}

func runEnc(in input, fail func(entry, what, s string)) driver.Result {
	out, what := call(func() string {
		return "(Ok " + coqfmt.Str(encoders[in.E](cc.DecodedIdentifier(in.L))) + ")"
	})
	fail(fmt.Sprintf("encoder %d", in.E), what, strings.Join(in.L, "|"))
	empties := 0
	for _, w := range in.L {
		if w == "" {
			empties++
		}
	}
	tags := []string{"encoder-" + cls(out), fmt.Sprintf("encoder-scheme-%d", in.E)}
	if empties > 0 {
		tags = append(tags, "encoder-empty-word")
	}
	term := fmt.Sprintf("Enc %d %s %s", in.E, coqfmt.Strs(in.L), out)
	if !isASCII(in.L...) { // the model classifies ASCII only: returned-or-not is all that is decided
		tags = append(tags, "encoder-non-ascii")
		term = "Fuzz 0"
		if what != "" {
			term = "Fuzz 1"
		}
	}
	return driver.Result{Coq: term, Kind: "encoder", Tags: tags, Nontrivial: len(in.L) >= 2 || empties > 0}
}

func runPipe(in input, fail func(entry, what, s string)) driver.Result {
	stage := "decode1-err"
	out, what := call(func() string {
		ws, err := decoders[in.D](in.S)
		if err != nil {
			return "(Err 0)"
		}
		stage = "decode2-err"
		ws2, err := decoders[in.D2](encoders[in.E](ws))
		if err == nil {
			stage = "ok"
		}
		return driver.Outcome(coqfmt.Strs(ws2), err, false)
	})
	fail(fmt.Sprintf("pipeline decoder %d, encoder %d, decoder %d", in.D, in.E, in.D2), what, in.S)
	term := fmt.Sprintf("Pipe %d %d %d %s %s", in.D, in.E, in.D2, coqfmt.Str(in.S), out)
	if !isASCII(in.S) {
		term = "Fuzz 0"
		if what != "" {
			term = "Fuzz 1"
		}
	}
	return driver.Result{Coq: term, Kind: "pipeline", Tags: []string{"pipeline-" + stage}, Nontrivial: stage != "decode1-err"}
}

// ---- the env child ----

type envCfg0 struct {
	Port int
	Host string
}
type envCfg1 struct {
	Name   string
	Nested struct {
		Level uint8
		Tags  []string
	}
	Timeout time.Duration
}
type envCfg2 struct {
	A string `dials:"NOEQUALS"`
	B map[string]string
	C bool `dialsenv:"X"`
}

const nEnvCfgs = 4

// childMain runs in the re-executed harness: env.Source.Value on one config type.
func childMain(cfg int) {
	defer func() {
		if r := recover(); r != nil {
			fmt.Printf("RESULT panicked: %v\n", r)
			os.Exit(0)
		}
	}()
	// dials.Config is the public way to run a source: it pointerifies the config type and
	// calls src.Value once (no watching sources, so no monitor is started)
	src := &env.Source{}
	ctx := context.Background()
	var err error
	switch cfg {
	case 0:
		_, err = dials.Config(ctx, &envCfg0{}, src)
	case 1:
		_, err = dials.Config(ctx, &envCfg1{}, src)
	case 2:
		_, err = dials.Config(ctx, &envCfg2{}, src)
	default:
		src.Prefix = "APP"
		_, err = dials.Config(ctx, &envCfg0{}, src)
	}
	if err != nil {
		fmt.Println("RESULT returned error:", err)
		return
	}
	fmt.Println("RESULT returned value")
}

func runEnvChild(in input) driver.Result {
	exe, err := os.Executable()
	if err != nil {
		panic(err)
	}
	envp := make([]string, len(in.Env))
	malformed := false
	for i, e := range in.Env {
		envp[i] = string(e)
		if !strings.Contains(envp[i], "=") && envp[i] != "" {
			malformed = true
		}
	}
	ctx, cancel := context.WithTimeout(context.Background(), 20*time.Second)
	defer cancel()
	cmd := exec.CommandContext(ctx, exe, "envchild", strconv.Itoa(in.Cfg))
	cmd.Env = envp
	var buf bytes.Buffer
	cmd.Stdout = &buf
	cmd.Stderr = &buf
	runErr := cmd.Run()
	outS := buf.String()
	var direct []string
	verdict, tag := 0, "envchild-returned"
	show := func() string {
		parts := make([]string, len(envp))
		for i, e := range envp {
			q := strconv.QuoteToASCII(e)
			if len(q) > 40 {
				q = q[:40] + "..."
			}
			parts[i] = q
		}
		return strings.Join(parts, " ")
	}
	switch {
	case strings.Contains(outS, "RESULT returned value"):
		tag = "envchild-returned-value"
	case strings.Contains(outS, "RESULT returned error"):
		tag = "envchild-returned-error"
	case strings.Contains(outS, "RESULT panicked"):
		verdict, tag = 1, "envchild-panicked"
		line := outS[strings.Index(outS, "RESULT panicked"):]
		if i := strings.IndexByte(line, '\n'); i >= 0 {
			line = line[:i]
		}
		direct = append(direct, fmt.Sprintf("env.Source.Value (config type %d) in a child process with environment [%s]: %s", in.Cfg, show(), line))
	default:
		verdict, tag = 1, "envchild-died"
		tail := outS
		if len(tail) > 300 {
			tail = tail[len(tail)-300:]
		}
		direct = append(direct, fmt.Sprintf("env.Source.Value (config type %d) in a child process with environment [%s]: the child died without a result (%v): %s",
			in.Cfg, show(), runErr, tail))
	}
	tags := []string{tag}
	if malformed {
		tags = append(tags, "envchild-entry-without-equals")
	}
	return driver.Result{Coq: fmt.Sprintf("Fuzz %d", verdict), Kind: "env-child-process", Tags: tags, Nontrivial: malformed, Direct: direct}
}

// ---- generators ----

var encWordPool = []string{"", "", "a", "Z", "9", "_", "-", "foo", "Foo", "FOO", "fOO", "9ab", "a9", "ab9c", "id", "ID", "http", "x y", "a-b", "a_b",
	"é", "éa", "ß", "ǆx", "世", "\u0301", "o'neil", "a.b", "x\x00y", "Ünï", "i", "İ", "ſ", "ﬁn"}

func genWords(r *coqfmt.Rng, tg *textgen.Gen) []string {
	n := r.Intn(6)
	ws := make([]string, n)
	for i := range ws {
		switch x := r.Intn(10); {
		case x < 5:
			ws[i] = coqfmt.Pick(r, encWordPool)
		case x < 8:
			ws[i] = genIdent(r)
			if len(ws[i]) > 5 {
				ws[i] = ws[i][:5]
			}
		default:
			ws[i] = tg.String()
		}
	}
	return ws
}

var ordinaryEnv = []string{"PORT=8080", "HOST=localhost", "NAME=n", "NESTED_LEVEL=3", "NESTED_TAGS=a,b", "TIMEOUT=1s", "APP_PORT=1", "APP_HOST=h",
	"PORT=abc", "NESTED_LEVEL=300", "B=\"k\":\"v\"", "X=true", "NOEQUALS=v", "PATH=/usr/bin", "HOME=/", "TIMEOUT=", "PORT="}

var oddEnv = []string{"NOEQUALS", "=X", "A=B=C", "", "=", "==", "PORT", "HOST", "x", "not a key value pair", "=C:=C:\\", "\xff\xfe", "K\xff=v", "K=\xc3(",
	"é", "é=é", " =", "A= ", "NAME", "NESTED_LEVEL", "APP_PORT", "X", "B"}

func genEnvp(r *coqfmt.Rng) [][]byte {
	var out [][]byte
	if r.Chance(1, 4) { // a map-valued variable with an escape at or beyond the validity boundaries
		q := `"a` + coqfmt.Pick(r, textgen.BoundaryEscapes) + `"`
		out = append(out, []byte("B="+coqfmt.Pick(r, []string{q + `:"v"`, `"k":` + q, q + ":" + q})))
	}
	n := r.Intn(6)
	for i := 0; i < n; i++ {
		out = append(out, []byte(coqfmt.Pick(r, ordinaryEnv)))
	}
	k := r.Intn(4)
	for i := 0; i < k; i++ {
		e := coqfmt.Pick(r, oddEnv)
		if r.Chance(1, 8) {
			e = strings.Repeat(coqfmt.Pick(r, []string{"A", "=", "é", "\xff", "K=v"}), 1+r.Intn(20000))
		}
		pos := r.Intn(len(out) + 1)
		out = append(out[:pos], append([][]byte{[]byte(e)}, out[pos:]...)...)
	}
	return out
}

func extraCorpus(add func(in input)) {
	// empty words reach the encoders through DecodeCasePreservingSnakeCase("foo_") and `dials:""` tags
	for e := 0; e < 6; e++ {
		add(input{K: "enc", E: e, L: []string{"foo", ""}})
		add(input{K: "enc", E: e, L: []string{""}})
		add(input{K: "enc", E: e, L: []string{}})
		add(input{K: "enc", E: e, L: []string{"", "a", "", "É"}})
		add(input{K: "pipe", D: 5, E: e, D2: e, S: "foo_"})
		add(input{K: "pipe", D: 5, E: e, D2: 7, S: "_"})
		add(input{K: "pipe", D: 7, E: e, D2: 6, S: "HTTPServer_ID"})
	}
	for cfg := 0; cfg < nEnvCfgs; cfg++ {
		add(input{K: "envp", Cfg: cfg, Env: [][]byte{[]byte("PORT=1"), []byte("NOEQUALS"), []byte("HOST=h")}})
		add(input{K: "envp", Cfg: cfg, Env: [][]byte{[]byte("=X"), []byte("A=B=C"), []byte(""), []byte("NAME=n")}})
		add(input{K: "envp", Cfg: cfg, Env: [][]byte{}})
	}
	add(input{K: "envp", Cfg: 0, Env: [][]byte{[]byte("x")}})
	add(input{K: "envp", Cfg: 1, Env: [][]byte{[]byte("\xff\xfe"), []byte(strings.Repeat("L", 100000)), []byte("PORT=8080")}})
	add(input{K: "envp", Cfg: 2, Env: [][]byte{[]byte("NOEQUALS=v"), []byte("X=maybe"), []byte("B=k:v")}})
	for _, e := range textgen.BoundaryEscapes {
		add(input{K: "envp", Cfg: 2, Env: [][]byte{[]byte(`B="a` + e + `":"v","k":"b` + e + `"`)}})
	}
}

// ---- compared cases on arbitrary byte strings (UTF-8 front end of the models) ----

func bytesTerm(b []byte) string {
	parts := make([]string, len(b))
	for i, x := range b {
		parts[i] = strconv.Itoa(int(x))
	}
	return coqfmt.List(parts)
}

func runBytes(in input, fail func(entry, what, s string)) driver.Result {
	s := string(in.B)
	valid := "bytes-valid-utf8"
	if !isValidUTF8(s) {
		valid = "bytes-invalid-utf8"
	}
	switch in.K {
	case "decb":
		out, what := call(func() string {
			ws, err := decoders[in.D](s)
			return driver.Outcome(coqfmt.Strs(ws), err, false)
		})
		fail(fmt.Sprintf("decoder %d", in.D), what, s)
		return driver.Result{Coq: fmt.Sprintf("DecB %d %s %s", in.D, bytesTerm(in.B), out), Kind: "decoder-bytes",
			Tags: []string{valid, "decoder-bytes-" + cls(out)}, Nontrivial: len(s) >= 2}
	case "strb":
		t, term := textgen.ParseTy(in.T)
		out, what := call(func() string {
			v, err := parse.String(s, t)
			if err != nil {
				return "(Err 0)"
			}
			return "(Ok " + textgen.Pval(v) + ")"
		})
		fail("parse.String at "+in.T, what, s)
		return driver.Result{Coq: fmt.Sprintf("StrB %s %s %s %s", textgen.Printable(s), term, bytesTerm(in.B), out), Kind: "parse-string-bytes",
			Tags: []string{valid, "parse-string-bytes-" + cls(out)}, Nontrivial: len(s) >= 2}
	case "islb":
		out, what := call(func() string { return intSlice(in.Signed, in.W, s) })
		fail("integral slice parser", what, s)
		return driver.Result{Coq: fmt.Sprintf("IntSlB %s %d %s %s", coqfmt.Bool(in.Signed), in.W, bytesTerm(in.B), out), Kind: "integral-slice-bytes",
			Tags: []string{valid, "integral-slice-bytes-" + cls(out)}, Nontrivial: len(s) >= 2}
	default:
		out, what := call(func() string {
			u, err := strconv.Unquote(s)
			return driver.Outcome(textgen.StrBytes(u), err, false)
		})
		fail("strconv.Unquote", what, s)
		return driver.Result{Coq: fmt.Sprintf("UnqB %s %s", bytesTerm(in.B), out), Kind: "unquote-bytes",
			Tags: []string{valid, "unquote-bytes-" + cls(out)}, Nontrivial: len(s) >= 2}
	}
}

func isValidUTF8(s string) bool { return utf8.ValidString(s) }

var strayBytes = []byte{0x80, 0xbf, 0xc0, 0xc1, 0xc3, 0xe2, 0xed, 0xa0, 0xf0, 0xf4, 0xf5, 0xff, 0xfe, 0xe0, 0x9f, 0x90, 0x8f}

// a short byte string: text of the usual grammars with stray bytes inserted, truncated
// multi-byte sequences, overlong forms and surrogates
func genShortBytes(r *coqfmt.Rng, base string) []byte {
	b := []byte(base)
	k := r.Intn(4)
	for i := 0; i < k; i++ {
		var ins []byte
		switch r.Intn(6) {
		case 0:
			ins = []byte{0xc0, 0x80} // overlong NUL
		case 1:
			ins = []byte{0xed, 0xa0, 0x80} // surrogate
		case 2:
			ins = []byte{0xf4, 0x90, 0x80, 0x80} // above U+10FFFF
		case 3:
			ins = []byte("é")[:1] // truncated
		default:
			ins = []byte{strayBytes[r.Intn(len(strayBytes))]}
		}
		pos := r.Intn(len(b) + 1)
		b = append(b[:pos], append(ins, b[pos:]...)...)
	}
	if r.Chance(1, 6) && len(b) > 0 {
		b = b[:r.Intn(len(b))]
	}
	return b
}

func genBytesCase(r *coqfmt.Rng, tg *textgen.Gen) input {
	switch r.Intn(10) {
	case 0, 1, 2:
		return input{K: "decb", D: r.Intn(8), B: genShortBytes(r, genIdent(r))}
	case 3, 4, 5, 6:
		t := coqfmt.Pick(r, strTypes)
		base := tg.RawText(t)
		if r.Chance(1, 3) {
			base = tg.String()
		}
		return input{K: "strb", T: t, B: genShortBytes(r, base)}
	case 7:
		signed := r.Chance(1, 2)
		return input{K: "islb", Signed: signed, W: r.Intn(5), B: genShortBytes(r, tg.RawText("sl:i8"))}
	default:
		return input{K: "unqb", B: genShortBytes(r, tg.QuotedText())}
	}
}
