package main

// Kind "casex": identifiers and word lists over runes whose ToLower / ToUpper / Title form has a
// DIFFERENT UTF-8 length (Kelvin sign U+212A -> k, Ohm sign U+2126 -> ω, ẞ U+1E9E -> ß,
// İ U+0130 -> i̇, ı, ſ, Ⱥ, Ⱦ, ⱥ, ⱦ, ǅ ...), mixed with ASCII letters, digits, '_' and '-' and placed next
// to word boundaries.  Code that computes byte offsets on one casing of a string and applies them to
// another goes out of range exactly on these.  Every case runs ALL eight decoders on the identifier,
// all six encoders on every decoded word list and on the raw word list, and all decoders again on every
// encoding.  Oracle: returned, no panic, within the deadline.  Exploration (the decoder model is ASCII).

import (
	"fmt"
	"strings"

	cc "github.com/vimeo/dials/tagformat/caseconversion"

	"verifharness/internal/coqfmt"
	"verifharness/internal/driver"
)

// upper/lower/title forms of these differ in encoded length from the rune itself
var shiftRunes = []rune{0x212A, 0x2126, 0x1E9E, 0x0130, 0x0131, 0x017F, 0x023A, 0x023E, 0x2C65, 0x2C66, 0x01C5, 0x01C4, 0x01C6,
	0x0149, 0x00DF, 0xFB01, 0x03A3, 0x0390, 0x1F88, 0x212B, 0x2C6F, 0x0250, 0xA7AA, 0x0266, 0x1E9B}

func runCaseShift(in input, fail func(entry, what, s string)) driver.Result {
	s := in.S
	nOK := 0
	out, what := call(func() string {
		try := func(ws cc.DecodedIdentifier) {
			for _, enc := range encoders {
				e := enc(ws)
				for _, d2 := range decoders {
					_, _ = d2(e)
				}
			}
		}
		for _, d := range decoders {
			ws, err := d(s)
			if err != nil {
				continue
			}
			nOK++
			try(ws)
		}
		// the pieces between '_' and '-' as a raw word list (what a tag author may write)
		try(cc.DecodedIdentifier(strings.FieldsFunc(s, func(r rune) bool { return r == '_' || r == '-' })))
		try(cc.DecodedIdentifier(strings.Split(s, "_")))
		return "ok"
	})
	fail("case decoders/encoders on length-changing case pairs", what, s)
	k := 0
	if what != "" {
		k = 1
	}
	return driver.Result{Coq: fmt.Sprintf("Fuzz %d", k), Kind: "case-length-shift",
		Tags: []string{"casex-" + cls(out), fmt.Sprintf("casex-decoders-ok-%d", nOK)}, Nontrivial: len(s) >= 2}
}

func caseShiftCorpus(add func(in input)) {
	for _, x := range shiftRunes {
		c := string(x)
		for _, s := range []string{c + "A", "a" + c + "B", c + c, c + "_" + c, "A" + c + "_B", "a-" + c + "B", c + "1" + c, "temp" + c + "M",
			c + c + c + "Ab", "x" + c + c, c, "A_" + c + c + "_B", strings.ToUpper(c) + strings.ToLower(c) + "X", "ab" + c + "Cd" + c + "Ef"} {
			add(input{K: "casex", S: s})
		}
	}
}

func genCaseShift(r *coqfmt.Rng) input {
	var sb strings.Builder
	n := 1 + r.Intn(10)
	for i := 0; i < n; i++ {
		switch x := r.Intn(10); {
		case x < 4:
			sb.WriteRune(coqfmt.Pick(r, shiftRunes))
			if r.Chance(1, 2) { // a boundary right behind it
				sb.WriteByte("ABMXZ_-9"[r.Intn(8)])
			}
		case x < 6:
			sb.WriteByte(byte('A' + r.Intn(26)))
		case x < 8:
			sb.WriteByte(byte('a' + r.Intn(26)))
		case x < 9:
			sb.WriteByte("_-_0123456789"[r.Intn(13)])
		default:
			sb.WriteString(coqfmt.Pick(r, initialisms))
		}
	}
	return input{K: "casex", S: sb.String()}
}
