// c18e2e: end-to-end engine of property C18 (defaults < file < environment < flags):
// the three layers come from the MODELS of the file decoders (C13), the environment
// source (C11) and the flag sources (C12), stacked by C01's compose, and are compared
// with what dials.Config / ez.ConfigFileEnvFlag return on the real sources; a
// model-independent expectation (per leaf: the value of the highest source the
// generator assigned it to) decides the verdict.
package main

import (
	"context"
	"encoding/json"
	"fmt"
	"net"
	"os"
	"reflect"
	"sort"
	"strings"
	"time"

	"github.com/vimeo/dials"
	dcue "github.com/vimeo/dials/decoders/cue"
	djson "github.com/vimeo/dials/decoders/json"
	dtoml "github.com/vimeo/dials/decoders/toml"
	dyaml "github.com/vimeo/dials/decoders/yaml"
	"github.com/vimeo/dials/ez"
	"github.com/vimeo/dials/sources/env"
	dflag "github.com/vimeo/dials/sources/flag"
	dpflag "github.com/vimeo/dials/sources/pflag"
	"github.com/vimeo/dials/sources/static"

	"verifharness/internal/cfgdoc"
	"verifharness/internal/coqfmt"
	"verifharness/internal/driver"
	"verifharness/internal/rty"
)

type input struct {
	K     string `json:"k"`
	State uint64 `json:"state"`
	Type  int    `json:"type"`
	Fmt   int    `json:"fmt"`
	Pkg   int    `json:"pkg"`          // 0 std flag, 1 pflag
	Ez    bool   `json:"ez,omitempty"` // through ez.ConfigFileEnvFlag (real file, wrapped decoder)
}

var decoders = []func() dials.Decoder{
	func() dials.Decoder { return &djson.Decoder{} }, func() dials.Decoder { return &dyaml.Decoder{} },
	func() dials.Decoder { return &dtoml.Decoder{} }, func() dials.Decoder { return &dcue.Decoder{} }}
var fmtNames = []string{"json", "yaml", "toml", "cue"}

var (
	tTime = reflect.TypeOf(time.Time{})
	tDur  = reflect.TypeOf(time.Duration(0))
	tIP   = reflect.TypeOf(net.IP(nil))
	tUp   = reflect.TypeOf(rty.TUp{})
	tSet  = reflect.TypeOf(map[string]struct{}(nil))
)

// ---- leaves ----
type leaf struct {
	index []int    // field index path (through pointers to structs)
	tags  []string // dials tags along the path
	typ   reflect.Type
}

func omitted(f reflect.StructField) bool {
	return f.PkgPath != "" || f.Tag.Get("dials") == "-"
}

func isStructNode(t reflect.Type) bool {
	return t.Kind() == reflect.Struct && t != tTime && t != tUp
}

func walk(t reflect.Type, index []int, tags []string, out *[]leaf) {
	for i := 0; i < t.NumField(); i++ {
		f := t.Field(i)
		if omitted(f) {
			continue
		}
		idx := append(append([]int{}, index...), i)
		tg := append(append([]string{}, tags...), f.Tag.Get("dials"))
		ft := f.Type
		if ft.Kind() == reflect.Ptr && isStructNode(ft.Elem()) {
			ft = ft.Elem()
		}
		if isStructNode(ft) {
			walk(ft, idx, tg, out)
			continue
		}
		*out = append(*out, leaf{idx, tg, f.Type})
	}
}

func envName(l leaf) string {
	return strings.ToUpper(strings.ReplaceAll(strings.Join(l.tags, "_"), "-", "_"))
}

// the flag sources join the dials tags along the path with '-' and keep each tag as it is
func flagName(l leaf) string { return strings.Join(l.tags, "-") }

// which sources can carry a leaf of type t (file: the document language has no floats;
// env / flags: text-unmarshalable leaves other than through flags are outside the source models)
func caps(t reflect.Type, wrapped bool) (file, envOK, flagOK bool) {
	if t.Kind() == reflect.Ptr {
		t = t.Elem()
	}
	switch {
	case t == tTime:
		return true, false, false
	case t == tUp, t == tIP:
		return true, false, true
	case t == tSet:
		return wrapped, true, true
	}
	switch t.Kind() {
	case reflect.Float32, reflect.Float64, reflect.Complex64, reflect.Complex128:
		return false, true, true
	}
	return true, true, true
}

// ---- values: one Go value with its spelling for each source ----
type leafVal struct {
	v    reflect.Value // of the leaf's type
	d    *cfgdoc.Doc   // in a document
	text string        // as an environment value / flag argument
}

var srcWord = []string{"dflt", "file", "env", "flag"}
var words = []string{"alpha", "beta", "gamma", "delta", "eps", "zeta", "eta", "theta"}
var durs = []string{"1h30m", "250ms", "45s", "2m0s", "10h", "1ns", "3us", "1h0m1s"}

func genVal(r *coqfmt.Rng, t reflect.Type, src int) leafVal {
	if t.Kind() == reflect.Ptr {
		e := genVal(r, t.Elem(), src)
		p := reflect.New(t.Elem())
		p.Elem().Set(e.v)
		return leafVal{p, e.d, e.text}
	}
	v := reflect.New(t).Elem()
	switch {
	case t == tTime:
		s := fmt.Sprintf("%04d-%02d-%02dT%02d:%02d:%02dZ", 1970+r.Intn(100), 1+r.Intn(12), 1+r.Intn(28), r.Intn(24), r.Intn(60), r.Intn(60))
		if r.Chance(1, 3) {
			s = s[:len(s)-1] + coqfmt.Pick(r, []string{"+02:00", "-07:30", ".5Z"})
		}
		tm, err := time.Parse(time.RFC3339, s)
		if err != nil {
			panic(err)
		}
		v.Set(reflect.ValueOf(tm))
		return leafVal{v, cfgdoc.NT(s), s}
	case t == tUp:
		s := fmt.Sprintf("%s-%d", srcWord[src], r.Intn(1000))
		v.Set(reflect.ValueOf(rty.TUp{S: s}))
		return leafVal{v, cfgdoc.NS(s), s}
	case t == tIP:
		s := fmt.Sprintf("%d.%d.%d.%d", 1+r.Intn(250), r.Intn(256), r.Intn(256), src)
		v.Set(reflect.ValueOf(net.ParseIP(s)))
		return leafVal{v, cfgdoc.NS(s), s}
	case t == tDur:
		s := coqfmt.Pick(r, durs)
		d, _ := time.ParseDuration(s)
		v.SetInt(int64(d))
		if r.Chance(1, 2) {
			return leafVal{v, cfgdoc.NI(int64(d)), s}
		}
		return leafVal{v, cfgdoc.NS(s), s}
	case t == tSet:
		n := 1 + r.Intn(3)
		m := map[string]struct{}{}
		var ds []*cfgdoc.Doc
		var ts []string
		for i := 0; i < n; i++ {
			w := coqfmt.Pick(r, words)
			if _, dup := m[w]; dup {
				continue
			}
			m[w] = struct{}{}
			ds = append(ds, cfgdoc.NS(w))
			ts = append(ts, w)
		}
		v.Set(reflect.ValueOf(m))
		return leafVal{v, cfgdoc.NL(ds...), strings.Join(ts, ",")}
	}
	switch t.Kind() {
	case reflect.Bool:
		b := r.Chance(1, 2)
		v.SetBool(b)
		return leafVal{v, cfgdoc.NB(b), fmt.Sprintf("%v", b)}
	case reflect.String:
		s := fmt.Sprintf("%s %s/%d", srcWord[src], coqfmt.Pick(r, words), r.Intn(1000))
		v.SetString(s)
		return leafVal{v, cfgdoc.NS(s), s}
	case reflect.Int, reflect.Int8, reflect.Int16, reflect.Int32, reflect.Int64:
		n := int64(r.Intn(100)) - 20 + int64(src)
		if t.Bits() > 8 && r.Chance(1, 3) {
			n = (int64(1)<<(uint(t.Bits())-1) - 1) - int64(r.Intn(50))
		}
		v.SetInt(n)
		return leafVal{v, cfgdoc.NI(n), fmt.Sprintf("%d", n)}
	case reflect.Uint, reflect.Uint8, reflect.Uint16, reflect.Uint32, reflect.Uint64:
		n := uint64(r.Intn(200)) + uint64(src)
		if t.Bits() > 8 && r.Chance(1, 3) {
			n = (uint64(1)<<(uint(t.Bits())-1) - 1) - uint64(r.Intn(50))
		}
		v.SetUint(n)
		return leafVal{v, cfgdoc.NU(n), fmt.Sprintf("%d", n)}
	case reflect.Float32, reflect.Float64:
		f := float64(r.Intn(4000)-2000) / 4
		v.SetFloat(f)
		return leafVal{v, nil, fmt.Sprintf("%v", f)}
	case reflect.Complex64, reflect.Complex128:
		re, im := float64(r.Intn(400)-200)/4, float64(r.Intn(400))/4
		v.SetComplex(complex(re, im))
		return leafVal{v, nil, fmt.Sprintf("(%v+%vi)", re, im)}
	case reflect.Slice:
		n := 1 + r.Intn(3)
		sl := reflect.MakeSlice(t, 0, n)
		var ds []*cfgdoc.Doc
		var ts []string
		for i := 0; i < n; i++ {
			var e leafVal
			if t.Elem().Kind() == reflect.String {
				w := fmt.Sprintf("%s%d", coqfmt.Pick(r, words), r.Intn(10))
				ev := reflect.New(t.Elem()).Elem()
				ev.SetString(w)
				e = leafVal{ev, cfgdoc.NS(w), w}
			} else {
				e = genVal(r, t.Elem(), src)
			}
			sl = reflect.Append(sl, e.v)
			ds = append(ds, e.d)
			ts = append(ts, e.text)
		}
		v.Set(sl)
		return leafVal{v, cfgdoc.NL(ds...), strings.Join(ts, ",")}
	case reflect.Map:
		n := 1 + r.Intn(3)
		m := reflect.MakeMap(t)
		var kvs []cfgdoc.KV
		var ts []string
		for i := 0; i < n; i++ {
			k := fmt.Sprintf("k%d", i)
			w := fmt.Sprintf("%s%d", coqfmt.Pick(r, words), src)
			if t.Elem().Kind() == reflect.Slice {
				m.SetMapIndex(reflect.ValueOf(k), reflect.ValueOf([]string{w}))
				kvs = append(kvs, cfgdoc.KV{K: k, V: cfgdoc.NL(cfgdoc.NS(w))})
			} else {
				m.SetMapIndex(reflect.ValueOf(k), reflect.ValueOf(w))
				kvs = append(kvs, cfgdoc.KV{K: k, V: cfgdoc.NS(w)})
			}
			ts = append(ts, k+":"+w)
		}
		v.Set(m)
		return leafVal{v, cfgdoc.NM(kvs...), strings.Join(ts, ",")}
	}
	panic("genVal: " + t.String())
}

// a text / document node the leaf's type cannot take
func badVal(r *coqfmt.Rng, t reflect.Type) (d *cfgdoc.Doc, text string, ok bool) {
	if t.Kind() == reflect.Ptr {
		t = t.Elem()
	}
	switch {
	case t == tDur:
		w := coqfmt.Pick(r, []string{"soon", "1500", "-20"}) // a quoted number is not a duration either
		return cfgdoc.NS(w), w, true
	case t == tTime:
		return cfgdoc.NT("2021-02-30T00:00:00Z"), "", true
	case t == tIP:
		return cfgdoc.NS("1.2.3"), "1.2.3", true
	}
	switch t.Kind() {
	case reflect.Bool:
		return cfgdoc.NS("perhaps"), "perhaps", true
	case reflect.Int8:
		return cfgdoc.NI(300), "300", true
	case reflect.Uint8:
		return cfgdoc.NI(-1), "-1", true
	case reflect.Int, reflect.Int16, reflect.Int32, reflect.Int64, reflect.Uint, reflect.Uint16, reflect.Uint32, reflect.Uint64:
		return cfgdoc.NS("many"), "many", true
	case reflect.Float32, reflect.Float64:
		return nil, "1.5.5", true
	}
	return nil, "", false
}

// set puts v at leaf l of the struct value root, allocating pointer structs on the way
func set(root reflect.Value, l leaf, v reflect.Value) {
	cur := root
	for _, i := range l.index {
		if cur.Kind() == reflect.Ptr {
			if cur.IsNil() {
				cur.Set(reflect.New(cur.Type().Elem()))
			}
			cur = cur.Elem()
		}
		cur = cur.Field(i)
	}
	cur.Set(v)
}

// docPut puts d under the tag path of l in the document tree m
func docPut(m *cfgdoc.Doc, tags []string, d *cfgdoc.Doc) {
	if len(tags) == 1 {
		m.KVs = append(m.KVs, cfgdoc.KV{K: tags[0], V: d})
		return
	}
	for i := range m.KVs {
		if m.KVs[i].K == tags[0] && m.KVs[i].V.Kind == cfgdoc.Map {
			docPut(m.KVs[i].V, tags[1:], d)
			return
		}
	}
	sub := cfgdoc.NM()
	m.KVs = append(m.KVs, cfgdoc.KV{K: tags[0], V: sub})
	docPut(sub, tags[1:], d)
}

func shuffle(r *coqfmt.Rng, d *cfgdoc.Doc) {
	for i := len(d.KVs) - 1; i > 0; i-- {
		j := r.Intn(i + 1)
		d.KVs[i], d.KVs[j] = d.KVs[j], d.KVs[i]
	}
	for _, e := range d.KVs {
		if e.V.Kind == cfgdoc.Map {
			shuffle(r, e.V)
		}
	}
}

func newFlagSet(pkg int, tmpl interface{}, args []string) (dials.Source, error) {
	if pkg == 0 {
		s, err := dflag.NewSetWithArgs(dflag.DefaultFlagNameConfig(), tmpl, args)
		if err != nil {
			return nil, err
		}
		s.Flags.SetOutput(discard{})
		return s, nil
	}
	s, err := dpflag.NewSetWithArgs(dpflag.DefaultFlagNameConfig(), tmpl, args)
	if err != nil {
		return nil, err
	}
	s.Flags.SetOutput(discard{})
	return s, nil
}

type discard struct{}

func (discard) Write(b []byte) (int, error) { return len(b), nil }

type cfgPtr[T any] interface {
	*T
	ConfigPath() (string, bool)
}

func runCase[T any, TP cfgPtr[T]](in input) driver.Result {
	r := coqfmt.NewRng(in.State)
	var zero T
	typ := reflect.TypeOf(zero)
	var leaves []leaf
	walk(typ, nil, nil, &leaves)

	def := new(T)
	exp := new(T)
	defV, expV := reflect.ValueOf(def).Elem(), reflect.ValueOf(exp).Elem()

	// pointer structs of the defaults: nil or allocated
	var alloc func(v reflect.Value)
	alloc = func(v reflect.Value) {
		for i := 0; i < v.NumField(); i++ {
			f := v.Type().Field(i)
			if omitted(f) {
				continue
			}
			fv := v.Field(i)
			if f.Type.Kind() == reflect.Ptr && isStructNode(f.Type.Elem()) {
				if r.Chance(1, 2) {
					continue
				}
				fv.Set(reflect.New(f.Type.Elem()))
				fv = fv.Elem()
			}
			if isStructNode(fv.Type()) {
				alloc(fv)
			}
		}
	}
	alloc(defV)

	docTree := cfgdoc.NM()
	envm := map[string]string{}
	var occs [][2]string
	cfgName := "e2e_cfg." + fmtNames[in.Fmt]
	bad := -1 // the source that gets one unusable value (an error is expected then)
	if r.Chance(1, 8) {
		bad = 1 + r.Intn(3)
	}
	planted := false
	nSrc := [4]int{}
	multi := 0
	type asg struct {
		l    leaf
		vals [4]*leafVal
	}
	var asgs []asg
	for _, l := range leaves {
		fileOK, envOK, flagOK := caps(l.typ, in.Ez)
		ok := [4]bool{true, fileOK, envOK, flagOK}
		a := asg{l: l}
		isPath := len(l.tags) == 1 && l.tags[0] == "cfgfile"
		if isPath {
			if !in.Ez {
				continue // an unset string leaf
			}
			// the file's path comes from one of: defaults, environment, flags
			src := coqfmt.Pick(r, []int{0, 2, 3})
			v := reflect.New(l.typ).Elem()
			v.SetString(cfgName)
			a.vals[src] = &leafVal{v, nil, cfgName}
		} else {
			for s := 0; s < 4; s++ {
				if ok[s] && r.Chance(2, 5) {
					lv := genVal(r, l.typ, s)
					a.vals[s] = &lv
				}
			}
		}
		n := 0
		for s := 0; s < 4; s++ {
			if a.vals[s] != nil {
				n++
				nSrc[s]++
			}
		}
		if n >= 2 {
			multi++
		}
		asgs = append(asgs, a)
	}
	// defaults first (the expectation starts from them), then the sources
	for _, a := range asgs {
		if a.vals[0] != nil {
			set(defV, a.l, a.vals[0].v)
		}
	}
	expV.Set(reflect.ValueOf(deepCopy(def)).Elem())
	for _, a := range asgs {
		top := -1
		for s := 1; s < 4; s++ {
			if a.vals[s] != nil {
				top = s
			}
		}
		if top > 0 {
			set(expV, a.l, reflect.ValueOf(deepCopyVal(a.vals[top].v)))
		}
		for s := 1; s < 4; s++ {
			lv := a.vals[s]
			if lv == nil {
				continue
			}
			d, text := lv.d, lv.text
			if s == bad && !planted {
				if bd, bt, ok := badVal(r, a.l.typ); ok && (s != 1 || bd != nil) && (s == 1 || bt != "") {
					d, text, planted = bd, bt, true
				}
			}
			switch s {
			case 1:
				docPut(docTree, a.l.tags, d)
			case 2:
				envm[envName(a.l)] = text
			case 3:
				occs = append(occs, [2]string{flagName(a.l), text})
			}
		}
	}
	if r.Chance(1, 3) {
		docTree.KVs = append(docTree.KVs, cfgdoc.KV{K: "zz_unknown", V: cfgdoc.NI(int64(r.Intn(9)))})
	}
	shuffle(r, docTree)
	for i := len(occs) - 1; i > 0; i-- {
		j := r.Intn(i + 1)
		occs[i], occs[j] = occs[j], occs[i]
	}
	if r.Chance(1, 6) {
		envm["ZZ_DECOY_"+envName(leaves[0])] = "decoy"
	}

	cfgdoc.Sp = nil
	if st := r.U64(); st%3 != 0 {
		cfgdoc.Sp = coqfmt.NewRng(st)
	}
	text := cfgdoc.Render(in.Fmt, docTree)

	args := make([]string, len(occs))
	dash := "-"
	if in.Pkg == 1 {
		dash = "--"
	}
	for i, o := range occs {
		args[i] = dash + o[0] + "=" + o[1]
	}

	// ---- the real thing ----
	for k, v := range envm {
		os.Setenv(k, v)
	}
	view, err, panicked := func() (view *T, err error, panicked bool) {
		defer func() {
			if p := recover(); p != nil {
				panicked, err = true, fmt.Errorf("%v", p)
			}
		}()
		fset, err := newFlagSet(in.Pkg, deepCopy(def), args)
		if err != nil {
			return nil, err, false
		}
		ctx, cancel := context.WithCancel(context.Background())
		defer cancel()
		var d *dials.Dials[T]
		if in.Ez {
			if werr := os.WriteFile(cfgName, []byte(text), 0o600); werr != nil {
				panic(werr)
			}
			defer os.Remove(cfgName)
			dec := decoders[in.Fmt]()
			d, err = ez.ConfigFileEnvFlag[T, TP](ctx, TP(deepCopy(def)), func(string) dials.Decoder { return dec }, ez.Params[T]{FlagSource: fset})
		} else {
			d, err = dials.Config(ctx, deepCopy(def), &static.StringSource{Data: text, Decoder: decoders[in.Fmt]()}, &env.Source{}, fset)
		}
		if err != nil {
			return nil, err, false
		}
		return d.View(), nil, false
	}()
	for k := range envm {
		os.Unsetenv(k)
	}

	if debug {
		fmt.Printf("---- %s (ez=%v pkg=%d)\n%s\n---- env %v\n---- args %v\n=> panic=%v err=%v\n", fmtNames[in.Fmt], in.Ez, in.Pkg, text, envm, args, panicked, err)
		fmt.Printf("defaults: %+v\nexpected: %+v (error expected: %v)\n", *def, *exp, planted)
		if view != nil {
			fmt.Printf("view:     %+v\n", *view)
		}
	}
	okTerm := ""
	if err == nil && !panicked {
		if hasHugeFloat(reflect.ValueOf(view).Elem()) {
			return driver.Result{Coq: "E2ESkip", Kind: "skipped-huge-float"}
		}
		okTerm = rty.TimePrinter.StructFieldsTerm(reflect.ValueOf(view).Elem())
	}
	expTerm := "(Ok " + rty.TimePrinter.StructFieldsTerm(expV) + ")"
	if planted {
		expTerm = "(Err 0)"
	}
	keys := make([]string, 0, len(envm))
	for k := range envm {
		keys = append(keys, k)
	}
	sort.Strings(keys)
	envParts := make([]string, len(keys))
	for i, k := range keys {
		envParts[i] = "(" + coqfmt.Str(k) + ", " + coqfmt.Str(envm[k]) + ")"
	}
	occParts := make([]string, len(occs))
	for i, o := range occs {
		occParts[i] = "(" + coqfmt.Str(o[0]) + ", " + coqfmt.Str(o[1]) + ")"
	}
	tags := []string{fmt.Sprintf("type-T%d", in.Type), "file-" + fmtNames[in.Fmt], fmt.Sprintf("flagpkg-%d", in.Pkg)}
	if in.Ez {
		tags = append(tags, "through-ez")
	} else {
		tags = append(tags, "through-dials-config")
	}
	if planted {
		tags = append(tags, "bad-value-in-"+srcWord[bad])
	}
	switch {
	case panicked:
		tags = append(tags, "impl-panic")
	case err != nil:
		tags = append(tags, "impl-err")
		if !planted {
			tags = append(tags, "unplanned-error")
		}
	default:
		tags = append(tags, "impl-ok")
	}
	if cfgdoc.Sp != nil {
		tags = append(tags, "alternative-spelling")
	}
	var direct []string
	if panicked {
		direct = append(direct, fmt.Sprintf("panic: %v", err))
	}
	return driver.Result{
		Coq: fmt.Sprintf("E2E %s %d %d %s %s %s %s %s %s %s", coqfmt.Bool(in.Ez), in.Fmt, in.Pkg,
			rty.TimePrinter.FieldsTerm(typ), rty.TimePrinter.StructFieldsTerm(defV), docTree.Term(),
			coqfmt.List(envParts), coqfmt.List(occParts), expTerm, driver.Outcome(okTerm, err, panicked)),
		Kind:       "e2e",
		Nontrivial: nSrc[1] >= 1 && nSrc[2] >= 1 && nSrc[3] >= 1 && multi >= 1,
		Tags:       tags,
		Direct:     direct,
	}
}

func hugeFinite(f float64) bool { return f > 1e15 || f < -1e15 }

func hasHugeFloat(v reflect.Value) bool {
	switch v.Kind() {
	case reflect.Float32, reflect.Float64:
		return hugeFinite(v.Float())
	case reflect.Complex64, reflect.Complex128:
		return hugeFinite(real(v.Complex())) || hugeFinite(imag(v.Complex()))
	case reflect.Ptr:
		return !v.IsNil() && hasHugeFloat(v.Elem())
	case reflect.Struct:
		if v.Type() == tTime {
			return false
		}
		for i := 0; i < v.NumField(); i++ {
			if hasHugeFloat(v.Field(i)) {
				return true
			}
		}
	}
	return false
}

// deepCopy: through JSON is not possible (unexported fields, time); a reflective copy of the shapes used here
func deepCopy[T any](p *T) *T {
	out := new(T)
	reflect.ValueOf(out).Elem().Set(reflect.ValueOf(deepCopyVal(reflect.ValueOf(p).Elem())))
	return out
}

func deepCopyVal(v reflect.Value) interface{} {
	return copyRec(v).Interface()
}

func copyRec(v reflect.Value) reflect.Value {
	out := reflect.New(v.Type()).Elem()
	switch v.Kind() {
	case reflect.Ptr:
		if !v.IsNil() {
			p := reflect.New(v.Type().Elem())
			p.Elem().Set(copyRec(v.Elem()))
			out.Set(p)
		}
	case reflect.Struct:
		if v.Type() == tTime {
			out.Set(v)
			break
		}
		for i := 0; i < v.NumField(); i++ {
			if v.Type().Field(i).PkgPath != "" {
				continue
			}
			out.Field(i).Set(copyRec(v.Field(i)))
		}
	case reflect.Slice:
		if !v.IsNil() {
			s := reflect.MakeSlice(v.Type(), v.Len(), v.Len())
			for i := 0; i < v.Len(); i++ {
				s.Index(i).Set(copyRec(v.Index(i)))
			}
			out.Set(s)
		}
	case reflect.Map:
		if !v.IsNil() {
			m := reflect.MakeMap(v.Type())
			it := v.MapRange()
			for it.Next() {
				m.SetMapIndex(it.Key(), copyRec(it.Value()))
			}
			out.Set(m)
		}
	default:
		out.Set(v)
	}
	return out
}

var runners = []func(input) driver.Result{
	runCase[T0, *T0], runCase[T1, *T1], runCase[T2, *T2], runCase[T3, *T3], runCase[T4, *T4],
	runCase[T5, *T5], runCase[T6, *T6], runCase[T7, *T7], runCase[T8, *T8], runCase[T9, *T9],
}

func run(raw json.RawMessage) driver.Result {
	var in input
	if err := json.Unmarshal(raw, &in); err != nil {
		panic(err)
	}
	return runners[in.Type](in)
}

func gen(r *coqfmt.Rng, n int, tier string) []json.RawMessage {
	var out []json.RawMessage
	for i := 0; i < n; i++ {
		b, _ := json.Marshal(input{K: "e2e", State: r.U64(), Type: r.Intn(len(runners)), Fmt: r.Intn(4), Pkg: r.Intn(2), Ez: r.Chance(1, 3)})
		out = append(out, b)
	}
	return out
}

var debug bool

func main() {
	// real files (ez) are written under a scratch directory, addressed by relative names
	scratch, err := os.MkdirTemp("/var/tmp", "c18e2e-")
	if err != nil {
		panic(err)
	}
	if err := os.Chdir(scratch); err != nil {
		panic(err)
	}
	defer os.RemoveAll(scratch)
	os.Clearenv()
	if len(os.Args) > 2 && os.Args[1] == "dbg" {
		debug = true
		fmt.Println(run(json.RawMessage(os.Args[2])).Coq[:60])
		os.RemoveAll(scratch)
		return
	}
	driver.Main(driver.Engine{
		Prop: "C18", CoqImport: "Dials.Check.C18E2ECheck", CoqRun: "run_cases",
		Rule: "a palette of ten declared config types (flat scalars of many widths, nested / pointer / embedded / embedded-pointer structs up to three levels, declared scalar types, user pointers, slices, maps, map of lists, set, durations, time.Time, net.IP, a TextUnmarshaler struct, floats, a complex number, skipped and unexported fields; every field tagged with ordinary words); per case: random defaults (pointer structs nil or allocated), every leaf assigned to a random subset of {default, file, environment, flag} (as far as the source can carry its type) with a value of its own per source, the file rendered in a random one of JSON / YAML / TOML / Cue by the C13 printers (two in three in an alternative spelling), real env.Source on the process environment, real flag or pflag set (NewSetWithArgs), decoder through static.StringSource and dials.Config(defaults, file, env, flags), or (1/3) a real file through ez.ConfigFileEnvFlag with the file's path coming from defaults, environment or flags; 1/8 of the cases plant one unusable value in one source (an error is expected); compared inside Coq with (a) the per-leaf expectation the generator computes by name from its assignment (highest assigned source wins; verdict 3) and (b) C01's compose over the layers computed by the C13, C11 and C12 MODELS from the document, the environment and the flag occurrences (verdict 1); non-trivial: at least one leaf in each of file, environment and flags and one leaf assigned to two or more sources",
		Gen:  gen, Run: run,
	})
}
