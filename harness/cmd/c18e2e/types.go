package main

// The palette of declared config types of the end-to-end engine (dials.Config and
// ez.ConfigFileEnvFlag are generic, so the types are declared; values, assignments,
// formats, spellings and flag packages are random).  Every field carries a dials tag
// made of ordinary lower-case words (the file decoders are keyed by it and the
// environment / flag names are derived from it); every type has a `cfgfile` leaf and
// a ConfigPath method so that it can go through ez.

import (
	"net"
	"time"

	"verifharness/internal/rty"
)

type Sub struct {
	Port    int16         `dials:"port"`
	Host    string        `dials:"host"`
	Timeout time.Duration `dials:"timeout"`
}

type Limits struct {
	MaxConns uint32  `dials:"max_conns"`
	Ratio    float64 `dials:"ratio"`
	Burst    *int    `dials:"burst"`
}

// flat scalars of many widths
type T0 struct {
	Name    string        `dials:"name"`
	Debug   bool          `dials:"debug"`
	Count   int           `dials:"count"`
	Small   int8          `dials:"small"`
	Big     uint64        `dials:"big"`
	Wait    time.Duration `dials:"wait"`
	Ratio   float32       `dials:"ratio"`
	CfgFile string        `dials:"cfgfile"`
}

// nested struct, pointer to struct
type T1 struct {
	Server  Sub    `dials:"server"`
	Backup  *Sub   `dials:"backup"`
	Level   uint8  `dials:"log-level"`
	CfgFile string `dials:"cfgfile"`
}

// embedded struct (tagged), slices, maps
type T2 struct {
	Sub     `dials:"base"`
	Hosts   []string          `dials:"hosts"`
	Weights []int64           `dials:"weights"`
	Labels  map[string]string `dials:"labels"`
	CfgFile string            `dials:"cfgfile"`
}

// declared scalar types, user pointers
type T3 struct {
	Level   rty.NLevel `dials:"level"`
	Who     rty.NName  `dials:"who"`
	Total   rty.NCount `dials:"total"`
	Opt     *int32     `dials:"opt"`
	Alias   *string    `dials:"alias"`
	On      *bool      `dials:"on"`
	CfgFile string     `dials:"cfgfile"`
}

// TextUnmarshaler leaves, time, map of lists
type T4 struct {
	Start   time.Time           `dials:"start"`
	Addr    net.IP              `dials:"addr"`
	Owner   rty.TUp             `dials:"owner"`
	Routes  map[string][]string `dials:"routes"`
	Retry   uint16              `dials:"retry"`
	CfgFile string              `dials:"cfgfile"`
}

// a set, floats, a complex number
type T5 struct {
	Features map[string]struct{} `dials:"features"`
	Scale    float64             `dials:"scale"`
	Phase    complex128          `dials:"phase"`
	Delta    int32               `dials:"delta"`
	Mask     uint                `dials:"mask"`
	CfgFile  string              `dials:"cfgfile"`
}

// three levels, tags of several words, pointer inside pointer struct
type Pool struct {
	Limits  Limits        `dials:"limits"`
	Spare   *Limits       `dials:"spare_limits"`
	IdleFor time.Duration `dials:"idle_for"`
}

type T6 struct {
	DB      Pool   `dials:"db"`
	Cache   *Pool  `dials:"cache"`
	Region  string `dials:"region"`
	CfgFile string `dials:"cfgfile"`
}

// skipped fields (unexported, dials:"-") between the leaves
type T7 struct {
	First   int64 `dials:"first"`
	hidden  int
	Skipped string `dials:"-"`
	Second  uint8  `dials:"second"`
	Inner   struct {
		internal bool
		Flag     bool   `dials:"flag"`
		Note     string `dials:"note"`
	} `dials:"inner"`
	CfgFile string `dials:"cfgfile"`
}

// embedded pointer struct next to a pointer struct of the same type
type T8 struct {
	*Limits `dials:"own"`
	Other   *Limits       `dials:"other"`
	Tags    []string      `dials:"tags"`
	Every   time.Duration `dials:"every"`
	CfgFile string        `dials:"cfgfile"`
}

// everything at once
type T9 struct {
	Sub     `dials:"listen"`
	Pool    *Pool               `dials:"pool"`
	Names   []string            `dials:"names"`
	Env     map[string]string   `dials:"env"`
	Since   *time.Time          `dials:"since"`
	Peer    net.IP              `dials:"peer"`
	Groups  map[string][]string `dials:"groups"`
	Verbose bool                `dials:"verbose"`
	CfgFile string              `dials:"cfgfile"`
}

func path(s string) (string, bool) { return s, s != "" }

func (c *T0) ConfigPath() (string, bool) { return path(c.CfgFile) }
func (c *T1) ConfigPath() (string, bool) { return path(c.CfgFile) }
func (c *T2) ConfigPath() (string, bool) { return path(c.CfgFile) }
func (c *T3) ConfigPath() (string, bool) { return path(c.CfgFile) }
func (c *T4) ConfigPath() (string, bool) { return path(c.CfgFile) }
func (c *T5) ConfigPath() (string, bool) { return path(c.CfgFile) }
func (c *T6) ConfigPath() (string, bool) { return path(c.CfgFile) }
func (c *T7) ConfigPath() (string, bool) { return path(c.CfgFile) }
func (c *T8) ConfigPath() (string, bool) { return path(c.CfgFile) }
func (c *T9) ConfigPath() (string, bool) { return path(c.CfgFile) }
