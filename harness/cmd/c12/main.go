// c12: correspondence harness for the two flag sources (property C12).
package main

import (
	"context"
	"encoding/csv"
	"encoding/json"
	stdflag "flag"
	"fmt"
	"net"
	"reflect"
	"sort"
	"strconv"
	"strings"
	"time"

	"github.com/spf13/pflag"
	"github.com/vimeo/dials"
	"github.com/vimeo/dials/ptrify"
	dflag "github.com/vimeo/dials/sources/flag"
	dpflag "github.com/vimeo/dials/sources/pflag"
	cc "github.com/vimeo/dials/tagformat/caseconversion"

	"verifharness/internal/coqfmt"
	"verifharness/internal/driver"
	"verifharness/internal/initsrc"
	"verifharness/internal/rty"
)

type input struct {
	K     string `json:"k"`
	State uint64 `json:"state"`
	Depth int    `json:"depth"`
	Width int    `json:"width"`
	Pkg   int    `json:"pkg"` // 0 std flag, 1 pflag
}

var inits []string

var (
	tDuration = reflect.TypeOf(time.Duration(0))
	tIP       = reflect.TypeOf(net.IP(nil))
)

var scalars = []reflect.Type{
	reflect.TypeOf(""), reflect.TypeOf(false), reflect.TypeOf(int(0)), reflect.TypeOf(int8(0)), reflect.TypeOf(int16(0)),
	reflect.TypeOf(int32(0)), reflect.TypeOf(int64(0)), reflect.TypeOf(uint(0)), reflect.TypeOf(uint8(0)),
	reflect.TypeOf(uint16(0)), reflect.TypeOf(uint32(0)), reflect.TypeOf(uint64(0)), reflect.TypeOf(uintptr(0)), tDuration,
	reflect.TypeOf(float32(0)), reflect.TypeOf(float64(0)), reflect.TypeOf(complex64(0)), reflect.TypeOf(complex128(0)),
}

func init() { scalars = append(scalars, rty.NamedScalars()...) } // a declared type of every scalar kind

var intSlices = []reflect.Type{
	reflect.TypeOf([]int(nil)), reflect.TypeOf([]int8(nil)), reflect.TypeOf([]int16(nil)), reflect.TypeOf([]int32(nil)),
	reflect.TypeOf([]int64(nil)), reflect.TypeOf([]uint(nil)), reflect.TypeOf([]uint8(nil)), reflect.TypeOf([]uint16(nil)),
	reflect.TypeOf([]uint32(nil)), reflect.TypeOf([]uint64(nil)),
}

var tTime = reflect.TypeOf(time.Time{})

// setTimes gives the time.Time fields of a template value (GenValue leaves them zero) an instant,
// mostly with a sub-second part.
func setTimes(r *coqfmt.Rng, v reflect.Value) {
	switch v.Kind() {
	case reflect.Ptr:
		if !v.IsNil() {
			setTimes(r, v.Elem())
		}
	case reflect.Struct:
		if v.Type() == tTime {
			if v.CanSet() && !r.Chance(1, 5) {
				tm := time.Unix(int64(r.Intn(2000000000)), 0).UTC()
				if !r.Chance(1, 4) {
					tm = tm.Add(time.Duration(1 + r.Intn(999999999)))
				}
				if r.Chance(1, 3) {
					tm = tm.In(time.FixedZone("", (r.Intn(27)-12)*3600+coqfmt.Pick(r, []int{0, 0, 1800})))
				}
				v.Set(reflect.ValueOf(tm))
			}
			return
		}
		for i := 0; i < v.NumField(); i++ {
			if v.Type().Field(i).PkgPath == "" {
				setTimes(r, v.Field(i))
			}
		}
	}
}

func leafPalette(r *coqfmt.Rng) reflect.Type {
	tup, tuv := rty.TextUTypes()
	switch x := r.Intn(27); {
	case x >= 25:
		return coqfmt.Pick(r, rty.EnumTypes()) // a TextUnmarshaler of SCALAR kind: its text is its UnmarshalText's, not the kind's
	case x == 24:
		return tTime // std: flaghelper.TimeWrapper; pflag: the MarshalWrapper
	case x < 10:
		return coqfmt.Pick(r, scalars)
	case x == 10:
		return reflect.PtrTo(coqfmt.Pick(r, scalars)) // user-declared pointer
	case x == 11:
		return coqfmt.Pick(r, []reflect.Type{reflect.TypeOf(float64(0)), reflect.TypeOf(float32(0)), reflect.TypeOf(complex128(0)), reflect.TypeOf(complex64(0))})
	case x == 12 || x == 13:
		return reflect.TypeOf([]string(nil))
	case x == 14 || x == 15:
		return coqfmt.Pick(r, intSlices)
	case x == 16:
		return reflect.TypeOf(map[string]string(nil))
	case x == 17:
		return reflect.TypeOf(map[string]struct{}(nil))
	case x == 18:
		return reflect.TypeOf(map[string][]string(nil))
	case x == 19:
		return coqfmt.Pick(r, []reflect.Type{tup, tup, tuv, reflect.PtrTo(tup)})
	case x == 20:
		return tIP
	case x == 21: // kinds no flag is registered for
		return coqfmt.Pick(r, []reflect.Type{reflect.TypeOf([]float64(nil)), reflect.TypeOf(map[string]int(nil)),
			reflect.ArrayOf(2, reflect.TypeOf(0)), reflect.TypeOf(rty.NStrs(nil)), reflect.TypeOf([]bool(nil))})
	default:
		return coqfmt.Pick(r, scalars)
	}
}

var nameEncs = []cc.EncodeCasingFunc{cc.EncodeUpperCamelCase, cc.EncodeCasePreservingSnakeCase}
var tagEncs = []cc.EncodeCasingFunc{cc.EncodeKebabCase, cc.EncodeLowerSnakeCase, cc.EncodeCasePreservingSnakeCase,
	cc.EncodeUpperSnakeCase, cc.EncodeUpperCamelCase}

// ---- uniform view of the two packages ----

type flagInfo struct {
	name     string
	defValue string
	vtype    string // dynamic type of the flag's Value (std) or Value.Type() (pflag)
	inner    string // for MarshalWrapper: the wrapped type
}

type source interface {
	Value(context.Context, *dials.Type) (reflect.Value, error)
}

func build(pkg int, ne, te int, tmpl interface{}, args []string) (src source, infos []flagInfo, err error, panicked bool) {
	defer func() {
		if r := recover(); r != nil {
			panicked = true
		}
	}()
	if pkg == 0 {
		s, e := dflag.NewSetWithArgs(&dflag.NameConfig{FieldNameEncodeCasing: nameEncs[ne], TagEncodeCasing: tagEncs[te]}, tmpl, args)
		if e != nil {
			return nil, nil, e, false
		}
		s.Flags.SetOutput(discard{})
		s.Flags.VisitAll(func(f *stdflag.Flag) {
			fi := flagInfo{name: f.Name, defValue: f.DefValue, vtype: reflect.TypeOf(f.Value).String()}
			if g, ok := f.Value.(stdflag.Getter); ok && strings.HasSuffix(fi.vtype, "MarshalWrapper") {
				fi.inner = reflect.TypeOf(g.Get()).String()
			}
			infos = append(infos, fi)
		})
		return s, infos, nil, false
	}
	s, e := dpflag.NewSetWithArgs(&dpflag.NameConfig{FieldNameEncodeCasing: nameEncs[ne], TagEncodeCasing: tagEncs[te]}, tmpl, args)
	if e != nil {
		return nil, nil, e, false
	}
	s.Flags.SetOutput(discard{})
	s.Flags.VisitAll(func(f *pflag.Flag) {
		fi := flagInfo{name: f.Name, defValue: f.DefValue, vtype: "p:" + f.Value.Type()}
		infos = append(infos, fi)
	})
	return s, infos, nil, false
}

type discard struct{}

func (discard) Write(b []byte) (int, error) { return len(b), nil }

// ---- canonical rendering of an advertised default ----

func fbits(f float64) int64 { return int64(f * 1024) }

func quotedList(s string) ([]string, bool) {
	var out []string
	for s != "" {
		q, err := strconv.QuotedPrefix(s)
		if err != nil {
			return nil, false
		}
		u, err := strconv.Unquote(q)
		if err != nil {
			return nil, false
		}
		out = append(out, u)
		s = s[len(q):]
		if s != "" {
			if s[0] != ',' && s[0] != ':' {
				return nil, false
			}
			out = append(out, string(s[0]))
			s = s[1:]
		}
	}
	return out, true
}

func vstr(s string) string { return "(VStr " + coqfmt.Str(s) + ")" }

func strList(ss []string) string {
	parts := make([]string, len(ss))
	for i, s := range ss {
		parts[i] = vstr(s)
	}
	return "(VList " + coqfmt.List(parts) + ")"
}

func intList(s string, signed bool) (string, bool) {
	if s == "" {
		return "(VList [])", true
	}
	var parts []string
	for _, p := range strings.Split(s, ",") {
		if signed {
			n, err := strconv.ParseInt(p, 10, 64)
			if err != nil {
				return "", false
			}
			parts = append(parts, fmt.Sprintf("(VInt (%d)%%Z)", n))
		} else {
			n, err := strconv.ParseUint(p, 10, 64)
			if err != nil {
				return "", false
			}
			parts = append(parts, fmt.Sprintf("(VInt %d%%Z)", n))
		}
	}
	return "(VList " + coqfmt.List(parts) + ")", true
}

// items of a quoted list without the separators
func quotedItems(s string) ([]string, []string, bool) {
	toks, ok := quotedList(s)
	if !ok {
		return nil, nil, false
	}
	var items, seps []string
	for i, t := range toks {
		if i%2 == 0 {
			items = append(items, t)
		} else {
			seps = append(seps, t)
		}
	}
	return items, seps, true
}

func mapTerm(kvs map[string]string) string {
	keys := make([]string, 0, len(kvs))
	for k := range kvs {
		keys = append(keys, k)
	}
	sort.Strings(keys)
	parts := make([]string, len(keys))
	for i, k := range keys {
		parts[i] = "(" + vstr(k) + ", " + kvs[k] + ")"
	}
	return "(VMap " + coqfmt.List(parts) + ")"
}

// canonDefault turns a DefValue string into a Coq val according to the flag's value type.
func canonDefault(fi flagInfo) (string, bool) {
	d := fi.defValue
	vt := fi.vtype
	switch {
	case vt == "*flag.stringValue" || vt == "p:string":
		return vstr(d), true
	case vt == "*flag.boolValue" || vt == "p:bool":
		b, err := strconv.ParseBool(d)
		return "(VBool " + coqfmt.Bool(b) + ")", err == nil
	case vt == "*flag.intValue" || vt == "*flag.int64Value" || vt == "p:int" || vt == "p:int8" || vt == "p:int16" || vt == "p:int32" || vt == "p:int64":
		n, err := strconv.ParseInt(d, 10, 64)
		return fmt.Sprintf("(VInt (%d)%%Z)", n), err == nil
	case vt == "*flag.uintValue" || vt == "*flag.uint64Value" || vt == "p:uint" || vt == "p:uint8" || vt == "p:uint16" || vt == "p:uint32" || vt == "p:uint64":
		n, err := strconv.ParseUint(d, 10, 64)
		return fmt.Sprintf("(VInt %d%%Z)", n), err == nil
	case vt == "*flag.float64Value" || vt == "p:float64" || vt == "p:float32":
		f, err := strconv.ParseFloat(d, 64)
		return fmt.Sprintf("(VFloat (%d)%%Z)", fbits(f)), err == nil
	case vt == "*flag.durationValue" || vt == "p:duration":
		x, err := time.ParseDuration(d)
		return fmt.Sprintf("(VInt (%d)%%Z)", int64(x)), err == nil
	case strings.HasSuffix(vt, "Complex128Var") || strings.HasSuffix(vt, "Complex64Var") || vt == "p:complex128" || vt == "p:complex64":
		c, err := strconv.ParseComplex(d, 128)
		return fmt.Sprintf("(VList [VFloat (%d)%%Z; VFloat (%d)%%Z])", fbits(real(c)), fbits(imag(c))), err == nil
	case vt == "*flaghelper.TimeWrapper" || vt == "p:*time.Time" || (strings.HasSuffix(vt, "MarshalWrapper") && fi.inner == "*time.Time"):
		tm, err := time.Parse(time.RFC3339Nano, d)
		return rty.TimeTerm(tm), err == nil
	case strings.HasSuffix(vt, "MarshalWrapper") || strings.HasPrefix(vt, "p:*rty.") || vt == "p:*net.IP":
		inner := fi.inner
		if inner == "" {
			inner = strings.TrimPrefix(vt, "p:")
		}
		switch inner {
		case "*net.IP":
			return "(VOpaque 2)", true
		case "*rty.TUp", "*rty.NSeverity", "*rty.NMode":
			return "(VText " + coqfmt.Str(d) + ")", true
		default:
			return "(VOpaque 3)", true
		}
	case strings.HasSuffix(vt, "StringSetFlag") || vt == "p:*map[string]struct {}":
		items, _, ok := quotedItems(d)
		m := map[string]string{}
		for _, it := range items {
			m[it] = "(VStruct [])"
		}
		return mapTerm(m), ok
	case strings.HasSuffix(vt, "MapStringStringFlag") || vt == "p:*map[string]string":
		items, _, ok := quotedItems(d)
		if !ok || len(items)%2 != 0 {
			return "", false
		}
		m := map[string]string{}
		for i := 0; i+1 < len(items); i += 2 {
			m[items[i]] = vstr(items[i+1])
		}
		return mapTerm(m), true
	case strings.HasSuffix(vt, "MapStringStringSliceFlag") || vt == "p:*map[string][]string":
		items, _, ok := quotedItems(d)
		if !ok || len(items)%2 != 0 {
			return "", false
		}
		g := map[string][]string{}
		for i := 0; i+1 < len(items); i += 2 {
			g[items[i]] = append(g[items[i]], items[i+1])
		}
		m := map[string]string{}
		for k, v := range g {
			m[k] = strList(v)
		}
		return mapTerm(m), true
	case strings.HasSuffix(vt, "StringSliceFlag"):
		items, _, ok := quotedItems(d)
		return strList(items), ok
	case vt == "p:stringSlice":
		if len(d) < 2 || d[0] != '[' || d[len(d)-1] != ']' {
			return "", false
		}
		inner := d[1 : len(d)-1]
		if inner == "" {
			return "(VList [])", true
		}
		rec, err := csv.NewReader(strings.NewReader(inner)).Read()
		return strList(rec), err == nil
	case strings.Contains(vt, "SignedIntegralSliceFlag") && !strings.Contains(vt, "Unsigned"):
		return intList(d, true)
	case strings.Contains(vt, "UnsignedIntegralSliceFlag"):
		return intList(d, false)
	case strings.HasPrefix(vt, "p:*[]int"):
		return intList(d, true)
	case strings.HasPrefix(vt, "p:*[]uint"):
		return intList(d, false)
	}
	return "", false
}

// ---- occurrence texts by flag value type ----

func genInt(r *coqfmt.Rng, signed bool) string {
	if r.Chance(1, 10) { // the zero value, given explicitly
		if signed {
			return coqfmt.Pick(r, []string{"0", "-0", "+0", "00", "0x0"})
		}
		return coqfmt.Pick(r, []string{"0", "00", "0x0", "0b0"})
	}
	widths := []uint{8, 16, 32, 64}
	bits := coqfmt.Pick(r, widths)
	var mag uint64
	neg := false
	switch r.Intn(5) {
	case 0:
		mag = uint64(r.Intn(100))
		neg = signed && r.Chance(1, 3)
	case 1:
		if signed {
			mag = 1<<(bits-1) - 1
		} else if bits == 64 {
			mag = ^uint64(0)
		} else {
			mag = 1<<bits - 1
		}
		if r.Chance(1, 2) && mag != ^uint64(0) {
			mag++
		}
	case 2:
		if signed {
			neg = true
			mag = 1 << (bits - 1)
			if r.Chance(1, 2) {
				mag++
			}
		} else {
			mag = uint64(r.Intn(3))
			neg = r.Chance(1, 6)
		}
	case 3:
		mag = uint64(r.Intn(70000))
		neg = signed && r.Chance(1, 3)
	default:
		mag = uint64(r.Intn(128))
	}
	var digits string
	switch r.Intn(8) {
	case 0:
		digits = fmt.Sprintf("0x%x", mag)
	case 1:
		digits = fmt.Sprintf("0o%o", mag)
	case 2:
		digits = fmt.Sprintf("0b%b", mag)
	default:
		digits = fmt.Sprintf("%d", mag)
	}
	if r.Chance(1, 8) && len(digits) > 3 {
		k := 2 + r.Intn(len(digits)-2)
		digits = digits[:k] + "_" + digits[k:]
	}
	if r.Chance(1, 20) {
		return coqfmt.Pick(r, []string{"", "12a", "_1", "0x", "1e3", "18446744073709551616"})
	}
	if neg {
		return "-" + digits
	}
	return digits
}

// decimal texts whose value times 1024 is an integer (the model carries floats that way)
var floatTexts = []string{"0", "0.0", "-0", "1", "-2", "1.5", "-0.25", "3.125", "100", "1e2", ".5", "1.", "+2", "25e-2", "1E3", "2.5e1"}
var complexTexts = []string{"0", "(1+2i)", "1.5-0.25i", "3", "2i", "-2i", "1e2+1e1i", "-1-1i", "(0+0i)", "+1.5+.5i"}

var simpleWords = []string{"a", "b", "ab", "x1", "k", "v", "foo", "bar", "z9", "q"}

func genCSV(r *coqfmt.Rng) string {
	n := r.Intn(4)
	ws := make([]string, n)
	for i := range ws {
		ws[i] = coqfmt.Pick(r, simpleWords)
	}
	s := strings.Join(ws, ",")
	if r.Chance(1, 10) {
		s = "," + s + ",,"
	}
	return s
}

func genKVs(r *coqfmt.Rng) string {
	n := r.Intn(4)
	ws := make([]string, n)
	for i := range ws {
		switch r.Intn(6) {
		case 0:
			ws[i] = coqfmt.Pick(r, simpleWords)
		case 1:
			ws[i] = coqfmt.Pick(r, simpleWords) + ":"
		default:
			ws[i] = coqfmt.Pick(r, simpleWords) + ":" + coqfmt.Pick(r, simpleWords)
		}
	}
	if r.Chance(1, 15) {
		return coqfmt.Pick(r, []string{":v", "a:b:c", "k::v"})
	}
	return strings.Join(ws, ",")
}

func genText(r *coqfmt.Rng, fi flagInfo) (string, bool) {
	vt := fi.vtype
	switch {
	case vt == "*flaghelper.TimeWrapper" || vt == "p:*time.Time" || (strings.HasSuffix(vt, "MarshalWrapper") && fi.inner == "*time.Time"):
		if r.Chance(1, 6) {
			return coqfmt.Pick(r, []string{"", "notatime", "2021-02-30T00:00:00Z", "2021-03-04T05:06:07", "2021-03-04 05:06:07Z", "2021-03-04T05:06:60Z"}), true
		}
		s := fmt.Sprintf("%04d-%02d-%02dT%02d:%02d:%02d", 1+r.Intn(9998), 1+r.Intn(12), 1+r.Intn(28), r.Intn(24), r.Intn(60), r.Intn(60))
		if r.Chance(1, 2) {
			s += fmt.Sprintf(".%d", 1+r.Intn(999999999))
		}
		return s + coqfmt.Pick(r, []string{"Z", "Z", "+02:00", "-07:30", "+00:00"}), true
	case vt == "*flag.stringValue" || vt == "p:string":
		return coqfmt.Pick(r, []string{"", "x", "hello world", "a,b", "q\"uote", "-dash", "k:v", "é"}), true
	case vt == "*flag.boolValue" || vt == "p:bool":
		if r.Chance(1, 10) {
			return coqfmt.Pick(r, []string{"yes", "", "2"}), true
		}
		return coqfmt.Pick(r, []string{"1", "t", "T", "TRUE", "true", "True", "0", "f", "F", "FALSE", "false", "False"}), true
	case vt == "*flag.intValue" || vt == "*flag.int64Value" || strings.HasPrefix(vt, "p:int"):
		return genInt(r, true), true
	case vt == "*flag.uintValue" || vt == "*flag.uint64Value" || strings.HasPrefix(vt, "p:uint"):
		return genInt(r, false), true
	case vt == "*flag.float64Value" || vt == "p:float64" || vt == "p:float32":
		if r.Chance(1, 6) {
			return coqfmt.Pick(r, []string{"", "x", "1..2", "--1", "1e", "1e400", "1361129467683753853853498429727072845824", "-680564733841876926926749214863536422912"}), true // 2^130, -2^129: beyond float32, exact in float64
		}
		if r.Chance(1, 12) {
			return coqfmt.Pick(r, []string{"Inf", "-Infinity", "+inf", "iNf", "-INF"}), true // never an overflow, whatever the leaf's size
		}
		if vt == "*flag.float64Value" && r.Chance(1, 2) {
			// std package: a float32 leaf rides on a float64 flag and Value checks the range itself.  The
			// largest float32, and a float64 just above it (MaxFloat32 + 2^100: it would ROUND to the
			// largest float32) - in range for a float64 leaf, out of range for a float32 leaf
			return coqfmt.Pick(r, []string{"340282346638528859811704183484516925440", "-340282346638528859811704183484516925440",
				"340282347906179460039933584981220130816", "-340282347906179460039933584981220130816"}), true
		}
		return coqfmt.Pick(r, floatTexts), true
	case strings.HasSuffix(vt, "Complex128Var") || strings.HasSuffix(vt, "Complex64Var") || vt == "p:complex128" || vt == "p:complex64":
		if r.Chance(1, 6) {
			return coqfmt.Pick(r, []string{"", "i", "1+i", "(1+2i", "x", "1361129467683753853853498429727072845824+1i", "1-680564733841876926926749214863536422912i"}), true
		}
		return coqfmt.Pick(r, complexTexts), true
	case vt == "*flag.durationValue" || vt == "p:duration":
		if r.Chance(1, 8) {
			return coqfmt.Pick(r, []string{"5", "1x", "", "h"}), true
		}
		return coqfmt.Pick(r, []string{"0", "1h30m", "250ms", "-5s", "1.0s", "1ns", "10h", "100ms5us"}), true
	case strings.HasSuffix(vt, "MarshalWrapper") || strings.HasPrefix(vt, "p:*rty.") || vt == "p:*net.IP":
		inner := fi.inner
		if inner == "" {
			inner = strings.TrimPrefix(vt, "p:")
		}
		if inner == "*net.IP" {
			if r.Chance(1, 6) {
				return coqfmt.Pick(r, []string{"x", "1.2.3", "256.1.1.1", "1.2.3.4.5", "01.2.3.4", "1..2.3"}), true
			}
			return fmt.Sprintf("%d.%d.%d.%d", r.Intn(256), r.Intn(256), r.Intn(256), r.Intn(256)), true
		}
		if inner == "*rty.NSeverity" || inner == "*rty.NMode" {
			return coqfmt.Pick(r, []string{"DEBUG", "INFO", "WARN", "ERROR", "fast", "slow", "fast", "WARN", "3", "bogus", "", "warn"}), true
		}
		return coqfmt.Pick(r, []string{"", "txt", "a b", "1,2"}), true
	case strings.HasSuffix(vt, "StringSliceFlag") && !strings.HasSuffix(vt, "MapStringStringSliceFlag"):
		bad := r.Chance(1, 8)
		return rty.GenListText(r, func() string { e, _ := rty.GenStrElem(r, bad); return e }), true
	case vt == "p:stringSlice": // pflag's own csv reader: plain fields only
		return genCSV(r), true
	case strings.Contains(vt, "IntegralSliceFlag") || strings.HasPrefix(vt, "p:*[]int") || strings.HasPrefix(vt, "p:*[]uint"):
		n := 1 + r.Intn(3)
		ws := make([]string, n)
		for i := range ws {
			signed := !strings.Contains(vt, "Unsigned") && !strings.HasPrefix(vt, "p:*[]uint")
			ws[i] = genInt(r, signed)
			if !signed && r.Chance(1, 5) {
				// the upper half of the unsigned 64-bit range (an element of a []uint64 / []uint / []uintptr)
				ws[i] = coqfmt.Pick(r, []string{"18446744073709551615", "9223372036854775808", "0xFFFFFFFFFFFFFFFF", "12345678901234567890"})
			}
			if r.Chance(1, 6) {
				ws[i] = " " + ws[i] + " "
			}
		}
		return strings.Join(ws, ","), true
	case strings.HasSuffix(vt, "StringSetFlag") || vt == "p:*map[string]struct {}":
		bad := r.Chance(1, 8)
		return rty.GenListText(r, func() string { e, _ := rty.GenStrElem(r, bad); return e }), true
	case strings.HasSuffix(vt, "MapStringStringFlag") || vt == "p:*map[string]string" ||
		strings.HasSuffix(vt, "MapStringStringSliceFlag") || vt == "p:*map[string][]string":
		bad := r.Chance(1, 8)
		el := func() string { e, _ := rty.GenStrElem(r, bad); return e }
		return rty.GenMapText(r, el, el, bad), true
	}
	return "", false
}

// srcTagCombos: does some field carry only this package's tag / only the other package's / both?
func srcTagCombos(t reflect.Type, ownKey string) (own, other, both bool) {
	otherKey := "dialspflag"
	if ownKey == "dialspflag" {
		otherKey = "dialsflag"
	}
	switch t.Kind() {
	case reflect.Ptr, reflect.Slice, reflect.Array:
		return srcTagCombos(t.Elem(), ownKey)
	case reflect.Struct:
		for i := 0; i < t.NumField(); i++ {
			f := t.Field(i)
			_, a := f.Tag.Lookup(ownKey)
			_, b := f.Tag.Lookup(otherKey)
			o1, o2, o3 := srcTagCombos(f.Type, ownKey)
			own, other, both = own || o1 || (a && !b), other || o2 || (b && !a), both || o3 || (a && b)
		}
	}
	return
}

func valueSafe(src source, PT reflect.Type) (v reflect.Value, err error, panicked bool) {
	defer func() {
		if r := recover(); r != nil {
			panicked = true
		}
	}()
	v, err = src.Value(context.Background(), dials.NewType(PT))
	return v, err, false
}

func composeSafe(defaultsPtr reflect.Value, layers []reflect.Value) (res reflect.Value, err error, panicked bool) {
	defer func() {
		if r := recover(); r != nil {
			panicked = true
		}
	}()
	out, err := dials.VerifCompose(defaultsPtr.Interface(), layers)
	if err != nil {
		return reflect.Value{}, err, false
	}
	return reflect.ValueOf(out).Elem(), nil, false
}

func run(raw json.RawMessage) driver.Result {
	var in input
	if err := json.Unmarshal(raw, &in); err != nil {
		panic(err)
	}
	r := coqfmt.NewRng(in.State)
	nd, td := rty.NewNameDict(), rty.NewNameDict()
	srcTag := "dialsflag"
	if in.Pkg == 1 {
		srcTag = "dialspflag"
	}
	o := rty.NamedOpts{MaxDepth: in.Depth, MaxWidth: in.Width, Leaf: leafPalette, Inits: inits,
		TagNum: 1, TagDen: 4,
		// both packages' tags, independently: a leaf may carry its own package's tag, only the OTHER
		// package's (which must not name its flag), both, or neither
		SrcTags: []string{"dialsflag", "dialspflag"}, SrcTagNum: 1, SrcTagDen: 5,
		SrcTagGen: func(r *coqfmt.Rng) string {
			if r.Chance(1, 25) {
				return "-"
			}
			return fmt.Sprintf("%s-%d", coqfmt.Pick(r, []string{"opt", "Flag", "x_y", "some-val"}), r.Intn(1000))
		},
		Embedded: true, Skipped: true, SingleLetterNum: 1, SingleLetterDen: 10,
		OddTags: []string{"_", "x_", "_x", "__", "x__y", "-x", "a=b", "--"}, OddTagNum: 1, OddTagDen: 30}
	if r.Chance(1, 6) {
		o.AliasKeys = []string{"dials", srcTag}
		o.AliasNum, o.AliasDen = 1, 4
	}
	T := rty.GenNamedStruct(r, o, nd, td, 0)
	ne, te := 0, 0
	if r.Chance(1, 3) {
		ne, te = r.Intn(len(nameEncs)), r.Intn(len(tagEncs))
	}
	// three identical templates: one to list the advertised flags, one to be
	// parsed into (the helper flags write into it), one as the defaults to stack on
	vseed := r.U64()
	mkTemplate := func() reflect.Value {
		t := reflect.New(T)
		rty.GenValue(coqfmt.NewRng(vseed), t.Elem(), rty.VOpts{NilNum: 1, NilDen: 3}, 0)
		setTimes(coqfmt.NewRng(vseed+1), t.Elem())
		return t
	}
	tmpl0, tmpl1, tmpl2 := mkTemplate(), mkTemplate(), mkTemplate()
	tmplTerm := rty.EnumPrinter.StructFieldsTerm(tmpl2.Elem()) // tmpl2: non-nil chan fields print their address, and the stacked result shares them
	PT := ptrify.Pointerify(T, tmpl0.Elem())

	_, infos, err0, panic0 := build(in.Pkg, ne, te, tmpl0.Interface(), nil)
	advTerm := ""
	canonOK := true
	if err0 == nil && !panic0 {
		parts := make([]string, 0, len(infos))
		for _, fi := range infos {
			c, ok := canonDefault(fi)
			if !ok {
				canonOK = false
				c = "(VOpaque 9)"
			}
			parts = append(parts, "("+coqfmt.Str(fi.name)+", "+c+")")
		}
		advTerm = coqfmt.List(parts)
	}
	// occurrences
	type occ struct{ name, text string }
	var occs []occ
	pSet := 1 + r.Intn(3)
	repeated := false
	for _, fi := range infos {
		if !r.Chance(pSet, 4) {
			continue
		}
		if fi.name == "" || strings.HasPrefix(fi.name, "-") || strings.Contains(fi.name, "=") {
			continue // no argv token addresses such a flag (pflag registers it, its tokeniser rejects the argument)
		}
		n := 1
		isMap := strings.HasSuffix(fi.vtype, "MapStringStringFlag") || fi.vtype == "p:*map[string]string"
		if r.Chance(1, 3) || (isMap && r.Chance(1, 2)) {
			n = 2 + r.Intn(2)
		}
		prev := ""
		for i := 0; i < n; i++ {
			txt, ok := genText(r, fi)
			if !ok {
				break
			}
			if k, _, found := strings.Cut(prev, ":"); isMap && i > 0 && found && k != "" && !strings.ContainsAny(k, ",\"`") && r.Chance(1, 2) {
				// the same key again with another value: the later occurrence wins
				txt = k + ":" + coqfmt.Pick(r, simpleWords) + fmt.Sprint(i)
			}
			prev = txt
			occs = append(occs, occ{fi.name, txt})
			if i > 0 {
				repeated = true
			}
		}
	}
	// shuffle (order matters only per flag; keep a deterministic shuffle)
	for i := len(occs) - 1; i > 0; i-- {
		j := r.Intn(i + 1)
		occs[i], occs[j] = occs[j], occs[i]
	}
	if r.Chance(1, 25) {
		occs = append(occs, occ{"no-such-flag", "1"})
	}
	args := make([]string, len(occs))
	occParts := make([]string, len(occs))
	for i, oc := range occs {
		dash := "-"
		if in.Pkg == 1 {
			dash = "--"
		}
		args[i] = dash + oc.name + "=" + oc.text
		occParts[i] = "(" + coqfmt.Str(oc.name) + ", " + coqfmt.Str(oc.text) + ")"
	}
	src, _, err1, panic1 := build(in.Pkg, ne, te, tmpl1.Interface(), args)
	var val reflect.Value
	if err1 == nil && !panic1 {
		val, err1, panic1 = valueSafe(src, PT)
	}
	okTerm := ""
	stackTerm := "(Err 0)"
	if err1 == nil && !panic1 {
		okTerm = rty.EnumPrinter.StructFieldsTerm(val)
		res, serr, spanic := composeSafe(tmpl2, []reflect.Value{val})
		st := ""
		if serr == nil && !spanic {
			st = rty.EnumPrinter.StructFieldsTerm(res)
		}
		stackTerm = driver.Outcome(st, serr, spanic)
	}
	own, other, both := srcTagCombos(T, srcTag)
	tags := []string{fmt.Sprintf("pkg-%d", in.Pkg), fmt.Sprintf("flags-%d", min(len(infos), 12)), fmt.Sprintf("occs-%d", min(len(occs), 12))}
	if ne != 0 || te != 0 {
		tags = append(tags, "custom-nameconfig")
	}
	if own {
		tags = append(tags, "leaf-with-own-package-tag-only")
	}
	if other {
		tags = append(tags, "leaf-with-other-package-tag-only")
	}
	if both {
		tags = append(tags, "leaf-with-both-package-tags")
	}
	if repeated {
		tags = append(tags, "repeated-flag")
	}
	switch {
	case panic1:
		tags = append(tags, "impl-panic")
	case err1 != nil:
		tags = append(tags, "impl-err")
	default:
		tags = append(tags, "impl-ok")
	}
	var direct []string
	if !canonOK {
		direct = append(direct, "an advertised default could not be rendered canonically (harness)")
	}
	return driver.Result{
		Coq: fmt.Sprintf("FlagCase %d %d %d %s %s %s %s %s %s %s", in.Pkg, ne, te, rty.EnumPrinter.FieldsTerm(T), tmplTerm, nd.Term(),
			driver.Outcome(advTerm, err0, panic0), coqfmt.List(occParts), driver.Outcome(okTerm, err1, panic1), stackTerm),
		Kind:       "generated",
		Nontrivial: len(infos) >= 2 && len(occs) >= 1 && len(occs) < len(infos)+2 && (repeated || len(occs) >= 2),
		Tags:       tags,
		Direct:     direct,
	}
}

func min(a, b int) int {
	if a < b {
		return a
	}
	return b
}

func gen(r *coqfmt.Rng, n int, tier string) []json.RawMessage {
	var out []json.RawMessage
	for i := 0; i < n; i++ {
		b, _ := json.Marshal(input{K: "gen", State: r.U64(), Depth: 1 + r.Intn(3), Width: 2 + r.Intn(4), Pkg: r.Intn(2)})
		out = append(out, b)
	}
	return out
}

func main() {
	var err error
	inits, err = initsrc.Load()
	if err != nil {
		panic(err)
	}
	driver.Main(driver.Engine{
		Prop: "C12", CoqImport: "Dials.Check.C12Check", CoqRun: "run_cases",
		Rule: "random nested config types (as for C11; leaf kinds: every integer width incl. uintptr, named scalars, bool, string, durations, user pointers, floats/complex (defaults only), []string, integer slices, map[string]string, string sets, map[string][]string, TextUnmarshaler structs, net.IP, plus kinds without a flag), random template values, both packages, default and custom NameConfig, source-specific name tags incl. \"-\", alias tags in 1/6 of the cases; argument list = random subset of the advertised flags, repeats, shuffled, boundary/out-of-range/malformed texts, occasionally an undefined flag; observed: advertised (name, canonical default) of FlagSet.VisitAll on a set built without arguments, outcome class and value of Set.Value() on a set built with the arguments, and that value stacked over the template; non-trivial: >=2 flags, >=1 occurrence, not every flag given, and a repeat or >=2 occurrences; distinct = distinct PRNG case states",
		Gen:  gen, Run: run,
	})
}
