// c03: correspondence harness for "cyclic and shared reference graphs are
// copied safely and faithfully" (property C03).
//
// The failure mode of the copier is unbounded recursion ending in a FATAL
// stack overflow which recover() cannot catch.  Every case therefore runs in
// a CHILD process (this same binary with VERIF_C03_CHILD=1, stack limited to
// 64 MB by debug.SetMaxStack, watched by a timer).  The child announces the
// input graph (already printed as a Coq heap) BEFORE it calls the
// implementation; if it dies or hangs the parent attributes the crash to that
// announced case and reports `impl = None`, then starts a new child.
package main

import (
	"bufio"
	"context"
	"encoding/json"
	"fmt"
	"io"
	"os"
	"os/exec"
	"reflect"
	"runtime/debug"
	"strings"
	"time"

	"github.com/vimeo/dials"

	"verifharness/internal/coqfmt"
	"verifharness/internal/driver"
	"verifharness/internal/graphwalk"
)

// ---- the fixed family of recursive node types ----

// SN: references held in slice elements, map values and array elements.
// TUNode implements encoding.TextUnmarshaler and holds references: replaced as a whole by
// overlay, but copied deeply like any other struct.
type TUNode struct {
	Kids []*SN
	M    map[string]*SN
}

func (t *TUNode) UnmarshalText(b []byte) error { return nil }

// KSN: a map KEY that contains a pointer to a node (the copier copies keys like values)
type KSN struct {
	K string
	P *SN
}

type SN struct {
	Name string
	DM   SMap            // declared map type aliasing the pooled plain maps (M, MM, Ms)
	DMs  map[string]SMap // ... also as map values
	Rs   []SRef          // declared pointer type in slice elements (mixed with the plain *SN references to the same nodes)
	MS   map[KSN]int     // struct keys containing node pointers
	MP   map[[1]*SN]bool // array keys of node pointers
	TU   TUNode
	MM   map[string]map[string]*SN // map of maps: the inner maps are referenced again by the M / Ms fields visited later
	Kids []*SN
	M    map[string]*SN
	Arr  [2]*SN
	Ms   []map[string]*SN
	Grid [][2]*SN          // arrays NESTED in a slice,
	Box  [1][2]*SN         // in an array,
	Rows [2][]*SN          // slices nested in an array,
	MArr map[string][2]*SN // and arrays as map values
	Ch   chan int
	priv int
}

// IN: references held in interface values (directly, in a slice, in a map).
type IN struct {
	MI   map[interface{}]int // interface keys holding pointers (*IN, *int) and plain values
	PI   *int                // typed references to pointers to NON-structs, visited before the
	PL   *[]interface{}      // interface values below that may hold the very same pointers
	PM   *map[string]interface{}
	Any  interface{}
	Anys []interface{}
	MA   map[string]interface{}
	Tag  int
}

// DRef / SRef: DECLARED pointer types (type Ref *Node): same pointers, another static type.
type DRef *DN
type SRef *SN

// SMap: a DECLARED map type; the same map objects are also referenced as plain map[string]*SN
type SMap map[string]*SN

// DN: references of a declared pointer type next to plain ones (copier only, like PN).
type DN struct {
	A   DRef
	B   *DN
	C   DRef
	Val int
}

// WN: a WRAPPER node - a struct whose only field is a struct: the node and its field In are
// distinct values of different types at the SAME address (same kind, same size).
type WInner struct {
	Next  *WN
	Other *WN
	V     int
}
type WN struct{ In WInner }

// AN: a one-element array of structs behind a pointer (the array and its element share address and size).
type AN [1]struct {
	Next  *AN
	Other *AN
	V     int
}

// PN: plain pointer fields.  The type reaches itself through pointer-to-struct
// fields only, so it is usable with the copier but not with Config (finding 15).
type PN struct {
	Next  *PN
	Other *PN
	Val   int
}

// IP: a node with INTERIOR pointers (into its own fields, into an array field, into a
// slice's backing array, to a slice header field).  Such values are OUTSIDE the Coq heap
// model (pointers are to whole allocated objects there); they are run against the
// implementation only, as an exploration with direct oracles (no model comparison).
type IP struct {
	A    int
	B    [3]int
	S    []int
	Sub  struct{ X, Y int }
	PA   *int   // &A (own or another node's)
	PB   *int   // &B[i]
	PS   *int   // &S[i]
	PX   *int   // &Sub.Y
	PH   *[]int // &S (the slice header field)
	Any  interface{}
	Next *IP
	W    *IPW   // a wrapper struct (only field: a struct) ...
	WIn  *IPWIn // ... and a pointer to that field: two objects of different types at one address
}

type IPWIn struct {
	X int
	B *IPW
}
type IPW struct{ In IPWIn }

// IPCfg wraps IP nodes behind a slice so that dials.Config accepts the type.
type IPCfg struct {
	Nodes []*IP
	First interface{}
}

func buildIP(r *coqfmt.Rng, n int) *IPCfg {
	nodes := make([]*IP, n)
	for i := range nodes {
		nodes[i] = &IP{A: i, B: [3]int{i, i + 1, i + 2}, S: make([]int, 1+r.Intn(3), 4)}
		nodes[i].Sub.Y = 10 + i
	}
	for _, nd := range nodes {
		t := nodes[r.Intn(n)]
		if r.Chance(2, 3) {
			nd.PA = &t.A
		}
		if r.Chance(2, 3) {
			nd.PB = &t.B[r.Intn(3)]
		}
		if r.Chance(2, 3) {
			nd.PS = &t.S[r.Intn(len(t.S))]
		}
		if r.Chance(1, 2) {
			nd.PX = &t.Sub.Y
		}
		if r.Chance(1, 2) {
			nd.PH = &t.S
		}
		if r.Chance(1, 2) {
			w := &IPW{In: IPWIn{X: 5}}
			w.In.B = w
			nd.W, t.W = w, w
			nd.WIn = &w.In
		}
		switch r.Intn(4) {
		case 0:
			nd.Any = &t.B[0]
		case 1:
			nd.Any = &t.Sub
		case 2:
			nd.Any = t
		}
	}
	cfg := &IPCfg{Nodes: nodes}
	if r.Chance(1, 2) {
		cfg.First = &nodes[0].A
	}
	return cfg
}

type memRange struct{ lo, hi uintptr }

// memRanges collects the memory of every pointee, map and slice backing array below v
// (exported fields), as address ranges.
func memRanges(v reflect.Value, seen map[[2]uintptr]bool, out *[]memRange) {
	switch v.Kind() {
	case reflect.Ptr:
		if v.IsNil() {
			return
		}
		k := [2]uintptr{v.Pointer(), v.Type().Elem().Size()}
		if seen[k] {
			return
		}
		seen[k] = true
		if sz := v.Type().Elem().Size(); sz > 0 {
			*out = append(*out, memRange{v.Pointer(), v.Pointer() + sz})
		}
		memRanges(v.Elem(), seen, out)
	case reflect.Map:
		if v.IsNil() {
			return
		}
		k := [2]uintptr{v.Pointer(), 0}
		if seen[k] {
			return
		}
		seen[k] = true
		*out = append(*out, memRange{v.Pointer(), v.Pointer() + 1})
		it := v.MapRange()
		for it.Next() {
			memRanges(it.Value(), seen, out)
		}
	case reflect.Slice:
		if v.IsNil() || v.Cap() == 0 {
			return
		}
		es := v.Type().Elem().Size()
		k := [2]uintptr{v.Pointer(), uintptr(v.Cap())*es + 1}
		if seen[k] {
			return
		}
		seen[k] = true
		*out = append(*out, memRange{v.Pointer(), v.Pointer() + uintptr(v.Cap())*es})
		f := v.Slice(0, v.Cap())
		for i := 0; i < f.Len(); i++ {
			memRanges(f.Index(i), seen, out)
		}
	case reflect.Interface:
		if !v.IsNil() {
			memRanges(v.Elem(), seen, out)
		}
	case reflect.Struct:
		for i := 0; i < v.NumField(); i++ {
			if v.Type().Field(i).PkgPath == "" {
				memRanges(v.Field(i), seen, out)
			}
		}
	case reflect.Array:
		for i := 0; i < v.Len(); i++ {
			memRanges(v.Index(i), seen, out)
		}
	}
}

func rangesOverlap(a, b []memRange) bool {
	for _, x := range a {
		for _, y := range b {
			if x.lo < y.hi && y.lo < x.hi {
				return true
			}
		}
	}
	return false
}

// buildBig builds a LONG chain or a big ring (n nodes) through plain pointers (PN.Next),
// through slice elements (SN.Kids[0]) or through map values (SN.M["n"]).
func buildBig(in input) reflect.Value {
	r := coqfmt.NewRng(in.State)
	ring := r.Chance(1, 2)
	switch in.Fam {
	case "PN":
		nodes := make([]*PN, in.N)
		for i := range nodes {
			nodes[i] = &PN{Val: i}
		}
		for i := 0; i+1 < in.N; i++ {
			nodes[i].Next = nodes[i+1]
			if i%7 == 0 {
				nodes[i].Other = nodes[r.Intn(in.N)]
			}
		}
		if ring {
			nodes[in.N-1].Next = nodes[0]
		}
		return reflect.ValueOf(nodes[0])
	default:
		nodes := make([]*SN, in.N)
		for i := range nodes {
			nodes[i] = &SN{Name: fmt.Sprint(i)}
		}
		link := func(a, b *SN) {
			if in.Fam == "SNslice" {
				a.Kids = []*SN{b}
			} else {
				a.M = map[string]*SN{"n": b}
			}
		}
		for i := 0; i+1 < in.N; i++ {
			link(nodes[i], nodes[i+1])
		}
		if ring {
			link(nodes[in.N-1], nodes[0])
		}
		return reflect.ValueOf(nodes[0])
	}
}

// exploreBig runs one long-chain / big-ring case against the implementation alone
// (600-3000 nodes: the Coq model is not evaluated on these).
func exploreBig(in input) (direct, tags []string) {
	root := buildBig(in)
	tags = []string{"big-chain-or-ring", "big-" + in.Fam, fmt.Sprintf("mode-%d", in.Mode)}
	before := graphwalk.Canon(root)
	res, err := runImpl(in, root)
	if err != nil {
		return []string{"big graph: Config returned an error: " + err.Error()}, tags
	}
	if !reflect.DeepEqual(root.Interface(), res.Interface()) {
		direct = append(direct, "big graph: reflect.DeepEqual(input, copy) = false")
	}
	var rin, rout []memRange
	memRanges(root, map[[2]uintptr]bool{}, &rin)
	memRanges(res, map[[2]uintptr]bool{}, &rout)
	inSet := map[uintptr]bool{}
	for _, x := range rin {
		inSet[x.lo] = true
	}
	for _, y := range rout {
		if inSet[y.lo] {
			direct = append(direct, "big graph: the copy shares memory with the input (the tail of a long chain is not copied)")
			break
		}
	}
	if graphwalk.Canon(res) != before {
		direct = append(direct, "big graph: the copy is not isomorphic to the input (contents or alias partition differ)")
	}
	if graphwalk.Canon(root) != before {
		direct = append(direct, "big graph: the input was modified")
	}
	return direct, tags
}

// exploreInterior runs one interior-pointer case against the implementation alone.
func exploreInterior(in input) (direct, tags []string) {
	cfg := buildIP(coqfmt.NewRng(in.State), in.N)
	tags = []string{"interior-exploration", fmt.Sprintf("mode-%d", in.Mode)}
	var res reflect.Value
	if in.Mode == 0 {
		res = dials.VerifDeepCopy(reflect.ValueOf(cfg))
	} else {
		d, err := dials.Config(context.Background(), cfg)
		if err != nil {
			return []string{"exploration (interior pointers): Config returned an error: " + err.Error()}, tags
		}
		res = reflect.ValueOf(d.View())
	}
	if !reflect.DeepEqual(cfg, res.Interface()) {
		direct = append(direct, "exploration (interior pointers): reflect.DeepEqual(input, copy) = false")
	}
	var rin, rout []memRange
	memRanges(reflect.ValueOf(cfg), map[[2]uintptr]bool{}, &rin)
	memRanges(res, map[[2]uintptr]bool{}, &rout)
	if rangesOverlap(rin, rout) {
		direct = append(direct, "exploration (interior pointers): the copy shares memory with the input")
	}
	// informational: is the interior aliasing kept? (depends on the visiting order; not an oracle)
	o := res.Interface().(*IPCfg)
	kept, lost := 0, 0
	for i, nd := range o.Nodes {
		src := cfg.Nodes[i]
		for j, t := range o.Nodes {
			if src.PA == &cfg.Nodes[j].A {
				if nd.PA == &t.A {
					kept++
				} else {
					lost++
				}
			}
		}
	}
	if kept > 0 {
		tags = append(tags, "interior-alias-kept")
	}
	if lost > 0 {
		tags = append(tags, "interior-alias-split")
	}
	return direct, tags
}

type input struct {
	K     string `json:"k"`
	State uint64 `json:"state"`
	Fam   string `json:"fam"`   // SN | IN | PN
	N     int    `json:"n"`     // number of nodes
	PNil  int    `json:"pnil"`  // probability (in eighths) that a reference is nil
	Mode  int    `json:"mode"`  // 0: VerifDeepCopy   1: dials.Config + View
	Root  int    `json:"root"`  // mode 0 only - what is handed to the copier: 0 the pointer, 1 the node's map, 2 its slice, 3 the struct value
	Style int    `json:"style"` // 0: self / back / anywhere; 1: no self references; 2: mostly the next node (long chains and cycles)
}

// ---- graph generation ----

type gen struct {
	r     *coqfmt.Rng
	pnil  int
	style int
}

func (g *gen) target(i, n int) int {
	// -1 = nil; otherwise self, a back reference, or anything
	if g.r.Chance(g.pnil, 8) {
		return -1
	}
	switch g.style {
	case 1:
		if t := g.r.Intn(n); t != i {
			return t
		}
		return (i + 1) % n
	case 2:
		if g.r.Chance(2, 3) {
			return (i + 1) % n
		}
		return g.r.Intn(n)
	}
	switch g.r.Intn(5) {
	case 0:
		return i
	case 1:
		return g.r.Intn(i + 1)
	default:
		return g.r.Intn(n)
	}
}

func buildSN(g *gen, n int) []*SN {
	r := g.r
	nodes := make([]*SN, n)
	for i := range nodes {
		nodes[i] = &SN{Name: fmt.Sprintf("s%d", i), priv: i + 1}
	}
	pick := func(i int) *SN {
		t := g.target(i, n)
		if t < 0 {
			return nil
		}
		return nodes[t]
	}
	pool := make([]map[string]*SN, 2+n/3)
	chans := []chan int{make(chan int), make(chan int)}
	poolMap := func() map[string]*SN {
		pi := r.Intn(len(pool))
		if pool[pi] == nil {
			pool[pi] = map[string]*SN{}
		}
		return pool[pi]
	}
	for i, nd := range nodes {
		if k := r.Intn(4); k > 0 {
			s := make([]*SN, k, k+r.Intn(2))
			full := s[:cap(s)]
			for j := range full {
				full[j] = pick(i)
			}
			nd.Kids = s
		} else if r.Chance(1, 4) {
			nd.Kids = []*SN{}
		}
		if i > 0 && r.Chance(1, 4) {
			o := nodes[r.Intn(i)].Kids
			if len(o) > 0 {
				switch r.Intn(3) {
				case 0:
					nd.Kids = o // the very same slice
				case 1:
					nd.Kids = o[1:] // same array, other offset
				default:
					nd.Kids = o[:1]
				}
			}
		}
		if !r.Chance(1, 3) {
			pi := r.Intn(len(pool))
			if pool[pi] == nil {
				pool[pi] = map[string]*SN{}
			}
			nd.M = pool[pi]
		}
		nd.Arr = [2]*SN{pick(i), pick(i)}
		if r.Chance(1, 4) {
			nd.Ch = chans[r.Intn(2)]
		}
		if r.Chance(1, 3) {
			// a map of maps over the shared pool (distinct inner maps, possibly one twice, possibly nil)
			nd.MM = map[string]map[string]*SN{}
			for j, k := 0, 1+r.Intn(3); j < k; j++ {
				if r.Chance(1, 6) {
					nd.MM[string(rune('x'+j))] = nil
				} else {
					nd.MM[string(rune('x'+j))] = poolMap()
				}
			}
		}
		if r.Chance(1, 3) {
			k := 1 + r.Intn(2)
			nd.Grid = make([][2]*SN, k, k+r.Intn(2))
			full := nd.Grid[:cap(nd.Grid)]
			for j := range full {
				full[j] = [2]*SN{pick(i), pick(i)}
			}
		}
		if r.Chance(1, 3) {
			nd.Box = [1][2]*SN{{pick(i), pick(i)}}
		}
		if r.Chance(1, 3) {
			nd.Rs = []SRef{SRef(pick(i)), SRef(pick(i))}
		}
		if r.Chance(1, 3) {
			nd.DM = SMap(poolMap())
		}
		if r.Chance(1, 5) {
			nd.DMs = map[string]SMap{"u": SMap(poolMap()), "v": SMap(poolMap())}
		}
		if r.Chance(1, 4) {
			nd.MS = map[KSN]int{{K: "a", P: pick(i)}: 1, {K: "b", P: pick(i)}: 2}
		}
		if r.Chance(1, 5) {
			if t := pick(i); t != nil {
				nd.MP = map[[1]*SN]bool{{t}: true}
			}
		}
		if r.Chance(1, 3) {
			nd.TU = TUNode{Kids: []*SN{pick(i), pick(i)}, M: poolMap()}
			if r.Chance(1, 2) && len(nd.Kids) > 0 {
				nd.TU.Kids = nd.Kids[:1] // shares the node's own backing array
			}
		}
		if r.Chance(1, 4) {
			nd.Rows = [2][]*SN{{pick(i)}, nil}
			if r.Chance(1, 2) {
				nd.Rows[1] = nd.Rows[0] // the same slice twice
			}
		}
		if r.Chance(1, 4) {
			nd.MArr = map[string][2]*SN{"p": {pick(i), pick(i)}}
		}
		if r.Chance(1, 4) {
			k := 1 + r.Intn(2)
			nd.Ms = make([]map[string]*SN, k, k+r.Intn(2))
			for j := range nd.Ms {
				nd.Ms[j] = poolMap()
			}
		}
	}
	for pi, m := range pool {
		if m != nil && r.Chance(1, 2) {
			m["id"] = nodes[pi%n] // make the pooled maps pairwise different
		}
	}
	for _, m := range pool {
		if m == nil {
			continue
		}
		for j, k := 0, r.Intn(4); j < k; j++ {
			m[string(rune('a'+j))] = pick(r.Intn(n))
		}
	}
	if n >= 2 && r.Chance(1, 3) {
		// an all-ZERO placeholder node (every field zero / nil) referenced several times
		z := 1 + r.Intn(n-1)
		*nodes[z] = SN{}
		nodes[0].Arr = [2]*SN{nodes[z], nodes[z]}
		if r.Chance(1, 2) {
			nodes[0].Kids = append([]*SN{nodes[z]}, nodes[0].Kids...)
		}
	}
	return nodes
}

func buildIN(g *gen, n int) []*IN {
	r := g.r
	nodes := make([]*IN, n)
	for i := range nodes {
		nodes[i] = &IN{Tag: i}
	}
	sn := buildSN(g, 1+r.Intn(3))
	pool := make([]map[string]interface{}, 1+n/3)
	getMap := func() map[string]interface{} {
		pi := r.Intn(len(pool))
		if pool[pi] == nil {
			pool[pi] = map[string]interface{}{}
		}
		return pool[pi]
	}
	// pointers to non-structs, shared between typed fields and interface values
	ints := []*int{new(int), new(int)}
	*ints[0], *ints[1] = 7, 0 // the second pointee is the zero value, and shared
	str := new(string)
	*str = "p"
	lists := make([]*[]interface{}, 2)
	pmaps := make([]*map[string]interface{}, 2)
	for j := range lists {
		l := make([]interface{}, 1+r.Intn(2), 3)
		lists[j] = &l
		m := map[string]interface{}{}
		pmaps[j] = &m
	}
	var payload func(i, depth int) interface{}
	payload = func(i, depth int) interface{} {
		if g.r.Chance(g.pnil, 8) {
			return nil
		}
		switch r.Intn(23) {
		case 22:
			// an array of STRUCTS as interface payload: its elements hold pointers, maps and
			// further payloads, so it has to be copied element by element (seeded C02-q)
			if depth < 2 {
				return [2]IN{{Any: payload(i, depth+1), Tag: 200 + i, MA: map[string]interface{}{"k": nodes[i]}}, {PI: ints[r.Intn(2)]}}
			}
		case 19:
			t := g.target(i, n)
			if t < 0 {
				t = i
			}
			return [1][2]*IN{{nodes[t], nodes[i]}} // an array nested in an array, as interface payload
		case 20:
			t := g.target(i, n)
			if t < 0 {
				t = i
			}
			return [][2]*IN{{nodes[t], nil}}
		case 21:
			return SRef(sn[r.Intn(len(sn))]) // a declared pointer type as interface payload
		case 14:
			return ints[r.Intn(2)]
		case 15:
			return str
		case 16, 17:
			return lists[r.Intn(2)]
		case 18:
			return pmaps[r.Intn(2)]
		case 0:
			return r.Intn(100)
		case 1:
			return fmt.Sprintf("v%d", r.Intn(10))
		case 2:
			return (*IN)(nil) // typed nil pointer
		case 3, 4, 5, 6:
			t := g.target(i, n)
			if t < 0 {
				t = i
			}
			return nodes[t]
		case 7:
			return sn[r.Intn(len(sn))]
		case 8, 9:
			return getMap()
		case 10:
			return sn[r.Intn(len(sn))].M // map[string]*SN, possibly a typed nil map
		case 11:
			if depth < 2 {
				k := r.Intn(3)
				s := make([]interface{}, k, k+r.Intn(2))
				full := s[:cap(s)]
				for j := range full {
					full[j] = payload(i, depth+1)
				}
				return s
			}
		case 12:
			if depth < 2 {
				return IN{Any: payload(i, depth+1), Tag: 100 + i}
			}
		case 13:
			t := g.target(i, n)
			if t < 0 {
				t = i
			}
			return [2]*IN{nodes[t], nil}
		}
		return nodes[i]
	}
	for j := range lists {
		// contents of the pointed-to slices and maps: payloads, back references to
		// the pointers themselves (cycles through *[]interface{} / *map) included
		for k := range *lists[j] {
			(*lists[j])[k] = payload(r.Intn(n), 1)
		}
		if r.Chance(1, 3) {
			(*lists[j])[0] = lists[r.Intn(2)]
		}
		if r.Chance(1, 2) {
			(*pmaps[j])["v"] = payload(r.Intn(n), 1)
		}
		if r.Chance(1, 3) {
			(*pmaps[j])["back"] = pmaps[r.Intn(2)]
		}
	}
	for i, nd := range nodes {
		if r.Chance(1, 3) {
			nd.PI = ints[r.Intn(2)]
		}
		if r.Chance(1, 3) {
			nd.PL = lists[r.Intn(2)]
		}
		if r.Chance(1, 4) {
			nd.PM = pmaps[r.Intn(2)]
		}
		nd.Any = payload(i, 0)
		if k := r.Intn(4); k > 0 {
			s := make([]interface{}, k, k+r.Intn(2))
			full := s[:cap(s)]
			for j := range full {
				full[j] = payload(i, 0)
			}
			nd.Anys = s
		}
		if i > 0 && r.Chance(1, 5) && len(nodes[i-1].Anys) > 0 {
			nd.Anys = nodes[i-1].Anys[:1]
		}
		if !r.Chance(1, 3) {
			nd.MA = getMap()
		}
	}
	for _, m := range pool {
		if m == nil {
			continue
		}
		for j, k := 0, r.Intn(4); j < k; j++ {
			m[string(rune('a'+j))] = payload(r.Intn(n), 0)
		}
		if r.Chance(1, 4) {
			m["self"] = m
		}
	}
	for i, nd := range nodes {
		if r.Chance(1, 4) {
			nd.MI = map[interface{}]int{"s": 1, ints[r.Intn(2)]: 2}
			if t := g.target(i, n); t >= 0 {
				nd.MI[nodes[t]] = 3
			}
		}
	}
	if n >= 2 && r.Chance(1, 3) {
		// an all-ZERO node, an empty map and a nil map behind shared pointers, each referenced twice
		z := 1 + r.Intn(n-1)
		*nodes[z] = IN{}
		nodes[0].Any = nodes[z]
		nodes[0].Anys = append([]interface{}{nodes[z]}, nodes[0].Anys...)
		var nilMap map[string]interface{}
		pm := &nilMap
		nodes[0].PM = pm
		nodes[0].Anys = append(nodes[0].Anys, pm)
	}
	return nodes
}

func buildPN(g *gen, n int) []*PN {
	nodes := make([]*PN, n)
	for i := range nodes {
		nodes[i] = &PN{Val: i}
	}
	for i, nd := range nodes {
		if t := g.target(i, n); t >= 0 {
			nd.Next = nodes[t]
		}
		if t := g.target(i, n); t >= 0 {
			nd.Other = nodes[t]
		}
	}
	if n >= 2 && g.r.Chance(1, 3) {
		// an all-ZERO node referenced twice (a diamond onto an empty placeholder)
		z := 1 + g.r.Intn(n-1)
		*nodes[z] = PN{}
		nodes[0].Next, nodes[0].Other = nodes[z], nodes[z]
	}
	return nodes
}

// hasRefKeys: does the graph contain a non-empty map whose key type can hold references?
// reflect.DeepEqual looks keys up by identity, so it is false by construction for a deep copy
// of such a map (the copier copies keys like values); the canonical-isomorphism oracle covers it.
func hasRefKeys(v reflect.Value, seen map[[2]uintptr]bool) bool {
	switch v.Kind() {
	case reflect.Ptr:
		if v.IsNil() || seen[[2]uintptr{0, v.Pointer()}] {
			return false
		}
		seen[[2]uintptr{0, v.Pointer()}] = true
		return hasRefKeys(v.Elem(), seen)
	case reflect.Map:
		if v.IsNil() || seen[[2]uintptr{1, v.Pointer()}] {
			return false
		}
		seen[[2]uintptr{1, v.Pointer()}] = true
		switch v.Type().Key().Kind() {
		case reflect.Interface, reflect.Struct, reflect.Array, reflect.Ptr:
			if v.Len() > 0 {
				return true
			}
		}
		it := v.MapRange()
		for it.Next() {
			if hasRefKeys(it.Value(), seen) {
				return true
			}
		}
	case reflect.Interface:
		if !v.IsNil() {
			return hasRefKeys(v.Elem(), seen)
		}
	case reflect.Slice:
		if v.IsNil() {
			return false
		}
		f := v.Slice(0, v.Cap())
		for i := 0; i < f.Len(); i++ {
			if hasRefKeys(f.Index(i), seen) {
				return true
			}
		}
	case reflect.Array:
		for i := 0; i < v.Len(); i++ {
			if hasRefKeys(v.Index(i), seen) {
				return true
			}
		}
	case reflect.Struct:
		for i := 0; i < v.NumField(); i++ {
			if v.Type().Field(i).PkgPath == "" && hasRefKeys(v.Field(i), seen) {
				return true
			}
		}
	}
	return false
}

func buildWN(g *gen, n int) []*WN {
	nodes := make([]*WN, n)
	for i := range nodes {
		nodes[i] = &WN{In: WInner{V: i}}
	}
	for i, nd := range nodes {
		if t := g.target(i, n); t >= 0 {
			nd.In.Next = nodes[t]
		}
		if t := g.target(i, n); t >= 0 {
			nd.In.Other = nodes[t]
		}
	}
	return nodes
}

func buildAN(g *gen, n int) []*AN {
	nodes := make([]*AN, n)
	for i := range nodes {
		nodes[i] = &AN{}
		nodes[i][0].V = i
	}
	for i, nd := range nodes {
		if t := g.target(i, n); t >= 0 {
			nd[0].Next = nodes[t]
		}
		if t := g.target(i, n); t >= 0 {
			nd[0].Other = nodes[t]
		}
	}
	return nodes
}

func buildDN(g *gen, n int) []*DN {
	nodes := make([]*DN, n)
	for i := range nodes {
		nodes[i] = &DN{Val: i}
	}
	for i, nd := range nodes {
		if t := g.target(i, n); t >= 0 {
			nd.A = DRef(nodes[t])
		}
		if t := g.target(i, n); t >= 0 {
			nd.B = nodes[t]
		}
		if t := g.target(i, n); t >= 0 {
			nd.C = DRef(nodes[t])
		}
	}
	return nodes
}

// ---- shape statistics of the generated graph (for the distribution) ----

type shape struct {
	indeg                                     map[[2]uintptr]int
	onStack                                   map[[2]uintptr]bool
	selfLoop, cycle, ifaceBack, sharedMap     bool
	shared, sharedViaIface, sliceShare, nodes int
	slices                                    map[uintptr]int
}

func (s *shape) walk(v reflect.Value, viaIface bool, holder [2]uintptr) {
	switch v.Kind() {
	case reflect.Ptr, reflect.Map:
		if v.IsNil() {
			return
		}
		kk := uintptr(0)
		if v.Kind() == reflect.Map {
			kk = 1
		}
		k := [2]uintptr{kk, v.Pointer()}
		s.indeg[k]++
		if s.indeg[k] == 2 {
			s.shared++
			if kk == 1 {
				s.sharedMap = true
			}
			if viaIface {
				s.sharedViaIface++
			}
		}
		if k == holder {
			s.selfLoop = true
		}
		if s.onStack[k] {
			s.cycle = true
			if viaIface {
				s.ifaceBack = true
			}
			return
		}
		if s.indeg[k] > 1 {
			return
		}
		s.nodes++
		s.onStack[k] = true
		if kk == 0 {
			s.walk(v.Elem(), false, k)
		} else {
			it := v.MapRange()
			for it.Next() {
				s.walk(it.Value(), false, k)
			}
		}
		s.onStack[k] = false
	case reflect.Interface:
		if !v.IsNil() {
			s.walk(v.Elem(), true, holder)
		}
	case reflect.Slice:
		if v.IsNil() || v.Cap() == 0 {
			return
		}
		s.slices[v.Pointer()]++
		if s.slices[v.Pointer()] == 2 {
			s.sliceShare++
		}
		f := v.Slice(0, v.Cap())
		for i := 0; i < f.Len(); i++ {
			s.walk(f.Index(i), viaIface && false, holder)
		}
	case reflect.Array:
		for i := 0; i < v.Len(); i++ {
			s.walk(v.Index(i), false, holder)
		}
	case reflect.Struct:
		for i := 0; i < v.NumField(); i++ {
			if v.Type().Field(i).PkgPath == "" {
				s.walk(v.Field(i), false, holder)
			}
		}
	}
}

// ---- type graph for finding 15 (decided in Coq: Canon.type_reaches_itself) ----

func typeGraph(root reflect.Type) (string, int) {
	if root.Kind() != reflect.Struct {
		return "[]", 0
	}
	ids := map[reflect.Type]int{}
	var order []reflect.Type
	var visit func(t reflect.Type) int
	edges := map[int][]int{}
	visit = func(t reflect.Type) int {
		if id, ok := ids[t]; ok {
			return id
		}
		id := len(ids)
		ids[t] = id
		order = append(order, t)
		for i := 0; i < t.NumField(); i++ {
			f := t.Field(i)
			if f.PkgPath != "" || f.Tag.Get("dials") == "-" {
				continue
			}
			ft := f.Type
			if ft.Kind() == reflect.Ptr {
				ft = ft.Elem()
			}
			if ft.Kind() == reflect.Struct {
				edges[id] = append(edges[id], visit(ft))
			}
		}
		return id
	}
	r := visit(root)
	parts := make([]string, len(order))
	for i := range order {
		es := make([]string, len(edges[i]))
		for j, e := range edges[i] {
			es[j] = fmt.Sprint(e)
		}
		parts[i] = fmt.Sprintf("(%d, %s)", i, coqfmt.List(es))
	}
	return coqfmt.List(parts), r
}

// ---- one case, inside the child ----

type announce struct {
	Explore    bool     `json:"explore"`
	Heap       []string `json:"heap"`
	NIn        int      `json:"nin"`
	Root       string   `json:"root"`
	TG         string   `json:"tg"`
	TRoot      int      `json:"troot"`
	Tags       []string `json:"tags"`
	Nontrivial bool     `json:"nontrivial"`
}

type outcome struct {
	Heap   []string `json:"heap"`
	Root   string   `json:"root"`
	Direct []string `json:"direct"`
}

// buildRoot returns the value handed to the implementation and the node type.
func buildRoot(in input) (reflect.Value, reflect.Type) {
	g := &gen{r: coqfmt.NewRng(in.State), pnil: in.PNil, style: in.Style}
	var p reflect.Value
	var m, sl reflect.Value
	switch in.Fam {
	case "SN":
		n := buildSN(g, in.N)[0]
		p, m, sl = reflect.ValueOf(n), reflect.ValueOf(n.M), reflect.ValueOf(n.Kids)
	case "IN":
		n := buildIN(g, in.N)[0]
		p, m, sl = reflect.ValueOf(n), reflect.ValueOf(n.MA), reflect.ValueOf(n.Anys)
	case "DN":
		p = reflect.ValueOf(buildDN(g, in.N)[0])
	case "WN":
		p = reflect.ValueOf(buildWN(g, in.N)[0])
	case "AN":
		p = reflect.ValueOf(buildAN(g, in.N)[0])
	default:
		p = reflect.ValueOf(buildPN(g, in.N)[0])
	}
	nt := p.Type().Elem()
	if in.Mode == 0 {
		switch {
		case in.Root == 1 && m.IsValid() && !m.IsNil():
			return m, nt
		case in.Root == 2 && sl.IsValid() && !sl.IsNil():
			return sl, nt
		case in.Root == 3:
			// the struct BY VALUE (a shallow, non-addressable copy: pointers in the graph
			// that refer to the node itself refer to the original, not to this value)
			return reflect.ValueOf(p.Elem().Interface()), nt
		}
	}
	return p, nt
}

func runImpl(in input, root reflect.Value) (reflect.Value, error) {
	if in.Mode == 0 {
		return dials.VerifDeepCopy(root), nil
	}
	ctx := context.Background()
	switch t := root.Interface().(type) {
	case *SN:
		d, err := dials.Config(ctx, t)
		if err != nil {
			return reflect.Value{}, err
		}
		return reflect.ValueOf(d.View()), nil
	case *IN:
		d, err := dials.Config(ctx, t)
		if err != nil {
			return reflect.Value{}, err
		}
		return reflect.ValueOf(d.View()), nil
	case *PN:
		d, err := dials.Config(ctx, t)
		if err != nil {
			return reflect.Value{}, err
		}
		return reflect.ValueOf(d.View()), nil
	}
	panic("unknown root type")
}

func child() {
	debug.SetMaxStack(64 << 20)
	rd := bufio.NewReaderSize(os.Stdin, 1<<20)
	out := bufio.NewWriter(os.Stdout)
	for {
		line, err := rd.ReadString('\n')
		if line == "" && err != nil {
			return
		}
		var in input
		if e := json.Unmarshal([]byte(line), &in); e != nil {
			panic(e)
		}
		if in.K == "interior" || in.K == "big" {
			b, _ := json.Marshal(announce{Explore: true})
			fmt.Fprintf(out, "I %s\n", b)
			out.Flush()
			var oc outcome
			var tg []string
			if in.K == "big" {
				oc.Direct, tg = exploreBig(in)
			} else {
				oc.Direct, tg = exploreInterior(in)
			}
			oc.Heap = tg // (tags travel in the heap slot of the outcome for exploration cases)
			b, _ = json.Marshal(oc)
			fmt.Fprintf(out, "O %s\n", b)
			out.Flush()
			continue
		}
		root, nodeType := buildRoot(in)
		before := graphwalk.Canon(root)
		w := graphwalk.New()
		w.Scan(root)
		w.Freeze()
		rootTerm := w.Term(root)
		nIn := w.Next()
		sh := &shape{indeg: map[[2]uintptr]int{}, onStack: map[[2]uintptr]bool{}, slices: map[uintptr]int{}}
		sh.walk(root, false, [2]uintptr{9, 0})
		tags := []string{"fam-" + in.Fam, fmt.Sprintf("mode-%d", in.Mode), "root-" + root.Kind().String()}
		for name, b := range map[string]bool{"self-loop": sh.selfLoop, "cycle": sh.cycle, "iface-backref": sh.ifaceBack,
			"shared-map": sh.sharedMap, "diamond": sh.shared > 0, "shared-via-iface": sh.sharedViaIface > 0,
			"shared-array": sh.sliceShare > 0, "long-cycle": sh.cycle && !sh.selfLoop} {
			if b {
				tags = append(tags, name)
			}
		}
		switch {
		case sh.nodes <= 2:
			tags = append(tags, "nodes-1..2")
		case sh.nodes <= 8:
			tags = append(tags, "nodes-3..8")
		default:
			tags = append(tags, "nodes-9+")
		}
		tg, troot := typeGraph(nodeType)
		a := announce{Heap: w.Objs(0), NIn: nIn, Root: rootTerm, TG: tg, TRoot: troot, Tags: tags,
			Nontrivial: sh.cycle || sh.shared > 0}
		b, _ := json.Marshal(a)
		fmt.Fprintf(out, "I %s\n", b)
		out.Flush()
		nObjs := w.NumObjs()

		res, err := runImpl(in, root)
		var oc outcome
		if err != nil {
			oc.Direct = append(oc.Direct, "Config returned an error: "+err.Error())
			oc.Root = ""
		} else {
			w.Scan(res)
			w.Freeze()
			w.ResetTouched()
			oc.Root = w.Term(res)
			oc.Heap = w.Objs(nObjs)
			for id := range w.Touched {
				if id < nIn {
					oc.Direct = append(oc.Direct, "the copy shares memory with the input (pointer, map or backing array)")
					break
				}
			}
			if !hasRefKeys(root, map[[2]uintptr]bool{}) && !reflect.DeepEqual(root.Interface(), res.Interface()) {
				oc.Direct = append(oc.Direct, "reflect.DeepEqual(input, copy) = false")
			}
			if graphwalk.Canon(res) != before {
				oc.Direct = append(oc.Direct, "the copy is not isomorphic to the input (contents or alias partition differ)")
			}
		}
		if graphwalk.Canon(root) != before {
			oc.Direct = append(oc.Direct, "the input was modified")
		}
		b, _ = json.Marshal(oc)
		fmt.Fprintf(out, "O %s\n", b)
		out.Flush()
	}
}

// ---- parent side: a persistent child, restarted after every crash ----

type childProc struct {
	cmd   *exec.Cmd
	in    io.WriteCloser
	lines chan string
}

var cur *childProc

func startChild() *childProc {
	exe, err := os.Executable()
	if err != nil {
		panic(err)
	}
	cmd := exec.Command(exe)
	cmd.Env = append(os.Environ(), "VERIF_C03_CHILD=1")
	stdin, _ := cmd.StdinPipe()
	stdout, _ := cmd.StdoutPipe()
	cmd.Stderr = nil
	if err := cmd.Start(); err != nil {
		panic(err)
	}
	c := &childProc{cmd: cmd, in: stdin, lines: make(chan string, 4)}
	go func() {
		rd := bufio.NewReaderSize(stdout, 1<<20)
		for {
			l, err := rd.ReadString('\n')
			if l != "" {
				c.lines <- l
			}
			if err != nil {
				close(c.lines)
				return
			}
		}
	}()
	return c
}

func (c *childProc) kill() {
	c.in.Close()
	c.cmd.Process.Kill()
	c.cmd.Wait()
}

func (c *childProc) read(timeout time.Duration) (string, bool) {
	select {
	case l, ok := <-c.lines:
		return l, ok
	case <-time.After(timeout):
		return "", false
	}
}

func run(raw json.RawMessage) driver.Result {
	var in input
	if err := json.Unmarshal(raw, &in); err != nil {
		panic(err)
	}
	if cur == nil {
		cur = startChild()
	}
	if _, err := cur.in.Write(append(append([]byte{}, raw...), '\n')); err != nil {
		cur.kill()
		cur = startChild()
		cur.in.Write(append(append([]byte{}, raw...), '\n'))
	}
	l, ok := cur.read(60 * time.Second)
	if !ok || !strings.HasPrefix(l, "I ") {
		// the child could not even build the input: machinery failure
		panic("c03 child failed before announcing the case: " + l)
	}
	var a announce
	if err := json.Unmarshal([]byte(l[2:]), &a); err != nil {
		panic(err)
	}
	if a.Explore {
		l, ok = cur.read(60 * time.Second)
		res := driver.Result{Coq: "Explore", Kind: in.K + "-exploration"}
		if !ok || !strings.HasPrefix(l, "O ") {
			cur.kill()
			cur = nil
			res.Direct = []string{"exploration (" + in.K + "): the implementation did not terminate (child process died or hung)"}
			res.Tags = []string{in.K + "-exploration", "impl-crashed"}
			return res
		}
		var oc outcome
		if err := json.Unmarshal([]byte(l[2:]), &oc); err != nil {
			panic(err)
		}
		res.Direct, res.Tags = oc.Direct, oc.Heap
		return res
	}
	heap := a.Heap
	impl := "None"
	var direct []string
	tags := a.Tags
	l, ok = cur.read(60 * time.Second)
	if !ok || !strings.HasPrefix(l, "O ") {
		// died (fatal stack overflow) or hung while running this case
		cur.kill()
		cur = nil
		tags = append(tags, "impl-crashed")
	} else {
		var oc outcome
		if err := json.Unmarshal([]byte(l[2:]), &oc); err != nil {
			panic(err)
		}
		direct = oc.Direct
		if oc.Root != "" {
			heap = append(heap, oc.Heap...)
			impl = "(Some " + oc.Root + ")"
		}
	}
	return driver.Result{
		Coq:  fmt.Sprintf("Graph %d %s %d %s %s %s %d", in.Mode, coqfmt.List(heap), a.NIn, a.Root, impl, a.TG, a.TRoot),
		Kind: fmt.Sprintf("%s-mode%d", in.Fam, in.Mode), Nontrivial: a.Nontrivial, Direct: direct, Tags: tags,
	}
}

func genInputs(r *coqfmt.Rng, n int, tier string) []json.RawMessage {
	var out []json.RawMessage
	maxN := 8
	if tier == "thorough" {
		maxN = 40
	}
	add := func(in input) {
		b, _ := json.Marshal(in)
		out = append(out, b)
	}
	// Config on a type that reaches itself through pointer-to-struct fields (finding 15): a few per run
	for i := 0; i < 3; i++ {
		add(input{K: "gen", State: r.U64(), Fam: "PN", N: 1 + r.Intn(3), PNil: 8 * (i % 2), Mode: 1})
	}
	// long chains and big rings (600-3000 nodes), implementation-only oracles: a few per run
	nbig := 6
	if tier == "thorough" {
		nbig = 60
	}
	for i := 0; i < nbig; i++ {
		fam := []string{"PN", "SNslice", "SNmap"}[i%3]
		mode := 0
		if fam != "PN" && i%2 == 1 {
			mode = 1
		}
		add(input{K: "big", State: r.U64(), Fam: fam, N: 600 + r.Intn(2400), Mode: mode})
	}
	for i := 0; i < n/25; i++ {
		add(input{K: "interior", State: r.U64(), Fam: "IP", N: 1 + r.Intn(4), Mode: r.Intn(2)})
	}
	for i := 0; i < n; i++ {
		fam := []string{"SN", "SN", "IN", "IN", "IN", "PN", "DN", "WN", "AN"}[r.Intn(9)]
		mode := r.Intn(2)
		if fam == "PN" || fam == "DN" || fam == "WN" || fam == "AN" {
			mode = 0
		}
		nn := 1 + r.Intn(maxN)
		if r.Chance(1, 5) {
			nn = 1 + r.Intn(3)
		} else if r.Chance(1, 2) {
			nn = maxN - r.Intn(maxN/2+1)
		}
		add(input{K: "gen", State: r.U64(), Fam: fam, N: nn, PNil: []int{1, 1, 2, 3, 5, 7}[r.Intn(6)], Mode: mode, Style: r.Intn(3),
			Root: []int{0, 0, 0, 1, 2, 3}[r.Intn(6)]})
	}
	return out
}

func main() {
	if os.Getenv("VERIF_C03_CHILD") == "1" {
		child()
		return
	}
	defer func() {
		if cur != nil {
			cur.kill()
		}
	}()
	driver.Main(driver.Engine{
		Prop: "C03", CoqImport: "Dials.Check.C03Check", CoqRun: "run_cases",
		Rule: "random object graphs over the node types SN{MM map[string]map[string]*SN; Kids []*SN; M map[string]*SN; Arr [2]*SN; Ms []map[string]*SN; Grid [][2]*SN; Box [1][2]*SN; Rows [2][]*SN; MArr map[string][2]*SN; Ch chan int; priv int} (inner maps of MM shared with M / Ms), " +
			"IN{PI *int; PL *[]interface{}; PM *map[string]interface{}; Any interface{}; Anys []interface{}; MA map[string]interface{}} (payloads: *IN, typed nil pointers, *SN, shared maps, slices, struct and array values, and pointers to non-structs *int / *string / *[]interface{} / *map[string]interface{} shared with the typed fields and with each other, also cyclic) " +
			"and PN{Next, Other *PN}; nil-probability of a reference swept over {1,2,3,5,7}/8, three target styles (self/back/anywhere, no self references, mostly the next node); shared maps, " +
			"shared and offset slices; each graph goes through VerifDeepCopy (root handed over as pointer, map, slice or struct value) or through dials.Config(ctx,&root)+View in a child process; " +
			"non-trivial: the graph below the root has a cycle or a pointer/map referenced at least twice; distinct = distinct PRNG case states",
		Gen: genInputs, Run: run,
	})
}
