// c19: correspondence harness for case conversion (property C19).
package main

import (
	"encoding/json"
	"fmt"
	"strings"

	cc "github.com/vimeo/dials/tagformat/caseconversion"

	"verifharness/internal/coqfmt"
	"verifharness/internal/driver"
	"verifharness/internal/initsrc"
)

type tok struct {
	I bool   `json:"i"`
	S string `json:"s"`
}

type input struct {
	K      string   `json:"k"`
	Scheme int      `json:"scheme,omitempty"`
	Words  []string `json:"words,omitempty"`
	Toks   []tok    `json:"toks,omitempty"`
	Dec    int      `json:"dec,omitempty"`
	S      string   `json:"s,omitempty"`
}

var encoders = []cc.EncodeCasingFunc{cc.EncodeUpperCamelCase, cc.EncodeLowerCamelCase, cc.EncodeLowerSnakeCase,
	cc.EncodeUpperSnakeCase, cc.EncodeKebabCase, cc.EncodeCasePreservingSnakeCase}
var decoders = []cc.DecodeCasingFunc{cc.DecodeUpperCamelCase, cc.DecodeLowerCamelCase, cc.DecodeLowerSnakeCase,
	cc.DecodeUpperSnakeCase, cc.DecodeKebabCase, cc.DecodeCasePreservingSnakeCase, cc.DecodeGoCamelCase, cc.DecodeGoTags}

func decode(i int, s string) (out string) {
	defer func() {
		if r := recover(); r != nil {
			out = "(Panic 0)"
		}
	}()
	ws, err := decoders[i](s)
	return driver.Outcome(coqfmt.Strs(ws), err, false)
}

func run(raw json.RawMessage) driver.Result {
	var in input
	if err := json.Unmarshal(raw, &in); err != nil {
		panic(err)
	}
	switch in.K {
	case "rt":
		enc := encoders[in.Scheme](cc.DecodedIdentifier(in.Words))
		snapshot := string(append([]byte(nil), enc...)) // a copy that shares no memory with enc
		// results are values: what later calls of the encoders and decoders do must not change an encoded
		// name (or a decoded word list) handed out earlier - names are kept in tables and used much later
		other := make([]string, 0, len(in.Words)+1)
		for i := len(in.Words) - 1; i >= 0; i-- {
			other = append(other, strings.ToUpper(in.Words[i])+"q")
		}
		other = append(other, "zz9")
		firstWords, firstErr := decoders[in.Scheme](enc)
		var firstCopy []string
		for _, w := range firstWords {
			firstCopy = append(firstCopy, string(append([]byte(nil), w...)))
		}
		for _, e := range encoders {
			_ = e(cc.DecodedIdentifier(other))
		}
		_, _ = decoders[in.Scheme](encoders[in.Scheme](cc.DecodedIdentifier(other)))
		var direct []string
		if enc != snapshot {
			direct = append(direct, fmt.Sprintf("an encoded name changed after later encoder calls: %q became %q", snapshot, enc))
		}
		if firstErr == nil {
			for i := range firstWords {
				if firstWords[i] != firstCopy[i] {
					direct = append(direct, fmt.Sprintf("a decoded word changed after later calls: %q became %q", firstCopy[i], firstWords[i]))
				}
			}
		}
		dec := decode(in.Scheme, snapshot)
		return driver.Result{
			Coq:        fmt.Sprintf("RoundTrip %d %s %s %s", in.Scheme, coqfmt.Strs(in.Words), coqfmt.Str(snapshot), dec),
			Kind:       fmt.Sprintf("roundtrip-scheme%d", in.Scheme),
			Nontrivial: len(in.Words) >= 2,
			Tags:       []string{fmt.Sprintf("rt-words-%d", len(in.Words))},
			Direct:     direct,
		}
	case "go":
		var sb strings.Builder
		parts := make([]string, len(in.Toks))
		ninit := 0
		for i, t := range in.Toks {
			sb.WriteString(t.S)
			parts[i] = fmt.Sprintf("(%s, %s)", coqfmt.Bool(t.I), coqfmt.Str(t.S))
			if t.I {
				ninit++
			}
		}
		dec := decode(6, sb.String())
		return driver.Result{
			Coq:        fmt.Sprintf("GoName %s %s", coqfmt.List(parts), dec),
			Kind:       "goname",
			Nontrivial: len(in.Toks) >= 2 && ninit >= 1,
			Tags:       []string{fmt.Sprintf("go-toks-%d", len(in.Toks)), fmt.Sprintf("go-inits-%d", ninit)},
		}
	case "raw":
		dec := decode(in.Dec, in.S)
		cls := "raw-ok"
		if strings.HasPrefix(dec, "(Err") {
			cls = "raw-err"
		}
		return driver.Result{
			Coq:  fmt.Sprintf("Raw %d %s %s", in.Dec, coqfmt.Str(in.S), dec),
			Kind: fmt.Sprintf("raw-dec%d", in.Dec), Tags: []string{cls},
		}
	}
	panic("bad kind " + in.K)
}

// words with a meaning somewhere else: Go keywords and predeclared names, lower-cased initialisms, literals
var specialWords = []string{"type", "go", "if", "map", "range", "default", "func", "var", "for", "chan", "case", "select",
	"struct", "interface", "import", "package", "return", "switch", "const", "else", "goto", "break", "defer", "continue", "fallthrough",
	"nil", "true", "false", "int", "string", "error", "len", "new", "make", "iota", "any", "id", "ip", "url", "api", "http", "https",
	"json", "uid", "uuid", "utf8", "vm", "ui", "tcp", "null", "nan", "inf", "x", "e1", "e"}

func genWord(r *coqfmt.Rng) string {
	if r.Chance(1, 8) {
		return coqfmt.Pick(r, specialWords)
	}
	n := 1 + r.Intn(6)
	if r.Chance(1, 4) {
		n = 1
	}
	b := make([]byte, n)
	b[0] = byte('a' + r.Intn(26))
	for i := 1; i < n; i++ {
		if r.Chance(1, 4) {
			b[i] = byte('0' + r.Intn(10))
		} else {
			b[i] = byte('a' + r.Intn(26))
		}
	}
	return string(b)
}

var vocab = []string{"User", "File", "Port", "Name", "Path", "Is", "As", "Sha256", "Port2", "Key", "Ab", "Docs",
	"Server", "Max", "Conns", "Timeout", "V2", "X1y", "Config", "Id", "Ids", "Db"}

func genCapWord(r *coqfmt.Rng) string {
	if r.Chance(2, 3) {
		return coqfmt.Pick(r, vocab)
	}
	w := genWord(r)
	if len(w) < 2 {
		w += string(byte('a' + r.Intn(26)))
	}
	return strings.ToUpper(w[:1]) + w[1:]
}

const anyAlphabet = "abzABZ09_-.':.' /a9"

func genAnyWord(r *coqfmt.Rng) string {
	n := r.Intn(7)
	b := make([]byte, n)
	for i := range b {
		if r.Chance(1, 12) {
			b[i] = byte(r.Intn(128))
		} else {
			b[i] = anyAlphabet[r.Intn(len(anyAlphabet))]
		}
	}
	return string(b)
}

const rawAlphabet = "abcxyzABCXYZ019_-_-aAzZ $.é"

var baselineInitialisms = []string{"ACL", "API", "ASCII", "CPU", "CSS", "DNS", "EOF", "GUID", "HTML", "HTTP", "HTTPS", "ID", "IP", "JSON", "LHS", "QPS", "RAM", "RHS", "RPC", "SLA", "SMTP", "SQL", "SSH", "TCP", "TLS", "TTL", "UDP", "UI", "UID", "UUID", "URI", "URL", "UTF8", "VM", "XML", "XMPP", "XSRF", "XSS"}

func gen(r *coqfmt.Rng, n int, tier string) []json.RawMessage {
	inits, err := initsrc.Load()
	if err != nil {
		panic(err)
	}
	// names are assembled from the COMMON initialisms of the pinned tree as well as the
	// source's current list: an initialism that disappears from the source must show
	have := map[string]bool{}
	for _, i := range inits {
		have[i] = true
	}
	for _, b := range baselineInitialisms {
		if !have[b] {
			inits = append(inits, b)
		}
	}
	var out []json.RawMessage
	add := func(in input) {
		b, _ := json.Marshal(in)
		out = append(out, b)
	}
	for i := 0; i < n; i++ {
		switch x := r.Intn(10); {
		case x < 4:
			nw := 1 + r.Intn(8)
			if r.Chance(1, 6) {
				nw = 9 + r.Intn(40) // long identifiers: fixed-size buffers, length arithmetic
			}
			ws := make([]string, nw)
			for j := range ws {
				ws[j] = genWord(r)
				if r.Chance(1, 10) {
					ws[j] += genWord(r) + genWord(r) // long words
				}
			}
			if r.Chance(1, 4) {
				// arbitrary ASCII words (outside the theorems' [a-z][a-z0-9]*): encoder and decoder are
				// compared with the model only; exercises x/text's title casing after digits, at
				// inner word boundaries and around mid-word punctuation
				nw = r.Intn(5)
				ws = make([]string, nw)
				for j := range ws {
					ws[j] = genAnyWord(r)
				}
			}
			scheme := r.Intn(6)
			add(input{K: "rt", Scheme: scheme, Words: ws})
			if r.Chance(1, 3) {
				// the same letters cut into words at other places, same scheme, same process: an encoding or
				// decoding remembered under anything less than the word LIST must not leak from one to the other
				all := strings.Join(ws, "")
				var ws2 []string
				for len(all) > 0 {
					k := 1 + r.Intn(4)
					if k > len(all) {
						k = len(all)
					}
					ws2 = append(ws2, all[:k])
					all = all[k:]
				}
				add(input{K: "rt", Scheme: scheme, Words: ws2})
				add(input{K: "rt", Scheme: scheme, Words: ws})
			}
		case x < 8:
			nt := 1 + r.Intn(5)
			ts := make([]tok, nt)
			for j := range ts {
				if r.Chance(2, 5) {
					ts[j] = tok{I: true, S: coqfmt.Pick(r, inits)}
				} else {
					ts[j] = tok{I: false, S: genCapWord(r)}
				}
			}
			add(input{K: "go", Toks: ts})
		default:
			l := r.Intn(12)
			var sb strings.Builder
			ascii := []rune(rawAlphabet)
			// mostly-valid identifiers plus a malformed stream
			for j := 0; j < l; j++ {
				c := ascii[r.Intn(len(ascii))]
				if c >= 128 { // the model is ASCII-only: keep compared inputs inside ASCII
					c = '~'
				}
				sb.WriteRune(c)
			}
			s := sb.String()
			if r.Chance(1, 3) {
				// a name built from tokens but with separators / lower-case starts
				s = strings.ToLower(genCapWord(r)) + coqfmt.Pick(r, []string{"_", "-", "", "__"}) + coqfmt.Pick(r, inits) + genCapWord(r)
			}
			add(input{K: "raw", Dec: r.Intn(8), S: s})
		}
	}
	return out
}

func corpus() []json.RawMessage {
	var out []json.RawMessage
	for _, n := range [][]tok{
		{{false, "User"}, {true, "UID"}}, {{true, "HTTPS"}, {false, "Port"}}, {{false, "Sha256"}, {true, "URL"}},
		{{true, "JSON"}, {false, "File"}}, {{false, "User"}, {true, "ID"}}, {{true, "HTTP"}, {false, "Port"}},
		{{true, "JSON"}, {false, "Is"}}, {{true, "XML"}, {true, "JSON"}, {true, "API"}}} {
		b, _ := json.Marshal(input{K: "go", Toks: n})
		out = append(out, b)
	}
	return out
}

func main() {
	driver.Main(driver.Engine{
		Prop: "C19", CoqImport: "Dials.Check.C19Check", CoqRun: "run_cases",
		Rule: "round-trip cases: scheme x random word list over [a-z][a-z0-9]* (non-trivial: >=2 words); Go names: random token lists over a capitalised-word vocabulary and the source's initialism list (non-trivial: >=2 tokens and >=1 initialism); raw: random ASCII strings through all 8 decoders (never counted non-trivial); distinct = distinct JSON inputs",
		Gen:  gen, Run: run, Corpus: corpus(),
	})
}
