// c02: correspondence harness for "config versions are isolated snapshots;
// inputs are never modified" (property C02).
//
//	stack2   random config types (reflect.StructOf, as for C01), random defaults
//	         and 0-3 layers with references deliberately SHARED between the
//	         defaults and layers and between two layers (maps, slices incl.
//	         sub-slices, user pointers, pointers to nested structs); the same
//	         inputs are stacked twice through dials.VerifCompose.
//	history  a real dials.Config over a fixed config type with a static source
//	         and a watching source that reports k further values (sharing
//	         memory with the defaults and with values reported earlier); every
//	         View() is kept.
//
// Direct oracles on the implementation (Result.Direct): no version shares a
// pointer, map or backing array with an input or with another version; the
// inputs are unchanged (canonical snapshot before / after); two stackings of
// the same inputs are deeply equal.
package main

import (
	"context"
	"encoding/json"
	"errors"
	"fmt"
	"reflect"
	"strings"
	"time"

	"github.com/vimeo/dials"
	"github.com/vimeo/dials/ptrify"

	"verifharness/internal/coqfmt"
	"verifharness/internal/driver"
	"verifharness/internal/graphwalk"
	"verifharness/internal/rty"
)

type input struct {
	K       string `json:"k"` // stack2 | history
	State   uint64 `json:"state"`
	Depth   int    `json:"depth"`
	Width   int    `json:"width"`
	Updates int    `json:"updates"`
}

// ---- planting shared references ----

func collectSlots(v reflect.Value, out map[reflect.Type][]reflect.Value) {
	t := v.Type()
	for i := 0; i < v.NumField(); i++ {
		if t.Field(i).PkgPath != "" {
			continue
		}
		f := v.Field(i)
		switch f.Kind() {
		case reflect.Map, reflect.Slice:
			out[f.Type()] = append(out[f.Type()], f)
		case reflect.Ptr:
			out[f.Type()] = append(out[f.Type()], f)
			if !f.IsNil() && f.Type().Elem().Kind() == reflect.Struct {
				collectSlots(f.Elem(), out)
			}
		case reflect.Struct:
			collectSlots(f, out)
		}
	}
}

// share aliases slots of equal type across the given struct values; returns how many were planted
func share(r *coqfmt.Rng, roots []reflect.Value, num, den int) int {
	slots := map[reflect.Type][]reflect.Value{}
	var order []reflect.Type
	for _, root := range roots {
		before := len(slots)
		_ = before
		collectSlots(root, slots)
	}
	// deterministic order of types: by first slot appearance
	seen := map[reflect.Type]bool{}
	var visit func(v reflect.Value)
	visit = func(v reflect.Value) {
		t := v.Type()
		for i := 0; i < v.NumField(); i++ {
			if t.Field(i).PkgPath != "" {
				continue
			}
			f := v.Field(i)
			switch f.Kind() {
			case reflect.Map, reflect.Slice, reflect.Ptr:
				if !seen[f.Type()] {
					seen[f.Type()] = true
					order = append(order, f.Type())
				}
				if f.Kind() == reflect.Ptr && !f.IsNil() && f.Type().Elem().Kind() == reflect.Struct {
					visit(f.Elem())
				}
			case reflect.Struct:
				visit(f)
			}
		}
	}
	for _, root := range roots {
		visit(root)
	}
	planted := 0
	for _, t := range order {
		ss := slots[t]
		if len(ss) < 2 {
			continue
		}
		for k := 0; k < len(ss); k++ {
			if !r.Chance(num, den) {
				continue
			}
			i, j := r.Intn(len(ss)), r.Intn(len(ss))
			if i == j || ss[i].IsNil() || !ss[j].CanSet() {
				continue
			}
			src := ss[i]
			if t.Kind() == reflect.Slice && src.Len() > 1 && r.Chance(1, 3) {
				src = src.Slice(1, src.Len()) // same backing array, other offset
			}
			ss[j].Set(src)
			planted++
		}
	}
	return planted
}

// ---- stack2 ----

// sliceSlots lists, in field order, the settable slice-typed struct fields below v
// (through nested structs and non-nil pointers to structs).
func sliceSlots(v reflect.Value, out *[]reflect.Value) {
	t := v.Type()
	for i := 0; i < v.NumField(); i++ {
		if t.Field(i).PkgPath != "" {
			continue
		}
		f := v.Field(i)
		switch f.Kind() {
		case reflect.Slice:
			if f.CanSet() {
				*out = append(*out, f)
			}
		case reflect.Ptr:
			if !f.IsNil() && f.Type().Elem().Kind() == reflect.Struct {
				sliceSlots(f.Elem(), out)
			}
		case reflect.Struct:
			sliceSlots(f, out)
		}
	}
}

// emptyWithCap turns some slice slots into EMPTY, NON-NIL slices with spare capacity:
// a cleared slice s[:0] (old elements stay behind len) or a pre-sized make([]T, 0, n).
func emptyWithCap(r *coqfmt.Rng, roots []reflect.Value, num, den int) int {
	n := 0
	for _, root := range roots {
		var slots []reflect.Value
		sliceSlots(root, &slots)
		for _, s := range slots {
			if !r.Chance(num, den) {
				continue
			}
			if !s.IsNil() && s.Len() > 0 && r.Chance(1, 2) {
				s.Set(s.Slice(0, 0))
			} else {
				s.Set(reflect.MakeSlice(s.Type(), 0, 1+r.Intn(3)))
			}
			n++
		}
	}
	return n
}

// scribble appends one element (different from what is behind len) to every slice
// slot of the config below root that has spare capacity - what a user of the config
// may do with memory that belongs to the config alone.
func scribble(r *coqfmt.Rng, root reflect.Value) int {
	var slots []reflect.Value
	sliceSlots(root, &slots)
	n := 0
	for _, s := range slots {
		if s.IsNil() || s.Len() >= s.Cap() {
			continue
		}
		hidden := s.Slice(0, s.Cap()).Index(s.Len())
		tmp := reflect.New(s.Type().Elem()).Elem()
		for try := 0; try < 8; try++ {
			rty.GenValue(r, tmp, rty.VOpts{NilNum: 0, NilDen: 1}, 0)
			if !reflect.DeepEqual(tmp.Interface(), hidden.Interface()) {
				break
			}
		}
		s.Set(reflect.Append(s, tmp))
		n++
	}
	return n
}

func composeSafe(defaultsPtr reflect.Value, layers []reflect.Value) (res reflect.Value, err error, panicked bool) {
	defer func() {
		if r := recover(); r != nil {
			panicked = true
		}
	}()
	out, err := dials.VerifCompose(defaultsPtr.Interface(), layers)
	if err != nil {
		return reflect.Value{}, err, false
	}
	return reflect.ValueOf(out), nil, false
}

func intersects(a, b []int) bool {
	m := map[int]bool{}
	for _, x := range a {
		m[x] = true
	}
	for _, x := range b {
		if m[x] {
			return true
		}
	}
	return false
}

func anyBelow(xs []int, n int) bool {
	for _, x := range xs {
		if x < n {
			return true
		}
	}
	return false
}

func runStack2(in input) driver.Result {
	r := coqfmt.NewRng(in.State)
	o := rty.AllOpts(in.Depth, in.Width)
	o.Twins = true // sibling fields whose types differ only in skipped fields pointerify to the same type: their layer slots get aliased
	T := rty.GenStruct(r, o, 0)
	defaults := reflect.New(T)
	rty.GenValue(r, defaults.Elem(), rty.VOpts{NilNum: 1, NilDen: 4}, 0)
	PT := ptrify.Pointerify(T, defaults.Elem())
	nl := r.Intn(4)
	lptr := make([]reflect.Value, nl)
	roots := []reflect.Value{defaults.Elem()}
	for i := range lptr {
		lptr[i] = reflect.New(PT)
		rty.GenValue(r, lptr[i].Elem(), rty.VOpts{NilNum: r.Intn(4), NilDen: 4}, 0)
		roots = append(roots, lptr[i].Elem())
	}
	emptied := emptyWithCap(r, roots, 1, 3)
	planted := share(r, roots, 1, 2)
	layers := make([]reflect.Value, nl)
	for i := range layers {
		// how the source hands its value over: a pointer to the struct, the addressable
		// struct, or a plain NON-ADDRESSABLE struct value (a shallow copy of the struct:
		// same references)
		switch r.Intn(3) {
		case 0:
			layers[i] = lptr[i]
		case 1:
			layers[i] = lptr[i].Elem()
		default:
			layers[i] = reflect.ValueOf(lptr[i].Elem().Interface())
		}
	}

	w := graphwalk.New()
	w.Scan(defaults)
	for _, l := range lptr {
		w.Scan(l)
	}
	w.Freeze()
	w.Term(defaults)
	lids := make([]string, nl)
	for i, l := range lptr {
		w.Term(l)
		lids[i] = fmt.Sprint(w.PtrID(l))
	}
	did := w.PtrID(defaults)
	nIn := w.Next()
	before := make([]string, 0, nl+1)
	before = append(before, graphwalk.Canon(defaults))
	for _, l := range lptr {
		before = append(before, graphwalk.Canon(l))
	}

	res1, err1, p1 := composeSafe(defaults, layers)
	res2, err2, p2 := composeSafe(defaults, layers)

	var direct []string
	tags := []string{fmt.Sprintf("layers-%d", nl)}
	if planted > 0 {
		tags = append(tags, "shared-inputs")
	}
	if emptied > 0 {
		tags = append(tags, "empty-slice-with-cap")
	}
	after := []string{graphwalk.Canon(defaults)}
	for _, l := range lptr {
		after = append(after, graphwalk.Canon(l))
	}
	for i := range before {
		if before[i] != after[i] {
			direct = append(direct, fmt.Sprintf("input %d (0 = defaults) was modified by stacking", i))
		}
	}
	implTerm := ""
	switch {
	case p1 || p2:
		implTerm = "(Panic 0)"
		tags = append(tags, "impl-panic")
		if p1 != p2 {
			direct = append(direct, "stacking the same inputs twice: one call panicked, the other did not")
		}
	case err1 != nil || err2 != nil:
		implTerm = "(Err 0)"
		tags = append(tags, "impl-err")
		if (err1 == nil) != (err2 == nil) {
			direct = append(direct, "stacking the same inputs twice: one call failed, the other did not")
		}
	default:
		w.Scan(res1)
		w.Scan(res2)
		w.Freeze()
		w.ResetTouched()
		t1 := w.Term(res1)
		l1 := w.TouchedList()
		w.ResetTouched()
		t2 := w.Term(res2)
		l2 := w.TouchedList()
		if anyBelow(l1, nIn) || anyBelow(l2, nIn) {
			direct = append(direct, "the stacked config shares memory (pointer, map or backing array) with the defaults or a source value")
		}
		if intersects(l1, l2) {
			direct = append(direct, "two stackings of the same inputs share memory")
		}
		if graphwalk.Canon(res1) != graphwalk.Canon(res2) || !reflect.DeepEqual(res1.Interface(), res2.Interface()) {
			direct = append(direct, "two stackings of the same inputs are not deeply equal")
		}
		implTerm = "(Ok (" + t1 + ", " + t2 + "))"
		// a user appends (within capacity) to the slices of the first config: neither the
		// inputs nor the second config may notice
		c2 := graphwalk.Canon(res2)
		if scribble(r, res1.Elem()) > 0 {
			tags = append(tags, "appended-within-cap")
			now := []string{graphwalk.Canon(defaults)}
			for _, l := range lptr {
				now = append(now, graphwalk.Canon(l))
			}
			for i := range now {
				if now[i] != after[i] {
					direct = append(direct, fmt.Sprintf("an append (within capacity) to a slice of the config shows up in input %d (0 = defaults)", i))
				}
			}
			if graphwalk.Canon(res2) != c2 {
				direct = append(direct, "an append (within capacity) to a slice of one config shows up in the other stacking of the same inputs")
			}
		}
	}
	return driver.Result{
		Coq: fmt.Sprintf("Stack2 %s %s %d %d %s %s", rty.FieldsTerm(T), coqfmt.List(w.Objs(0)), nIn, did,
			coqfmt.List(lids), implTerm),
		Kind: "stack2", Nontrivial: planted > 0 && nl >= 1, Direct: direct, Tags: tags,
	}
}

// ---- history ----

type HSub struct {
	M map[string]int
	S []string
	P *int
	N int
}

// TURef implements encoding.TextUnmarshaler (pointer receiver) AND has exported
// reference-typed fields: dials replaces it as a whole when stacking, but its memory
// must be copied like everybody else's.
type TURef struct {
	S []string
	M map[string]int
	P *int
}

func (t *TURef) UnmarshalText(b []byte) error { t.S = []string{string(b)}; return nil }

// KS: a map KEY type that contains a pointer (comparable: the pointer's identity is part of the key)
type KS struct {
	K string
	P *int
}

// Verify makes HCfg a dials.VerifiedConfig: a stacked config with Reject set is refused
// (handed to OnWatchedError as the rejected newConfig, never installed).
func (c *HCfg) Verify() error {
	if c.Reject {
		return errors.New("rejected by Verify")
	}
	return nil
}

type HCfg struct {
	Reject bool
	MMap   map[string]map[string]int // map-valued map: one inner map may sit under two keys
	MSub   map[string]HSub           // structs held by value whose map / slice / pointer fields are shared between entries
	MK     map[KS]int                // struct keys containing pointers,
	MI     map[interface{}]string    // interface keys holding pointers / structs with pointers,
	MA     map[[1]*int]int           // array keys of pointers: the copier copies keys like values
	T      TURef
	PT     *TURef
	Name   string
	M      map[string][]int
	S      []int
	P      *int
	Sub    HSub
	PS     *HSub
	A      [2]*int
	SS     []HSub
	hidden int
}

type staticSrc struct {
	mk func(t *dials.Type) reflect.Value
}

func (s *staticSrc) Value(_ context.Context, t *dials.Type) (reflect.Value, error) {
	return s.mk(t), nil
}

type watchSrc struct {
	mk   func(t *dials.Type) reflect.Value
	typ  *dials.Type
	args dials.WatchArgs
}

func (s *watchSrc) Value(_ context.Context, t *dials.Type) (reflect.Value, error) {
	return s.mk(t), nil
}
func (s *watchSrc) Watch(_ context.Context, t *dials.Type, args dials.WatchArgs) error {
	s.typ, s.args = t, args
	return nil
}

// hcfgFieldsTerm prints HCfg's fields for Coq; TURef is a TextUnmarshaler struct (TTextU),
// which rty.TyTerm only knows for its own palette types.
func hcfgFieldsTerm() string {
	tu := rty.TyTerm(reflect.TypeOf(TURef{}))
	return strings.ReplaceAll(rty.FieldsTerm(reflect.TypeOf(HCfg{})), tu, "(TTextU "+coqfmt.Str("main.TURef")+" true)")
}

// fillKeyMaps populates the maps with reference-holding keys of one input (the defaults or a
// source value): fresh pointees with distinct contents, and pointers taken from `pool`
// (pointers other inputs hold as well, as keys or as values).
func fillKeyMaps(r *coqfmt.Rng, v reflect.Value, pool *[]*int, base int) {
	fresh := func(j int) *int {
		x := new(int)
		*x = base + j
		if len(*pool) < 6 {
			*pool = append(*pool, x)
		}
		return x
	}
	pick := func(j int) *int {
		if len(*pool) > 0 && r.Chance(1, 2) {
			return (*pool)[r.Intn(len(*pool))]
		}
		return fresh(j)
	}
	if f := v.FieldByName("MMap"); f.IsValid() {
		f.Set(reflect.Zero(f.Type()))
		if r.Chance(2, 3) {
			in1 := map[string]int{"x": base}
			in2 := map[string]int{"y": base + 1}
			m := map[string]map[string]int{"a": in1, "b": in2}
			if r.Chance(2, 3) {
				m["c"] = in1 // the same inner map under a second key
			}
			f.Set(reflect.ValueOf(m))
		}
	}
	if f := v.FieldByName("MSub"); f.IsValid() {
		f.Set(reflect.Zero(f.Type()))
		if r.Chance(1, 2) {
			sh := map[string]int{"s": base}
			f.Set(reflect.ValueOf(map[string]HSub{"p": {M: sh, N: 1}, "q": {M: sh, N: 2, P: pick(30)}}))
		}
	}
	if f := v.FieldByName("MK"); f.IsValid() {
		f.Set(reflect.Zero(f.Type()))
		if r.Chance(2, 3) {
			m := map[KS]int{}
			for j, k := 0, 1+r.Intn(2); j < k; j++ {
				m[KS{K: fmt.Sprintf("k%d", j), P: pick(j)}] = j
			}
			f.Set(reflect.ValueOf(m))
		}
	}
	if f := v.FieldByName("MI"); f.IsValid() {
		f.Set(reflect.Zero(f.Type()))
		if r.Chance(2, 3) {
			m := map[interface{}]string{"s": "plain"}
			m[pick(10)] = "ptr"
			if r.Chance(1, 2) {
				m[KS{K: "in-iface", P: pick(11)}] = "struct"
			}
			f.Set(reflect.ValueOf(m))
		}
	}
	if f := v.FieldByName("MA"); f.IsValid() {
		f.Set(reflect.Zero(f.Type()))
		if r.Chance(1, 2) {
			f.Set(reflect.ValueOf(map[[1]*int]int{{pick(20)}: 1}))
		}
	}
}

// genHistory builds, from the case's PRNG state alone, the caller's defaults and
// every value the three sources (one static, two watching: A and B) will ever return or
// report (3 + updates values of the pointerified type), with slots of later values aliased
// to earlier inputs, and the script of the run: updates of A and B, at most one Done of A
// (after which only B updates), error reports of either watcher.
func genHistory(in input) (*HCfg, []reflect.Value, int, []string) {
	r := coqfmt.NewRng(in.State)
	cfg := &HCfg{hidden: 7}
	rty.GenValue(r, reflect.ValueOf(cfg).Elem(), rty.VOpts{NilNum: 1, NilDen: 4}, 0)
	emptyWithCap(r, []reflect.Value{reflect.ValueOf(cfg).Elem()}, 1, 4)
	var keyPool []*int
	if cfg.P != nil {
		keyPool = append(keyPool, cfg.P) // also used as a map key component
	}
	fillKeyMaps(r, reflect.ValueOf(cfg).Elem(), &keyPool, 1000)
	cfg.Reject = false                              // the initial stacking must verify
	inputs := []reflect.Value{reflect.ValueOf(cfg)} // pointers to every input value
	pt := ptrify.Pointerify(reflect.TypeOf(HCfg{}), reflect.ValueOf(cfg).Elem())
	planted := 0
	for i := 0; i < 3+in.Updates; i++ {
		p := reflect.New(pt)
		rty.GenValue(r, p.Elem(), rty.VOpts{NilNum: r.Intn(4), NilDen: 4}, 0)
		emptyWithCap(r, []reflect.Value{p.Elem()}, 1, 4)
		fillKeyMaps(r, p.Elem(), &keyPool, 2000+100*i)
		if f := p.Elem().FieldByName("Reject"); i < 3 {
			f.Set(reflect.Zero(f.Type())) // the three initial source values leave it unset
		}
		roots := []reflect.Value{}
		for _, q := range inputs {
			roots = append(roots, q.Elem())
		}
		planted += shareInto(r, roots, p.Elem())
		inputs = append(inputs, p)
	}
	// the script
	var script []string
	doneAt := -1
	if in.Updates >= 2 && r.Chance(2, 3) {
		doneAt = r.Intn(in.Updates - 1) // A reports Done before update number doneAt: at least two updates of B follow
	}
	for i := 0; i < in.Updates; i++ {
		if i == doneAt {
			script = append(script, "doneA")
		}
		if r.Chance(1, 4) {
			if doneAt >= 0 && i >= doneAt || r.Chance(1, 2) {
				script = append(script, "errB")
			} else {
				script = append(script, "errA")
			}
		}
		if doneAt >= 0 && i >= doneAt || r.Chance(1, 2) {
			script = append(script, "B")
		} else {
			script = append(script, "A")
		}
	}
	return cfg, inputs, planted, script
}

func runHistory(in input, mutateDefaults bool) (driver.Result, []string) {
	cfg, inputs, planted, script := genHistory(in)
	var snaps []string
	next := 1
	mk := func(t *dials.Type) reflect.Value {
		p := inputs[next]
		next++
		if p.Type().Elem() != t.Type() {
			panic("c02: pointerified type differs from the one dials hands to sources")
		}
		// the three ways a source can hand its value over
		switch (in.State >> (2 * uint((next-1)%30))) % 3 {
		case 0:
			return p // pointer to the struct
		case 1:
			return reflect.ValueOf(p.Elem().Interface()) // plain, non-addressable struct value
		}
		return p.Elem() // addressable struct
	}
	ctx, cancel := context.WithCancel(context.Background())
	defer cancel()
	s0 := &staticSrc{mk: mk}
	s1 := &watchSrc{mk: mk}
	s2 := &watchSrc{mk: mk}
	var direct []string
	// configs refused by Verify() are handed to OnWatchedError: they are values dials REPORTED
	rejectedCh := make(chan *HCfg, 16)
	params := dials.Params[HCfg]{OnWatchedError: func(_ context.Context, _ error, _, newConfig *HCfg) {
		rejectedCh <- newConfig
	}}
	d, err := params.Config(ctx, cfg, s0, s1, s2)
	if err != nil {
		return driver.Result{Coq: "History FNil [] 0 0 [] []", Kind: "history", Direct: []string{"Config failed: " + err.Error()}}, nil
	}
	if mutateDefaults {
		// the caller keeps using its own struct after Config returned and assigns
		// new values to its fields (memory it shares with source values is left alone)
		cfg.Name += "!"
		cfg.S = []int{42}
		cfg.Sub.N++
		cfg.M = map[string][]int{"mutated": {1}}
		cfg.P = new(int)
		cfg.PS = &HSub{N: 99}
	}
	go func() {
		for range d.Events() {
		}
	}()
	versions := []reflect.Value{reflect.ValueOf(d.View())}
	curA, curB := 2, 3 // indices (in inputs) of the values of the watchers A and B in force
	inForce := [][2]int{{curA, curB}}
	rejected := []bool{false}   // per stacking: was it refused by Verify (and reported through OnWatchedError)?
	rejSnap := map[int]string{} // canonical snapshot of a refused config when it was reported
	doneSeen := false
	for _, ev := range script {
		uctx, ucancel := context.WithTimeout(ctx, 10*time.Second)
		switch ev {
		case "doneA":
			s1.args.Done(uctx) // A stops watching; its last value stays in force
			doneSeen = true
		case "errA":
			if err := s1.args.ReportError(uctx, fmt.Errorf("harness error A")); err != nil {
				direct = append(direct, "ReportError failed: "+err.Error())
			}
		case "errB":
			if err := s2.args.ReportError(uctx, fmt.Errorf("harness error B")); err != nil {
				direct = append(direct, "ReportError failed: "+err.Error())
			}
		default:
			src := s1
			if ev == "B" {
				src = s2
			}
			idx := next
			v := mk(src.typ)
			before := d.View()
			rerr := src.args.BlockingReportNewValue(uctx, v)
			// the value is in force from now on, whether or not the stacking was accepted
			if ev == "B" {
				curB = idx
			} else {
				curA = idx
			}
			if rerr == nil {
				versions = append(versions, reflect.ValueOf(d.View()))
				rejected = append(rejected, false)
			} else {
				// refused by Verify: wait for the rejected config handed to OnWatchedError
				var rc *HCfg
				for rc == nil {
					select {
					case rc = <-rejectedCh:
					case <-time.After(5 * time.Second):
						direct = append(direct, "BlockingReportNewValue failed and no rejected config was reported: "+rerr.Error())
						rc = &HCfg{}
					}
				}
				if d.View() != before {
					direct = append(direct, "a config refused by Verify() changed what View() returns")
				}
				versions = append(versions, reflect.ValueOf(rc))
				rejected = append(rejected, true)
				rejSnap[len(versions)-1] = graphwalk.Canon(reflect.ValueOf(rc))
			}
			inForce = append(inForce, [2]int{curA, curB})
		}
		ucancel()
	}
	for _, q := range inputs {
		snaps = append(snaps, graphwalk.Canon(q))
	}
	// (snapshots of the inputs are taken when the run is over and compared with a
	// replay of the same deterministic generation below)
	w := graphwalk.New()
	for _, q := range inputs {
		w.Scan(q)
	}
	for _, v := range versions {
		w.Scan(v)
	}
	w.Freeze()
	for _, q := range inputs {
		w.Term(q)
	}
	nIn := w.Next()
	vterms := make([]string, len(versions))
	var touched [][]int
	for i, v := range versions {
		w.ResetTouched()
		vterms[i] = w.Term(v)
		touched = append(touched, w.TouchedList())
	}
	for i := range touched {
		if anyBelow(touched[i], nIn) {
			direct = append(direct, fmt.Sprintf("version %d shares memory with the defaults or a reported value", i))
		}
		for j := i + 1; j < len(touched); j++ {
			if intersects(touched[i], touched[j]) {
				direct = append(direct, fmt.Sprintf("versions %d and %d share memory", i, j))
			}
		}
	}
	// the source values in force at every stacking: [static value; value of watcher A; value of watcher B]
	evTerms := make([]string, len(versions))
	for i := range versions {
		evTerms[i] = fmt.Sprintf("[%d; %d; %d]", w.PtrID(inputs[1]), w.PtrID(inputs[inForce[i][0]]), w.PtrID(inputs[inForce[i][1]]))
	}
	vcanon := make([]string, len(versions))
	for i, v := range versions {
		vcanon[i] = graphwalk.Canon(v)
	}
	nrej := 0
	for i, snap := range rejSnap {
		nrej++
		if vcanon[i] != snap {
			direct = append(direct, fmt.Sprintf("the config of stacking %d, refused by Verify() and reported to OnWatchedError, was modified afterwards", i))
		}
	}
	_ = rejected
	// the inputs must be exactly what the generator produced: regenerate them without dials
	if mutateDefaults {
		// (this run only serves the comparison of the versions)
	} else if exp := regenerate(in); len(exp) == len(snaps) {
		for i := range exp {
			if exp[i] != snaps[i] {
				direct = append(direct, fmt.Sprintf("input %d (0 = defaults) was modified by Config or re-stacking", i))
			}
		}
	} else {
		direct = append(direct, "input count differs from the dials-free regeneration")
	}
	tags := []string{fmt.Sprintf("updates-%d", in.Updates)}
	if doneSeen {
		tags = append(tags, "watcher-done-then-restacks")
	}
	if nrej > 0 {
		tags = append(tags, "verify-rejected-stackings")
	}
	if planted > 0 {
		tags = append(tags, "shared-inputs")
	}
	if !mutateDefaults {
		// a user appends (within capacity) to the slices of one version after the other:
		// no input and no other version may notice
		r2 := coqfmt.NewRng(in.State ^ 0x5c21bb1e)
		cur := append([]string{}, vcanon...)
		for i, v := range versions {
			if scribble(r2, v.Elem()) == 0 {
				continue
			}
			tags = append(tags, "appended-within-cap")
			cur[i] = graphwalk.Canon(v)
			for k, q := range inputs {
				if graphwalk.Canon(q) != snaps[k] {
					direct = append(direct, fmt.Sprintf("an append (within capacity) to a slice of version %d shows up in input %d (0 = defaults)", i, k))
				}
			}
			for j, u := range versions {
				if j != i && graphwalk.Canon(u) != cur[j] {
					direct = append(direct, fmt.Sprintf("an append (within capacity) to a slice of version %d shows up in version %d", i, j))
				}
			}
		}
	}
	return driver.Result{
		Coq: fmt.Sprintf("History %s %s %d %d %s %s", hcfgFieldsTerm(), coqfmt.List(w.Objs(0)), nIn,
			w.PtrID(inputs[0]), coqfmt.List(evTerms), coqfmt.List(vterms)),
		Kind: "history", Nontrivial: planted > 0 && in.Updates >= 1, Direct: direct, Tags: tags,
	}, vcanon
}

// shareInto aliases slots of `dst` to equal-typed non-nil slots of older roots.
func shareInto(r *coqfmt.Rng, older []reflect.Value, dst reflect.Value) int {
	old := map[reflect.Type][]reflect.Value{}
	for _, o := range older {
		collectSlots(o, old)
	}
	mine := map[reflect.Type][]reflect.Value{}
	collectSlots(dst, mine)
	var order []reflect.Type
	seen := map[reflect.Type]bool{}
	var visit func(v reflect.Value)
	visit = func(v reflect.Value) {
		t := v.Type()
		for i := 0; i < v.NumField(); i++ {
			if t.Field(i).PkgPath != "" {
				continue
			}
			f := v.Field(i)
			switch f.Kind() {
			case reflect.Map, reflect.Slice, reflect.Ptr:
				if !seen[f.Type()] {
					seen[f.Type()] = true
					order = append(order, f.Type())
				}
				if f.Kind() == reflect.Ptr && !f.IsNil() && f.Type().Elem().Kind() == reflect.Struct {
					visit(f.Elem())
				}
			case reflect.Struct:
				visit(f)
			}
		}
	}
	visit(dst)
	planted := 0
	for _, t := range order {
		cands := old[t]
		if len(cands) == 0 {
			continue
		}
		for _, s := range mine[t] {
			if !r.Chance(1, 3) || !s.CanSet() {
				continue
			}
			c := cands[r.Intn(len(cands))]
			if c.IsNil() {
				continue
			}
			s.Set(c)
			planted++
		}
	}
	return planted
}

// regenerate replays the generation of the inputs of a history case without dials.
func regenerate(in input) []string {
	_, inputs, _, _ := genHistory(in)
	out := make([]string, len(inputs))
	for i, q := range inputs {
		out[i] = graphwalk.Canon(q)
	}
	return out
}

func run(raw json.RawMessage) driver.Result {
	var in input
	if err := json.Unmarshal(raw, &in); err != nil {
		panic(err)
	}
	if in.K == "history" {
		res, plain := runHistory(in, false)
		_, mutated := runHistory(in, true)
		if len(plain) != len(mutated) {
			res.Direct = append(res.Direct, "a run in which the caller changes its defaults after Config has a different number of versions")
		} else {
			for i := range plain {
				if plain[i] != mutated[i] {
					res.Direct = append(res.Direct, fmt.Sprintf("version %d depends on changes the caller made to its defaults AFTER Config returned", i))
					break
				}
			}
		}
		return res
	}
	return runStack2(in)
}

func gen(r *coqfmt.Rng, n int, tier string) []json.RawMessage {
	var out []json.RawMessage
	for i := 0; i < n; i++ {
		var in input
		if i%8 == 7 {
			in = input{K: "history", State: r.U64(), Updates: r.Intn(6)}
		} else {
			depth := 1 + r.Intn(3)
			if tier == "thorough" {
				depth = 1 + r.Intn(4)
			}
			in = input{K: "stack2", State: r.U64(), Depth: depth, Width: 2 + r.Intn(5)}
		}
		b, _ := json.Marshal(in)
		out = append(out, b)
	}
	return out
}

func main() {
	driver.Main(driver.Engine{
		Prop: "C02", CoqImport: "Dials.Check.C02Check", CoqRun: "run_cases",
		Rule: "stack2: random struct types as for C01, random defaults and 0-3 layers, equal-typed maps / slices (also sub-slices) / pointers " +
			"aliased at random between the defaults and the layers and between layers, some slice fields made empty but non-nil with spare capacity (s[:0], make([]T,0,n)), stacked twice through VerifCompose, then elements appended within capacity to the first result; history: dials.Config over a " +
			"fixed type with a static and TWO watching sources, 0-5 updates scripted per case (updates of either watcher, error reports, at most one Done of the first watcher followed by >= 2 updates of the second), each new value aliasing slots of the defaults and of values reported earlier; " +
			"non-trivial: at least one reference is shared between inputs (and >= 1 layer / >= 1 update); distinct = distinct PRNG case states",
		Gen: gen, Run: run,
	})
}
