package main

// Greedy shrinker for replay files of the core harness:
//
//	build/core --shrink replays/C06/1-0.json --prop C06 [--theories coq/theories]
//
// deletes chunks of labels (halves, quarters, ... single labels) from the
// schedule as long as the verdict persists: the candidate is executed on the
// real Dials, its case is evaluated by Check/<prop>Check.check inside Coq, and
// it is kept when the verdict code is again non-zero (or the same direct
// failure is observed again).  When the original schedule is a schedule of the
// model, candidates the model does not enable (CoreCheck.model_enabled) are
// not tried at all.  Writes <file>.min.json next to the input.

import (
	"encoding/json"
	"fmt"
	"os"
	"os/exec"
	"path/filepath"
	"regexp"
	"strings"
)

func coqEval(theories, prop, body string) string {
	dir, err := os.MkdirTemp("", "coreshrink")
	if err != nil {
		panic(err)
	}
	defer os.RemoveAll(dir)
	src := "From Coq Require Import List NArith ZArith.\nFrom Dials Require Import Base.Outcome.\n" +
		"Require Import Dials.Core.CbMgr Dials.Core.Monitor Dials.Core.System Dials.Core.Concrete Dials.Check.CoreCheck Dials.Check." + prop + "Check.\n" +
		"Import ListNotations.\nOpen Scope N_scope.\n" + body + "\nPrint R.\n"
	f := filepath.Join(dir, "shrink.v")
	if err := os.WriteFile(f, []byte(src), 0o644); err != nil {
		panic(err)
	}
	cmd := exec.Command("coqc", "-Q", theories, "Dials", f)
	cmd.Dir = dir
	out, err := cmd.CombinedOutput()
	if err != nil {
		fmt.Fprintln(os.Stderr, "coqc failed:\n"+string(out))
		os.Exit(2)
	}
	flat := strings.Join(strings.Fields(string(out)), " ")
	m := regexp.MustCompile(`R = (.*?) : list`).FindStringSubmatch(flat)
	if m == nil {
		fmt.Fprintln(os.Stderr, "no result in coqc output:\n"+string(out))
		os.Exit(2)
	}
	return m[1]
}

func labelsCoq(ls []label) string {
	var parts []string
	for _, l := range ls {
		parts = append(parts, l.coq())
		if l.K == "recv" && l.MidCancel {
			parts = append(parts, label{K: "cancel", Tid: l.Tid}.coq())
		}
	}
	return "[" + strings.Join(parts, "; ") + "]"
}

// modelEnabled asks the model which candidate label lists are schedules
func modelEnabled(theories, prop string, setup setupT, cands [][]label) []bool {
	parts := make([]string, len(cands))
	for i, c := range cands {
		parts[i] = "model_enabled su " + labelsCoq(c)
	}
	res := coqEval(theories, prop, "Definition su := "+setup.coq()+".\nDefinition R := Eval vm_compute in ["+strings.Join(parts, ";\n ")+"].")
	var out []bool
	for _, w := range regexp.MustCompile(`true|false`).FindAllString(res, -1) {
		out = append(out, w == "true")
	}
	if len(out) != len(cands) {
		panic("modelEnabled: result length mismatch")
	}
	return out
}

type attempt struct {
	in      input
	coq     string
	direct  []string
	labels  []label
	diverge int
	crashed bool
}

func execute(in input) attempt {
	raw, _ := json.Marshal(in)
	res, cr := execChild(raw)
	a := attempt{in: in, coq: res.Coq, direct: res.Direct}
	if cr == nil {
		a.crashed = true
		return a
	}
	a.labels, a.diverge = cr.Labels, cr.Diverged
	return a
}

// verdicts evaluates Check.<prop>Check.check on the cases
func verdicts(theories, prop string, as []attempt) []int {
	parts := make([]string, len(as))
	for i, a := range as {
		parts[i] = "check (" + a.coq + ")"
	}
	res := coqEval(theories, prop, "Definition R := Eval vm_compute in ["+strings.Join(parts, ";\n ")+"].")
	var out []int
	for _, w := range regexp.MustCompile(`\d+`).FindAllString(res, -1) {
		var n int
		fmt.Sscanf(w, "%d", &n)
		out = append(out, n)
	}
	if len(out) != len(as) {
		panic("verdicts: result length mismatch: " + res)
	}
	return out
}

func sameFailure(base attempt, baseCode int, a attempt, code int) bool {
	if a.diverge > 0 {
		return false
	}
	if len(base.direct) > 0 {
		// the same direct oracle fires again
		for _, d := range a.direct {
			if d == base.direct[0] || strings.SplitN(d, ":", 2)[0] == strings.SplitN(base.direct[0], ":", 2)[0] {
				return true
			}
		}
		return false
	}
	if baseCode == 0 {
		return false
	}
	return code != 0 && (code == baseCode || (baseCode != 1 && code != 1))
}

func shrinkMain(file, prop, theories string) {
	b, err := os.ReadFile(file)
	if err != nil {
		panic(err)
	}
	var payload map[string]any
	if err := json.Unmarshal(b, &payload); err != nil {
		panic(err)
	}
	ins, _ := payload["inputs"].([]any)
	if len(ins) == 0 {
		fmt.Fprintln(os.Stderr, "replay file has no inputs")
		os.Exit(2)
	}
	var in input
	if err := json.Unmarshal([]byte(ins[0].(string)), &in); err != nil {
		panic(err)
	}
	if in.K != "labels" {
		// an old-style (seed / script) input: make it explicit by running it
		var x input
		json.Unmarshal(explicit(in), &x)
		in = x
		if in.K != "labels" {
			fmt.Fprintln(os.Stderr, "the process crashes while the schedule is generated; nothing to shrink on")
			os.Exit(1)
		}
	}
	base := execute(in)
	if base.crashed {
		base.direct = append(base.direct, "the process crashed during the schedule")
	}
	baseCode := 0
	if !base.crashed {
		baseCode = verdicts(theories, prop, []attempt{base})[0]
	}
	if baseCode == 0 && len(base.direct) == 0 {
		fmt.Println("the schedule does not fail (verdict 0, no direct failure): nothing to shrink")
		os.Exit(1)
	}
	cur := in.Labels
	useModel := !base.crashed && modelEnabled(theories, prop, *in.Setup, [][]label{base.labels})[0]
	fmt.Printf("shrinking %d labels (verdict %d, %d direct failures, model-enabled: %v)\n", len(cur), baseCode, len(base.direct), useModel)
	for chunk := (len(cur) + 1) / 2; chunk >= 1; {
		var cands [][]label
		for lo := 0; lo < len(cur); lo += chunk {
			hi := lo + chunk
			if hi > len(cur) {
				hi = len(cur)
			}
			c := append(append([]label{}, cur[:lo]...), cur[hi:]...)
			cands = append(cands, c)
		}
		keep := make([]bool, len(cands))
		for i := range keep {
			keep[i] = true
		}
		if useModel {
			keep = modelEnabled(theories, prop, *in.Setup, cands)
		}
		var tried []attempt
		var idx []int
		for i, c := range cands {
			if !keep[i] {
				continue
			}
			x := in
			x.Labels = c
			a := execute(x)
			if a.crashed {
				if base.crashed {
					tried, idx = []attempt{a}, []int{i}
					break
				}
				continue
			}
			if a.diverge == 0 {
				tried = append(tried, a)
				idx = append(idx, i)
			}
		}
		found := -1
		if len(tried) > 0 {
			if tried[0].crashed {
				found = 0
			} else {
				vs := verdicts(theories, prop, tried)
				for k, a := range tried {
					if sameFailure(base, baseCode, a, vs[k]) {
						found = k
						break
					}
				}
			}
		}
		if found >= 0 {
			cur = cands[idx[found]]
			fmt.Printf("  removed %d label(s): %d left\n", chunk, len(cur))
			if chunk > len(cur) {
				chunk = (len(cur) + 1) / 2
			}
			if len(cur) == 0 {
				break
			}
			continue
		}
		if chunk == 1 {
			break
		}
		chunk = (chunk + 1) / 2
	}
	in.Labels = cur
	in.Origin = "shrunk from " + in.Origin
	line, _ := json.Marshal(in)
	payload["inputs"] = []string{string(line)}
	payload["shrunk"] = fmt.Sprintf("labels %d -> %d by harness/cmd/core --shrink", len(base.in.Labels), len(cur))
	delete(payload, "case")
	out := strings.TrimSuffix(file, ".json") + ".min.json"
	ob, _ := json.MarshalIndent(payload, "", " ")
	if err := os.WriteFile(out, ob, 0o644); err != nil {
		panic(err)
	}
	fmt.Println("wrote", out)
	for _, l := range cur {
		fmt.Println("   ", l.coq())
	}
}
