package main

// Hook-free stress mode: real parallelism instead of a driven schedule.
// Reporter goroutines install versions as fast as they can while reader
// goroutines spin on ViewVersion / View / Events and a registrar keeps
// registering and unregistering a callback.  The config contents encode the
// number of installs (every report is valid and bumps exactly one counter
// field), so each single observation is decidable:
//   - a config and the serial read with it belong together (count == serial)
//   - per reader the serial / the viewed count never goes backwards
//   - the Events stream is strictly increasing
//   - every observed config verifies (A <= B) and was installed
//   - a registered callback only gets versions above its token, in increasing
//     order, with old = predecessor (or the token's config in the catch-up)
//   - a blocking report that returned nil is visible (View is at or past it)
// This is exploration of real interleavings, not proof: failures are reported
// through the direct oracles.

import (
	"context"
	"fmt"
	"reflect"
	"runtime"
	"sync"
	"sync/atomic"
	"time"

	"github.com/vimeo/dials"
)

const (
	baseB = 1000000
	baseC = 2000000
)

func stressCount(c *Cfg) uint64 { return uint64(c.A) + uint64(c.b()-baseB) + uint64(c.c()-baseC) }

type stressSource struct {
	wa  dials.WatchArgs
	typ *dials.Type
}

func (s *stressSource) Value(ctx context.Context, t *dials.Type) (reflect.Value, error) {
	return reflect.New(t.Type()), nil
}
func (s *stressSource) Watch(ctx context.Context, t *dials.Type, wa dials.WatchArgs) error {
	s.wa, s.typ = wa, t
	return nil
}

type violations struct {
	mu   sync.Mutex
	seen map[string]bool
	list []string
}

func (v *violations) add(format string, args ...any) {
	v.mu.Lock()
	defer v.mu.Unlock()
	kind := format
	if v.seen[kind] {
		return
	}
	v.seen[kind] = true
	v.list = append(v.list, "stress: "+fmt.Sprintf(format, args...))
}

func runStress(in input, emit func(string)) (res childResult) {
	if runtime.GOMAXPROCS(0) < 8 {
		runtime.GOMAXPROCS(8)
	}
	curMu.Lock()
	cur = nil
	curMu.Unlock()
	dials.VerifHook = nil
	reject := in.Mode == "reject"
	res.Kind = "stress-" + in.Mode
	viol := &violations{seen: map[string]bool{}}
	ctx, cancel := context.WithCancel(context.Background())
	nsrc := 3
	if reject {
		nsrc = 1
	}
	var srcs []*stressSource
	var dsrcs []dials.Source
	for i := 0; i < nsrc; i++ {
		s := &stressSource{}
		srcs = append(srcs, s)
		dsrcs = append(dsrcs, s)
	}
	var globalCalls, userCalls, reads, installsSeen atomic.Uint64
	p := dials.Params[Cfg]{
		OnNewConfig: func(ctx context.Context, old, nw *Cfg) {
			globalCalls.Add(1)
			if stressCount(old)+1 != stressCount(nw) {
				viol.add("OnNewConfig: old (%d installs) is not the predecessor of new (%d)", stressCount(old), stressCount(nw))
			}
		},
		OnWatchedError: func(ctx context.Context, err error, old, nw *Cfg) {},
	}
	setup := setupT{Def: [3]int{0, baseB, baseC}}
	for i := 0; i < nsrc; i++ {
		setup.Watching = append(setup.Watching, true)
		setup.Inits = append(setup.Inits, svJSON{})
	}
	emit("H " + setup.coq())
	res.Setup = setup
	d, err := p.Config(ctx, newCfg(0, baseB, baseC), dsrcs...)
	if err != nil {
		cancel()
		panic(harnessError("stress: Config failed: " + err.Error()))
	}
	res.Verifs, res.Res = "[(mkCfg 0 1000000 2000000, true)]", 0
	res.Init = "(mkObs (0, mkCfg 0 1000000 2000000) 0 0 0 0 [])"
	dur := time.Duration(in.N) * time.Millisecond
	if dur <= 0 {
		dur = 250 * time.Millisecond
	}
	deadline := time.Now().Add(dur)
	var wg sync.WaitGroup
	var installed atomic.Uint64 // reports that returned nil from the blocking variant / were sent
	// reporters
	for k := 0; k < nsrc; k++ {
		k := k
		wg.Add(1)
		go func() {
			defer wg.Done()
			s := srcs[k]
			n := 0
			for i := 1; time.Now().Before(deadline); i++ {
				var v sv
				x := i
				switch {
				case reject && i%3 == 0:
					bad := 5 * baseB // A > B: must be rejected and never seen
					v.A = &bad
				case reject:
					n++
					c := baseC + n
					v.C = &c
				case k == 0:
					v.A = &x
				case k == 1:
					b := baseB + i
					v.B = &b
				default:
					c := baseC + i
					v.C = &c
				}
				val := mkValue(s.typ, v)
				if reject || i%4 == 0 {
					err := s.wa.BlockingReportNewValue(ctx, val)
					switch {
					case reject && i%3 == 0:
						if err == nil {
							viol.add("a report failing Verify returned nil")
						}
					case err != nil:
						if ctx.Err() == nil {
							viol.add("a valid blocking report returned %v", err)
						}
					case reject:
						// read your write: the view is at or past this install
						if got := stressCount(d.View()); got < uint64(n) {
							viol.add("blocking report %d returned nil but View shows %d installs", n, got)
						}
					}
				} else if err := s.wa.ReportNewValue(ctx, val); err != nil && ctx.Err() == nil {
					viol.add("ReportNewValue returned %v", err)
				}
				installed.Add(1)
			}
		}()
	}
	checkCfg := func(who string, c *Cfg) {
		if c == nil {
			viol.add("%s: nil config", who)
			return
		}
		if c.A > c.b() {
			viol.add("%s: observed a config that does not verify (A=%d > B=%d)", who, c.A, c.b())
		}
	}
	// readers
	for r := 0; r < 4; r++ {
		wg.Add(1)
		go func() {
			defer wg.Done()
			var lastS, lastV uint64
			for time.Now().Before(deadline) {
				cfg, tok := d.ViewVersion()
				s := dials.VerifSerial(tok)
				checkCfg("ViewVersion", cfg)
				if cfg != nil && stressCount(cfg) != s {
					viol.add("ViewVersion: config of install %d returned with serial %d (config and serial do not belong together)", stressCount(cfg), s)
				}
				if s < lastS {
					viol.add("ViewVersion: serial went backwards (%d after %d)", s, lastS)
				}
				lastS = s
				v := d.View()
				checkCfg("View", v)
				if v != nil {
					if c := stressCount(v); c < lastV || c < s {
						viol.add("View: went backwards (%d installs after %d / serial %d)", c, lastV, s)
					} else {
						lastV = c
					}
				}
				reads.Add(1)
			}
		}()
	}
	// Events
	wg.Add(1)
	go func() {
		defer wg.Done()
		var last uint64
		for {
			select {
			case c := <-d.Events():
				checkCfg("Events", c)
				if n := stressCount(c); n <= last {
					viol.add("Events: went backwards or repeated (%d after %d)", n, last)
				} else {
					last = n
					installsSeen.Store(n)
				}
			case <-ctx.Done():
				return
			}
		}
	}()
	// registrar
	wg.Add(1)
	go func() {
		defer wg.Done()
		for time.Now().Before(deadline) {
			cfg, tok := d.ViewVersion()
			ts := dials.VerifSerial(tok)
			var last uint64
			var unregistered atomic.Bool
			unreg := d.RegisterCallback(ctx, tok, func(ctx context.Context, old, nw *Cfg) {
				userCalls.Add(1)
				checkCfg("registered callback", nw)
				n := stressCount(nw)
				if n <= ts {
					viol.add("registered callback: got install %d although it registered with serial %d", n, ts)
				}
				if n <= last {
					viol.add("registered callback: install %d after %d", n, last)
				}
				if o := stressCount(old); o+1 != n && old != cfg {
					viol.add("registered callback: old (%d) is neither the predecessor of new (%d) nor the registered config", o, n)
				}
				last = n
				if unregistered.Load() {
					viol.add("registered callback invoked after its unregister returned true")
				}
			})
			if unreg == nil {
				continue
			}
			time.Sleep(200 * time.Microsecond)
			if unreg(ctx) {
				unregistered.Store(true)
			}
		}
	}()
	// wait for the reporters' deadline, then shut down
	time.Sleep(time.Until(deadline) + 5*time.Millisecond)
	cancel()
	done := make(chan struct{})
	go func() { wg.Wait(); close(done) }()
	select {
	case <-done:
	case <-time.After(10 * time.Second):
		viol.add("goroutines of the stress run did not finish within 10s after the context was cancelled")
		res.Restart = true
	}
	_, tok := d.ViewVersion()
	total := dials.VerifSerial(tok)
	res.Direct = viol.list
	res.Nontrivial = total >= 500 && reads.Load() >= 500
	bucket := func(n uint64) string {
		switch {
		case n < 100:
			return "lt100"
		case n < 1000:
			return "100-999"
		case n < 10000:
			return "1k-10k"
		}
		return "ge10k"
	}
	res.Tags = []string{"stress-installs-" + bucket(total), "stress-reads-" + bucket(reads.Load()),
		"stress-user-callbacks-" + bucket(userCalls.Load()), "stress-global-callbacks-" + bucket(globalCalls.Load())}
	if len(viol.list) > 0 {
		res.Tags = append(res.Tags, "stress-violation")
	}
	return res
}
