// core: correspondence harness for the concurrent core of dials (properties
// C04..C09).  It drives a real dials.Dials through generated schedules using
// the verif hooks and prints every schedule with the observations made after
// each step as a Coq term; Check/CxxCheck.v replays the schedule in the model.
//
// Schedules run in a child process (the same binary with CORE_CHILD=1) so that
// a fatal error of the library (a panic on the callback goroutine kills the
// process) is recorded as an observation instead of ending the run.
package main

import (
	"bufio"
	"bytes"
	"encoding/json"
	"fmt"
	"io"
	"os"
	"os/exec"
	"path/filepath"
	"strings"
	"time"

	"verifharness/internal/coqfmt"
	"verifharness/internal/driver"
)

type input struct {
	K      string  `json:"k"` // labels | walk | script
	Seed   uint64  `json:"seed,omitempty"`
	N      int     `json:"n,omitempty"`
	Focus  string  `json:"focus,omitempty"`
	Mode   string  `json:"mode,omitempty"`
	Name   string  `json:"name,omitempty"`
	Setup  *setupT `json:"setup,omitempty"`  // k = labels: the schedule itself
	Labels []label `json:"labels,omitempty"` // (the teardown is appended by the harness)
	Origin string  `json:"origin,omitempty"` // where an explicit schedule came from
}

type childResult struct {
	Verifs     string   `json:"verifs"`
	Res        int      `json:"res"`
	Init       string   `json:"init"`
	Kind       string   `json:"kind"`
	Nontrivial bool     `json:"nontrivial"`
	Direct     []string `json:"direct"`
	Tags       []string `json:"tags"`
	Restart    bool     `json:"restart"`
	Setup      setupT   `json:"setup"`
	Labels     []label  `json:"labels"`   // what was executed before the teardown, observed arms filled in
	Diverged   int      `json:"diverged"` // recorded labels that could not be executed as recorded
}

// ---- child ----

func childMain() {
	out := bufio.NewWriterSize(os.Stdout, 1<<16)
	emit := func(s string) {
		out.WriteString(s)
		out.WriteByte('\n')
		out.Flush()
	}
	stepSink = func(p string) { emit("S " + p) }
	sc := bufio.NewScanner(os.Stdin)
	sc.Buffer(make([]byte, 1<<20), 1<<26)
	for sc.Scan() {
		var in input
		if err := json.Unmarshal(sc.Bytes(), &in); err != nil {
			emit("E bad input: " + err.Error())
			os.Exit(3)
		}
		res := runCase(in, emit)
		b, _ := json.Marshal(res)
		emit("R " + string(b))
		if res.Restart {
			os.Exit(0)
		}
	}
}

func runCase(in input, emit func(string)) (res childResult) {
	defer func() {
		if p := recover(); p != nil {
			if he, ok := p.(harnessError); ok {
				emit("E " + strings.ReplaceAll(string(he), "\n", " | "))
				os.Exit(3)
			}
			panic(p)
		}
	}()
	if in.K == "stress" {
		return runStress(in, emit)
	}
	var setup setupT
	var body func(w *world)
	switch in.K {
	case "labels":
		setup = *in.Setup
		ls := in.Labels
		body = func(w *world) { w.replay(ls) }
		res.Kind = in.Origin
		if res.Kind == "" {
			res.Kind = "labels"
		}
	case "script":
		s, ok := scripts[in.Name]
		if !ok {
			panic(harnessError("unknown script " + in.Name))
		}
		setup, body = s.setup, s.run
		res.Kind = "script-" + in.Name
	default:
		r := coqfmt.NewRng(in.Seed)
		setup = genSetup(r, in.Focus, in.Mode)
		p := policyFor(in.Focus, in.Mode)
		body = func(w *world) {
			if setup.Delay && w.hasMon && r.Chance(1, 3) {
				w.enableRound() // EnableVerification before any update
			}
			w.walk(r, p, in.N)
		}
		if in.Mode == "overflow2" {
			// an overflow, then the callbacks catch up, then registrations and installs
			p1, p2 := policyFor(in.Focus, "overflow"), p
			body = func(w *world) {
				w.walk(r, p1, in.N)
				w.drainMon()
				w.drainCb()
				w.walk(r, p2, 70)
			}
		}
		res.Kind = "walk-" + in.Mode
	}
	w := newWorld(setup)
	emit("H " + setup.coq())
	res.Verifs, res.Res, res.Init = w.start()
	emit(fmt.Sprintf("I %d %s", res.Res, res.Verifs))
	emit("J " + res.Init)
	if res.Res == 0 {
		body(w)
		if !w.stuck {
			w.teardown()
		}
		if !w.stuck {
			// every library goroutine must be gone shortly after shutdown
			deadline := time.Now().Add(2 * time.Second)
			for {
				l := leakedGoroutines()
				if len(l) == 0 {
					break
				}
				if time.Now().After(deadline) {
					w.direct = append(w.direct, "after shutdown: "+strings.Join(l, ", "))
					res.Restart = true
					break
				}
				time.Sleep(2 * time.Millisecond)
			}
		} else {
			res.Restart = true
		}
	}
	curMu.Lock()
	cur = nil
	curMu.Unlock()
	res.Direct = dedup(w.direct)
	res.Setup, res.Labels, res.Diverged = setup, w.labels, w.diverged
	if w.twoArm > 0 {
		res.Tags = append(res.Tags, "monitor-select-two-arms")
	}
	if w.diverged > 0 {
		res.Tags = append(res.Tags, "replay-diverged", "diverged-at: "+w.divergedAt)
	}
	rejected := w.counts["recv-update"] - w.counts["store"]
	res.Nontrivial = res.Res == 0 && ((w.counts["store"] >= 1 && rejected >= 1) ||
		(w.counts["store"] >= 1 && w.counts["callback"] >= 2 && w.counts["op-register"] >= 1) ||
		(w.counts["label-cancel"] >= 1 && w.counts["ret-ctx"] >= 1) ||
		(w.counts["op-enable"] >= 1 && w.counts["recv-update"] >= 1))
	tag := func(c bool, t string) {
		if c {
			res.Tags = append(res.Tags, t)
		}
	}
	tag(true, fmt.Sprintf("params-skip%v-delay%v-suppress%v", setup.Skip, setup.Delay, setup.Suppress))
	tag(!w.hasMon, "no-monitor")
	tag(res.Res != 0, fmt.Sprintf("config-fails-%d", res.Res))
	tag(rejected >= 1, "has-rejected-update")
	tag(w.counts["store"] >= 1, "has-store")
	tag(w.counts["ret-ctx"] >= 1, "has-ctx-return")
	tag(w.counts["submit-dropped"] >= 1, "has-dropped-submit")
	tag(w.maxCbq >= cbCap, "queue-full")
	tag(w.counts["ret-true"] >= 1, "has-unregister-true")
	tag(w.counts["ret-false"] >= 1, "has-unregister-false")
	tag(w.counts["ret-regnil"] >= 1, "has-register-nil")
	tag(w.counts["ret-enable-ok"] >= 1, "has-enable-ok")
	tag(w.counts["ret-enable-err"] >= 1, "has-enable-err")
	tag(w.counts["recv-err"] >= 1, "has-source-error")
	tag(w.counts["recv-done"] >= 1, "has-done")
	tag(w.counts["callback"] >= 1, "has-callback")
	tag(w.stuck, "stuck-or-panic")
	n := len(w.steps)
	switch {
	case n < 20:
		tag(true, "steps-lt20")
	case n < 60:
		tag(true, "steps-20-59")
	case n < 150:
		tag(true, "steps-60-149")
	default:
		tag(true, "steps-ge150")
	}
	return res
}

func dedup(xs []string) []string {
	seen := map[string]bool{}
	var out []string
	for _, x := range xs {
		if !seen[x] {
			seen[x] = true
			out = append(out, x)
		}
	}
	return out
}

// ---- parent ----

type child struct {
	cmd    *exec.Cmd
	in     io.WriteCloser
	out    *bufio.Scanner
	stderr *bytes.Buffer
}

var theChild *child

func spawnChild() *child {
	exe, err := os.Executable()
	if err != nil {
		panic(err)
	}
	c := &child{cmd: exec.Command(exe), stderr: &bytes.Buffer{}}
	c.cmd.Env = append(os.Environ(), "CORE_CHILD=1")
	c.in, _ = c.cmd.StdinPipe()
	so, _ := c.cmd.StdoutPipe()
	c.cmd.Stderr = c.stderr
	if err := c.cmd.Start(); err != nil {
		panic(err)
	}
	c.out = bufio.NewScanner(so)
	c.out.Buffer(make([]byte, 1<<20), 1<<28)
	return c
}

// execChild runs one input in the child process
func execChild(raw json.RawMessage) (driver.Result, *childResult) {
	if theChild == nil {
		theChild = spawnChild()
	}
	c := theChild
	if _, err := c.in.Write(append(append([]byte{}, raw...), '\n')); err != nil {
		panic(fmt.Sprint("child not accepting input: ", err))
	}
	var setup string
	var steps []string
	for c.out.Scan() {
		line := c.out.Text()
		switch {
		case strings.HasPrefix(line, "H "):
			setup = line[2:]
		case strings.HasPrefix(line, "S "):
			steps = append(steps, line[2:])
		case strings.HasPrefix(line, "E "):
			fmt.Fprintln(os.Stderr, "harness error:", line[2:])
			os.Exit(2)
		case strings.HasPrefix(line, "R "):
			var res childResult
			if err := json.Unmarshal([]byte(line[2:]), &res); err != nil {
				panic(err)
			}
			if res.Restart {
				c.in.Close()
				c.cmd.Wait()
				theChild = nil
			}
			return driver.Result{
				Coq:        fmt.Sprintf("CoreCase %s %s %d %s %s", setup, res.Verifs, res.Res, res.Init, coqfmt.List(steps)),
				Kind:       res.Kind,
				Nontrivial: res.Nontrivial,
				Direct:     res.Direct,
				Tags:       res.Tags,
			}, &res
		}
	}
	// the child died in the middle of a schedule
	c.cmd.Wait()
	theChild = nil
	tail := c.stderr.String()
	if i := strings.Index(tail, "\n\n"); i > 0 {
		tail = tail[:i]
	}
	if len(tail) > 400 {
		tail = tail[:400]
	}
	if setup == "" {
		fmt.Fprintln(os.Stderr, "harness error: child died before starting the case:", tail)
		os.Exit(2)
	}
	return driver.Result{
		Coq:    fmt.Sprintf("CoreCrash %s %s", setup, coqfmt.List(steps)),
		Kind:   "crashed",
		Direct: []string{"the process crashed during the schedule: " + strings.ReplaceAll(tail, "\n", " | ")},
		Tags:   []string{"process-crash"},
	}, nil
}

// results of the executions that produced the explicit schedules of this run
var genCache = map[string]driver.Result{}

func run(raw json.RawMessage) driver.Result {
	if r, ok := genCache[string(raw)]; ok {
		return r
	}
	// a replay: execute the recorded labels; where the monitor's select had two
	// ready arms Go may choose differently - try again a few times
	var res driver.Result
	for attempt := 0; attempt < 6; attempt++ {
		var cr *childResult
		res, cr = execChild(raw)
		if cr == nil || cr.Diverged == 0 {
			break
		}
	}
	return res
}

var focus = "C06"

// explicit turns a walk / script input into a self-describing schedule by
// running it; the execution's result is kept for this run
func explicit(in input) json.RawMessage {
	raw, _ := json.Marshal(in)
	res, cr := execChild(raw)
	if cr == nil {
		// the process crashed: keep the generating input, the replay reproduces it
		genCache[string(raw)] = res
		return raw
	}
	origin := "walk-" + in.Mode
	if in.K == "script" {
		origin = "script-" + in.Name
	}
	out, _ := json.Marshal(input{K: "labels", Setup: &cr.Setup, Labels: cr.Labels, Origin: origin, Seed: in.Seed, N: in.N, Focus: in.Focus})
	genCache[string(out)] = res
	return out
}

func gen(r *coqfmt.Rng, n int, tier string) []json.RawMessage {
	var out []json.RawMessage
	for _, name := range scriptOrder {
		out = append(out, explicit(input{K: "script", Name: name}))
	}
	// hook-free stress runs (real parallelism; judged by the direct oracles only)
	nstress := map[string]int{"C04": 3, "C05": 8, "C06": 3, "C07": 3}[focus]
	if tier == "thorough" {
		nstress *= 10
	}
	for i := 0; i < nstress; i++ {
		in := input{K: "stress", Mode: "count", N: 250, Seed: r.U64()}
		if (focus == "C04" || focus == "C07") && i%2 == 0 || focus == "C05" && i%4 == 3 {
			in.Mode = "reject"
		}
		b, _ := json.Marshal(in)
		out = append(out, b)
	}
	for i := 0; i < n; i++ {
		in := input{K: "walk", Seed: r.U64(), Focus: focus, Mode: "normal"}
		switch x := r.Intn(20); {
		case x < 2:
			in.Mode = "slowcb"
		case x < 4:
			in.Mode = "shutdown"
		case x < 5:
			in.Mode = "nomon"
		case x < 8:
			in.Mode = "twoarms"
		}
		in.N = 20 + r.Intn(60)
		if r.Chance(1, 10) {
			in.N = 150 + r.Intn(150)
		}
		if in.Mode == "nomon" {
			in.N = 4 + r.Intn(10)
		}
		if r.Chance(1, 60) {
			in.Mode, in.N = "overflow", 420+r.Intn(80)
		}
		if focus == "C06" && r.Chance(1, 30) || r.Chance(1, 150) {
			in.Mode, in.N = "overflow2", 440+r.Intn(60)
		}
		out = append(out, explicit(in))
	}
	return out
}

func main() {
	if os.Getenv("CORE_CHILD") == "1" {
		childMain()
		return
	}
	// --focus Cxx is consumed here; everything else goes to the shared driver
	var rest []string
	args := os.Args[1:]
	shrinkFile, shrinkProp, theories := "", "", "coq/theories"
	for i := 0; i < len(args); i++ {
		if i+1 < len(args) {
			switch args[i] {
			case "--focus":
				focus = args[i+1]
				i++
				continue
			case "--shrink":
				shrinkFile = args[i+1]
				i++
				continue
			case "--prop":
				shrinkProp = args[i+1]
				i++
				continue
			case "--theories":
				theories = args[i+1]
				i++
				continue
			}
		}
		rest = append(rest, args[i])
	}
	if shrinkFile != "" {
		if shrinkProp == "" {
			shrinkProp = focus
		}
		if abs, err := filepath.Abs(theories); err == nil {
			theories = abs
		}
		shrinkMain(shrinkFile, shrinkProp, theories)
		return
	}
	os.Args = append([]string{os.Args[0]}, rest...)
	driver.Main(driver.Engine{
		Prop: focus, CoqImport: "Dials.Core.CbMgr Dials.Core.Monitor Dials.Core.System Dials.Core.Concrete Dials.Check.CoreCheck Dials.Check." + focus + "Check", CoqRun: "run_cases",
		Rule: "a schedule is a list of atomic steps of the real goroutines (monitor, callback goroutine, API calls) driven through the verif hooks; " +
			"non-trivial = contains an installed and a rejected update, or a registered callback with >=2 callback invocations after a store, " +
			"or a call that returned a context error after being cancelled mid-flight, or an EnableVerification together with an update; " +
			"distinct = distinct (seed, length, mode) walk inputs and scripted regression schedules",
		Gen: gen, Run: run,
	})
}
