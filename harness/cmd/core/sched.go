package main

// Deterministic scheduler for one real dials.Dials: every library goroutine
// (monitor, callback goroutine, API calls issued by the harness) stops at each
// verifPoint / harness callback until the schedule releases it.

import (
	"bytes"
	"context"
	"errors"
	"fmt"
	"reflect"
	"runtime"
	"strconv"
	"strings"
	"sync"
	"sync/atomic"
	"time"

	"github.com/vimeo/dials"
)

// Cfg is the config type under test.  T is a TextUnmarshaler struct that no
// source ever sets; a source value whose fourth field is a plain int makes
// overlayStruct return an error (stacking failure).
type Cfg struct {
	A int
	N struct{ B int }  // a nested struct
	P *struct{ C int } // a pointer to a struct (the defaults always point somewhere)
	T time.Time
}

func newCfg(a, b, c int) *Cfg {
	x := &Cfg{A: a, P: &struct{ C int }{C: c}}
	x.N.B = b
	return x
}

func (c *Cfg) b() int { return c.N.B }
func (c *Cfg) c() int {
	if c.P == nil {
		return -1
	}
	return c.P.C
}

var errVerify = fmt.Errorf("harness: A > B")
var errSource = fmt.Errorf("harness: source error")

// errors of unusual shape a source may hand to ReportError
type panicErr struct{}

func (panicErr) Error() string { panic("harness: this error's Error method panics") }

type ptrErr struct{ s string }

func (e *ptrErr) Error() string { return e.s }

func reportedErr(ev string) error {
	switch ev {
	case "nil":
		return nil
	case "panic":
		return panicErr{}
	case "nilptr":
		return (*ptrErr)(nil)
	}
	return errSource
}
func isOddErr(err error) bool {
	var p panicErr
	var q *ptrErr
	return errors.As(err, &p) || errors.As(err, &q)
}

var errCause = fmt.Errorf("harness: custom cancellation cause")

// the runner the package-global callbacks (Verify, VerifHook) talk to
var curMu sync.Mutex
var cur *runner

func current() *runner {
	curMu.Lock()
	defer curMu.Unlock()
	return cur
}

// Verify implements dials.VerifiedConfig.
func (c *Cfg) Verify() error {
	ok := c.A <= c.N.B
	if r := current(); r != nil {
		r.mu.Lock()
		r.verifs = append(r.verifs, verifCall{cfg: *c, ok: ok})
		r.mu.Unlock()
	}
	if r := current(); r != nil && r.parkInVerify.Load() {
		// the schedule wants something to happen while the monitor is inside Verify
		if id := goid(); func() bool { r.mu.Lock(); defer r.mu.Unlock(); return r.goids[id] == whoMon && r.monSeen }() {
			g := r.gate(whoMon)
			r.evch <- event{who: whoMon, kind: evPark, point: "mon.verify"}
			<-g
		}
	}
	if ok {
		return nil
	}
	return errVerify
}

type sv struct {
	A, B, C *int
	Bad     bool
	// the nested struct / the pointed-to struct is present in the value
	// although its leaf is unset (which sets nothing)
	NEmpty, PEmpty bool
}

func toSV(v svJSON) sv {
	return sv{A: ip(v.A), B: ip(v.B), C: ip(v.C), Bad: v.Bad, NEmpty: v.NE, PEmpty: v.PE}
}

type verifCall struct {
	cfg Cfg
	ok  bool
}

const (
	whoMon = -1
	whoCb  = -2
)

type evKind int

const (
	evPark  evKind = iota // stopped at a hook point
	evCall                // callback goroutine entered a user callback (and is held there)
	evRet                 // API goroutine returned
	evExit                // library goroutine ended
	evPanic               // recovered panic in an API goroutine
	evStuck               // observed blocked inside the library
)

type event struct {
	who   int
	kind  evKind
	point string
	inv   string // Coq term of the invocation
	user  int    // handle of a user callback, -1 otherwise
	ret   string // Coq term of the return value
	retK  string // class of the return value
	what  string
}

type runner struct {
	mu     sync.Mutex
	verifs []verifCall
	goids  map[int64]int // goroutine id -> who
	gates  map[int]chan struct{}
	evch   chan event
	mail   map[int][]event

	d            dialsAPI
	ctx          context.Context
	cancel       context.CancelFunc
	serials      map[*Cfg]uint64
	srcs         []*source
	watchdog     time.Duration
	parkInVerify atomic.Bool // Verify, when called by the monitor goroutine, stops like a hook
	monSeen      bool        // the monitor goroutine has identified itself at a hook
	hardStop     time.Duration
}

func newRunner() *runner {
	return &runner{goids: map[int64]int{}, gates: map[int]chan struct{}{}, evch: make(chan event, 4096),
		mail: map[int][]event{}, serials: map[*Cfg]uint64{}, watchdog: 150 * time.Millisecond, hardStop: 30 * time.Second}
}

func goid() int64 {
	var buf [64]byte
	n := runtime.Stack(buf[:], false)
	// "goroutine 123 [running]:"
	f := strings.Fields(string(buf[:n]))
	id, _ := strconv.ParseInt(f[1], 10, 64)
	return id
}

func (r *runner) gate(who int) chan struct{} {
	r.mu.Lock()
	defer r.mu.Unlock()
	g, ok := r.gates[who]
	if !ok {
		g = make(chan struct{})
		r.gates[who] = g
	}
	return g
}

func (r *runner) whoAmI(point string) int {
	id := goid()
	r.mu.Lock()
	defer r.mu.Unlock()
	switch {
	case strings.HasPrefix(point, "mon."):
		r.goids[id] = whoMon
		r.monSeen = true
		return whoMon
	case strings.HasPrefix(point, "cb."):
		r.goids[id] = whoCb
		return whoCb
	}
	if w, ok := r.goids[id]; ok {
		return w
	}
	return -99
}

// hook is installed as dials.VerifHook.
func (r *runner) hook(point string) {
	if current() != r {
		return // a goroutine of an earlier, abandoned run
	}
	who := r.whoAmI(point)
	if who == -99 {
		return // a call made by the scheduler goroutine itself (atomic operations)
	}
	if point == "mon.exited" || point == "cb.exit" {
		r.evch <- event{who: who, kind: evExit, point: point}
		return
	}
	g := r.gate(who)
	r.evch <- event{who: who, kind: evPark, point: point}
	<-g
}

// called by the harness callbacks on the callback goroutine
func (r *runner) enterCallback(user int, inv string) {
	if current() != r {
		return
	}
	g := r.gate(whoCb)
	r.evch <- event{who: whoCb, kind: evCall, inv: inv, user: user}
	<-g
}

func (r *runner) release(who int) {
	g := r.gate(who)
	select {
	case g <- struct{}{}:
	case <-time.After(r.hardStop):
		panic(harnessError(fmt.Sprintf("release(%d): goroutine is not waiting at its gate", who)))
	}
}

type harnessError string

// await returns the next event of goroutine who.  If nothing arrives within
// the watchdog the goroutine's stack is inspected: a goroutine positively
// observed blocked inside the library yields evStuck; anything else keeps
// waiting until the hard stop, which is a harness error, never a verdict.
func (r *runner) await(who int) event {
	if q := r.mail[who]; len(q) > 0 {
		r.mail[who] = q[1:]
		return q[0]
	}
	start := time.Now()
	stuckSeen := 0
	for {
		select {
		case e := <-r.evch:
			if e.who == who {
				return e
			}
			r.mail[e.who] = append(r.mail[e.who], e)
		case <-time.After(r.watchdog):
			if fr, blocked := r.blockedInLibrary(who); blocked {
				stuckSeen++
				if stuckSeen >= 3 { // same diagnosis three times in a row
					return event{who: who, kind: evStuck, what: fr}
				}
			} else {
				stuckSeen = 0
			}
			if time.Since(start) > r.hardStop {
				panic(harnessError(fmt.Sprintf("await(%d): no event and no blocked goroutine found\n%s", who, allStacks())))
			}
		}
	}
}

// poll returns an event of who if one is already there
func (r *runner) poll(who int, d time.Duration) (event, bool) {
	if q := r.mail[who]; len(q) > 0 {
		r.mail[who] = q[1:]
		return q[0], true
	}
	deadline := time.After(d)
	for {
		select {
		case e := <-r.evch:
			if e.who == who {
				return e, true
			}
			r.mail[e.who] = append(r.mail[e.who], e)
		case <-deadline:
			return event{}, false
		}
	}
}

// unread puts an event back to the front of its goroutine's mailbox
func (r *runner) unread(e event) {
	r.mail[e.who] = append([]event{e}, r.mail[e.who]...)
}

func allStacks() string {
	buf := make([]byte, 1<<20)
	n := runtime.Stack(buf, true)
	return string(buf[:n])
}

// blockedInLibrary looks for the goroutine of who in a full stack dump and
// reports whether it waits on a channel operation whose innermost non-runtime
// frame belongs to package dials (not to the harness).
func (r *runner) blockedInLibrary(who int) (string, bool) {
	var want int64 = -1
	r.mu.Lock()
	for id, w := range r.goids {
		if w == who {
			want = id
		}
	}
	r.mu.Unlock()
	for _, blk := range bytes.Split([]byte(allStacks()), []byte("\n\n")) {
		lines := strings.Split(string(blk), "\n")
		if len(lines) < 2 || !strings.HasPrefix(lines[0], "goroutine ") {
			continue
		}
		f := strings.Fields(lines[0])
		id, _ := strconv.ParseInt(f[1], 10, 64)
		if want >= 0 && id != want {
			continue
		}
		if want < 0 {
			// not yet identified through a hook: recognise by function name
			body := string(blk)
			if who == whoMon && !strings.Contains(body, ").monitor(") {
				continue
			}
			if who == whoCb && !strings.Contains(body, ").runCBs(") {
				continue
			}
			if who >= 0 {
				continue
			}
		}
		state := lines[0][strings.Index(lines[0], "[")+1:]
		if !(strings.HasPrefix(state, "chan send") || strings.HasPrefix(state, "chan receive") || strings.HasPrefix(state, "select")) {
			return "", false
		}
		for _, l := range lines[1:] {
			if strings.HasPrefix(l, "\t") || strings.HasPrefix(l, "runtime.") {
				continue
			}
			if strings.HasPrefix(l, "github.com/vimeo/dials.") {
				return strings.TrimSpace(l), true
			}
			return "", false // innermost user frame is the harness itself
		}
	}
	return "", false
}

// leakedGoroutines reports library goroutines of this process that are still alive.
func leakedGoroutines() []string {
	var out []string
	for _, blk := range strings.Split(allStacks(), "\n\n") {
		if strings.Contains(blk, "dials.(*Dials[") && strings.Contains(blk, ").monitor(") {
			out = append(out, "monitor goroutine still running")
		}
		if strings.Contains(blk, ").runCBs(") {
			out = append(out, "callback goroutine still running")
		}
	}
	return out
}

// ---- sources ----

type source struct {
	r    *runner
	idx  int
	init sv
	wa   dials.WatchArgs
	typ  *dials.Type
	buf  reflect.Value // the pointer returned by Value(), reused by in-place reports
}

type watchingSource struct{ *source }

// Value hands out the source's buffer: a pointer the source keeps and may later
// mutate in place and report again (the same pointer)
func (s *source) Value(ctx context.Context, t *dials.Type) (reflect.Value, error) {
	v := mkValue(t, s.init)
	if !s.init.Bad {
		s.buf = v
	}
	return v, nil
}

func (s watchingSource) Watch(ctx context.Context, t *dials.Type, wa dials.WatchArgs) error {
	s.source.wa = wa
	s.source.typ = t
	return nil
}

// a struct type like the pointerified config type except for its last field
// (T), which is a plain int: overlaying it fails (stacking error)
func badTypeOf(t reflect.Type) reflect.Type {
	var fs []reflect.StructField
	for i := 0; i < t.NumField(); i++ {
		f := t.Field(i)
		sf := reflect.StructField{Name: f.Name, Type: f.Type}
		if f.Name == "T" {
			sf.Type = reflect.TypeOf(0)
		}
		fs = append(fs, sf)
	}
	return reflect.StructOf(fs)
}

func mkValue(t *dials.Type, v sv) reflect.Value {
	typ := t.Type()
	if v.Bad {
		typ = badTypeOf(typ)
	}
	p := reflect.New(typ)
	if v.Bad {
		p.Elem().FieldByName("T").SetInt(1)
	}
	fillValue(p.Elem(), v)
	return p
}

// fillValue makes the struct e hold exactly v (fields v leaves unset are cleared)
func fillValue(e reflect.Value, v sv) {
	a := e.FieldByName("A")
	if v.A != nil {
		x := *v.A
		a.Set(reflect.ValueOf(&x))
	} else {
		a.Set(reflect.Zero(a.Type()))
	}
	inner := func(field string, leaf *int, present bool) {
		f := e.FieldByName(field) // *struct{ leaf *int }
		if leaf == nil && !present {
			f.Set(reflect.Zero(f.Type()))
			return
		}
		n := reflect.New(f.Type().Elem())
		if leaf != nil {
			x := *leaf
			n.Elem().Field(0).Set(reflect.ValueOf(&x))
		}
		f.Set(n)
	}
	inner("N", v.B, v.NEmpty)
	inner("P", v.C, v.PEmpty)
}
