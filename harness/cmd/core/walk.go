package main

// Schedule generation: a seeded random walk over the steps that can be taken
// without blocking, biased per property; scripted regression schedules; and the
// teardown that ends every schedule.

import (
	"fmt"

	"verifharness/internal/coqfmt"
)

type policy struct {
	mon, cbTake, cbRet, cbAck, act int
	report, reportErr, done        int
	register, unregister, enable   int
	view, token, events            int
	cancel, cancelMain             int
	blocking                       int // of 10: reports that are blocking
	invalid                        int // of 10: A/B drawn so that Verify tends to fail
	bad                            int // of 40: values that fail to stack
	maxOpen                        int
	twoArms                        bool // let several arms of the monitor's select be ready at once
}

func policyFor(focus, mode string) policy {
	p := policy{mon: 30, cbTake: 12, cbRet: 10, cbAck: 12, act: 14, report: 10, reportErr: 2, done: 1,
		register: 4, unregister: 3, enable: 2, view: 1, token: 3, events: 1, cancel: 1, cancelMain: 0,
		blocking: 4, invalid: 3, bad: 2, maxOpen: 5}
	switch focus {
	case "C04":
		p.invalid, p.bad, p.blocking = 5, 4, 5
	case "C05":
		p.report, p.events, p.view = 14, 3, 2
	case "C06":
		p.register, p.unregister, p.token, p.cbTake, p.cbRet = 8, 5, 6, 8, 8
	case "C07":
		p.blocking, p.cancel, p.report = 8, 4, 12
	case "C08":
		p.cancel, p.cancelMain, p.done, p.unregister, p.register = 3, 1, 3, 5, 6
	case "C09":
		p.enable, p.reportErr, p.invalid = 6, 6, 5
	}
	switch mode {
	case "slowcb":
		p.cbRet, p.cbTake = 1, 3
	case "shutdown":
		p.done, p.cancelMain = 6, 2
	case "twoarms":
		p.twoArms = true
		p.enable, p.cancelMain, p.done, p.reportErr = 8, 2, 3, 4
	case "overflow2":
		// after an overflow and a drain: tokens, registrations, installs
		p.token, p.register, p.report, p.unregister, p.enable, p.cancel, p.cancelMain, p.done = 8, 8, 12, 2, 0, 0, 0, 0
		p.cbTake, p.cbRet, p.cbAck, p.invalid, p.bad = 14, 14, 14, 1, 0
	case "overflow":
		// callbacks are entered but never return until teardown: the queue fills up
		p.cbRet, p.cbTake, p.report, p.mon = 0, 2, 40, 60
		p.register, p.unregister, p.enable, p.cancel, p.done, p.reportErr = 1, 0, 0, 0, 0, 3
		p.invalid, p.bad, p.blocking = 1, 0, 2
	}
	return p
}

type cand struct {
	l label
	w int
}

func (w *world) offerer() *thread {
	for _, tid := range w.order {
		if t := w.threads[tid]; t.pc == "offer" {
			return t
		}
	}
	return nil
}

func (w *world) monAlive() bool { return w.hasMon && w.monPoint != "exited" }

// arms of the monitor's select that are ready
func (w *world) monArms() []label {
	var a []label
	if w.mainDone {
		a = append(a, label{K: "recv", Src: "ctx"})
	}
	if len(w.ctlq) > 0 {
		a = append(a, label{K: "recv", Src: "ctl"})
	}
	if t := w.offerer(); t != nil {
		a = append(a, label{K: "recv", Src: "offer", Tid: t.tid})
	}
	return a
}

func (w *world) openThreads() int {
	n := 0
	for _, t := range w.threads {
		if t.pc != "done" {
			n++
		}
	}
	return n
}

func (w *world) genValue(r *coqfmt.Rng, p policy) svJSON {
	var v svJSON
	small := func() *int { x := r.Intn(10); return &x }
	if r.Intn(40) < p.bad {
		v.Bad = true
	}
	switch {
	case r.Intn(10) < p.invalid:
		// tends to violate A <= B
		a := 5 + r.Intn(5)
		v.A = &a
		if r.Chance(1, 2) {
			b := r.Intn(5)
			v.B = &b
		}
	default:
		if r.Chance(1, 2) {
			a := r.Intn(5)
			v.A = &a
		}
		if r.Chance(1, 2) {
			b := 4 + r.Intn(6)
			v.B = &b
		}
	}
	if r.Chance(1, 2) {
		v.C = small()
	}
	// an inner struct may be present although its leaf is left unset
	if v.B == nil && r.Chance(1, 2) {
		v.NE = true
	}
	if v.C == nil && r.Chance(1, 2) {
		v.PE = true
	}
	return v
}

func (w *world) watchingSources() []int {
	var out []int
	for i, b := range w.setup.Watching {
		if b {
			out = append(out, i)
		}
	}
	return out
}

// candidates lists the steps that can be taken now without any goroutine
// blocking inside the library, and such that every select that fires has
// either one ready arm or an outcome the harness can read off.
func (w *world) candidates(r *coqfmt.Rng, p policy, allowNew bool) []cand {
	var cs []cand
	add := func(l label, wt int) {
		if wt > 0 {
			cs = append(cs, cand{l, wt})
		}
	}
	offerer := w.offerer()
	if w.monAlive() {
		if w.monPoint == "mon.loop" {
			if arms := w.monArms(); len(arms) == 1 {
				l := arms[0]
				if l.Src == "offer" {
					// a quarter of the blocking reports lose their context while the monitor stacks and verifies them
					if t := w.threads[l.Tid]; t.op.Msg.K == "update" && t.op.Msg.Blocking && !t.cancelled && r.Chance(1, 4) {
						l.MidCancel = true
					}
				}
				add(l, p.mon)
			} else if len(arms) > 1 {
				add(label{K: "recv"}, p.mon) // Go picks the arm; the harness observes which
			}
		} else {
			add(label{K: "monact"}, p.mon)
		}
	}
	if w.hasMon {
		switch w.cbPos {
		case "take":
			if len(w.cbq) > 0 || w.monPoint == "exited" {
				add(label{K: "take"}, p.cbTake)
			}
		case "call":
			add(label{K: "cbret"}, p.cbRet)
		case "ack":
			add(label{K: "ack"}, p.cbAck)
		}
	}
	quietCtl := p.twoArms || !w.monAlive() || (!w.mainDone && offerer == nil)
	for _, tid := range w.order {
		t := w.threads[tid]
		if t.pc == "done" {
			continue
		}
		if t.pc != "offer" {
			if t.pc == "ctl-send" && !quietCtl {
				// sending now would make a second arm of the monitor's select ready
			} else if len(w.readyArms(t)) > 0 {
				add(label{K: "act", Tid: tid}, p.act)
			}
		}
		if !t.cancelled && !(t.pc == "offer" && t.op.InPlace && w.monAlive()) {
			// (an in-place report has already changed the buffer the monitor holds: it is left to be received)
			add(label{K: "cancel", Tid: tid}, p.cancel)
		}
	}
	if !w.mainDone && (p.twoArms || !w.monAlive() || (len(w.ctlq) == 0 && offerer == nil)) {
		add(label{K: "cancelmain"}, p.cancelMain)
	}
	if !allowNew || w.openThreads() >= p.maxOpen {
		return cs
	}
	tid := w.nextTid
	start := func(op *opT, wt int) { add(label{K: "start", Tid: tid, Op: op}, wt) }
	start(&opT{K: "view"}, p.view)
	start(&opT{K: "token", Slot: r.Intn(3)}, p.token)
	start(&opT{K: "events"}, p.events)
	if ws := w.watchingSources(); len(ws) > 0 && offerer == nil && (p.twoArms || !w.monAlive() || (!w.mainDone && len(w.ctlq) == 0)) {
		src := coqfmt.Pick(r, ws)
		switch {
		case w.isBlank(src) && !w.blankLock[src]:
			// updates of a Blank go through SetSource (a blocking report)
			if !w.blankBusy(src) {
				via := "static"
				switch x := r.Intn(8); {
				case x < 2:
					via = "watcher"
				case x < 5:
					via = "reload" // the same non-watching source object again, with new contents
				}
				start(&opT{K: "offer", Via: via, Msg: &msgT{K: "update", Src: src, V: w.genValue(r, p), Blocking: true}}, p.report)
			}
		case w.isBlank(src) && (!w.hasWA(src) || w.blankBusy(src)):
			// the Blank's Watcher has not been given the WatchArgs (yet)
		default:
			v := w.genValue(r, p)
			// a third of the reports reuse the source's buffer: mutated in place, same pointer reported again
			start(&opT{K: "offer", InPlace: !v.Bad && r.Chance(1, 3), Msg: &msgT{K: "update", Src: src, V: v, Blocking: r.Intn(10) < p.blocking}}, p.report)
			ev := ""
			if r.Chance(1, 3) {
				ev = []string{"nil", "panic", "nilptr"}[r.Intn(3)]
			}
			start(&opT{K: "offer", Msg: &msgT{K: "err", Src: src, EV: ev}}, p.reportErr)
			start(&opT{K: "offer", Msg: &msgT{K: "done", Src: src}}, p.done)
		}
	}
	{
		op := &opT{K: "register", H: w.nextH}
		var have []int
		for s := range w.slots {
			have = append(have, s)
		}
		if len(have) == 0 || r.Chance(1, 6) {
			op.Zero = true
		} else {
			// map iteration order is random: choose deterministically
			min := have[0]
			for _, s := range have {
				if s < min {
					min = s
				}
			}
			op.Slot = (min + r.Intn(3)) % 3
			if !w.slots[op.Slot] {
				op.Slot = min
			}
		}
		start(op, p.register)
	}
	if len(w.regOK) > 0 {
		start(&opT{K: "unregister", H: coqfmt.Pick(r, w.regOK)}, p.unregister)
	}
	start(&opT{K: "enable"}, p.enable)
	return cs
}

func pick(r *coqfmt.Rng, cs []cand) label {
	tot := 0
	for _, c := range cs {
		tot += c.w
	}
	x := r.Intn(tot)
	for _, c := range cs {
		if x < c.w {
			return c.l
		}
		x -= c.w
	}
	return cs[len(cs)-1].l
}

func (w *world) do(l label) {
	if w.stuck {
		return // a goroutine is blocked or has panicked: the schedule ends here
	}
	if l.K == "start" {
		if l.Tid == 0 {
			l.Tid = w.nextTid
		}
		w.nextTid = l.Tid + 1
		if l.Op.K == "register" {
			if l.Op.H == 0 {
				l.Op.H = w.nextH
			}
			w.nextH = l.Op.H + 1
		}
	}
	w.exec(l)
}

func (w *world) walk(r *coqfmt.Rng, p policy, n int) {
	for i := 0; i < n && !w.stuck; i++ {
		cs := w.candidates(r, p, true)
		if len(cs) == 0 {
			break
		}
		w.do(pick(r, cs))
	}
}

// teardown ends the schedule: the Config context is cancelled, every pending
// call is cancelled and released, callbacks return, until the monitor and the
// callback goroutine are gone and every API call has returned.
func (w *world) teardown() {
	w.inTeardown = true
	for i := 0; i < 5000 && !w.stuck; i++ {
		switch {
		case w.monAlive() && w.monPoint != "mon.loop":
			w.do(label{K: "monact"})
		case w.monAlive() && len(w.monArms()) == 1:
			w.do(w.monArms()[0])
		case w.monAlive() && len(w.monArms()) == 0:
			w.do(label{K: "cancelmain"})
		case w.monAlive():
			w.do(label{K: "recv"})
		case w.hasMon && w.cbPos == "call":
			w.do(label{K: "cbret"})
		case w.hasMon && w.cbPos == "ack":
			w.do(label{K: "ack"})
		case w.hasMon && w.cbPos == "take":
			w.do(label{K: "take"})
		default:
			var open *thread
			for _, tid := range w.order {
				if t := w.threads[tid]; t.pc != "done" {
					open = t
					break
				}
			}
			if open == nil {
				if !w.mainDone {
					w.do(label{K: "cancelmain"})
				}
				return
			}
			if !open.cancelled {
				w.do(label{K: "cancel", Tid: open.tid})
			} else {
				w.do(label{K: "act", Tid: open.tid})
			}
		}
	}
	if !w.stuck {
		panic(harnessError("teardown did not terminate"))
	}
}

// ---- setups ----

func genSetup(r *coqfmt.Rng, focus, mode string) setupT {
	var s setupT
	// all 2x2x2 combinations of Skip x Delay x Suppress occur, the odd ones too
	if r.Chance(1, 2) {
		s.Skip, s.Delay, s.Suppress = r.Chance(1, 2), r.Chance(1, 2), r.Chance(1, 2)
	}
	if focus == "C09" {
		s.Skip = r.Chance(1, 4)
		s.Delay = r.Chance(3, 4)
		s.Suppress = r.Chance(1, 2)
	}
	// the global handlers are not always installed
	s.NoNew, s.NoErr = r.Chance(1, 5), r.Chance(1, 5)
	// a config type without a Verify method
	s.NV = r.Chance(1, 8) || focus == "C09" && r.Chance(1, 5)
	s.Def = [3]int{r.Intn(4), 3 + r.Intn(6), r.Intn(10)}
	if (s.Skip || s.Delay || mode == "nomon") && r.Chance(1, 2) || r.Chance(1, 25) {
		s.Def[0] = 6 + r.Intn(4) // defaults that do not verify
		s.Def[1] = r.Intn(5)
	}
	n := 1 + r.Intn(3)
	if mode == "nomon" {
		n = r.Intn(3) // also no source at all
	}
	s.Watching, s.Inits = []bool{}, []svJSON{}
	for i := 0; i < n; i++ {
		w := r.Chance(3, 4)
		if mode == "nomon" {
			w = false
		}
		var v svJSON
		if r.Chance(1, 3) {
			x := r.Intn(4)
			v.A = &x
		}
		if r.Chance(1, 4) {
			x := 4 + r.Intn(6)
			v.B = &x
		}
		if r.Chance(1, 40) {
			v.Bad = true
		}
		s.Watching = append(s.Watching, w)
		s.Inits = append(s.Inits, v)
	}
	if mode != "nomon" && n > 0 && r.Chance(9, 10) {
		s.Watching[r.Intn(n)] = true
	}
	if focus == "C07" && mode != "nomon" && r.Chance(1, 3) {
		// one watching source is a sourcewrap.Blank (starts empty)
		for i := range s.Watching {
			if s.Watching[i] {
				s.Blank = make([]bool, n)
				s.Blank[i] = true
				s.Inits[i] = svJSON{}
				break
			}
		}
	}
	return s
}

// ---- scripted regression schedules ----

type script struct {
	setup setupT
	run   func(w *world)
}

func iptr(x int) *int { return &x }

func (w *world) drainMon() {
	for w.monAlive() && w.monPoint != "mon.loop" && !w.stuck {
		w.do(label{K: "monact"})
	}
}

func (w *world) drainCb() {
	for !w.stuck {
		switch {
		case w.cbPos == "call":
			w.do(label{K: "cbret"})
		case w.cbPos == "ack":
			w.do(label{K: "ack"})
		case w.cbPos == "take" && len(w.cbq) > 0:
			w.do(label{K: "take"})
		default:
			return
		}
	}
}

func (w *world) startOp(op *opT) int {
	tid := w.nextTid
	w.do(label{K: "start", Tid: tid, Op: op})
	return tid
}

// report offers a value and lets the monitor receive it
func (w *world) report(src int, v svJSON, blocking bool) int {
	tid := w.startOp(&opT{K: "offer", Msg: &msgT{K: "update", Src: src, V: v, Blocking: blocking}})
	w.do(label{K: "recv", Src: "offer", Tid: tid})
	return tid
}

// finish lets a parked API call run to its return as long as an arm is ready
func (w *world) finish(tid int) {
	for !w.stuck {
		t := w.threads[tid]
		if t.pc == "done" || t.pc == "offer" || len(w.readyArms(t)) == 0 {
			return
		}
		w.do(label{K: "act", Tid: tid})
	}
}

var oneWatcher = setupT{Def: [3]int{1, 5, 0}, Watching: []bool{true}, Inits: []svJSON{{}}}

func withParams(s setupT, skip, delay, suppress bool) setupT {
	s.Skip, s.Delay, s.Suppress = skip, delay, suppress
	return s
}

var scripts = map[string]script{
	// finding 3: RegisterCallback / unregister after the monitor has exited
	"late-register": {oneWatcher, func(w *world) {
		tok := w.startOp(&opT{K: "token", Slot: 0})
		_ = tok
		r1 := w.startOp(&opT{K: "register", Slot: 0})
		w.finish(r1)
		w.drainCb()
		d := w.startOp(&opT{K: "offer", Msg: &msgT{K: "done", Src: 0}})
		w.do(label{K: "recv", Src: "offer", Tid: d})
		w.drainMon() // mon.exit -> exited
		r2 := w.startOp(&opT{K: "register", Zero: true})
		w.finish(r2)
		u := w.startOp(&opT{K: "unregister", H: 1})
		w.finish(u)
	}},
	// finding 4: a second unregister when no other handle is registered
	"double-unregister": {oneWatcher, func(w *world) {
		r1 := w.startOp(&opT{K: "register", Zero: true})
		w.finish(r1)
		w.drainCb()
		u1 := w.startOp(&opT{K: "unregister", H: 1})
		w.finish(u1)
		w.drainCb()
		w.finish(u1)
		u2 := w.startOp(&opT{K: "unregister", H: 1})
		w.finish(u2)
		w.drainCb()
		w.finish(u2)
	}},
	// finding 5: source errors in the (delay, no suppress, before enable) state and after enabling with suppress set
	"srcerr-delay-nosuppress": {withParams(oneWatcher, false, true, false), func(w *world) {
		e := w.startOp(&opT{K: "offer", Msg: &msgT{K: "err", Src: 0}})
		w.do(label{K: "recv", Src: "offer", Tid: e})
		w.drainMon()
		w.drainCb()
	}},
	"srcerr-after-enable-suppress": {withParams(oneWatcher, false, true, true), func(w *world) {
		en := w.startOp(&opT{K: "enable"})
		w.finish(en)
		w.do(label{K: "recv", Src: "ctl"})
		w.drainMon()
		w.finish(en)
		e := w.startOp(&opT{K: "offer", Msg: &msgT{K: "err", Src: 0}})
		w.do(label{K: "recv", Src: "offer", Tid: e})
		w.drainMon()
		w.drainCb()
	}},
	// errors of unusual shape handed to ReportError (nil, panicking Error method, nil pointer)
	"srcerr-odd-errors": {oneWatcher, func(w *world) {
		for _, ev := range []string{"nil", "panic", "nilptr", ""} {
			e := w.startOp(&opT{K: "offer", Msg: &msgT{K: "err", Src: 0, EV: ev}})
			w.do(label{K: "recv", Src: "offer", Tid: e})
			w.drainMon()
			w.drainCb()
		}
		o := w.startOp(&opT{K: "offer", Msg: &msgT{K: "update", Src: 0, V: svJSON{C: ip(&[]int{4}[0])}, Blocking: true}})
		w.do(label{K: "recv", Src: "offer", Tid: o})
		w.drainMon()
		w.finish(o)
		w.drainCb()
	}},
	// finding 6: EnableVerification without a monitor
	"enable-nomon": {setupT{Delay: true, Def: [3]int{1, 5, 0}, Watching: []bool{false}, Inits: []svJSON{{}}}, func(w *world) {
		w.startOp(&opT{K: "enable"})
		w.startOp(&opT{K: "view"})
	}},
	"enable-nomon-invalid": {setupT{Delay: true, Def: [3]int{7, 5, 0}, Watching: []bool{false}, Inits: []svJSON{{}}}, func(w *world) {
		w.startOp(&opT{K: "enable"})
		w.startOp(&opT{K: "enable"})
	}},
	// C06: the registration lands between the store and the event (token read after the store)
	"race-register-after-store": {oneWatcher, func(w *world) {
		u := w.startOp(&opT{K: "offer", Msg: &msgT{K: "update", Src: 0, V: svJSON{C: iptr(7)}}})
		w.do(label{K: "recv", Src: "offer", Tid: u})
		w.do(label{K: "monact"}) // store
		w.startOp(&opT{K: "token", Slot: 0})
		r1 := w.startOp(&opT{K: "register", Slot: 0})
		w.finish(r1) // enqueued before the new-config event
		w.drainMon()
		w.drainCb() // registration: no catch-up; event 1 skipped for h (minSerial 1 >= 1)
		w.report(0, svJSON{C: iptr(8)}, false)
		w.drainMon()
		w.drainCb() // event 2 delivered
	}},
	// C06: stale token, registration processed after the event: catch-up
	"race-catchup": {oneWatcher, func(w *world) {
		w.startOp(&opT{K: "token", Slot: 0})
		w.report(0, svJSON{C: iptr(7)}, false)
		w.drainMon()
		w.drainCb()
		r1 := w.startOp(&opT{K: "register", Slot: 0})
		w.finish(r1)
		w.drainCb()
		w.report(0, svJSON{C: iptr(8)}, true)
		w.drainMon()
		w.drainCb()
	}},
	// C07: the caller gives up between submission and the reply
	"abandoned-caller": {oneWatcher, func(w *world) {
		t := w.report(0, svJSON{C: iptr(3)}, true)
		w.do(label{K: "monact"}) // store
		w.do(label{K: "cancel", Tid: t})
		w.finish(t)  // returns the context error
		w.drainMon() // the reply must not block
		w.report(0, svJSON{A: iptr(9), B: iptr(1)}, true)
		w.drainMon()
	}},
	// C08: a callback that never returns does not stop installs
	"blocked-callback": {oneWatcher, func(w *world) {
		w.report(0, svJSON{C: iptr(1)}, false)
		w.drainMon()
		w.do(label{K: "take"}) // OnNewConfig entered and held
		for i := 2; i < 8; i++ {
			w.report(0, svJSON{C: iptr(i)}, true)
			w.drainMon()
		}
		w.startOp(&opT{K: "view"})
	}},
	// C08/C06: the callback queue overflows while a callback is held
	"overflow": {oneWatcher, func(w *world) {
		r1 := w.startOp(&opT{K: "register", Zero: true})
		w.finish(r1)
		w.drainCb()
		w.report(0, svJSON{C: iptr(1)}, false)
		w.drainMon()
		w.do(label{K: "take"}) // held in OnNewConfig
		for i := 0; i < 70; i++ {
			w.report(0, svJSON{C: iptr(i % 10)}, false)
			w.drainMon()
		}
		w.drainCb()
	}},
	// C06: the queue overflowed (new-config events were dropped), the callbacks caught up,
	// and only then callbacks register - with a stale and with a fresh token - and more versions follow:
	// the serial carried by the events, not the number of announcements, decides catch-up and skipping
	"overflow-then-register": {oneWatcher, func(w *world) {
		w.report(0, svJSON{C: iptr(1)}, false)
		w.drainMon()
		w.do(label{K: "take"}) // held in OnNewConfig
		for i := 0; i < 70; i++ {
			w.report(0, svJSON{C: iptr(i % 10)}, false)
			w.drainMon()
		}
		w.drainCb() // everything queued is delivered; several versions were never announced
		w.startOp(&opT{K: "token", Slot: 0})
		w.report(0, svJSON{C: iptr(3)}, false)
		w.drainMon()
		w.drainCb()
		r1 := w.startOp(&opT{K: "register", Slot: 0}) // stale by one: catch-up
		w.finish(r1)
		w.drainCb()
		w.startOp(&opT{K: "token", Slot: 1})
		r2 := w.startOp(&opT{K: "register", Slot: 1}) // fresh: no catch-up
		w.finish(r2)
		w.drainCb()
		for i := 0; i < 3; i++ {
			w.report(0, svJSON{C: iptr(4 + i)}, false)
			w.drainMon()
			w.drainCb() // both handles hear about every further version
		}
	}},
	// no global handlers at all: installs with nobody listening, then a registration with a stale token
	// (catch-up due), rejected blocking reports answered with their error, a source error
	"no-handlers": {setupT{NoNew: true, NoErr: true, Def: [3]int{1, 5, 0}, Watching: []bool{true}, Inits: []svJSON{{}}}, func(w *world) {
		w.startOp(&opT{K: "token", Slot: 0})
		w.report(0, svJSON{C: iptr(1)}, true)
		w.drainMon()
		w.report(0, svJSON{C: iptr(2)}, false)
		w.drainMon()
		w.drainCb()
		r1 := w.startOp(&opT{K: "register", Slot: 0}) // stale: the catch-up call is due
		w.finish(r1)
		w.drainCb()
		t := w.report(0, svJSON{A: iptr(9)}, true) // fails Verify
		w.drainMon()
		w.finish(t)
		t = w.report(0, svJSON{Bad: true}, true) // fails to stack
		w.drainMon()
		w.finish(t)
		e := w.startOp(&opT{K: "offer", Msg: &msgT{K: "err", Src: 0}})
		w.do(label{K: "recv", Src: "offer", Tid: e})
		w.drainMon()
		w.report(0, svJSON{C: iptr(3)}, true)
		w.drainMon()
		w.drainCb()
	}},
	// C05/C07: the reporter's context ends while the monitor is inside Verify for its value: the value is
	// installed all the same (the slot and the view stay in step), the reporter gets its context error
	"cancel-during-verify": {setupT{Def: [3]int{1, 5, 0}, Watching: []bool{true, true}, Inits: []svJSON{{}, {}}}, func(w *world) {
		t1 := w.startOp(&opT{K: "offer", Msg: &msgT{K: "update", Src: 0, V: svJSON{C: iptr(7)}, Blocking: true}})
		w.do(label{K: "recv", Src: "offer", Tid: t1, MidCancel: true})
		w.drainMon()
		w.finish(t1)
		w.report(1, svJSON{B: iptr(8)}, true) // another source: the stack must already contain C=7
		w.drainMon()
		t2 := w.startOp(&opT{K: "offer", Msg: &msgT{K: "update", Src: 0, V: svJSON{A: iptr(9)}, Blocking: true}})
		w.do(label{K: "recv", Src: "offer", Tid: t2, MidCancel: true}) // rejected by Verify, cancelled meanwhile
		w.drainMon()
		w.finish(t2)
		w.drainCb()
	}},
	// C05: a source that keeps one buffer, mutates it in place and reports the same pointer again -
	// first the very pointer it returned from Value()
	"same-buffer": {setupT{Def: [3]int{1, 5, 0}, Watching: []bool{true, true}, Inits: []svJSON{{C: iptr(1)}, {}}}, func(w *world) {
		inplace := func(src int, v svJSON, blocking bool) {
			tid := w.startOp(&opT{K: "offer", InPlace: true, Msg: &msgT{K: "update", Src: src, V: v, Blocking: blocking}})
			w.do(label{K: "recv", Src: "offer", Tid: tid})
			w.drainMon()
			w.finish(tid)
		}
		inplace(0, svJSON{C: iptr(2)}, true)
		inplace(0, svJSON{A: iptr(2), NE: true}, false)
		inplace(1, svJSON{B: iptr(7)}, true)
		w.report(0, svJSON{C: iptr(4)}, true) // a fresh value in between
		w.drainMon()
		inplace(0, svJSON{C: iptr(5), PE: false}, true)
		inplace(0, svJSON{C: iptr(6)}, false)
		inplace(1, svJSON{}, true)
		w.drainCb()
	}},
	// C04/C07: rejected updates in all flavours, then recovery
	"rejections": {setupT{Def: [3]int{1, 5, 0}, Watching: []bool{true, true}, Inits: []svJSON{{}, {}}}, func(w *world) {
		t := w.report(0, svJSON{A: iptr(9)}, true) // verify error
		w.drainMon()
		w.finish(t)
		t = w.report(1, svJSON{Bad: true}, true) // stack error; the bad value stays in slot 1
		w.drainMon()
		w.finish(t)
		t = w.report(0, svJSON{A: iptr(2)}, true) // still fails to stack
		w.drainMon()
		w.finish(t)
		t = w.report(1, svJSON{C: iptr(4)}, true) // recovers
		w.drainMon()
		w.finish(t)
		w.drainCb()
	}},
	// C07: Blank.SetSource is a blocking report: static and Watcher inner sources, a value failing Verify
	"blank-setsource": {setupT{Def: [3]int{1, 5, 0}, Watching: []bool{true}, Blank: []bool{true}, Inits: []svJSON{{}}}, func(w *world) {
		set := func(via string, v svJSON) {
			tid := w.startOp(&opT{K: "offer", Via: via, Msg: &msgT{K: "update", Src: 0, V: v, Blocking: true}})
			w.do(label{K: "recv", Src: "offer", Tid: tid})
			w.startOp(&opT{K: "view"}) // right after the monitor took the value: nothing installed yet, SetSource has not returned
			w.drainMon()
			w.finish(tid)
			w.startOp(&opT{K: "view"})
		}
		set("static", svJSON{C: iptr(3)})
		set("static", svJSON{A: iptr(9)}) // fails Verify: SetSource returns the error, view unchanged
		set("reload", svJSON{C: iptr(6)})
		set("reload", svJSON{C: iptr(7)}) // the same source object, re-read: must be stacked again
		set("reload", svJSON{A: iptr(9)}) // and its new content rejected with the error
		set("watcher", svJSON{C: iptr(4)})
		w.report(0, svJSON{C: iptr(5)}, true) // the Watcher inner source now reports by itself
		w.drainMon()
		w.drainCb()
	}},
	// C09: enable fails, then succeeds after a fixing update
	"enable-retry": {withParams(setupT{Def: [3]int{7, 5, 0}, Watching: []bool{true}, Inits: []svJSON{{}}}, false, true, true), func(w *world) {
		w.report(0, svJSON{C: iptr(1)}, false) // installed unverified, global callbacks suppressed
		w.drainMon()
		w.drainCb()
		en := w.startOp(&opT{K: "enable"})
		w.finish(en)
		w.do(label{K: "recv", Src: "ctl"})
		w.drainMon()
		w.finish(en) // error
		w.report(0, svJSON{A: iptr(1)}, false)
		w.drainMon()
		en = w.startOp(&opT{K: "enable"})
		w.finish(en)
		w.do(label{K: "recv", Src: "ctl"})
		w.drainMon()
		w.finish(en)                          // success
		w.report(0, svJSON{A: iptr(9)}, true) // now rejected
		w.drainMon()
		w.report(0, svJSON{A: iptr(2)}, false)
		w.drainMon()
		w.drainCb()
	}},
}

// enableRound: one EnableVerification call taken to its return
func (w *world) enableRound() {
	tid := w.startOp(&opT{K: "enable"})
	w.finish(tid)
	if t := w.threads[tid]; t != nil && t.pc == "ctl-await" {
		w.do(label{K: "recv", Src: "ctl"})
		w.drainMon()
		w.finish(tid)
	}
}

func init() {
	// EnableVerification before any update, on an initial stack that does not verify, under every
	// combination of SkipInitialVerification x DelayInitialVerification x CallGlobalCallbacksAfterVerificationEnabled,
	// then a fixing update and a second enable; with and without a Verify method
	for _, nv := range []bool{false, true} {
		for bits := 0; bits < 8; bits++ {
			skip, delay, suppress := bits&4 != 0, bits&2 != 0, bits&1 != 0
			name := fmt.Sprintf("enable-first-%d%d%d", bits>>2&1, bits>>1&1, bits&1)
			if nv {
				if !delay {
					continue
				}
				name += "-noverify"
			}
			st := setupT{Skip: skip, Delay: delay, Suppress: suppress, NV: nv, Def: [3]int{7, 5, 0}, Watching: []bool{true}, Inits: []svJSON{{}}}
			scripts[name] = script{st, func(w *world) {
				w.enableRound() // must fail while the installed config does not verify (and the type has Verify)
				e := w.startOp(&opT{K: "offer", Msg: &msgT{K: "err", Src: 0}})
				w.do(label{K: "recv", Src: "offer", Tid: e})
				w.drainMon()
				w.report(0, svJSON{C: iptr(1)}, true) // re-stack of the still invalid defaults
				w.drainMon()
				w.report(0, svJSON{A: iptr(1)}, true) // fixes A <= B
				w.drainMon()
				w.enableRound()
				w.report(0, svJSON{A: iptr(9)}, true) // rejected once verification is on
				w.drainMon()
				e = w.startOp(&opT{K: "offer", Msg: &msgT{K: "err", Src: 0}})
				w.do(label{K: "recv", Src: "offer", Tid: e})
				w.drainMon()
				w.report(0, svJSON{A: iptr(2)}, false)
				w.drainMon()
				w.drainCb()
			}}
			scriptOrder = append(scriptOrder, name)
		}
	}
	// no source at all / one non-watching source, with defaults that do and do not verify
	for i, st := range []setupT{
		{Def: [3]int{1, 5, 0}, Watching: []bool{}, Inits: []svJSON{}},
		{Def: [3]int{7, 5, 0}, Watching: []bool{}, Inits: []svJSON{}},
		{Def: [3]int{7, 5, 0}, Watching: []bool{false}, Inits: []svJSON{{}}},
		{Skip: true, Def: [3]int{7, 5, 0}, Watching: []bool{}, Inits: []svJSON{}},
		{Delay: true, Def: [3]int{7, 5, 0}, Watching: []bool{}, Inits: []svJSON{}},
		{Delay: true, NV: true, Def: [3]int{7, 5, 0}, Watching: []bool{}, Inits: []svJSON{}},
	} {
		name := fmt.Sprintf("no-watcher-%d", i)
		scripts[name] = script{st, func(w *world) {
			w.startOp(&opT{K: "view"})
			w.startOp(&opT{K: "enable"})
			w.startOp(&opT{K: "register", Zero: true})
		}}
		scriptOrder = append(scriptOrder, name)
	}
}

var scriptOrder = []string{"late-register", "double-unregister", "srcerr-delay-nosuppress", "srcerr-after-enable-suppress",
	"enable-nomon", "enable-nomon-invalid", "race-register-after-store", "race-catchup", "abandoned-caller",
	"blocked-callback", "overflow", "overflow-then-register", "same-buffer", "cancel-during-verify", "no-handlers", "srcerr-odd-errors", "rejections", "enable-retry", "blank-setsource"}

func init() {
	for _, n := range scriptOrder {
		if _, ok := scripts[n]; !ok {
			panic(fmt.Sprint("missing script ", n))
		}
	}
}
