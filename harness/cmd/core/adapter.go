package main

// The harness drives two config types through one code path: Cfg (with a
// Verify method) and CfgNV (the same struct without one).  dialsAPI is what
// the scheduler needs from a dials.Dials[T]; configs are handed around as
// *Cfg (a *CfgNV converts to it, the pointer identity is kept).

import (
	"context"

	"github.com/vimeo/dials"
)

// CfgNV has the fields of Cfg and no methods: dials never verifies it.
type CfgNV Cfg

type dialsAPI interface {
	View() *Cfg
	ViewVersion() (cfg *Cfg, tok any, serial uint64)
	ZeroToken() any
	TryEvent() (*Cfg, bool)
	EventsLen() int
	QueueLens() (cb int, ctl int)
	Register(ctx context.Context, tok any, cb func(ctx context.Context, old, nw *Cfg)) dials.UnregisterCBFunc
	Enable(ctx context.Context) (cfg *Cfg, serial uint64, err error)
}

type adapter[T any] struct {
	d    *dials.Dials[T]
	conv func(*T) *Cfg
}

func (a adapter[T]) View() *Cfg { return a.conv(a.d.View()) }
func (a adapter[T]) ViewVersion() (*Cfg, any, uint64) {
	c, tok := a.d.ViewVersion()
	return a.conv(c), tok, dials.VerifSerial(tok)
}
func (a adapter[T]) ZeroToken() any { return dials.CfgSerial[T]{} }
func (a adapter[T]) TryEvent() (*Cfg, bool) {
	select {
	case c := <-a.d.Events():
		return a.conv(c), true
	default:
		return nil, false
	}
}
func (a adapter[T]) EventsLen() int        { return len(a.d.Events()) }
func (a adapter[T]) QueueLens() (int, int) { return dials.VerifQueueLens(a.d) }
func (a adapter[T]) Register(ctx context.Context, tok any, cb func(ctx context.Context, old, nw *Cfg)) dials.UnregisterCBFunc {
	return a.d.RegisterCallback(ctx, tok.(dials.CfgSerial[T]), func(ctx context.Context, old, nw *T) { cb(ctx, a.conv(old), a.conv(nw)) })
}
func (a adapter[T]) Enable(ctx context.Context) (*Cfg, uint64, error) {
	c, tok, err := a.d.EnableVerification(ctx)
	return a.conv(c), dials.VerifSerial(tok), err
}

func configure[T any](ctx context.Context, s setupT, def *T, conv func(*T) *Cfg,
	onNew func(context.Context, *Cfg, *Cfg), onErr func(context.Context, error, *Cfg, *Cfg), srcs []dials.Source) (dialsAPI, error) {
	p := dials.Params[T]{
		OnWatchedError:          func(ctx context.Context, err error, old, nw *T) { onErr(ctx, err, conv(old), conv(nw)) },
		OnNewConfig:             func(ctx context.Context, old, nw *T) { onNew(ctx, conv(old), conv(nw)) },
		SkipInitialVerification: s.Skip, DelayInitialVerification: s.Delay,
		CallGlobalCallbacksAfterVerificationEnabled: s.Suppress,
	}
	// a share of the setups leaves the global handlers out: what happens is then
	// observed through View, registered callbacks and return values only
	if s.NoNew {
		p.OnNewConfig = nil
	}
	if s.NoErr {
		p.OnWatchedError = nil
	}
	d, err := p.Config(ctx, def, srcs...)
	if err != nil {
		return nil, err
	}
	return adapter[T]{d: d, conv: conv}, nil
}
