package main

// One schedule against one real Dials: labels, their execution through the
// scheduler, the projected observation after each step, and the (small)
// bookkeeping the harness needs to know which steps can be taken without
// blocking.

import (
	"context"
	"errors"
	"fmt"
	"reflect"
	"strings"
	"time"

	"github.com/vimeo/dials"
	"github.com/vimeo/dials/sourcewrap"

	"verifharness/internal/coqfmt"
)

type msgT struct {
	K        string `json:"k"` // update | err | done
	Src      int    `json:"src"`
	V        svJSON `json:"v"`
	Blocking bool   `json:"blocking,omitempty"`
	// for k=err: which error the source hands to ReportError: "" an ordinary one, "nil" a nil
	// error, "panic" one whose Error method panics, "nilptr" a nil pointer of an error type
	EV string `json:"ev,omitempty"`
}

type svJSON struct {
	A   *int `json:"a,omitempty"`
	B   *int `json:"b,omitempty"`
	C   *int `json:"c,omitempty"`
	Bad bool `json:"bad,omitempty"`
	NE  bool `json:"ne,omitempty"` // nested struct present, leaf unset
	PE  bool `json:"pe,omitempty"` // pointed-to struct present, leaf unset
}

type opT struct {
	K       string `json:"k"` // view | token | events | offer | register | unregister | enable
	Slot    int    `json:"slot"`
	Zero    bool   `json:"zero,omitempty"` // register with the zero CfgSerial
	H       int    `json:"h,omitempty"`
	Msg     *msgT  `json:"msg,omitempty"`
	InPlace bool   `json:"inplace,omitempty"` // the source mutates the buffer it returned from Value() and reports that same pointer
	Via     string `json:"via,omitempty"`     // offer through Blank.SetSource: "static" or "watcher" inner source
}

type label struct {
	K    string `json:"k"` // start | act | recv | monact | take | cbret | ack | cancelmain | cancel
	Tid  int    `json:"tid,omitempty"`
	Op   *opT   `json:"op,omitempty"`
	Arm  int    `json:"arm,omitempty"`
	Src  string `json:"src,omitempty"` // ctx | ctl | offer
	Drop bool   `json:"drop,omitempty"`
	// recv of a blocking report only: the reporter's context is cancelled while the monitor is
	// composing / verifying that value; printed as the two labels LMonRecv; LCancelCall
	MidCancel bool `json:"midcancel,omitempty"`
}

type setupT struct {
	Skip     bool     `json:"skip"`
	Delay    bool     `json:"delay"`
	Suppress bool     `json:"suppress"`
	Def      [3]int   `json:"def"`
	Watching []bool   `json:"watching"`
	NoNew    bool     `json:"nonew,omitempty"` // Params.OnNewConfig is nil
	NoErr    bool     `json:"noerr,omitempty"` // Params.OnWatchedError is nil
	NV       bool     `json:"nv,omitempty"`    // the config type has no Verify method
	Blank    []bool   `json:"blank,omitempty"` // the source is a sourcewrap.Blank (its updates go through SetSource)
	Inits    []svJSON `json:"inits"`
}

// ---- Coq printing ----

func optN(p *int) string {
	if p == nil {
		return "None"
	}
	return fmt.Sprintf("(Some %d)", *p)
}
func (v svJSON) coq() string {
	return fmt.Sprintf("(mkSv %s %s %s %s)", optN(v.A), optN(v.B), optN(v.C), coqfmt.Bool(v.Bad))
}
func cfgCoq(c *Cfg) string {
	if c == nil {
		return "(mkCfg 0 0 0)"
	}
	return fmt.Sprintf("(mkCfg %d %d %d)", c.A, c.b(), c.c())
}
func (m *msgT) coq() string {
	switch m.K {
	case "update":
		return fmt.Sprintf("(MsgUpdate %d%%nat %s %s)", m.Src, m.V.coq(), coqfmt.Bool(m.Blocking))
	case "err":
		return fmt.Sprintf("(MsgErr %d%%nat)", m.Src)
	}
	return fmt.Sprintf("(MsgDone %d%%nat)", m.Src)
}
func (o *opT) coq() string {
	switch o.K {
	case "view":
		return "OpView"
	case "token":
		return fmt.Sprintf("(OpToken %d)", o.Slot)
	case "events":
		return "OpEvents"
	case "offer":
		return "(OpOffer " + o.Msg.coq() + ")"
	case "register":
		if o.Zero {
			return fmt.Sprintf("(OpRegister %d None)", o.H)
		}
		return fmt.Sprintf("(OpRegister %d (Some %d))", o.H, o.Slot)
	case "unregister":
		return fmt.Sprintf("(OpUnregister %d)", o.H)
	}
	return "OpEnable"
}
func (l label) coq() string {
	switch l.K {
	case "start":
		return fmt.Sprintf("LApiStart %d %s", l.Tid, l.Op.coq())
	case "act":
		return fmt.Sprintf("LApiAct %d %d", l.Tid, l.Arm)
	case "recv":
		switch l.Src {
		case "ctx":
			return "LMonRecv RCtx"
		case "ctl":
			return "LMonRecv RCtl"
		}
		return fmt.Sprintf("LMonRecv (ROffer %d)", l.Tid)
	case "monact":
		return "LMonAct " + coqfmt.Bool(l.Drop)
	case "take":
		return "LCbTake"
	case "cbret":
		return "LCbReturn"
	case "ack":
		return "LCbAck"
	case "cancelmain":
		return "LCancelMain"
	}
	return fmt.Sprintf("LCancelCall %d", l.Tid)
}
func (s setupT) coq() string {
	var srcs []string
	for i := range s.Inits {
		srcs = append(srcs, fmt.Sprintf("(%s, %s)", coqfmt.Bool(s.Watching[i]), s.Inits[i].coq()))
	}
	return fmt.Sprintf("(mkSetup (mkParams %s %s %s) (mkCfg %d %d %d) %s %s %s %s)", coqfmt.Bool(s.Skip), coqfmt.Bool(s.Delay),
		coqfmt.Bool(s.Suppress), s.Def[0], s.Def[1], s.Def[2], coqfmt.List(srcs), coqfmt.Bool(s.NV), coqfmt.Bool(!s.NoNew), coqfmt.Bool(!s.NoErr))
}

var monPoints = map[string]int{"mon.loop": 0, "mon.submit-err": 1, "mon.reply": 2, "mon.store": 3, "mon.updates": 4,
	"mon.submit-new": 5, "mon.submit-srcerr": 6, "mon.enable-reply": 7, "mon.exit": 8}

// ---- the world ----

type thread struct {
	tid       int
	op        *opT
	pc        string // offer | await-reply | enqueue | await-ack | ctl-send | ctl-await | done
	cancelled bool
	ctx       context.Context
	cancel    context.CancelFunc
	retK      string
	offering  bool // positively seen waiting in the library's offering select
}

type qitem struct {
	kind string // new | err | reg | unreg
	tid  int
}

type world struct {
	r      *runner
	setup  setupT
	hasMon bool

	monPoint   string // hook the monitor is parked at; "" = none; "exited"
	cbPos      string // take | call | ack | exit | none
	mainDone   bool
	threads    map[int]*thread
	order      []int
	nextTid    int
	nextH      int
	cbq        []qitem
	ctlq       []int
	curReq     int // tid of the blocking report the monitor is working on (-1 none)
	curEnable  int
	replied    map[int]bool
	eresp      map[int]bool
	acked      map[int]bool
	slots      map[int]bool
	unreg      map[int]dials.UnregisterCBFunc // handle -> unregister func
	regOK      []int
	unregTrue  map[int]bool // handles whose unregister returned true
	enableSeen bool
	pendingAck int
	labels     []label // the labels executed before teardown, with the observed arms
	inTeardown bool
	diverged   int // explicit labels that could not be executed as recorded
	twoArm     int // receives of the monitor with more than one ready arm
	divergedAt string
	latest     []svJSON // per source, the value most recently received by the monitor (initially its Value())
	expected   *Cfg     // what a fresh Config over the latest values builds, or the last such view that was accepted
	skipV      bool     // delayed verification still in force (shadow of the monitor's skipVerify)
	oracleDue  bool     // an update was received since the oracle last ran
	blanks     map[int]*sourcewrap.Blank
	reloadable map[int]*innerMutable // per Blank: the one non-watching inner source object that gets reloaded
	blankLock  map[int]bool          // a Watcher was handed to the Blank: SetSource is no longer allowed
	tokens     map[int]any

	steps  []string // printed (label, obs) pairs
	events []string // events of the step in progress (without verify calls)
	stuck  bool
	direct []string
	tags   map[string]bool
	counts map[string]int
	maxCbq int
}

func newWorld(s setupT) *world {
	return &world{setup: s, threads: map[int]*thread{}, curReq: -1, curEnable: -1, replied: map[int]bool{}, eresp: map[int]bool{},
		acked: map[int]bool{}, slots: map[int]bool{}, unreg: map[int]dials.UnregisterCBFunc{}, unregTrue: map[int]bool{},
		tags: map[string]bool{}, counts: map[string]int{}, nextTid: 1, nextH: 1, tokens: map[int]any{}}
}

func (w *world) serialOf(c *Cfg) uint64 {
	if c == nil {
		return 424242
	}
	if s, ok := w.r.serials[c]; ok {
		return s
	}
	return 999999
}

func (w *world) vc(c *Cfg) string { return fmt.Sprintf("(%d, %s)", w.serialOf(c), cfgCoq(c)) }

// callbacks given to dials
func (w *world) onNew(ctx context.Context, old, nw *Cfg) {
	w.r.enterCallback(-1, fmt.Sprintf("OCall (OINew %d %d %s)", w.serialOf(old), w.serialOf(nw), cfgCoq(nw)))
}
func (w *world) onErr(ctx context.Context, err error, old, nw *Cfg) {
	kind := 0
	switch {
	case errors.Is(err, errVerify):
		kind = 1
	case errors.Is(err, errSource), isOddErr(err), err != nil && strings.HasPrefix(err.Error(), "error reported by source"):
		kind = 2
	}
	rej := "None"
	if nw != nil {
		rej = "(Some " + cfgCoq(nw) + ")"
	}
	w.r.enterCallback(-1, fmt.Sprintf("OCall (OIErr %d %d %s)", kind, w.serialOf(old), rej))
}
func (w *world) userCB(h int) func(ctx context.Context, old, nw *Cfg) {
	return func(ctx context.Context, old, nw *Cfg) {
		n := "None"
		if nw != nil {
			n = "(Some " + w.vc(nw) + ")"
		}
		w.r.enterCallback(h, fmt.Sprintf("OCall (OIUser %d %d %s)", h, w.serialOf(old), n))
	}
}

func ip(p *int) *int {
	if p == nil {
		return nil
	}
	x := *p
	return &x
}

// start runs Params.Config; returns the Coq terms (verify calls, result code, initial observation)
func (w *world) start() (verifs string, res int, init string) {
	r := newRunner()
	w.r = r
	curMu.Lock()
	cur = r
	curMu.Unlock()
	dials.VerifHook = r.hook
	r.ctx, r.cancel = context.WithCancel(context.Background())
	var srcs []dials.Source
	for i := range w.setup.Inits {
		in := w.setup.Inits[i]
		s := &source{r: r, idx: i, init: toSV(in)}
		r.srcs = append(r.srcs, s)
		switch {
		case i < len(w.setup.Blank) && w.setup.Blank[i]:
			w.hasMon = true
			b := &sourcewrap.Blank{}
			if w.blanks == nil {
				w.blanks, w.blankLock = map[int]*sourcewrap.Blank{}, map[int]bool{}
			}
			w.blanks[i] = b
			srcs = append(srcs, b)
		case w.setup.Watching[i]:
			w.hasMon = true
			srcs = append(srcs, watchingSource{s})
		default:
			srcs = append(srcs, s)
		}
	}
	var d dialsAPI
	var err error
	if w.setup.NV {
		def := (*CfgNV)(newCfg(w.setup.Def[0], w.setup.Def[1], w.setup.Def[2]))
		d, err = configure(r.ctx, w.setup, def, func(p *CfgNV) *Cfg { return (*Cfg)(p) }, w.onNew, w.onErr, srcs)
	} else {
		d, err = configure(r.ctx, w.setup, newCfg(w.setup.Def[0], w.setup.Def[1], w.setup.Def[2]),
			func(p *Cfg) *Cfg { return p }, w.onNew, w.onErr, srcs)
	}
	verifs = w.takeVerifs()
	if err != nil {
		res = 1
		if errors.Is(err, errVerify) {
			res = 2
		}
		return "[" + verifs + "]", res, "(mkObs (0, mkCfg 0 0 0) 0 0 0 0 [])"
	}
	r.d = d
	w.monPoint, w.cbPos = "", "none"
	if w.hasMon {
		// both goroutines run to their first hook
		e := r.await(whoMon)
		w.monPoint = e.point
		e = r.await(whoCb)
		w.cbPos = "take"
	}
	w.latest = append([]svJSON{}, w.setup.Inits...)
	w.expected = d.View()
	w.skipV = w.setup.Delay
	return "[" + verifs + "]", 0, w.observe(false)
}

// static source for the fresh-Config oracle
type staticValue struct{ v svJSON }

func (s staticValue) Value(ctx context.Context, t *dials.Type) (reflect.Value, error) {
	return mkValue(t, toSV(s.v)), nil
}

// freshOracle is C05's own oracle: with the monitor back at its select, the
// live view must deeply equal what a fresh Config builds from the same defaults
// and every source's latest value - or, when that stack fails or (with
// verification active) does not verify, the last view that was accepted.
func (w *world) freshOracle() {
	w.oracleDue = false
	var srcs []dials.Source
	for _, v := range w.latest {
		srcs = append(srcs, staticValue{v})
	}
	p := dials.Params[Cfg]{SkipInitialVerification: true}
	fresh, err := p.Config(context.Background(), newCfg(w.setup.Def[0], w.setup.Def[1], w.setup.Def[2]), srcs...)
	if err == nil {
		if f := fresh.View(); w.skipV || w.setup.NV || f.A <= f.N.B {
			w.expected = f
		}
	}
	if live := w.r.d.View(); !reflect.DeepEqual(live, w.expected) {
		w.direct = append(w.direct, fmt.Sprintf("the view %s differs from a fresh Config over the same defaults and the sources' latest values %s",
			cfgCoq(live), cfgCoq(w.expected)))
	}
}

func (w *world) takeVerifs() string {
	w.r.mu.Lock()
	defer w.r.mu.Unlock()
	var parts []string
	for _, v := range w.r.verifs {
		c := v.cfg
		if w.setup.Delay && !w.enableSeen {
			w.direct = append(w.direct, "Verify was called before EnableVerification under DelayInitialVerification")
		}
		parts = append(parts, fmt.Sprintf("(%s, %s)", cfgCoq(&c), coqfmt.Bool(v.ok)))
	}
	w.r.verifs = nil
	return strings.Join(parts, "; ")
}

func (w *world) monCode() int {
	switch {
	case !w.hasMon:
		return 99
	case w.monPoint == "exited":
		return 9
	}
	if c, ok := monPoints[w.monPoint]; ok {
		return c
	}
	return 77
}

func (w *world) cbCode() int {
	switch w.cbPos {
	case "take":
		return 0
	case "call":
		return 1
	case "ack":
		return 2
	case "exit":
		return 3
	}
	return 99
}

// observe prints the observation after a step
func (w *world) observe(verifsFirst bool) string {
	cfg, _, s := w.r.d.ViewVersion()
	if _, ok := w.r.serials[cfg]; !ok {
		w.r.serials[cfg] = s
	}
	cb, ctl := w.r.d.QueueLens()
	if cb > w.maxCbq {
		w.maxCbq = cb
	}
	vs := w.takeVerifs()
	var evs []string
	var vparts []string
	if vs != "" {
		for _, p := range strings.Split(vs, "; ") {
			// (cfg, ok) -> OVerify cfg ok
			p = strings.TrimSuffix(strings.TrimPrefix(p, "("), ")")
			i := strings.LastIndex(p, ", ")
			vparts = append(vparts, "OVerify "+p[:i]+" "+p[i+2:])
		}
	}
	if verifsFirst {
		evs = append(append(evs, vparts...), w.events...)
	} else {
		evs = append(append(evs, w.events...), vparts...)
	}
	w.events = nil
	return fmt.Sprintf("(mkObs (%d, %s) %d %d %d %d %s)", s, cfgCoq(cfg), cb, ctl, w.monCode(), w.cbCode(), coqfmt.List(evs))
}

// ---- events coming back from goroutines ----

func (w *world) noteThread(t *thread, e event) {
	switch e.kind {
	case evPark:
		t.pc = strings.TrimPrefix(e.point, "api.")
	case evRet:
		t.pc = "done"
		t.retK = e.retK
		w.events = append(w.events, fmt.Sprintf("ORet %d %s", t.tid, e.ret))
		w.counts["ret-"+e.retK]++
	case evPanic:
		t.pc = "done"
		w.events = append(w.events, fmt.Sprintf("OPanic %d", t.tid+2))
		w.direct = append(w.direct, "an API call panicked: "+e.what)
		w.stuck = true
	case evStuck:
		w.events = append(w.events, fmt.Sprintf("OStuck %d", t.tid+2))
		w.direct = append(w.direct, "an API goroutine is blocked inside the library with no ready arm: "+e.what)
		w.stuck = true
	}
}

func (w *world) noteMon(e event) {
	switch e.kind {
	case evPark:
		w.monPoint = e.point
	case evExit:
		w.monPoint = "exited"
	case evStuck:
		w.events = append(w.events, "OStuck 0")
		w.direct = append(w.direct, "the monitor goroutine is blocked inside the library: "+e.what)
		w.stuck = true
	}
}

func (w *world) noteCb(e event) {
	switch e.kind {
	case evPark:
		w.cbPos = strings.TrimPrefix(e.point, "cb.")
	case evCall:
		w.cbPos = "call"
		w.events = append(w.events, e.inv)
		if e.user >= 0 && w.unregTrue[e.user] {
			w.direct = append(w.direct, fmt.Sprintf("callback %d invoked after its unregister returned true", e.user))
		}
		w.counts["callback"]++
	case evExit:
		w.cbPos = "exit"
	case evStuck:
		w.events = append(w.events, "OStuck 1")
		w.direct = append(w.direct, "the callback goroutine is blocked inside the library: "+e.what)
		w.stuck = true
	}
}

// ---- API calls ----

func errClass(err error) (string, string) {
	switch {
	case err == nil:
		return "RetNil", "nil"
	case errors.Is(err, context.Canceled) || errors.Is(err, context.DeadlineExceeded):
		return "RetCtxErr", "ctx"
	case errors.Is(err, errVerify):
		return "RetVerifyErr", "verify"
	}
	return "RetStackErr", "stack"
}

// spawn runs f on a new goroutine registered as thread tid
func (w *world) spawn(t *thread, f func() (string, string)) {
	r := w.r
	go func() {
		r.mu.Lock()
		r.goids[goid()] = t.tid
		r.mu.Unlock()
		defer func() {
			if p := recover(); p != nil {
				r.evch <- event{who: t.tid, kind: evPanic, what: fmt.Sprint(p)}
			}
		}()
		ret, k := f()
		r.evch <- event{who: t.tid, kind: evRet, ret: ret, retK: k}
	}()
}

func (w *world) execStart(l label) {
	op := l.Op
	t := &thread{tid: l.Tid, op: op, pc: "done"}
	if l.Tid%2 == 0 {
		// a context that carries a custom cause: the library must still report a context error
		ctx, cancel := context.WithCancelCause(context.Background())
		t.ctx, t.cancel = ctx, func() { cancel(errCause) }
	} else {
		t.ctx, t.cancel = context.WithCancel(context.Background())
	}
	w.threads[l.Tid] = t
	w.order = append(w.order, l.Tid)
	d := w.r.d
	w.counts["op-"+op.K]++
	switch op.K {
	case "view", "token":
		cfg, tok, serial := d.ViewVersion()
		if _, ok := w.r.serials[cfg]; !ok {
			w.r.serials[cfg] = serial
		}
		if op.K == "token" {
			w.slots[op.Slot] = true
			w.tokens[op.Slot] = tok
		}
		w.events = append(w.events, fmt.Sprintf("ORet %d (RetView (%d, %s))", l.Tid, serial, cfgCoq(cfg)))
	case "events":
		if c, ok := d.TryEvent(); ok {
			w.events = append(w.events, fmt.Sprintf("ORet %d (RetEvents (Some %s))", l.Tid, w.vc(c)))
		} else {
			w.events = append(w.events, fmt.Sprintf("ORet %d (RetEvents None)", l.Tid))
		}
	case "offer":
		m := op.Msg
		s := w.r.srcs[m.Src]
		t.pc = "offer"
		if op.Via != "" {
			// Blank.SetSource: Value of the inner source, then the blocking report
			b := w.blanks[m.Src]
			val := toSV(m.V)
			var inner dials.Source = innerStatic{val}
			if op.Via == "reload" {
				// the application re-reads one and the same non-watching source object
				if w.reloadable == nil {
					w.reloadable = map[int]*innerMutable{}
				}
				if w.reloadable[m.Src] == nil {
					w.reloadable[m.Src] = &innerMutable{}
				}
				w.reloadable[m.Src].v = val
				inner = w.reloadable[m.Src]
			}
			if op.Via == "watcher" {
				w.blankLock[m.Src] = true
				inner = innerWatcher{innerStatic{val}, s, w.r}
			}
			w.spawn(t, func() (string, string) { return errClass(b.SetSource(t.ctx, inner)) })
			break
		}
		w.spawn(t, func() (string, string) {
			switch m.K {
			case "update":
				v := mkValue(s.typ, toSV(m.V))
				if op.InPlace && s.buf.IsValid() && !m.V.Bad {
					fillValue(s.buf.Elem(), toSV(m.V))
					v = s.buf
				}
				var err error
				if m.Blocking {
					err = s.wa.BlockingReportNewValue(t.ctx, v)
				} else {
					err = s.wa.ReportNewValue(t.ctx, v)
				}
				return errClass(err)
			case "err":
				return errClass(s.wa.ReportError(t.ctx, reportedErr(m.EV)))
			}
			s.wa.Done(t.ctx)
			return "RetUnit", "unit"
		})
		// the goroutine blocks in its offering select (or, wrongly, comes back at once)
		w.waitOffering(t)
	case "register":
		tok := d.ZeroToken()
		if !op.Zero {
			tok = w.tokens[op.Slot]
		}
		h := op.H
		t.pc = "starting"
		w.spawn(t, func() (string, string) {
			u := d.Register(t.ctx, tok, w.userCB(h))
			if u == nil {
				return "RetRegNil", "regnil"
			}
			w.r.mu.Lock()
			w.unreg[h] = u
			w.r.mu.Unlock()
			return "RetRegOk", "regok"
		})
		w.noteThread(t, w.r.await(t.tid))
	case "unregister":
		w.r.mu.Lock()
		u := w.unreg[op.H]
		w.r.mu.Unlock()
		t.pc = "starting"
		w.spawn(t, func() (string, string) {
			if u(t.ctx) {
				return "(RetBool true)", "true"
			}
			return "(RetBool false)", "false"
		})
		w.noteThread(t, w.r.await(t.tid))
	case "enable":
		w.enableSeen = true
		t.pc = "starting"
		w.spawn(t, func() (string, string) {
			cfg, s, err := d.Enable(t.ctx)
			switch {
			case err == nil:
				if cfg == nil {
					s = 424242
				}
				return fmt.Sprintf("(RetEnable (EOk (%d, %s)))", s, cfgCoq(cfg)), "enable-ok"
			case errors.Is(err, context.Canceled) || errors.Is(err, context.DeadlineExceeded):
				return "RetCtxErr", "ctx"
			}
			return "(RetEnable EErr)", "enable-err"
		})
		w.noteThread(t, w.r.await(t.tid))
	}
	w.afterRet(t)
}

func (w *world) afterRet(t *thread) {
	if t.pc != "done" {
		return
	}
	switch t.op.K {
	case "register":
		if t.retK == "regok" {
			w.regOK = append(w.regOK, t.op.H)
		}
	case "unregister":
		if t.retK == "true" {
			w.unregTrue[t.op.H] = true
		}
	}
}

// ready arms of the select thread t stands at (arm numbers of the model)
func (w *world) readyArms(t *thread) []int {
	var a []int
	if t.cancelled {
		a = append(a, 0)
	}
	cb, ctl := w.r.d.QueueLens()
	switch t.pc {
	case "await-reply":
		if w.replied[t.tid] {
			a = append(a, 1)
		}
	case "enqueue":
		if w.monPoint == "exited" && fixedShutdown {
			a = append(a, 1)
		}
		if cb < cbCap {
			a = append(a, 2)
		}
	case "await-ack":
		if w.acked[t.tid] {
			a = append(a, 1)
		}
	case "ctl-send":
		if ctl < 3 {
			a = append(a, 1)
		}
	case "ctl-await":
		if w.eresp[t.tid] {
			a = append(a, 1)
		}
	}
	return a
}

const cbCap = 64

// fixedShutdown: the library signals monitor exit through a monDone channel
// that submitEventBlocking selects on (after the fix of finding 3) instead of
// closing cbch.  Detected once at start-up from the Dials struct.
var fixedShutdown = func() bool {
	_, ok := reflect.TypeOf((*dials.Dials[Cfg])(nil)).Elem().FieldByName("monDone")
	return ok
}()

func (w *world) execAct(l *label) {
	t := w.threads[l.Tid]
	pc := t.pc
	w.r.release(t.tid)
	e := w.r.await(t.tid)
	w.noteThread(t, e)
	// which arm fired
	switch pc {
	case "enqueue":
		if e.kind == evRet && (e.retK == "regnil" || e.retK == "false") {
			if t.cancelled {
				l.Arm = 0
			} else {
				l.Arm = 1
			}
		} else {
			l.Arm = 2
			kind := "reg"
			if t.op.K == "unregister" {
				kind = "unreg"
			}
			w.cbq = append(w.cbq, qitem{kind, t.tid})
		}
	case "await-reply", "ctl-await":
		if e.kind == evRet && e.retK == "ctx" {
			l.Arm = 0
		} else {
			l.Arm = 1
		}
	case "await-ack":
		if e.kind == evRet && e.retK == "false" {
			l.Arm = 0
		} else {
			l.Arm = 1
		}
	case "ctl-send":
		if e.kind == evRet {
			l.Arm = 0
		} else {
			l.Arm = 1
			w.ctlq = append(w.ctlq, t.tid)
		}
	}
	w.afterRet(t)
}

// waitOffering returns once the goroutine of an offering call is positively
// seen waiting in the library's select on watcherChan, so that the monitor's
// receive cannot find the channel without a sender.
func (w *world) waitOffering(t *thread) bool {
	if t.offering {
		return true
	}
	deadline := time.Now().Add(w.r.hardStop)
	for {
		if _, ok := w.r.blockedInLibrary(t.tid); ok {
			t.offering = true
			return true
		}
		if e, ok := w.r.poll(t.tid, 0); ok {
			// the call came back without offering anything to the monitor
			w.noteThread(t, e)
			return false
		}
		if time.Now().After(deadline) {
			panic(harnessError(fmt.Sprintf("offering call %d never reached its select\n%s", t.tid, allStacks())))
		}
		time.Sleep(200 * time.Microsecond)
	}
}

// resolveExit: the monitor went to mon.exit while both its context and an
// offering call were ready; the offer was taken iff that call has moved on.
func (w *world) resolveExit(off *thread) string {
	deadline := time.Now().Add(w.r.hardStop)
	for {
		if e, ok := w.r.poll(off.tid, 200*time.Microsecond); ok {
			w.r.unread(e)
			return "offer"
		}
		if _, blocked := w.r.blockedInLibrary(off.tid); blocked {
			return "ctx"
		}
		if time.Now().After(deadline) {
			panic(harnessError("cannot tell which arm of the monitor's select fired"))
		}
	}
}

// execRecv releases the monitor at its select.  With one ready arm the arm is
// known; with several Go picks one and the harness reads it off what follows.
func (w *world) execRecv(l *label) {
	off := w.offerer()
	if off != nil && !w.waitOffering(off) {
		off = nil
	}
	arms := w.monArms()
	if len(arms) == 0 {
		w.stuck = true // nothing to receive any more: the offering call has gone
		return
	}
	if len(arms) > 1 {
		w.twoArm++
	}
	mid := l.MidCancel && off != nil && len(arms) == 1 && arms[0].Src == "offer" && !off.cancelled
	l.MidCancel = mid
	if mid {
		w.r.parkInVerify.Store(true)
	}
	w.r.release(whoMon)
	e := w.r.await(whoMon)
	if mid {
		// inside Verify (or, if Verify is not called for this update, right after the receive)
		w.r.parkInVerify.Store(false)
		off.cancelled = true
		off.cancel()
		if e.kind == evPark && e.point == "mon.verify" {
			w.r.release(whoMon)
			e = w.r.await(whoMon)
		}
	}
	w.noteMon(e)
	if w.stuck {
		if len(arms) > 0 && l.Src == "" {
			l.Src, l.Tid = arms[0].Src, arms[0].Tid
		}
		return
	}
	src := ""
	switch {
	case len(arms) == 1:
		src = arms[0].Src
	case w.monPoint == "mon.enable-reply":
		src = "ctl"
	case w.monPoint == "mon.exit":
		switch {
		case !w.mainDone:
			src = "offer"
		case off == nil:
			src = "ctx"
		default:
			src = w.resolveExit(off)
		}
	default:
		src = "offer"
	}
	if l.Src != "" && (l.Src != src || (src == "offer" && l.Tid != off.tid)) {
		w.diverged++
	}
	l.Src = src
	switch src {
	case "ctl":
		w.curEnable = w.ctlq[0]
		w.ctlq = w.ctlq[1:]
		if v := w.r.d.View(); w.skipV && (w.setup.NV || v.A <= v.N.B) {
			w.skipV = false // the monitor verifies the installed config: verification is on from here
		}
	case "offer":
		t := off
		if t.op.Msg.K == "update" {
			w.latest[t.op.Msg.Src] = t.op.Msg.V
			w.oracleDue = true
		}
		l.Tid = t.tid
		w.noteThread(t, w.r.await(t.tid))
		if t.op.Msg.K == "update" && t.op.Msg.Blocking {
			w.curReq = t.tid
		} else {
			w.curReq = -1
		}
		w.counts["recv-"+t.op.Msg.K]++
	}
}

func (w *world) execMonAct(l *label) {
	point := w.monPoint
	cb0, _ := w.r.d.QueueLens()
	ev0 := w.r.d.EventsLen()
	w.r.release(whoMon)
	w.noteMon(w.r.await(whoMon))
	cb1, _ := w.r.d.QueueLens()
	switch point {
	case "mon.submit-err", "mon.submit-new", "mon.submit-srcerr":
		if cb1 == cb0 {
			l.Drop = true
			w.counts["submit-dropped"]++
		} else {
			kind := "err"
			if point == "mon.submit-new" {
				kind = "new"
			}
			w.cbq = append(w.cbq, qitem{kind, -1})
		}
	case "mon.updates":
		l.Drop = ev0 == 1
	case "mon.reply":
		if w.curReq >= 0 {
			w.replied[w.curReq] = true
		}
	case "mon.enable-reply":
		if w.curEnable >= 0 {
			w.eresp[w.curEnable] = true
		}
	case "mon.store":
		w.counts["store"]++
	}
}

func (w *world) execCb(l label) {
	w.r.release(whoCb)
	e := w.r.await(whoCb)
	switch l.K {
	case "take":
		if len(w.cbq) > 0 {
			it := w.cbq[0]
			w.cbq = w.cbq[1:]
			if it.kind == "unreg" {
				w.pendingAck = it.tid
			}
		}
	case "ack":
		w.acked[w.pendingAck] = true
	}
	w.noteCb(e)
}

func (w *world) execCancel(l label) {
	t := w.threads[l.Tid]
	t.cancelled = true
	t.cancel()
	if t.pc == "offer" {
		w.noteThread(t, w.r.await(t.tid))
	}
}

// exec performs one step and appends the printed (label, obs) pair
func (w *world) exec(l label) {
	switch l.K {
	case "start":
		w.execStart(l)
	case "act":
		w.execAct(&l)
	case "recv":
		w.execRecv(&l)
	case "monact":
		w.execMonAct(&l)
	case "take", "cbret", "ack":
		w.execCb(l)
	case "cancelmain":
		w.mainDone = true
		w.r.cancel()
	case "cancel":
		w.execCancel(l)
	}
	w.counts["label-"+l.K]++
	if w.oracleDue && !w.stuck && w.monPoint == "mon.loop" {
		w.freshOracle()
	}
	if !w.inTeardown {
		w.labels = append(w.labels, l)
	}
	pair := fmt.Sprintf("(%s, %s)", l.coq(), w.observe(l.K == "start"))
	w.steps = append(w.steps, pair)
	if stepSink != nil {
		stepSink(pair)
	}
	if l.K == "recv" && l.MidCancel {
		// the cancellation that happened while the monitor was verifying, as its own step
		c := label{K: "cancel", Tid: l.Tid}
		w.counts["label-cancel"]++
		pair := fmt.Sprintf("(%s, %s)", c.coq(), w.observe(false))
		w.steps = append(w.steps, pair)
		if stepSink != nil {
			stepSink(pair)
		}
	}
}

var stepSink func(string)

// applicable: can this recorded label be executed now without blocking?
func (w *world) applicable(l label) bool {
	switch l.K {
	case "start":
		if _, used := w.threads[l.Tid]; used || l.Op == nil {
			return false
		}
		switch l.Op.K {
		case "offer":
			if l.Op.Msg == nil || l.Op.Msg.Src >= len(w.setup.Watching) || !w.setup.Watching[l.Op.Msg.Src] || w.offerer() != nil {
				return false
			}
			src := l.Op.Msg.Src
			if l.Op.Via != "" {
				return w.isBlank(src) && !w.blankLock[src] && !w.blankBusy(src) && l.Op.Msg.K == "update" && l.Op.Msg.Blocking
			}
			if w.isBlank(src) && (!w.hasWA(src) || w.blankBusy(src)) {
				return false
			}
		case "register":
			for _, tid := range w.order {
				if t := w.threads[tid]; t.op.K == "register" && t.op.H == l.Op.H {
					return false
				}
			}
			if !l.Op.Zero && !w.slots[l.Op.Slot] {
				return false
			}
		case "unregister":
			w.r.mu.Lock()
			_, ok := w.unreg[l.Op.H]
			w.r.mu.Unlock()
			return ok
		}
		return true
	case "act":
		t, ok := w.threads[l.Tid]
		return ok && t.pc != "done" && t.pc != "offer" && len(w.readyArms(t)) > 0
	case "recv":
		return w.monAlive() && w.monPoint == "mon.loop" && len(w.monArms()) > 0
	case "monact":
		return w.monAlive() && w.monPoint != "mon.loop"
	case "take":
		return w.hasMon && w.cbPos == "take" && (len(w.cbq) > 0 || w.monPoint == "exited")
	case "cbret":
		return w.hasMon && w.cbPos == "call"
	case "ack":
		return w.hasMon && w.cbPos == "ack"
	case "cancelmain":
		return !w.mainDone
	case "cancel":
		t, ok := w.threads[l.Tid]
		return ok && t.pc != "done" && !t.cancelled
	}
	return false
}

// replay executes recorded labels; what cannot be executed is skipped and counted
func (w *world) replay(ls []label) {
	for _, l := range ls {
		if w.stuck {
			return
		}
		if !w.applicable(l) {
			w.diverged++
			if w.divergedAt == "" {
				w.divergedAt = l.coq()
			}
			continue
		}
		w.do(l)
	}
}

// inner sources handed to a Blank
type innerStatic struct{ v sv }

func (i innerStatic) Value(ctx context.Context, t *dials.Type) (reflect.Value, error) {
	return mkValue(t, i.v), nil
}

// a non-watching inner source whose contents change between SetSource calls
type innerMutable struct{ v sv }

func (i *innerMutable) Value(ctx context.Context, t *dials.Type) (reflect.Value, error) {
	return mkValue(t, i.v), nil
}

type innerWatcher struct {
	innerStatic
	s *source
	r *runner
}

func (i innerWatcher) Watch(ctx context.Context, t *dials.Type, wa dials.WatchArgs) error {
	i.r.mu.Lock()
	i.s.wa, i.s.typ = wa, t
	i.r.mu.Unlock()
	return nil
}

func (w *world) isBlank(src int) bool { return w.blanks != nil && w.blanks[src] != nil }

// a SetSource call on this Blank is still under way (it holds the Blank's mutex)
func (w *world) blankBusy(src int) bool {
	for _, tid := range w.order {
		if t := w.threads[tid]; t.op.K == "offer" && t.op.Via != "" && t.op.Msg.Src == src && t.pc != "done" {
			return true
		}
	}
	return false
}

// the WatchArgs of a source, once it has them (a Blank's are handed to its Watcher inner source)
func (w *world) hasWA(src int) bool {
	w.r.mu.Lock()
	defer w.r.mu.Unlock()
	return w.r.srcs[src].wa != nil
}
