package main

import (
	"context"
	"fmt"

	"github.com/vimeo/dials"
	dcue "github.com/vimeo/dials/decoders/cue"
	djson "github.com/vimeo/dials/decoders/json"
	dtoml "github.com/vimeo/dials/decoders/toml"
	dyaml "github.com/vimeo/dials/decoders/yaml"
	"github.com/vimeo/dials/sources/static"
)

// demo7: two fields of one struct with the same key.
func demo7() {
	type base struct {
		Port int `dials:"port"`
	}
	type cfg struct {
		A int `dials:"x"`
		B int `dials:"x"`
	}
	type cfg2 struct {
		base
		Listen int `dials:"port"`
	}
	decs := []struct {
		n string
		d dials.Decoder
	}{{"json", &djson.Decoder{}}, {"yaml", &dyaml.Decoder{}}, {"yaml+flat", &dyaml.Decoder{FlattenAnonymous: true}}, {"toml", &dtoml.Decoder{}}, {"cue", &dcue.Decoder{}}}
	texts := map[string]string{"json": `{"x": 1, "port": 2}`, "yaml": "x: 1\nport: 2\n", "yaml+flat": "x: 1\nport: 2\n", "toml": "x = 1\nport = 2\n", "cue": "x: 1\nport: 2\n"}
	for _, dc := range decs {
		func() {
			defer func() {
				if r := recover(); r != nil {
					fmt.Printf("%-9s cfg  PANIC %.100v\n", dc.n, r)
				}
			}()
			d, err := dials.Config(context.Background(), &cfg{}, &static.StringSource{Data: texts[dc.n], Decoder: dc.d})
			if err != nil {
				fmt.Printf("%-9s cfg  ERR %.100v\n", dc.n, err)
				return
			}
			fmt.Printf("%-9s cfg  OK %+v\n", dc.n, *d.View())
		}()
		func() {
			defer func() {
				if r := recover(); r != nil {
					fmt.Printf("%-9s cfg2 PANIC %.100v\n", dc.n, r)
				}
			}()
			d, err := dials.Config(context.Background(), &cfg2{}, &static.StringSource{Data: texts[dc.n], Decoder: dc.d})
			if err != nil {
				fmt.Printf("%-9s cfg2 ERR %.100v\n", dc.n, err)
				return
			}
			fmt.Printf("%-9s cfg2 OK %+v\n", dc.n, *d.View())
		}()
	}
}
