package main

import (
	"fmt"
	"reflect"

	dyaml "github.com/vimeo/dials/decoders/yaml"
	"github.com/vimeo/dials/ptrify"
)

type D6E struct {
	N int `dials:"n"`
}
type D6S struct {
	*D6E `dials:"e"`
}
type D6El struct {
	S D6S `dials:"s"`
	K int `dials:"k"`
}
type demo6Cfg struct {
	L []D6El `dials:"l"`
}

// demo6: FlattenAnonymous, an absent plain struct (inside a slice element) that embeds a pointer
// to a struct with a non-nilable field.
func demo6() {
	T := reflect.TypeOf(demo6Cfg{})
	PT := ptrify.Pointerify(T, reflect.New(T).Elem())
	decoders[1] = &dyaml.Decoder{FlattenAnonymous: true}
	for _, text := range []string{"l:\n  - k: 1\n", "l:\n  - s: {n: 5}\n", "l:\n  - s: {}\n"} {
		v, err, p := decodeSafe(1, text, PT)
		fmt.Printf("%q => panic=%v err=%v\n", text, p, err)
		if err == nil {
			l := v.Field(0)
			for i := 0; i < l.Len(); i++ {
				e := l.Index(i).Interface().(D6El)
				fmt.Printf("   elem %d: K=%d S.D6E=%v\n", i, e.K, e.S.D6E)
			}
		}
	}
}
