package main

// Abstract documents and the four printers live in internal/cfgdoc (shared with
// the end-to-end engine c18e2e); the short names this harness uses.

import "verifharness/internal/cfgdoc"

type doc = cfgdoc.Doc
type kv = cfgdoc.KV
type kind = cfgdoc.Kind

const (
	dBool = cfgdoc.Bool
	dInt  = cfgdoc.Int
	dStr  = cfgdoc.Str
	dList = cfgdoc.List
	dMap  = cfgdoc.Map
	dTime = cfgdoc.Time
)

var (
	dB = cfgdoc.NB
	dI = cfgdoc.NI
	dU = cfgdoc.NU
	dS = cfgdoc.NS
	dT = cfgdoc.NT
	dL = cfgdoc.NL
	dM = cfgdoc.NM
)

func toJSON(d *doc) string        { return cfgdoc.ToJSON(d) }
func render(f int, d *doc) string { return cfgdoc.Render(f, d) }
