package main

import (
	"bytes"
	"context"
	"encoding/json"
	"fmt"
	"net"
	"reflect"
	"regexp"
	"sort"
	"strings"
	"time"

	"cuelang.org/go/cue"
	"cuelang.org/go/cue/cuecontext"
	toml "github.com/pelletier/go-toml"
	"github.com/vimeo/dials"
	dyaml "github.com/vimeo/dials/decoders/yaml"
	"github.com/vimeo/dials/ptrify"
	"github.com/vimeo/dials/sources/static"
	"github.com/vimeo/dials/sourcewrap"
	"github.com/vimeo/dials/transform"
	yaml "gopkg.in/yaml.v2"

	"verifharness/internal/cfgdoc"
	"verifharness/internal/coqfmt"
	"verifharness/internal/driver"
	"verifharness/internal/rty"
)

type input struct {
	K     string `json:"k"`
	State uint64 `json:"state"`
	Depth int    `json:"depth"`
	Width int    `json:"width"`
	Wrap  bool   `json:"wrap,omitempty"`  // decoders wrapped with the set-slice mangler (as ez does)
	Fmt   int    `json:"fmt,omitempty"`   // corrupt: which format
	Mut   uint64 `json:"mut,omitempty"`   // corrupt: PRNG state of the corruption
	Embed bool   `json:"embed,omitempty"` // the type may have embedded structs
}

var keyWords = []string{"name", "port", "addr", "level", "timeout", "retry", "max_conns", "tls", "user", "path", "mode",
	"log-level", "db", "cache", "ttl", "hosts", "labels", "limits", "enabled", "id", "backoff", "x1", "v2", "UpperKey", "mixedCase"}

var leafTypes = []reflect.Type{
	reflect.TypeOf(""), reflect.TypeOf(false), reflect.TypeOf(int(0)), reflect.TypeOf(int8(0)), reflect.TypeOf(int16(0)),
	reflect.TypeOf(int32(0)), reflect.TypeOf(int64(0)), reflect.TypeOf(uint(0)), reflect.TypeOf(uint8(0)),
	reflect.TypeOf(uint16(0)), reflect.TypeOf(uint32(0)), reflect.TypeOf(uint64(0)), reflect.TypeOf(time.Duration(0)),
	reflect.TypeOf(time.Duration(0)), reflect.TypeOf(""),
}

var flatMode bool // genDoc writes embedded structs the flattened way (decoders/yaml FlattenAnonymous)

var tomlLive = true // genDoc: the TOML decoder reads the value being generated (its key is the one TOML uses, at every level)

var wrapMode bool // set per case: set-typed leaves only occur when the decoders are wrapped

func genLeaf(r *coqfmt.Rng) reflect.Type {
	tup, _ := rty.TextUTypes()
	if wrapMode && r.Chance(1, 7) {
		return reflect.TypeOf(map[string]struct{}(nil)) // sets at every depth: in nested structs, in list elements, in both
	}
	switch x := r.Intn(28); {
	case x == 27:
		// a slice of TextUnmarshaler structs: its element type is not to be rewritten.  (Not []TUp:
		// go-toml cannot read an array into a slice of a custom TextUnmarshaler struct.)
		return reflect.SliceOf(tTime)
	case x == 24:
		return tTime
	case x == 25:
		return reflect.PtrTo(tTime)
	case x == 26:
		return reflect.MapOf(reflect.TypeOf(""), tTime)
	case x == 20:
		return tup
	case x == 21:
		return reflect.PtrTo(tup)
	case x == 22:
		return tIP
	case x == 23:
		if wrapMode {
			return reflect.TypeOf(map[string]struct{}(nil))
		}
		return tIP
	case x < 11:
		return coqfmt.Pick(r, leafTypes)
	case x < 13:
		for {
			// not []uint8: that is []byte, which encoding/json reads from a base64 string
			if e := coqfmt.Pick(r, leafTypes); e.Kind() != reflect.Uint8 {
				if r.Chance(1, 4) {
					// lists of pointers to leaves ([]*time.Duration among them): every element
					// gets its own pointee (seeded C13-q)
					if r.Chance(1, 2) {
						e = tDur
					}
					return reflect.SliceOf(reflect.PtrTo(e))
				}
				return reflect.SliceOf(e)
			}
		}
	case x < 15:
		if r.Chance(1, 5) {
			return coqfmt.Pick(r, rty.DurContainers()) // DEFINED container types: substituted like the unnamed ones
		}
		if r.Chance(1, 4) {
			// composite map values (the duration substitution has to convert them entry by entry)
			e := coqfmt.Pick(r, leafTypes)
			if e.Kind() == reflect.Uint8 {
				e = tDur
			}
			return reflect.MapOf(reflect.TypeOf(""), coqfmt.Pick(r, []reflect.Type{reflect.SliceOf(e), reflect.PtrTo(e)}))
		}
		return reflect.MapOf(reflect.TypeOf(""), coqfmt.Pick(r, leafTypes))
	case x == 15:
		return reflect.PtrTo(coqfmt.Pick(r, leafTypes))
	default:
		return coqfmt.Pick(r, leafTypes)
	}
}

var fieldCtr int // Go field names are distinct across the whole generated type (hoisting must not clash) ...
var embedOK bool // embedded fields are generated

// genType: every field carries a dials tag; some carry format tags as well.
func genType(r *coqfmt.Rng, depth, maxDepth, width int) reflect.Type {
	return genTypeIn(r, depth, maxDepth, width, map[string]bool{}, false)
}

// used: the keys taken in the enclosing mapping (an embedded struct shares its parent's);
// inSlice: the struct is a slice element (not pointerified).
func genTypeIn(r *coqfmt.Rng, depth, maxDepth, width int, used map[string]bool, inSlice bool) reflect.Type {
	n := 1 + r.Intn(width)
	fields := make([]reflect.StructField, 0, n)
	for i := 0; i < n; i++ {
		var key string
		for {
			key = coqfmt.Pick(r, keyWords)
			if r.Chance(1, 4) {
				key += fmt.Sprintf("%d", r.Intn(10))
			}
			if !used[strings.ToLower(key)] {
				break
			}
		}
		used[strings.ToLower(key)] = true
		var t reflect.Type
		x := r.Intn(100)
		switch {
		case depth < maxDepth && x < 15:
			t = genType(r, depth+1, maxDepth, width)
		case depth < maxDepth && x < 28:
			t = reflect.PtrTo(genType(r, depth+1, maxDepth, width))
		case depth < maxDepth && x < 36:
			t = reflect.SliceOf(genTypeIn(r, maxDepth, maxDepth, 3, map[string]bool{}, true))
		default:
			t = genLeaf(r)
		}
		embedded := false
		if embedOK && x >= 36 && x < 64 && depth <= maxDepth {
			// an embedded struct or *struct; its keys live in the parent's mapping when hoisted.
			// (A plain embedded struct inside a slice element is read inline by go-toml when its own
			// key is absent: third-party behaviour kept out of the generated class.)
			et := genTypeIn(r, maxDepth, maxDepth, 3, used, inSlice)
			if r.Chance(1, 6) {
				// an embedded struct inside the embedded struct: hoisted one level only
				// (its key and - it may be embedded in turn - its fields' keys share the mapping: yaml.v2
				// panics on a struct type with one key twice)
				inner := genTypeIn(r, maxDepth, maxDepth, 2, used, inSlice)
				fs := []reflect.StructField{}
				for j := 0; j < et.NumField(); j++ {
					fs = append(fs, et.Field(j))
				}
				it := reflect.Type(reflect.PtrTo(inner))
				ikey := fmt.Sprintf("in%d", fieldCtr)
				used[ikey] = true
				fs = append(fs, reflect.StructField{Name: fmt.Sprintf("E%d", fieldCtr), Type: it, Anonymous: true,
					Tag: reflect.StructTag(fmt.Sprintf(`dials:"%s"`, ikey))})
				fieldCtr++
				et = reflect.StructOf(fs)
			}
			t = et
			if inSlice || r.Chance(1, 2) {
				t = reflect.PtrTo(et)
			}
			embedded = true
		}
		tag := fmt.Sprintf(`dials:"%s"`, key)
		if r.Chance(1, 6) {
			// a help text: another tag whose VALUE may mention the format tags' keys
			tag = fmt.Sprintf(`dialsdesc:"%s" `, coqfmt.Pick(r, []string{"the port", "set as yaml: key or json: key", "toml: section [x]",
				"see json:name", "yaml:", "not dials: but env", "a, b; c = d"})) + tag
			if r.Chance(1, 2) {
				tag = fmt.Sprintf(`dials:"%s" dialsdesc:"in yaml: %s, in toml: %s, in json: %s"`, key, key, key, key)
			}
		}
		if r.Chance(1, 8) {
			for _, f := range []string{"json", "yaml", "toml"} {
				if r.Chance(2, 3) {
					alt := fmt.Sprintf("%s_%s%d", f, key, r.Intn(10))
					used[strings.ToLower(alt)] = true
					tag += fmt.Sprintf(` %s:"%s"`, f, alt)
				}
			}
		}
		name := fmt.Sprintf("F%d", fieldCtr)
		if embedded {
			name = fmt.Sprintf("E%d", fieldCtr)
		}
		fieldCtr++
		if embedOK && r.Chance(1, 60) {
			name = "F0x" // ... except for a rare clash: hoisting it next to another F0x is a TranslateType error
			for _, f := range fields {
				if f.Name == name {
					name = fmt.Sprintf("F%dy", fieldCtr)
				}
			}
		}
		fields = append(fields, reflect.StructField{Name: name, Type: t, Tag: reflect.StructTag(tag), Anonymous: embedded})
	}
	return reflect.StructOf(fields)
}

var tTime = reflect.TypeOf(time.Time{})

var printer = rty.TimePrinter

var tDur = reflect.TypeOf(time.Duration(0))
var tIP = reflect.TypeOf(net.IP(nil))
var tSet = reflect.TypeOf(map[string]struct{}(nil))

var goodDur = []string{"1h30m", "250ms", "-5s", "0", "1ns", "10h", "100ms5us", "2m0s", "+3us"}
var strPool = []string{"", "x", "hello world", "a,b", "q\"uote", "back\\slash", "tab\there", "line\nbreak", "é", "true", "123", "[x]", "{y}", "k: v", "# c", "'s'"}

// genTime draws a timestamp every format reads: RFC 3339 with two-digit fields, an optional
// fraction of up to 12 digits, Z or a numeric offset.
func genTime(r *coqfmt.Rng) string {
	if r.Chance(1, 12) {
		return coqfmt.Pick(r, []string{"0001-01-01T00:00:00Z", "0001-01-01T02:30:00+02:30", "0000-01-01T00:00:00Z",
			"9999-12-31T23:59:59.999999999Z", "1970-01-01T00:00:00Z", "1969-12-31T23:59:59.5-00:00", "2020-02-29T12:00:00+14:00"})
	}
	year := coqfmt.Pick(r, []int{0, 1, 4, 100, 400, 1600, 1900, 1969, 1970, 1999, 2000, 2020, 2021, 2038, 2100, 9999})
	if r.Chance(1, 2) {
		year = r.Intn(10000)
	}
	month := 1 + r.Intn(12)
	dim := []int{31, 28, 31, 30, 31, 30, 31, 31, 30, 31, 30, 31}[month-1]
	if month == 2 && year%4 == 0 && (year%100 != 0 || year%400 == 0) {
		dim = 29
	}
	day := 1 + r.Intn(dim)
	if r.Chance(1, 4) {
		day = dim
	}
	s := fmt.Sprintf("%04d-%02d-%02dT%02d:%02d:%02d", year, month, day, r.Intn(24), r.Intn(60), r.Intn(60))
	if r.Chance(1, 2) {
		s += "."
		for n := 1 + r.Intn(12); n > 0; n-- {
			s += fmt.Sprintf("%d", r.Intn(10))
		}
	}
	if r.Chance(1, 2) {
		return s + "Z"
	}
	return s + fmt.Sprintf("%s%02d:%02d", coqfmt.Pick(r, []string{"+", "-"}), r.Intn(24), coqfmt.Pick(r, []int{0, 0, 30, 45, 59}))
}

// genDoc draws a document for type t.  bad > 0: one ill-typed or out-of-range value may be planted.
func genDoc(r *coqfmt.Rng, t reflect.Type, bad *int) *doc {
	plant := func() bool {
		if *bad > 0 && r.Chance(1, 6) {
			*bad--
			return true
		}
		return false
	}
	switch {
	case rty.IsTextU(t):
		// no ill-typed value is planted here: yaml.v2 and go-toml hand any scalar's text to
		// UnmarshalText and decode a mapping into the struct's own fields
		return dS(coqfmt.Pick(r, strPool))
	case t == tIP:
		if plant() {
			// only malformed text: a list of numbers IS a []byte for yaml.v2 and go-toml
			return coqfmt.Pick(r, []*doc{dS("bogus"), dS("1.2.3"), dS("256.1.1.1"), dS("01.2.3.4"), dS("1.2.3.4.5")})
		}
		return dS(fmt.Sprintf("%d.%d.%d.%d", r.Intn(256), r.Intn(256), r.Intn(256), r.Intn(256)))
	case t == tTime:
		if plant() {
			// a timestamp no format accepts, a string (a timestamp for all but TOML), another kind.
			// An invalid datetime literal makes the whole TOML text invalid, so one is only planted
			// under a key the TOML decoder reads.
			if !tomlLive {
				return coqfmt.Pick(r, []*doc{dS("notatime"), dS(""), dI(5), dB(true), dL(), dS("2021-03-04T05:06:07Z"), dS("2021-13-04T05:06:07Z")})
			}
			return coqfmt.Pick(r, []*doc{dT("2021-02-29T05:06:07Z"), dT("2021-13-04T05:06:07Z"), dT("2021-03-04T24:06:07Z"),
				dT("2021-03-04T05:06:60Z"), dT("2021-03-04T05:06:07+25:00"), dS("notatime"), dS(""), dI(5), dB(true), dL(),
				dS("2021-03-04T05:06:07Z"), dS("2021-03-04T5:06:07,5Z"), dS("2021-03-04T05:06:07+24:60")})
		}
		return dT(genTime(r))
	case t == tSet:
		if plant() {
			return coqfmt.Pick(r, []*doc{dS("notalist"), dM(kv{"a", dM()}), dL(dL(dS("x")))})
		}
		n := r.Intn(4)
		l := make([]*doc, n)
		for i := range l {
			l[i] = dS(coqfmt.Pick(r, []string{"a", "b", "c", "with space", ""}))
		}
		return dL(l...)
	case t == tDur:
		if *bad > 0 && r.Chance(2, 3) {
			// a number written as a STRING is not a duration (time.ParseDuration wants a unit) - in every format
			*bad--
			return dS(coqfmt.Pick(r, []string{"1500", "-20", "+7", "5", "00", "1000000000", "-0x10", "1_000"}))
		}
		if plant() {
			return coqfmt.Pick(r, []*doc{dS("bogus"), dS("5"), dB(true), dL(dI(1)), dS("")})
		}
		if r.Chance(1, 2) {
			return dS(coqfmt.Pick(r, goodDur))
		}
		if r.Chance(1, 4) {
			// integer nanoseconds beyond 2^53: must arrive exactly (no detour through float64)
			return dI(coqfmt.Pick(r, []int64{1<<53 + 1, 1<<62 + 12345, 1<<63 - 1, -(1 << 53) - 1, -(1 << 63) + 1,
				9007199254740993, 1234567890123456789}) - int64(r.Intn(3)))
		}
		return dI(int64(r.Intn(1000000)) * int64(1+r.Intn(1000)))
	case t.Kind() == reflect.Ptr:
		return genDoc(r, t.Elem(), bad)
	case t.Kind() == reflect.String:
		if plant() {
			return coqfmt.Pick(r, []*doc{dL(dS("x")), dM(kv{"k", dS("v")})})
		}
		return dS(coqfmt.Pick(r, strPool))
	case t.Kind() == reflect.Bool:
		if plant() {
			return coqfmt.Pick(r, []*doc{dS("true"), dI(1), dL()})
		}
		return dB(r.Chance(1, 2))
	case t.Kind() >= reflect.Int && t.Kind() <= reflect.Int64:
		bits := uint(t.Bits())
		if plant() {
			if bits < 64 && r.Chance(1, 2) {
				if r.Chance(1, 2) {
					return dI(int64(1) << (bits - 1)) // max+1
				}
				return dI(-(int64(1) << (bits - 1)) - 1)
			}
			return coqfmt.Pick(r, []*doc{dS("12"), dB(false), dM()})
		}
		switch r.Intn(4) {
		case 0:
			return dI(int64(1)<<(bits-1) - 1)
		case 1:
			return dI(-(int64(1) << (bits - 1)))
		default:
			return dI(int64(r.Intn(200)) - 100)
		}
	case t.Kind() >= reflect.Uint && t.Kind() <= reflect.Uint64:
		bits := uint(t.Bits())
		if plant() {
			if r.Chance(1, 2) {
				return dI(-1)
			}
			if bits < 64 {
				return dI(int64(1) << bits)
			}
			return dS("7")
		}
		if r.Chance(1, 4) {
			if bits == 64 {
				return dI(1<<63 - 1)
			}
			return dI(int64(1)<<bits - 1)
		}
		return dI(int64(r.Intn(200)))
	case t.Kind() == reflect.Slice:
		if plant() {
			return coqfmt.Pick(r, []*doc{dS("notalist"), dI(3), dM()})
		}
		n := r.Intn(4)
		if n == 0 && t.Elem().Kind() == reflect.Struct {
			n = 1 // TOML has no empty array of tables: go-toml rejects `k = []` for a []struct field
		}
		l := make([]*doc, n)
		for i := range l {
			l[i] = genDoc(r, t.Elem(), bad)
			if t.Elem().Kind() == reflect.Struct && l[i].Kind != dMap {
				// TOML cannot mix tables and other values in one array: the ill-typed value may sit
				// inside an element, not replace it
				none := 0
				l[i] = genDoc(r, t.Elem(), &none)
			}
		}
		return dL(l...)
	case t.Kind() == reflect.Map:
		if plant() {
			return coqfmt.Pick(r, []*doc{dS("notamap"), dL()})
		}
		n := r.Intn(4)
		var kvs []kv
		seen := map[string]bool{}
		for i := 0; i < n; i++ {
			k := coqfmt.Pick(r, []string{"a", "b", "k1", "key", "z-9", "with space", "Dotted.key"})
			if seen[k] {
				continue
			}
			seen[k] = true
			kvs = append(kvs, kv{k, genDoc(r, t.Elem(), bad)})
		}
		return dM(kvs...)
	case t.Kind() == reflect.Struct:
		if plant() {
			return coqfmt.Pick(r, []*doc{dL(dI(1)), dS("s"), dI(0)})
		}
		var kvs []kv
		p := 1 + r.Intn(4)
		var fs []reflect.StructField
		for i := 0; i < t.NumField(); i++ {
			f := t.Field(i)
			et := f.Type
			if et.Kind() == reflect.Ptr {
				et = et.Elem()
			}
			if flatMode && f.Anonymous && et.Kind() == reflect.Struct && r.Chance(7, 8) {
				// written the flattened way: the embedded struct's fields in this mapping (one level)
				for j := 0; j < et.NumField(); j++ {
					g := et.Field(j)
					g.Anonymous = false
					fs = append(fs, g)
				}
				continue
			}
			fs = append(fs, f)
		}
		for _, f := range fs {
			if !r.Chance(p, 4) {
				continue
			}
			// the key under which every format finds the field: only fields without format tags get
			// the common dials key; fields with format tags are addressed by one of their keys
			keys := []string{f.Tag.Get("dials")}
			for _, ft := range []string{"json", "yaml", "toml"} {
				if v := f.Tag.Get(ft); v != "" && r.Chance(1, 2) {
					keys = append(keys, v)
				}
			}
			tomlKey := f.Tag.Get("toml")
			if tomlKey == "" {
				tomlKey = f.Tag.Get("dials")
			}
			for _, k := range keys {
				saved := tomlLive
				tomlLive = saved && k == tomlKey
				kvs = append(kvs, kv{k, genDoc(r, f.Type, bad)})
				tomlLive = saved
			}
		}
		if r.Chance(1, 3) {
			kvs = append(kvs, kv{coqfmt.Pick(r, []string{"zz_unknown", "extra9", "not-a-field"}), dI(int64(r.Intn(9)))})
		}
		// shuffle document order
		for i := len(kvs) - 1; i > 0; i-- {
			j := r.Intn(i + 1)
			kvs[i], kvs[j] = kvs[j], kvs[i]
		}
		return dM(kvs...)
	}
	panic("genDoc: " + t.String())
}

// ---- single-token corruption ----
var tokRe = regexp.MustCompile(`"(?:[^"\\]|\\.)*"|-?[0-9]+|[A-Za-z_][A-Za-z0-9_-]*|\n[ ]*|[ ]+|.`)

// tokens of each concrete syntax beyond those a rendered document contains:
// every token kind of the format can be spliced in by a corruption
var fmtTokens = [][]string{
	// JSON
	{"null", "true", "false", "1.5", "1e2", "-", "-0", "\"\\u00e9\"", "\"\\q\"", "[", "]", "{", "}", ":", ",", "\"", " ", "\n", "\t", "/*c*/", "//c"},
	// YAML
	{"---", "...", "&a ", "*a", "? ", "| ", "> ", "# c", "- ", "~", "null", "yes", "no", "on", "0x1f", "0o17", "1_000", "1.5", ".inf", "2001-12-14", "'single'", "{", "}", "[", "]", ":", ": ", ",", "\n", "\n  ", "\t", "%YAML 1.1", "<<: ", "`", "@"},
	// TOML
	{"[t]", "[[t]]", "[t.u]", "#c", "'''", "\"\"\"", "'lit'", "1979-05-27T07:32:00Z", "07:32:00", "1.5", "inf", "nan", "0x1F", "0o17", "0b11", "1_000", "+1", "true", "false", "=", ".", ",", "{", "}", "[", "]", "\n", "\"k\" = ", "a.b = ", "\\"},
	// Cue
	{"//c", "_|_", "null", "1.5", "1e2", "*1", "|", "&", "string", "int", "number", "...", "_", "_x", "#D", "let ", "if ", "for ", "import ", "package p", "'bytes'", "\"\"\"", "#\"raw\"#", "{", "}", "[", "]", ":", ",", "?", "!", "=", "==", "<", ">", "\n", "0x1f", "0o17", "0b11", "1_000", "1K", "(", ")", "\\(x)"},
}

var curFmt int // format of the text being corrupted

func corrupt(r *coqfmt.Rng, text string) string {
	toks := tokRe.FindAllString(text, -1)
	if len(toks) == 0 {
		return coqfmt.Pick(r, []string{"{", "]", ":", "x"})
	}
	sig := []int{} // indices of non-blank tokens
	for i, t := range toks {
		if strings.TrimSpace(t) != "" {
			sig = append(sig, i)
		}
	}
	if len(sig) == 0 {
		return text + "]"
	}
	i := sig[r.Intn(len(sig))]
	punct := fmtTokens[curFmt]
	op := r.Intn(9)
	if op >= 7 {
		op = 4 // the kind change of a scalar has triple weight ...
		var strs []int
		for _, j := range sig {
			if strings.HasPrefix(toks[j], "\"") && j > 0 && strings.HasSuffix(strings.TrimRight(strings.Join(toks[:j], ""), " \t"), ":") {
				strs = append(strs, j)
			}
		}
		if len(strs) > 0 {
			i = strs[r.Intn(len(strs))] // ... and then goes for a string VALUE when there is one
		}
	}
	switch op {
	case 6: // splice a token of the format in front of the chosen one
		toks[i] = coqfmt.Pick(r, punct) + toks[i]
	case 0: // delete
		toks[i] = ""
	case 1: // duplicate
		toks[i] = toks[i] + toks[i]
	case 2: // replace by another token of the text
		toks[i] = toks[sig[r.Intn(len(sig))]]
	case 3: // replace by a punctuation token
		toks[i] = coqfmt.Pick(r, punct)
	case 4: // change the kind of a scalar token
		t := toks[i]
		switch {
		case strings.HasPrefix(t, "\"") && curFmt == 3 && r.Chance(1, 2):
			// Cue has a second kind of quoted scalar: bytes - text for a TextUnmarshaler, ill-typed for a string
			toks[i] = coqfmt.Pick(r, []string{"'svc'", "'1h'", "'10.0.0.1'", "'\\x03ab'", "''"})
		case strings.HasPrefix(t, "\""):
			toks[i] = coqfmt.Pick(r, []string{"17", "true", "\"other\"", "-3", "\"1h\"", "\"1500\"", "\"-20\"", "\"0\""})
		case t == "true" || t == "false":
			toks[i] = coqfmt.Pick(r, []string{"1", "\"true\"", "maybe"})
		default:
			toks[i] = coqfmt.Pick(r, []string{"\"str\"", "false", "99999999999", "1.5", "-1"})
		}
	default: // truncate
		toks = toks[:i]
	}
	return strings.Join(toks, "")
}

// ---- the libraries' own generic parse as oracle for corrupted text ----
var errOutside = fmt.Errorf("outside the document language")

func fromAny(v interface{}) (*doc, error) {
	switch x := v.(type) {
	case bool:
		return dB(x), nil
	case string:
		return dS(x), nil
	case int:
		return dI(int64(x)), nil
	case int64:
		return dI(x), nil
	case uint64:
		return dU(x), nil
	case []byte:
		if curFmt != 3 {
			return nil, errOutside
		}
		return cfgdoc.NBy(string(x)), nil // Cue's bytes literal
	case time.Time:
		// TOML's offset datetime (yaml.v2 also resolves plain scalars to timestamps, but what it does
		// with one depends on its spelling: those stay outside the document language)
		if curFmt != 2 {
			return nil, errOutside
		}
		return dT(x.Format(time.RFC3339Nano)), nil
	case json.Number:
		var i int64
		if _, err := fmt.Sscanf(string(x), "%d", &i); err != nil || fmt.Sprintf("%d", i) != string(x) {
			return nil, errOutside
		}
		return dI(i), nil
	case []interface{}:
		l := make([]*doc, len(x))
		for i, e := range x {
			d, err := fromAny(e)
			if err != nil {
				return nil, err
			}
			l[i] = d
		}
		return dL(l...), nil
	case map[string]interface{}:
		keys := make([]string, 0, len(x))
		for k := range x {
			keys = append(keys, k)
		}
		sort.Strings(keys)
		var kvs []kv
		for _, k := range keys {
			d, err := fromAny(x[k])
			if err != nil {
				return nil, err
			}
			kvs = append(kvs, kv{k, d})
		}
		return dM(kvs...), nil
	case map[interface{}]interface{}:
		m := map[string]interface{}{}
		for k, e := range x {
			ks, ok := k.(string)
			if !ok {
				return nil, errOutside
			}
			m[ks] = e
		}
		return fromAny(m)
	}
	return nil, errOutside
}

// hasDupKeysJSON reports a repeated key in some object of a valid JSON text.
func hasDupKeysJSON(text string) bool {
	dec := json.NewDecoder(strings.NewReader(text))
	type frame struct {
		obj  bool
		keys map[string]bool
		key  bool // next string token is a key
	}
	var st []*frame
	for {
		tok, err := dec.Token()
		if err != nil {
			return false
		}
		top := func() *frame {
			if len(st) == 0 {
				return nil
			}
			return st[len(st)-1]
		}
		switch v := tok.(type) {
		case json.Delim:
			switch v {
			case '{':
				if t := top(); t != nil && t.obj {
					t.key = true
				}
				st = append(st, &frame{obj: true, keys: map[string]bool{}, key: true})
				continue
			case '[':
				if t := top(); t != nil && t.obj {
					t.key = true
				}
				st = append(st, &frame{})
				continue
			default:
				st = st[:len(st)-1]
				continue
			}
		case string:
			if t := top(); t != nil && t.obj && t.key {
				if t.keys[v] {
					return true
				}
				t.keys[v] = true
				t.key = false
				continue
			}
		}
		if t := top(); t != nil && t.obj {
			t.key = true
		}
	}
}

func hasDupKeysYAML(v interface{}) bool {
	switch x := v.(type) {
	case yaml.MapSlice:
		seen := map[interface{}]bool{}
		for _, it := range x {
			k := fmt.Sprintf("%T:%v", it.Key, it.Key)
			if seen[k] {
				return true
			}
			seen[k] = true
			if hasDupKeysYAML(it.Value) {
				return true
			}
		}
	case []interface{}:
		for _, e := range x {
			if hasDupKeysYAML(e) {
				return true
			}
		}
	}
	return false
}

// genericParse: (doc, parseError, outsideLanguage)
func genericParse(f int, text string) (*doc, error, bool) {
	var top interface{}
	defer func() { recover() }()
	switch f {
	case 0:
		dec := json.NewDecoder(bytes.NewReader([]byte(text)))
		dec.UseNumber()
		var m map[string]interface{}
		if !json.Valid([]byte(text)) {
			return nil, fmt.Errorf("invalid json"), false
		}
		if err := dec.Decode(&m); err != nil {
			return nil, err, false
		}
		if m == nil { // JSON null
			return nil, nil, true
		}
		if hasDupKeysJSON(text) { // a repeated key is not data of the document language
			return nil, nil, true
		}
		top = m
	case 1:
		var m map[string]interface{}
		if err := yaml.Unmarshal([]byte(text), &m); err != nil {
			if strings.Contains(err.Error(), "map merge requires") || strings.Contains(err.Error(), "value contains itself") ||
				strings.Contains(err.Error(), "invalid map key") {
				// not a parse error: raised while a mapping / alias is being constructed, which the decode
				// into a struct never does for a value under an unknown key
				return nil, nil, true
			}
			return nil, err, false
		}
		if m == nil {
			m = map[string]interface{}{}
		}
		var ms yaml.MapSlice
		if err := yaml.Unmarshal([]byte(text), &ms); err == nil && hasDupKeysYAML(ms) {
			return nil, nil, true // yaml.v2 lets a repeated key overwrite in a map but decodes both into a struct
		}
		top = m
	case 2:
		tree, err := toml.Load(text)
		if err != nil {
			return nil, err, false
		}
		top = tree.ToMap()
	default:
		val := cuecontext.New().CompileBytes([]byte(text))
		if err := val.Err(); err != nil {
			return nil, err, false
		}
		if val.Null() == nil {
			return nil, nil, true // the whole text denotes null (e.g. `{ null }`): not a mapping
		}
		if err := val.Validate(cue.Concrete(true)); err != nil {
			// disjunctions, references to other fields, unresolved values: valid CUE but not data
			return nil, nil, true
		}
		var m map[string]interface{}
		if err := val.Decode(&m); err != nil {
			if strings.Contains(err.Error(), "non-concrete") || strings.Contains(err.Error(), "incomplete") {
				// a field referring to another field / an unresolved value: valid CUE but not data; cue
				// decodes such a field into a struct by leaving it unset (noted in notes/C13.md)
				return nil, nil, true
			}
			return nil, err, false
		}
		if m == nil {
			m = map[string]interface{}{}
		}
		top = m
	}
	d, err := fromAny(top)
	if err != nil {
		return nil, nil, true
	}
	return d, nil, false
}

// decodeWith runs decoder f, wrapped with the set-slice mangler as ez does when wrap is set.
var yamlFlat = &dyaml.Decoder{FlattenAnonymous: true}
var wrappedDecs = map[dials.Decoder]dials.Decoder{}

func decodeWith(wrap bool, f int, text string, PT reflect.Type) (v reflect.Value, err error, panicked bool) {
	defer func() {
		if r := recover(); r != nil {
			panicked = true
			err = fmt.Errorf("%v", r)
		}
	}()
	var dec dials.Decoder = decoders[f]
	if wrap {
		// ONE wrapped decoder value per inner decoder, reused for every config type of the run: a
		// decoder is handed the type on every Decode and must not remember an earlier one
		w, ok := wrappedDecs[dec]
		if !ok {
			w = sourcewrap.NewTransformingDecoder(dec, &transform.SetSliceMangler{})
			wrappedDecs[dec] = w
		}
		dec = w
	}
	src := &static.StringSource{Data: text, Decoder: dec}
	v, err = src.Value(context.Background(), dials.NewType(PT))
	return v, err, false
}

func outcomeTerm(v reflect.Value, err error, panicked bool) string {
	ok := ""
	if err == nil && !panicked {
		ok = printer.StructFieldsTerm(v)
	}
	return driver.Outcome(ok, err, panicked)
}

func run(raw json.RawMessage) driver.Result {
	var in input
	if err := json.Unmarshal(raw, &in); err != nil {
		panic(err)
	}
	r := coqfmt.NewRng(in.State)
	wrapMode = in.Wrap
	fieldCtr = 0
	embedOK = in.Embed
	flatMode = in.K == "flat"
	T := genType(r, 0, in.Depth, in.Width)
	PT := ptrify.Pointerify(T, reflect.New(T).Elem())
	bad := 0
	if r.Chance(1, 4) {
		bad = 1
	}
	planted := bad
	d := genDoc(r, T, &bad)
	planted -= bad
	if d.Kind != dMap { // a planted non-mapping at top level
		d = dM()
	}
	// two renderings in three draw among the alternative spellings of the same data
	cfgdoc.Sp = nil
	if spellState := r.U64(); spellState%3 != 0 {
		cfgdoc.Sp = coqfmt.NewRng(spellState)
	}
	switch in.K {
	case "dupkey":
		// one key on two fields of one struct (directly, or by hoisting an embedded struct's field):
		// yaml.v2 refuses such a struct type; the decoder must report that as an error
		fs := []reflect.StructField{}
		for i := 0; i < T.NumField(); i++ {
			fs = append(fs, T.Field(i))
		}
		kf := fs[r.Intn(len(fs))]
		key := kf.Tag.Get("yaml") // the key yaml.v2 sees for that field
		if key == "" {
			key = kf.Tag.Get("dials")
		}
		dup := reflect.StructField{Name: "Fdup", Type: reflect.TypeOf(0), Tag: reflect.StructTag(fmt.Sprintf(`dials:"%s"`, key))}
		flat := r.Chance(1, 2)
		if flat {
			et := reflect.StructOf([]reflect.StructField{dup})
			fs = append(fs, reflect.StructField{Name: "Edup", Type: et, Anonymous: true, Tag: `dials:"edup"`})
		} else {
			fs = append(fs, dup)
		}
		T2 := reflect.StructOf(fs)
		PT2 := ptrify.Pointerify(T2, reflect.New(T2).Elem())
		saved := decoders[1]
		decoders[1] = &dyaml.Decoder{FlattenAnonymous: flat}
		_, err, p := decodeWith(in.Wrap, 1, render(1, d), PT2)
		decoders[1] = saved
		var direct []string
		if p {
			direct = append(direct, fmt.Sprintf("yaml decoder panicked on a struct type with the key %q on two fields: %v", key, err))
		} else if err == nil {
			direct = append(direct, fmt.Sprintf("yaml decoder accepted a struct type with the key %q on two fields", key))
		}
		return driver.Result{Coq: "Skipped 1", Kind: "dupkey", Nontrivial: true, Tags: []string{"duplicate-key-type"}, Direct: direct}
	case "flat":
		saved := decoders[1]
		decoders[1] = yamlFlat
		v, err, p := decodeWith(in.Wrap, 1, render(1, d), PT)
		decoders[1] = saved
		tags := []string{"yaml-flatten-anonymous"}
		if hasEmbedded(T) {
			tags = append(tags, "embedded-struct")
		}
		if err != nil || p {
			tags = append(tags, "flat-err")
		} else {
			tags = append(tags, "flat-ok")
		}
		if planted > 0 {
			tags = append(tags, "planted-bad-value")
		}
		return driver.Result{
			Coq:        fmt.Sprintf("Flat %s %s %s %s", coqfmt.Bool(in.Wrap), printer.FieldsTerm(T), d.Term(), outcomeTerm(v, err, p)),
			Kind:       "flat",
			Nontrivial: hasEmbedded(T) && len(d.KVs) >= 2,
			Tags:       tags,
		}
	case "agree":
		terms := make([]string, 4)
		nerr := 0
		for f := 0; f < 4; f++ {
			v, err, p := decodeWith(in.Wrap, f, render(f, d), PT)
			terms[f] = outcomeTerm(v, err, p)
			if err != nil || p {
				nerr++
			}
		}
		tags := []string{fmt.Sprintf("keys-%d", min(len(d.KVs), 8))}
		if in.Wrap {
			tags = append(tags, "set-slice-wrapped")
		}
		if planted > 0 {
			tags = append(tags, "planted-bad-value")
		}
		if hasKind(d, dTime) {
			tags = append(tags, "timestamp")
		}
		switch nerr {
		case 0:
			tags = append(tags, "all-ok")
		case 4:
			tags = append(tags, "all-err")
		default:
			tags = append(tags, "mixed-outcomes")
		}
		return driver.Result{
			Coq:        fmt.Sprintf("Agree %s %s %s %s", coqfmt.Bool(in.Wrap), printer.FieldsTerm(T), d.Term(), strings.Join(terms, " ")),
			Kind:       "agree",
			Nontrivial: len(d.KVs) >= 2 && docDepth(d) >= 2,
			Tags:       tags,
		}
	default: // corrupt
		mr := coqfmt.NewRng(in.Mut)
		curFmt = in.Fmt
		text := corrupt(mr, render(in.Fmt, d))
		gd, gerr, outside := genericParse(in.Fmt, text)
		v, err, p := decodeWith(in.Wrap, in.Fmt, text, PT)
		var direct []string
		tags := []string{"corrupt-" + fmtNames[in.Fmt]}
		if p {
			direct = append(direct, fmt.Sprintf("%s decoder panicked on corrupted text %q", fmtNames[in.Fmt], text))
		}
		switch {
		case gerr != nil:
			tags = append(tags, "lib-rejects")
			if err == nil && !p {
				direct = append(direct, fmt.Sprintf("%s: the library's own parser rejects the text but the dials decoder returned a value: %q", fmtNames[in.Fmt], text))
			}
			return driver.Result{Coq: fmt.Sprintf("Skipped %d", in.Fmt), Kind: "corrupt", Tags: tags, Direct: direct}
		case outside || gd == nil:
			tags = append(tags, "outside-doc-language")
			return driver.Result{Coq: fmt.Sprintf("Skipped %d", in.Fmt), Kind: "corrupt", Tags: tags, Direct: direct}
		}
		tags = append(tags, "lib-accepts")
		if hasKind(gd, dTime) {
			tags = append(tags, "toml-datetime")
		}
		if hasKind(gd, cfgdoc.Bytes) {
			tags = append(tags, "cue-bytes-literal")
		}
		if err != nil {
			tags = append(tags, "dials-err")
		} else {
			tags = append(tags, "dials-ok")
		}
		return driver.Result{
			Coq:        fmt.Sprintf("Corrupt %d %s %s %s %s", in.Fmt, coqfmt.Bool(in.Wrap), printer.FieldsTerm(T), gd.Term(), outcomeTerm(v, err, p)),
			Kind:       "corrupt",
			Nontrivial: true,
			Tags:       tags,
			Direct:     direct,
		}
	}
}

func hasEmbedded(t reflect.Type) bool {
	switch t.Kind() {
	case reflect.Ptr, reflect.Slice:
		return hasEmbedded(t.Elem())
	case reflect.Struct:
		for i := 0; i < t.NumField(); i++ {
			if t.Field(i).Anonymous || hasEmbedded(t.Field(i).Type) {
				return t != tTime
			}
		}
	}
	return false
}

func hasKind(d *doc, k kind) bool {
	if d.Kind == k {
		return true
	}
	for _, e := range d.KVs {
		if hasKind(e.V, k) {
			return true
		}
	}
	for _, e := range d.List {
		if hasKind(e, k) {
			return true
		}
	}
	return false
}

func docDepth(d *doc) int {
	m := 0
	for _, e := range d.KVs {
		if x := docDepth(e.V); x > m {
			m = x
		}
	}
	for _, e := range d.List {
		if x := docDepth(e); x > m {
			m = x
		}
	}
	if d.Kind == dMap || d.Kind == dList {
		return m + 1
	}
	return 0
}

func min(a, b int) int {
	if a < b {
		return a
	}
	return b
}

func gen(r *coqfmt.Rng, n int, tier string) []json.RawMessage {
	var out []json.RawMessage
	for i := 0; i < n; i++ {
		st := r.U64()
		depth, width := r.Intn(3), 2+r.Intn(4)
		wrap := r.Chance(1, 3)
		embed := r.Chance(1, 3)
		if r.Chance(1, 40) {
			b, _ := json.Marshal(input{K: "dupkey", State: st, Depth: depth, Width: width, Wrap: wrap})
			out = append(out, b)
			continue
		}
		if embed && r.Chance(2, 3) {
			// decoders/yaml with FlattenAnonymous on a type with embedded structs
			b, _ := json.Marshal(input{K: "flat", State: st, Depth: depth, Width: width, Wrap: wrap, Embed: true})
			out = append(out, b)
			continue
		}
		b, _ := json.Marshal(input{K: "agree", State: st, Depth: depth, Width: width, Wrap: wrap, Embed: embed})
		out = append(out, b)
		// single-token corruptions of the same document, one per format
		for f := 0; f < 4; f++ {
			if r.Chance(1, 2) {
				b, _ := json.Marshal(input{K: "corrupt", State: st, Depth: depth, Width: width, Wrap: wrap, Fmt: f, Mut: r.U64(), Embed: embed})
				out = append(out, b)
			}
		}
	}
	return out
}

func mainHarness() {
	driver.Main(driver.Engine{
		Prop: "C13", CoqImport: "Dials.Check.C13Check", CoqRun: "run_cases",
		Rule: "random config types whose fields all carry dials tags (1/8 also carry json/yaml/toml tags; nested structs, *struct, []struct, in 1/3 of the types embedded structs / *structs (also embedded inside embedded), scalars of every integer width, bool, string, durations, time.Time (also *time.Time, []time.Time, map[string]time.Time), net.IP, a TextUnmarshaler struct, slices, string-keyed maps, sets when wrapped, user pointers); one abstract document per type (random subset of keys, unknown keys, shuffled order, durations as strings or integer nanoseconds, timestamps over years 0000-9999 with fractions and offsets and the zero instant, boundary integers, quoting-heavy strings; in 1/4 of the cases one ill-typed / out-of-range / malformed value planted) rendered as JSON, YAML, TOML and Cue - two renderings in three drawing among the alternative spellings each format has for the SAME data (string escapes \\uXXXX / \\UXXXXXXXX / \\xXX / \\/, single- / double-quoted / plain / literal-block YAML scalars, TOML basic / literal / multi-line strings, Cue raw and multi-line strings, quoted vs bare keys, integers in hex / octal / binary / with digit separators / signs / Cue's K multiplier, YAML 1.1 boolean words, flow vs block collections, TOML inline tables vs [tables] and [[arrays of tables]], Cue a: b: c shorthand and top-level braces, datetime separators, insignificant blanks, blank lines and comments) - and decoded by the four real decoders through static.StringSource: every outcome is compared with the model decoder and the strict specification decoder; types with embedded structs are also decoded by decoders/yaml with FlattenAnonymous from a document written the flattened way (case Flat: model = type rewrite + regrouping, specification = direct reading); struct types with one key on two fields must make the YAML decoder return an error [direct oracle]; plus single-token corruptions of each rendering (delete, duplicate, replace, splice of any token kind of the format, scalar kind change, truncate) with the library's own generic parse as oracle (error => the decoder must fail [direct oracle]; success => the decoder must agree with the specification on the re-abstracted tree); non-trivial: agree cases with >=2 keys and nesting depth >=2, flat cases with an embedded struct and >=2 keys, corrupt cases the library accepts; distinct = distinct (case kind, case state, format, corruption state)",
		Gen:  gen, Run: run,
	})
}
