package main

import (
	"fmt"
	"reflect"

	"github.com/vimeo/dials/ptrify"
)

// demo9: a Cue bytes literal at leaves of several types (and what the generic parse makes of it).
func demo9() {
	T2 := reflect.TypeOf(demo4Toml{})
	PT2 := ptrify.Pointerify(T2, reflect.New(T2).Elem())
	for _, k := range []string{"s", "i", "d", "u", "ip", "l", "m", "b", "w", "zz"} {
		text := k + ": 'svc'\n"
		if k == "l" {
			text = "l: ['svc', \"x\"]\n"
		}
		v, err, p := decodeSafe(3, text, PT2)
		if p || err != nil {
			fmt.Printf("  %-3s ERR(panic=%v) %.100v\n", k, p, err)
		} else {
			fmt.Printf("  %-3s OK %s\n", k, summarize(v))
		}
		curFmt = 3
		gd, gerr, out := genericParse(3, text)
		if gd != nil {
			fmt.Println("      generic:", gd.Term(), gerr, out)
		} else {
			fmt.Println("      generic:", gerr, out)
		}
	}
}
