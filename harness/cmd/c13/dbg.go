package main

import (
	"encoding/json"
	"fmt"
	"reflect"

	dyaml "github.com/vimeo/dials/decoders/yaml"
	"github.com/vimeo/dials/ptrify"
	"verifharness/internal/cfgdoc"
	"verifharness/internal/coqfmt"
)

// debugCase prints renderings and the decoders' errors for one input line.
func debugCase(line string) {
	var in input
	if err := json.Unmarshal([]byte(line), &in); err != nil {
		panic(err)
	}
	r := coqfmt.NewRng(in.State)
	wrapMode = in.Wrap
	fieldCtr = 0
	embedOK = in.Embed
	flatMode = in.K == "flat"
	if flatMode {
		decoders[1] = &dyaml.Decoder{FlattenAnonymous: true}
	}
	T := genType(r, 0, in.Depth, in.Width)
	PT := ptrify.Pointerify(T, reflect.New(T).Elem())
	bad := 0
	if r.Chance(1, 4) {
		bad = 1
	}
	d := genDoc(r, T, &bad)
	if d.Kind != dMap {
		d = dM()
	}
	cfgdoc.Sp = nil
	if spellState := r.U64(); spellState%3 != 0 {
		cfgdoc.Sp = coqfmt.NewRng(spellState)
	}
	fmt.Println(T)
	for f := 0; f < 4; f++ {
		if (flatMode && f != 1) || (in.K == "corrupt" && f != in.Fmt) {
			continue
		}
		text := render(f, d)
		if in.K == "corrupt" {
			if f != in.Fmt {
				continue
			}
			curFmt = in.Fmt
			text = corrupt(coqfmt.NewRng(in.Mut), text)
		}
		v, err, p := decodeWith(in.Wrap, f, text, PT)
		fmt.Printf("---- %s\n%s\n=> panic=%v err=%v\n", fmtNames[f], text, p, err)
		if err == nil {
			fmt.Println(summarize(v))
		}
		if in.K == "corrupt" {
			gd, gerr, out := genericParse(f, text)
			fmt.Println("generic:", gerr, out)
			if gd != nil {
				fmt.Println(gd.Term())
			}
		}
	}
}
