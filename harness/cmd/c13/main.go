// c13: correspondence harness for the four file decoders (property C13).
package main

import (
	"context"
	"fmt"
	"os"
	"reflect"
	"time"

	"github.com/vimeo/dials"
	dcue "github.com/vimeo/dials/decoders/cue"
	djson "github.com/vimeo/dials/decoders/json"
	dtoml "github.com/vimeo/dials/decoders/toml"
	dyaml "github.com/vimeo/dials/decoders/yaml"
	"github.com/vimeo/dials/ptrify"
	"github.com/vimeo/dials/sources/static"
)

var decoders = []dials.Decoder{&djson.Decoder{}, &dyaml.Decoder{}, &dtoml.Decoder{}, &dcue.Decoder{}}
var fmtNames = []string{"json", "yaml", "toml", "cue"}

func decodeSafe(f int, text string, PT reflect.Type) (v reflect.Value, err error, panicked bool) {
	defer func() {
		if r := recover(); r != nil {
			panicked = true
			err = fmt.Errorf("%v", r)
		}
	}()
	src := &static.StringSource{Data: text, Decoder: decoders[f]}
	v, err = src.Value(context.Background(), dials.NewType(PT))
	return v, err, false
}

type demoSub struct {
	Port    int16         `dials:"port"`
	Timeout time.Duration `dials:"timeout"`
}
type demoCfg struct {
	Name string            `dials:"name"`
	Lvl  uint8             `dials:"lvl" json:"jl" yaml:"yl" toml:"tl"`
	On   bool              `dials:"on"`
	Sub  demoSub           `dials:"sub"`
	PSub *demoSub          `dials:"psub"`
	Tags []string          `dials:"tags"`
	M    map[string]int    `dials:"m"`
	Subs []demoSub         `dials:"subs"`
	Wait time.Duration     `dials:"wait"`
	Ms   map[string]string `dials:"ms"`
}

func demo() {
	T := reflect.TypeOf(demoCfg{})
	PT := ptrify.Pointerify(T, reflect.New(T).Elem())
	docs := []*doc{
		dM(kv{"name", dS("x\"y")}, kv{"on", dB(true)}, kv{"sub", dM(kv{"port", dI(80)}, kv{"timeout", dS("1h30m")})},
			kv{"psub", dM()}, kv{"tags", dL(dS("a"), dS("b"))}, kv{"m", dM(kv{"k", dI(1)})},
			kv{"subs", dL(dM(kv{"port", dI(1)}), dM(kv{"timeout", dS("5s")}))}, kv{"wait", dS("250ms")}, kv{"ms", dM(kv{"a", dS("b")})}),
		dM(kv{"wait", dI(1500)}),
		dM(kv{"sub", dM(kv{"port", dI(40000)})}),
		dM(kv{"name", dI(5)}),
		dM(kv{"on", dS("true")}),
		dM(kv{"lvl", dI(7)}, kv{"jl", dI(1)}, kv{"yl", dI(2)}, kv{"tl", dI(3)}),
		dM(kv{"unknown", dI(7)}, kv{"Name", dS("caps")}),
		dM(kv{"tags", dL()}, kv{"m", dM()}),
		dM(kv{"lvl", dI(-1)}),
		dM(kv{"tags", dS("notalist")}),
		dM(kv{"sub", dL(dI(1))}),
		dM(kv{"wait", dS("bogus")}),
		dM(kv{"tags", dL(dI(1), dI(2))}),
		dM(kv{"name", dB(true)}),
		dM(kv{"on", dI(1)}),
		dM(kv{"m", dM(kv{"k", dS("v")})}),
	}
	for _, d := range docs {
		fmt.Println("== doc", d.Term())
		for f := range decoders {
			text := render(f, d)
			v, err, p := decodeSafe(f, text, PT)
			if p || err != nil {
				fmt.Printf("  %-5s ERR(panic=%v) %v\n", fmtNames[f], p, err)
				continue
			}
			fmt.Printf("  %-5s OK %s\n", fmtNames[f], summarize(v))
		}
	}
	fmt.Println(render(1, docs[0]))
	fmt.Println(render(2, docs[0]))
	fmt.Println(render(3, docs[0]))
}

func summarize(v reflect.Value) string {
	out := ""
	for i := 0; i < v.NumField(); i++ {
		f := v.Field(i)
		if (f.Kind() == reflect.Ptr || f.Kind() == reflect.Slice || f.Kind() == reflect.Map) && f.IsNil() {
			continue
		}
		if f.Kind() == reflect.Ptr {
			f = f.Elem()
		}
		if tm, ok := f.Interface().(time.Time); ok {
			out += fmt.Sprintf("%s=%s ", v.Type().Field(i).Name, tm.Format(time.RFC3339Nano))
		} else if f.Kind() == reflect.Struct {
			out += fmt.Sprintf("%s={%s} ", v.Type().Field(i).Name, summarize(f))
		} else if f.Kind() == reflect.Slice && f.Type().Elem().Kind() == reflect.Struct {
			out += v.Type().Field(i).Name + "=["
			for j := 0; j < f.Len(); j++ {
				out += fmt.Sprintf("%+v;", f.Index(j).Interface())
			}
			out += "] "
		} else {
			out += fmt.Sprintf("%s=%v ", v.Type().Field(i).Name, f.Interface())
		}
	}
	return out
}

func main() {
	if len(os.Args) > 1 && os.Args[1] == "demo9" {
		demo9()
		return
	}
	if len(os.Args) > 1 && os.Args[1] == "demo8" {
		demo8()
		return
	}
	if len(os.Args) > 1 && os.Args[1] == "demo7" {
		demo7()
		return
	}
	if len(os.Args) > 1 && os.Args[1] == "demo6" {
		demo6()
		return
	}
	if len(os.Args) > 1 && os.Args[1] == "demo5" {
		demo5()
		return
	}
	if len(os.Args) > 1 && os.Args[1] == "demo4" {
		demo4()
		return
	}
	if len(os.Args) > 1 && os.Args[1] == "demo3" {
		demo3()
		return
	}
	if len(os.Args) > 1 && os.Args[1] == "demo2" {
		demo2()
		return
	}
	if len(os.Args) > 1 && os.Args[1] == "demo" {
		demo()
		return
	}
	if len(os.Args) > 2 && os.Args[1] == "dbg" {
		debugCase(os.Args[2])
		return
	}
	mainHarness()
}
