package main

import (
	"fmt"
	"os"
	"reflect"
	"strconv"

	"github.com/vimeo/dials/ptrify"
	"verifharness/internal/cfgdoc"
	"verifharness/internal/coqfmt"
)

// demo8: spelling self-test - for random types and documents, every alternative spelling must be
// decoded like the canonical rendering of the same document (per format).
func demo8() {
	n := 400
	if len(os.Args) > 2 {
		n, _ = strconv.Atoi(os.Args[2])
	}
	g := coqfmt.NewRng(12345)
	shown := map[int]int{}
	for i := 0; i < n; i++ {
		r := coqfmt.NewRng(g.U64())
		wrapMode, fieldCtr, embedOK, flatMode = false, 0, false, false
		T := genType(r, 0, r.Intn(3), 2+r.Intn(4))
		PT := ptrify.Pointerify(T, reflect.New(T).Elem())
		bad := 0
		d := genDoc(r, T, &bad)
		if d.Kind != dMap {
			continue
		}
		for f := 0; f < 4; f++ {
			cfgdoc.Sp = nil
			canon := render(f, d)
			v0, err0, p0 := decodeWith(false, f, canon, PT)
			o0 := outcomeTerm(v0, err0, p0)
			for k := 0; k < 4; k++ {
				cfgdoc.Sp = coqfmt.NewRng(r.U64())
				text := render(f, d)
				v1, err1, p1 := decodeWith(false, f, text, PT)
				if o1 := outcomeTerm(v1, err1, p1); o1 != o0 && shown[f] < 6 {
					shown[f]++
					fmt.Printf("==== %s: spelling decodes differently\n-- canonical (%v):\n%s\n-- spelled (%v):\n%s\n", fmtNames[f], err0, canon, err1, text)
				}
			}
		}
	}
	cfgdoc.Sp = nil
	fmt.Println("mismatches shown:", shown)
}
