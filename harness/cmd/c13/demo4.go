package main

import (
	"fmt"
	"net"
	"reflect"
	"time"

	dyaml "github.com/vimeo/dials/decoders/yaml"
	"github.com/vimeo/dials/ptrify"
	"verifharness/internal/rty"
)

type Emb struct {
	X int    `dials:"x"`
	Y string `dials:"y"`
}
type PEmb struct {
	Z bool `dials:"z"`
}
type demo4Cfg struct {
	When  time.Time  `dials:"when"`
	PWhen *time.Time `dials:"pwhen"`
	Emb   `dials:"emb"`
	*PEmb `dials:"pemb"`
	Name  string `dials:"name"`
}

type demo4Toml struct {
	S  string               `dials:"s"`
	I  int                  `dials:"i"`
	D  time.Duration        `dials:"d"`
	U  rty.TUp              `dials:"u"`
	IP net.IP               `dials:"ip"`
	L  []string             `dials:"l"`
	M  map[string]string    `dials:"m"`
	St struct{ A int }      `dials:"st"`
	B  bool                 `dials:"b"`
	W  time.Time            `dials:"w"`
	Ws []time.Time          `dials:"ws"`
	Wm map[string]time.Time `dials:"wm"`
}

func demo4() {
	T := reflect.TypeOf(demo4Cfg{})
	PT := ptrify.Pointerify(T, reflect.New(T).Elem())
	fmt.Println(PT)
	docs := []*doc{
		dM(kv{"when", dT("2021-03-04T05:06:07Z")}, kv{"pwhen", dT("1999-12-31T23:59:59.5Z")}),
		dM(kv{"when", dT("2021-03-04T05:06:07+02:00")}),
		dM(kv{"when", dT("2021-03-04T05:06:07.123456789123-00:30")}),
		dM(kv{"when", dT("0001-01-01T00:00:00Z")}),
		dM(kv{"when", dT("0001-01-01T02:00:00+02:00")}),
		dM(kv{"when", dT("0000-01-01T00:00:00Z")}),
		dM(kv{"when", dT("9999-12-31T23:59:59.999999999Z")}),
		dM(kv{"when", dT("2021-03-04T5:06:07Z")}),
		dM(kv{"when", dT("2021-03-04T05:06:07,5Z")}),
		dM(kv{"when", dT("2021-03-04T05:06:07+24:00")}),
		dM(kv{"when", dT("2021-03-04T05:06:07+02:60")}),
		dM(kv{"when", dT("2021-03-04T05:06:07+25:00")}),
		dM(kv{"when", dT("2021-03-04t05:06:07z")}),
		dM(kv{"when", dT("2021-03-04 05:06:07Z")}),
		dM(kv{"when", dT("2021-03-04T05:06:07")}),
		dM(kv{"when", dT("2021-03-04")}),
		dM(kv{"when", dT("2021-02-29T05:06:07Z")}),
		dM(kv{"when", dT("2020-02-29T05:06:07Z")}),
		dM(kv{"when", dT("2021-13-04T05:06:07Z")}),
		dM(kv{"when", dT("2021-03-04T24:06:07Z")}),
		dM(kv{"when", dT("2021-03-04T05:06:60Z")}),
		dM(kv{"when", dT("2021-03-04T05:06:07Zx")}),
		dM(kv{"when", dT("2021-03-04T05:06:07.Z")}),
		dM(kv{"when", dS("2021-03-04T05:06:07Z")}),
		dM(kv{"when", dI(5)}),
	}
	for _, d := range docs {
		fmt.Println("== doc", toJSON(d))
		for f := range decoders {
			text := render(f, d)
			v, err, p := decodeSafe(f, text, PT)
			if p || err != nil {
				fmt.Printf("  %-5s ERR(panic=%v) %.90v\n", fmtNames[f], p, err)
				continue
			}
			fmt.Printf("  %-5s OK %s %s\n", fmtNames[f], summarize(v), printer.StructFieldsTerm(v))
		}
	}
	_ = dyaml.Decoder{}
	T2 := reflect.TypeOf(demo4Toml{})
	PT2 := ptrify.Pointerify(T2, reflect.New(T2).Elem())
	for _, k := range []string{"s", "i", "d", "u", "ip", "l", "m", "st", "b", "w", "ws", "wm"} {
		var d *doc
		switch k {
		case "ws":
			d = dM(kv{k, dL(dT("1979-05-27T07:32:00Z"), dT("1979-05-27T07:32:00.25+01:00"))})
		case "wm":
			d = dM(kv{k, dM(kv{"a", dT("1979-05-27T07:32:00Z")})})
		default:
			d = dM(kv{k, dT("1979-05-27T07:32:00Z")})
		}
		for f := range decoders {
			v, err, p := decodeSafe(f, render(f, d), PT2)
			if p || err != nil {
				fmt.Printf("  %s %-5s ERR(panic=%v) %.90v\n", k, fmtNames[f], p, err)
				continue
			}
			fmt.Printf("  %s %-5s OK %s\n", k, fmtNames[f], summarize(v))
		}
		gd, gerr, out := genericParse(2, render(2, d))
		if gd != nil {
			fmt.Println("   toml generic:", gd.Term(), gerr, out)
		} else {
			fmt.Println("   toml generic:", gerr, out)
		}
	}
}
