package main

import (
	"fmt"
	"reflect"
	"time"

	"github.com/vimeo/dials/ptrify"
)

type inMap struct {
	D time.Duration `dials:"d"`
	N int           `dials:"n"`
}
type demo2Cfg struct {
	M  map[string]inMap         `dials:"m"`
	L  [][]time.Duration        `dials:"l"`
	LS [][]inMap                `dials:"ls"`
	MD map[string]time.Duration `dials:"md"`
}

func demo2() {
	T := reflect.TypeOf(demo2Cfg{})
	PT := ptrify.Pointerify(T, reflect.New(T).Elem())
	docs := []*doc{
		dM(kv{"m", dM(kv{"a", dM(kv{"d", dS("1h")}, kv{"n", dI(1)})})}),
		dM(kv{"m", dM(kv{"a", dM(kv{"d", dI(5)})})}),
		dM(kv{"l", dL(dL(dS("1s"), dS("2s")))}),
		dM(kv{"ls", dL(dL(dM(kv{"d", dS("1s")})))}),
		dM(kv{"md", dM(kv{"a", dS("3m")})}),
	}
	for _, d := range docs {
		fmt.Println("== doc", toJSON(d))
		for f := range decoders {
			text := render(f, d)
			v, err, p := decodeSafe(f, text, PT)
			if p || err != nil {
				fmt.Printf("  %-5s ERR(panic=%v) %v\n", fmtNames[f], p, err)
				continue
			}
			fmt.Printf("  %-5s OK %s\n", fmtNames[f], summarize(v))
		}
	}
}
