package main

import (
	"fmt"
	"net"
	"reflect"

	"github.com/vimeo/dials"
	"github.com/vimeo/dials/ptrify"
	"github.com/vimeo/dials/sourcewrap"
	"github.com/vimeo/dials/transform"
	"verifharness/internal/rty"
)

type demo3Sub struct {
	S map[string]struct{} `dials:"s"`
}
type demo3Cfg struct {
	T   rty.TUp             `dials:"t"`
	PT  *rty.TUp            `dials:"pt"`
	IP  net.IP              `dials:"ip"`
	Set map[string]struct{} `dials:"set"`
	Sub demo3Sub            `dials:"sub"`
	IS  map[int]struct{}    `dials:"is"`
	TL  []rty.TUp           `dials:"tl"`
}

func demo3() {
	T := reflect.TypeOf(demo3Cfg{})
	PT := ptrify.Pointerify(T, reflect.New(T).Elem())
	docs := []*doc{
		dM(kv{"t", dS("hello")}, kv{"pt", dS("p")}, kv{"ip", dS("10.1.2.3")}),
		dM(kv{"set", dL(dS("a"), dS("b"), dS("a"))}, kv{"sub", dM(kv{"s", dL(dS("x"))})}, kv{"is", dL(dI(3), dI(1))}),
		dM(kv{"set", dL()}),
		dM(kv{"ip", dS("bogus")}),
		dM(kv{"t", dI(5)}),
		dM(kv{"ip", dS("")}),
		dM(kv{"set", dL(dI(1))}),
	}
	for _, d := range docs {
		fmt.Println("== doc", toJSON(d))
		for f := range decoders {
			text := render(f, d)
			saved := decoders[f]
			decoders[f] = sourcewrap.NewTransformingDecoder(saved, &transform.SetSliceMangler{})
			v, err, p := decodeSafe(f, text, PT)
			decoders[f] = saved
			if p || err != nil {
				fmt.Printf("  %-5s ERR(panic=%v) %v\n", fmtNames[f], p, err)
				continue
			}
			fmt.Printf("  %-5s OK %s\n", fmtNames[f], summarize(v))
		}
	}
	_ = dials.NewType
}
