package main

import (
	"context"
	"fmt"
	"time"

	"github.com/vimeo/dials"
	djson "github.com/vimeo/dials/decoders/json"
	dyaml "github.com/vimeo/dials/decoders/yaml"
	"github.com/vimeo/dials/sources/static"
	"verifharness/internal/rty"
)

// demo5: a slice / array of a TextUnmarshaler struct type through dials.Config.
func demo5() {
	type cfg struct {
		When   time.Time    `dials:"when"`
		Stamps []time.Time  `dials:"stamps"`
		Pair   [2]time.Time `dials:"pair"`
		Us     []rty.TUp    `dials:"us"`
	}
	for _, text := range []string{
		`{"when": "2021-03-04T05:06:07Z"}`,
		`{"stamps": ["2021-03-04T05:06:07Z"]}`,
		`{"pair": ["2021-03-04T05:06:07Z", "2022-03-04T05:06:07Z"]}`,
		`{"us": ["a", "b"]}`,
		`{"us": [{"S": "a"}]}`,
	} {
		for name, dec := range map[string]dials.Decoder{"json": &djson.Decoder{}, "yaml": &dyaml.Decoder{}} {
			func() {
				defer func() {
					if r := recover(); r != nil {
						fmt.Printf("%-4s %-60s PANIC %v\n", name, text, r)
					}
				}()
				d, err := dials.Config(context.Background(), &cfg{}, &static.StringSource{Data: text, Decoder: dec})
				if err != nil {
					fmt.Printf("%-4s %-60s ERR %.120v\n", name, text, err)
					return
				}
				fmt.Printf("%-4s %-60s OK %+v\n", name, text, *d.View())
			}()
		}
	}
}
