package main

// The four printers.  One abstract document has many spellings in each concrete
// syntax (string escapes and quoting styles, integer bases and digit separators,
// flow vs block collections, tables vs inline tables, insignificant blanks and
// comments): with `sp` set, every rendering draws among the spellings the format
// allows for the SAME data; with sp == nil the plain canonical one is printed.

import (
	"fmt"
	"regexp"
	"strings"
	"unicode/utf8"

	"verifharness/internal/coqfmt"
)

var sp *coqfmt.Rng // spelling choices of the rendering in progress

func alt(n, d int) bool { return sp != nil && sp.Chance(n, d) }

func pick(canon string, alts ...string) string {
	if sp == nil {
		return canon
	}
	return coqfmt.Pick(sp, append([]string{canon}, alts...))
}

// ---- integers ----
func groups3(dec string) string {
	if len(dec) <= 3 {
		return dec
	}
	return groups3(dec[:len(dec)-3]) + "_" + dec[len(dec)-3:]
}

// intSpell: 'j' JSON (decimal only), 'y' YAML 1.1 as yaml.v2 resolves it, 't' TOML, 'c' Cue.
func intSpell(f byte, d *doc) string {
	dec := d.intText()
	if f == 'j' || d.big || !alt(1, 3) {
		return dec
	}
	neg := d.i < 0
	mag := uint64(d.i)
	if neg {
		mag = uint64(-d.i)
	}
	sign := ""
	if neg {
		sign = "-"
	}
	magDec := fmt.Sprintf("%d", mag)
	forms := []string{sign + groups3(magDec)}
	if !neg {
		if f != 'c' {
			forms = append(forms, "+"+magDec)
		}
	}
	if !neg || f != 't' { // TOML: no sign on the prefixed forms
		forms = append(forms, fmt.Sprintf("%s0x%x", sign, mag), fmt.Sprintf("%s0x%X", sign, mag),
			fmt.Sprintf("%s0o%o", sign, mag), fmt.Sprintf("%s0b%b", sign, mag))
	}
	if f == 'c' && mag%1000 == 0 && mag > 0 && !neg {
		forms = append(forms, fmt.Sprintf("%dK", mag/1000))
	}
	return coqfmt.Pick(sp, forms)
}

// ---- strings ----
func hex4(c rune) string {
	if alt(1, 2) {
		return fmt.Sprintf("%04X", c)
	}
	return fmt.Sprintf("%04x", c)
}

// escString: a double-quoted string in which any character may be written as an escape.
// u4: \uXXXX available; slash: \/ available; x2: \xXX available (ASCII); u8: \UXXXXXXXX available.
func escString(s string, slash, x2, u8 bool) string {
	var b strings.Builder
	b.WriteByte('"')
	for _, c := range s {
		switch {
		case c == utf8.RuneError:
			b.WriteString(q(string(c))[1 : len(q(string(c)))-1])
		case alt(1, 5) && c <= 0xFFFF && !(c >= 0xD800 && c <= 0xDFFF):
			if x2 && c < 0x80 && alt(1, 2) {
				fmt.Fprintf(&b, "\\x%02x", c)
			} else if u8 && alt(1, 3) {
				fmt.Fprintf(&b, "\\U%08x", c)
			} else {
				b.WriteString("\\u" + hex4(c))
			}
		case c == '/' && slash && alt(1, 2):
			b.WriteString("\\/")
		default:
			e := q(string(c))
			b.WriteString(e[1 : len(e)-1])
		}
	}
	b.WriteByte('"')
	return b.String()
}

var stampRe = regexp.MustCompile(`^[0-9]{4}-[0-9]{2}-[0-9]{2}T`)

func jsonStr(s string) string {
	if sp == nil || stampRe.MatchString(s) {
		// (a string spelling a timestamp may be bound for a time.Time, whose UnmarshalJSON does
		// not unescape: go.dev/issue/47353)
		return q(s)
	}
	return escString(s, true, false, false)
}

var plainRe = regexp.MustCompile(`^[A-Za-z][A-Za-z0-9_-]*( [A-Za-z0-9_-]+)*$`)
var yamlWords = map[string]bool{"y": true, "n": true, "yes": true, "no": true, "on": true, "off": true, "true": true,
	"false": true, "null": true, "nan": true, "inf": true}

func yamlPlainSafe(s string) bool {
	return plainRe.MatchString(s) && !yamlWords[strings.ToLower(s)]
}

func printable(s string, also string) bool {
	for _, c := range s {
		if (c < 0x20 && !strings.ContainsRune(also, c)) || c == 0x7f || c == utf8.RuneError {
			return false
		}
	}
	return true
}

// yamlStr: double-quoted (with escapes), single-quoted, plain; block: also a literal block scalar
// (only as the value of a block-mapping entry whose nested lines are indented by `pad`).
func yamlStr(s string, block bool, pad string) string {
	if sp == nil {
		return q(s)
	}
	switch sp.Intn(6) {
	case 0:
		if printable(s, "") {
			return "'" + strings.ReplaceAll(s, "'", "''") + "'"
		}
	case 1:
		if yamlPlainSafe(s) {
			return s
		}
	case 2:
		if block && s != "" && printable(s, "\n\t") && !strings.HasPrefix(s, " ") && !strings.HasPrefix(s, "\n") &&
			!strings.HasPrefix(s, "\t") && !strings.HasSuffix(s, "\n") && !strings.Contains(s, "\n\n") {
			lines := strings.Split(s, "\n")
			return "|-\n" + pad + "  " + strings.Join(lines, "\n"+pad+"  ")
		}
	case 3:
		return q(s)
	}
	return escString(s, true, true, true)
}

func tomlStr(s string) string {
	if sp == nil {
		return q(s)
	}
	switch sp.Intn(6) {
	case 0:
		if printable(s, "\t") && !strings.Contains(s, "'") {
			return "'" + s + "'"
		}
	case 1:
		if printable(s, "\t\n") && !strings.Contains(s, "'''") && !strings.HasSuffix(s, "'") {
			return "'''\n" + s + "'''"
		}
	case 2:
		if printable(s, "\t\n") {
			// multi-line basic string: newlines as they are, the newline after the opening delimiter is trimmed
			body := strings.ReplaceAll(strings.ReplaceAll(s, "\\", "\\\\"), "\"", "\\\"")
			return "\"\"\"\n" + body + "\"\"\""
		}
	case 3:
		return q(s)
	}
	return escString(s, false, false, true)
}

func cueStr(s string, pad string) string {
	if sp == nil {
		return q(s)
	}
	switch sp.Intn(6) {
	case 0:
		if printable(s, "\t") && !strings.Contains(s, "\"#") && !strings.Contains(s, "\\#") && !strings.HasSuffix(s, "\"") {
			return "#\"" + s + "\"#" // raw string: a backslash is a backslash
		}
	case 1:
		if printable(s, "\t\n") {
			body := strings.ReplaceAll(strings.ReplaceAll(s, "\\", "\\\\"), "\"", "\\\"")
			lines := strings.Split(body, "\n")
			return "\"\"\"\n" + pad + "  " + strings.Join(lines, "\n"+pad+"  ") + "\n" + pad + "  \"\"\""
		}
	case 2:
		return q(s)
	}
	return escString(s, true, false, true)
}

// ---- JSON ----
func jws() string { return pick("", "", " ", "  ", "\n", "\t", "\n  ") }

func toJSON(d *doc) string {
	sep := func(c, canon string) string {
		if sp == nil {
			return canon
		}
		return jws() + c + jws()
	}
	switch d.kind {
	case dList:
		parts := make([]string, len(d.list))
		for i, e := range d.list {
			parts[i] = toJSON(e)
		}
		return "[" + jws() + strings.Join(parts, sep(",", ", ")) + jws() + "]"
	case dMap:
		parts := make([]string, len(d.kvs))
		for i, e := range d.kvs {
			parts[i] = jsonStr(e.k) + sep(":", ": ") + toJSON(e.v)
		}
		return "{" + jws() + strings.Join(parts, sep(",", ", ")) + jws() + "}"
	case dBool:
		if d.b {
			return "true"
		}
		return "false"
	case dInt:
		return intSpell('j', d)
	}
	if d.kind == dTime {
		// encoding/json's Time.UnmarshalJSON does not unescape its string (go.dev/issue/47353)
		return q(d.s)
	}
	return jsonStr(d.s)
}

// ---- Cue ----
func cueLabel(k string) string {
	ok := k != ""
	for i, c := range k {
		if !(c == '_' || c >= 'a' && c <= 'z' || c >= 'A' && c <= 'Z' || (i > 0 && c >= '0' && c <= '9')) {
			ok = false
		}
	}
	if ok && !strings.HasPrefix(k, "_") && !cueKeyword[k] && !alt(1, 4) {
		return k
	}
	if sp == nil {
		return q(k)
	}
	return escString(k, true, false, true)
}

var cueKeyword = map[string]bool{"true": true, "false": true, "null": true, "for": true, "in": true, "if": true, "let": true,
	"package": true, "import": true, "div": true, "mod": true, "quo": true, "rem": true, "string": true, "int": true,
	"bool": true, "float": true, "number": true, "bytes": true, "len": true, "close": true, "and": true, "or": true}

func cueComment() string {
	if alt(1, 8) {
		return " // c: \"x\"\n"
	}
	return ""
}

func toCueAt(d *doc, top bool, pad string) string {
	switch d.kind {
	case dList:
		parts := make([]string, len(d.list))
		for i, e := range d.list {
			parts[i] = toCueAt(e, false, pad)
		}
		if len(parts) > 0 && alt(1, 4) {
			return "[\n" + pad + "  " + strings.Join(parts, ",\n"+pad+"  ") + ",\n" + pad + "]"
		}
		return "[" + strings.Join(parts, ", ") + "]"
	case dMap:
		multi := top || alt(1, 3)
		inner := pad
		if !top {
			inner = pad + "  "
		}
		parts := make([]string, len(d.kvs))
		for i, e := range d.kvs {
			val := ""
			// a: b: c: 1 - the shorthand for nested single-field structs
			if e.v.kind == dMap && len(e.v.kvs) == 1 && alt(1, 2) {
				in := e.v.kvs[0]
				val = cueLabel(in.k) + ": " + toCueAt(in.v, false, inner)
			} else {
				val = toCueAt(e.v, false, inner)
			}
			parts[i] = cueLabel(e.k) + pick(": ", ":", ":  ", ":\t") + val
		}
		switch {
		case top && alt(1, 5):
			return "{\n" + strings.Join(parts, "\n") + "\n}\n"
		case top:
			var sb strings.Builder
			for _, p := range parts {
				sb.WriteString(p)
				if c := cueComment(); c != "" {
					sb.WriteString(c)
				} else {
					sb.WriteString(pick("\n", ",\n", "\n\n"))
				}
			}
			return sb.String()
		case multi && len(parts) > 0:
			return "{\n" + inner + strings.Join(parts, pick(",\n", "\n")+inner) + "\n" + pad + "}"
		}
		return "{" + strings.Join(parts, ", ") + "}"
	case dBool:
		if d.b {
			return "true"
		}
		return "false"
	case dInt:
		return intSpell('c', d)
	}
	return cueStr(d.s, pad)
}

func toCue(d *doc, top bool) string { return toCueAt(d, top, "") }

// ---- YAML ----
func yamlKey(k string) string {
	if sp != nil && sp.Chance(1, 3) && yamlPlainSafe(k) {
		return k
	}
	return yamlStr(k, false, "")
}

func yamlScalar(d *doc, block bool, pad string) string {
	switch d.kind {
	case dBool:
		if d.b {
			return pick("true", "true", "True", "TRUE", "yes", "on")
		}
		return pick("false", "false", "False", "FALSE", "no", "off")
	case dInt:
		return intSpell('y', d)
	}
	return yamlStr(d.s, block, pad)
}

func yamlFlow(d *doc) string {
	switch d.kind {
	case dList:
		parts := make([]string, len(d.list))
		for i, e := range d.list {
			parts[i] = yamlFlow(e)
		}
		return "[" + strings.Join(parts, pick(", ", ",", " , ")) + "]"
	case dMap:
		parts := make([]string, len(d.kvs))
		for i, e := range d.kvs {
			parts[i] = yamlKey(e.k) + ": " + yamlFlow(e.v)
		}
		return "{" + strings.Join(parts, ", ") + "}"
	}
	return yamlScalar(d, false, "")
}

func yamlEol() string {
	if alt(1, 8) {
		return " # c: 'x'\n"
	}
	if alt(1, 12) {
		return "\n\n"
	}
	return "\n"
}

func toYAML(d *doc, indent int) string {
	pad := strings.Repeat("  ", indent)
	if d.kind != dMap {
		return pad + yamlFlow(d) + "\n"
	}
	if len(d.kvs) == 0 {
		return pad + "{}\n"
	}
	var sb strings.Builder
	if indent == 0 && alt(1, 10) {
		sb.WriteString("---\n")
	}
	for _, e := range d.kvs {
		colon := pick(": ", ":  ", ": ")
		switch {
		case isScalar(e.v):
			v := yamlScalar(e.v, true, pad)
			sb.WriteString(pad + yamlKey(e.k) + colon + v)
			if strings.HasPrefix(v, "|") {
				sb.WriteString("\n")
			} else {
				sb.WriteString(yamlEol())
			}
		case e.v.kind == dMap && len(e.v.kvs) == 0:
			sb.WriteString(pad + yamlKey(e.k) + ": {}" + yamlEol())
		case e.v.kind == dList && len(e.v.list) == 0:
			sb.WriteString(pad + yamlKey(e.k) + ": []" + yamlEol())
		case alt(1, 4):
			sb.WriteString(pad + yamlKey(e.k) + colon + yamlFlow(e.v) + yamlEol())
		case e.v.kind == dList && isScalar(e.v.list[0]) && !alt(1, 2):
			sb.WriteString(pad + yamlKey(e.k) + colon + yamlFlow(e.v) + yamlEol())
		case e.v.kind == dList:
			sb.WriteString(pad + yamlKey(e.k) + ":" + yamlEol())
			for _, it := range e.v.list {
				if it.kind == dMap && len(it.kvs) > 0 {
					body := toYAML(it, indent+2)
					// turn the first line's indentation into "- "
					sb.WriteString(pad + "  - " + strings.TrimPrefix(body, strings.Repeat("  ", indent+2)))
				} else {
					sb.WriteString(pad + "  - " + yamlFlow(it) + "\n")
				}
			}
		default:
			sb.WriteString(pad + yamlKey(e.k) + ":" + yamlEol() + toYAML(e.v, indent+1))
		}
	}
	return sb.String()
}

// ---- TOML ----
func tomlKey(k string) string {
	ok := k != ""
	for _, c := range k {
		if !(c == '_' || c == '-' || c >= 'a' && c <= 'z' || c >= 'A' && c <= 'Z' || c >= '0' && c <= '9') {
			ok = false
		}
	}
	if ok && !alt(1, 4) {
		return k
	}
	if sp == nil {
		return q(k)
	}
	if alt(1, 2) && printable(k, "") && !strings.Contains(k, "'") {
		return "'" + k + "'"
	}
	return q(k) // (go-toml does not resolve \u escapes in quoted keys: none is written)
}

func tomlInline(d *doc, nl bool) string {
	switch d.kind {
	case dTime:
		if alt(1, 4) {
			return strings.Replace(d.s, "T", " ", 1)
		}
		return d.s
	case dBool:
		if d.b {
			return "true"
		}
		return "false"
	case dInt:
		return intSpell('t', d)
	case dStr:
		if !nl && sp != nil {
			// inside an inline table: no multi-line spellings
			for {
				if s := tomlStr(d.s); !strings.Contains(s, "\n") {
					return s
				}
			}
		}
		return tomlStr(d.s)
	case dList:
		parts := make([]string, len(d.list))
		for i, e := range d.list {
			parts[i] = tomlInline(e, nl)
		}
		if nl && len(parts) > 0 && alt(1, 4) {
			return "[\n  " + strings.Join(parts, ", # c\n  ") + ",\n]"
		}
		return "[" + strings.Join(parts, pick(", ", ",", " , ")) + "]"
	}
	parts := make([]string, len(d.kvs))
	for i, e := range d.kvs {
		parts[i] = tomlKey(e.k) + " = " + tomlInline(e.v, false)
	}
	if len(parts) == 0 {
		return "{}"
	}
	return "{ " + strings.Join(parts, ", ") + " }"
}

func tomlEol() string {
	if alt(1, 8) {
		return " # c = \"x\"\n"
	}
	if alt(1, 12) {
		return "\n\n"
	}
	return "\n"
}

func toTOML(d *doc, path []string, sb *strings.Builder) {
	inline := make([]bool, len(d.kvs))
	for i, e := range d.kvs {
		tables := e.v.kind == dMap || (e.v.kind == dList && len(e.v.list) > 0 && e.v.list[0].kind == dMap)
		inline[i] = !tables || alt(1, 4)
		if inline[i] {
			sb.WriteString(tomlKey(e.k) + pick(" = ", "=", "  =  ") + tomlInline(e.v, !tables) + tomlEol())
		}
	}
	for i, e := range d.kvs {
		if inline[i] {
			continue
		}
		p := append(append([]string{}, path...), tomlKey(e.k))
		switch {
		case e.v.kind == dMap:
			sb.WriteString("\n[" + strings.Join(p, ".") + "]" + tomlEol()) // (no blanks around the dots: go-toml mis-reads them)
			toTOML(e.v, p, sb)
		default:
			for _, it := range e.v.list {
				sb.WriteString("\n[[" + strings.Join(p, ".") + "]]" + tomlEol())
				toTOML(it, p, sb)
			}
		}
	}
}

func renderTOML(d *doc) string {
	var sb strings.Builder
	toTOML(d, nil, &sb)
	return sb.String()
}
