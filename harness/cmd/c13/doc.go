package main

// Abstract documents (scalars, lists, string-keyed maps) and their rendering
// in the four concrete syntaxes.

import (
	"encoding/json"
	"fmt"
	"sort"

	"verifharness/internal/coqfmt"
)

type kind int

const (
	dBool kind = iota
	dInt
	dStr
	dList
	dMap
	dTime // a timestamp: a datetime literal in TOML, a string in the other three syntaxes
)

type kv struct {
	k string
	v *doc
}

type doc struct {
	kind kind
	b    bool
	i    int64
	u    uint64 // used when neg == false && big
	big  bool   // value does not fit int64 (unsigned)
	s    string
	list []*doc
	kvs  []kv // in document order
}

func dB(b bool) *doc  { return &doc{kind: dBool, b: b} }
func dI(i int64) *doc { return &doc{kind: dInt, i: i} }
func dU(u uint64) *doc {
	if u <= 1<<63-1 {
		return dI(int64(u))
	}
	return &doc{kind: dInt, u: u, big: true}
}
func dS(s string) *doc  { return &doc{kind: dStr, s: s} }
func dT(s string) *doc  { return &doc{kind: dTime, s: s} }
func dL(l ...*doc) *doc { return &doc{kind: dList, list: l} }
func dM(kvs ...kv) *doc { return &doc{kind: dMap, kvs: kvs} }

func (d *doc) intText() string {
	if d.big {
		return fmt.Sprintf("%d", d.u)
	}
	return fmt.Sprintf("%d", d.i)
}

// term prints the document as a Coq `doc`.
func (d *doc) term() string {
	switch d.kind {
	case dBool:
		return "(DBool " + coqfmt.Bool(d.b) + ")"
	case dInt:
		return "(DInt (" + d.intText() + ")%Z)"
	case dStr:
		return "(DStr " + coqfmt.Str(d.s) + ")"
	case dTime:
		return "(DTime " + coqfmt.Str(d.s) + ")"
	case dList:
		parts := make([]string, len(d.list))
		for i, e := range d.list {
			parts[i] = e.term()
		}
		return "(DList " + coqfmt.List(parts) + ")"
	default:
		parts := make([]string, len(d.kvs))
		for i, e := range d.kvs {
			parts[i] = "(" + coqfmt.Str(e.k) + ", " + e.v.term() + ")"
		}
		return "(DMap " + coqfmt.List(parts) + ")"
	}
}

func q(s string) string {
	b, _ := json.Marshal(s)
	return string(b)
}

func isScalar(d *doc) bool {
	return d.kind == dBool || d.kind == dInt || d.kind == dStr || d.kind == dTime
}

func sortedKeys(m map[string]*doc) []string {
	ks := make([]string, 0, len(m))
	for k := range m {
		ks = append(ks, k)
	}
	sort.Strings(ks)
	return ks
}
