package main

// Abstract documents (scalars, lists, string-keyed maps) and their rendering
// in the four concrete syntaxes.

import (
	"encoding/json"
	"fmt"
	"sort"
	"strings"

	"verifharness/internal/coqfmt"
)

type kind int

const (
	dBool kind = iota
	dInt
	dStr
	dList
	dMap
	dTime // a timestamp: a datetime literal in TOML, a string in the other three syntaxes
)

type kv struct {
	k string
	v *doc
}

type doc struct {
	kind kind
	b    bool
	i    int64
	u    uint64 // used when neg == false && big
	big  bool   // value does not fit int64 (unsigned)
	s    string
	list []*doc
	kvs  []kv // in document order
}

func dB(b bool) *doc  { return &doc{kind: dBool, b: b} }
func dI(i int64) *doc { return &doc{kind: dInt, i: i} }
func dU(u uint64) *doc {
	if u <= 1<<63-1 {
		return dI(int64(u))
	}
	return &doc{kind: dInt, u: u, big: true}
}
func dS(s string) *doc  { return &doc{kind: dStr, s: s} }
func dT(s string) *doc  { return &doc{kind: dTime, s: s} }
func dL(l ...*doc) *doc { return &doc{kind: dList, list: l} }
func dM(kvs ...kv) *doc { return &doc{kind: dMap, kvs: kvs} }

func (d *doc) intText() string {
	if d.big {
		return fmt.Sprintf("%d", d.u)
	}
	return fmt.Sprintf("%d", d.i)
}

// term prints the document as a Coq `doc`.
func (d *doc) term() string {
	switch d.kind {
	case dBool:
		return "(DBool " + coqfmt.Bool(d.b) + ")"
	case dInt:
		return "(DInt (" + d.intText() + ")%Z)"
	case dStr:
		return "(DStr " + coqfmt.Str(d.s) + ")"
	case dTime:
		return "(DTime " + coqfmt.Str(d.s) + ")"
	case dList:
		parts := make([]string, len(d.list))
		for i, e := range d.list {
			parts[i] = e.term()
		}
		return "(DList " + coqfmt.List(parts) + ")"
	default:
		parts := make([]string, len(d.kvs))
		for i, e := range d.kvs {
			parts[i] = "(" + coqfmt.Str(e.k) + ", " + e.v.term() + ")"
		}
		return "(DMap " + coqfmt.List(parts) + ")"
	}
}

func q(s string) string {
	b, _ := json.Marshal(s)
	return string(b)
}

func isScalar(d *doc) bool {
	return d.kind == dBool || d.kind == dInt || d.kind == dStr || d.kind == dTime
}

func scalarText(d *doc) string {
	switch d.kind {
	case dBool:
		if d.b {
			return "true"
		}
		return "false"
	case dInt:
		return d.intText()
	default:
		return q(d.s)
	}
}

// ---- JSON ----
func toJSON(d *doc) string {
	switch d.kind {
	case dList:
		parts := make([]string, len(d.list))
		for i, e := range d.list {
			parts[i] = toJSON(e)
		}
		return "[" + strings.Join(parts, ", ") + "]"
	case dMap:
		parts := make([]string, len(d.kvs))
		for i, e := range d.kvs {
			parts[i] = q(e.k) + ": " + toJSON(e.v)
		}
		return "{" + strings.Join(parts, ", ") + "}"
	}
	return scalarText(d)
}

// ---- Cue: fields without braces at top level, struct and list literals below ----
func cueLabel(k string) string {
	ok := k != ""
	for i, c := range k {
		if !(c == '_' || c >= 'a' && c <= 'z' || c >= 'A' && c <= 'Z' || (i > 0 && c >= '0' && c <= '9')) {
			ok = false
		}
	}
	if ok && !strings.HasPrefix(k, "_") && !cueKeyword[k] {
		return k
	}
	return q(k)
}

var cueKeyword = map[string]bool{"true": true, "false": true, "null": true, "for": true, "in": true, "if": true, "let": true,
	"package": true, "import": true, "div": true, "mod": true, "quo": true, "rem": true, "string": true, "int": true,
	"bool": true, "float": true, "number": true, "bytes": true, "len": true, "close": true, "and": true, "or": true}

func toCue(d *doc, top bool) string {
	switch d.kind {
	case dList:
		parts := make([]string, len(d.list))
		for i, e := range d.list {
			parts[i] = toCue(e, false)
		}
		return "[" + strings.Join(parts, ", ") + "]"
	case dMap:
		parts := make([]string, len(d.kvs))
		for i, e := range d.kvs {
			parts[i] = cueLabel(e.k) + ": " + toCue(e.v, false)
		}
		if top {
			return strings.Join(parts, "\n") + "\n"
		}
		return "{" + strings.Join(parts, ", ") + "}"
	}
	return scalarText(d)
}

// ---- YAML: block mappings, flow sequences of scalars, block sequences of mappings ----
func yamlKey(k string) string { return q(k) }

func toYAML(d *doc, indent int) string {
	pad := strings.Repeat("  ", indent)
	switch d.kind {
	case dMap:
		if len(d.kvs) == 0 {
			return pad + "{}\n"
		}
		var sb strings.Builder
		for _, e := range d.kvs {
			switch {
			case isScalar(e.v):
				sb.WriteString(pad + yamlKey(e.k) + ": " + scalarText(e.v) + "\n")
			case e.v.kind == dMap && len(e.v.kvs) == 0:
				sb.WriteString(pad + yamlKey(e.k) + ": {}\n")
			case e.v.kind == dList && (len(e.v.list) == 0 || isScalar(e.v.list[0])):
				sb.WriteString(pad + yamlKey(e.k) + ": " + toJSON(e.v) + "\n")
			case e.v.kind == dList:
				sb.WriteString(pad + yamlKey(e.k) + ":\n")
				for _, it := range e.v.list {
					body := toYAML(it, indent+2)
					// turn the first line's indentation into "- "
					trim := strings.TrimPrefix(body, strings.Repeat("  ", indent+2))
					sb.WriteString(pad + "  - " + trim)
				}
			default:
				sb.WriteString(pad + yamlKey(e.k) + ":\n" + toYAML(e.v, indent+1))
			}
		}
		return sb.String()
	}
	return pad + toJSON(d) + "\n"
}

// ---- TOML: scalars and arrays first, then tables and arrays of tables ----
func tomlKey(k string) string {
	ok := k != ""
	for _, c := range k {
		if !(c == '_' || c == '-' || c >= 'a' && c <= 'z' || c >= 'A' && c <= 'Z' || c >= '0' && c <= '9') {
			ok = false
		}
	}
	if ok {
		return k
	}
	return q(k)
}

func tomlInline(d *doc) string {
	switch d.kind {
	case dTime:
		return d.s
	case dList:
		parts := make([]string, len(d.list))
		for i, e := range d.list {
			parts[i] = tomlInline(e)
		}
		return "[" + strings.Join(parts, ", ") + "]"
	case dMap:
		parts := make([]string, len(d.kvs))
		for i, e := range d.kvs {
			parts[i] = tomlKey(e.k) + " = " + tomlInline(e.v)
		}
		return "{ " + strings.Join(parts, ", ") + " }"
	}
	return scalarText(d)
}

func toTOML(d *doc, path []string, sb *strings.Builder) {
	for _, e := range d.kvs {
		if isScalar(e.v) || (e.v.kind == dList && (len(e.v.list) == 0 || e.v.list[0].kind != dMap)) {
			sb.WriteString(tomlKey(e.k) + " = " + tomlInline(e.v) + "\n")
		}
	}
	for _, e := range d.kvs {
		p := append(append([]string{}, path...), tomlKey(e.k))
		switch {
		case e.v.kind == dMap:
			sb.WriteString("\n[" + strings.Join(p, ".") + "]\n")
			toTOML(e.v, p, sb)
		case e.v.kind == dList && len(e.v.list) > 0 && e.v.list[0].kind == dMap:
			for _, it := range e.v.list {
				sb.WriteString("\n[[" + strings.Join(p, ".") + "]]\n")
				toTOML(it, p, sb)
			}
		}
	}
}

func renderTOML(d *doc) string {
	var sb strings.Builder
	toTOML(d, nil, &sb)
	return sb.String()
}

func sortedKeys(m map[string]*doc) []string {
	ks := make([]string, 0, len(m))
	for k := range m {
		ks = append(ks, k)
	}
	sort.Strings(ks)
	return ks
}
