// c11: correspondence harness for the environment source (property C11).
package main

import (
	"context"
	"encoding/json"
	"fmt"
	"math"
	"os"
	"reflect"
	"sort"
	"strings"
	"time"

	"github.com/vimeo/dials"
	"github.com/vimeo/dials/ptrify"
	"github.com/vimeo/dials/sources/env"
	cc "github.com/vimeo/dials/tagformat/caseconversion"

	"verifharness/internal/coqfmt"
	"verifharness/internal/driver"
	"verifharness/internal/initsrc"
	"verifharness/internal/rty"
)

type input struct {
	K     string `json:"k"`
	State uint64 `json:"state"`
	Depth int    `json:"depth"`
	Width int    `json:"width"`
}

var inits []string

var tDuration = reflect.TypeOf(time.Duration(0))

var parseable = []reflect.Type{
	reflect.TypeOf(""), reflect.TypeOf(false), reflect.TypeOf(int(0)), reflect.TypeOf(int8(0)), reflect.TypeOf(int16(0)),
	reflect.TypeOf(int32(0)), reflect.TypeOf(int64(0)), reflect.TypeOf(uint(0)), reflect.TypeOf(uint8(0)),
	reflect.TypeOf(uint16(0)), reflect.TypeOf(uint32(0)), reflect.TypeOf(uint64(0)), tDuration,
}

func leafPalette(r *coqfmt.Rng) reflect.Type {
	tup, tuv := rty.TextUTypes()
	switch x := r.Intn(21); {
	case x == 20:
		return coqfmt.Pick(r, rty.NamedScalars())
	case x < 13:
		return coqfmt.Pick(r, parseable)
	case x == 13:
		return reflect.PtrTo(coqfmt.Pick(r, parseable)) // user-declared pointer
	case x == 14:
		return coqfmt.Pick(r, []reflect.Type{tup, tuv, reflect.TypeOf(uintptr(0)), reflect.ArrayOf(2, reflect.TypeOf(0))})
	case x == 15:
		return coqfmt.Pick(r, []reflect.Type{reflect.TypeOf(float64(0)), reflect.TypeOf(float32(0)), reflect.TypeOf(complex128(0))})
	case x == 16:
		return coqfmt.Pick(r, []reflect.Type{reflect.TypeOf([]string(nil)), reflect.TypeOf([]int(nil)), reflect.TypeOf(rty.NStrs(nil)),
			reflect.TypeOf([]int8(nil)), reflect.TypeOf([]uint16(nil)), reflect.TypeOf([]bool(nil)), reflect.TypeOf([]time.Duration(nil)),
			reflect.TypeOf([]rty.NLevel(nil)), reflect.TypeOf([]float64(nil))})
	case x == 17:
		return coqfmt.Pick(r, []reflect.Type{reflect.TypeOf(map[string]int(nil)), reflect.TypeOf(map[string]struct{}(nil)),
			reflect.TypeOf(map[string]string(nil)), reflect.TypeOf(map[string][]string(nil)), reflect.TypeOf(map[int8]bool(nil)),
			reflect.TypeOf(rty.NMap(nil)), reflect.TypeOf(map[string]uint8(nil)),
			reflect.TypeOf(map[string]time.Duration(nil)), reflect.TypeOf(map[time.Duration]string(nil)), reflect.TypeOf(map[time.Duration]time.Duration(nil))})
	case x == 18:
		return coqfmt.Pick(r, rty.NamedScalars()) // a declared type of every scalar kind
	default:
		return reflect.TypeOf("")
	}
}

var envTagVocab = []string{"CUSTOM_VAR", "configpath", "my.var", "Mixed-Case_9", "X", "SVC_ADDR", "lower_snake", "A_B", "AB"}

// how the model treats text for a leaf of this (original) field type
const (
	kParse = iota // modelled parser
	kErr          // always an error (modelled)
	kSkip         // not modelled: never given a variable
)

func leafClass(t reflect.Type) int {
	if t.Kind() == reflect.Ptr {
		t = t.Elem()
	}
	if rty.IsTextU(t) {
		return kErr
	}
	switch t.Kind() {
	case reflect.Array, reflect.Uintptr:
		return kErr
	case reflect.String, reflect.Bool, reflect.Int, reflect.Int8, reflect.Int16, reflect.Int32, reflect.Int64, reflect.Uint,
		reflect.Uint8, reflect.Uint16, reflect.Uint32, reflect.Uint64, reflect.Float32, reflect.Float64,
		reflect.Complex64, reflect.Complex128:
		return kParse // predeclared or declared: parse.String dispatches on the kind
	case reflect.Slice:
		if c := leafClass(t.Elem()); c == kParse && t.Elem().Kind() != reflect.Complex64 && t.Elem().Kind() != reflect.Complex128 {
			return kParse
		}
		return kSkip
	case reflect.Map:
		if t.Elem().Kind() == reflect.Struct && t.Elem().NumField() == 0 {
			return kParse // a set
		}
		if t.Elem().Kind() == reflect.Slice && t.Elem().Elem().Kind() == reflect.String {
			return kParse // map[string][]string
		}
		ek := t.Elem().Kind()
		if leafClass(t.Key()) == kParse && leafClass(t.Elem()) == kParse && t.Key().Kind() != reflect.Float64 &&
			ek != reflect.Float32 && ek != reflect.Float64 && ek != reflect.Complex64 && ek != reflect.Complex128 && ek != reflect.Slice && ek != reflect.Map {
			return kParse
		}
		return kSkip
	}
	return kSkip
}

type comp struct {
	name   string
	tag    string
	hasTag bool
	anon   bool
}

type leafInfo struct {
	comps  []comp
	typ    reflect.Type
	envTag string
	depth  int
}

func omitted(f reflect.StructField) bool {
	if f.PkgPath != "" {
		return true
	}
	if v, ok := f.Tag.Lookup("dials"); ok && v == "-" {
		return true
	}
	switch f.Type.Kind() {
	case reflect.Chan, reflect.Func:
		return true
	}
	return false
}

// walk lists the leaves of the config type as the sources see them (after
// alias duplication), with the name components along each path.
func walk(t reflect.Type, pre []comp, depth int, out *[]leafInfo) {
	for i := 0; i < t.NumField(); i++ {
		f := t.Field(i)
		if omitted(f) {
			continue
		}
		type variant struct {
			c      comp
			envTag string
		}
		dt, hasDT := f.Tag.Lookup("dials")
		vs := []variant{{comp{f.Name, dt, hasDT, f.Anonymous}, f.Tag.Get("dialsenv")}}
		da, hasDA := f.Tag.Lookup("dialsalias")
		ea, hasEA := f.Tag.Lookup("dialsenvalias")
		if hasDA || hasEA {
			a := variant{comp{f.Name + "_alias9wr876rw3", dt, hasDT, f.Anonymous}, f.Tag.Get("dialsenv")}
			if hasDA {
				a.c.tag, a.c.hasTag = da, true
			}
			if hasEA {
				a.envTag = ea
			}
			vs = append(vs, a)
		}
		ft := f.Type
		for ft.Kind() == reflect.Ptr {
			ft = ft.Elem()
		}
		for _, v := range vs {
			p := append(append([]comp{}, pre...), v.c)
			if ft.Kind() == reflect.Struct && !rty.IsTextU(ft) {
				walk(ft, p, depth+1, out)
			} else {
				*out = append(*out, leafInfo{comps: p, typ: f.Type, envTag: v.envTag, depth: depth})
			}
		}
	}
}

func withPrefix(prefix, v string) string {
	if prefix == "" {
		return v
	}
	return prefix + "_" + v
}

// docName: the documented variable; fusedName: a candidate computed with the
// repository's own conversion functions (only used to pick variables to set;
// what is correct is decided in Coq).
func docName(l leafInfo, prefix string, nd, td *rty.NameDict) string {
	if l.envTag != "" {
		return withPrefix(prefix, l.envTag)
	}
	var ws []string
	for _, c := range l.comps {
		switch {
		case c.hasTag:
			if w, ok := td.Words(c.tag); ok {
				ws = append(ws, w...)
			} else {
				ws = append(ws, strings.ToLower(c.tag))
			}
		case c.anon:
		default:
			if w, ok := nd.Words(c.name); ok {
				ws = append(ws, w...)
			} else if d, err := cc.DecodeGoCamelCase(c.name); err == nil {
				ws = append(ws, d...)
			}
		}
	}
	for i := range ws {
		ws[i] = strings.ToUpper(ws[i])
	}
	return withPrefix(prefix, strings.Join(ws, "_"))
}

func fusedName(l leafInfo, prefix string) (out string) {
	defer func() {
		if r := recover(); r != nil {
			out = ""
		}
	}()
	if l.envTag != "" {
		return withPrefix(prefix, l.envTag)
	}
	var parts cc.DecodedIdentifier
	for _, c := range l.comps {
		switch {
		case c.hasTag:
			parts = append(parts, c.tag)
		case c.anon:
		default:
			d, err := cc.DecodeGoCamelCase(c.name)
			if err != nil {
				return ""
			}
			parts = append(parts, d...)
		}
	}
	ws, err := cc.DecodeGoTags(cc.EncodeUpperCamelCase(parts))
	if err != nil {
		return ""
	}
	return withPrefix(prefix, cc.EncodeUpperSnakeCase(ws))
}

const strAlphabet = "abcXYZ019_-,:\"' =\\{}[]\t"

func genText(r *coqfmt.Rng, t reflect.Type) (text string, bad bool) {
	if t.Kind() == reflect.Ptr {
		t = t.Elem()
	}
	garbage := []string{"", " ", "12a", "0x", "--1", "1e3", "yes", "TrUe", "_1", "1__0", "1_", "é", "0b2", "08", " 1", "1 "}
	allowBadElem := r.Chance(1, 6)
	elemText := func(et reflect.Type) func() string {
		return func() string {
			if et.Kind() == reflect.String {
				e, _ := rty.GenStrElem(r, allowBadElem)
				return e
			}
			for {
				e, bad := genText(r, et)
				if !strings.ContainsAny(e, ", \t\"") && e != "" && (allowBadElem || !bad) {
					return e
				}
			}
		}
	}
	switch t.Kind() {
	case reflect.Slice:
		return rty.GenListText(r, elemText(t.Elem())), allowBadElem
	case reflect.Map:
		if t.Elem().Kind() == reflect.Struct {
			return rty.GenListText(r, elemText(t.Key())), allowBadElem
		}
		vt := t.Elem()
		if vt.Kind() == reflect.Slice {
			vt = vt.Elem()
		}
		return rty.GenMapText(r, elemText(t.Key()), elemText(vt), allowBadElem), allowBadElem
	}
	switch {
	case t == tDuration:
		if r.Chance(1, 5) {
			return coqfmt.Pick(r, []string{"5", "1x", "", "h", "1h-5m", ".s", "1 s", "9223372036854775808ns", "2562048h"}), true
		}
		return coqfmt.Pick(r, []string{"0", "1h30m", "250ms", "-5s", "+1us", "1.0s", "3m0.000s", "1ns", "2562047h47m16s854ms", "1µs", "-0", "10h", "100ms5us"}), false
	case t.Kind() == reflect.String:
		n := r.Intn(7)
		b := make([]byte, n)
		for i := range b {
			b[i] = strAlphabet[r.Intn(len(strAlphabet))]
		}
		return string(b), false
	case t.Kind() == reflect.Bool:
		if r.Chance(1, 5) {
			return coqfmt.Pick(r, garbage), true
		}
		return coqfmt.Pick(r, []string{"1", "t", "T", "TRUE", "true", "True", "0", "f", "F", "FALSE", "false", "False"}), false
	}
	switch t.Kind() {
	case reflect.Float32, reflect.Float64:
		if r.Chance(1, 6) {
			if t.Kind() == reflect.Float32 && r.Chance(1, 2) {
				return coqfmt.Pick(r, []string{"1e39", "-4e38"}), true
			}
			return coqfmt.Pick(r, []string{"", "x", "1..2", "--1", "1e", "1e400"}), true
		}
		if r.Chance(1, 10) {
			// strconv's infinities: a value of either float size, never an overflow
			return coqfmt.Pick(r, []string{"Inf", "-Infinity", "+inf", "iNf", "-INF", "infinity"}), false
		}
		return coqfmt.Pick(r, floatTexts), false
	case reflect.Complex64, reflect.Complex128:
		if r.Chance(1, 6) {
			if t.Kind() == reflect.Complex64 && r.Chance(1, 2) {
				return coqfmt.Pick(r, []string{"1e39+1i", "1-4e38i"}), true
			}
			return coqfmt.Pick(r, []string{"", "i", "1+i", "(1+2i", "x"}), true
		}
		return coqfmt.Pick(r, complexTexts), false
	}
	signed := false
	switch t.Kind() {
	case reflect.Int, reflect.Int8, reflect.Int16, reflect.Int32, reflect.Int64:
		signed = true
	case reflect.Uint, reflect.Uint8, reflect.Uint16, reflect.Uint32, reflect.Uint64:
	default:
		return genTextAny(r), false
	}
	if r.Chance(1, 8) {
		return coqfmt.Pick(r, garbage), true
	}
	if r.Chance(1, 10) {
		if signed {
			return coqfmt.Pick(r, []string{"0", "-0", "+0", "00", "0x0"}), false
		}
		return coqfmt.Pick(r, []string{"0", "00", "0x0", "0b0"}), false
	}
	bits := uint(t.Bits())
	// magnitude
	var mag uint64
	neg := false
	switch r.Intn(6) {
	case 0:
		mag = uint64(r.Intn(200))
	case 1: // upper boundary and one beyond
		if signed {
			mag = 1<<(bits-1) - 1
		} else if bits == 64 {
			mag = ^uint64(0)
		} else {
			mag = 1<<bits - 1
		}
		if r.Chance(1, 2) && mag != ^uint64(0) {
			mag++
		}
	case 2: // lower boundary and one beyond
		if signed {
			neg = true
			mag = 1 << (bits - 1)
			if r.Chance(1, 2) {
				mag++
			}
		} else {
			neg = r.Chance(1, 2)
			mag = uint64(r.Intn(2))
		}
	case 3:
		mag = r.U64()
	case 4:
		mag = r.U64() >> (64 - bits)
		neg = signed && r.Chance(1, 2)
	default:
		mag = uint64(r.Intn(70000))
		neg = signed && r.Chance(1, 3)
	}
	var digits string
	switch r.Intn(8) {
	case 0:
		digits = fmt.Sprintf("0x%x", mag)
	case 1:
		digits = fmt.Sprintf("0X%X", mag)
	case 2:
		digits = fmt.Sprintf("0o%o", mag)
	case 3:
		digits = fmt.Sprintf("0%o", mag)
	case 4:
		digits = fmt.Sprintf("0b%b", mag)
	default:
		digits = fmt.Sprintf("%d", mag)
	}
	if r.Chance(1, 6) && len(digits) > 3 { // digit separator
		k := 2 + r.Intn(len(digits)-2)
		digits = digits[:k] + "_" + digits[k:]
	}
	oor := false // out of range for this width
	if signed {
		lim := uint64(1) << (bits - 1)
		oor = (neg && mag > lim) || (!neg && mag > lim-1)
	} else {
		oor = neg || (bits < 64 && mag > (uint64(1)<<bits)-1)
	}
	if r.Chance(1, 30) {
		digits = "18446744073709551616" // 2^64
		oor = true
	}
	switch {
	case neg:
		return "-" + digits, oor
	case r.Chance(1, 8):
		return "+" + digits, oor
	}
	return digits, oor
}

func genTextMode(r *coqfmt.Rng, t reflect.Type, allowBad bool) (string, bool) {
	if k := t.Kind(); allowBad && k != reflect.String && k != reflect.Slice && k != reflect.Map && k != reflect.Ptr && r.Chance(1, 10) {
		return "", true // a variable that is present but empty: unparsable for every non-string scalar
	}
	if allowBad && r.Chance(1, 2) {
		// beyond the narrow float kinds' range, inside float64's: must be an error, not an infinity
		switch t.Kind() {
		case reflect.Float32:
			return coqfmt.Pick(r, []string{"1e39", "-3.5e38", "4e38"}), true // (not the rounding boundary below 2^128: rounding is not modelled)
		case reflect.Complex64:
			return coqfmt.Pick(r, []string{"1e39+1i", "1-4e38i", "1e39", "3.5e38i"}), true
		}
	}
	for {
		txt, bad := genText(r, t)
		if allowBad || !bad {
			return txt, bad
		}
	}
}

// decimal texts whose value times 1024 is an integer (the model carries floats that way)
var floatTexts = []string{"0", "0.0", "-0", "1", "-2", "1.5", "-0.25", "3.125", "100", "1e2", ".5", "1.", "+2", "25e-2", "1E3", "2.5e1"}
var complexTexts = []string{"0", "(1+2i)", "1.5-0.25i", "3", "2i", "-2i", "1e2+1e1i", "-1-1i", "(0+0i)", "+1.5+.5i"}

func genTextAny(r *coqfmt.Rng) string {
	return coqfmt.Pick(r, []string{"x", "1", "true", "", "a,b", "1s"})
}

// hugeFinite: beyond the fixed-point value printer.  An infinity is NOT skipped: no generated text
// denotes one, so one in a returned value is an overflow that went unreported.
func hugeFinite(f float64) bool {
	return !math.IsInf(f, 0) && (f > 1e15 || f < -1e15)
}

func hasHugeFloat(v reflect.Value) bool {
	switch v.Kind() {
	case reflect.Float32, reflect.Float64:
		return hugeFinite(v.Float())
	case reflect.Complex64, reflect.Complex128:
		c := v.Complex()
		return hugeFinite(real(c)) || hugeFinite(imag(c))
	case reflect.Ptr, reflect.Interface:
		return !v.IsNil() && hasHugeFloat(v.Elem())
	case reflect.Struct:
		for i := 0; i < v.NumField(); i++ {
			if hasHugeFloat(v.Field(i)) {
				return true
			}
		}
	case reflect.Slice, reflect.Array:
		for i := 0; i < v.Len(); i++ {
			if hasHugeFloat(v.Index(i)) {
				return true
			}
		}
	}
	return false
}

func valueSafe(src *env.Source, PT reflect.Type) (v reflect.Value, err error, panicked bool) {
	defer func() {
		if r := recover(); r != nil {
			panicked = true
		}
	}()
	v, err = src.Value(context.Background(), dials.NewType(PT))
	return v, err, false
}

func composeSafe(defaultsPtr reflect.Value, layers []reflect.Value) (res reflect.Value, err error, panicked bool) {
	defer func() {
		if r := recover(); r != nil {
			panicked = true
		}
	}()
	out, err := dials.VerifCompose(defaultsPtr.Interface(), layers)
	if err != nil {
		return reflect.Value{}, err, false
	}
	return reflect.ValueOf(out).Elem(), nil, false
}

func validEnvName(s string) bool {
	return s != "" && !strings.ContainsAny(s, "=\x00")
}

func run(raw json.RawMessage) driver.Result {
	var in input
	if err := json.Unmarshal(raw, &in); err != nil {
		panic(err)
	}
	r := coqfmt.NewRng(in.State)
	nd, td := rty.NewNameDict(), rty.NewNameDict()
	o := rty.NamedOpts{MaxDepth: in.Depth, MaxWidth: in.Width, Leaf: leafPalette, Inits: inits,
		TagNum: 1, TagDen: 4, SrcTags: []string{"dialsenv"}, SrcTagNum: 1, SrcTagDen: 6,
		SrcTagGen: func(r *coqfmt.Rng) string { return coqfmt.Pick(r, envTagVocab) },
		Embedded:  true, Skipped: true, SingleLetterNum: 1, SingleLetterDen: 8,
		OddTags: []string{"_", "__", "-_", "_-_", "-x", "x_", "_x_y", "x-", "--", ""}, OddTagNum: 1, OddTagDen: 30}
	if r.Chance(1, 5) {
		o.AliasKeys = []string{"dials", "dialsenv"}
		o.AliasNum, o.AliasDen = 1, 4
	}
	T := rty.GenNamedStruct(r, o, nd, td, 0)
	PT := ptrify.Pointerify(T, reflect.New(T).Elem())
	prefix := ""
	if r.Chance(1, 2) {
		prefix = coqfmt.Pick(r, []string{"APP", "MY_SVC", "x", "Dials9", "A", "SVC_", "_", "a__"}) // also prefixes that end in the separator: PREFIX + "_" + NAME all the same
	}
	var leaves []leafInfo
	walk(T, nil, 0, &leaves)
	if len(leaves) > 0 && r.Chance(1, 6) {
		// a prefix that is also the first word of some leaf's own name: PREFIX_PREFIX_REST is that
		// leaf's variable, PREFIX_REST is somebody else's
		if name := docName(leaves[r.Intn(len(leaves))], "", nd, td); strings.Contains(name, "_") && leaves[0].envTag == "" {
			if w := name[:strings.Index(name, "_")]; w != "" {
				prefix = w
			}
		}
	}

	// names that must never be bound: candidates of leaves whose text parsing is not modelled
	forbidden := map[string]bool{}
	for _, l := range leaves {
		if leafClass(l.typ) == kSkip {
			forbidden[docName(l, prefix, nd, td)] = true
			forbidden[fusedName(l, prefix)] = true
		}
	}
	envm := map[string]string{}
	reused := false
	nDoc, nDecoy, nBad, nFused := 0, 0, 0, 0
	bind := func(name, val string) bool {
		if !validEnvName(name) || forbidden[name] {
			return false
		}
		if _, dup := envm[name]; dup {
			return false
		}
		envm[name] = val
		return true
	}
	pSet := 1 + r.Intn(4)      // probability k/4 that a leaf's documented variable is bound
	allowBad := r.Chance(1, 4) // malformed / out-of-range texts only in a quarter of the cases
	singleBad := r.Chance(1, 2)
	for _, l := range leaves {
		cls := leafClass(l.typ)
		// half of the cases with unusable values have exactly ONE (a second one would hide an error that
		// went missing for the first)
		mayBad := allowBad && (!singleBad || nBad == 0)
		if cls == kSkip || (cls == kErr && !(mayBad && r.Chance(1, 3))) {
			continue
		}
		doc := docName(l, prefix, nd, td)
		fused := fusedName(l, prefix)
		if r.Chance(pSet, 4) {
			txt, bad := genTextMode(r, l.typ, mayBad)
			if bind(doc, txt) {
				nDoc++
				if bad || cls == kErr {
					nBad++
				}
			}
		}
		if fused != doc && fused != "" && r.Chance(1, 2) {
			txt, _ := genText(r, l.typ)
			if bind(fused, txt) {
				nFused++
			}
		}
		if bare := strings.TrimPrefix(doc, prefix+"_"); prefix != "" && strings.HasPrefix(bare, prefix+"_") && r.Chance(2, 3) {
			txt, _ := genText(r, l.typ)
			if bind(bare, txt) { // the name without the (stuttering) prefix: not this leaf's variable
				nDecoy++
			}
		}
		// decoys around the real name
		if r.Chance(1, 3) {
			txt, _ := genText(r, l.typ)
			var d string
			bare := strings.TrimPrefix(doc, prefix+"_")
			switch r.Intn(9) {
			case 0:
				d = bare // without the prefix (or unchanged when there is none)
				if prefix == "" {
					d = "APP_" + doc
				}
			case 1:
				d = doc + "_X"
			case 2:
				d = "X_" + doc
			case 3:
				d = strings.ToLower(doc)
			case 4:
				d = strings.ReplaceAll(doc, "_", "")
			case 5:
				d = prefix + bare // prefix glued without separator
			case 6:
				d = doc + "_"
			case 7:
				if len(doc) > 1 {
					d = doc[:len(doc)-1]
				}
			default:
				d = strings.ReplaceAll(doc, "_", "__")
			}
			if d != doc && bind(d, txt) {
				nDecoy++
			}
		}
	}
	// One Source value serves two Value calls for the same type: first on an EARLIER environment (the
	// real one plus other bindings of the leaves' variables, other texts), then - everything unset in
	// between - on the real one, whose outcome is the case's.  A Source keeps nothing between calls.
	src := &env.Source{Prefix: prefix}
	if r.Chance(1, 2) {
		er := coqfmt.NewRng(r.U64())
		early := map[string]string{}
		for k, v := range envm {
			early[k] = v
		}
		for _, l := range leaves {
			if leafClass(l.typ) != kParse {
				continue
			}
			if name := docName(l, prefix, nd, td); validEnvName(name) && !forbidden[name] && er.Chance(2, 3) {
				early[name], _ = genTextMode(er, l.typ, false)
			}
		}
		for k, v := range early {
			os.Setenv(k, v)
		}
		valueSafe(src, PT)
		for k := range early {
			os.Unsetenv(k)
		}
		reused = true
	}
	// install the environment (serialised: one case at a time in this process)
	for k, v := range envm {
		if err := os.Setenv(k, v); err != nil {
			panic(fmt.Sprintf("setenv %q: %v", k, err))
		}
	}
	val, err, panicked := valueSafe(src, PT)
	for k := range envm {
		os.Unsetenv(k)
	}
	if err == nil && !panicked && hasHugeFloat(val) {
		// e.g. two leaves share one variable and an int64-sized text reaches a float leaf: in range,
		// but beyond the value printer's fixed-point form
		return driver.Result{Coq: "EnvSkip", Kind: "skipped-huge-float"}
	}
	okTerm := ""
	stackTerm := "(Err 0)"
	defaults := reflect.New(T)
	rty.GenValue(r, defaults.Elem(), rty.VOpts{NilNum: 1, NilDen: 3}, 0)
	defTerm := rty.ValuePrinter.StructFieldsTerm(defaults.Elem())
	if err == nil && !panicked {
		okTerm = rty.ValuePrinter.StructFieldsTerm(val)
		res, serr, spanic := composeSafe(defaults, []reflect.Value{val})
		st := ""
		if serr == nil && !spanic {
			st = rty.ValuePrinter.StructFieldsTerm(res)
		}
		stackTerm = driver.Outcome(st, serr, spanic)
	}
	keys := make([]string, 0, len(envm))
	for k := range envm {
		keys = append(keys, k)
	}
	sort.Strings(keys)
	envParts := make([]string, len(keys))
	for i, k := range keys {
		envParts[i] = "(" + coqfmt.Str(k) + ", " + coqfmt.Str(envm[k]) + ")"
	}
	maxDepth, minDepth := 0, 99
	for _, l := range leaves {
		if l.depth > maxDepth {
			maxDepth = l.depth
		}
		if l.depth < minDepth {
			minDepth = l.depth
		}
	}
	tags := []string{fmt.Sprintf("leaves-%d", min(len(leaves), 12)), fmt.Sprintf("bound-%d", min(len(envm), 12))}
	if prefix != "" {
		tags = append(tags, "prefix")
	}
	if reused {
		tags = append(tags, "source-reused-after-other-environment")
	}
	if len(o.AliasKeys) > 0 {
		tags = append(tags, "alias-enabled")
	}
	if nBad > 0 {
		tags = append(tags, "bad-value")
	}
	if nFused > 0 {
		tags = append(tags, "fused-candidate")
	}
	switch {
	case panicked:
		tags = append(tags, "impl-panic")
	case err != nil:
		tags = append(tags, "impl-err")
	default:
		tags = append(tags, "impl-ok")
	}
	return driver.Result{
		Coq: fmt.Sprintf("EnvCase %s %s %s %s %s %s %s %s %s", rty.FieldsTerm(T), rty.FieldsTerm(PT), nd.Term(), td.Term(),
			coqfmt.Str(prefix), coqfmt.List(envParts), driver.Outcome(okTerm, err, panicked), defTerm, stackTerm),
		Kind:       "generated",
		Nontrivial: len(leaves) >= 2 && maxDepth > minDepth && nDoc >= 1 && nDecoy+nFused >= 1,
		Tags:       tags,
	}
}

func gen(r *coqfmt.Rng, n int, tier string) []json.RawMessage {
	var out []json.RawMessage
	for i := 0; i < n; i++ {
		depth := 1 + r.Intn(3)
		width := 2 + r.Intn(4)
		b, _ := json.Marshal(input{K: "gen", State: r.U64(), Depth: depth, Width: width})
		out = append(out, b)
	}
	return out
}

func main() {
	var err error
	inits, err = initsrc.Load()
	if err != nil {
		panic(err)
	}
	saved := os.Environ()
	os.Clearenv() // the ambient environment must not name any generated leaf (PATH, HOME, ...)
	defer func() {
		for _, kv := range saved {
			if i := strings.IndexByte(kv, '='); i > 0 {
				os.Setenv(kv[:i], kv[i+1:])
			}
		}
	}()
	driver.Main(driver.Engine{
		Prop: "C11", CoqImport: "Dials.Check.C11Check", CoqRun: "run_cases",
		Rule: "random nested config types (reflect.StructOf; struct, *struct and embedded fields; field names and dials tags assembled from capitalised words, single letters and the source's initialisms; dials tags in six casing styles on any level; dialsenv tags; alias tags in 1/5 of the cases; leaf kinds: string, bool, every integer width, durations, user pointers, plus float/complex/slice/map/TextUnmarshaler/array/named-scalar leaves that only serve as frame), with and without prefix; environment = random subset of the documented variables (valid, boundary, out-of-range and malformed texts) + variables named as the repository's own conversion functions would fuse them + decoys (prefix dropped/glued, suffix/prefix added, case changed, separators doubled or removed, last rune cut); non-trivial: >=2 leaves at different depths, >=1 documented variable bound and >=1 fused or decoy variable bound; distinct = distinct PRNG case states",
		Gen:  gen, Run: run,
	})
}

func min(a, b int) int {
	if a < b {
		return a
	}
	return b
}
