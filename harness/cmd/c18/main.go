// c18: correspondence harness for the ez entry points (property C18).
//
// Every case assigns each leaf of a declared config type to a random subset of
// {default, file, environment, flag} with distinct values, picks a file format,
// watching on/off, and a file situation (present / missing / malformed / no
// path / path overridden by env or flag).  The three layers are obtained from
// the REAL sources (env.Source, flag.Set, file.Source with ez's wrapped
// decoder) and shipped to the Coq model, which computes what ez must return;
// the REAL ez entry point is then run on the same inputs and observed.
package main

import (
	"context"
	"encoding/json"
	"errors"
	stdflag "flag"
	"fmt"
	"os"
	"path/filepath"
	"reflect"
	"strings"
	"sync"
	"time"

	"github.com/vimeo/dials"
	"github.com/vimeo/dials/common"
	cuedec "github.com/vimeo/dials/decoders/cue"
	jsondec "github.com/vimeo/dials/decoders/json"
	tomldec "github.com/vimeo/dials/decoders/toml"
	yamldec "github.com/vimeo/dials/decoders/yaml"
	"github.com/vimeo/dials/ez"
	"github.com/vimeo/dials/ptrify"
	"github.com/vimeo/dials/sources/env"
	"github.com/vimeo/dials/sources/file"
	"github.com/vimeo/dials/sources/flag"
	"github.com/vimeo/dials/sourcewrap"
	"github.com/vimeo/dials/tagformat"
	"github.com/vimeo/dials/tagformat/caseconversion"
	"github.com/vimeo/dials/transform"

	"verifharness/internal/coqfmt"
	"verifharness/internal/driver"
	"verifharness/internal/rty"
)

type Sub struct {
	X int    `dials:"x"`
	Y string `dials:"y"`
}

type EzCfg struct {
	ConfigFile string   `dials:"configfile"`
	Valid      bool     `dials:"valid"`
	A          int      `dials:"a"`
	B          string   `dials:"b"`
	Sub        Sub      `dials:"sub"`
	L          []string `dials:"l"`
	N          int64    `dials:"n"`
	Key        string   `dials:"key"`
	KeyFile    string   `dials:"key_file" dialsalias:"key_path"` // its variable KEY_FILE must never be read as "the file holding KEY"
	Emb                 // embedded, untagged: its leaf is E / -e / top-level "e" (JSON, Cue, YAML with FlattenAnonymousFields), "emb: e:" (YAML without), [Emb] (TOML)
}

// Emb is embedded in EzCfg
type Emb struct {
	E int `dials:"e"`
}

const (
	pathIdx  = 0
	validIdx = 1
)

var (
	logMu     sync.Mutex
	verifyLog []string // Coq terms of every Verify receiver
)

// pathAlwaysSet: the config type of the current case says "there is a config file" even when the path is
// empty (the usual `return c.Path, true`); cases run serially
var pathAlwaysSet bool

func (c *EzCfg) ConfigPath() (string, bool) { return c.ConfigFile, c.ConfigFile != "" || pathAlwaysSet }

func (c *EzCfg) Verify() error {
	logMu.Lock()
	verifyLog = append(verifyLog, rty.StructFieldsTerm(reflect.ValueOf(c).Elem()))
	logMu.Unlock()
	if !c.Valid {
		return errors.New("config is not valid")
	}
	return nil
}

var _ dials.VerifiedConfig = (*EzCfg)(nil)

type input struct {
	K     string `json:"k"`
	State uint64 `json:"state"`
}

// leaf values of one origin
type leafVals struct {
	Valid *bool
	A     *int
	B     *string
	X     *int
	Y     *string
	L     []string
	N     *int64
	Path  *string
	Key   *string
	KeyF  *string
	E     *int
}

func word(r *coqfmt.Rng, tag string) string {
	return fmt.Sprintf("%s%c%c", tag, 'a'+r.Intn(26), 'a'+r.Intn(26))
}

func genLeafs(r *coqfmt.Rng, origin int, setNum, setDen int) leafVals {
	var lv leafVals
	tag := []string{"d", "f", "e", "g"}[origin]
	if r.Chance(setNum, setDen) {
		v := r.Intn(1000) + origin*10000
		lv.A = &v
	}
	if r.Chance(setNum, setDen) {
		v := word(r, tag)
		lv.B = &v
	}
	if r.Chance(setNum, setDen) {
		v := r.Intn(1000) + origin*10000
		lv.X = &v
	}
	if r.Chance(setNum, setDen) {
		v := word(r, tag)
		lv.Y = &v
	}
	if r.Chance(setNum, setDen) {
		n := 1 + r.Intn(3)
		for i := 0; i < n; i++ {
			lv.L = append(lv.L, word(r, tag))
		}
	}
	if r.Chance(setNum, setDen) {
		v := int64(r.Intn(100000)) + int64(origin)*1000000
		lv.N = &v
	}
	if r.Chance(setNum, 2*setDen) {
		v := word(r, tag)
		lv.Key = &v
	}
	if r.Chance(setNum, 2*setDen) {
		v := word(r, tag)
		lv.KeyF = &v
	}
	if r.Chance(setNum, setDen) {
		v := r.Intn(1000) + origin*10000
		lv.E = &v
	}
	return lv
}

func render(format string, lv leafVals) string {
	q := func(s string) string { b, _ := json.Marshal(s); return string(b) }
	var kv [][2]string // top-level key -> rendered value
	if lv.Valid != nil {
		kv = append(kv, [2]string{validKey, fmt.Sprint(*lv.Valid)})
	}
	if lv.A != nil {
		kv = append(kv, [2]string{"a", fmt.Sprint(*lv.A)})
	}
	if lv.B != nil {
		kv = append(kv, [2]string{"b", q(*lv.B)})
	}
	if lv.N != nil {
		kv = append(kv, [2]string{"n", fmt.Sprint(*lv.N)})
	}
	if lv.Path != nil {
		kv = append(kv, [2]string{"configfile", q(*lv.Path)})
	}
	if lv.Key != nil {
		kv = append(kv, [2]string{"key", q(*lv.Key)})
	}
	if lv.KeyF != nil {
		kv = append(kv, [2]string{keyFileKey, q(*lv.KeyF)})
	}
	var lst string
	if lv.L != nil {
		parts := make([]string, len(lv.L))
		for i, s := range lv.L {
			parts[i] = q(s)
		}
		lst = "[" + strings.Join(parts, ", ") + "]"
		kv = append(kv, [2]string{"l", lst})
	}
	var emb [][2]string // the embedded struct's leaf: promoted to the top level or under "emb", see embTop
	if lv.E != nil {
		if embTop {
			kv = append(kv, [2]string{"e", fmt.Sprint(*lv.E)})
		} else {
			emb = append(emb, [2]string{"e", fmt.Sprint(*lv.E)})
		}
	}
	var sub [][2]string
	if lv.X != nil {
		sub = append(sub, [2]string{"x", fmt.Sprint(*lv.X)})
	}
	if lv.Y != nil {
		sub = append(sub, [2]string{"y", q(*lv.Y)})
	}
	var b strings.Builder
	switch format {
	case "json", "cue":
		b.WriteString("{")
		first := true
		emit := func(k, v string) {
			if !first {
				b.WriteString(", ")
			}
			first = false
			b.WriteString(q(k) + ": " + v)
		}
		for _, e := range kv {
			emit(e[0], e[1])
		}
		if len(sub) > 0 {
			var sb strings.Builder
			sb.WriteString("{")
			for i, e := range sub {
				if i > 0 {
					sb.WriteString(", ")
				}
				sb.WriteString(q(e[0]) + ": " + e[1])
			}
			sb.WriteString("}")
			emit("sub", sb.String())
		}
		if len(emb) > 0 {
			emit("emb", "{"+q(emb[0][0])+": "+emb[0][1]+"}")
		}
		b.WriteString("}")
	case "yaml":
		for _, e := range kv {
			b.WriteString(e[0] + ": " + e[1] + "\n")
		}
		if len(sub) > 0 {
			b.WriteString("sub:\n")
			for _, e := range sub {
				b.WriteString("  " + e[0] + ": " + e[1] + "\n")
			}
		}
		if len(emb) > 0 {
			b.WriteString("emb:\n  " + emb[0][0] + ": " + emb[0][1] + "\n")
		}
		if b.Len() == 0 {
			b.WriteString("{}\n")
		}
	case "toml":
		for _, e := range kv {
			b.WriteString(e[0] + " = " + e[1] + "\n")
		}
		if len(sub) > 0 {
			b.WriteString("[sub]\n")
			for _, e := range sub {
				b.WriteString(e[0] + " = " + e[1] + "\n")
			}
		}
		if len(emb) > 0 {
			b.WriteString("[emb]\n" + emb[0][0] + " = " + emb[0][1] + "\n")
		}
	}
	return b.String()
}

func envVars(lv leafVals) map[string]string {
	m := map[string]string{}
	if lv.Valid != nil {
		m["VALID"] = fmt.Sprint(*lv.Valid)
	}
	if lv.A != nil {
		m["A"] = fmt.Sprint(*lv.A)
	}
	if lv.B != nil {
		m["B"] = *lv.B
	}
	if lv.X != nil {
		m["SUB_X"] = fmt.Sprint(*lv.X)
	}
	if lv.Y != nil {
		m["SUB_Y"] = *lv.Y
	}
	if lv.L != nil {
		m["L"] = strings.Join(lv.L, ",")
	}
	if lv.N != nil {
		m["N"] = fmt.Sprint(*lv.N)
	}
	if lv.Path != nil {
		m["CONFIGFILE"] = *lv.Path
	}
	if lv.Key != nil {
		m["KEY"] = *lv.Key
	}
	if lv.E != nil {
		m["E"] = fmt.Sprint(*lv.E)
	}
	if lv.KeyF != nil {
		m["KEY_FILE"] = *lv.KeyF
	}
	return m
}

func flagArgs(lv leafVals) []string {
	var a []string
	if lv.Valid != nil {
		a = append(a, fmt.Sprintf("-valid=%v", *lv.Valid))
	}
	if lv.A != nil {
		a = append(a, fmt.Sprintf("-a=%d", *lv.A))
	}
	if lv.B != nil {
		a = append(a, "-b="+*lv.B)
	}
	if lv.X != nil {
		a = append(a, fmt.Sprintf("-sub-x=%d", *lv.X))
	}
	if lv.Y != nil {
		a = append(a, "-sub-y="+*lv.Y)
	}
	if lv.L != nil {
		a = append(a, "-l="+strings.Join(lv.L, ","))
	}
	if lv.N != nil {
		a = append(a, fmt.Sprintf("-n=%d", *lv.N))
	}
	if lv.Path != nil {
		a = append(a, "-configfile="+*lv.Path)
	}
	if lv.Key != nil {
		a = append(a, "-key="+*lv.Key)
	}
	if lv.E != nil {
		a = append(a, fmt.Sprintf("-e=%d", *lv.E))
	}
	if lv.KeyF != nil {
		a = append(a, "-key_file="+*lv.KeyF)
	}
	return a
}

func defaultsOf(lv leafVals) *EzCfg {
	c := &EzCfg{}
	if lv.Valid != nil {
		c.Valid = *lv.Valid
	}
	if lv.A != nil {
		c.A = *lv.A
	}
	if lv.B != nil {
		c.B = *lv.B
	}
	if lv.X != nil {
		c.Sub.X = *lv.X
	}
	if lv.Y != nil {
		c.Sub.Y = *lv.Y
	}
	c.L = lv.L
	if lv.N != nil {
		c.N = *lv.N
	}
	if lv.Path != nil {
		c.ConfigFile = *lv.Path
	}
	if lv.Key != nil {
		c.Key = *lv.Key
	}
	if lv.KeyF != nil {
		c.KeyFile = *lv.KeyF
	}
	if lv.E != nil {
		c.E = *lv.E
	}
	return c
}

// per-case variation of the ez call: which entry point, which Params
type ezVariation struct {
	entry      int  // 0 ConfigFileEnvFlag+DecoderFromExtension, 1 FileExtensionDecoderConfigEnvFlag, 2 ...DecoderFactoryParams+DecoderFromExtensionWithParams, 3 the format's own entry point, 4 ConfigFileEnvFlag + own factory
	kebab      bool // FileFieldNameEncoder = kebab-case, DialsTagNameDecoder = the caller's own (ownDec) or left nil (Go conventions)
	ownDec     bool
	disableSet bool
	flatAnon   bool
}

func (v ezVariation) extBased() bool { return v.entry <= 2 }

func rawDecoder(format string, flatAnon bool) dials.Decoder {
	switch format {
	case "json":
		return &jsondec.Decoder{}
	case "yaml":
		return &yamldec.Decoder{FlattenAnonymous: flatAnon}
	case "toml":
		return &tomldec.Decoder{}
	case "cue":
		return &cuedec.Decoder{}
	}
	return nil
}

// the decoder exactly as ez wraps it (ez.go:218-243); the format is chosen by the harness's own
// knowledge (for the extension-driven entry points: its own extension table), NOT through
// ez.DecoderFromExtension, which is code under test
func ezDecoder(path, format string, v ezVariation) dials.Decoder {
	if v.extBased() {
		switch strings.ToLower(filepath.Ext(path)) {
		case ".json":
			format = "json"
		case ".yaml", ".yml":
			format = "yaml"
		case ".toml":
			format = "toml"
		case ".cue":
			format = "cue"
		default:
			return nil
		}
	}
	ms := []transform.Mangler{transform.NewAliasMangler(common.DialsTagName)}
	if v.kebab {
		var dec caseconversion.DecodeCasingFunc = caseconversion.DecodeGoCamelCase // what ez documents for a nil decoder
		if v.ownDec {
			dec = ownTagDecoder
		}
		ms = append(ms, tagformat.NewTagReformattingMangler(common.DialsTagName, dec, caseconversion.EncodeKebabCase))
	}
	if !v.disableSet {
		ms = append(ms, &transform.SetSliceMangler{})
	}
	return sourcewrap.NewTransformingDecoder(rawDecoder(format, v.flatAnon && v.entry != 0), ms...)
}

// keys of EzCfg.KeyFile and EzCfg.Valid in the file of the current case ("key-file", "va-lid" under the
// kebab encoder with the caller's own tag decoder); cases run serially
var keyFileKey, validKey = "key_file", "valid"

// where the embedded struct's leaf lives in the file of the current case: promoted to the top level
// (JSON and Cue without a field-name encoder; YAML with FlattenAnonymousFields) or under "emb" (an encoder
// gives the embedded field a tag of its own; YAML without flattening; TOML always)
var embTop bool

// the caller's own naming scheme for dials tags (Params.DialsTagNameDecoder "exists to allow for other
// naming schemes"): lower_snake_case in which the word "valid" reads as the two words "va", "lid"
func ownTagDecoder(s string) (caseconversion.DecodedIdentifier, error) {
	w, err := caseconversion.DecodeLowerSnakeCase(s)
	if err != nil {
		return nil, err
	}
	var out caseconversion.DecodedIdentifier
	for _, x := range w {
		if x == "valid" {
			out = append(out, "va", "lid")
		} else {
			out = append(out, x)
		}
	}
	return out, nil
}

func outcomeTerm(v reflect.Value, err error) string {
	if err != nil {
		return "(Err 0)"
	}
	return "(Ok " + rty.ValTerm(v) + ")"
}

var scratchRoot string

func run(raw json.RawMessage) driver.Result {
	var in input
	if err := json.Unmarshal(raw, &in); err != nil {
		panic(err)
	}
	r := coqfmt.NewRng(in.State)
	// a path is a path: `$` and `%` in a directory name are ordinary characters, never expanded
	dir, err := os.MkdirTemp(scratchRoot, coqfmt.Pick(r, []string{"case", "case", "ca$e$HOME-", "c${USER}%d-", "c$"}))
	if err != nil {
		panic(err)
	}
	defer os.RemoveAll(dir)
	format := coqfmt.Pick(r, []string{"json", "yaml", "toml", "cue"})
	watch := r.Chance(1, 2)
	vr := ezVariation{entry: r.Intn(5), kebab: r.Chance(1, 4), ownDec: r.Chance(1, 2), disableSet: r.Chance(1, 3), flatAnon: r.Chance(1, 2)}
	if vr.flatAnon && r.Chance(1, 2) {
		format = "yaml" // the only format the option matters for
	}
	keyFileKey, validKey = "key_file", "valid"
	viaAlias := r.Chance(1, 3) // the file names the leaf by its alias (re-cased like every other key)
	if viaAlias {
		keyFileKey = "key_path"
	}
	if vr.kebab {
		keyFileKey = "key-file"
		if viaAlias {
			keyFileKey = "key-path"
		}
		if vr.ownDec {
			validKey = "va-lid"
		}
	}
	// Params.FlattenAnonymousFields reaches the YAML decoder through every entry point that builds the decoder
	// itself; a plain DecoderFactory (entry 0: ez.DecoderFromExtension) has no access to the Params
	effFlat := vr.flatAnon && vr.entry != 0
	embTop = ((format == "json" || format == "cue") && !vr.kebab) || (format == "yaml" && effFlat)
	ext := format
	if format == "yaml" && r.Chance(1, 2) {
		ext = "yml"
	}
	switch r.Intn(6) { // extensions are matched case-insensitively
	case 0:
		ext = strings.ToUpper(ext)
	case 1:
		ext = strings.ToUpper(ext[:1]) + ext[1:]
	}
	unknownExt := false
	if vr.extBased() {
		if r.Chance(1, 25) {
			ext = coqfmt.Pick(r, []string{"conf", "jsonx", "ya", "txt"})
			unknownExt = true // no decoder for it: the entry point must fail when a file is named
		}
	} else if r.Chance(1, 2) {
		// the format is fixed by the entry point / the caller's factory: the file's name is irrelevant,
		// even when it carries ANOTHER format's extension
		ext = coqfmt.Pick(r, []string{"conf", "json", "yaml", "toml", "cue", "txt"})
	}
	pathA := filepath.Join(dir, "a."+ext)
	pathB := filepath.Join(dir, "b."+ext)
	pathMissing := filepath.Join(dir, "missing."+ext)

	def := genLeafs(r, 0, 3, 4)
	fileA := genLeafs(r, 1, 1, 2)
	fileB := genLeafs(r, 1, 1, 2)
	envL := genLeafs(r, 2, 1, 3)
	flagL := genLeafs(r, 3, 1, 3)
	if effFlat && format == "yaml" { // the embedded leaf comes from the file more often than not
		for _, f := range []*leafVals{&fileA, &fileB} {
			if f.E == nil {
				v := r.Intn(1000) + 10000
				f.E = &v
			}
		}
	}
	// validity: decided by whichever layer sets it last; often only the file makes it valid
	switch r.Intn(6) {
	case 0:
		t := true
		def.Valid = &t
	case 1, 2, 3:
		t := true
		fileA.Valid = &t
		fileB.Valid = &t
	case 4:
		t, f := true, false
		fileA.Valid = &t
		envL.Valid = &f
	default: // nothing makes it valid
	}
	// which file is named, by whom
	situation := r.Intn(10)
	kind := ""
	switch {
	case situation < 4:
		def.Path = &pathA
		kind = "path-default"
	case situation < 6:
		def.Path = &pathA
		envL.Path = &pathB
		kind = "path-env-overrides"
	case situation < 7:
		def.Path = &pathA
		flagL.Path = &pathB
		kind = "path-flag-overrides"
	case situation < 8:
		if r.Chance(1, 2) {
			def.Path = &pathMissing
			kind = "file-missing"
		} else if r.Chance(1, 2) {
			envL.Path = &pathA
			kind = "path-only-env"
		} else {
			flagL.Path = &pathA
			kind = "path-only-flag"
		}
	case situation < 9:
		kind = "no-path"
		if r.Chance(1, 3) {
			kind = "empty-path-set" // ConfigPath() = ("", true): there is no such file - an error, never a file-less config
		}
	default:
		def.Path = &pathA
		kind = "file-malformed"
	}
	// a flag (or env variable) given explicitly with the DEFAULT's value must still win over the file
	if def.A != nil && r.Chance(1, 3) {
		v := *def.A
		flagL.A = &v
		w := v + 5
		fileA.A, fileB.A = &w, &w
	}
	if def.B != nil && r.Chance(1, 4) {
		v := *def.B
		envL.B = &v
		w := v + "x"
		fileA.B, fileB.B = &w, &w
	}
	bigFile := false
	pathAlwaysSet = kind == "empty-path-set"
	contentA := render(format, fileA)
	if kind == "file-malformed" {
		contentA = "{{{ not : [ valid"
	}
	contentB := render(format, fileB)
	if kind != "file-malformed" && r.Chance(1, 40) {
		// a config file larger than 1 MiB: insignificant padding in FRONT of the data
		var pad string
		switch format {
		case "json":
			pad = strings.Repeat(" \n", 600000)
		case "cue":
			pad = strings.Repeat("// padding padding padding padding\n", 36000)
		default:
			pad = strings.Repeat("# padding padding padding padding\n", 36000)
		}
		contentA, contentB = pad+contentA, pad+contentB
		bigFile = true
	}
	os.WriteFile(pathA, []byte(contentA), 0o644)
	os.WriteFile(pathB, []byte(contentB), 0o644)

	ev := envVars(envL)
	for k, v := range ev {
		os.Setenv(k, v)
	}
	defer func() {
		for k := range ev {
			os.Unsetenv(k)
		}
	}()

	defaults := defaultsOf(def)
	T := reflect.TypeOf(EzCfg{})
	PT := ptrify.Pointerify(T, reflect.ValueOf(defaults).Elem())
	typ := dials.NewType(PT)
	ctxBG := context.Background()

	// the three layers, from the real sources
	envV, envErr := (&env.Source{}).Value(ctxBG, typ)
	// how the flag source meets the standard library's flag set: built by dials alone; or with flags the
	// APPLICATION registered first ("if the flag already exists, don't register so the user can override
	// our behavior" - the flag still fills the field); or one flag set shared by two initialisations
	// (flag.CommandLine in a program that sets up its configuration twice)
	flagMode := r.Intn(6)
	var sharedFS *stdflag.FlagSet
	if flagMode <= 1 {
		sharedFS = stdflag.NewFlagSet("", stdflag.ContinueOnError)
		// flags that belong to the application alone, given on the command line, sorting before, between and
		// after the config's flags
		sharedFS.Bool("0-app-debug", false, "not a config flag")
		sharedFS.String("app-mode", "", "not a config flag")
		sharedFS.Int("zz-app-level", 0, "not a config flag")
		if flagMode == 0 {
			sharedFS.Int("a", 99, "registered by the application")
			sharedFS.String("b", "app", "registered by the application")
			sharedFS.String("configfile", "", "registered by the application")
		}
	}
	mkFlags := func() *flag.Set {
		if sharedFS != nil {
			fs, args := sharedFS, append([]string{"-0-app-debug", "-app-mode=x", "-zz-app-level=3"}, flagArgs(flagL)...)
			return &flag.Set{Flags: fs, ParseFunc: func() error { return fs.Parse(args) }}
		}
		tmpl := *defaults
		s, err := flag.NewSetWithArgs(flag.DefaultFlagNameConfig(), &tmpl, flagArgs(flagL))
		if err != nil {
			panic(err)
		}
		return s
	}
	flagV, flagErr := mkFlags().Value(ctxBG, typ)
	if envErr != nil || flagErr != nil {
		panic(fmt.Errorf("harness input rejected by env/flag source: %v %v", envErr, flagErr))
	}
	fileLayer := func(p string) string {
		dec := ezDecoder(p, format, vr)
		if dec == nil {
			return "(Err 0)"
		}
		src, err := file.NewSource(p, dec)
		if err != nil {
			return "(Err 0)"
		}
		v, err := src.Value(ctxBG, typ)
		return outcomeTerm(v, err)
	}
	files := []string{
		fmt.Sprintf("(%s, %s)", coqfmt.Str(pathA), fileLayer(pathA)),
		fmt.Sprintf("(%s, %s)", coqfmt.Str(pathB), fileLayer(pathB)),
		fmt.Sprintf("(%s, (Err 0))", coqfmt.Str(pathMissing)),
		"([], (Err 0))",
	}

	// ---- run the real entry point
	logMu.Lock()
	verifyLog = nil
	logMu.Unlock()
	var cbMu sync.Mutex
	newCfgCalls, errCalls := 0, 0
	var newCfgArgs []string
	params := ez.Params[EzCfg]{
		WatchConfigFile:        watch,
		FlagSource:             mkFlags(),
		DisableAutoSetToSlice:  vr.disableSet,
		FlattenAnonymousFields: vr.flatAnon,
		OnNewConfig: func(ctx context.Context, o, n *EzCfg) {
			cbMu.Lock()
			newCfgCalls++
			newCfgArgs = append(newCfgArgs, fmt.Sprintf("(%s, %s)", rty.StructFieldsTerm(reflect.ValueOf(o).Elem()),
				rty.StructFieldsTerm(reflect.ValueOf(n).Elem())))
			cbMu.Unlock()
		},
		OnWatchedError: func(ctx context.Context, err error, o, n *EzCfg) {
			cbMu.Lock()
			errCalls++
			cbMu.Unlock()
		},
	}
	ctx, cancel := context.WithCancel(ctxBG)
	defer cancel()
	cfgIn := *defaults
	var direct []string
	type res struct {
		d   *dials.Dials[EzCfg]
		err error
	}
	ch := make(chan res, 1)
	go func() {
		defer func() {
			if p := recover(); p != nil {
				ch <- res{nil, fmt.Errorf("PANIC: %v", p)}
			}
		}()
		if vr.kebab {
			if vr.ownDec {
				params.DialsTagNameDecoder = ownTagDecoder
			}
			params.FileFieldNameEncoder = caseconversion.EncodeKebabCase
		}
		var d *dials.Dials[EzCfg]
		var err error
		switch vr.entry {
		case 0:
			d, err = ez.ConfigFileEnvFlag(ctx, &cfgIn, ez.DecoderFromExtension, params)
		case 1:
			d, err = ez.FileExtensionDecoderConfigEnvFlag(ctx, &cfgIn, params)
		case 2:
			d, err = ez.ConfigFileEnvFlagDecoderFactoryParams(ctx, &cfgIn, ez.DecoderFromExtensionWithParams[EzCfg], params)
		case 3:
			switch format {
			case "json":
				d, err = ez.JSONConfigEnvFlag(ctx, &cfgIn, params)
			case "yaml":
				d, err = ez.YAMLConfigEnvFlag(ctx, &cfgIn, params)
			case "toml":
				d, err = ez.TOMLConfigEnvFlag(ctx, &cfgIn, params)
			default:
				d, err = ez.CueConfigEnvFlag(ctx, &cfgIn, params)
			}
		default:
			d, err = ez.ConfigFileEnvFlag(ctx, &cfgIn, func(string) dials.Decoder { return rawDecoder(format, vr.flatAnon) }, params)
		}
		ch <- res{d, err}
	}()
	var out res
	select {
	case out = <-ch:
	case <-time.After(20 * time.Second):
		direct = append(direct, "ez entry point did not return within 20 s")
		cancel()
		out = res{nil, errors.New("timeout")}
	}
	if out.err != nil && strings.HasPrefix(out.err.Error(), "PANIC") {
		direct = append(direct, "ez entry point panicked: "+out.err.Error())
	}
	implOK := out.err == nil
	{
		// direct oracle, independent of the model and of the sources' own Value():
		// per leaf the last of default < file < env < flag that set it
		fl := fileA
		if kind == "path-env-overrides" || kind == "path-flag-overrides" {
			fl = fileB
		}
		if kind == "no-path" || kind == "empty-path-set" {
			fl = leafVals{}
		}
		exp := *defaultsOf(def)
		for _, lv := range []leafVals{fl, envL, flagL} {
			if lv.Valid != nil {
				exp.Valid = *lv.Valid
			}
			if lv.A != nil {
				exp.A = *lv.A
			}
			if lv.B != nil {
				exp.B = *lv.B
			}
			if lv.X != nil {
				exp.Sub.X = *lv.X
			}
			if lv.Y != nil {
				exp.Sub.Y = *lv.Y
			}
			if lv.L != nil {
				exp.L = lv.L
			}
			if lv.N != nil {
				exp.N = *lv.N
			}
			if lv.Path != nil {
				exp.ConfigFile = *lv.Path
			}
			if lv.Key != nil {
				exp.Key = *lv.Key
			}
			if lv.KeyF != nil {
				exp.KeyFile = *lv.KeyF
			}
			if lv.E != nil {
				exp.E = *lv.E
			}
		}
		switch {
		case kind == "file-missing" || kind == "file-malformed" || kind == "empty-path-set":
			if implOK {
				direct = append(direct, "a missing or malformed config file must be the entry point's error")
			}
		case unknownExt && kind != "no-path":
			if implOK {
				direct = append(direct, "a config file whose extension names no decoder must be the entry point's error")
			}
		case exp.Valid && !implOK:
			direct = append(direct, fmt.Sprintf("the fully stacked config is valid and the file is well-formed, but the entry point failed: %v", out.err))
		case !exp.Valid && implOK:
			direct = append(direct, "the fully stacked config does not verify, but the entry point succeeded")
		case implOK && !reflect.DeepEqual(&exp, out.d.View()):
			direct = append(direct, fmt.Sprintf("first view is not defaults < file < env < flags per leaf: got %+v want %+v", *out.d.View(), exp))
		}
	}
	viewTerm := "None"
	eventsEmpty := true
	if implOK {
		viewTerm = "(Some " + rty.StructFieldsTerm(reflect.ValueOf(out.d.View()).Elem()) + ")"
		select {
		case <-out.d.Events():
			eventsEmpty = false
		default:
		}
	}
	snapLog := func() []string {
		logMu.Lock()
		defer logMu.Unlock()
		return append([]string(nil), verifyLog...)
	}
	snapCalls := func() (int, int) {
		cbMu.Lock()
		defer cbMu.Unlock()
		return newCfgCalls, errCalls
	}
	// global callbacks are asynchronous: give the callback goroutine a moment
	time.Sleep(2 * time.Millisecond)
	vlog1 := snapLog()
	n1, e1 := snapCalls()

	var tags []string
	// ---- a later file change (watching only)
	updTerm := "None"
	if implOK && watch && kind != "no-path" {
		used := pathA
		if kind == "path-env-overrides" || kind == "path-flag-overrides" {
			used = pathB
		}
		if kind == "file-missing" {
			used = pathMissing
		}
		newLeafs := genLeafs(r, 1, 1, 2)
		if r.Chance(2, 3) {
			t := true
			newLeafs.Valid = &t
		} else if r.Chance(1, 2) {
			f := false
			newLeafs.Valid = &f
		}
		tmp := used + ".tmp"
		newContent := []byte(render(format, newLeafs))
		oldContent, _ := os.ReadFile(used)
		os.WriteFile(tmp, newContent, 0o644)
		newLayer := func() string { // decode the new content exactly as the watcher will
			os.Rename(tmp, used)
			return fileLayer(used)
		}()
		if string(oldContent) == string(newContent) {
			// atomically replacing the file with identical bytes must not produce a new version (C17):
			// the expectation is the same as for content that does not decode - nothing changes
			newLayer = "(Err 1)"
			tags = append(tags, "update-identical-bytes")
		}
		before := out.d.View()
		deadline := time.Now().Add(8 * time.Second)
		for time.Now().Before(deadline) {
			n2, e2 := snapCalls()
			if out.d.View() != before || n2 > n1 || e2 > e1 || len(snapLog()) > len(vlog1) {
				break
			}
			time.Sleep(time.Millisecond)
		}
		time.Sleep(5 * time.Millisecond) // let callbacks of that re-stack finish
		vlog2 := snapLog()
		_, e2 := snapCalls()
		cbMu.Lock()
		args2 := append([]string(nil), newCfgArgs[n1:]...)
		cbMu.Unlock()
		updTerm = fmt.Sprintf("(Some (%s, %s, %s, %s, %d))", newLayer,
			rty.StructFieldsTerm(reflect.ValueOf(out.d.View()).Elem()),
			coqfmt.List(vlog2[len(vlog1):]), coqfmt.List(args2), e2-e1)
	}
	cancel()

	defTerm := rty.StructFieldsTerm(reflect.ValueOf(defaults).Elem())
	ctor := "EzCase"
	if pathAlwaysSet {
		ctor = "EzCaseAlways"
	}
	term := fmt.Sprintf(ctor+" %s %s %s %s %d %d %s %s (EzObs %s %s %s %s %d %d %s)",
		rty.FieldsTerm(T), defTerm, rty.ValTerm(envV), rty.ValTerm(flagV), pathIdx, validIdx, coqfmt.Bool(watch),
		coqfmt.List(files),
		coqfmt.Bool(implOK), viewTerm, coqfmt.List(vlog1), coqfmt.Bool(eventsEmpty), n1, e1, updTerm)
	tags = append(tags, "format-"+format, fmt.Sprintf("watch-%v", watch), fmt.Sprintf("impl-ok-%v", implOK),
		"entry-"+[]string{"ConfigFileEnvFlag+DecoderFromExtension", "FileExtensionDecoderConfigEnvFlag", "DecoderFactoryParams+DecoderFromExtensionWithParams", "format-specific", "ConfigFileEnvFlag+own-factory"}[vr.entry])
	if vr.kebab {
		tags = append(tags, "kebab-file-keys")
	}
	if unknownExt {
		tags = append(tags, "unknown-extension")
	}
	if updTerm != "None" {
		tags = append(tags, "with-file-update")
	}
	if bigFile {
		tags = append(tags, "file-over-1MiB")
	}
	if envL.KeyF != nil && envL.Key == nil {
		tags = append(tags, "env-KEY_FILE-without-KEY")
	}
	nOrigins := 0
	for _, lv := range []leafVals{def, fileA, envL, flagL} {
		if lv.A != nil {
			nOrigins++
		}
	}
	return driver.Result{Coq: term, Kind: kind, Nontrivial: kind != "no-path" && nOrigins >= 2, Tags: tags, Direct: direct}
}

func gen(r *coqfmt.Rng, n int, tier string) []json.RawMessage {
	var out []json.RawMessage
	for i := 0; i < n; i++ {
		b, _ := json.Marshal(input{K: "gen", State: r.U64()})
		out = append(out, b)
	}
	return out
}

func main() {
	var err error
	scratchRoot, err = os.MkdirTemp("/var/tmp", "verif-c18-")
	if err != nil {
		panic(err)
	}
	defer os.RemoveAll(scratchRoot)
	driver.Main(driver.Engine{
		Prop: "C18", CoqImport: "Dials.Check.C18Check", CoqRun: "run_cases",
		Rule: "a declared config type (path, validity flag, ints, strings, nested struct, string slice) with every leaf assigned to a random subset of {default, file, env, flag} with origin-tagged distinct values; format in {json,yaml,toml,cue}; watching on/off; situations: path from defaults / overridden by env / by flag / missing file / malformed file / no path; validity decided by default, file or env; with watching a later atomic file replacement; non-trivial: a file is named and leaf A is set by >=2 origins; distinct = distinct PRNG case states",
		Gen:  gen, Run: run,
	})
}
