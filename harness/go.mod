module verifharness

go 1.18

require github.com/vimeo/dials v0.0.0

require golang.org/x/text v0.19.0 // indirect

replace github.com/vimeo/dials => /repo
