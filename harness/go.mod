module verifharness

go 1.18

require (
	cuelang.org/go v0.6.0
	github.com/fatih/structtag v1.2.0
	github.com/pelletier/go-toml v1.9.5
	github.com/spf13/pflag v1.0.5
	github.com/vimeo/dials v0.0.0
	golang.org/x/text v0.19.0
	gopkg.in/yaml.v2 v2.4.0
)

require (
	github.com/cockroachdb/apd/v3 v3.2.1 // indirect
	github.com/davecgh/go-spew v1.1.1 // indirect
	github.com/fsnotify/fsnotify v1.8.0 // indirect
	github.com/google/uuid v1.6.0 // indirect
	github.com/mpvl/unique v0.0.0-20150818121801-cbe035fff7de // indirect
	github.com/pmezard/go-difflib v1.0.0 // indirect
	github.com/stretchr/testify v1.9.0 // indirect
	golang.org/x/net v0.30.0 // indirect
	golang.org/x/sys v0.26.0 // indirect
	gopkg.in/yaml.v3 v3.0.1 // indirect
)

replace github.com/vimeo/dials => /repo
